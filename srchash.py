"""Source fingerprints of the repository under test (used by ./check and tools/update_hashes.py)."""
import hashlib, json, os, re

MOD = "github.com/Tom-Johnston/mamba/"


def hash_tree(repo):
    out = {}
    for d, dirs, fs in os.walk(repo):
        dirs[:] = [x for x in dirs if not x.startswith(".")]
        for f in fs:
            if f.endswith(".go") and not f.endswith("_test.go") and not f.endswith("verif_export.go"):
                p = os.path.join(d, f)
                out[os.path.relpath(p, repo)] = hashlib.sha256(open(p, "rb").read()).hexdigest()
    return out


def imports(repo, files):
    """package directory -> set of package directories of this module it imports"""
    imp = {}
    for f in files:
        try:
            src = open(os.path.join(repo, f)).read()
        except OSError:
            continue
        pk = os.path.dirname(f)
        for m in re.finditer(r'"%s([^"]+)"' % re.escape(MOD), src):
            imp.setdefault(pk, set()).add(m.group(1))
    return imp


def changed_for(pid, repo, verif):
    """files whose change matters to property pid: changed anchor files of pid, plus changed
    files anchored by no property that lie in a package the anchors' packages import"""
    try:
        rec = json.load(open(os.path.join(verif, "source_hashes.json")))
    except OSError:
        return []
    cur = hash_tree(repo)
    changed = {f for f in set(rec) | set(cur) if rec.get(f) != cur.get(f)}
    if not changed:
        return []
    anchors, every = set(), set()
    for l in open(os.path.join(verif, "properties.jsonl")):
        p = json.loads(l)
        fs = set(p.get("anchors", {}).get("files", []))
        every |= fs
        if p["id"] == pid:
            anchors = fs
    hit = changed & anchors
    orphan = changed - every
    if orphan:
        imp = imports(repo, cur)
        pkgs, todo = set(), [os.path.dirname(f) for f in anchors]
        while todo:
            k = todo.pop()
            if k in pkgs:
                continue
            pkgs.add(k)
            todo += list(imp.get(k, ()))
        hit |= {f for f in orphan if os.path.dirname(f) in pkgs}
    return sorted(hit)
