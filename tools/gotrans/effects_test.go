package main

// Self-test of the effects translator (C19): it must fail closed.  Each mutation is applied to
// a temporary copy of the repository (outside /repo and /verif); the regenerated table must
// change, and the Coq development over it must break at the expected lemma -- an unknown or
// impure construct is never silently treated as pure.
//
//	cd /verif/tools/gotrans && go test -run TestEffectsFailClosed -v
//
// VERIF_REPO selects the repository (default /repo); coqc must be on PATH (the Coq part is
// skipped, with a message, if it is not).

import (
	"fmt"
	"os"
	"os/exec"
	"path/filepath"
	"regexp"
	"strconv"
	"strings"
	"testing"
)

type mutation struct {
	name    string
	file    string      // relative to the repository
	edits   [][2]string // anchor -> replacement (anchor must occur exactly once)
	newFile [2]string   // optional: relative path, content
	expect  string      // substring the regenerated table must contain ("" = only "differs")
	lemma   string      // lemma of Effects/Instance.v at which the build must break
	check   string      // optional Coq file that must compile against the mutated table (imports Flow only)
	wantErr bool        // the translator itself must report failure
}

const wGlobalsCheck = `From Coq Require Import List String Bool.
From Mamba Require Import Gen.Effects Effects.Closure Effects.Flow.
Import ListNotations. Open Scope string_scope.
Goal forallb (fun p => forallb (fun r => negb (String.prefix "g:" r)) (snd p)) (wcompute funcs) = false.
Proof. vm_compute. reflexivity. Qed.
`

var mutations = []mutation{
	{name: "comb-memo-map", file: "comb/comb.go",
		edits: [][2]string{
			{"var maxSizes =", "var memo = map[[2]int]int{}\n\nvar maxSizes ="},
			{"func Coeff(n, k int) int {\n", "func Coeff(n, k int) int {\n\tif v, ok := memo[[2]int{n, k}]; ok {\n\t\treturn v\n\t}\n\tdefer func() { memo[[2]int{n, k}] = 0 }()\n"}},
		expect: `gwrites := ["comb.memo"]`, lemma: "no_global_writes_b"},
	{name: "lookup-writes-dawg-through-alias", file: "dawg/dawg.go",
		edits:  [][2]string{{"\tdawg := t\n\tindex := -1", "\tdawg := t\n\tdawg.numWords += 0\n\tindex := -1"}},
		expect: `fname := "dawg.Dawg.Lookup"; fexported := true; gwrites := []; swrites := ["dawg.Dawg"]`, lemma: "dawg_readonly_b"},
	{name: "lookup-hit-counter", file: "dawg/dawg.go",
		edits: [][2]string{{"\tnumWords   int\n", "\tnumWords   int\n\thits       int\n"},
			{"\tdawg := t\n\tindex := -1", "\tt.hits++\n\tdawg := t\n\tindex := -1"}},
		expect: `fname := "dawg.Dawg.Lookup"; fexported := true; gwrites := []; swrites := ["dawg.Dawg"]`, lemma: "dawg_readonly_b"},
	{name: "lookup-writes-through-call-result", file: "dawg/dawg.go",
		edits: [][2]string{{"\tdawg := t\n\tindex := -1", "\tt.self().numWords += 0\n\tdawg := t\n\tindex := -1"},
			{"func replaceOrRegister(", "func (t *Dawg) self() *Dawg { return t }\n\nfunc replaceOrRegister("}},
		expect: `fname := "dawg.Dawg.Lookup"; fexported := true; gwrites := []; swrites := ["dawg.Dawg"]`, lemma: "dawg_readonly_b"},
	{name: "lookup-closure-captures-receiver", file: "dawg/dawg.go",
		edits:  [][2]string{{"\tdawg := t\n\tindex := -1", "\tbump := func() { t.numWords += 0 }\n\tbump()\n\tdawg := t\n\tindex := -1"}},
		expect: `fname := "dawg.Dawg.Lookup"; fexported := true; gwrites := []; swrites := ["dawg.Dawg"]`, lemma: "dawg_readonly_b"},
	{name: "lookup-writes-through-copied-pointers", file: "dawg/dawg.go",
		edits:  [][2]string{{"\tdawg := t\n\tindex := -1", "\ttmp := make([]*Dawg, len(t.links))\n\tcopy(tmp, t.links)\n\tif len(tmp) > 0 {\n\t\ttmp[0].numWords += 0\n\t}\n\tdawg := t\n\tindex := -1"}},
		expect: `fname := "dawg.Dawg.Lookup"; fexported := true; gwrites := []; swrites := ["dawg.Dawg"]`, lemma: "dawg_readonly_b"},
	{name: "iterator-caps-callers-slice-in-place", file: "itertools/combinations.go",
		edits:  [][2]string{{"\t\titer.state = make([]int, len(iter.m))\n\t\tx := iter.k\n", "\t\titer.state = make([]int, len(iter.m))\n\t\tfor j := range iter.m {\n\t\t\tif iter.m[j] > iter.k {\n\t\t\t\titer.m[j] = iter.k\n\t\t\t}\n\t\t}\n\t\tx := iter.k\n"}},
		expect: "", lemma: "borrowed_not_written_b"},
	{name: "view-sorts-callers-vertex-list", file: "graph/subgraph.go",
		edits:  [][2]string{{"func (h inducedSubgraph) Neighbours(v int) []int {\n", "func (h inducedSubgraph) Neighbours(v int) []int {\n\tints.Reverse(h.verts)\n\tints.Reverse(h.verts)\n"}},
		expect: `("ints.Reverse", "p0", "graph.inducedSubgraph.verts")`, lemma: "graph_readonly_b"},
	{name: "add-sorts-callers-slice", file: "sortints/sorted_ints.go",
		edits:  [][2]string{{"\tx = tmp\n\tsort.Ints(x)\n", "\t_ = tmp\n\tsort.Ints(x)\n"}},
		expect: "", lemma: "W_exported_b"},
	{name: "go-statement", file: "comb/comb.go",
		edits:  [][2]string{{"func Coeff(n, k int) int {\n", "func Coeff(n, k int) int {\n\tgo func() {}()\n"}},
		expect: `gostmts := 1`, lemma: "no_go_statements_b"},
	{name: "method-value", file: "graph/graph_dense.go",
		edits:  [][2]string{{"\ttmpDegreeSequence := make([]int, len(g.DegreeSequence))\n", "\tnf := g.N\n\t_ = nf\n\ttmpDegreeSequence := make([]int, len(g.DegreeSequence))\n"}},
		expect: `unknown := ["method value g.N`, lemma: "no_unknown_b"},
	{name: "reflect", file: "graph/graph_dense.go",
		edits: [][2]string{{"package graph\n", "package graph\n\nimport \"reflect\"\n"},
			{"\ttmpDegreeSequence := make([]int, len(g.DegreeSequence))\n", "\t_ = reflect.ValueOf(&g)\n\ttmpDegreeSequence := make([]int, len(g.DegreeSequence))\n"}},
		expect: `unknown := ["use of reflect.ValueOf`, lemma: "no_unknown_b"},
	{name: "unsafe", file: "graph/graph_dense.go",
		edits: [][2]string{{"package graph\n", "package graph\n\nimport \"unsafe\"\n"},
			{"\ttmpDegreeSequence := make([]int, len(g.DegreeSequence))\n", "\t_ = unsafe.Pointer(&g)\n\ttmpDegreeSequence := make([]int, len(g.DegreeSequence))\n"}},
		expect: `unknown := ["use of unsafe.Pointer`, lemma: "no_unknown_b"},
	{name: "linkname", file: "comb/comb.go",
		edits:  [][2]string{{"var maxSizes =", "//go:linkname Coeffs runtime.coeffs\n\nvar maxSizes ="}},
		expect: `unknown := ["go:linkname in comb.go"]`, lemma: "no_unknown_b"},
	{name: "function-typed-variable-called-in-observer", file: "graph/graph_dense.go",
		edits: [][2]string{{"package graph\n", "package graph\n\nvar hook = func() {}\n"},
			{"\ttmpDegreeSequence := make([]int, len(g.DegreeSequence))\n", "\thook()\n\ttmpDegreeSequence := make([]int, len(g.DegreeSequence))\n"}},
		expect: `dyncalls := ["hook"]`, lemma: "callbacks_b"},
	{name: "global-written-through-local-alias", file: "comb/comb.go",
		edits:  [][2]string{{"func Coeff(n, k int) int {\n", "func Coeff(n, k int) int {\n\trow := smallEntries[0]\n\trow[0] = 1\n"}},
		expect: `gwrites := ["comb.smallEntries"]`, lemma: "no_global_writes_b"},
	{name: "global-handed-to-a-writer", file: "ints/ints.go",
		edits:   [][2]string{{"func Max(", "func touch() { Reverse(maxSizes) }\n\nfunc Max("}},
		newFile: [2]string{"ints/tables.go", "package ints\n\nvar maxSizes = []int{1, 2, 3}\n"},
		expect:  `("ints.Reverse", "p0", "g:ints.maxSizes")`, lemma: "globals_are_tables", check: wGlobalsCheck},
	{name: "observer-refreshes-cache-in-place", file: "graph/graph_dense.go",
		edits:  [][2]string{{"\ttmpDegreeSequence := make([]int, len(g.DegreeSequence))\n", "\tfor i := range g.DegreeSequence {\n\t\tg.DegreeSequence[i] += 0\n\t}\n\ttmpDegreeSequence := make([]int, len(g.DegreeSequence))\n"}},
		expect: `fname := "graph.DenseGraph.Degrees"; fexported := true; gwrites := []; swrites := ["graph.DenseGraph"]`, lemma: "graph_readonly_b"},
	{name: "observer-sorts-shared-slice-with-library", file: "graph/graph_dense.go",
		edits: [][2]string{{"package graph\n", "package graph\n\nimport \"sort\"\n"},
			{"\ttmpDegreeSequence := make([]int, len(g.DegreeSequence))\n", "\tsort.Ints(g.DegreeSequence)\n\ttmpDegreeSequence := make([]int, len(g.DegreeSequence))\n"}},
		expect: `extwrites := ["sort.Ints"]`, lemma: "graph_readonly_b"},
	{name: "observer-writes-in-type-switch", file: "graph/transformation.go",
		edits:  [][2]string{{"func (c complement) M() int {\n", "func (c complement) M() int {\n\tswitch h := c.g.(type) {\n\tcase *DenseGraph:\n\t\th.NumberOfEdges += 0\n\t}\n"}},
		expect: `fname := "graph.complement.M"; fexported := true; gwrites := []; swrites := ["graph.complement"]`, lemma: "graph_readonly_b"},
	{name: "degrees-returns-internal-slice", file: "graph/graph_dense.go",
		edits:  [][2]string{{"\treturn tmpDegreeSequence\n", "\t_ = tmpDegreeSequence\n\treturn g.DegreeSequence\n"}},
		expect: `fname := "graph.complement.Degrees"; fexported := true; gwrites := []; swrites := ["graph.complement"]`, lemma: "graph_readonly_b"},
	{name: "default-math-rand-source", file: "graph/generating.go",
		edits:  [][2]string{{"\tcode := make([]int, n-2)\n\tr := rand.New(rand.NewSource(seed))\n", "\tcode := make([]int, n-2)\n\trand.Seed(seed)\n\tr := rand.New(rand.NewSource(rand.Int63()))\n"}},
		expect: `gwrites := ["math/rand.<default source>"]`, lemma: "no_global_writes_b"},
	{name: "channel-early-return", file: "graph/clique.go",
		edits:  [][2]string{{"func AllMaximalCliques(g Graph, c chan []int) {\n\tn := g.N()\n", "func AllMaximalCliques(g Graph, c chan []int) {\n\tn := g.N()\n\tif n == 0 {\n\t\treturn\n\t}\n"}},
		expect: `(CIf CReturn CSkip)`, lemma: "chanskels_b"},
	{name: "channel-closed-in-loop", file: "graph/clique.go",
		edits:  [][2]string{{"\t\t\tc <- R\n\t\t\tcontinue\n", "\t\t\tc <- R\n\t\t\tclose(c)\n\t\t\tcontinue\n"}},
		expect: `CClose CContinue`, lemma: "chanskels_b"},
	{name: "channel-handed-on", file: "graph/clique.go",
		edits: [][2]string{{"\t\t\tc <- R\n\t\t\tcontinue\n", "\t\t\temit(c, R)\n\t\t\tcontinue\n"},
			{"//CliqueNumber returns", "func emit(c chan []int, r []int) { c <- r }\n\n//CliqueNumber returns"}},
		expect: `CUnknown`, lemma: "chan_ops_b"},
	{name: "type-error", file: "graph/graph_dense.go",
		edits:  [][2]string{{"\treturn tmpDegreeSequence\n", "\treturn 1\n"}},
		expect: "translation_failed_effects : bool := true", lemma: "translation_ok", wantErr: true},
	{name: "assembly-file", file: "comb/comb.go", newFile: [2]string{"comb/fast_amd64.s", "// TEXT ·fast(SB),$0\n"},
		expect: "translation_failed_effects : bool := true", lemma: "translation_ok", wantErr: true},
}

func copyTree(t *testing.T, src, dst string) {
	err := filepath.Walk(src, func(p string, fi os.FileInfo, err error) error {
		if err != nil {
			return err
		}
		rel, _ := filepath.Rel(src, p)
		if fi.IsDir() {
			if fi.Name() == ".git" {
				return filepath.SkipDir
			}
			return os.MkdirAll(filepath.Join(dst, rel), 0o755)
		}
		if !fi.Mode().IsRegular() {
			return nil
		}
		b, err := os.ReadFile(p)
		if err != nil {
			return err
		}
		return os.WriteFile(filepath.Join(dst, rel), b, 0o644)
	})
	if err != nil {
		t.Fatal(err)
	}
}

func run(dir string, name string, args ...string) (string, error) {
	cmd := exec.Command(name, args...)
	cmd.Dir = dir
	out, err := cmd.CombinedOutput()
	return string(out), err
}

var lemmaRe = regexp.MustCompile(`^\s*(?:Lemma|Theorem|Definition|Example)\s+([\w']+)`)

// buildCoq compiles the closure of Props/C19.v in dir/coq against dir/coq/Gen/Effects.v and
// returns the name of the statement at which it breaks ("" if it builds).
func buildCoq(t *testing.T, coq string, files []string) string {
	for _, f := range files {
		out, err := run(coq, "coqc", "-Q", ".", "Mamba", "-w", "-deprecated,-notation-overridden", f)
		if err == nil {
			continue
		}
		m := regexp.MustCompile(`File "\./([^"]+)", line (\d+)`).FindStringSubmatch(out)
		if m == nil {
			return "? " + out
		}
		src, _ := os.ReadFile(filepath.Join(coq, m[1]))
		lines := strings.Split(string(src), "\n")
		ln, _ := strconv.Atoi(m[2])
		for k := ln - 1; k >= 0; k-- {
			if k < len(lines) {
				if mm := lemmaRe.FindStringSubmatch(lines[k]); mm != nil {
					return mm[1]
				}
			}
		}
		return "? " + out
	}
	return ""
}

func TestEffectsFailClosed(t *testing.T) {
	repo := os.Getenv("VERIF_REPO")
	if repo == "" {
		repo = "/repo"
	}
	if _, err := os.Stat(filepath.Join(repo, "go.mod")); err != nil {
		t.Skip("no repository at " + repo)
	}
	verifCoq, _ := filepath.Abs("../../coq")
	tmp, err := os.MkdirTemp("", "gotrans-selftest-")
	if err != nil {
		t.Fatal(err)
	}
	defer os.RemoveAll(tmp)
	if strings.HasPrefix(tmp, "/repo") || strings.HasPrefix(tmp, "/verif") {
		t.Fatal("temporary directory inside /repo or /verif: " + tmp)
	}
	work := filepath.Join(tmp, "repo")
	copyTree(t, repo, work)

	base, err := effectsTranslator(work)
	if err != nil {
		t.Fatalf("baseline translation failed: %v", err)
	}
	baseTable := base["Effects.v"]
	if strings.Contains(baseTable, "translation_failed_effects : bool := true") {
		t.Fatal("baseline table says failed")
	}

	// private copy of the Coq development of C19
	coq := filepath.Join(tmp, "coq")
	haveCoq := true
	if _, err := exec.LookPath("coqc"); err != nil {
		haveCoq = false
		t.Log("coqc not found: only the table differences are checked")
	}
	coqFiles := []string{"Gen/Effects.v", "Effects/Closure.v", "Effects/Flow.v", "Effects/Fields.v", "Effects/Instance.v", "Props/C19.v"}
	if haveCoq {
		for _, d := range []string{"Effects", "Gen", "Props"} {
			os.MkdirAll(filepath.Join(coq, d), 0o755)
		}
		for _, f := range []string{"Effects/Skel.v", "Effects/Closure.v", "Effects/Flow.v", "Effects/Fields.v", "Effects/Chan.v", "Effects/Instance.v", "Props/C19.v"} {
			b, err := os.ReadFile(filepath.Join(verifCoq, f))
			if err != nil {
				t.Fatal(err)
			}
			os.WriteFile(filepath.Join(coq, f), b, 0o644)
		}
		os.WriteFile(filepath.Join(coq, "Gen/Effects.v"), []byte(baseTable), 0o644)
		if at := buildCoq(t, coq, append([]string{"Effects/Skel.v", "Effects/Chan.v"}, coqFiles...)); at != "" {
			t.Fatalf("the development does not build on the unmodified repository: breaks at %s", at)
		}
	}

	for _, m := range mutations {
		m := m
		t.Run(m.name, func(t *testing.T) {
			path := filepath.Join(work, m.file)
			orig, err := os.ReadFile(path)
			if err != nil {
				t.Fatal(err)
			}
			src := string(orig)
			for _, e := range m.edits {
				if strings.Count(src, e[0]) != 1 {
					t.Skipf("anchor %q occurs %d times in %s (the source changed: update the self-test)", e[0], strings.Count(src, e[0]), m.file)
				}
				src = strings.Replace(src, e[0], e[1], 1)
			}
			os.WriteFile(path, []byte(src), 0o644)
			defer os.WriteFile(path, orig, 0o644)
			if m.newFile[0] != "" {
				np := filepath.Join(work, m.newFile[0])
				os.WriteFile(np, []byte(m.newFile[1]), 0o644)
				defer os.Remove(np)
			}
			files, err := effectsTranslator(work)
			if (err != nil) != m.wantErr {
				t.Fatalf("translator error = %v, want error: %v", err, m.wantErr)
			}
			table := files["Effects.v"]
			if table == baseTable {
				t.Fatal("the regenerated table did not change")
			}
			if m.expect != "" && !strings.Contains(table, m.expect) {
				t.Fatalf("the regenerated table does not contain %q", m.expect)
			}
			if !haveCoq {
				return
			}
			os.WriteFile(filepath.Join(coq, "Gen/Effects.v"), []byte(table), 0o644)
			at := buildCoq(t, coq, coqFiles)
			if at == "" {
				t.Fatal("FAIL OPEN: the theorems still hold on the mutated table")
			}
			if at != m.lemma {
				t.Errorf("broke at %s, expected %s", at, m.lemma)
			}
			if m.check != "" {
				os.WriteFile(filepath.Join(coq, "Check.v"), []byte(m.check), 0o644)
				if out, err := run(coq, "coqc", "-Q", ".", "Mamba", "Check.v"); err != nil {
					t.Errorf("additional check does not hold: %s", out)
				}
			}
			fmt.Printf("    %-45s table changed, build breaks at %s\n", m.name, at)
		})
	}
}
