// Command gotrans regenerates coq/Gen/*.v from /repo's current source (DESIGN.md 2.2).
// It is not a Go-to-Gallina compiler: each translator extracts data or effect facts that the
// Coq theorems then re-check.  A translator that does not find the syntactic shape it expects
// must still write its file, with a definition `translation_failed_<name>` that makes the
// dependent theorem fail -- never a stale table.
//
//	gotrans -repo /repo -out /verif/coq/Gen all | <name>...
package main

import (
	"flag"
	"fmt"
	"os"
	"path/filepath"
	"sort"
)

// translators maps a name to a function producing the content of the .v files it owns
// (file name -> content).  Files are rewritten only when their content changes, so that
// `make` stays incremental.
var translators = map[string]func(repo string) (map[string]string, error){}

func main() {
	repo := flag.String("repo", "/repo", "repository root")
	out := flag.String("out", "/verif/coq/Gen", "output directory")
	flag.Parse()
	names := flag.Args()
	if len(names) == 0 || (len(names) == 1 && names[0] == "all") {
		names = nil
		for n := range translators {
			names = append(names, n)
		}
		sort.Strings(names)
	}
	os.MkdirAll(*out, 0o755)
	rc := 0
	for _, n := range names {
		t, ok := translators[n]
		if !ok {
			fmt.Fprintln(os.Stderr, "unknown translator", n)
			rc = 2
			continue
		}
		files, err := t(*repo)
		if err != nil {
			fmt.Fprintf(os.Stderr, "translator %s: %v\n", n, err)
			rc = 1
		}
		for name, content := range files {
			p := filepath.Join(*out, name)
			old, _ := os.ReadFile(p)
			if string(old) != content {
				if err := os.WriteFile(p, []byte(content), 0o644); err != nil {
					fmt.Fprintln(os.Stderr, err)
					rc = 1
				}
			}
		}
	}
	os.Exit(rc)
}
