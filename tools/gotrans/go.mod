module gotrans

go 1.21
