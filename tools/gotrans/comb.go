// Translator "comb": regenerates coq/Gen/CombTables.v from comb/comb.go (property C16).
//
// It extracts *data only*: the composite literals maxSizes and smallEntries, the constants
// largestK and maxInt, and the literal bound of the table branch of CoeffUint64
// (`if n <= 32 { return smallEntries[n][k] }`).  Every number is evaluated with go/constant
// under Go's rules for constant expressions (`^uint64(0)`, `uint64(^uint(0) >> 1)`, ...), with
// int/uint taken as 64 bits wide (DESIGN.md 3.1).  The Coq side (coq/Comb/Tables.v) re-checks by
// computation that the regenerated tables are what the proofs need.
//
// If the expected syntactic shape is not found the file is still written, with empty tables and
// `translation_failed_comb := true`, which the table check of coq/Comb/Tables.v refuses: the
// dependent theorems then fail; a stale table is never left behind.
package main

import (
	"fmt"
	"go/ast"
	"go/constant"
	"go/parser"
	"go/token"
	"path/filepath"
	"strings"
)

func init() { translators["comb"] = transComb }

// cval is a constant with the little of its type that matters here.
type cval struct {
	v        constant.Value
	typed    bool
	unsigned bool
	bits     uint
}

var combIntTypes = map[string]struct {
	unsigned bool
	bits     uint
}{
	"int": {false, 64}, "int8": {false, 8}, "int16": {false, 16}, "int32": {false, 32}, "int64": {false, 64},
	"uint": {true, 64}, "uint8": {true, 8}, "uint16": {true, 16}, "uint32": {true, 32}, "uint64": {true, 64},
	"uintptr": {true, 64}, "byte": {true, 8},
}

func combInRange(v constant.Value, unsigned bool, bits uint) bool {
	one := constant.MakeInt64(1)
	if unsigned {
		hi := constant.Shift(one, token.SHL, bits)
		return constant.Sign(v) >= 0 && constant.Compare(v, token.LSS, hi)
	}
	hi := constant.Shift(one, token.SHL, bits-1)
	lo := constant.UnaryOp(token.SUB, hi, 0)
	return constant.Compare(v, token.GEQ, lo) && constant.Compare(v, token.LSS, hi)
}

type combEval struct {
	consts map[string]ast.Expr // package-level constants by name
	depth  int
}

func (e *combEval) eval(x ast.Expr) (cval, error) {
	e.depth++
	defer func() { e.depth-- }()
	if e.depth > 200 {
		return cval{}, fmt.Errorf("constant expression too deep")
	}
	switch x := x.(type) {
	case *ast.ParenExpr:
		return e.eval(x.X)
	case *ast.BasicLit:
		if x.Kind != token.INT {
			return cval{}, fmt.Errorf("literal %s is not an integer", x.Value)
		}
		v := constant.MakeFromLiteral(x.Value, token.INT, 0)
		if v.Kind() != constant.Int {
			return cval{}, fmt.Errorf("bad integer literal %s", x.Value)
		}
		return cval{v: v}, nil
	case *ast.Ident:
		if d, ok := e.consts[x.Name]; ok {
			return e.eval(d)
		}
		return cval{}, fmt.Errorf("identifier %s is not a known constant", x.Name)
	case *ast.CallExpr:
		id, ok := x.Fun.(*ast.Ident)
		if !ok || len(x.Args) != 1 {
			return cval{}, fmt.Errorf("unsupported call in constant expression")
		}
		t, ok := combIntTypes[id.Name]
		if !ok {
			return cval{}, fmt.Errorf("unsupported conversion %s(...)", id.Name)
		}
		a, err := e.eval(x.Args[0])
		if err != nil {
			return cval{}, err
		}
		if !combInRange(a.v, t.unsigned, t.bits) {
			return cval{}, fmt.Errorf("constant %s overflows %s", a.v, id.Name)
		}
		return cval{v: a.v, typed: true, unsigned: t.unsigned, bits: t.bits}, nil
	case *ast.UnaryExpr:
		a, err := e.eval(x.X)
		if err != nil {
			return cval{}, err
		}
		var prec uint
		if x.Op == token.XOR && a.typed && a.unsigned {
			prec = a.bits
		}
		switch x.Op {
		case token.XOR, token.SUB, token.ADD:
		default:
			return cval{}, fmt.Errorf("unsupported unary operator %s", x.Op)
		}
		r := a
		r.v = constant.UnaryOp(x.Op, a.v, prec)
		if r.typed && !combInRange(r.v, r.unsigned, r.bits) {
			return cval{}, fmt.Errorf("constant %s overflows its type", r.v)
		}
		return r, nil
	case *ast.BinaryExpr:
		a, err := e.eval(x.X)
		if err != nil {
			return cval{}, err
		}
		b, err := e.eval(x.Y)
		if err != nil {
			return cval{}, err
		}
		r := a
		switch x.Op {
		case token.SHL, token.SHR:
			s, ok := constant.Uint64Val(b.v)
			if !ok || s > 4096 {
				return cval{}, fmt.Errorf("bad shift count %s", b.v)
			}
			r.v = constant.Shift(a.v, x.Op, uint(s))
		case token.ADD, token.SUB, token.MUL, token.QUO, token.REM, token.AND, token.OR, token.XOR, token.AND_NOT:
			if !a.typed {
				r.typed, r.unsigned, r.bits = b.typed, b.unsigned, b.bits
			} else if b.typed && (a.unsigned != b.unsigned || a.bits != b.bits) {
				return cval{}, fmt.Errorf("mismatched operand types")
			}
			op := x.Op
			if op == token.QUO || op == token.REM {
				if constant.Sign(b.v) == 0 {
					return cval{}, fmt.Errorf("division by zero")
				}
				if op == token.QUO {
					op = token.QUO_ASSIGN // integer division in go/constant
				}
			}
			r.v = constant.BinaryOp(a.v, op, b.v)
		default:
			return cval{}, fmt.Errorf("unsupported binary operator %s", x.Op)
		}
		if r.typed && !combInRange(r.v, r.unsigned, r.bits) {
			return cval{}, fmt.Errorf("constant %s overflows its type", r.v)
		}
		return r, nil
	}
	return cval{}, fmt.Errorf("unsupported constant expression %T", x)
}

// asType converts an (untyped or typed) constant to an element of the given integer type.
func (e *combEval) asType(x ast.Expr, unsigned bool, bits uint) (string, error) {
	c, err := e.eval(x)
	if err != nil {
		return "", err
	}
	if c.typed && (c.unsigned != unsigned || c.bits != bits) {
		return "", fmt.Errorf("constant of the wrong type")
	}
	if c.v.Kind() != constant.Int || !combInRange(c.v, unsigned, bits) {
		return "", fmt.Errorf("constant %s does not fit the element type", c.v)
	}
	return c.v.ExactString(), nil
}

func combIsUint64Slice(t ast.Expr, depth int) bool {
	for ; depth > 0; depth-- {
		a, ok := t.(*ast.ArrayType)
		if !ok || a.Len != nil {
			return false
		}
		t = a.Elt
	}
	id, ok := t.(*ast.Ident)
	return ok && id.Name == "uint64"
}

func transComb(repo string) (map[string]string, error) {
	src := filepath.Join(repo, "comb", "comb.go")
	var problems []string
	fail := func(format string, a ...interface{}) { problems = append(problems, fmt.Sprintf(format, a...)) }

	maxSizes, smallEntries := []string{}, [][]string{}
	largestK, maxInt, smallLimit := "0", "0", "0"

	fset := token.NewFileSet()
	f, err := parser.ParseFile(fset, src, nil, 0)
	if err != nil {
		fail("cannot parse %s: %v", src, err)
	} else {
		ev := &combEval{consts: map[string]ast.Expr{}}
		vars := map[string]*ast.ValueSpec{}
		varCount := map[string]int{}
		var coeffU64 *ast.FuncDecl
		for _, d := range f.Decls {
			switch d := d.(type) {
			case *ast.GenDecl:
				for _, s := range d.Specs {
					vs, ok := s.(*ast.ValueSpec)
					if !ok {
						continue
					}
					for i, n := range vs.Names {
						if d.Tok == token.CONST && i < len(vs.Values) {
							ev.consts[n.Name] = vs.Values[i]
						}
						if d.Tok == token.VAR {
							varCount[n.Name]++
							if len(vs.Names) == 1 && len(vs.Values) == 1 {
								vars[n.Name] = vs
							}
						}
					}
				}
			case *ast.FuncDecl:
				if d.Recv == nil && d.Name.Name == "CoeffUint64" {
					coeffU64 = d
				}
			}
		}
		// the tables must not be assigned anywhere else in the file (e.g. in an init function)
		ast.Inspect(f, func(n ast.Node) bool {
			check := func(x ast.Expr) {
				for {
					switch y := x.(type) {
					case *ast.IndexExpr:
						x = y.X
						continue
					case *ast.ParenExpr:
						x = y.X
						continue
					case *ast.Ident:
						if y.Name == "maxSizes" || y.Name == "smallEntries" {
							fail("%s is assigned at %s", y.Name, fset.Position(y.Pos()))
						}
					}
					return
				}
			}
			switch s := n.(type) {
			case *ast.AssignStmt:
				for _, l := range s.Lhs {
					check(l)
				}
			case *ast.IncDecStmt:
				check(s.X)
			case *ast.UnaryExpr:
				if s.Op == token.AND {
					check(s.X)
				}
			}
			return true
		})

		// maxSizes
		if vs := vars["maxSizes"]; vs == nil || varCount["maxSizes"] != 1 {
			fail("maxSizes is not a single package-level variable with one initialiser")
		} else if cl, ok := vs.Values[0].(*ast.CompositeLit); !ok || !combIsUint64Slice(cl.Type, 1) || (vs.Type != nil && !combIsUint64Slice(vs.Type, 1)) {
			fail("maxSizes is not a []uint64 composite literal")
		} else {
			for i, el := range cl.Elts {
				if _, keyed := el.(*ast.KeyValueExpr); keyed {
					fail("maxSizes[%d] is a keyed element", i)
					break
				}
				s, err := ev.asType(el, true, 64)
				if err != nil {
					fail("maxSizes[%d]: %v", i, err)
					break
				}
				maxSizes = append(maxSizes, s)
			}
		}
		// smallEntries
		if vs := vars["smallEntries"]; vs == nil || varCount["smallEntries"] != 1 {
			fail("smallEntries is not a single package-level variable with one initialiser")
		} else if cl, ok := vs.Values[0].(*ast.CompositeLit); !ok || !combIsUint64Slice(cl.Type, 2) || (vs.Type != nil && !combIsUint64Slice(vs.Type, 2)) {
			fail("smallEntries is not a [][]uint64 composite literal")
		} else {
		rows:
			for i, el := range cl.Elts {
				row, ok := el.(*ast.CompositeLit)
				if !ok || (row.Type != nil && !combIsUint64Slice(row.Type, 1)) {
					fail("smallEntries[%d] is not a composite literal row", i)
					break
				}
				r := []string{}
				for j, x := range row.Elts {
					if _, keyed := x.(*ast.KeyValueExpr); keyed {
						fail("smallEntries[%d][%d] is a keyed element", i, j)
						break rows
					}
					s, err := ev.asType(x, true, 64)
					if err != nil {
						fail("smallEntries[%d][%d]: %v", i, j, err)
						break rows
					}
					r = append(r, s)
				}
				smallEntries = append(smallEntries, r)
			}
		}
		// constants
		if x, ok := ev.consts["largestK"]; !ok {
			fail("constant largestK not found")
		} else if c, err := ev.eval(x); err != nil || c.v.Kind() != constant.Int {
			fail("largestK: %v", err)
		} else {
			largestK = c.v.ExactString()
		}
		if x, ok := ev.consts["maxInt"]; !ok {
			fail("constant maxInt not found")
		} else if c, err := ev.eval(x); err != nil || c.v.Kind() != constant.Int {
			fail("maxInt: %v", err)
		} else {
			maxInt = c.v.ExactString()
		}
		// the bound of the table branch: if n <= C { return smallEntries[n][k] }
		found := 0
		if coeffU64 != nil && coeffU64.Body != nil {
			ast.Inspect(coeffU64.Body, func(n ast.Node) bool {
				is, ok := n.(*ast.IfStmt)
				if !ok || is.Init != nil || is.Else != nil || len(is.Body.List) != 1 {
					return true
				}
				ret, ok := is.Body.List[0].(*ast.ReturnStmt)
				if !ok || len(ret.Results) != 1 {
					return true
				}
				ix, ok := ret.Results[0].(*ast.IndexExpr)
				if !ok {
					return true
				}
				ix2, ok := ix.X.(*ast.IndexExpr)
				if !ok {
					return true
				}
				if id, ok := ix2.X.(*ast.Ident); !ok || id.Name != "smallEntries" {
					return true
				}
				cond, ok := is.Cond.(*ast.BinaryExpr)
				if !ok {
					return true
				}
				if id, ok := cond.X.(*ast.Ident); !ok || id.Name != "n" {
					return true
				}
				if a, ok := ix2.Index.(*ast.Ident); !ok || a.Name != "n" {
					return true
				}
				if a, ok := ix.Index.(*ast.Ident); !ok || a.Name != "k" {
					return true
				}
				c, err := ev.eval(cond.Y)
				if err != nil || c.v.Kind() != constant.Int {
					return true
				}
				switch cond.Op {
				case token.LEQ:
					smallLimit = c.v.ExactString()
					found++
				case token.LSS:
					smallLimit = constant.BinaryOp(c.v, token.SUB, constant.MakeInt64(1)).ExactString()
					found++
				}
				return true
			})
		}
		if found != 1 {
			fail("CoeffUint64: expected exactly one `if n <= C { return smallEntries[n][k] }`, found %d", found)
		}
	}

	var sb strings.Builder
	sb.WriteString("(* GENERATED by tools/gotrans (translator \"comb\") from comb/comb.go on every run of ./check.\n")
	sb.WriteString("   Do not edit: data only, re-checked by computation in coq/Comb/Tables.v. *)\n")
	sb.WriteString("From Coq Require Import ZArith List.\nImport ListNotations.\nOpen Scope Z_scope.\n\n")
	if len(problems) > 0 {
		maxSizes, smallEntries = []string{}, [][]string{}
		largestK, maxInt, smallLimit = "0", "0", "0"
		sb.WriteString("(* TRANSLATION FAILED:\n")
		for _, p := range problems {
			sb.WriteString("   - " + strings.ReplaceAll(strings.ReplaceAll(p, "(*", "( *"), "*)", "* )") + "\n")
		}
		sb.WriteString("*)\nDefinition translation_failed_comb : bool := true.\n\n")
	} else {
		sb.WriteString("Definition translation_failed_comb : bool := false.\n\n")
	}
	sb.WriteString("(* var maxSizes []uint64 *)\nDefinition maxSizes : list Z :=\n  [" + strings.Join(maxSizes, "; ") + "].\n\n")
	sb.WriteString("(* var smallEntries [][]uint64 *)\nDefinition smallEntries : list (list Z) :=\n  [")
	for i, r := range smallEntries {
		if i > 0 {
			sb.WriteString(";\n   ")
		}
		sb.WriteString("[" + strings.Join(r, "; ") + "]")
	}
	sb.WriteString("].\n\n")
	paren := func(s string) string {
		if strings.HasPrefix(s, "-") {
			return "(" + s + ")"
		}
		return s
	}
	largestK, maxInt, smallLimit = paren(largestK), paren(maxInt), paren(smallLimit)
	sb.WriteString("(* const largestK *)\nDefinition largestK : Z := " + largestK + ".\n\n")
	sb.WriteString("(* const maxInt = uint64(^uint(0) >> 1), int and uint being 64 bits wide *)\nDefinition maxInt : Z := " + maxInt + ".\n\n")
	sb.WriteString("(* the bound C of `if n <= C { return smallEntries[n][k] }` in CoeffUint64 *)\nDefinition smallLimit : Z := " + smallLimit + ".\n")

	files := map[string]string{"CombTables.v": sb.String()}
	if len(problems) > 0 {
		return files, fmt.Errorf("%s", strings.Join(problems, "; "))
	}
	return files, nil
}
