package main

// Translator "effects": a per-function effect summary of every package of the repository,
// written to Effects.v (C19).  For each function or method (function literals are merged into
// the function that contains them):
//
//   gwrites  package-level variables it assigns (directly, or an element/field of them)
//   swrites  named types T such that it writes *through* a receiver, parameter or an alias of
//            one whose type is T, *T, []T ... (a write that other holders of the value can see:
//            through a pointer, a slice element or a map); unnamed roots are reported by their
//            type string.  A field assignment on a by-value struct copy is not shared.
//   calls    statically resolved callees inside the repository; a call through an interface
//            is expanded to every method of that name declared in the repository
//   gostmts / chanops   number of go statements / channel operations (send, receive, close,
//            select, range over a channel)
//
// The summary is syntactic + go/types; it is part of the trusted base (DESIGN.md section 7).

import (
	"fmt"
	"go/ast"
	"go/build"
	"go/importer"
	"go/parser"
	"go/token"
	"go/types"
	"os"
	"path/filepath"
	"sort"
	"strings"
)

func init() { translators["effects"] = effectsTranslator }

type finfo struct {
	key      string
	exported bool
	gwrites  map[string]bool
	swrites  map[string]bool
	calls    map[string]bool
	scalls   map[string]bool // calls whose receiver or some reference-typed argument may alias a shared value
	ifcalls  map[string]bool
	gostmts  int
	chanops  int
}

type repoImporter struct {
	fset    *token.FileSet
	repo    string
	module  string
	pkgs    map[string]*types.Package
	infos   map[string]*types.Info
	files   map[string][]*ast.File
	std     types.Importer
	loading map[string]bool
}

func (ri *repoImporter) Import(path string) (*types.Package, error) {
	if path == ri.module || strings.HasPrefix(path, ri.module+"/") {
		return ri.load(path)
	}
	return ri.std.Import(path)
}

func (ri *repoImporter) load(path string) (*types.Package, error) {
	if p, ok := ri.pkgs[path]; ok {
		return p, nil
	}
	if ri.loading[path] {
		return nil, fmt.Errorf("import cycle at %s", path)
	}
	ri.loading[path] = true
	dir := filepath.Join(ri.repo, strings.TrimPrefix(strings.TrimPrefix(path, ri.module), "/"))
	ents, err := os.ReadDir(dir)
	if err != nil {
		return nil, err
	}
	var files []*ast.File
	for _, e := range ents {
		n := e.Name()
		if e.IsDir() || !strings.HasSuffix(n, ".go") || strings.HasSuffix(n, "_test.go") {
			continue
		}
		full := filepath.Join(dir, n)
		// honour build constraints with no extra tags: files guarded by `verif` are hooks
		if ok, _ := build.Default.MatchFile(dir, n); !ok {
			continue
		}
		f, err := parser.ParseFile(ri.fset, full, nil, parser.ParseComments)
		if err != nil {
			return nil, err
		}
		files = append(files, f)
	}
	info := &types.Info{
		Types:      map[ast.Expr]types.TypeAndValue{},
		Defs:       map[*ast.Ident]types.Object{},
		Uses:       map[*ast.Ident]types.Object{},
		Selections: map[*ast.SelectorExpr]*types.Selection{},
	}
	conf := types.Config{Importer: ri, Error: func(error) {}}
	pkg, err := conf.Check(path, ri.fset, files, info)
	if pkg == nil {
		return nil, err
	}
	ri.pkgs[path] = pkg
	ri.infos[path] = info
	ri.files[path] = files
	return pkg, nil
}

func modulePath(repo string) string {
	b, err := os.ReadFile(filepath.Join(repo, "go.mod"))
	if err != nil {
		return ""
	}
	for _, l := range strings.Split(string(b), "\n") {
		if strings.HasPrefix(l, "module ") {
			return strings.TrimSpace(strings.TrimPrefix(l, "module "))
		}
	}
	return ""
}

func funcKey(fn *types.Func) string {
	pkg := ""
	if fn.Pkg() != nil {
		pkg = fn.Pkg().Name()
	}
	sig := fn.Type().(*types.Signature)
	if r := sig.Recv(); r != nil {
		t := r.Type()
		if p, ok := t.(*types.Pointer); ok {
			t = p.Elem()
		}
		if n, ok := t.(*types.Named); ok {
			return pkg + "." + n.Obj().Name() + "." + fn.Name()
		}
		return pkg + ".?." + fn.Name()
	}
	return pkg + "." + fn.Name()
}

// sharedTypeName names the type through which a write is visible to other holders.
func sharedTypeName(t types.Type) string {
	for {
		switch u := t.(type) {
		case *types.Pointer:
			t = u.Elem()
			continue
		case *types.Slice:
			if _, ok := u.Elem().(*types.Named); ok {
				t = u.Elem()
				continue
			}
		}
		break
	}
	if n, ok := t.(*types.Named); ok {
		if n.Obj().Pkg() != nil {
			return n.Obj().Pkg().Name() + "." + n.Obj().Name()
		}
		return n.Obj().Name()
	}
	return t.String()
}

func isRefType(t types.Type) bool {
	switch u := t.Underlying().(type) {
	case *types.Pointer, *types.Slice, *types.Map, *types.Chan, *types.Interface, *types.Signature:
		return true
	case *types.Struct:
		for i := 0; i < u.NumFields(); i++ {
			if isRefType(u.Field(i).Type()) {
				return true
			}
		}
	case *types.Array:
		return isRefType(u.Elem())
	}
	return false
}

// retAlias[f] = may a result of f alias its receiver or a reference-typed argument?  Computed
// to a fixpoint over the repository; functions outside the repository are assumed to.
var retAlias = map[string]bool{}

type analyser struct {
	rets   bool // some return expression is tainted
	info   *types.Info
	pkg    *types.Package
	mod    string
	taint  map[types.Object]types.Type // local variable -> type of the shared value it may alias
	holder map[types.Object]bool       // local container that merely holds shared references
	fi     *finfo
}

// root walks to the base identifier of an lvalue or expression and says whether the path
// goes through a pointer dereference, a slice/map element or an implicit pointer field access.
func (a *analyser) root(e ast.Expr) (id *ast.Ident, through bool) {
	id, d := a.rootDepth(e)
	return id, d > 0
}

// rootDepth also counts the dereference steps (pointer, slice/map element) on the path.
func (a *analyser) rootDepth(e ast.Expr) (id *ast.Ident, depth int) {
	through := false
	_ = through
	for {
		switch x := e.(type) {
		case *ast.ParenExpr:
			e = x.X
		case *ast.StarExpr:
			depth++
			e = x.X
		case *ast.IndexExpr:
			if tv, ok := a.info.Types[x.X]; ok {
				switch tv.Type.Underlying().(type) {
				case *types.Slice, *types.Map, *types.Pointer:
					depth++
				}
			}
			e = x.X
		case *ast.SliceExpr:
			e = x.X
		case *ast.SelectorExpr:
			if tv, ok := a.info.Types[x.X]; ok {
				if _, ok := tv.Type.Underlying().(*types.Pointer); ok {
					depth++
				}
			}
			if id, ok := x.X.(*ast.Ident); ok {
				if _, isPkg := a.info.Uses[id].(*types.PkgName); isPkg {
					return x.Sel, depth
				}
			}
			e = x.X
		case *ast.Ident:
			return x, depth
		case *ast.CallExpr, *ast.TypeAssertExpr:
			return nil, depth
		default:
			return nil, depth
		}
	}
}

func (a *analyser) isPkgLevel(obj types.Object) bool {
	v, ok := obj.(*types.Var)
	if !ok || v.Pkg() == nil || v.IsField() {
		return false
	}
	return v.Parent() == v.Pkg().Scope()
}

func (a *analyser) noteWrite(lhs ast.Expr) {
	id, through := a.root(lhs)
	if id == nil {
		return
	}
	obj := a.info.Uses[id]
	if obj == nil {
		obj = a.info.Defs[id]
	}
	if obj == nil {
		return
	}
	if a.isPkgLevel(obj) {
		a.fi.gwrites[obj.Pkg().Name()+"."+obj.Name()] = true
		return
	}
	if t, ok := a.taint[obj]; ok && through {
		if a.holder[obj] {
			if _, d := a.rootDepth(lhs); d < 2 {
				return // an element of the local container itself
			}
		}
		a.fi.swrites[sharedTypeName(t)] = true
	}
}

// exprTaint: does evaluating e yield a value that may alias a tainted (shared) value?
func (a *analyser) exprTaint(e ast.Expr) (types.Type, bool) {
	switch x := e.(type) {
	case *ast.CompositeLit, *ast.BasicLit, *ast.FuncLit:
		return nil, false
	case *ast.UnaryExpr:
		if x.Op == token.AND {
			return a.exprTaint(x.X)
		}
		return nil, false
	case *ast.CallExpr:
		if id, ok := x.Fun.(*ast.Ident); ok {
			if _, isB := a.info.Uses[id].(*types.Builtin); isB {
				switch id.Name {
				case "make", "new", "len", "cap", "copy":
					return nil, false
				case "append":
					if len(x.Args) > 0 {
						return a.exprTaint(x.Args[0])
					}
				}
				return nil, false
			}
		}
		if tv, ok := a.info.Types[x.Fun]; ok && tv.IsType() { // conversion
			if len(x.Args) == 1 {
				return a.exprTaint(x.Args[0])
			}
		}
		// a call may return an alias of any tainted argument or receiver, unless the callee
		// is a repository function known not to return one
		if fn := a.callee(x); fn != nil && fn.Pkg() != nil && strings.HasPrefix(fn.Pkg().Path(), a.mod) {
			if a.isIfaceCall(x) {
				// interface call: fresh only if no method of that name in the repository returns an alias
				any, found := false, false
				for k, v := range retAlias {
					if strings.HasSuffix(k, "."+fn.Name()) && strings.Count(k, ".") == 2 {
						found = true
						any = any || v
					}
				}
				if found && !any {
					return nil, false
				}
			} else if known, ok := retAlias[funcKey(fn)]; ok && !known {
				return nil, false
			}
		}
		var args []ast.Expr
		args = append(args, x.Args...)
		if s, ok := x.Fun.(*ast.SelectorExpr); ok {
			args = append(args, s.X)
		}
		for _, arg := range args {
			if t, ok := a.exprTaint(arg); ok {
				return t, true
			}
		}
		return nil, false
	}
	id, _ := a.root(e)
	if id == nil {
		return nil, false
	}
	obj := a.info.Uses[id]
	if obj == nil {
		return nil, false
	}
	if t, ok := a.taint[obj]; ok {
		return t, true
	}
	return nil, false
}

func (a *analyser) callee(x *ast.CallExpr) *types.Func {
	switch f := x.Fun.(type) {
	case *ast.Ident:
		if fn, ok := a.info.Uses[f].(*types.Func); ok {
			return fn
		}
	case *ast.SelectorExpr:
		if sel, ok := a.info.Selections[f]; ok {
			if fn, ok := sel.Obj().(*types.Func); ok {
				return fn
			}
		} else if fn, ok := a.info.Uses[f.Sel].(*types.Func); ok {
			return fn
		}
	}
	return nil
}

func (a *analyser) isIfaceCall(x *ast.CallExpr) bool {
	if f, ok := x.Fun.(*ast.SelectorExpr); ok {
		if sel, ok := a.info.Selections[f]; ok {
			_, isIface := sel.Recv().Underlying().(*types.Interface)
			return isIface
		}
	}
	return false
}

func (a *analyser) assign(lhs, rhs ast.Expr) {
	if rhs == nil {
		return
	}
	id, ok := lhs.(*ast.Ident)
	if !ok {
		// storing a shared value into an element or field of a local container makes the
		// container an alias holder: ts[0] = t
		rid, _ := a.root(lhs)
		if rid == nil {
			return
		}
		obj := a.info.Uses[rid]
		if obj == nil || a.isPkgLevel(obj) {
			return
		}
		if tv, ok := a.info.Types[rhs]; ok && isRefType(tv.Type) {
			if t, ok := a.exprTaint(rhs); ok {
				if _, already := a.taint[obj]; !already {
					a.taint[obj] = t
					a.holder[obj] = true
				}
			}
		}
		return
	}
	obj := a.info.Defs[id]
	if obj == nil {
		obj = a.info.Uses[id]
	}
	if obj == nil || a.isPkgLevel(obj) {
		return
	}
	tv, ok := a.info.Types[rhs]
	if !ok || !isRefType(tv.Type) {
		return
	}
	if t, ok := a.exprTaint(rhs); ok {
		if _, already := a.taint[obj]; !already {
			a.taint[obj] = t
		}
	}
}

func (a *analyser) walk(body ast.Node) {
	// two passes so that aliases introduced later in loops are seen
	for pass := 0; pass < 2; pass++ {
		ast.Inspect(body, func(n ast.Node) bool {
			switch x := n.(type) {
			case *ast.AssignStmt:
				if len(x.Lhs) == len(x.Rhs) {
					for i := range x.Lhs {
						a.assign(x.Lhs[i], x.Rhs[i])
					}
				} else if len(x.Rhs) == 1 {
					for i := range x.Lhs {
						a.assign(x.Lhs[i], x.Rhs[0])
					}
				}
			case *ast.RangeStmt:
				if x.Value != nil {
					a.assign(x.Value, x.X)
				}
			case *ast.ValueSpec:
				for i, name := range x.Names {
					if i < len(x.Values) {
						a.assign(name, x.Values[i])
					}
				}
			}
			return true
		})
	}
	ast.Inspect(body, func(n ast.Node) bool {
		switch x := n.(type) {
		case *ast.AssignStmt:
			for _, l := range x.Lhs {
				if x.Tok == token.DEFINE {
					if _, isId := l.(*ast.Ident); isId {
						continue
					}
				}
				a.noteWrite(l)
			}
		case *ast.IncDecStmt:
			a.noteWrite(x.X)
		case *ast.RangeStmt:
			if x.Tok == token.ASSIGN {
				if x.Key != nil {
					a.noteWrite(x.Key)
				}
				if x.Value != nil {
					a.noteWrite(x.Value)
				}
			}
			if tv, ok := a.info.Types[x.X]; ok {
				if _, isChan := tv.Type.Underlying().(*types.Chan); isChan {
					a.fi.chanops++
				}
			}
		case *ast.ReturnStmt:
			for _, r := range x.Results {
				if tv, ok := a.info.Types[r]; ok && isRefType(tv.Type) {
					if _, t := a.exprTaint(r); t {
						a.rets = true
					}
				}
			}
		case *ast.GoStmt:
			a.fi.gostmts++
		case *ast.SendStmt:
			a.fi.chanops++
		case *ast.SelectStmt:
			a.fi.chanops++
		case *ast.UnaryExpr:
			if x.Op == token.ARROW {
				a.fi.chanops++
			}
		case *ast.CallExpr:
			a.call(x)
		}
		return true
	})
}

func (a *analyser) call(x *ast.CallExpr) {
	shared := false
	for _, arg := range x.Args {
		if tv, ok := a.info.Types[arg]; ok && isRefType(tv.Type) {
			if _, t := a.exprTaint(arg); t {
				shared = true
			}
		}
	}
	if s, ok := x.Fun.(*ast.SelectorExpr); ok {
		if _, isSel := a.info.Selections[s]; isSel {
			if _, t := a.exprTaint(s.X); t {
				shared = true
			}
		}
	}
	a.callInner(x, shared)
}

func (a *analyser) callInner(x *ast.CallExpr, shared bool) {
	add := func(k string) {
		a.fi.calls[k] = true
		if shared {
			a.fi.scalls[k] = true
		}
	}
	addIf := func(m string) {
		a.fi.ifcalls[m] = true
		if shared {
			a.fi.ifcalls["shared:"+m] = true
		}
	}
	switch f := x.Fun.(type) {
	case *ast.Ident:
		switch obj := a.info.Uses[f].(type) {
		case *types.Builtin:
			switch f.Name {
			case "close":
				a.fi.chanops++
			case "copy":
				if len(x.Args) > 0 {
					// copy writes the elements of its first argument
					a.noteWrite(&ast.IndexExpr{X: x.Args[0], Index: &ast.BasicLit{Kind: token.INT, Value: "0"}})
					if id, _ := a.root(x.Args[0]); id != nil {
						if obj := a.info.Uses[id]; obj != nil {
							if a.isPkgLevel(obj) {
								a.fi.gwrites[obj.Pkg().Name()+"."+obj.Name()] = true
							} else if t, ok := a.taint[obj]; ok {
								a.fi.swrites[sharedTypeName(t)] = true
							}
						}
					}
				}
			case "append":
				// append may write into the spare capacity of a shared backing array
				if len(x.Args) > 0 {
					if id, _ := a.root(x.Args[0]); id != nil {
						if obj := a.info.Uses[id]; obj != nil {
							if a.isPkgLevel(obj) {
								a.fi.gwrites[obj.Pkg().Name()+"."+obj.Name()] = true
							} else if t, ok := a.taint[obj]; ok && !a.holder[obj] {
								a.fi.swrites["append:"+sharedTypeName(t)] = true
							}
						}
					}
				}
			case "delete":
				if len(x.Args) > 0 {
					a.noteWrite(&ast.IndexExpr{X: x.Args[0], Index: &ast.BasicLit{Kind: token.INT, Value: "0"}})
				}
			}
		case *types.Func:
			if obj.Pkg() != nil && strings.HasPrefix(obj.Pkg().Path(), a.mod) {
				add(funcKey(obj))
			}
		}
	case *ast.SelectorExpr:
		if sel, ok := a.info.Selections[f]; ok {
			if fn, ok := sel.Obj().(*types.Func); ok {
				if _, isIface := sel.Recv().Underlying().(*types.Interface); isIface {
					addIf(fn.Name())
				} else if fn.Pkg() != nil && strings.HasPrefix(fn.Pkg().Path(), a.mod) {
					add(funcKey(fn))
				}
			}
		} else if fn, ok := a.info.Uses[f.Sel].(*types.Func); ok { // pkg.Func
			if fn.Pkg() != nil && strings.HasPrefix(fn.Pkg().Path(), a.mod) {
				add(funcKey(fn))
			}
		}
	}
}

func coqStr(s string) string { return "\"" + strings.ReplaceAll(s, "\"", "\"\"") + "\"" }

func coqList(m map[string]bool) string {
	var ks []string
	for k := range m {
		ks = append(ks, k)
	}
	sort.Strings(ks)
	for i := range ks {
		ks[i] = coqStr(ks[i])
	}
	return "[" + strings.Join(ks, "; ") + "]"
}

func effectsTranslator(repo string) (map[string]string, error) {
	failed := func(err error) (map[string]string, error) {
		return map[string]string{"Effects.v": "(* generated by tools/gotrans (effects): FAILED *)\nFrom Coq Require Import List String.\nImport ListNotations.\nOpen Scope string_scope.\nDefinition translation_failed_effects : bool := true.\nRecord finfo := { fname : string; fexported : bool; gwrites : list string; swrites : list string; calls : list string; scalls : list string; gostmts : nat; chanops : nat }.\nDefinition funcs : list finfo := [].\nDefinition globals : list string := [].\n"}, err
	}
	mod := modulePath(repo)
	if mod == "" {
		return failed(fmt.Errorf("no module path"))
	}
	fset := token.NewFileSet()
	ri := &repoImporter{fset: fset, repo: repo, module: mod, pkgs: map[string]*types.Package{}, infos: map[string]*types.Info{},
		files: map[string][]*ast.File{}, std: importer.ForCompiler(fset, "source", nil), loading: map[string]bool{}}
	var pkgPaths []string
	filepath.Walk(repo, func(p string, fi os.FileInfo, err error) error {
		if err != nil {
			return nil
		}
		if fi.IsDir() {
			if strings.HasPrefix(fi.Name(), ".") && p != repo {
				return filepath.SkipDir
			}
			ents, _ := os.ReadDir(p)
			for _, e := range ents {
				if strings.HasSuffix(e.Name(), ".go") && !strings.HasSuffix(e.Name(), "_test.go") {
					rel, _ := filepath.Rel(repo, p)
					if rel == "." {
						pkgPaths = append(pkgPaths, mod)
					} else {
						pkgPaths = append(pkgPaths, mod+"/"+filepath.ToSlash(rel))
					}
					break
				}
			}
		}
		return nil
	})
	sort.Strings(pkgPaths)
	var all []*finfo
	var methodsByName map[string][]string
	var globals []string
	for _, path := range pkgPaths {
		if pkg, err := ri.load(path); err != nil || pkg == nil {
			return failed(fmt.Errorf("type-checking %s: %v", path, err))
		}
	}
	retAlias = map[string]bool{}
	for iter := 0; iter < 20; iter++ {
		changed := false
		all = nil
		globals = nil
		methodsByName = map[string][]string{}
		for _, path := range pkgPaths {
			pkg, err := ri.load(path)
			if err != nil || pkg == nil {
				return failed(fmt.Errorf("type-checking %s: %v", path, err))
			}
			info := ri.infos[path]
			for _, name := range pkg.Scope().Names() {
				if v, ok := pkg.Scope().Lookup(name).(*types.Var); ok {
					globals = append(globals, pkg.Name()+"."+v.Name())
				}
			}
			for _, f := range ri.files[path] {
				for _, d := range f.Decls {
					fd, ok := d.(*ast.FuncDecl)
					if !ok || fd.Body == nil {
						continue
					}
					fn := info.Defs[fd.Name].(*types.Func)
					fi := &finfo{key: funcKey(fn), exported: fn.Exported(), gwrites: map[string]bool{}, swrites: map[string]bool{}, calls: map[string]bool{}, scalls: map[string]bool{}, ifcalls: map[string]bool{}}
					a := &analyser{info: info, pkg: pkg, mod: mod, taint: map[types.Object]types.Type{}, holder: map[types.Object]bool{}, fi: fi}
					sig := fn.Type().(*types.Signature)
					if r := sig.Recv(); r != nil {
						a.taint[r] = r.Type()
						methodsByName[fn.Name()] = append(methodsByName[fn.Name()], fi.key)
					}
					for i := 0; i < sig.Params().Len(); i++ {
						p := sig.Params().At(i)
						if isRefType(p.Type()) {
							a.taint[p] = p.Type()
						}
					}
					// named results and parameters of nested function literals are locals
					a.walk(fd.Body)
					if old, ok := retAlias[fi.key]; !ok || (a.rets && !old) {
						if !ok || a.rets != old {
							changed = true
						}
						retAlias[fi.key] = a.rets || old
					}
					all = append(all, fi)
				}
			}
		}
		if !changed {
			break
		}
	}
	for _, fi := range all {
		for m := range fi.ifcalls {
			if strings.HasPrefix(m, "shared:") {
				for _, k := range methodsByName[strings.TrimPrefix(m, "shared:")] {
					fi.scalls[k] = true
				}
				continue
			}
			for _, k := range methodsByName[m] {
				fi.calls[k] = true
			}
		}
	}
	sort.Slice(all, func(i, j int) bool { return all[i].key < all[j].key })
	sort.Strings(globals)
	var sb strings.Builder
	sb.WriteString("(* generated by tools/gotrans (effects) from the repository's current source -- do not edit *)\n")
	sb.WriteString("From Coq Require Import List String.\nImport ListNotations.\nOpen Scope string_scope.\n\n")
	sb.WriteString("Definition translation_failed_effects : bool := false.\n\n")
	sb.WriteString("Record finfo := { fname : string; fexported : bool; gwrites : list string; swrites : list string; calls : list string; scalls : list string; gostmts : nat; chanops : nat }.\n\n")
	gs := make([]string, len(globals))
	for i, g := range globals {
		gs[i] = coqStr(g)
	}
	sb.WriteString("Definition globals : list string := [" + strings.Join(gs, "; ") + "].\n\n")
	sb.WriteString("Definition funcs : list finfo := [\n")
	for i, fi := range all {
		sep := ";"
		if i == len(all)-1 {
			sep = ""
		}
		exp := "false"
		if fi.exported {
			exp = "true"
		}
		fmt.Fprintf(&sb, "  {| fname := %s; fexported := %s; gwrites := %s; swrites := %s; calls := %s; scalls := %s; gostmts := %d; chanops := %d |}%s\n",
			coqStr(fi.key), exp, coqList(fi.gwrites), coqList(fi.swrites), coqList(fi.calls), coqList(fi.scalls), fi.gostmts, fi.chanops, sep)
	}
	sb.WriteString("].\n")
	return map[string]string{"Effects.v": sb.String()}, nil
}
