package main

// Translator "effects": a per-function effect summary of every package of the repository,
// written to Effects.v (C19).  For each function or method (function literals are analysed as
// part of the function that contains them):
//
//   gwrites  package-level variables it assigns (directly, an element/field of them, or through
//            a local alias of one)
//   swrites  named types T such that it writes *through* a receiver, parameter or an alias of
//            one whose type is T, *T, []T ... (a write that other holders of the value can see:
//            through a pointer, a slice element or a map); unnamed roots are reported by their
//            type string.  A field assignment on a by-value struct copy is not shared.
//   calls    statically resolved callees inside the repository; a call through an interface
//            declared in the repository is expanded to every method of that name declared in
//            the repository whose receiver implements the interface
//   scalls   the subset of calls that pass on a possibly shared value
//   gostmts / chanops   number of go statements / channel operations (send, receive, close,
//            select, range over a channel)
//   dwrites  the *roots* it writes through directly: "recv", "p<i>" (i-th parameter),
//            "g:<pkg>.<var>" (package-level variable), "lit" (a parameter of a function literal
//            that is handed to someone else), "dyn" (a value returned by a callback), "chan"
//            (a value received from a channel).  A call of a function outside the repository,
//            of a method of an interface declared outside the repository, or of a function
//            value (callback) counts as a write through every reference-typed argument, unless
//            the callee is in the table of known read-only library functions below.
//   argflow  (callee, callee root, caller root): at some call of callee, the callee's receiver
//            / i-th parameter may alias the caller's root.  The transitive "may write through"
//            relation is computed and proved closed in Coq (Effects/Flow.v).
//   extwrites  library functions / callbacks that were counted as writes (diagnosis only)
//   dyncalls   callbacks (function-typed parameters, fields, variables) it calls
//   fwrites    fields "pkg.Type.field" such that it writes memory reached *through* that field
//            of a shared value (x.f[i] = .., *x.f = .., m := x.f; m[i] = .., sort.Ints(x.f); not
//            the plain assignment x.f = ..)
//   fargflow   (callee, callee root, field): an argument reached through that field is bound
//            to that root of the callee (a write of the callee through it is a write through
//            the field)
//   fieldalias (field, root): it stores into that field (x.f = e, T{f: e}, x.f[i] = e) a
//            reference that may alias a parameter of its own (or a global, callback result...):
//            the field then holds memory owned by the caller ("borrowed")
//   fieldflow  (field, field'): it stores into field a reference read through field' of its
//            receiver
//   unknown    constructs the analysis does not understand: method values and method
//            expressions, reflect, unsafe, cgo, go:linkname, bodiless functions, assignments
//            whose target cannot be rooted, goto-style control in channel skeletons is handled
//            separately.  Every theorem of C19 requires unknown = [] for the functions it
//            speaks about: unknown is never treated as pure.
//
// Besides the table, for every function with a channel-typed parameter a skeleton of its body
// (chanskels) over close / send / receive / return / break / continue / if / loop is emitted;
// Effects/Chan.v proves from it that the channel is closed exactly once on every path.
//
// The summary is syntactic + go/types, flow-insensitive, and tracks aliases through local
// variables only (a value stored into a field of a receiver is from then on considered owned by
// that receiver).  It is part of the trusted base (DESIGN.md section 7).

import (
	"fmt"
	"go/ast"
	"go/build"
	"go/importer"
	"go/parser"
	"go/token"
	"go/types"
	"os"
	"path/filepath"
	"sort"
	"strings"
)

func init() { translators["effects"] = effectsTranslator }

type finfo struct {
	key        string
	exported   bool
	gwrites    map[string]bool
	swrites    map[string]bool
	calls      map[string]bool
	scalls     map[string]bool
	gostmts    int
	chanops    int
	dwrites    map[string]bool
	argflow    map[[3]string]bool
	extwrites  map[string]bool
	dyncalls   map[string]bool
	unknown    map[string]bool
	fwrites    map[string]bool
	fargflow   map[[3]string]bool
	fieldalias map[[2]string]bool
	fieldflow  map[[2]string]bool
}

func newFinfo(key string, exported bool) *finfo {
	return &finfo{key: key, exported: exported, gwrites: map[string]bool{}, swrites: map[string]bool{}, calls: map[string]bool{},
		scalls: map[string]bool{}, dwrites: map[string]bool{}, argflow: map[[3]string]bool{}, extwrites: map[string]bool{},
		dyncalls: map[string]bool{}, unknown: map[string]bool{}, fwrites: map[string]bool{}, fargflow: map[[3]string]bool{},
		fieldalias: map[[2]string]bool{}, fieldflow: map[[2]string]bool{}}
}

type repoImporter struct {
	fset    *token.FileSet
	repo    string
	module  string
	pkgs    map[string]*types.Package
	infos   map[string]*types.Info
	files   map[string][]*ast.File
	std     types.Importer
	loading map[string]bool
	errs    []string
}

func (ri *repoImporter) Import(path string) (*types.Package, error) {
	if path == ri.module || strings.HasPrefix(path, ri.module+"/") {
		return ri.load(path)
	}
	return ri.std.Import(path)
}

func (ri *repoImporter) load(path string) (*types.Package, error) {
	if p, ok := ri.pkgs[path]; ok {
		return p, nil
	}
	if ri.loading[path] {
		return nil, fmt.Errorf("import cycle at %s", path)
	}
	ri.loading[path] = true
	dir := filepath.Join(ri.repo, strings.TrimPrefix(strings.TrimPrefix(path, ri.module), "/"))
	ents, err := os.ReadDir(dir)
	if err != nil {
		return nil, err
	}
	var files []*ast.File
	for _, e := range ents {
		n := e.Name()
		if e.IsDir() || strings.HasSuffix(n, "_test.go") {
			continue
		}
		if !strings.HasSuffix(n, ".go") {
			switch filepath.Ext(n) {
			case ".s", ".S", ".c", ".h", ".cc", ".cpp", ".syso":
				ri.errs = append(ri.errs, "non-Go source "+filepath.Join(dir, n))
			}
			continue
		}
		full := filepath.Join(dir, n)
		// honour build constraints with no extra tags: files guarded by `verif` are hooks
		if ok, _ := build.Default.MatchFile(dir, n); !ok {
			continue
		}
		f, err := parser.ParseFile(ri.fset, full, nil, parser.ParseComments)
		if err != nil {
			return nil, err
		}
		files = append(files, f)
	}
	info := &types.Info{
		Types:      map[ast.Expr]types.TypeAndValue{},
		Defs:       map[*ast.Ident]types.Object{},
		Uses:       map[*ast.Ident]types.Object{},
		Implicits:  map[ast.Node]types.Object{},
		Selections: map[*ast.SelectorExpr]*types.Selection{},
	}
	conf := types.Config{Importer: ri, FakeImportC: true, Error: func(e error) { ri.errs = append(ri.errs, e.Error()) }}
	pkg, err := conf.Check(path, ri.fset, files, info)
	if pkg == nil {
		return nil, err
	}
	ri.pkgs[path] = pkg
	ri.infos[path] = info
	ri.files[path] = files
	return pkg, nil
}

func modulePath(repo string) string {
	b, err := os.ReadFile(filepath.Join(repo, "go.mod"))
	if err != nil {
		return ""
	}
	for _, l := range strings.Split(string(b), "\n") {
		if strings.HasPrefix(l, "module ") {
			return strings.TrimSpace(strings.TrimPrefix(l, "module "))
		}
	}
	return ""
}

func funcKey(fn *types.Func) string {
	pkg := ""
	if fn.Pkg() != nil {
		pkg = fn.Pkg().Name()
	}
	sig := fn.Type().(*types.Signature)
	if r := sig.Recv(); r != nil {
		t := r.Type()
		if p, ok := t.(*types.Pointer); ok {
			t = p.Elem()
		}
		if n, ok := t.(*types.Named); ok {
			return pkg + "." + n.Obj().Name() + "." + fn.Name()
		}
		return pkg + ".?." + fn.Name()
	}
	return pkg + "." + fn.Name()
}

// sharedTypeName names the type through which a write is visible to other holders.
func sharedTypeName(t types.Type) string {
	if t == nil {
		return "?"
	}
	for {
		switch u := t.(type) {
		case *types.Pointer:
			t = u.Elem()
			continue
		case *types.Slice:
			e := u.Elem()
			for {
				if p, ok := e.(*types.Pointer); ok {
					e = p.Elem()
					continue
				}
				break
			}
			if _, ok := e.(*types.Named); ok {
				t = e
				continue
			}
		}
		break
	}
	if n, ok := t.(*types.Named); ok {
		if n.Obj().Pkg() != nil {
			return n.Obj().Pkg().Name() + "." + n.Obj().Name()
		}
		return n.Obj().Name()
	}
	return t.String()
}

func isRefType(t types.Type) bool { return isRefTypeD(t, 0) }

func isRefTypeD(t types.Type, d int) bool {
	if t == nil || d > 8 {
		return true
	}
	switch u := t.Underlying().(type) {
	case *types.Pointer, *types.Slice, *types.Map, *types.Chan, *types.Interface, *types.Signature:
		return true
	case *types.Struct:
		for i := 0; i < u.NumFields(); i++ {
			if isRefTypeD(u.Field(i).Type(), d+1) {
				return true
			}
		}
		return false
	case *types.Array:
		return isRefTypeD(u.Elem(), d+1)
	case *types.Basic:
		return u.Kind() == types.UnsafePointer
	case *types.Tuple:
		for i := 0; i < u.Len(); i++ {
			if isRefTypeD(u.At(i).Type(), d+1) {
				return true
			}
		}
		return false
	}
	return true // type parameters and anything new: assume it may hold references
}

// Library functions that only read through their reference-typed arguments (and whose result
// does not let the caller write: it may still alias, which is handled separately).  Everything
// else outside the repository is counted as writing through every reference-typed argument.
// "pkg.Func" for functions, "pkg.Type.Method" for methods; a trailing "@k" restricts the
// write to argument k (the others are only read).
var extReadOnly = map[string]bool{
	"fmt.Sprint": true, "fmt.Sprintf": true, "fmt.Sprintln": true, "fmt.Errorf": true,
	"sort.Search": true, "sort.SearchInts": true, "sort.IntsAreSorted": true,
	"bytes.Equal": true, "bytes.Compare": true, "bytes.HasPrefix": true, "bytes.IndexByte": true,
	"errors.New": true, "strings.Join": true,
	"encoding/binary.Uvarint": true, "encoding/binary.Varint": true,
	// wrappers: the result aliases the argument (tracked), the call itself writes nothing
	"bytes.NewReader": true, "bytes.NewBuffer": true, "encoding/gob.NewEncoder": true, "encoding/gob.NewDecoder": true,
	"bufio.NewReader": true, "bufio.NewWriter": true, "text/tabwriter.NewWriter": true,
	// a bytes.Reader only reads the slice it wraps (its own position is fresh state)
	"bytes.Reader.ReadByte": true,
}

// the result is a fresh value through which the arguments cannot be written (a reader over a
// byte slice only reads it)
var extFreshResult = map[string]bool{"bytes.NewReader": true, "strings.NewReader": true}

// library functions that read or write process-global state shared by all goroutines (the
// default math/rand source, the environment, the working directory, flag and log defaults):
// counted as a write of the pseudo package-level variable named here
func extGlobalState(name string) string {
	i := strings.LastIndex(name, ".")
	if i < 0 {
		return ""
	}
	pkg, fn := name[:i], name[i+1:]
	switch pkg {
	case "math/rand", "math/rand/v2":
		if !strings.HasPrefix(fn, "New") {
			return pkg + ".<default source>"
		}
	case "os":
		switch fn {
		case "Setenv", "Unsetenv", "Clearenv", "Chdir", "Exit":
			return "os.<process state>"
		}
	case "flag":
		return "flag.<CommandLine>"
	case "log":
		if !strings.HasPrefix(fn, "New") {
			return "log.<default logger>"
		}
	case "time":
		if fn == "Now" || fn == "Since" || fn == "Until" {
			return "time.<clock>" // not a race, but the result is no longer a function of the arguments
		}
	}
	return ""
}

// only this root of the callee ("recv" or "p<i>") is written, the other arguments are read
var extWritesOnly = map[string]string{
	"fmt.Fprint": "p0", "fmt.Fprintf": "p0", "fmt.Fprintln": "p0", "io.WriteString": "p0",
	"encoding/binary.PutUvarint": "p0", "encoding/binary.PutVarint": "p0",
	"sort.Ints": "p0", "sort.Slice": "p0", "sort.SliceStable": "p0", "sort.Sort": "p0", "sort.Stable": "p0",
	"encoding/gob.Encoder.Encode": "recv", "text/tabwriter.Writer.Flush": "recv",
}

// retRoots[f] = the callee roots ("recv", "p<i>") and foreign roots ("g:...", "dyn", ...) a
// result of f may alias.  Computed to a fixpoint over the repository; functions outside the
// repository are assumed to return an alias of every argument.
var retRoots = map[string]map[string]bool{}

type tinfo struct {
	roots  map[string]types.Type // root -> type of the shared value it names
	own    int                   // number of dereference steps that stay inside storage owned by the local variable
	fields map[string]bool       // fields ("pkg.Type.field") the value was read through
}

func (t *tinfo) clone() *tinfo {
	c := &tinfo{roots: map[string]types.Type{}, own: t.own}
	for k, v := range t.roots {
		c.roots[k] = v
	}
	for k := range t.fields {
		c.addField(k)
	}
	return c
}

func (t *tinfo) addField(f string) bool {
	if t.fields == nil {
		t.fields = map[string]bool{}
	}
	if t.fields[f] {
		return false
	}
	t.fields[f] = true
	return true
}

// merge adds u's roots to t; returns whether anything changed.
func (t *tinfo) merge(u *tinfo, takeOwn bool) bool {
	ch := false
	for k, v := range u.roots {
		if _, ok := t.roots[k]; !ok {
			t.roots[k] = v
			ch = true
		}
	}
	if takeOwn && u.own < t.own {
		t.own = u.own
		ch = true
	}
	for k := range u.fields {
		if t.addField(k) {
			ch = true
		}
	}
	return ch
}

type analyser struct {
	info      *types.Info
	pkg       *types.Package
	mod       string
	fset      *token.FileSet
	taint     map[types.Object]*tinfo
	fi        *finfo
	ret       map[string]bool
	results   []types.Object                // named results
	litVar    map[types.Object]*ast.FuncLit // local variable bound (only) to function literals
	litEsc    map[types.Object]bool         // ... and used other than by calling it
	litOfVar  map[*ast.FuncLit]types.Object
	changed   bool
	impl      map[string][]*types.Func // method name -> repository methods
	callFun   map[ast.Expr]bool        // expressions in call position
	freshUse  map[*ast.Ident]bool      // uses of a variable dominated, in the same block, by an assignment of a fresh value to it
	recording bool
}

func (a *analyser) unknown(pos token.Pos, format string, args ...interface{}) {
	if !a.recording {
		return
	}
	p := a.fset.Position(pos)
	a.fi.unknown[fmt.Sprintf(format, args...)+fmt.Sprintf(" (%s:%d)", filepath.Base(p.Filename), p.Line)] = true
}

func (a *analyser) isPkgLevel(obj types.Object) bool {
	v, ok := obj.(*types.Var)
	if !ok || v.Pkg() == nil || v.IsField() {
		return false
	}
	return v.Parent() == v.Pkg().Scope()
}

func (a *analyser) inRepo(p *types.Package) bool {
	return p != nil && (p.Path() == a.mod || strings.HasPrefix(p.Path(), a.mod+"/"))
}

func (a *analyser) typeOf(e ast.Expr) types.Type {
	if tv, ok := a.info.Types[e]; ok {
		return tv.Type
	}
	if id, ok := e.(*ast.Ident); ok {
		if o := a.obj(id); o != nil {
			return o.Type()
		}
	}
	return nil
}

func (a *analyser) obj(id *ast.Ident) types.Object {
	if o := a.info.Uses[id]; o != nil {
		return o
	}
	return a.info.Defs[id]
}

// splitPath walks an lvalue or value path to its base expression, counting the dereference
// steps (pointer, slice/map element, field through a pointer) on the way.
func (a *analyser) splitPath(e ast.Expr) (base ast.Expr, depth int) {
	for {
		switch x := e.(type) {
		case *ast.ParenExpr:
			e = x.X
		case *ast.StarExpr:
			depth++
			e = x.X
		case *ast.IndexExpr:
			t := a.typeOf(x.X)
			if t == nil {
				return e, depth
			}
			switch t.Underlying().(type) {
			case *types.Slice, *types.Map, *types.Pointer:
				depth++
			case *types.Array, *types.Basic:
			default:
				return e, depth // generic instantiation or unknown
			}
			e = x.X
		case *ast.SliceExpr:
			if t := a.typeOf(x.X); t != nil {
				if _, ok := t.Underlying().(*types.Pointer); ok {
					depth++
				}
			}
			e = x.X
		case *ast.SelectorExpr:
			if id, ok := x.X.(*ast.Ident); ok {
				if _, isPkg := a.info.Uses[id].(*types.PkgName); isPkg {
					return x.Sel, depth
				}
			}
			sel, ok := a.info.Selections[x]
			if !ok || sel.Kind() != types.FieldVal {
				return e, depth
			}
			if sel.Indirect() {
				depth++
			}
			e = x.X
		case *ast.TypeAssertExpr:
			e = x.X
		default:
			return e, depth
		}
	}
}

// fieldNames names every field of every named struct type of the repository.
var fieldNames = map[*types.Var]string{}

type fieldStep struct {
	name       string
	derefAfter int // dereference steps between the field and the end of the path
}

func (a *analyser) fieldName(v *types.Var) string {
	if n, ok := fieldNames[v]; ok {
		return n
	}
	p := a.fset.Position(v.Pos())
	return fmt.Sprintf("anon.%s@%s:%d", v.Name(), filepath.Base(p.Filename), p.Line)
}

// pathFields lists the struct fields selected on the path e, outermost first.
func (a *analyser) pathFields(e ast.Expr) (out []fieldStep) {
	derefs := 0
	for {
		switch x := e.(type) {
		case *ast.ParenExpr:
			e = x.X
		case *ast.StarExpr:
			derefs++
			e = x.X
		case *ast.IndexExpr:
			t := a.typeOf(x.X)
			if t == nil {
				return
			}
			switch t.Underlying().(type) {
			case *types.Slice, *types.Map, *types.Pointer:
				derefs++
			case *types.Array, *types.Basic:
			default:
				return
			}
			e = x.X
		case *ast.SliceExpr:
			if t := a.typeOf(x.X); t != nil {
				if _, ok := t.Underlying().(*types.Pointer); ok {
					derefs++
				}
			}
			e = x.X
		case *ast.SelectorExpr:
			sel, ok := a.info.Selections[x]
			if !ok || sel.Kind() != types.FieldVal {
				return
			}
			if fv, ok := sel.Obj().(*types.Var); ok {
				out = append(out, fieldStep{a.fieldName(fv), derefs})
			}
			if sel.Indirect() {
				derefs++
			}
			e = x.X
		case *ast.TypeAssertExpr:
			e = x.X
		case *ast.UnaryExpr:
			if x.Op != token.AND {
				return
			}
			e = x.X
		default:
			return
		}
	}
}

func (a *analyser) globalName(obj types.Object) string { return obj.Pkg().Name() + "." + obj.Name() }

// baseTaint gives the taint of a path base.
func (a *analyser) baseTaint(base ast.Expr) *tinfo {
	switch b := base.(type) {
	case *ast.Ident:
		obj := a.obj(b)
		if obj == nil {
			return nil
		}
		if a.isPkgLevel(obj) {
			return &tinfo{roots: map[string]types.Type{"g:" + a.globalName(obj): obj.Type()}, own: -1}
		}
		if a.freshUse[b] {
			return nil
		}
		if t, ok := a.taint[obj]; ok {
			return t
		}
		return nil
	case *ast.CallExpr:
		return a.callResultTaint(b)
	case *ast.CompositeLit:
		return a.exprTaint(b)
	case *ast.BasicLit, *ast.FuncLit:
		return nil
	case *ast.SelectorExpr:
		// method value or qualified function: no data
		return nil
	case *ast.UnaryExpr, *ast.BinaryExpr:
		return a.exprTaint(b)
	}
	return nil
}

func (a *analyser) pathTaint(e ast.Expr, addr bool) *tinfo {
	base, depth := a.splitPath(e)
	tb := a.baseTaint(base)
	if tb == nil || len(tb.roots) == 0 {
		return nil
	}
	r := tb.clone()
	for _, fs := range a.pathFields(e) {
		r.addField(fs.name)
	}
	if depth > tb.own {
		r.own = 0
	} else {
		r.own = tb.own - depth
		if addr {
			r.own++
		}
	}
	return r
}

// exprTaint: the shared roots the value of e may alias (nil = a fresh or plain value).
func (a *analyser) exprTaint(e ast.Expr) *tinfo {
	switch x := e.(type) {
	case nil:
		return nil
	case *ast.BasicLit, *ast.FuncLit:
		return nil
	case *ast.CompositeLit:
		var r *tinfo
		for _, el := range x.Elts {
			v := el
			if kv, ok := el.(*ast.KeyValueExpr); ok {
				v = kv.Value
			}
			if t := a.typeOf(v); t != nil && !isRefType(t) {
				continue
			}
			if tv := a.exprTaint(v); tv != nil {
				if r == nil {
					r = &tinfo{roots: map[string]types.Type{}, own: 0}
				}
				r.merge(tv, false)
			}
		}
		return r
	case *ast.KeyValueExpr:
		return a.exprTaint(x.Value)
	case *ast.ParenExpr:
		return a.exprTaint(x.X)
	case *ast.UnaryExpr:
		switch x.Op {
		case token.AND:
			if cl, ok := x.X.(*ast.CompositeLit); ok {
				if r := a.exprTaint(cl); r != nil {
					r.own = 1
					return r
				}
				return nil
			}
			return a.pathTaint(x.X, true)
		case token.ARROW:
			return &tinfo{roots: map[string]types.Type{"chan": a.typeOf(e)}, own: 0}
		}
		return nil
	case *ast.BinaryExpr:
		return nil
	case *ast.CallExpr:
		return a.callResultTaint(x)
	}
	return a.pathTaint(e, false)
}

type callKind int

const (
	ckBuiltin callKind = iota
	ckConversion
	ckRepo      // statically resolved function or method of the repository
	ckRepoIface // method of an interface declared in the repository
	ckExternal  // function / method / interface method outside the repository
	ckLocalLit  // call of a local variable bound only to function literals, or of a literal
	ckDynamic   // any other function value
)

type callInfo struct {
	kind    callKind
	name    string        // builtin name, repository key, external name, or expression text
	targets []*types.Func // ckRepo: one; ckRepoIface: the implementers
	recv    ast.Expr      // receiver expression of a method call
	sig     *types.Signature
	lit     *ast.FuncLit
}

func exprText(e ast.Expr) string {
	switch x := e.(type) {
	case *ast.Ident:
		return x.Name
	case *ast.SelectorExpr:
		return exprText(x.X) + "." + x.Sel.Name
	case *ast.ParenExpr:
		return exprText(x.X)
	case *ast.CallExpr:
		return exprText(x.Fun) + "()"
	case *ast.IndexExpr:
		return exprText(x.X) + "[]"
	case *ast.FuncLit:
		return "func literal"
	}
	return fmt.Sprintf("%T", e)
}

func extName(fn *types.Func) string {
	pkg := ""
	if fn.Pkg() != nil {
		pkg = fn.Pkg().Path()
	}
	sig := fn.Type().(*types.Signature)
	if r := sig.Recv(); r != nil {
		t := r.Type()
		if p, ok := t.(*types.Pointer); ok {
			t = p.Elem()
		}
		if n, ok := t.(*types.Named); ok {
			return pkg + "." + n.Obj().Name() + "." + fn.Name()
		}
		return pkg + ".?." + fn.Name()
	}
	return pkg + "." + fn.Name()
}

func (a *analyser) classify(x *ast.CallExpr) callInfo {
	if tv, ok := a.info.Types[x.Fun]; ok && tv.IsType() {
		return callInfo{kind: ckConversion}
	}
	fun := x.Fun
	for {
		if p, ok := fun.(*ast.ParenExpr); ok {
			fun = p.X
			continue
		}
		break
	}
	sigOf := func(e ast.Expr) *types.Signature {
		if t := a.typeOf(e); t != nil {
			if s, ok := t.Underlying().(*types.Signature); ok {
				return s
			}
		}
		return nil
	}
	switch f := fun.(type) {
	case *ast.FuncLit:
		return callInfo{kind: ckLocalLit, lit: f, name: "func literal", sig: sigOf(f)}
	case *ast.Ident:
		switch obj := a.info.Uses[f].(type) {
		case *types.Builtin:
			return callInfo{kind: ckBuiltin, name: f.Name}
		case *types.Func:
			if a.inRepo(obj.Pkg()) {
				return callInfo{kind: ckRepo, name: funcKey(obj), targets: []*types.Func{obj}, sig: obj.Type().(*types.Signature)}
			}
			return callInfo{kind: ckExternal, name: extName(obj), sig: obj.Type().(*types.Signature)}
		case *types.Var:
			if lit, ok := a.litVar[obj]; ok && lit != nil {
				return callInfo{kind: ckLocalLit, lit: lit, name: f.Name, sig: sigOf(f)}
			}
		}
		return callInfo{kind: ckDynamic, name: exprText(fun), sig: sigOf(fun)}
	case *ast.SelectorExpr:
		if sel, ok := a.info.Selections[f]; ok {
			fn, isFn := sel.Obj().(*types.Func)
			if !isFn { // function-typed field
				return callInfo{kind: ckDynamic, name: exprText(fun), sig: sigOf(fun)}
			}
			sig := fn.Type().(*types.Signature)
			if iface, isIface := sel.Recv().Underlying().(*types.Interface); isIface {
				declaredInRepo := false
				if n, ok := sel.Recv().(*types.Named); ok {
					declaredInRepo = a.inRepo(n.Obj().Pkg())
				} else if fn.Pkg() != nil {
					declaredInRepo = a.inRepo(fn.Pkg())
				}
				if !declaredInRepo {
					return callInfo{kind: ckExternal, name: extName(fn), recv: f.X, sig: sig}
				}
				var ts []*types.Func
				for _, m := range a.impl[fn.Name()] {
					rt := m.Type().(*types.Signature).Recv().Type()
					if types.Implements(rt, iface) {
						ts = append(ts, m)
					} else if _, isPtr := rt.(*types.Pointer); !isPtr && types.Implements(types.NewPointer(rt), iface) {
						ts = append(ts, m)
					}
				}
				return callInfo{kind: ckRepoIface, name: fn.Name(), targets: ts, recv: f.X, sig: sig}
			}
			if a.inRepo(fn.Pkg()) {
				return callInfo{kind: ckRepo, name: funcKey(fn), targets: []*types.Func{fn}, recv: f.X, sig: sig}
			}
			return callInfo{kind: ckExternal, name: extName(fn), recv: f.X, sig: sig}
		}
		// qualified identifier pkg.F
		switch obj := a.info.Uses[f.Sel].(type) {
		case *types.Func:
			if a.inRepo(obj.Pkg()) {
				return callInfo{kind: ckRepo, name: funcKey(obj), targets: []*types.Func{obj}, sig: obj.Type().(*types.Signature)}
			}
			return callInfo{kind: ckExternal, name: extName(obj), sig: obj.Type().(*types.Signature)}
		}
		return callInfo{kind: ckDynamic, name: exprText(fun), sig: sigOf(fun)}
	}
	return callInfo{kind: ckDynamic, name: exprText(fun), sig: sigOf(fun)}
}

// argRoot names the callee root the i-th argument is bound to.
func argRoot(sig *types.Signature, i int) string {
	if sig != nil {
		n := sig.Params().Len()
		if sig.Variadic() && i >= n-1 {
			i = n - 1
		}
	}
	return fmt.Sprintf("p%d", i)
}

func (a *analyser) refArg(e ast.Expr) *tinfo {
	if t := a.typeOf(e); t != nil && !isRefType(t) {
		return nil
	}
	return a.exprTaint(e)
}

// recvTaint: taint of the receiver expression of a method call (a value receiver that holds
// references, or a pointer receiver, possibly taken implicitly).
func (a *analyser) recvTaint(ci callInfo) *tinfo {
	if ci.recv == nil {
		return nil
	}
	if t := a.typeOf(ci.recv); t != nil && !isRefType(t) {
		// value without references, but a pointer-receiver method takes its address
		return a.pathTaint(ci.recv, true)
	}
	return a.exprTaint(ci.recv)
}

func (a *analyser) callResultTaint(x *ast.CallExpr) *tinfo {
	ci := a.classify(x)
	union := func(ts ...*tinfo) *tinfo {
		var r *tinfo
		for _, t := range ts {
			if t == nil {
				continue
			}
			if r == nil {
				r = &tinfo{roots: map[string]types.Type{}, own: 0}
			}
			r.merge(t, false)
		}
		return r
	}
	allArgs := func() *tinfo {
		ts := []*tinfo{a.recvTaint(ci)}
		for _, arg := range x.Args {
			ts = append(ts, a.refArg(arg))
		}
		return union(ts...)
	}
	switch ci.kind {
	case ckConversion:
		if len(x.Args) == 1 {
			return a.exprTaint(x.Args[0])
		}
		return nil
	case ckBuiltin:
		switch ci.name {
		case "append":
			if len(x.Args) == 0 {
				return nil
			}
			base := a.exprTaint(x.Args[0])
			var r *tinfo
			if base != nil {
				r = base.clone()
			}
			for i, arg := range x.Args[1:] {
				if x.Ellipsis.IsValid() && i == len(x.Args)-2 {
					// append(a, b...) copies the elements of b: only reference-typed elements alias
					if st, ok := a.typeOf(arg).Underlying().(*types.Slice); ok && !isRefType(st.Elem()) {
						continue
					}
					if bt, ok := a.typeOf(arg).Underlying().(*types.Basic); ok && bt.Info()&types.IsString != 0 {
						continue
					}
				}
				if t := a.refArg(arg); t != nil {
					if r == nil {
						r = &tinfo{roots: map[string]types.Type{}, own: 1}
					}
					r.merge(t, false)
				}
			}
			return r
		case "min", "max":
			return nil
		}
		return nil
	case ckRepo, ckRepoIface:
		var r *tinfo
		for _, fn := range ci.targets {
			for q := range retRoots[funcKey(fn)] {
				var t *tinfo
				switch {
				case q == "recv":
					t = a.recvTaint(ci)
				case len(q) > 1 && q[0] == 'p' && q[1] >= '0' && q[1] <= '9':
					for i, arg := range x.Args {
						if argRoot(ci.sig, i) == q {
							t = union(t, a.refArg(arg))
						}
					}
				default:
					t = &tinfo{roots: map[string]types.Type{q: a.typeOf(x)}, own: 0}
				}
				r = union(r, t)
			}
		}
		return r
	case ckExternal:
		if t := a.typeOf(x); t != nil && !isRefType(t) {
			return nil
		}
		if extFreshResult[ci.name] {
			return nil
		}
		return allArgs()
	case ckLocalLit:
		// the literal's body is analysed in place; its result may alias anything it can see
		if t := a.typeOf(x); t != nil && !isRefType(t) {
			return nil
		}
		r := allArgs()
		for _, t := range a.taint {
			r = union(r, t)
		}
		return r
	case ckDynamic:
		if t := a.typeOf(x); t != nil && !isRefType(t) {
			return nil
		}
		return union(allArgs(), &tinfo{roots: map[string]types.Type{"dyn": a.typeOf(x)}, own: 0})
	}
	return nil
}

func (a *analyser) setTaint(obj types.Object, t *tinfo) {
	if obj == nil || t == nil || len(t.roots) == 0 {
		return
	}
	if old, ok := a.taint[obj]; ok {
		if old.merge(t, true) {
			a.changed = true
		}
		return
	}
	a.taint[obj] = t.clone()
	a.changed = true
}

func (a *analyser) assign(lhs, rhs ast.Expr) {
	if rhs == nil || lhs == nil {
		return
	}
	if t := a.typeOf(rhs); t != nil && !isRefType(t) {
		return
	}
	if id, ok := lhs.(*ast.Ident); ok {
		if id.Name == "_" {
			return
		}
		obj := a.obj(id)
		if obj == nil || a.isPkgLevel(obj) {
			return
		}
		a.setTaint(obj, a.exprTaint(rhs))
		return
	}
	// storing a shared value into an element or field of a local container makes the container a holder
	base, _ := a.splitPath(lhs)
	id, ok := base.(*ast.Ident)
	if !ok {
		return
	}
	obj := a.obj(id)
	if obj == nil || a.isPkgLevel(obj) || a.freshUse[id] {
		return
	}
	t := a.exprTaint(rhs)
	if t == nil {
		return
	}
	h := &tinfo{roots: t.roots, own: 0, fields: t.fields}
	if _, already := a.taint[obj]; !already {
		switch obj.Type().Underlying().(type) {
		case *types.Pointer, *types.Slice, *types.Map:
			h.own = 1
		}
		a.setTaint(obj, h)
		return
	}
	if a.taint[obj].merge(h, false) {
		a.changed = true
	}
}

// collectAliases runs the flow-insensitive alias propagation to a fixpoint.
func (a *analyser) collectAliases(body ast.Node) {
	for pass := 0; pass < 12; pass++ {
		a.changed = false
		ast.Inspect(body, func(n ast.Node) bool {
			switch x := n.(type) {
			case *ast.AssignStmt:
				if len(x.Lhs) == len(x.Rhs) {
					for i := range x.Lhs {
						a.assign(x.Lhs[i], x.Rhs[i])
					}
				} else if len(x.Rhs) == 1 {
					for i := range x.Lhs {
						a.assign(x.Lhs[i], x.Rhs[0])
					}
				}
			case *ast.RangeStmt:
				// the value variable aliases an element of X
				if x.Value != nil || x.Key != nil {
					elem := &ast.IndexExpr{X: x.X, Index: &ast.BasicLit{Kind: token.INT, Value: "0"}}
					var t *tinfo
					if xt := a.typeOf(x.X); xt != nil {
						switch u := xt.Underlying().(type) {
						case *types.Slice, *types.Map:
							if b := a.pathTaint(x.X, false); b != nil {
								t = b.clone()
								if t.own > 0 {
									t.own--
								} else {
									t.own = 0
								}
							}
						case *types.Pointer, *types.Array:
							t = a.pathTaint(x.X, false)
							if _, isP := u.(*types.Pointer); isP && t != nil {
								t = t.clone()
								if t.own > 0 {
									t.own--
								}
							}
						case *types.Chan:
							t = &tinfo{roots: map[string]types.Type{"chan": u.Elem()}, own: 0}
						default:
							_ = elem
						}
					}
					for _, v := range []ast.Expr{x.Key, x.Value} {
						if id, ok := v.(*ast.Ident); ok && id.Name != "_" && t != nil {
							if obj := a.obj(id); obj != nil && isRefType(obj.Type()) && !a.isPkgLevel(obj) {
								a.setTaint(obj, t)
							}
						}
					}
				}
			case *ast.ValueSpec:
				for i, name := range x.Names {
					if i < len(x.Values) {
						a.assign(name, x.Values[i])
					} else if len(x.Values) == 1 {
						a.assign(name, x.Values[0])
					}
				}
			case *ast.TypeSwitchStmt:
				var src ast.Expr
				switch s := x.Assign.(type) {
				case *ast.AssignStmt:
					if len(s.Rhs) == 1 {
						if ta, ok := s.Rhs[0].(*ast.TypeAssertExpr); ok {
							src = ta.X
						}
					}
				}
				if src != nil {
					t := a.exprTaint(src)
					for _, c := range x.Body.List {
						if obj := a.info.Implicits[c]; obj != nil && t != nil && isRefType(obj.Type()) {
							a.setTaint(obj, t)
						}
					}
				}
			case *ast.CallExpr:
				// bind the arguments of a call of a local closure to the closure's parameters
				ci := a.classify(x)
				if ci.kind == ckBuiltin && ci.name == "copy" && len(x.Args) == 2 {
					// copy(dst, src) of reference-typed elements: dst now holds what src holds
					zero := &ast.BasicLit{Kind: token.INT, Value: "0"}
					if st, ok := a.typeOf(x.Args[1]).Underlying().(*types.Slice); ok && isRefType(st.Elem()) {
						if t := a.pathTaint(x.Args[1], false); t != nil {
							base, _ := a.splitPath(x.Args[0])
							if id, ok := base.(*ast.Ident); ok {
								if obj := a.obj(id); obj != nil && !a.isPkgLevel(obj) {
									h := &tinfo{roots: t.roots, own: 0, fields: t.fields}
									if _, already := a.taint[obj]; !already {
										h.own = 1
										a.setTaint(obj, h)
									} else if a.taint[obj].merge(h, false) {
										a.changed = true
									}
								}
							}
						}
					}
					_ = zero
				}
				if ci.kind == ckLocalLit && ci.lit != nil {
					i := 0
					for _, fld := range ci.lit.Type.Params.List {
						for _, nm := range fld.Names {
							if i < len(x.Args) {
								if obj := a.info.Defs[nm]; obj != nil && isRefType(obj.Type()) {
									a.setTaint(obj, a.exprTaint(x.Args[i]))
								}
							}
							i++
						}
					}
				}
			case *ast.ReturnStmt:
				for _, r := range x.Results {
					if t := a.refArg(r); t != nil {
						for k := range t.roots {
							if !a.ret[k] {
								a.ret[k] = true
							}
						}
					}
				}
			}
			return true
		})
		if !a.changed {
			break
		}
		if pass == 11 {
			a.fi.unknown["alias propagation did not converge"] = true
		}
	}
	for _, obj := range a.results {
		if t, ok := a.taint[obj]; ok {
			for k := range t.roots {
				a.ret[k] = true
			}
		}
	}
}

func (a *analyser) writeThrough(t *tinfo, label string) {
	for f := range t.fields {
		a.fi.fwrites[f] = true
	}
	for r, ty := range t.roots {
		if ty != nil {
			// a function value cannot be written through, only called (see writeThroughCall)
			if _, isFn := ty.Underlying().(*types.Signature); isFn {
				continue
			}
		}
		a.fi.dwrites[r] = true
		if strings.HasPrefix(r, "g:") {
			a.fi.gwrites[strings.TrimPrefix(r, "g:")] = true
			continue
		}
		a.fi.swrites[label+sharedTypeName(ty)] = true
	}
}

// writeThroughCall: a callee outside the analysis may write through the value it is handed.  A
// function value cannot be written through (it can only be called; what a user supplied
// callback does is the documented assumption of C19), so roots of function type are skipped.
func (a *analyser) writeThroughCall(t *tinfo) bool {
	u := &tinfo{roots: map[string]types.Type{}, own: 0, fields: t.fields}
	for r, ty := range t.roots {
		if ty != nil {
			if _, isFn := ty.Underlying().(*types.Signature); isFn {
				continue
			}
		}
		u.roots[r] = ty
	}
	if len(u.roots) == 0 {
		return false
	}
	a.writeThrough(u, "")
	return true
}

// noteWrite records an assignment to the location lhs (extra = additional dereference steps,
// e.g. 1 for "an element of lhs").
func (a *analyser) noteWrite(lhs ast.Expr, extra int, label string) {
	if id, ok := lhs.(*ast.Ident); ok && id.Name == "_" {
		return
	}
	base, depth := a.splitPath(lhs)
	depth += extra
	switch b := base.(type) {
	case *ast.Ident:
		obj := a.obj(b)
		if obj == nil {
			a.unknown(lhs.Pos(), "assignment to unresolved identifier %s", b.Name)
			return
		}
		if a.isPkgLevel(obj) {
			a.fi.gwrites[a.globalName(obj)] = true
			a.fi.dwrites["g:"+a.globalName(obj)] = true
			return
		}
		if _, isVar := obj.(*types.Var); !isVar {
			a.unknown(lhs.Pos(), "assignment to non-variable %s", b.Name)
			return
		}
		if a.freshUse[b] {
			return
		}
		if t, ok := a.taint[obj]; ok && depth > t.own {
			a.writeThrough(t, label)
			for _, fs := range a.pathFields(lhs) {
				if fs.derefAfter+extra > 0 {
					a.fi.fwrites[fs.name] = true
				}
			}
		}
	case *ast.CallExpr:
		if t := a.callResultTaint(b); t != nil {
			a.writeThrough(t, label)
			for _, fs := range a.pathFields(lhs) {
				if fs.derefAfter+extra > 0 {
					a.fi.fwrites[fs.name] = true
				}
			}
		}
	case *ast.CompositeLit:
		if t := a.exprTaint(b); t != nil && depth > 0 {
			a.writeThrough(t, label)
		}
	default:
		a.unknown(lhs.Pos(), "assignment whose target cannot be rooted (%T)", base)
	}
}

func (a *analyser) walk(body ast.Node) {
	a.collectAliases(body)
	a.recording = true
	ast.Inspect(body, func(n ast.Node) bool {
		switch x := n.(type) {
		case *ast.AssignStmt:
			for _, l := range x.Lhs {
				if x.Tok == token.DEFINE {
					if _, isId := l.(*ast.Ident); isId {
						continue
					}
				}
				a.noteWrite(l, 0, "")
			}
			for i, l := range x.Lhs {
				var rhs ast.Expr
				if len(x.Lhs) == len(x.Rhs) {
					rhs = x.Rhs[i]
				} else if len(x.Rhs) == 1 {
					rhs = x.Rhs[0]
				}
				if fs := a.pathFields(l); len(fs) > 0 && rhs != nil {
					a.noteStore(fs[0].name, rhs)
				}
			}
		case *ast.IncDecStmt:
			a.noteWrite(x.X, 0, "")
		case *ast.CompositeLit:
			a.noteLiteralStores(x)
		case *ast.RangeStmt:
			if x.Tok == token.ASSIGN {
				if x.Key != nil {
					a.noteWrite(x.Key, 0, "")
				}
				if x.Value != nil {
					a.noteWrite(x.Value, 0, "")
				}
			}
			if t := a.typeOf(x.X); t != nil {
				if _, isChan := t.Underlying().(*types.Chan); isChan {
					a.fi.chanops++
				}
			}
		case *ast.GoStmt:
			a.fi.gostmts++
		case *ast.SendStmt:
			a.fi.chanops++
		case *ast.SelectStmt:
			a.fi.chanops++
		case *ast.UnaryExpr:
			if x.Op == token.ARROW {
				a.fi.chanops++
			}
		case *ast.CallExpr:
			a.call(x)
		case *ast.SelectorExpr:
			a.selector(x)
		case *ast.FuncLit:
			// a literal that is not simply called locally may be invoked by anyone with any
			// arguments: its reference-typed parameters name unknown storage ("lit")
		}
		return true
	})
}

// noteStore: a reference is stored into (memory behind) the field.
func (a *analyser) noteStore(field string, rhs ast.Expr) {
	t := a.refArg(rhs)
	if t == nil {
		return
	}
	for f := range t.fields {
		a.fi.fieldflow[[2]string{field, f}] = true
	}
	for r, ty := range t.roots {
		if ty != nil {
			if _, isFn := ty.Underlying().(*types.Signature); isFn {
				continue
			}
		}
		if r == "recv" {
			continue
		}
		a.fi.fieldalias[[2]string{field, r}] = true
	}
}

func (a *analyser) noteLiteralStores(x *ast.CompositeLit) {
	t := a.typeOf(x)
	if t == nil {
		return
	}
	if p, ok := t.Underlying().(*types.Pointer); ok {
		t = p.Elem()
	}
	st, ok := t.Underlying().(*types.Struct)
	if !ok {
		return
	}
	for i, el := range x.Elts {
		var fv *types.Var
		v := el
		if kv, ok := el.(*ast.KeyValueExpr); ok {
			v = kv.Value
			if id, ok := kv.Key.(*ast.Ident); ok {
				fv, _ = a.info.Uses[id].(*types.Var)
			}
		} else if i < st.NumFields() {
			fv = st.Field(i)
		}
		if fv == nil {
			a.unknown(el.Pos(), "composite literal element without a field")
			continue
		}
		a.noteStore(a.fieldName(fv), v)
	}
}

// selector flags method values, method expressions, reflect and unsafe.
func (a *analyser) selector(x *ast.SelectorExpr) {
	if id, ok := x.X.(*ast.Ident); ok {
		if pn, isPkg := a.info.Uses[id].(*types.PkgName); isPkg {
			switch pn.Imported().Path() {
			case "reflect", "unsafe", "C":
				a.unknown(x.Pos(), "use of %s.%s", pn.Imported().Path(), x.Sel.Name)
			}
			if fn, ok := a.info.Uses[x.Sel].(*types.Func); ok && !a.callFun[x] && a.inRepo(fn.Pkg()) {
				// a repository function used as a value: whoever calls it is a dynamic call there
				_ = fn
			}
			return
		}
	}
	if sel, ok := a.info.Selections[x]; ok {
		switch sel.Kind() {
		case types.MethodVal:
			if !a.callFun[x] {
				a.unknown(x.Pos(), "method value %s", exprText(x))
			}
		case types.MethodExpr:
			a.unknown(x.Pos(), "method expression %s", exprText(x))
		}
	}
}

func (a *analyser) call(x *ast.CallExpr) {
	ci := a.classify(x)
	type boundArg struct {
		root string
		t    *tinfo
	}
	var bound []boundArg
	if rt := a.recvTaint(ci); rt != nil {
		bound = append(bound, boundArg{"recv", rt})
	}
	for i, arg := range x.Args {
		if t := a.refArg(arg); t != nil {
			bound = append(bound, boundArg{argRoot(ci.sig, i), t})
		}
	}
	shared := len(bound) > 0
	switch ci.kind {
	case ckConversion:
		return
	case ckBuiltin:
		switch ci.name {
		case "close":
			a.fi.chanops++
		case "copy", "delete", "clear":
			if len(x.Args) > 0 {
				a.noteWrite(x.Args[0], 1, "")
			}
		case "append":
			// append may write into the spare capacity of a shared backing array
			if len(x.Args) > 0 {
				a.noteWrite(x.Args[0], 1, "append:")
			}
		}
		return
	case ckRepo, ckRepoIface:
		for _, fn := range ci.targets {
			k := funcKey(fn)
			a.fi.calls[k] = true
			if shared {
				a.fi.scalls[k] = true
			}
			for _, b := range bound {
				for r := range b.t.roots {
					a.fi.argflow[[3]string{k, b.root, r}] = true
				}
				for f := range b.t.fields {
					a.fi.fargflow[[3]string{k, b.root, f}] = true
				}
			}
		}
		if ci.kind == ckRepoIface && len(ci.targets) == 0 {
			a.unknown(x.Pos(), "interface method %s has no implementation in the repository", ci.name)
		}
	case ckExternal:
		if ci.recv == nil {
			if gs := extGlobalState(ci.name); gs != "" {
				a.fi.gwrites[gs] = true
				a.fi.dwrites["g:"+gs] = true
				a.fi.extwrites[ci.name] = true
			}
		}
		if !shared || extReadOnly[ci.name] {
			return
		}
		only, restricted := extWritesOnly[ci.name]
		for _, b := range bound {
			if restricted && b.root != only {
				continue
			}
			if a.writeThroughCall(b.t) {
				a.fi.extwrites[ci.name] = true
			}
		}
	case ckLocalLit:
		// body analysed in place, arguments bound in collectAliases
	case ckDynamic:
		a.fi.dyncalls[ci.name] = true
		for _, b := range bound {
			if a.writeThroughCall(b.t) {
				a.fi.extwrites["callback "+ci.name] = true
			}
		}
	}
}

// ---------------------------------------------------------------- channel skeletons

// skeleton of a function body with respect to one channel-typed parameter
func (a *analyser) chanSkeleton(body *ast.BlockStmt, ch types.Object) (deferred int, skel string) {
	mentions := func(n ast.Node) bool {
		found := false
		if n == nil {
			return false
		}
		ast.Inspect(n, func(m ast.Node) bool {
			if id, ok := m.(*ast.Ident); ok && a.obj(id) == ch {
				found = true
			}
			return !found
		})
		return found
	}
	isCh := func(e ast.Expr) bool {
		for {
			if p, ok := e.(*ast.ParenExpr); ok {
				e = p.X
				continue
			}
			break
		}
		id, ok := e.(*ast.Ident)
		return ok && a.obj(id) == ch
	}
	isClose := func(e ast.Expr) bool {
		c, ok := e.(*ast.CallExpr)
		if !ok || len(c.Args) != 1 || !isCh(c.Args[0]) {
			return false
		}
		id, ok := c.Fun.(*ast.Ident)
		if !ok {
			return false
		}
		_, isB := a.info.Uses[id].(*types.Builtin)
		return isB && id.Name == "close"
	}
	isPanic := func(e ast.Expr) bool {
		c, ok := e.(*ast.CallExpr)
		if !ok {
			return false
		}
		id, ok := c.Fun.(*ast.Ident)
		if !ok {
			return false
		}
		_, isB := a.info.Uses[id].(*types.Builtin)
		return isB && id.Name == "panic"
	}
	// expression: only receives from ch, len(ch), cap(ch) are understood
	var exprOps func(e ast.Node) (string, bool)
	exprOps = func(e ast.Node) (string, bool) {
		if e == nil || !mentions(e) {
			return "CSkip", true
		}
		ok := true
		recvs := 0
		ast.Inspect(e, func(m ast.Node) bool {
			if !ok {
				return false
			}
			switch y := m.(type) {
			case *ast.UnaryExpr:
				if y.Op == token.ARROW && isCh(y.X) {
					recvs++
					return false
				}
			case *ast.CallExpr:
				if id, isId := y.Fun.(*ast.Ident); isId && len(y.Args) == 1 && isCh(y.Args[0]) {
					if _, isB := a.info.Uses[id].(*types.Builtin); isB && (id.Name == "len" || id.Name == "cap") {
						return false
					}
				}
			case *ast.FuncLit:
				if mentions(y) {
					ok = false
				}
				return false
			case *ast.Ident:
				if a.obj(y) == ch {
					ok = false
				}
			}
			return true
		})
		if !ok {
			return "CUnknown", false
		}
		s := "CSkip"
		for i := 0; i < recvs; i++ {
			s = "(CSeq CRecv " + s + ")"
		}
		return s, true
	}
	seq := func(parts []string) string {
		s := "CSkip"
		for i := len(parts) - 1; i >= 0; i-- {
			if parts[i] == "CSkip" {
				continue
			}
			if s == "CSkip" {
				s = parts[i]
			} else {
				s = "(CSeq " + parts[i] + " " + s + ")"
			}
		}
		return s
	}
	choice := func(parts []string) string {
		if len(parts) == 0 {
			return "CSkip"
		}
		s := parts[len(parts)-1]
		for i := len(parts) - 2; i >= 0; i-- {
			s = "(CIf " + parts[i] + " " + s + ")"
		}
		return s
	}
	var stmt func(s ast.Stmt, top bool) string
	block := func(l []ast.Stmt, top bool) string {
		var parts []string
		for _, s := range l {
			parts = append(parts, stmt(s, top))
		}
		return seq(parts)
	}
	stmt = func(s ast.Stmt, top bool) string {
		switch x := s.(type) {
		case nil:
			return "CSkip"
		case *ast.EmptyStmt:
			return "CSkip"
		case *ast.ExprStmt:
			if isClose(x.X) {
				return "CClose"
			}
			if isPanic(x.X) {
				e, _ := exprOps(x.X)
				return seq([]string{e, "CPanic"})
			}
			e, _ := exprOps(x.X)
			return e
		case *ast.SendStmt:
			if isCh(x.Chan) {
				e, _ := exprOps(x.Value)
				return seq([]string{e, "CSend"})
			}
			e1, _ := exprOps(x.Chan)
			e2, _ := exprOps(x.Value)
			return seq([]string{e1, e2})
		case *ast.AssignStmt:
			var parts []string
			for _, l := range x.Lhs {
				if isCh(l) {
					return "CUnknown"
				}
				e, _ := exprOps(l)
				parts = append(parts, e)
			}
			for _, r := range x.Rhs {
				e, _ := exprOps(r)
				parts = append(parts, e)
			}
			return seq(parts)
		case *ast.IncDecStmt:
			e, _ := exprOps(x.X)
			return e
		case *ast.DeclStmt:
			e, _ := exprOps(x)
			return e
		case *ast.ReturnStmt:
			var parts []string
			for _, r := range x.Results {
				e, _ := exprOps(r)
				parts = append(parts, e)
			}
			return seq(append(parts, "CReturn"))
		case *ast.BranchStmt:
			if x.Label != nil {
				return "CUnknown"
			}
			switch x.Tok {
			case token.BREAK:
				return "CBreak"
			case token.CONTINUE:
				return "CContinue"
			}
			return "CUnknown" // goto, fallthrough
		case *ast.BlockStmt:
			return block(x.List, false)
		case *ast.IfStmt:
			init := stmt(x.Init, false)
			c, _ := exprOps(x.Cond)
			th := block(x.Body.List, false)
			el := "CSkip"
			if x.Else != nil {
				el = stmt(x.Else, false)
			}
			return seq([]string{init, c, "(CIf " + th + " " + el + ")"})
		case *ast.ForStmt:
			init := stmt(x.Init, false)
			c, _ := exprOps(x.Cond)
			if x.Post != nil && mentions(x.Post) {
				return "CUnknown"
			}
			return seq([]string{init, "(CLoop " + seq([]string{c, block(x.Body.List, false)}) + ")"})
		case *ast.RangeStmt:
			if mentions(x.Key) || mentions(x.Value) {
				return "CUnknown"
			}
			if isCh(x.X) {
				return "(CLoop " + seq([]string{"CRecv", block(x.Body.List, false)}) + ")"
			}
			e, _ := exprOps(x.X)
			return seq([]string{e, "(CLoop " + block(x.Body.List, false) + ")"})
		case *ast.SwitchStmt:
			init := stmt(x.Init, false)
			tag, _ := exprOps(x.Tag)
			var cl []string
			hasDefault := false
			for _, c := range x.Body.List {
				cc := c.(*ast.CaseClause)
				if cc.List == nil {
					hasDefault = true
				}
				var parts []string
				for _, e := range cc.List {
					s, _ := exprOps(e)
					parts = append(parts, s)
				}
				parts = append(parts, block(cc.Body, false))
				cl = append(cl, seq(parts))
			}
			if !hasDefault {
				cl = append(cl, "CSkip")
			}
			return seq([]string{init, tag, "(CBlock " + choice(cl) + ")"})
		case *ast.TypeSwitchStmt:
			if mentions(x.Init) || mentions(x.Assign) {
				return "CUnknown"
			}
			var cl []string
			for _, c := range x.Body.List {
				cl = append(cl, block(c.(*ast.CaseClause).Body, false))
			}
			cl = append(cl, "CSkip")
			return "(CBlock " + choice(cl) + ")"
		case *ast.SelectStmt:
			var cl []string
			for _, c := range x.Body.List {
				cc := c.(*ast.CommClause)
				comm := "CSkip"
				if cc.Comm != nil {
					comm = stmt(cc.Comm, false)
				}
				cl = append(cl, seq([]string{comm, block(cc.Body, false)}))
			}
			return "(CBlock " + choice(cl) + ")"
		case *ast.DeferStmt:
			if isClose(x.Call) {
				if top {
					deferred++
					return "CSkip"
				}
				return "CUnknown"
			}
			if mentions(x.Call) {
				return "CUnknown"
			}
			return "CSkip"
		case *ast.GoStmt:
			if mentions(x.Call) {
				return "CUnknown"
			}
			return "CSkip"
		case *ast.LabeledStmt:
			return "CUnknown"
		}
		return "CUnknown"
	}
	// top-level statements; `defer close(ch)` is understood only there (it then runs at every exit)
	var parts []string
	for _, s := range body.List {
		parts = append(parts, stmt(s, true))
	}
	return deferred, seq(parts)
}

// ---------------------------------------------------------------- output

func coqStr(s string) string { return "\"" + strings.ReplaceAll(s, "\"", "\"\"") + "\"" }

func coqList(m map[string]bool) string {
	var ks []string
	for k := range m {
		ks = append(ks, k)
	}
	sort.Strings(ks)
	for i := range ks {
		ks[i] = coqStr(ks[i])
	}
	return "[" + strings.Join(ks, "; ") + "]"
}

func coqPairs(m map[[2]string]bool) string {
	var ks [][2]string
	for k := range m {
		ks = append(ks, k)
	}
	sort.Slice(ks, func(i, j int) bool {
		if ks[i][0] != ks[j][0] {
			return ks[i][0] < ks[j][0]
		}
		return ks[i][1] < ks[j][1]
	})
	out := make([]string, len(ks))
	for i, k := range ks {
		out[i] = "(" + coqStr(k[0]) + ", " + coqStr(k[1]) + ")"
	}
	return "[" + strings.Join(out, "; ") + "]"
}

func coqTriples(m map[[3]string]bool) string {
	var ks [][3]string
	for k := range m {
		ks = append(ks, k)
	}
	sort.Slice(ks, func(i, j int) bool {
		for c := 0; c < 3; c++ {
			if ks[i][c] != ks[j][c] {
				return ks[i][c] < ks[j][c]
			}
		}
		return false
	})
	out := make([]string, len(ks))
	for i, k := range ks {
		out[i] = "(" + coqStr(k[0]) + ", " + coqStr(k[1]) + ", " + coqStr(k[2]) + ")"
	}
	return "[" + strings.Join(out, "; ") + "]"
}

const effectsPrelude = "From Coq Require Import List String.\nFrom Mamba Require Import Effects.Skel.\nImport ListNotations.\nOpen Scope string_scope.\n\n"

const effectsRecord = "Record finfo := { fname : string; fexported : bool; gwrites : list string; swrites : list string; calls : list string; scalls : list string; gostmts : nat; chanops : nat; dwrites : list string; argflow : list (string * string * string); extwrites : list string; dyncalls : list string; unknown : list string; fwrites : list string; fargflow : list (string * string * string); fieldalias : list (string * string); fieldflow : list (string * string) }.\n\n"

func effectsTranslator(repo string) (map[string]string, error) {
	failed := func(err error) (map[string]string, error) {
		return map[string]string{"Effects.v": "(* generated by tools/gotrans (effects): FAILED: " + strings.ReplaceAll(strings.ReplaceAll(err.Error(), "*)", "* )"), "(*", "( *") + " *)\n" + effectsPrelude +
			"Definition translation_failed_effects : bool := true.\n\n" + effectsRecord +
			"Definition globals : list string := [].\n\nDefinition funcs : list finfo := [].\n\nDefinition chanskels : list (string * string * nat * cstmt) := [].\n"}, err
	}
	mod := modulePath(repo)
	if mod == "" {
		return failed(fmt.Errorf("no module path"))
	}
	fset := token.NewFileSet()
	ri := &repoImporter{fset: fset, repo: repo, module: mod, pkgs: map[string]*types.Package{}, infos: map[string]*types.Info{},
		files: map[string][]*ast.File{}, std: importer.ForCompiler(fset, "source", nil), loading: map[string]bool{}}
	var pkgPaths []string
	filepath.Walk(repo, func(p string, fi os.FileInfo, err error) error {
		if err != nil {
			return nil
		}
		if fi.IsDir() {
			if (strings.HasPrefix(fi.Name(), ".") || fi.Name() == "testdata" || fi.Name() == "vendor") && p != repo {
				return filepath.SkipDir
			}
			ents, _ := os.ReadDir(p)
			for _, e := range ents {
				if strings.HasSuffix(e.Name(), ".go") && !strings.HasSuffix(e.Name(), "_test.go") {
					rel, _ := filepath.Rel(repo, p)
					if rel == "." {
						pkgPaths = append(pkgPaths, mod)
					} else {
						pkgPaths = append(pkgPaths, mod+"/"+filepath.ToSlash(rel))
					}
					break
				}
			}
		}
		return nil
	})
	sort.Strings(pkgPaths)
	for _, path := range pkgPaths {
		if pkg, err := ri.load(path); err != nil || pkg == nil {
			return failed(fmt.Errorf("type-checking %s: %v", path, err))
		}
	}
	if len(ri.errs) > 0 {
		return failed(fmt.Errorf("the repository does not type-check cleanly or has non-Go sources: %s", strings.Join(ri.errs[:min(len(ri.errs), 3)], "; ")))
	}
	fieldNames = map[*types.Var]string{}
	for _, path := range pkgPaths {
		pkg := ri.pkgs[path]
		for _, name := range pkg.Scope().Names() {
			tn, ok := pkg.Scope().Lookup(name).(*types.TypeName)
			if !ok {
				continue
			}
			if st, ok := tn.Type().Underlying().(*types.Struct); ok {
				for i := 0; i < st.NumFields(); i++ {
					fieldNames[st.Field(i)] = pkg.Name() + "." + tn.Name() + "." + st.Field(i).Name()
				}
			}
		}
	}
	// all methods of the repository by name (targets of interface calls)
	impl := map[string][]*types.Func{}
	for _, path := range pkgPaths {
		info := ri.infos[path]
		for _, f := range ri.files[path] {
			for _, d := range f.Decls {
				if fd, ok := d.(*ast.FuncDecl); ok && fd.Recv != nil {
					if fn, ok := info.Defs[fd.Name].(*types.Func); ok {
						impl[fn.Name()] = append(impl[fn.Name()], fn)
					}
				}
			}
		}
	}
	var all []*finfo
	var globals []string
	var skels []string
	retRoots = map[string]map[string]bool{}
	for iter := 0; iter < 30; iter++ {
		changed := false
		all = nil
		globals = nil
		skels = nil
		for _, path := range pkgPaths {
			pkg := ri.pkgs[path]
			info := ri.infos[path]
			for _, name := range pkg.Scope().Names() {
				if v, ok := pkg.Scope().Lookup(name).(*types.Var); ok {
					globals = append(globals, pkg.Name()+"."+v.Name())
				}
			}
			for _, f := range ri.files[path] {
				fileUnknown := ""
				for _, imp := range f.Imports {
					switch strings.Trim(imp.Path.Value, "\"") {
					case "C":
						fileUnknown = "cgo in " + filepath.Base(fset.Position(f.Pos()).Filename)
					}
				}
				for _, cg := range f.Comments {
					for _, c := range cg.List {
						if strings.HasPrefix(c.Text, "//go:linkname") {
							fileUnknown = "go:linkname in " + filepath.Base(fset.Position(f.Pos()).Filename)
						}
					}
				}
				for _, d := range f.Decls {
					fd, ok := d.(*ast.FuncDecl)
					if !ok {
						continue
					}
					fn, ok := info.Defs[fd.Name].(*types.Func)
					if !ok {
						continue
					}
					fi := newFinfo(funcKey(fn), fn.Exported())
					all = append(all, fi)
					if fileUnknown != "" {
						fi.unknown[fileUnknown] = true
					}
					if fd.Body == nil {
						fi.unknown["function without a body"] = true
						continue
					}
					sig := fn.Type().(*types.Signature)
					if sig.TypeParams().Len() > 0 || sig.RecvTypeParams().Len() > 0 {
						fi.unknown["generic function"] = true
					}
					a := &analyser{info: info, pkg: pkg, mod: mod, fset: fset, taint: map[types.Object]*tinfo{}, fi: fi, ret: map[string]bool{},
						litVar: map[types.Object]*ast.FuncLit{}, litEsc: map[types.Object]bool{}, litOfVar: map[*ast.FuncLit]types.Object{},
						impl: impl, callFun: map[ast.Expr]bool{}, freshUse: map[*ast.Ident]bool{}}
					if r := sig.Recv(); r != nil {
						a.taint[r] = &tinfo{roots: map[string]types.Type{"recv": r.Type()}, own: 0}
					}
					for i := 0; i < sig.Params().Len(); i++ {
						p := sig.Params().At(i)
						if isRefType(p.Type()) {
							a.taint[p] = &tinfo{roots: map[string]types.Type{fmt.Sprintf("p%d", i): p.Type()}, own: 0}
						}
					}
					for i := 0; i < sig.Results().Len(); i++ {
						if r := sig.Results().At(i); r.Name() != "" && r.Name() != "_" {
							a.results = append(a.results, r)
						}
					}
					a.prepass(fd.Body)
					a.prepassFresh(fd.Body)
					a.walk(fd.Body)
					old := retRoots[fi.key]
					if old == nil {
						old = map[string]bool{}
						retRoots[fi.key] = old
					}
					for k := range a.ret {
						if !old[k] {
							old[k] = true
							changed = true
						}
					}
					for i := 0; i < sig.Params().Len(); i++ {
						p := sig.Params().At(i)
						if _, isChan := p.Type().Underlying().(*types.Chan); isChan {
							dn, sk := a.chanSkeleton(fd.Body, p)
							skels = append(skels, fmt.Sprintf("  (%s, %s, %d, %s)", coqStr(fi.key), coqStr(fmt.Sprintf("p%d", i)), dn, sk))
						}
					}
				}
			}
		}
		if !changed {
			break
		}
		if iter == 29 {
			return failed(fmt.Errorf("alias summary of results did not reach a fixpoint"))
		}
	}
	sort.SliceStable(all, func(i, j int) bool { return all[i].key < all[j].key })
	// several functions with one key (init, methods of same-named types in one package cannot occur): merge conservatively
	var merged []*finfo
	for _, fi := range all {
		if n := len(merged); n > 0 && merged[n-1].key == fi.key {
			m := merged[n-1]
			for _, pr := range []struct{ dst, src map[string]bool }{{m.gwrites, fi.gwrites}, {m.swrites, fi.swrites}, {m.calls, fi.calls}, {m.scalls, fi.scalls},
				{m.dwrites, fi.dwrites}, {m.extwrites, fi.extwrites}, {m.dyncalls, fi.dyncalls}, {m.unknown, fi.unknown}, {m.fwrites, fi.fwrites}} {
				for k := range pr.src {
					pr.dst[k] = true
				}
			}
			for k := range fi.argflow {
				m.argflow[k] = true
			}
			for k := range fi.fargflow {
				m.fargflow[k] = true
			}
			for k := range fi.fieldalias {
				m.fieldalias[k] = true
			}
			for k := range fi.fieldflow {
				m.fieldflow[k] = true
			}
			m.gostmts += fi.gostmts
			m.chanops += fi.chanops
			continue
		}
		merged = append(merged, fi)
	}
	all = merged
	sort.Strings(globals)
	sort.Strings(skels)
	var sb strings.Builder
	sb.WriteString("(* generated by tools/gotrans (effects) from the repository's current source -- do not edit *)\n")
	sb.WriteString(effectsPrelude)
	sb.WriteString("Definition translation_failed_effects : bool := false.\n\n")
	sb.WriteString(effectsRecord)
	gs := make([]string, len(globals))
	for i, g := range globals {
		gs[i] = coqStr(g)
	}
	sb.WriteString("Definition globals : list string := [" + strings.Join(gs, "; ") + "].\n\n")
	sb.WriteString("Definition funcs : list finfo := [\n")
	for i, fi := range all {
		sep := ";"
		if i == len(all)-1 {
			sep = ""
		}
		exp := "false"
		if fi.exported {
			exp = "true"
		}
		fmt.Fprintf(&sb, "  {| fname := %s; fexported := %s; gwrites := %s; swrites := %s; calls := %s; scalls := %s; gostmts := %d; chanops := %d;\n     dwrites := %s; argflow := %s; extwrites := %s; dyncalls := %s; unknown := %s;\n     fwrites := %s; fargflow := %s; fieldalias := %s; fieldflow := %s |}%s\n",
			coqStr(fi.key), exp, coqList(fi.gwrites), coqList(fi.swrites), coqList(fi.calls), coqList(fi.scalls), fi.gostmts, fi.chanops,
			coqList(fi.dwrites), coqTriples(fi.argflow), coqList(fi.extwrites), coqList(fi.dyncalls), coqList(fi.unknown),
			coqList(fi.fwrites), coqTriples(fi.fargflow), coqPairs(fi.fieldalias), coqPairs(fi.fieldflow), sep)
	}
	sb.WriteString("].\n\n")
	sb.WriteString("(* (function, channel parameter, number of top-level `defer close`, skeleton of the body) *)\n")
	sb.WriteString("Definition chanskels : list (string * string * nat * cstmt) := [\n" + strings.Join(skels, ";\n") + "\n].\n")
	return map[string]string{"Effects.v": sb.String()}, nil
}

// prepass finds local variables bound only to function literals, the expressions in call
// position, and taints the parameters of literals that can be called by someone else.
func (a *analyser) prepass(body ast.Node) {
	other := map[types.Object]bool{}
	bind := func(lhs, rhs ast.Expr) {
		id, ok := lhs.(*ast.Ident)
		if !ok {
			return
		}
		obj := a.obj(id)
		if obj == nil {
			return
		}
		if _, isSig := obj.Type().Underlying().(*types.Signature); !isSig {
			return
		}
		if lit, ok := rhs.(*ast.FuncLit); ok {
			if prev, had := a.litVar[obj]; had && prev != lit {
				other[obj] = true // two different literals: treat as dynamic
			}
			a.litVar[obj] = lit
			a.litOfVar[lit] = obj
		} else {
			other[obj] = true
		}
	}
	ast.Inspect(body, func(n ast.Node) bool {
		switch x := n.(type) {
		case *ast.CallExpr:
			f := x.Fun
			for {
				if p, ok := f.(*ast.ParenExpr); ok {
					f = p.X
					continue
				}
				break
			}
			a.callFun[f] = true
			a.callFun[x.Fun] = true
		case *ast.AssignStmt:
			if len(x.Lhs) == len(x.Rhs) {
				for i := range x.Lhs {
					bind(x.Lhs[i], x.Rhs[i])
				}
			} else {
				for i := range x.Lhs {
					bind(x.Lhs[i], nil)
				}
			}
		case *ast.ValueSpec:
			for i, nm := range x.Names {
				if i < len(x.Values) {
					bind(nm, x.Values[i])
				}
			}
		}
		return true
	})
	for obj := range other {
		delete(a.litVar, obj)
	}
	// does a literal-bound variable escape (used other than by calling it)?
	ast.Inspect(body, func(n ast.Node) bool {
		if id, ok := n.(*ast.Ident); ok {
			if obj := a.info.Uses[id]; obj != nil {
				if _, isLit := a.litVar[obj]; isLit && !a.callFun[id] {
					a.litEsc[obj] = true
				}
			}
		}
		return true
	})
	called := map[*ast.FuncLit]bool{}
	ast.Inspect(body, func(n ast.Node) bool {
		if c, ok := n.(*ast.CallExpr); ok {
			f := c.Fun
			for {
				if p, ok := f.(*ast.ParenExpr); ok {
					f = p.X
					continue
				}
				break
			}
			if lit, ok := f.(*ast.FuncLit); ok {
				called[lit] = true
			}
		}
		return true
	})
	ast.Inspect(body, func(n ast.Node) bool {
		lit, ok := n.(*ast.FuncLit)
		if !ok {
			return true
		}
		local := called[lit]
		if obj, bound := a.litOfVar[lit]; bound && a.litVar[obj] == lit && !a.litEsc[obj] {
			local = true
		}
		if local {
			return true
		}
		for _, fld := range lit.Type.Params.List {
			for _, nm := range fld.Names {
				if obj := a.info.Defs[nm]; obj != nil && isRefType(obj.Type()) {
					a.taint[obj] = &tinfo{roots: map[string]types.Type{"lit": obj.Type()}, own: 0}
				}
			}
		}
		return true
	})
}

// prepassFresh: the one piece of flow sensitivity.  After a statement `x = <fresh>` directly in
// a block (x a local variable or parameter; <fresh> = make / new / a literal without elements /
// nil / a local variable that only ever holds such values), the uses of x in the following
// statements of the same block, up to the next statement that assigns x again, see the fresh
// value whatever path is taken (the block is straight-line at its own level, and leaving it
// leaves the region).  Not applied if the function uses goto, takes the address of x, or
// assigns x inside a function literal.
func (a *analyser) prepassFresh(body *ast.BlockStmt) {
	hasGoto := false
	addrTaken := map[types.Object]bool{}
	assigned := map[types.Object][]ast.Expr{} // every right-hand side assigned to a variable (nil = not a plain value)
	litDepth := 0
	var scan func(n ast.Node) bool
	scan = func(n ast.Node) bool {
		switch x := n.(type) {
		case *ast.BranchStmt:
			if x.Tok == token.GOTO {
				hasGoto = true
			}
		case *ast.UnaryExpr:
			if x.Op == token.AND {
				if id, ok := x.X.(*ast.Ident); ok {
					if o := a.obj(id); o != nil {
						addrTaken[o] = true
					}
				}
			}
		case *ast.FuncLit:
			litDepth++
			ast.Inspect(x.Body, scan)
			litDepth--
			return false
		case *ast.AssignStmt:
			for i, l := range x.Lhs {
				if id, ok := l.(*ast.Ident); ok {
					if o := a.obj(id); o != nil {
						var rhs ast.Expr
						if len(x.Lhs) == len(x.Rhs) && (x.Tok == token.ASSIGN || x.Tok == token.DEFINE) {
							rhs = x.Rhs[i]
						}
						assigned[o] = append(assigned[o], rhs)
						if litDepth > 0 {
							addrTaken[o] = true
						}
					}
				}
			}
		case *ast.ValueSpec:
			for i, nm := range x.Names {
				if o := a.info.Defs[nm]; o != nil {
					if i < len(x.Values) {
						assigned[o] = append(assigned[o], x.Values[i])
					} else if len(x.Values) > 0 {
						assigned[o] = append(assigned[o], nil)
					}
				}
			}
		case *ast.RangeStmt:
			for _, e := range []ast.Expr{x.Key, x.Value} {
				if id, ok := e.(*ast.Ident); ok {
					if o := a.obj(id); o != nil {
						assigned[o] = append(assigned[o], nil)
					}
				}
			}
		case *ast.IncDecStmt:
			if id, ok := x.X.(*ast.Ident); ok {
				if o := a.obj(id); o != nil {
					assigned[o] = append(assigned[o], nil)
				}
			}
		}
		return true
	}
	ast.Inspect(body, scan)
	if hasGoto {
		return
	}
	syntacticallyFresh := func(e ast.Expr) bool {
		switch x := e.(type) {
		case *ast.CallExpr:
			if id, ok := x.Fun.(*ast.Ident); ok {
				if _, isB := a.info.Uses[id].(*types.Builtin); isB && (id.Name == "make" || id.Name == "new") {
					return true
				}
			}
		case *ast.CompositeLit:
			return len(x.Elts) == 0
		case *ast.Ident:
			if _, isNil := a.info.Uses[x].(*types.Nil); isNil {
				return true
			}
		}
		return false
	}
	var fresh func(e ast.Expr, depth int) bool
	fresh = func(e ast.Expr, depth int) bool {
		if e == nil {
			return false
		}
		if syntacticallyFresh(e) {
			return true
		}
		if id, ok := e.(*ast.Ident); ok && depth < 3 {
			o := a.obj(id)
			v, isVar := o.(*types.Var)
			if !isVar || a.isPkgLevel(o) || addrTaken[o] || len(assigned[o]) == 0 || !plainContainer(o.Type()) {
				return false
			}
			// a parameter or receiver holds the caller's value on entry
			if _, tainted := a.taint[v]; tainted {
				return false
			}
			for _, r := range assigned[o] {
				if !fresh(r, depth+1) {
					return false
				}
			}
			return true
		}
		return false
	}
	assignsTo := func(n ast.Node, o types.Object) bool {
		found := false
		ast.Inspect(n, func(m ast.Node) bool {
			switch y := m.(type) {
			case *ast.AssignStmt:
				for _, l := range y.Lhs {
					if id, ok := l.(*ast.Ident); ok && a.obj(id) == o {
						found = true
					}
				}
			case *ast.RangeStmt:
				for _, e := range []ast.Expr{y.Key, y.Value} {
					if id, ok := e.(*ast.Ident); ok && a.obj(id) == o {
						found = true
					}
				}
			case *ast.IncDecStmt:
				if id, ok := y.X.(*ast.Ident); ok && a.obj(id) == o {
					found = true
				}
			}
			return !found
		})
		return found
	}
	doList := func(list []ast.Stmt) {
		for i, st := range list {
			as, ok := st.(*ast.AssignStmt)
			if !ok || as.Tok != token.ASSIGN || len(as.Lhs) != 1 || len(as.Rhs) != 1 {
				continue
			}
			id, ok := as.Lhs[0].(*ast.Ident)
			if !ok {
				continue
			}
			o := a.obj(id)
			if o == nil || a.isPkgLevel(o) || addrTaken[o] || !plainContainer(o.Type()) || !fresh(as.Rhs[0], 0) {
				continue
			}
			for j := i + 1; j < len(list); j++ {
				if assignsTo(list[j], o) {
					break
				}
				ast.Inspect(list[j], func(m ast.Node) bool {
					if u, ok := m.(*ast.Ident); ok && a.info.Uses[u] == o {
						a.freshUse[u] = true
					}
					return true
				})
			}
		}
	}
	ast.Inspect(body, func(n ast.Node) bool {
		switch x := n.(type) {
		case *ast.BlockStmt:
			doList(x.List)
		case *ast.CaseClause:
			doList(x.Body)
		case *ast.CommClause:
			doList(x.Body)
		}
		return true
	})
}

// plainContainer: a slice, map or pointer whose elements hold no references themselves (so a
// fresh one cannot be made to hold shared memory by storing into it).
func plainContainer(t types.Type) bool {
	switch u := t.Underlying().(type) {
	case *types.Slice:
		return !isRefType(u.Elem())
	case *types.Map:
		return !isRefType(u.Elem()) && !isRefType(u.Key())
	case *types.Pointer:
		return !isRefType(u.Elem())
	}
	return false
}
