package main

// Self-test of the headers translator (C07/C08 size headers).  A copy of graph/encoding.go is
// mutated in a temporary directory (outside /repo and /verif, removed afterwards); for every
// mutation the regenerated coq/Gen/SizeHeaders.v must change, and the Coq obligations over it
// (coq/Codec/HeaderGenCheck.v, in a private copy) must break at the expected lemma -- or, for
// the harmless re-phrasings, must still hold together with Props/C07_headers.v.
//
//	cd /verif/tools/gotrans && go test -run TestHeaders -v
//
// VERIF_REPO selects the repository (default /repo); the Coq part is skipped, with a message,
// if coqc is not on PATH.

import (
	"os"
	"os/exec"
	"path/filepath"
	"regexp"
	"strconv"
	"strings"
	"testing"
)

type hdrEdit struct{ fn, old, new string } // replace old by new inside function fn (exactly one occurrence)

type hdrMutation struct {
	name    string
	edits   []hdrEdit
	lemma   string // obligation that must break; "" = everything must still hold
	wantErr bool   // the translator itself must report failure
	same    bool   // the table may stay the same (the change disappears in constant evaluation)
}

var hdrMutations = []hdrMutation{
	// ---- real changes of the header code: must break the named obligation
	{name: "g6enc-bound-258048", lemma: "graph6_encode_header_regenerated",
		edits: []hdrEdit{{"Graph6Encode", "n <= 258047", "n <= 258048"}}},
	{name: "g6enc-8byte-shift-24", lemma: "graph6_encode_header_regenerated",
		edits: []hdrEdit{{"Graph6Encode", "s[2] = byte((n>>30)&63) + 63", "s[2] = byte((n>>24)&63) + 63"}}},
	{name: "g6dec-shift-inside-byte", lemma: "graph6_decode_header_regenerated",
		edits: []hdrEdit{{"Graph6Decode", "(uint64(s[1]-63) << 12)", "uint64((s[1]-63)<<12)"}}},
	{name: "g6enc-1byte-plus-64", lemma: "graph6_encode_header_regenerated",
		edits: []hdrEdit{{"Graph6Encode", "s[0] = byte(n + 63)", "s[0] = byte(n + 64)"}}},
	{name: "g6enc-8byte-marker-missing", lemma: "graph6_encode_header_regenerated",
		edits: []hdrEdit{{"Graph6Encode", "\t\ts[1] = 126\n", ""}}},
	{name: "g6enc-8byte-mask-127", lemma: "graph6_encode_header_regenerated",
		edits: []hdrEdit{{"Graph6Encode", "s[4] = byte((n>>18)&63) + 63", "s[4] = byte((n>>18)&127) + 63"}}},
	{name: "g6enc-4byte-no-mask", lemma: "graph6_encode_header_regenerated",
		edits: []hdrEdit{{"Graph6Encode", "s[2] = byte((n>>6)&63) + 63", "s[2] = byte(n>>6) + 63"}}},
	{name: "g6enc-largest-bound", lemma: "graph6_encode_header_regenerated",
		edits: []hdrEdit{{"Graph6Encode", "n <= 68719476735", "n <= 68719476736"}}},
	{name: "g6enc-no-panic", lemma: "graph6_encode_header_regenerated",
		edits: []hdrEdit{{"Graph6Encode", " else {\n\t\tpanic(\"Graph too large\")\n\t}", ""}}},
	{name: "s6enc-bound-63", lemma: "sparse6_encode_header_regenerated",
		edits: []hdrEdit{{"Sparse6Encode", "n <= 62", "n <= 63"}}},
	{name: "s6enc-8byte-shift-17", lemma: "sparse6_encode_header_regenerated",
		edits: []hdrEdit{{"Sparse6Encode", "s[5] = byte((n>>18)&63) + 63", "s[5] = byte((n>>17)&63) + 63"}}},
	{name: "s6enc-colon-missing", lemma: "sparse6_encode_header_regenerated",
		edits: []hdrEdit{{"Sparse6Encode", "s = make([]byte, 9, 9+((k+1)*2*m+5)/6)\n\t\ts[0] = 58", "s = make([]byte, 9, 9+((k+1)*2*m+5)/6)\n\t\ts[0] = 59"}}},
	{name: "s6enc-early-return", lemma: "sparse6_encode_header_regenerated",
		edits: []hdrEdit{{"Sparse6Encode", "return string([]byte{58, byte(n + 63)})", "return string([]byte{58, byte(n + 62)})"}}},
	{name: "g6dec-len-7", lemma: "graph6_decode_header_regenerated",
		edits: []hdrEdit{{"Graph6Decode", "if len(s) < 8 {", "if len(s) < 7 {"}}},
	{name: "g6dec-cursor-5", lemma: "graph6_decode_header_regenerated",
		edits: []hdrEdit{{"Graph6Decode", "i = 4", "i = 5"}}},
	{name: "g6dec-maxn-test-removed", lemma: "graph6_decode_header_regenerated",
		edits: []hdrEdit{{"Graph6Decode", "\t\tMaxN := 0.5 + math.Sqrt(2*float64(maxInt)+0.25)\n\t\tif float64(n) > MaxN {\n\t\t\treturn &DenseGraph{}, errors.New(\"Graph too large\")\n\t\t}\n", ""}}},
	{name: "g6dec-marker-125", lemma: "graph6_decode_header_regenerated",
		edits: []hdrEdit{{"Graph6Decode", "} else if s[1] != 126 {", "} else if s[1] != 125 {"}}},
	{name: "s6dec-8byte-shift-29", lemma: "sparse6_decode_header_regenerated",
		edits: []hdrEdit{{"Sparse6Decode", "(uint64(s[2]-63) << 30)", "(uint64(s[2]-63) << 29)"}}},
	{name: "s6dec-wrong-byte", lemma: "sparse6_decode_header_regenerated",
		edits: []hdrEdit{{"Sparse6Decode", "(uint64(s[2]-63) << 6) + uint64(s[3]-63)\n\t\ti = 4", "(uint64(s[2]-63) << 6) + uint64(s[2]-63)\n\t\ti = 4"}}},
	{name: "s6dec-minus-62", lemma: "sparse6_decode_header_regenerated",
		edits: []hdrEdit{{"Sparse6Decode", "n = uint64(s[0] - 63)", "n = uint64(s[0] - 62)"}}},
	{name: "s6dec-truncated-to-byte", lemma: "sparse6_decode_header_regenerated",
		// 8-bit truncation of the 4-byte form: byte(...) around a uint64 sum
		edits: []hdrEdit{{"Sparse6Decode", "n = (uint64(s[1]-63) << 12) + (uint64(s[2]-63) << 6) + uint64(s[3]-63)",
			"n = uint64(byte((uint64(s[1]-63) << 12) + (uint64(s[2]-63) << 6) + uint64(s[3]-63)))"}}},
	{name: "g6enc-detached-early-return-bound-2", lemma: "graph6_encode_header_regenerated",
		edits: []hdrEdit{{"Graph6Encode", "\tif n <= 1 {\n\t\treturn string(rune(n + 63))\n\t} else if n <= 62 {", "\tif n <= 2 {\n\t\treturn string(rune(n + 63))\n\t}\n\tif n <= 62 {"}}},
	// ---- outside the recognised shape: the translator fails closed
	{name: "g6enc-unknown-call", lemma: "graph6_encode_header_regenerated", wantErr: true,
		edits: []hdrEdit{{"Graph6Encode", "s[3] = byte(n&63) + 63", "s[3] = byte(bits.Len(uint(n))&63) + 63"}}},
	{name: "s6dec-extra-statement", lemma: "graph6_encode_header_regenerated", wantErr: true,
		edits: []hdrEdit{{"Sparse6Decode", "\t\ti = 8\n", "\t\ti = 8\n\t\tn++\n"}}},
	{name: "g6dec-nonconstant-index", lemma: "graph6_encode_header_regenerated", wantErr: true,
		edits: []hdrEdit{{"Graph6Decode", "n = uint64(s[0] - 63)", "n = uint64(s[i] - 63)"}}},
	// ---- harmless re-phrasings: everything must still hold
	{name: "harmless-hex-mask", same: true,
		edits: []hdrEdit{{"Graph6Encode", "s[1] = byte((n>>12)&63) + 63", "s[1] = byte((n>>12)&0x3f) + 63"}}},
	{name: "harmless-plus-inside-conversion",
		edits: []hdrEdit{{"Graph6Encode", "s[2] = byte((n>>30)&63) + 63", "s[2] = byte(63 + n>>30&63)"}}},
	{name: "harmless-no-mask-on-top-field",
		// n <= 258047 so n>>12 <= 62 already
		edits: []hdrEdit{{"Sparse6Encode", "s[2] = byte((n>>12)&63) + 63", "s[2] = byte(n>>12) + 63"}}},
	{name: "harmless-strict-bounds-and-order",
		edits: []hdrEdit{{"Graph6Encode", "n <= 258047", "n < 258048"},
			{"Graph6Encode", "\t\ts[2] = byte((n>>6)&63) + 63\n\t\ts[3] = byte(n&63) + 63\n\t} else if n <= 68719476735", "\t\ts[3] = byte(n&63) + 63\n\t\ts[2] = byte((n>>6)&63) + 63\n\t} else if 68719476735 >= n"}}},
	{name: "harmless-mask-then-truncate",
		edits: []hdrEdit{{"Sparse6Encode", "s[8] = byte(n&63) + 63", "s[8] = byte(n)&63 + 63"}}},
	{name: "harmless-detached-early-return",
		edits: []hdrEdit{{"Graph6Encode", "\t\treturn string(rune(n + 63))\n\t} else if n <= 62 {", "\t\treturn string([]byte{byte(n + 63)})\n\t}\n\tif n <= 62 {"}}},
	{name: "harmless-decoder-else-if-length",
		edits: []hdrEdit{{"Sparse6Decode", "\t} else {\n\t\tif len(s) < 8 {\n\t\t\treturn &SparseGraph{}, errors.New(\"String too short - unable to decode n\")\n\t\t}\n",
			"\t} else if len(s) < 8 {\n\t\treturn &SparseGraph{}, errors.New(\"String too short - unable to decode n\")\n\t} else {\n"}}, same: true},
	{name: "harmless-decoder-multiplication",
		edits: []hdrEdit{{"Graph6Decode", "(uint64(s[1]-63) << 12)", "uint64(s[1]-63)*4096"}}},
	{name: "harmless-decoder-subtract-in-uint64",
		edits: []hdrEdit{{"Sparse6Decode", "(uint64(s[3]-63) << 24)", "((uint64(s[3]) - 63) << 24)"},
			{"Sparse6Decode", "if len(s) < 8 {", "if len(s) <= 7 {"}}},
	{name: "harmless-decoder-distributed",
		edits: []hdrEdit{{"Sparse6Decode", "n = (uint64(s[1]-63) << 12) + (uint64(s[2]-63) << 6) + uint64(s[3]-63)",
			"n = uint64(s[1])<<12 + uint64(s[2])<<6 + uint64(s[3]) - 63*(4096+64+1)"}}},
}

func hdrRun(dir string, name string, args ...string) (string, error) {
	cmd := exec.Command(name, args...)
	cmd.Dir = dir
	out, err := cmd.CombinedOutput()
	return string(out), err
}

var hdrLemmaRe = regexp.MustCompile(`^\s*(?:Lemma|Theorem|Definition|Example)\s+([\w']+)`)

// hdrBuildCoq compiles files in order; returns the statement at which the build breaks ("" if none).
func hdrBuildCoq(coq string, files []string) string {
	for _, f := range files {
		out, err := hdrRun(coq, "coqc", "-Q", ".", "Mamba", "-w", "-deprecated,-notation-overridden", f)
		if err == nil {
			continue
		}
		m := regexp.MustCompile(`File "\./([^"]+)", line (\d+)`).FindStringSubmatch(out)
		if m == nil {
			return "? " + out
		}
		src, _ := os.ReadFile(filepath.Join(coq, m[1]))
		lines := strings.Split(string(src), "\n")
		ln, _ := strconv.Atoi(m[2])
		for k := ln - 1; k >= 0; k-- {
			if k < len(lines) {
				if mm := hdrLemmaRe.FindStringSubmatch(lines[k]); mm != nil {
					return mm[1]
				}
			}
		}
		return "? " + out
	}
	return ""
}

func hdrApply(t *testing.T, src string, e hdrEdit) string {
	start := strings.Index(src, "func "+e.fn+"(")
	if start < 0 {
		t.Skipf("function %s not found (the source changed: update the self-test)", e.fn)
	}
	end := strings.Index(src[start+1:], "\nfunc ")
	if end < 0 {
		end = len(src)
	} else {
		end += start + 1
	}
	body := src[start:end]
	if strings.Count(body, e.old) != 1 {
		t.Skipf("anchor %q occurs %d times in %s (the source changed: update the self-test)", e.old, strings.Count(body, e.old), e.fn)
	}
	return src[:start] + strings.Replace(body, e.old, e.new, 1) + src[end:]
}

func TestHeadersSelfTest(t *testing.T) {
	repo := os.Getenv("VERIF_REPO")
	if repo == "" {
		repo = "/repo"
	}
	orig, err := os.ReadFile(filepath.Join(repo, "graph", "encoding.go"))
	if err != nil {
		t.Skip("no graph/encoding.go under " + repo)
	}
	verifCoq, _ := filepath.Abs("../../coq")
	tmp, err := os.MkdirTemp("", "gotrans-headers-selftest-")
	if err != nil {
		t.Fatal(err)
	}
	defer os.RemoveAll(tmp)
	if strings.HasPrefix(tmp, "/repo") || strings.HasPrefix(tmp, "/verif") {
		t.Fatal("temporary directory inside /repo or /verif: " + tmp)
	}
	work := filepath.Join(tmp, "repo")
	os.MkdirAll(filepath.Join(work, "graph"), 0o755)
	path := filepath.Join(work, "graph", "encoding.go")
	os.WriteFile(path, orig, 0o644)

	base, err := transHeaders(work)
	if err != nil {
		t.Fatalf("baseline translation failed: %v", err)
	}
	baseTable := base["SizeHeaders.v"]
	if !strings.Contains(baseTable, "translation_failed_headers : bool := false") {
		t.Fatal("baseline table says failed")
	}
	// the committed copy is what the translator produces from the repository
	if committed, err := os.ReadFile(filepath.Join(verifCoq, "Gen", "SizeHeaders.v")); err == nil && repo == "/repo" {
		if string(committed) != baseTable {
			t.Error("coq/Gen/SizeHeaders.v differs from what the translator generates from /repo (regenerate it)")
		}
	}

	coq := filepath.Join(tmp, "coq")
	haveCoq := true
	if _, err := exec.LookPath("coqc"); err != nil {
		haveCoq = false
		t.Log("coqc not found: only the table differences are checked")
	}
	pre := []string{"Codec/Model.v", "Codec/Spec.v", "Codec/BitLemmas.v", "Codec/G6Header.v", "Codec/HeaderGenSyntax.v",
		"Codec/HeaderGenEnc.v", "Codec/HeaderGenDec.v", "Codec/HeaderGenExpected.v"}
	perRun := []string{"Gen/SizeHeaders.v", "Codec/HeaderGenCheck.v"}
	props := []string{"Props/C07_headers.v"}
	if haveCoq {
		for _, d := range []string{"Codec", "Gen", "Props"} {
			os.MkdirAll(filepath.Join(coq, d), 0o755)
		}
		for _, f := range append(append([]string{}, pre...), "Codec/HeaderGenCheck.v", "Props/C07_headers.v") {
			b, err := os.ReadFile(filepath.Join(verifCoq, f))
			if err != nil {
				t.Fatal(err)
			}
			os.WriteFile(filepath.Join(coq, f), b, 0o644)
		}
		os.WriteFile(filepath.Join(coq, "Gen/SizeHeaders.v"), []byte(baseTable), 0o644)
		all := append(append(append([]string{}, pre...), perRun...), props...)
		if at := hdrBuildCoq(coq, all); at != "" {
			t.Fatalf("the development does not build on the unmodified repository: breaks at %s", at)
		}
	}

	for _, m := range hdrMutations {
		m := m
		t.Run(m.name, func(t *testing.T) {
			src := string(orig)
			for _, e := range m.edits {
				src = hdrApply(t, src, e)
			}
			os.WriteFile(path, []byte(src), 0o644)
			defer os.WriteFile(path, orig, 0o644)
			files, err := transHeaders(work)
			if (err != nil) != m.wantErr {
				t.Fatalf("translator error = %v, want error: %v", err, m.wantErr)
			}
			table := files["SizeHeaders.v"]
			if table == baseTable && !m.same {
				t.Fatal("the regenerated table did not change")
			}
			if m.wantErr && !strings.Contains(table, "translation_failed_headers : bool := true") {
				t.Fatal("translator reported an error but the table does not say failed")
			}
			if !haveCoq {
				return
			}
			os.WriteFile(filepath.Join(coq, "Gen/SizeHeaders.v"), []byte(table), 0o644)
			fs := perRun
			if m.lemma == "" {
				fs = append(append([]string{}, perRun...), props...)
			}
			at := hdrBuildCoq(coq, fs)
			switch {
			case m.lemma == "" && at != "":
				t.Errorf("harmless re-phrasing broke the obligations at %s", at)
			case m.lemma != "" && at == "":
				t.Error("FAIL OPEN: the obligations still hold on the mutated source")
			case m.lemma != "" && at != m.lemma:
				t.Errorf("broke at %s, expected %s", at, m.lemma)
			}
		})
	}
}
