// Translator "headers": regenerates coq/Gen/SizeHeaders.v from graph/encoding.go (C07, C08).
//
// It re-extracts, on every run, the size-header code N(n) of the four codec functions:
//
//   - Graph6Encode / Sparse6Encode: the chain `if n <= 1 {return ...} else if n <= 62 {...} else
//     if n <= 258047 {...} else if n <= 68719476735 {...} else {panic}` -- per branch the
//     comparison and its integer constant, the length of `make([]byte, L, ...)` and every
//     assignment `s[k] = <expr>`; for the early return the bytes of the returned string.
//   - Graph6Decode / Sparse6Decode: the decision tree starting at `if s[0] != 126` -- the tests
//     (`s[k] != c`, `len(s) < k`), the error returns, and per leaf the expression assigned to the
//     vertex count, the cursor value, and whether the "Graph too large" float test follows.
//
// Right-hand sides become terms of the expression type `hexpr` of coq/Codec/HeaderGenSyntax.v
// (constants, the vertex count, s[k], >>, <<, &, +, -, *, conversions to byte / uint64 / int).
// The translator assigns NO meaning to them: typing (which width an operation wraps at) and
// evaluation are done in Coq, and coq/Codec/HeaderGenCheck.v proves for all n / all strings
// that the regenerated code computes what the proved model (enc_size / dec_size) computes.
//
// Anything outside the recognised shape -- another statement in a branch, an unknown operator,
// a non-constant index -- makes the translator write `translation_failed_headers := true` with
// empty tables (the Coq obligations then fail) and exit non-zero.  A stale table is never left.
package main

import (
	"bytes"
	"fmt"
	"go/ast"
	"go/constant"
	"go/parser"
	"go/printer"
	"go/token"
	"path/filepath"
	"strings"
)

func init() { translators["headers"] = transHeaders }

type hdrErr struct{ msg string }

func (e *hdrErr) Error() string { return e.msg }

func hdrFail(fset *token.FileSet, n ast.Node, format string, a ...interface{}) error {
	pos := ""
	if n != nil && fset != nil {
		p := fset.Position(n.Pos())
		pos = fmt.Sprintf("%s:%d: ", filepath.Base(p.Filename), p.Line)
	}
	return &hdrErr{pos + fmt.Sprintf(format, a...)}
}

func hdrSrc(fset *token.FileSet, n ast.Node) string {
	var b bytes.Buffer
	printer.Fprint(&b, fset, n)
	return strings.Join(strings.Fields(b.String()), " ")
}

func hdrUnparen(e ast.Expr) ast.Expr {
	for {
		p, ok := e.(*ast.ParenExpr)
		if !ok {
			return e
		}
		e = p.X
	}
}

// hdrConst evaluates an integer constant expression built from literals only.
func hdrConst(e ast.Expr) (constant.Value, bool) {
	switch x := hdrUnparen(e).(type) {
	case *ast.BasicLit:
		if x.Kind != token.INT {
			return nil, false
		}
		v := constant.MakeFromLiteral(x.Value, token.INT, 0)
		return v, v.Kind() == constant.Int
	case *ast.UnaryExpr:
		if x.Op != token.SUB && x.Op != token.ADD {
			return nil, false
		}
		v, ok := hdrConst(x.X)
		if !ok {
			return nil, false
		}
		return constant.UnaryOp(x.Op, v, 0), true
	case *ast.BinaryExpr:
		a, ok := hdrConst(x.X)
		if !ok {
			return nil, false
		}
		b, ok := hdrConst(x.Y)
		if !ok {
			return nil, false
		}
		switch x.Op {
		case token.ADD, token.SUB, token.MUL:
			return constant.BinaryOp(a, x.Op, b), true
		case token.SHL:
			s, ok := constant.Uint64Val(b)
			if !ok || s > 200 {
				return nil, false
			}
			return constant.Shift(a, token.SHL, uint(s)), true
		}
	}
	return nil, false
}

func hdrZ(v constant.Value) string {
	s := v.ExactString()
	if strings.HasPrefix(s, "-") {
		return "(" + s + ")"
	}
	return s
}

var hdrConv = map[string]string{
	"byte": "TByte", "uint8": "TByte", "uint64": "TU64", "uint": "TU64", "int": "TInt", "int64": "TInt",
}

type hdrEnv struct {
	fset *token.FileSet
	nvar string // encoders: the variable holding N(); "" in decoders
	svar string // decoders: the string parameter; "" in encoders
}

// expr translates a right-hand side into a term of type hexpr.
func (env *hdrEnv) expr(e ast.Expr) (string, error) {
	if v, ok := hdrConst(e); ok {
		return "(HConst " + hdrZ(v) + ")", nil
	}
	switch x := hdrUnparen(e).(type) {
	case *ast.Ident:
		if env.nvar != "" && x.Name == env.nvar {
			return "HN", nil
		}
		return "", hdrFail(env.fset, x, "identifier %s in a header expression", x.Name)
	case *ast.IndexExpr:
		id, ok := hdrUnparen(x.X).(*ast.Ident)
		if !ok || env.svar == "" || id.Name != env.svar {
			return "", hdrFail(env.fset, x, "index expression %s is not an index of the input string", hdrSrc(env.fset, x))
		}
		k, ok := hdrConst(x.Index)
		if !ok || constant.Sign(k) < 0 {
			return "", hdrFail(env.fset, x, "non-constant index in %s", hdrSrc(env.fset, x))
		}
		return "(HByte " + hdrZ(k) + ")", nil
	case *ast.CallExpr:
		id, ok := x.Fun.(*ast.Ident)
		if !ok || len(x.Args) != 1 || x.Ellipsis.IsValid() {
			return "", hdrFail(env.fset, x, "call %s in a header expression", hdrSrc(env.fset, x))
		}
		t, ok := hdrConv[id.Name]
		if !ok {
			return "", hdrFail(env.fset, x, "call %s in a header expression", hdrSrc(env.fset, x))
		}
		a, err := env.expr(x.Args[0])
		if err != nil {
			return "", err
		}
		return "(HConv " + t + " " + a + ")", nil
	case *ast.BinaryExpr:
		a, err := env.expr(x.X)
		if err != nil {
			return "", err
		}
		switch x.Op {
		case token.SHL, token.SHR:
			k, ok := hdrConst(x.Y)
			if !ok || constant.Sign(k) < 0 {
				return "", hdrFail(env.fset, x, "shift count of %s is not a constant", hdrSrc(env.fset, x))
			}
			c := "HShr"
			if x.Op == token.SHL {
				c = "HShl"
			}
			return "(" + c + " " + a + " " + hdrZ(k) + ")", nil
		}
		b, err := env.expr(x.Y)
		if err != nil {
			return "", err
		}
		var c string
		switch x.Op {
		case token.AND:
			c = "HAnd"
		case token.ADD:
			c = "HAdd"
		case token.SUB:
			c = "HSub"
		case token.MUL:
			c = "HMul"
		default:
			return "", hdrFail(env.fset, x, "operator %s in a header expression", x.Op)
		}
		return "(" + c + " " + a + " " + b + ")", nil
	}
	return "", hdrFail(env.fset, e, "unsupported header expression %s", hdrSrc(env.fset, e))
}

func hdrParamName(fd *ast.FuncDecl) string {
	if fd.Type.Params == nil || len(fd.Type.Params.List) != 1 || len(fd.Type.Params.List[0].Names) != 1 {
		return ""
	}
	return fd.Type.Params.List[0].Names[0].Name
}

// ---------------------------------------------------------------- encoders

// hdrNCmp recognises `v <= c`, `v < c`, `c >= v`, `c > v`; returns the variable and the term of type hcmp.
func hdrNCmp(cond ast.Expr) (string, string, bool) {
	b, ok := hdrUnparen(cond).(*ast.BinaryExpr)
	if !ok {
		return "", "", false
	}
	x, y, op := hdrUnparen(b.X), hdrUnparen(b.Y), b.Op
	if _, isConst := hdrConst(x); isConst {
		x, y = y, x
		switch op {
		case token.GEQ:
			op = token.LEQ
		case token.GTR:
			op = token.LSS
		default:
			return "", "", false
		}
	}
	id, ok := x.(*ast.Ident)
	if !ok {
		return "", "", false
	}
	c, ok := hdrConst(y)
	if !ok {
		return "", "", false
	}
	switch op {
	case token.LEQ:
		return id.Name, "(CLe " + hdrZ(c) + ")", true
	case token.LSS:
		return id.Name, "(CLt " + hdrZ(c) + ")", true
	}
	return "", "", false
}

func hdrEncoder(fset *token.FileSet, fd *ast.FuncDecl) (string, error) {
	g := hdrParamName(fd)
	if g == "" || fd.Body == nil {
		return "", hdrFail(fset, fd, "%s: expected exactly one parameter", fd.Name.Name)
	}
	// the variable holding N(): `v := g.N()`, assigned exactly once
	nvar := ""
	for _, st := range fd.Body.List {
		as, ok := st.(*ast.AssignStmt)
		if !ok || as.Tok != token.DEFINE || len(as.Lhs) != 1 || len(as.Rhs) != 1 {
			continue
		}
		call, ok := as.Rhs[0].(*ast.CallExpr)
		if !ok || len(call.Args) != 0 {
			continue
		}
		sel, ok := call.Fun.(*ast.SelectorExpr)
		if !ok || sel.Sel.Name != "N" {
			continue
		}
		if id, ok := sel.X.(*ast.Ident); !ok || id.Name != g {
			continue
		}
		if id, ok := as.Lhs[0].(*ast.Ident); ok && nvar == "" {
			nvar = id.Name
		}
	}
	if nvar == "" {
		return "", hdrFail(fset, fd, "%s: no `n := %s.N()`", fd.Name.Name, g)
	}
	if k := hdrAssignCount(fd.Body, nvar); k != 1 {
		return "", hdrFail(fset, fd, "%s: the vertex count %s is assigned %d times", fd.Name.Name, nvar, k)
	}
	// the chain: the first top-level if statement comparing nvar with a constant
	var root *ast.IfStmt
	seenN := false
	for _, st := range fd.Body.List {
		if as, ok := st.(*ast.AssignStmt); ok && len(as.Lhs) == 1 {
			if id, ok := as.Lhs[0].(*ast.Ident); ok && id.Name == nvar {
				seenN = true
			}
		}
		is, ok := st.(*ast.IfStmt)
		if !ok || !seenN {
			continue
		}
		if v, _, ok := hdrNCmp(is.Cond); ok && v == nvar {
			root = is
			break
		}
	}
	if root == nil {
		return "", hdrFail(fset, fd, "%s: no size-header chain `if %s <= C ...`", fd.Name.Name, nvar)
	}
	env := &hdrEnv{fset: fset, nvar: nvar}
	var branches []string
	elsePanic := false
	svar := ""
	last := ast.Stmt(root) // the last top-level statement that belongs to the chain
	for is := root; ; {
		if is.Init != nil {
			return "", hdrFail(fset, is, "if statement with an init clause in the size-header chain")
		}
		v, cmp, ok := hdrNCmp(is.Cond)
		if !ok || v != nvar {
			return "", hdrFail(fset, is, "condition %s of the size-header chain is not `%s <= C`", hdrSrc(fset, is.Cond), nvar)
		}
		body, err := env.encBody(is.Body, &svar)
		if err != nil {
			return "", err
		}
		branches = append(branches, "("+cmp+", "+body+")")
		if is.Else == nil {
			// `if n <= c { return ... }` without else: the chain goes on in the next statement
			if strings.HasPrefix(body, "EBRet") {
				var next ast.Stmt
				for i, st := range fd.Body.List {
					if st == last && i+1 < len(fd.Body.List) {
						next = fd.Body.List[i+1]
					}
				}
				if nis, ok := next.(*ast.IfStmt); ok {
					if v, _, ok := hdrNCmp(nis.Cond); ok && v == nvar {
						is, last = nis, next
						continue
					}
				}
			}
			break
		}
		if next, ok := is.Else.(*ast.IfStmt); ok {
			is = next
			continue
		}
		blk := is.Else.(*ast.BlockStmt)
		if len(blk.List) == 1 {
			if es, ok := blk.List[0].(*ast.ExprStmt); ok {
				if call, ok := es.X.(*ast.CallExpr); ok {
					if id, ok := call.Fun.(*ast.Ident); ok && id.Name == "panic" {
						elsePanic = true
						break
					}
				}
			}
		}
		return "", hdrFail(fset, blk, "the final else of the size-header chain is not a single panic(...)")
	}
	// the header bytes must not be overwritten after the chain: no later `s[k] = ...` at top level
	after := false
	for _, st := range fd.Body.List {
		if st == last {
			after = true
			continue
		}
		if !after || svar == "" {
			continue
		}
		bad := false
		ast.Inspect(st, func(n ast.Node) bool {
			if as, ok := n.(*ast.AssignStmt); ok {
				for _, l := range as.Lhs {
					if ix, ok := l.(*ast.IndexExpr); ok {
						if id, ok := hdrUnparen(ix.X).(*ast.Ident); ok && id.Name == svar {
							bad = true
						}
					}
				}
			}
			return true
		})
		if bad {
			return "", hdrFail(fset, st, "%s: an element of %s is assigned after the size-header chain", fd.Name.Name, svar)
		}
	}
	ep := "false"
	if elsePanic {
		ep = "true"
	}
	return "{| ec_br :=\n    [ " + strings.Join(branches, ";\n      ") + " ];\n   ec_else_panic := " + ep + " |}", nil
}

func hdrAssignCount(body *ast.BlockStmt, name string) int {
	k := 0
	ast.Inspect(body, func(n ast.Node) bool {
		switch s := n.(type) {
		case *ast.AssignStmt:
			for _, l := range s.Lhs {
				if id, ok := l.(*ast.Ident); ok && id.Name == name {
					k++
				}
			}
		case *ast.IncDecStmt:
			if id, ok := s.X.(*ast.Ident); ok && id.Name == name {
				k++
			}
		case *ast.UnaryExpr:
			if id, ok := s.X.(*ast.Ident); ok && s.Op == token.AND && id.Name == name {
				k++
			}
		case *ast.RangeStmt:
			for _, l := range []ast.Expr{s.Key, s.Value} {
				if id, ok := l.(*ast.Ident); ok && id.Name == name {
					k++
				}
			}
		}
		return true
	})
	return k
}

// encBody translates one branch of an encoder chain into a term of type ebody.
func (env *hdrEnv) encBody(blk *ast.BlockStmt, svar *string) (string, error) {
	fset := env.fset
	if len(blk.List) == 0 {
		return "", hdrFail(fset, blk, "empty branch in the size-header chain")
	}
	if ret, ok := blk.List[0].(*ast.ReturnStmt); ok {
		if len(blk.List) != 1 || len(ret.Results) != 1 {
			return "", hdrFail(fset, ret, "unexpected return in the size-header chain")
		}
		call, ok := hdrUnparen(ret.Results[0]).(*ast.CallExpr)
		if ok {
			f, isId := call.Fun.(*ast.Ident)
			ok = isId && f.Name == "string" && len(call.Args) == 1
		}
		if !ok {
			return "", hdrFail(fset, ret, "return value %s is not string(...)", hdrSrc(fset, ret.Results[0]))
		}
		switch a := hdrUnparen(call.Args[0]).(type) {
		case *ast.CallExpr: // string(rune(e))
			if f, ok := a.Fun.(*ast.Ident); ok && (f.Name == "rune" || f.Name == "int32") && len(a.Args) == 1 {
				e, err := env.expr(a.Args[0])
				if err != nil {
					return "", err
				}
				return "EBRetRune " + e, nil
			}
		case *ast.CompositeLit: // string([]byte{e1, e2})
			at, ok := a.Type.(*ast.ArrayType)
			if ok && at.Len == nil {
				if el, ok := at.Elt.(*ast.Ident); ok && (el.Name == "byte" || el.Name == "uint8") {
					var es []string
					for _, x := range a.Elts {
						if _, keyed := x.(*ast.KeyValueExpr); keyed {
							return "", hdrFail(fset, x, "keyed element in the returned byte slice")
						}
						// an element of a []byte literal is converted to byte
						e, err := env.expr(x)
						if err != nil {
							return "", err
						}
						es = append(es, "(HConv TByte "+e+")")
					}
					return "EBRetBytes [" + strings.Join(es, "; ") + "]", nil
				}
			}
		}
		return "", hdrFail(fset, ret, "return value %s is not string(rune(e)) or string([]byte{...})", hdrSrc(fset, ret.Results[0]))
	}
	// s = make([]byte, L, C); s[k] = e; ...
	mk, ok := blk.List[0].(*ast.AssignStmt)
	if !ok || len(mk.Lhs) != 1 || len(mk.Rhs) != 1 || mk.Tok != token.ASSIGN {
		return "", hdrFail(fset, blk.List[0], "branch does not start with `s = make([]byte, L, C)`")
	}
	sid, ok := mk.Lhs[0].(*ast.Ident)
	call, ok2 := mk.Rhs[0].(*ast.CallExpr)
	if !ok || !ok2 {
		return "", hdrFail(fset, mk, "branch does not start with `s = make([]byte, L, C)`")
	}
	if f, ok := call.Fun.(*ast.Ident); !ok || f.Name != "make" || len(call.Args) < 2 {
		return "", hdrFail(fset, mk, "branch does not start with `s = make([]byte, L, C)`")
	}
	if at, ok := call.Args[0].(*ast.ArrayType); !ok || at.Len != nil {
		return "", hdrFail(fset, mk, "make of something other than a byte slice")
	} else if el, ok := at.Elt.(*ast.Ident); !ok || (el.Name != "byte" && el.Name != "uint8") {
		return "", hdrFail(fset, mk, "make of something other than a byte slice")
	}
	L, ok := hdrConst(call.Args[1])
	if !ok || constant.Sign(L) < 0 {
		return "", hdrFail(fset, mk, "length of make is not a constant")
	}
	if *svar == "" {
		*svar = sid.Name
	} else if *svar != sid.Name {
		return "", hdrFail(fset, mk, "branches fill different slices (%s, %s)", *svar, sid.Name)
	}
	var asg []string
	for _, st := range blk.List[1:] {
		as, ok := st.(*ast.AssignStmt)
		if !ok || as.Tok != token.ASSIGN || len(as.Lhs) != 1 || len(as.Rhs) != 1 {
			return "", hdrFail(fset, st, "statement %s in a header branch is not `%s[k] = e`", hdrSrc(fset, st), *svar)
		}
		ix, ok := as.Lhs[0].(*ast.IndexExpr)
		if !ok {
			return "", hdrFail(fset, st, "statement %s in a header branch is not `%s[k] = e`", hdrSrc(fset, st), *svar)
		}
		if id, ok := hdrUnparen(ix.X).(*ast.Ident); !ok || id.Name != *svar {
			return "", hdrFail(fset, st, "statement %s in a header branch is not `%s[k] = e`", hdrSrc(fset, st), *svar)
		}
		k, ok := hdrConst(ix.Index)
		if !ok {
			return "", hdrFail(fset, st, "non-constant index in %s", hdrSrc(fset, st))
		}
		// the element type is byte: an untyped constant on the right is converted, anything else
		// already has type byte or the program does not compile
		e, err := env.expr(as.Rhs[0])
		if err != nil {
			return "", err
		}
		asg = append(asg, "("+hdrZ(k)+", "+e+")")
	}
	return "EBHdr " + hdrZ(L) + " [" + strings.Join(asg, "; ") + "]", nil
}

// ---------------------------------------------------------------- decoders

// hdrDCond recognises s[k] != c, s[k] == c, len(s) < k (and <=, >, >=); term of type dcond.
func (env *hdrEnv) dcond(cond ast.Expr) (string, bool) {
	b, ok := hdrUnparen(cond).(*ast.BinaryExpr)
	if !ok {
		return "", false
	}
	c, ok := hdrConst(b.Y)
	if !ok {
		return "", false
	}
	switch x := hdrUnparen(b.X).(type) {
	case *ast.IndexExpr:
		id, ok := hdrUnparen(x.X).(*ast.Ident)
		if !ok || id.Name != env.svar {
			return "", false
		}
		k, ok := hdrConst(x.Index)
		if !ok || constant.Sign(k) < 0 {
			return "", false
		}
		switch b.Op {
		case token.NEQ:
			return "(DByteNe " + hdrZ(k) + " " + hdrZ(c) + ")", true
		case token.EQL:
			return "(DByteEq " + hdrZ(k) + " " + hdrZ(c) + ")", true
		}
	case *ast.CallExpr:
		f, ok := x.Fun.(*ast.Ident)
		if !ok || f.Name != "len" || len(x.Args) != 1 {
			return "", false
		}
		if id, ok := hdrUnparen(x.Args[0]).(*ast.Ident); !ok || id.Name != env.svar {
			return "", false
		}
		switch b.Op {
		case token.LSS:
			return "(DLenLt " + hdrZ(c) + ")", true
		case token.LEQ:
			return "(DLenLe " + hdrZ(c) + ")", true
		case token.GTR:
			return "(DLenGt " + hdrZ(c) + ")", true
		case token.GEQ:
			return "(DLenGe " + hdrZ(c) + ")", true
		}
	}
	return "", false
}

type hdrDec struct {
	env        *hdrEnv
	nvar, ivar string
	maxIntOK   bool
}

func hdrIsErrReturn(ret *ast.ReturnStmt) bool {
	if len(ret.Results) != 2 {
		return false
	}
	if id, ok := ret.Results[1].(*ast.Ident); ok && id.Name == "nil" {
		return false
	}
	call, ok := ret.Results[1].(*ast.CallExpr)
	if !ok {
		return false
	}
	sel, ok := call.Fun.(*ast.SelectorExpr)
	if !ok {
		return false
	}
	p, ok := sel.X.(*ast.Ident)
	return ok && ((p.Name == "errors" && sel.Sel.Name == "New") || (p.Name == "fmt" && sel.Sel.Name == "Errorf"))
}

func hdrContainsIndexOf(e ast.Expr, s string) bool {
	found := false
	ast.Inspect(e, func(n ast.Node) bool {
		if ix, ok := n.(*ast.IndexExpr); ok {
			if id, ok := hdrUnparen(ix.X).(*ast.Ident); ok && id.Name == s {
				found = true
			}
		}
		return true
	})
	return found
}

// tree translates a statement list into a term of type dtree.
func (d *hdrDec) tree(stmts []ast.Stmt) (string, error) {
	fset := d.env.fset
	nexpr, cursor, maxn := "", "", false
	for i := 0; i < len(stmts); i++ {
		switch st := stmts[i].(type) {
		case *ast.ReturnStmt:
			if nexpr != "" || cursor != "" {
				return "", hdrFail(fset, st, "return after the vertex count has been set")
			}
			if !hdrIsErrReturn(st) {
				return "", hdrFail(fset, st, "return %s inside the header tree is not an error return", hdrSrc(fset, st))
			}
			return "DErr", nil
		case *ast.IfStmt:
			if st.Init != nil {
				return "", hdrFail(fset, st, "if statement with an init clause in the header tree")
			}
			if nexpr != "" || cursor != "" {
				return "", hdrFail(fset, st, "conditional %s after the vertex count has been set", hdrSrc(fset, st.Cond))
			}
			c, ok := d.env.dcond(st.Cond)
			if !ok {
				return "", hdrFail(fset, st, "condition %s in the header tree is not `s[k] != c` or `len(s) < k`", hdrSrc(fset, st.Cond))
			}
			rest := stmts[i+1:]
			thenS := append(append([]ast.Stmt{}, st.Body.List...), rest...)
			var elseS []ast.Stmt
			switch e := st.Else.(type) {
			case nil:
			case *ast.BlockStmt:
				elseS = append(elseS, e.List...)
			case *ast.IfStmt:
				elseS = append(elseS, e)
			default:
				return "", hdrFail(fset, st, "unexpected else")
			}
			elseS = append(elseS, rest...)
			t, err := d.tree(thenS)
			if err != nil {
				return "", err
			}
			e, err := d.tree(elseS)
			if err != nil {
				return "", err
			}
			return "(DIf " + c + "\n      " + t + "\n      " + e + ")", nil
		case *ast.AssignStmt:
			if len(st.Lhs) != 1 || len(st.Rhs) != 1 {
				return "", hdrFail(fset, st, "unsupported assignment %s in the header tree", hdrSrc(fset, st))
			}
			id, ok := st.Lhs[0].(*ast.Ident)
			if !ok {
				return "", hdrFail(fset, st, "unsupported assignment %s in the header tree", hdrSrc(fset, st))
			}
			if st.Tok == token.DEFINE {
				// MaxN := 0.5 + math.Sqrt(2*float64(maxInt)+0.25); if float64(n) > MaxN { return error }
				if nexpr == "" || maxn || !d.maxIntOK || i+1 >= len(stmts) ||
					hdrSrc(fset, st.Rhs[0]) != "0.5 + math.Sqrt(2*float64(maxInt)+0.25)" {
					return "", hdrFail(fset, st, "unsupported definition %s in the header tree", hdrSrc(fset, st))
				}
				is, ok := stmts[i+1].(*ast.IfStmt)
				if !ok || is.Init != nil || is.Else != nil || len(is.Body.List) != 1 ||
					hdrSrc(fset, is.Cond) != "float64("+d.nvar+") > "+id.Name {
					return "", hdrFail(fset, st, "the definition of %s is not followed by `if float64(%s) > %s { return error }`", id.Name, d.nvar, id.Name)
				}
				ret, ok := is.Body.List[0].(*ast.ReturnStmt)
				if !ok || !hdrIsErrReturn(ret) {
					return "", hdrFail(fset, is, "the body of the size test is not an error return")
				}
				maxn = true
				i++
				continue
			}
			if st.Tok != token.ASSIGN {
				return "", hdrFail(fset, st, "unsupported assignment %s in the header tree", hdrSrc(fset, st))
			}
			if hdrContainsIndexOf(st.Rhs[0], d.env.svar) {
				if nexpr != "" || maxn {
					return "", hdrFail(fset, st, "the vertex count is assigned twice on one path")
				}
				if d.nvar == "" {
					d.nvar = id.Name
				} else if d.nvar != id.Name {
					return "", hdrFail(fset, st, "two different variables (%s, %s) receive the vertex count", d.nvar, id.Name)
				}
				e, err := d.env.expr(st.Rhs[0])
				if err != nil {
					return "", err
				}
				nexpr = e
				continue
			}
			if k, ok := hdrConst(st.Rhs[0]); ok {
				if cursor != "" {
					return "", hdrFail(fset, st, "the cursor is assigned twice on one path")
				}
				if d.ivar == "" {
					d.ivar = id.Name
				} else if d.ivar != id.Name {
					return "", hdrFail(fset, st, "two different variables (%s, %s) receive the cursor", d.ivar, id.Name)
				}
				cursor = hdrZ(k)
				continue
			}
			return "", hdrFail(fset, st, "unsupported assignment %s in the header tree", hdrSrc(fset, st))
		default:
			return "", hdrFail(fset, st, "unsupported statement %s in the header tree", hdrSrc(fset, st))
		}
	}
	if nexpr == "" || cursor == "" {
		return "", hdrFail(fset, nil, "a path of the header tree ends without setting both the vertex count and the cursor")
	}
	m := "false"
	if maxn {
		m = "true"
	}
	return "(DSet " + nexpr + " " + cursor + " " + m + ")", nil
}

func hdrDecoder(fset *token.FileSet, f *ast.File, fd *ast.FuncDecl) (string, error) {
	s := hdrParamName(fd)
	if s == "" || fd.Body == nil {
		return "", hdrFail(fset, fd, "%s: expected exactly one parameter", fd.Name.Name)
	}
	if id, ok := fd.Type.Params.List[0].Type.(*ast.Ident); !ok || id.Name != "string" {
		return "", hdrFail(fset, fd, "%s: the parameter is not a string", fd.Name.Name)
	}
	env := &hdrEnv{fset: fset, svar: s}
	var root *ast.IfStmt
	rootIdx := -1
	for i, st := range fd.Body.List {
		is, ok := st.(*ast.IfStmt)
		if !ok || is.Else == nil || is.Init != nil {
			continue
		}
		b, ok := hdrUnparen(is.Cond).(*ast.BinaryExpr)
		if !ok {
			continue
		}
		if _, isIdx := hdrUnparen(b.X).(*ast.IndexExpr); !isIdx {
			continue
		}
		if _, ok := env.dcond(is.Cond); ok {
			root, rootIdx = is, i
			break
		}
	}
	if root == nil {
		return "", hdrFail(fset, fd, "%s: no size-header tree `if %s[0] != 126 ... else ...`", fd.Name.Name, s)
	}
	d := &hdrDec{env: env, maxIntOK: hdrMaxIntOK(fset, f)}
	t, err := d.tree([]ast.Stmt{root})
	if err != nil {
		return "", err
	}
	// the vertex count must be a uint64 variable that nothing else assigns; the cursor likewise;
	// the string must not be re-sliced between the tree and its uses (we only check: not inside)
	declOK := false
	for _, st := range fd.Body.List[:rootIdx] {
		ds, ok := st.(*ast.DeclStmt)
		if !ok {
			continue
		}
		gd, ok := ds.Decl.(*ast.GenDecl)
		if !ok || gd.Tok != token.VAR {
			continue
		}
		for _, sp := range gd.Specs {
			vs := sp.(*ast.ValueSpec)
			ty, ok := vs.Type.(*ast.Ident)
			if len(vs.Names) == 1 && vs.Names[0].Name == d.nvar && ok && ty.Name == "uint64" && len(vs.Values) == 0 {
				declOK = true
			}
		}
	}
	if !declOK {
		return "", hdrFail(fset, fd, "%s: no `var %s uint64` before the header tree", fd.Name.Name, d.nvar)
	}
	// after the tree nothing assigns the vertex count again
	if k := hdrAssignCount(&ast.BlockStmt{List: fd.Body.List[rootIdx+1:]}, d.nvar); k != 0 {
		return "", hdrFail(fset, fd, "%s: the vertex count %s is assigned again after the header tree", fd.Name.Name, d.nvar)
	}
	return t, nil
}

// hdrMaxIntOK: const maxUint = ^uint(0); const maxInt = int(maxUint >> 1)  (the float test of
// Graph6Decode is only recognised with these definitions; its value is computed by hand in
// coq/Codec/Model.v)
func hdrMaxIntOK(fset *token.FileSet, f *ast.File) bool {
	defs := map[string]string{}
	for _, dcl := range f.Decls {
		gd, ok := dcl.(*ast.GenDecl)
		if !ok || gd.Tok != token.CONST {
			continue
		}
		for _, sp := range gd.Specs {
			vs := sp.(*ast.ValueSpec)
			if len(vs.Names) == 1 && len(vs.Values) == 1 && vs.Type == nil {
				defs[vs.Names[0].Name] = hdrSrc(fset, vs.Values[0])
			}
		}
	}
	return defs["maxUint"] == "^uint(0)" && defs["maxInt"] == "int(maxUint >> 1)"
}

// ---------------------------------------------------------------- the file

func transHeaders(repo string) (map[string]string, error) {
	src := filepath.Join(repo, "graph", "encoding.go")
	var problems []string
	out := map[string]string{
		"Graph6Encode": "", "Sparse6Encode": "", "Graph6Decode": "", "Sparse6Decode": "",
	}
	fset := token.NewFileSet()
	f, err := parser.ParseFile(fset, src, nil, 0)
	if err != nil {
		problems = append(problems, fmt.Sprintf("cannot parse %s: %v", src, err))
	} else {
		decls := map[string][]*ast.FuncDecl{}
		for _, d := range f.Decls {
			if fd, ok := d.(*ast.FuncDecl); ok && fd.Recv == nil {
				decls[fd.Name.Name] = append(decls[fd.Name.Name], fd)
			}
		}
		for _, name := range []string{"Graph6Encode", "Sparse6Encode", "Graph6Decode", "Sparse6Decode"} {
			if len(decls[name]) != 1 {
				problems = append(problems, fmt.Sprintf("function %s not found exactly once", name))
				continue
			}
			var t string
			var err error
			if strings.HasSuffix(name, "Encode") {
				t, err = hdrEncoder(fset, decls[name][0])
			} else {
				t, err = hdrDecoder(fset, f, decls[name][0])
			}
			if err != nil {
				problems = append(problems, name+": "+err.Error())
				continue
			}
			out[name] = t
		}
	}
	var sb strings.Builder
	sb.WriteString("(* GENERATED by tools/gotrans (translator \"headers\") from graph/encoding.go on every run of\n")
	sb.WriteString("   ./check C07 / C08.  Do not edit.  Syntax only: typing and evaluation of these terms are\n")
	sb.WriteString("   defined in Codec/HeaderGenSyntax.v, and Codec/HeaderGenCheck.v proves that they compute what\n")
	sb.WriteString("   the model's enc_size / dec_size compute. *)\n")
	sb.WriteString("From Coq Require Import ZArith List.\nFrom Mamba Require Import Codec.HeaderGenSyntax.\nImport ListNotations.\nOpen Scope Z_scope.\n\n")
	failed := len(problems) > 0
	if failed {
		sb.WriteString("(* TRANSLATION FAILED:\n")
		for _, p := range problems {
			sb.WriteString("   - " + strings.ReplaceAll(strings.ReplaceAll(p, "(*", "( *"), "*)", "* )") + "\n")
		}
		sb.WriteString("*)\nDefinition translation_failed_headers : bool := true.\n\n")
	} else {
		sb.WriteString("Definition translation_failed_headers : bool := false.\n\n")
	}
	emptyChain := "{| ec_br := []; ec_else_panic := false |}"
	get := func(name, empty string) string {
		if failed || out[name] == "" {
			return empty
		}
		return out[name]
	}
	sb.WriteString("(* Graph6Encode: the chain on n := g.N() *)\nDefinition graph6_encode_chain : echain :=\n  " + get("Graph6Encode", emptyChain) + ".\n\n")
	sb.WriteString("(* Sparse6Encode: the chain on n := g.N() *)\nDefinition sparse6_encode_chain : echain :=\n  " + get("Sparse6Encode", emptyChain) + ".\n\n")
	sb.WriteString("(* Graph6Decode: the tree starting at `if s[0] != 126` *)\nDefinition graph6_decode_tree : dtree :=\n  " + get("Graph6Decode", "DErr") + ".\n\n")
	sb.WriteString("(* Sparse6Decode: the tree starting at `if s[0] != 126` (s after the ':' has been removed) *)\nDefinition sparse6_decode_tree : dtree :=\n  " + get("Sparse6Decode", "DErr") + ".\n")
	files := map[string]string{"SizeHeaders.v": sb.String()}
	if failed {
		return files, fmt.Errorf("%s", strings.Join(problems, "; "))
	}
	return files, nil
}
