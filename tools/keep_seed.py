#!/usr/bin/env python3
"""keep_seed.py <ID> <k> <CAUGHT|MISSED...> [note] : copy /tmp/seed/<ID>/out/<k> to /verif/seeded/<ID>-<k>/ and
record what was run and with which result in its meta.json"""
import sys, os, json, shutil
pid, k, result = sys.argv[1], sys.argv[2], sys.argv[3]
note = sys.argv[4] if len(sys.argv) > 4 else ""
src = "/tmp/seed/%s/out/%s" % (pid, k); dst = "/verif/seeded/%s-%s" % (pid, k)
os.makedirs(dst, exist_ok=True)
for f in os.listdir(src):
    if os.path.isfile(os.path.join(src, f)): shutil.copy(os.path.join(src, f), dst)
m = json.load(open(os.path.join(dst, "meta.json")))
m["breaks_property"] = m.get("property", pid)
m["validated"] = "tools/validate_seed.sh in a scratch worktree: demo passes at HEAD; with the patch the repository builds, its 42 tests pass, and the demo fails"
m["ran"] = "tools/run_seed.sh %s seeded/%s-%s (./check %s --tier quick against a scratch clone with the patch applied, VERIF_REPO)" % (pid[:3], pid, k, pid[:3])
m["check_result"] = result + ((" — " + note) if note else "")
json.dump(m, open(os.path.join(dst, "meta.json"), "w"), indent=1)
print(dst, result)
