#!/bin/sh
# usage: process_one.sh <ID with suffix, e.g. C17f>   (seed dir /tmp/seed/<ID>/out/{1,2,3})
# validates each seed, runs the property's quick check (no escalation) against it, keeps the caught
# ones under /verif/seeded, prints CAUGHT / MISSED / INVALID per seed.
id=$1; p=$(echo $id | cut -c1-3); d=/tmp/seed/$id
[ -d $d/out ] || { echo "no out dir for $id"; exit 1; }
mkdir -p /tmp/seedkeep/$id && cp -r $d/out /tmp/seedkeep/$id/
for k in 1 2 3; do
  [ -f $d/out/$k/patch.diff ] || continue
  v=$(/verif/tools/validate_seed.sh $d/out/$k 2>&1 | tail -1)
  case "$v" in *"head_demo_pass=yes patched_tests_pass=yes patched_demo_fail=yes"*) ;; *) echo "INVALID $id $k: $v"; continue;; esac
  r=$(VERIF_DEEP_BUDGET=0 /verif/tools/run_seed.sh $p $d/out/$k 2>&1 | tail -1)
  if echo "$r" | grep -q CAUGHT; then /verif/tools/keep_seed.py $id $k CAUGHT >/dev/null; echo "CAUGHT $id $k"; else echo "MISSED $id $k"; fi
done
