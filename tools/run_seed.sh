#!/bin/sh
# usage: run_seed.sh <PROPERTY ID> <seed dir with patch.diff> [tier]
# Runs ./check <ID> against a scratch clone of /repo with the seeded change applied (VERIF_REPO),
# prints the last lines of the check and CAUGHT / MISSED.  The clone is removed afterwards.
id=$1; d=$(cd "$2" && pwd); tier=${3:-quick}; cl=/tmp/vrun-$id-$$
git clone -q /repo $cl || exit 2
(cd /repo && git ls-files --others --exclude-standard | grep verif_export.go | while read f; do cp /repo/$f $cl/$f; done)
(cd $cl && git apply $d/patch.diff) || { echo "patch does not apply"; rm -rf $cl; exit 2; }
cd /verif && VERIF_REPO=$cl timeout 3000 ./check $id --tier $tier > /tmp/vrun-$id-$$.log 2>&1; rc=$?
tail -n 4 /tmp/vrun-$id-$$.log
h=$(python3 -c "import hashlib;print(hashlib.sha256('$cl'.encode()).hexdigest()[:10])")
if [ $rc = 1 ] && grep -q "^VIOLATION property=$id" /tmp/vrun-$id-$$.log; then echo "RESULT $id $(basename $d): CAUGHT"; else echo "RESULT $id $(basename $d): MISSED (exit $rc)"; fi
rm -rf $cl /tmp/vrun-$id-$$.log /verif/build/alt-$h
