#!/usr/bin/env python3
"""Record the SHA-256 of every non-test Go source file of /repo (hook files excluded) in
/verif/source_hashes.json.  ./check compares the current files with this record: when a file a
property depends on has changed since the models were last validated against it, the quick
tier additionally runs a time-budgeted sample of the thorough-tier cases (see DESIGN.md).
Run this after every commit to /repo."""
import hashlib, json, os, sys
sys.path.insert(0, os.path.dirname(os.path.dirname(os.path.abspath(__file__))))
from srchash import hash_tree
json.dump(hash_tree("/repo"), open("/verif/source_hashes.json", "w"), indent=1, sort_keys=True)
print("recorded", len(hash_tree("/repo")), "files")
