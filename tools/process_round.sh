#!/bin/sh
# usage: process_round.sh <suffix letter>   (seed dirs /tmp/seed/C??<suffix>/out/{1,2,3})
# validates every seed, runs the property's quick check (no escalation) against it, keeps the
# caught ones under /verif/seeded, prints the misses.
sfx=$1
for d in /tmp/seed/C??$sfx; do
  id=$(basename $d); p=${id%$sfx}
  [ -d $d/out ] || continue
  mkdir -p /tmp/seedkeep/$id && cp -r $d/out /tmp/seedkeep/$id/
  for k in 1 2 3; do
    [ -f $d/out/$k/patch.diff ] || continue
    v=$(/verif/tools/validate_seed.sh $d/out/$k 2>&1 | tail -1)
    case "$v" in *"head_demo_pass=yes patched_tests_pass=yes patched_demo_fail=yes"*) ;; *) echo "INVALID $id $k: $v"; continue;; esac
    r=$(VERIF_DEEP_BUDGET=0 /verif/tools/run_seed.sh $p $d/out/$k 2>&1 | tail -1)
    if echo "$r" | grep -q CAUGHT; then /verif/tools/keep_seed.py $id $k CAUGHT >/dev/null; echo "CAUGHT $id $k"; else echo "MISSED $id $k"; fi
  done
done
