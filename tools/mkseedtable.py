#!/usr/bin/env python3
"""Write /verif/SEEDED.md: one row per seeded change kept under /verif/seeded/."""
import json, os, glob
rows = []
for d in sorted(glob.glob("/verif/seeded/*/")):
    m = json.load(open(os.path.join(d, "meta.json")))
    rows.append((os.path.basename(d.rstrip("/")), m.get("breaks_property", m.get("property")), m.get("summary", "").replace("|", "/").replace("\n", " ")[:260],
                 m.get("needs", "").replace("|", "/").replace("\n", " ")[:260], m.get("check_result", "?").replace("|", "/")))
with open("/verif/SEEDED.md", "w") as f:
    f.write("# Seeded changes (written by independent sub-agents that saw only the property text) and which check catches them\n\n")
    f.write("Each directory under `seeded/` holds `patch.diff`, the demonstration (`demo_test.go`) and `meta.json`. Every one was confirmed with `tools/validate_seed.sh` (demo passes at HEAD; with the patch the repository builds, its 42 tests pass, the demo fails) and run with `tools/run_seed.sh` (the property's quick check against a scratch clone carrying the patch).\n\n")
    f.write("| id | property | change | needs | result |\n|---|---|---|---|---|\n")
    for r in rows:
        f.write("| %s | %s | %s | %s | %s |\n" % r)
    caught = sum(1 for r in rows if r[4].startswith("CAUGHT"))
    f.write("\n%d changes kept; %d caught by the quick check as first written; the others were missed at first and are caught after the strengthening described in their row (or by the tier/property named there).\n" % (len(rows), caught))
print(len(rows), "rows")
