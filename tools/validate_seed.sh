#!/bin/sh
# usage: validate_seed.sh <dir with patch.diff, demo_test.go, meta.json>
# Confirms, in a scratch worktree of /repo that is removed afterwards:
#   demo passes at HEAD; with the patch: builds, the repository's own tests pass, demo fails.
export GOFLAGS=-mod=mod GOPROXY=off GOSUMDB=off GOTOOLCHAIN=local
d=$(cd "$1" && pwd); wt=/tmp/vseed-$$
demo_dir=$(python3 -c "import json;print(json.load(open('$d/meta.json'))['demo_dir'])")
demo_cmd=$(python3 -c "
import json,re
m=json.load(open('$d/meta.json'))
print(re.sub(r'/tmp/seed/C[0-9]+[a-z]?', '$wt', m.get('demo_cmd','go test -count=1 ./...')))")
git -C /repo worktree add -q --detach $wt HEAD || exit 2
res=""
run_demo() { (cd $wt && cp $d/demo_test.go $demo_dir/zz_demo_test.go && (cd $wt/$demo_dir 2>/dev/null; cd $wt; timeout 900 sh -c "$demo_cmd" >/tmp/vseed-$$.log 2>&1); rc=$?; rm -f $demo_dir/zz_demo_test.go; return $rc); }
if run_demo; then res="$res head_demo_pass=yes"; else res="$res head_demo_pass=NO"; fi
if (cd $wt && git apply $d/patch.diff); then
  if (cd $wt && go build ./... >/dev/null 2>&1 && timeout 1500 go test -vet=off -count=1 ./... >/tmp/vseed-$$.t.log 2>&1); then res="$res patched_tests_pass=yes"; else res="$res patched_tests_pass=NO"; fi
  if run_demo; then res="$res patched_demo_fail=NO"; else res="$res patched_demo_fail=yes"; fi
else res="$res patch_applies=NO"; fi
git -C /repo worktree remove --force $wt; rm -f /tmp/vseed-$$.log /tmp/vseed-$$.t.log
echo "$d:$res"
