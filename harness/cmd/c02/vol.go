package main

// vol:<family>;<seed>;<count>
//
// Volume on deliberately generated rare structure (dimension 11 of notes/GENERATOR_DIMENSIONS.md):
// the case regenerates <count> graphs with vertex classes of the family from <seed> and runs, on
// each, CanonicalIsomorphFull with oracles that need no ground truth: no panic, every generator is
// a class-preserving automorphism, the returned array is the orbit partition of the generators,
// and for one class-respecting relabelled copy the orbit partition is the image and the generated
// group has the same order.  A failure is reported with the single graph as an `o` replay case.
// (The branches concerned — cut-off certificate extensions followed by twins, leaves equal to the
// best but not the first leaf — are taken once in thousands of such graphs.)  Oracle only.

import (
	"fmt"

	"github.com/Tom-Johnston/mamba/graph"
	cx "verifharness/cmd/c01/canonx"
	"verifharness/hx"
)

func volGraph(fam string, r *hx.Rng) (*cx.G, [][]int) {
	switch fam {
	case "hubtwins":
		return hubTwins(r, 16)
	case "components":
		g := unionOfComponents(r, 16)
		if r.Chance(1, 4) {
			return g, shapeClasses(r, g)
		}
		return g, nil
	default: // clsshape
		g := twinnyGraph(r, r.Range(4, 14))
		return g, shapeClasses(r, g)
	}
}

func execVol(fam string, seed uint64, count int) hx.Result {
	r := hx.NewRng(seed)
	var viol []hx.OracleViolation
	nontrivial := 0
	for i := 0; i < count && len(viol) < 3; i++ {
		g, cls := volGraph(fam, r)
		n := g.N
		g6 := g.Graph6()
		fail := func(kind, format string, a ...interface{}) {
			v := hx.Fail("C02:vol:"+kind+":"+g6+":"+cx.ClassesString(cls), format, a...)
			v.Case = "o:" + fam + ";" + g6 + ";" + cx.ClassesString(cls)
			viol = append(viol, v)
		}
		one := func(h *cx.G, hc [][]int, sparse bool) (lab []int, order uint64, ok bool) {
			var lib graph.Graph = h.Dense()
			if sparse {
				lib = h.Sparse()
			}
			var od []int
			var gd [][]int
			if msg := guard(func() { _, od, gd = graph.CanonicalIsomorphFull(lib, hc) }); msg != "" {
				fail("panic", "panic on %s with classes %s: %s", h.Graph6(), cx.ClassesString(hc), msg)
				return
			}
			var hcOf []int
			if hc != nil {
				hcOf = cx.ClassOf(n, hc)
			}
			for _, s := range gd {
				if !h.IsAut(s, hcOf) {
					fail("generator", "%s with classes %s: returned generator %v is not a class-preserving automorphism", h.Graph6(), cx.ClassesString(hc), s)
					return
				}
			}
			lab, good := cx.LabelsOfUnionFind(od)
			if !good || len(od) != n || hx.Ints(lab) != hx.Ints(cx.OrbitsOf(n, gd)) {
				fail("orbits", "%s with classes %s: returned orbits %v are not the orbits of the returned generators %v", h.Graph6(), cx.ClassesString(hc), od, gd)
				return
			}
			return lab, cx.GroupOrder(n, gd), true
		}
		lab, order, ok := one(g, cls, i%2 == 1)
		if !ok {
			continue
		}
		if order > 1 {
			nontrivial++
		}
		p := r.Perm(n)
		hl, ho, ok := one(g.Relabel(p), cx.RelabelClasses(cls, p, i%3), i%2 == 0)
		if !ok {
			continue
		}
		want := cx.MinLabels(n, func(a, b int) bool { return lab[p[a]] == lab[p[b]] })
		if hx.Ints(want) != hx.Ints(hl) || ho != order {
			fail("invariance", "%s with classes %s: orbits %v, group order %d; the copy relabelled by %v has orbits %v (expected %v), group order %d", g6, cx.ClassesString(cls), lab, order, p, hl, want, ho)
		}
	}
	obs := "ok"
	if len(viol) > 0 {
		obs = "ok ## violated"
	}
	return hx.Result{Obs: obs, Nontrivial: nontrivial > count/10, Buckets: []string{"mode:vol", "family:" + fam, fmt.Sprintf("volume:%d", count)}, Viol: viol}
}

func genVol(g *hx.Gen) {
	per := 2500
	for _, f := range []struct {
		fam string
		k   int
	}{{"hubtwins", g.Pick(28, 400)}, {"components", g.Pick(8, 100)}, {"clsshape", g.Pick(8, 100)}} {
		for i := 0; i < f.k; i++ {
			g.Emit(fmt.Sprintf("vol:%s;%d;%d", f.fam, g.Rng.U64()>>1, per))
		}
	}
}
