package main

// Class shapes and rare search-tree structure, generated deliberately and in volume
// (dimensions 3/10/11 of notes/GENERATOR_DIMENSIONS.md):
//
//   - structural vertex classes: by degree (ascending / descending: low-degree classes last),
//     twin classes (vertices with equal neighbourhoods) placed first or last, singleton classes
//     inserted anywhere, one huge class plus singletons, a prefix split 0..k-1 | k..n-1, on graphs
//     with twins, universal vertices and pendant vertices (the shape of the a4bdb37 witnesses:
//     a big class first, a pair of twins of high degree in a small class at the end);
//   - disconnected unions of several pairwise different symmetric components in random order
//     (leaves equal to the best leaf but not to the first leaf, and the other way round).
//
// Both are emitted as chk / chkp lines (ground truth by brute force in Exec, n <= 14).

import (
	cx "verifharness/cmd/c01/canonx"
	"verifharness/hx"
)

// a random graph with planted twins, universal and pendant vertices
func twinnyGraph(r *hx.Rng, n int) *cx.G {
	core := n - r.Range(1, 4)
	if core < 2 {
		core = 2
	}
	den := [][2]int{{1, 4}, {1, 2}, {3, 4}}[r.Intn(3)]
	g := cx.New(n)
	addEdges(g, cx.RandomGnp(r, core, den[0], den[1]), 0)
	for v := core; v < n; v++ {
		switch r.Intn(4) {
		case 0: // twin of an earlier vertex
			t := r.Intn(v)
			for u := 0; u < v; u++ {
				if u != t && g.Adj[t][u] {
					g.Add(v, u)
				}
			}
			if r.Bool() {
				g.Add(v, t)
			}
		case 1: // universal vertex
			for u := 0; u < v; u++ {
				g.Add(v, u)
			}
		case 2: // pendant vertex
			g.Add(v, r.Intn(v))
		default: // joined to a random half
			for u := 0; u < v; u++ {
				if r.Bool() {
					g.Add(v, u)
				}
			}
		}
	}
	return g
}

func shuffled(r *hx.Rng, a []int) []int {
	out := append([]int{}, a...)
	for i := len(out) - 1; i > 0; i-- {
		j := r.Intn(i + 1)
		out[i], out[j] = out[j], out[i]
	}
	return out
}

// shapeClasses returns one structural ordered partition of the vertices of g.
func shapeClasses(r *hx.Rng, g *cx.G) [][]int {
	n := g.N
	if n <= 1 {
		return randomClasses(r, n)
	}
	var cls [][]int
	switch r.Intn(6) {
	case 0, 1: // by degree, ascending or descending
		by := map[int][]int{}
		maxd := 0
		for v := 0; v < n; v++ {
			d := g.Degree(v)
			by[d] = append(by[d], v)
			if d > maxd {
				maxd = d
			}
		}
		asc := r.Bool()
		for k := 0; k <= maxd; k++ {
			d := k
			if !asc {
				d = maxd - k
			}
			if len(by[d]) > 0 {
				cls = append(cls, shuffled(r, by[d]))
			}
		}
	case 2: // twin classes first or last, the rest in one class
		used := make([]bool, n)
		var twins [][]int
		for v := 0; v < n; v++ {
			if used[v] {
				continue
			}
			c := []int{v}
			for w := v + 1; w < n; w++ {
				if used[w] {
					continue
				}
				same := true
				for u := 0; u < n; u++ {
					if u != v && u != w && g.Adj[v][u] != g.Adj[w][u] {
						same = false
						break
					}
				}
				if same {
					c = append(c, w)
				}
			}
			if len(c) > 1 {
				for _, w := range c {
					used[w] = true
				}
				twins = append(twins, shuffled(r, c))
			}
		}
		var rest []int
		for v := 0; v < n; v++ {
			if !used[v] {
				rest = append(rest, v)
			}
		}
		if len(rest) > 0 {
			cls = append(cls, shuffled(r, rest))
		}
		if r.Chance(2, 3) {
			cls = append(cls, twins...)
		} else {
			cls = append(twins, cls...)
		}
	case 3: // one huge class, a few singletons anywhere
		k := r.Range(1, 3)
		if k >= n {
			k = n - 1
		}
		p := r.Perm(n)
		cls = [][]int{p[k:]}
		for _, v := range p[:k] {
			at := r.Intn(len(cls) + 1)
			cls = append(cls[:at], append([][]int{{v}}, cls[at:]...)...)
		}
	case 4: // prefix split 0..k-1 | k..n-1 (sorted members, as a caller would write it)
		k := r.Range(1, n-1)
		if r.Chance(1, 2) {
			k = n - r.Range(1, 2)
		}
		if k < 1 || k >= n {
			k = 1
		}
		cls = [][]int{cx.Identity(n)[:k], cx.Identity(n)[k:]}
		if r.Chance(1, 3) && n-k >= 2 { // ... | n-1 alone at the end
			cls = [][]int{cx.Identity(n)[:k], cx.Identity(n)[k : n-1], {n - 1}}
		}
	default: // random classes with singletons spliced in at the front, in the middle and at the end
		cls = classesAnySize(r, n)
		var out [][]int
		for _, c := range cls {
			if len(c) >= 2 && r.Chance(1, 2) {
				out = append(out, []int{c[0]}, c[1:])
			} else if len(c) >= 2 && r.Chance(1, 2) {
				out = append(out, c[:len(c)-1], []int{c[len(c)-1]})
			} else {
				out = append(out, c)
			}
		}
		cls = out
	}
	return cls
}

// symmetric components of 2..7 vertices, pairwise non-isomorphic
var componentMakers = []func() *cx.G{
	func() *cx.G { return cx.Complete(2) }, func() *cx.G { return cx.Complete(3) },
	func() *cx.G { return cx.PathG(3) }, func() *cx.G { return cx.CycleG(4) },
	func() *cx.G { return cx.Complete(4) }, func() *cx.G { return cx.StarG(4) },
	func() *cx.G { return cx.PathG(4) }, func() *cx.G { return cx.CycleG(5) },
	func() *cx.G { return cx.StarG(5) }, func() *cx.G { return cx.CycleG(6) },
	func() *cx.G { return cx.CompleteMultipartite(2, 3) }, func() *cx.G { return cx.CompleteMultipartite(3, 3) },
	func() *cx.G { return cx.PathG(5) }, func() *cx.G { return cx.CycleG(7) },
	func() *cx.G { return cx.Wheel(5) }, func() *cx.G { return cx.Complete(1) },
}

// unionOfComponents: 3..5 different components (now and then one of them twice), listed in random
// order, at most maxN vertices, relabelled at random or kept component by component.
func unionOfComponents(r *hx.Rng, maxN int) *cx.G {
	for {
		k := r.Range(3, 5)
		var parts []*cx.G
		total := 0
		for _, i := range r.Perm(len(componentMakers))[:k] {
			c := componentMakers[i]()
			if total+c.N > maxN {
				continue
			}
			parts = append(parts, c)
			total += c.N
		}
		if len(parts) < 3 {
			continue
		}
		if r.Chance(1, 4) && total+parts[0].N <= maxN {
			parts = append(parts, parts[0])
		}
		g := cx.Union(parts...)
		if r.Chance(1, 4) {
			g = g.Complement()
		}
		if r.Chance(3, 4) {
			g = g.Relabel(r.Perm(g.N))
		}
		return g
	}
}

// hubTwins: a near-regular core, two or three twin hubs joined to the whole core, and a few
// low-degree vertices hung on the core, numbered in this order (the graphs a canonical-deletion
// search builds); classes along that structure with the low-degree class(es) last.  Several
// leaves with long common certificate prefixes and cut-off extensions (the a4bdb37 shape).
func hubTwins(r *hx.Rng, maxN int) (*cx.G, [][]int) {
	c := r.Range(5, 10)
	h := r.Range(2, 3)
	l := r.Range(1, 3)
	for c+h+l > maxN {
		c--
	}
	n := c + h + l
	g := cx.New(n)
	if r.Chance(3, 4) {
		addEdges(g, cx.RandomRegularSwitch(r, c, r.Range(2, 4)), 0)
	} else {
		addEdges(g, cx.RandomGnp(r, c, 1, 3), 0)
	}
	for x := c; x < c+h; x++ {
		for v := 0; v < c; v++ {
			g.Add(x, v)
		}
		if x > c && r.Chance(1, 3) {
			g.Add(x, x-1)
		}
	}
	for x := c + h; x < n; x++ {
		for _, v := range r.Perm(c)[:r.Range(1, 3)] {
			g.Add(x, v)
		}
	}
	id := cx.Identity(n)
	var cls [][]int
	switch r.Intn(8) {
	case 0, 5, 6, 7:
		cls = [][]int{id[:c+h], id[c+h:]}
	case 1:
		cls = [][]int{id[:c], id[c : c+h], id[c+h:]}
	case 2:
		cls = [][]int{id[:c+h]}
		for x := c + h; x < n; x++ {
			cls = append(cls, []int{x})
		}
	case 3:
		cls = [][]int{id[:c+h+l-1], {n - 1}}
	default:
		cls = shapeClasses(r, g)
	}
	if r.Chance(1, 4) { // relabelled, the classes carried along (members then unsorted)
		p := r.Perm(n)
		return g.Relabel(p), cx.RelabelClasses(cls, p, r.Intn(3))
	}
	return g, cls
}

func genShapes(g *hx.Gen, emit func(fam string, gr *cx.G, cls [][]int)) {
	for i := 0; i < g.Pick(2500, 30000); i++ {
		gr, cls := hubTwins(g.Rng, g.Pick(14, 16))
		emit("hubtwins", gr, cls)
	}
	for i := 0; i < g.Pick(1800, 20000); i++ {
		gr := twinnyGraph(g.Rng, g.Rng.Range(4, g.Pick(12, 14)))
		if g.Rng.Chance(1, 3) {
			gr = gr.Relabel(g.Rng.Perm(gr.N))
		}
		emit("clsshape", gr, shapeClasses(g.Rng, gr))
	}
	for i := 0; i < g.Pick(1500, 15000); i++ {
		gr := unionOfComponents(g.Rng, g.Pick(13, 16))
		var cls [][]int
		switch g.Rng.Intn(5) {
		case 0:
			cls = shapeClasses(g.Rng, gr)
		case 1:
			cls = randomClasses(g.Rng, gr.N)
		}
		emit("components", gr, cls)
	}
}
