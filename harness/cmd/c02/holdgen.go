package main

import (
	"fmt"
	"strings"

	cx "verifharness/cmd/c01/canonx"
	"verifharness/hx"
)

func randomItemGraph(r *hx.Rng, pool []*cx.G, maxN int) *cx.G {
	for {
		var gr *cx.G
		switch r.Intn(8) {
		case 0:
			gr = cx.Empty(r.Range(1, maxN))
		case 1:
			gr = cx.Complete(r.Range(1, maxN))
		case 2, 3:
			gr = cx.RandomGnp(r, r.Range(1, maxN), 1, 2)
		case 4:
			if maxN < 4 {
				continue
			}
			gr = twinnyGraph(r, r.Range(4, maxN))
		default:
			gr = pool[r.Intn(len(pool))]
		}
		if gr.N >= 1 && gr.N <= maxN {
			if r.Bool() {
				gr = gr.Relabel(r.Perm(gr.N))
			}
			return gr
		}
	}
}

// randomClasses draws surjections by rejection, which does not end for many classes on many
// vertices: larger graphs get at most 6 classes (or n - few: nearly all singletons)
func classesAnySize(r *hx.Rng, n int) [][]int {
	if n <= 16 {
		return randomClasses(r, n)
	}
	p := r.Perm(n)
	k := 1 + r.Intn(6)
	if r.Chance(1, 5) {
		k = n - r.Intn(4)
	}
	cls := make([][]int, k)
	for i, v := range p {
		c := i
		if i >= k {
			c = r.Intn(k)
		}
		cls[c] = append(cls[c], v)
	}
	return cls
}

func itemClasses(r *hx.Rng, gr *cx.G) string {
	switch r.Intn(4) {
	case 0:
		return cx.ClassesString(classesAnySize(r, gr.N))
	case 1:
		return cx.ClassesString(shapeClasses(r, gr))
	}
	return "-"
}

// genHold: sequences of 6..14 graphs with sizes going down and up (a later result fits an earlier
// buffer), small capacities in volume and a few across 20/40/64.
func genHold(g *hx.Gen, pool []*cx.G) {
	for s := 0; s < g.Pick(150, 1500); s++ {
		capn := g.Rng.Range(3, 12)
		if s%15 == 0 {
			capn = []int{21, 33, 41, 64, 65, 70}[g.Rng.Intn(6)]
		}
		var items []string
		for len(items) < g.Rng.Range(6, 14) {
			maxN := capn
			if len(items)%3 == 2 { // a small one after larger ones
				maxN = 1 + capn/3
			}
			gr := randomItemGraph(g.Rng, pool, maxN)
			items = append(items, gr.Graph6()+"/"+itemClasses(g.Rng, gr))
		}
		g.Emit(fmt.Sprintf("hold;%d;%s", capn, strings.Join(items, " ")))
	}
}

// genLargeReuse: reuse sequences and Reset sequences with capacities across 20, 40, 64 (the seq
// cases of gen() stay below 17): sizes ratio up to 1:70 in both orders, viability bits over the
// whole width of the mask.
func genLargeReuse(g *hx.Gen, pool []*cx.G) {
	for s := 0; s < g.Pick(12, 120); s++ {
		capn := []int{20, 21, 33, 40, 41, 63, 64, 65, 70}[g.Rng.Intn(9)]
		var items []string
		for len(items) < g.Rng.Range(10, 20) {
			maxN := capn
			switch len(items) % 4 {
			case 1:
				maxN = g.Rng.Range(1, 3)
			case 3:
				maxN = 1 + capn/2
			}
			var gr *cx.G
			if maxN > 16 && g.Rng.Chance(2, 3) {
				n := g.Rng.Range(maxN*3/4, maxN)
				b := bigFamilies[g.Rng.Intn(6)].make(g.Rng, n)
				gr = b.g.Relabel(g.Rng.Perm(n))
			} else {
				gr = randomItemGraph(g.Rng, pool, maxN)
			}
			it := gr.Graph6() + "/" + itemClasses(g.Rng, gr)
			if g.Rng.Chance(1, 5) && gr.N > 1 && gr.N <= 64 {
				bits := g.Rng.U64()
				if gr.N-1 < 64 {
					bits &= 1<<uint(gr.N-1) - 1
				}
				switch g.Rng.Intn(4) {
				case 0:
					bits = 1 << uint(gr.N-2) // only the highest vertex below n-1
				case 1:
					bits = 1<<uint(gr.N-1) - 1 // every vertex
				}
				it += fmt.Sprintf("/v%d", bits)
			}
			items = append(items, it)
		}
		g.Emit(fmt.Sprintf("seq;%d;%s", capn, strings.Join(items, " ")))
	}
	for s := 0; s < g.Pick(10, 100); s++ {
		capn := []int{17, 21, 32, 33, 41, 64, 65, 70}[g.Rng.Intn(8)]
		var items []string
		for len(items) < g.Rng.Range(3, 7) {
			gr := cx.RandomGnp(g.Rng, g.Rng.Range(1, capn), 1, 2)
			if g.Rng.Chance(1, 3) {
				gr = cx.Empty(g.Rng.Range(1, capn))
			}
			items = append(items, gr.Graph6()+"/"+itemClasses(g.Rng, gr))
		}
		g.Emit(fmt.Sprintf("rst;%d;%s", capn, strings.Join(items, " ")))
	}
}
