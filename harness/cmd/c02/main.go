// Command c02 explores property C02 (orbits and generators returned with the canonical form
// describe exactly Aut(g); reuse of CanonicalStorage/CanonicalOrderedPartition; vertex classes).
//
// Case syntax (one line):
//
//	chk;<graph6>;<cls>;<gens>;<ds>   one graph with one vertex-class argument.  <gens> and <ds> are the
//	                               generators ("1,0,2/0,2,1", "-" = none) and the raw orbit array that
//	                               CanonicalIsomorphFull returned when the case was generated.  The
//	                               projected observation is the verdict of the Go oracles on that result
//	                               (generators are automorphisms, labels of the array, orbits of the
//	                               generators, order of the generated group, brute-force Aut: order and
//	                               orbits, "full" = the result describes exactly Aut); the driver prints
//	                               the verdict of the extracted proved checkers of coq/Canon on the same
//	                               result.  Exec also runs the implementation afresh (dense and sparse,
//	                               relabelled copies) and checks it with the oracles (violations).
//	chkp;...                       the same without brute force (larger n): "part" = generators are
//	                               automorphisms and the array is the orbit partition of the generators
//	big;<graph6>;<cls>;<gens>;<ds>;<known>   n = 17..70, see big.go (known automorphisms, relabelled copies)
//	o;<graph6>;<cls> <cls> ...     oracle only: one run per class token (replay form of oracle violations)
//	seq;<capn>;<item> <item> ...   one NewStorage(capn, capn*(capn-1)/2) / NewOrderedPartition pair pushed
//	                               through the items in order; item = <graph6>/<cls>[/v<bits>]
//	                               (v<bits>: CanonicalOptions{CheckViability: true, ViableBits: bits})
//
//	rst;<capn>;<item> <item> ...   item = <graph6>/<cls>, n >= 1: one partition is Reset for every item (and
//	                               dirtied by a run of CanonicalIsomorphAllocated in between); the visible
//	                               state after each Reset (hook graph.VerifPartitionState) is compared, in the
//	                               strict part, with the array-level model coq/Canon/AutReset.v
//
//	cls : "-" (nil vertex classes) | "0,3|1|2,4" (ordered partition, members in the given order)
//	      | (o lines only) "allcls" (every ordered partition of the vertex set, n <= 5) | "randcls:<seed>:<count>"
//
// The generator calls the implementation (guarded) to fill <gens>/<ds>; the cases are therefore a
// deterministic function of VERIF_SEED and of the (deterministic) implementation.
package main

import (
	"fmt"
	"strconv"
	"strings"
	"time"

	"github.com/Tom-Johnston/mamba/graph"
	cx "verifharness/cmd/c01/canonx"
	"verifharness/hx"
)

func bucket(n int) string {
	switch {
	case n <= 4:
		return "n<=4"
	case n <= 6:
		return "n=5..6"
	case n <= 8:
		return "n=7..8"
	case n <= 10:
		return "n=9..10"
	case n <= 12:
		return "n=11..12"
	}
	return "n>12"
}

// every ordered partition of {0..n-1} into non-empty classes
func orderedPartitions(n int) [][][]int {
	if n == 0 {
		return [][][]int{{}}
	}
	var out [][][]int
	// assign every vertex a class index, require the set of used indices to be 0..k-1
	idx := make([]int, n)
	var rec func(v, k int)
	rec = func(v, k int) {
		if v == n {
			used := make([]bool, k)
			for _, c := range idx {
				used[c] = true
			}
			for _, u := range used {
				if !u {
					return
				}
			}
			cls := make([][]int, k)
			for w, c := range idx {
				cls[c] = append(cls[c], w)
			}
			out = append(out, cls)
			return
		}
		for c := 0; c < k; c++ {
			idx[v] = c
			rec(v+1, k)
		}
	}
	for k := 1; k <= n; k++ {
		rec(0, k)
	}
	return out
}

func randomClasses(r *hx.Rng, n int) [][]int {
	if n == 0 {
		return [][]int{}
	}
	k := 1 + r.Intn(n)
	if r.Chance(1, 2) {
		k = 1 + r.Intn(3)
		if k > n {
			k = n
		}
	}
	// random surjection onto k classes, members in random order
	for {
		cls := make([][]int, k)
		for _, v := range r.Perm(n) {
			c := r.Intn(k)
			cls[c] = append(cls[c], v)
		}
		ok := true
		for _, c := range cls {
			if len(c) == 0 {
				ok = false
			}
		}
		if ok {
			return cls
		}
	}
}

type run struct {
	g    *cx.G
	g6   string
	viol []hx.OracleViolation
	seen map[string]bool
}

func (r *run) fail(kind string, cls [][]int, format string, a ...interface{}) {
	if r.seen[kind] || len(r.viol) >= 4 {
		return
	}
	r.seen[kind] = true
	v := hx.Fail("C02:"+kind+":"+r.g6+":"+cx.ClassesString(cls), format, a...)
	v.Case = "o;" + r.g6 + ";" + cx.ClassesString(cls)
	r.viol = append(r.viol, v)
}

func copyGens(gens [][]int) [][]int {
	out := make([][]int, len(gens))
	for i, s := range gens {
		out[i] = append([]int(nil), s...)
	}
	return out
}

// checkResult checks one returned triple against the independent oracles; returns the orbit
// labels and the order of the group generated by the generators ("?" on malformed output).
func (r *run) checkResult(what string, g *cx.G, cls [][]int, perm []int, orb []int, gens [][]int, wantOrb []int, wantOrder uint64) (string, string) {
	n := g.N
	clsOf := []int(nil)
	if cls != nil {
		clsOf = cx.ClassOf(n, cls)
	}
	if !cx.IsPerm(perm, n) {
		r.fail("notperm", cls, "%s: returned %v, not a permutation of 0..%d (classes %s)", what, perm, n-1, cx.ClassesString(cls))
		return "?", "?"
	}
	// the canonical labelling lists the classes in order
	if cls != nil {
		pos := 0
		for i, c := range cls {
			for k := 0; k < len(c); k++ {
				if clsOf[perm[pos]] != i {
					r.fail("classorder", cls, "%s: canonical labelling %v does not list class %d at positions %d..%d (classes %s)", what, perm, i, pos-k, pos-k+len(c)-1, cx.ClassesString(cls))
				}
				pos++
			}
		}
	}
	if n == 0 {
		if len(gens) != 0 || len(orb) != 0 {
			r.fail("orbits", cls, "%s: n=0 but orbits %v generators %v", what, orb, gens)
		}
		return "", "1"
	}
	for _, s := range gens {
		if !g.IsAut(s, clsOf) {
			r.fail("generator", cls, "%s: returned generator %v is not a class-preserving automorphism of %s (classes %s)", what, s, r.g6, cx.ClassesString(cls))
			return "?", "?"
		}
	}
	if len(orb) != n {
		r.fail("orbits", cls, "%s: orbit structure has length %d for n=%d", what, len(orb), n)
		return "?", "?"
	}
	lab, ok := cx.LabelsOfUnionFind(orb)
	if !ok {
		r.fail("orbits", cls, "%s: returned orbit structure %v is not a union-find forest", what, orb)
		return "?", "?"
	}
	gl := cx.OrbitsOf(n, gens)
	if hx.Ints(gl) != hx.Ints(lab) {
		r.fail("orbits", cls, "%s: returned orbits %v but the returned generators %v have orbits %v (classes %s)", what, lab, gens, gl, cx.ClassesString(cls))
	}
	if hx.Ints(wantOrb) != hx.Ints(lab) {
		r.fail("orbits", cls, "%s: returned orbits %v but Aut(%s) with classes %s has orbits %v", what, lab, r.g6, cx.ClassesString(cls), wantOrb)
	}
	order := cx.GroupOrder(n, gens)
	if order != wantOrder {
		r.fail("grouporder", cls, "%s: the returned generators %v generate a group of order %d but |Aut(%s)| = %d (classes %s)", what, gens, order, r.g6, wantOrder, cx.ClassesString(cls))
	}
	return hx.Ints(lab), strconv.FormatUint(order, 10)
}

// oneClasses runs CanonicalIsomorphFull on g with the classes (dense and sparse), checks the
// results, then checks invariance under class-respecting relabelling.
func (r *run) oneClasses(cls [][]int, rng *hx.Rng, relabels int) string {
	g := r.g
	n := g.N
	clsOf := []int(nil)
	if cls != nil {
		clsOf = cx.ClassOf(n, cls)
	}
	wantOrb, wantOrder := g.AutGroup(clsOf)
	if n <= 7 {
		// plain enumeration of all class-preserving automorphisms
		var all [][]int
		g.AutAll(clsOf, func(p []int) bool { all = append(all, append([]int(nil), p...)); return true })
		bo := cx.OrbitsOf(n, all)
		if uint64(len(all)) != wantOrder || hx.Ints(bo) != hx.Ints(wantOrb) {
			r.fail("oracle", cls, "the two independent oracles disagree: enumeration %d %v, stabiliser chain %d %v", len(all), bo, wantOrder, wantOrb)
		}
	}
	pd, od, gd := graph.CanonicalIsomorphFull(g.Dense(), cls)
	lab, ord := r.checkResult("dense", g, cls, pd, od, gd, wantOrb, wantOrder)
	ps, os, gs := graph.CanonicalIsomorphFull(g.Sparse(), cls)
	r.checkResult("sparse", g, cls, ps, os, gs, wantOrb, wantOrder)
	if !cx.IsPerm(pd, n) || !cx.IsPerm(ps, n) {
		return lab + "/" + ord
	}
	key0 := g.RelabelledGraph6(pd)
	if k := g.RelabelledGraph6(ps); k != key0 {
		r.fail("noninvariant", cls, "canonical graph with classes %s: dense %s sparse %s", cx.ClassesString(cls), key0, k)
	}
	// the same graph handed over in other representations (prov.go)
	checkProvenances(g, cls, rng, 2, wantOrb, wantOrder, key0, func(kind, msg string) { r.fail(kind, cls, "%s (classes %s)", msg, cx.ClassesString(cls)) })
	// class-respecting relabellings: the copy h = g relabelled by p with the classes carried along
	// must have the same canonical graph, and its orbits must be the images of the orbits of g
	try := func(p []int, rot int) {
		h := g.Relabel(p)
		hc := cx.RelabelClasses(cls, p, rot)
		var lib graph.Graph = h.Dense()
		if rot%2 == 1 {
			lib = h.Sparse()
		}
		hp, ho, hg := graph.CanonicalIsomorphFull(lib, hc)
		if !cx.IsPerm(hp, n) {
			r.fail("notperm", cls, "copy of %s relabelled by %v with classes %s: returned %v", r.g6, p, cx.ClassesString(hc), hp)
			return
		}
		if k := h.RelabelledGraph6(hp); k != key0 {
			r.fail("noninvariant", cls, "canonical graph of %s with classes %s is %s, but the copy relabelled by %v with classes %s gives %s", r.g6, cx.ClassesString(cls), key0, p, cx.ClassesString(hc), k)
		}
		if n == 0 {
			return
		}
		hl, ok := cx.LabelsOfUnionFind(ho)
		if !ok || len(hl) != n {
			r.fail("orbits", cls, "copy relabelled by %v: malformed orbits %v", p, ho)
			return
		}
		// vertex i of h is vertex p[i] of g
		want := cx.MinLabels(n, func(a, b int) bool { return wantOrb[p[a]] == wantOrb[p[b]] })
		if hx.Ints(want) != hx.Ints(hl) {
			r.fail("orbits", cls, "copy of %s relabelled by %v with classes %s: returned orbits %v, expected %v", r.g6, p, cx.ClassesString(hc), hl, want)
		}
		hcOf := []int(nil)
		if hc != nil {
			hcOf = cx.ClassOf(n, hc)
		}
		for _, s := range hg {
			if !h.IsAut(s, hcOf) {
				r.fail("generator", cls, "copy of %s relabelled by %v with classes %s: generator %v is not an automorphism", r.g6, p, cx.ClassesString(hc), s)
			}
		}
		if o := cx.GroupOrder(n, hg); o != wantOrder {
			r.fail("grouporder", cls, "copy of %s relabelled by %v with classes %s: generators %v generate order %d, expected %d", r.g6, p, cx.ClassesString(hc), hg, o, wantOrder)
		}
	}
	if n <= 4 {
		p := cx.Identity(n)
		k := 0
		for {
			try(p, k)
			k++
			if !cx.NextPerm(p) {
				break
			}
		}
	} else {
		for k := 0; k < relabels; k++ {
			try(rng.Perm(n), k)
		}
	}
	return lab + "/" + ord
}

func expandClasses(n int, toks []string) ([][][]int, bool) {
	var out [][][]int
	for _, t := range toks {
		switch {
		case t == "allcls":
			if n > 5 {
				return nil, false
			}
			out = append(out, orderedPartitions(n)...)
		case strings.HasPrefix(t, "randcls:"):
			f := strings.Split(t, ":")
			if len(f) != 3 {
				return nil, false
			}
			seed, _ := strconv.ParseUint(f[1], 10, 64)
			cnt, _ := strconv.Atoi(f[2])
			r := hx.NewRng(seed)
			for k := 0; k < cnt; k++ {
				out = append(out, randomClasses(r, n))
			}
		default:
			c, err := cx.ParseClasses(t)
			if err != nil || !validClasses(n, c) {
				return nil, false
			}
			out = append(out, c)
		}
	}
	return out, true
}

func validClasses(n int, cls [][]int) bool {
	if cls == nil {
		return true
	}
	var all []int
	for _, c := range cls {
		if len(c) == 0 {
			return false
		}
		all = append(all, c...)
	}
	return cx.IsPerm(all, n)
}

func execGraph(mode, fam, g6 string, toks []string, relabels int) hx.Result {
	g, err := cx.FromGraph6(g6)
	if err != nil {
		return hx.Result{Obs: "badcase"}
	}
	clss, ok := expandClasses(g.N, toks)
	if !ok {
		return hx.Result{Obs: "badcase"}
	}
	return execGraphClasses(mode, fam, g6, g, clss, relabels)
}

func execGraphClasses(mode, fam, g6 string, g *cx.G, clss [][][]int, relabels int) hx.Result {
	r := &run{g: g, g6: g6, seen: map[string]bool{}}
	seed := uint64(len(clss))
	for i := 0; i < len(g6); i++ {
		seed = seed*1099511628211 + uint64(g6[i])
	}
	rng := hx.NewRng(seed)
	if len(clss) > 20 {
		relabels = 1
	}
	var parts []string
	nontrivial := false
	withClasses := false
	for _, cls := range clss {
		var p string
		if msg := guard(func() { p = r.oneClasses(cls, rng, relabels) }); msg != "" {
			r.fail("panic", cls, "panic with classes %s on %s (or a relabelled copy): %s", cx.ClassesString(cls), g6, msg)
			p = "panic"
		}
		parts = append(parts, p)
		if !strings.HasSuffix(p, "/1") {
			nontrivial = true
		}
		if cls != nil {
			withClasses = true
		}
	}
	obs := "ok ## " + strings.Join(parts, " ")
	if len(r.viol) > 0 {
		obs += " ## violated"
	}
	b := []string{bucket(g.N), "mode:" + mode}
	if fam != "" {
		b = append(b, "family:"+fam)
	}
	if withClasses {
		b = append(b, "classes:yes")
	} else {
		b = append(b, "classes:no")
	}
	return hx.Result{Obs: obs, Nontrivial: nontrivial, Buckets: b, Viol: r.viol}
}

// ---------------------------------------------------------------- reuse of storage

type triple struct {
	perm []int
	orb  []int
	gens [][]int
	nilr bool
}

func (t triple) String() string {
	if t.nilr {
		return "nil"
	}
	return fmt.Sprintf("perm=%v orbits=%v gens=%v", t.perm, t.orb, t.gens)
}

func snapshot(perm []int, orb []int, gens [][]int) triple {
	if perm == nil && orb == nil && gens == nil {
		return triple{nilr: true}
	}
	return triple{perm: append([]int{}, perm...), orb: append([]int{}, orb...), gens: copyGens(gens)}
}

func execSeq(capn int, items []string) hx.Result {
	capm := capn * (capn - 1) / 2
	storage := graph.NewStorage(capn, capm)
	op := graph.NewOrderedPartition(capn, capm, nil)
	var viol []hx.OracleViolation
	rawDiff := 0
	sizes := map[int]bool{}
	ups, downs, prevN := 0, 0, -1
	for idx, it := range items {
		f := strings.Split(it, "/")
		if len(f) < 2 {
			return hx.Result{Obs: "badcase"}
		}
		g, err := cx.FromGraph6(f[0])
		if err != nil || g.N > capn {
			return hx.Result{Obs: "badcase"}
		}
		cls, err := cx.ParseClasses(f[1])
		if err != nil || !validClasses(g.N, cls) {
			return hx.Result{Obs: "badcase"}
		}
		mkopt := func() *graph.CanonicalOptions {
			o := new(graph.CanonicalOptions)
			if len(f) > 2 && strings.HasPrefix(f[2], "v") {
				b, _ := strconv.ParseUint(f[2][1:], 10, 64)
				o.CheckViability = true
				o.ViableBits = uint(b)
			}
			return o
		}
		n, m := g.N, g.M()
		sizes[n] = true
		if prevN >= 0 && n > prevN {
			ups++
		}
		if prevN >= 0 && n < prevN {
			downs++
		}
		prevN = n
		// fresh call
		var fresh, reused triple
		if msg := guard(func() {
			fop := graph.NewOrderedPartition(n, m, cls)
			fresh = snapshot(graph.CanonicalIsomorphAllocated(n, m, g.Neighbours(), fop, graph.NewStorage(n, m), mkopt()))
		}); msg != "" {
			v := hx.Fail("C02:panic:"+f[0]+":"+f[1], "item %d (%s): a fresh call panicked: %s", idx, it, msg)
			v.Case = fmt.Sprintf("seq;%d;%s", capn, it)
			return hx.Result{Obs: "panic", Buckets: []string{"mode:seq"}, Viol: append(viol, v)}
		}
		// reused pair
		if msg := guard(func() {
			op.Reset(n, m, cls)
			reused = snapshot(graph.CanonicalIsomorphAllocated(n, m, g.Neighbours(), op, storage, mkopt()))
		}); msg != "" {
			v := hx.Fail("C02:reuse:"+f[0], "item %d (%s) of the sequence: the call with reused storage panicked (%s), the fresh call returned %v", idx, it, msg, fresh)
			v.Case = fmt.Sprintf("seq;%d;%s", capn, strings.Join(items[:idx+1], " "))
			return hx.Result{Obs: "panic", Buckets: []string{"mode:seq"}, Viol: append(viol, v)}
		}
		if fresh.nilr != reused.nilr || hx.Ints(fresh.perm) != hx.Ints(reused.perm) || fmt.Sprint(fresh.gens) != fmt.Sprint(reused.gens) || !samePartition(fresh.orb, reused.orb) {
			if len(viol) < 3 {
				v := hx.Fail("C02:reuse:"+f[0], "item %d (%s) of the sequence: fresh call %v, reused storage %v", idx, it, fresh, reused)
				v.Case = fmt.Sprintf("seq;%d;%s", capn, strings.Join(items[:idx+1], " "))
				viol = append(viol, v)
			}
		} else if hx.Ints(fresh.orb) != hx.Ints(reused.orb) {
			rawDiff++
		}
		// the public one-shot entry point agrees as well (no options)
		if len(f) == 2 {
			pf, of, gf := graph.CanonicalIsomorphFull(g.Dense(), cls)
			full := snapshot(pf, of, gf)
			if n > 0 && (hx.Ints(full.perm) != hx.Ints(reused.perm) || fmt.Sprint(full.gens) != fmt.Sprint(reused.gens) || !samePartition(full.orb, reused.orb)) && len(viol) < 3 {
				v := hx.Fail("C02:reuse:"+f[0], "item %d (%s): CanonicalIsomorphFull %v, reused storage %v", idx, it, full, reused)
				v.Case = fmt.Sprintf("seq;%d;%s", capn, strings.Join(items[:idx+1], " "))
				viol = append(viol, v)
			}
		}
	}
	obs := "ok"
	if rawDiff > 0 {
		// same partition, different raw arrays: reported as a strict-only difference (warning)
		obs = fmt.Sprintf("ok ## rawdiff=%d", rawDiff)
	}
	if len(viol) > 0 {
		obs = "ok ## violated"
	}
	return hx.Result{Obs: obs, Nontrivial: ups > 0 && downs > 0 && len(sizes) >= 3, Buckets: []string{"mode:seq", fmt.Sprintf("seqlen<=%d", (len(items)+9)/10*10)}, Viol: viol}
}

// execReset: the state left by Reset, item after item, next to the state of a fresh
// NewOrderedPartition (a difference between those two is a violation of the reuse contract only
// if it changes a result, which the seq cases check; here it is reported as a note in the strict part).
func execReset(capn int, items []string) hx.Result {
	if capn < 1 {
		return hx.Result{Obs: "badcase"}
	}
	capm := capn * (capn - 1) / 2
	storage := graph.NewStorage(capn, capm)
	op := graph.NewOrderedPartition(capn, capm, nil)
	show := func(op *graph.CanonicalOrderedPartition) string {
		sl, age, spl := graph.VerifPartitionState(op)
		p := make([]string, 0, 8)
		for _, a := range sl {
			p = append(p, csv(a))
		}
		return strings.Join(p, "|") + fmt.Sprintf("|%d|%d", age, spl)
	}
	var out []string
	diff := 0
	for _, it := range items {
		f := strings.Split(it, "/")
		if len(f) < 2 {
			return hx.Result{Obs: "badcase"}
		}
		g, err := cx.FromGraph6(f[0])
		if err != nil || g.N > capn || g.N < 1 {
			return hx.Result{Obs: "badcase"}
		}
		cls, err := cx.ParseClasses(f[1])
		if err != nil || !validClasses(g.N, cls) {
			return hx.Result{Obs: "badcase"}
		}
		n, m := g.N, g.M()
		st := "panic"
		if msg := guard(func() {
			op.Reset(n, m, cls)
			st = show(op)
			if show(graph.NewOrderedPartition(n, m, cls)) != st {
				diff++
			}
			graph.CanonicalIsomorphAllocated(n, m, g.Neighbours(), op, storage, new(graph.CanonicalOptions))
		}); msg != "" {
			v := hx.Fail("C02:reset:"+f[0], "Reset/run panicked on item %s: %s", it, msg)
			return hx.Result{Obs: "panic", Buckets: []string{"mode:rst"}, Viol: []hx.OracleViolation{v}}
		}
		out = append(out, st)
	}
	obs := "ok ## " + strings.Join(out, ";")
	if diff > 0 {
		obs += fmt.Sprintf(" reset-differs-from-new=%d", diff)
	}
	return hx.Result{Obs: obs, Nontrivial: len(items) >= 3, Buckets: []string{"mode:rst"}}
}

func samePartition(a, b []int) bool {
	if len(a) != len(b) {
		return false
	}
	la, ok1 := cx.LabelsOfUnionFind(a)
	lb, ok2 := cx.LabelsOfUnionFind(b)
	return ok1 && ok2 && hx.Ints(la) == hx.Ints(lb)
}

// guard runs f; a panic of the library becomes a message
func guard(f func()) (msg string) {
	defer func() {
		if e := recover(); e != nil {
			msg = fmt.Sprint(e)
			if msg == "" {
				msg = "panic"
			}
		}
	}()
	f()
	return ""
}

func exec(line string) hx.Result {
	f := strings.SplitN(line, ";", 3)
	if len(f) != 3 {
		return hx.Result{Obs: "badcase"}
	}
	mode, fam := f[0], ""
	if i := strings.Index(mode, ":"); i >= 0 {
		mode, fam = mode[:i], mode[i+1:]
	}
	if mode == "seq" {
		capn, err := strconv.Atoi(f[1])
		if err != nil {
			return hx.Result{Obs: "badcase"}
		}
		return execSeq(capn, strings.Fields(f[2]))
	}
	if mode == "vol" {
		seed, err1 := strconv.ParseUint(f[1], 10, 64)
		count, err2 := strconv.Atoi(f[2])
		if err1 != nil || err2 != nil || count < 0 || count > 100000 {
			return hx.Result{Obs: "badcase"}
		}
		return execVol(fam, seed, count)
	}
	if mode == "hold" {
		capn, err := strconv.Atoi(f[1])
		if err != nil {
			return hx.Result{Obs: "badcase"}
		}
		return execHold(capn, strings.Fields(f[2]))
	}
	if mode == "rst" {
		capn, err := strconv.Atoi(f[1])
		if err != nil {
			return hx.Result{Obs: "badcase"}
		}
		return execReset(capn, strings.Fields(f[2]))
	}
	if mode == "big" || mode == "huge" {
		g := strings.Split(f[2], ";")
		if len(g) != 4 {
			return hx.Result{Obs: "badcase"}
		}
		return execBig(mode, fam, f[1], g[0], g[1], g[2], g[3])
	}
	if mode == "chk" || mode == "chkp" {
		g := strings.Split(f[2], ";")
		if len(g) != 3 {
			return hx.Result{Obs: "badcase"}
		}
		return execChk(mode, fam, f[1], g[0], g[1], g[2])
	}
	return execGraph(mode, fam, f[1], strings.Fields(f[2]), 4)
}

// ---------------------------------------------------------------- certificate cases

func csv(a []int) string {
	if len(a) == 0 {
		return "-"
	}
	return hx.Ints(a)
}

func gensString(gens [][]int) string {
	if len(gens) == 0 {
		return "-"
	}
	p := make([]string, len(gens))
	for i, s := range gens {
		p[i] = hx.Ints(s)
	}
	return strings.Join(p, "/")
}

func parseInts(s string) ([]int, bool) {
	if s == "-" || s == "" {
		return []int{}, true
	}
	var out []int
	for _, t := range strings.Split(s, ",") {
		v, err := strconv.Atoi(t)
		if err != nil {
			return nil, false
		}
		out = append(out, v)
	}
	return out, true
}

func parseGens(s string) ([][]int, bool) {
	if s == "-" {
		return nil, true
	}
	var out [][]int
	for _, t := range strings.Split(s, "/") {
		g, ok := parseInts(t)
		if !ok {
			return nil, false
		}
		out = append(out, g)
	}
	return out, true
}

// goVerdict is the verdict of the Go oracles on one returned result (the driver prints the verdict
// of the proved checkers on the same data; the two must agree).
func goVerdict(full bool, g *cx.G, cls [][]int, gens [][]int, ds []int) string {
	n := g.N
	clsOf := []int(nil)
	if cls != nil {
		clsOf = cx.ClassOf(n, cls)
	}
	for _, s := range gens {
		if !g.IsAut(s, clsOf) {
			return "gens=0"
		}
	}
	lab, ok := cx.LabelsOfUnionFind(ds)
	if !ok || len(ds) != n {
		return "gens=1 ds=bad"
	}
	gorb := cx.OrbitsOf(n, gens)
	out := fmt.Sprintf("gens=1 ds=%s gorb=%s", csv(lab), csv(gorb))
	same := csv(lab) == csv(gorb)
	if full {
		order, aord := uint64(1), uint64(1)
		aorb := []int{}
		if n > 0 {
			order = cx.GroupOrder(n, gens)
			aorb, aord = g.AutGroup(clsOf)
		}
		v := 0
		if same && order == aord {
			v = 1
		}
		return out + fmt.Sprintf(" order=%d aut=%d:%s full=%d", order, aord, csv(aorb), v)
	}
	v := 0
	if same {
		v = 1
	}
	return out + fmt.Sprintf(" part=%d", v)
}

func execChk(mode, fam, g6, clsTok, gensTok, dsTok string) hx.Result {
	g, err := cx.FromGraph6(g6)
	if err != nil {
		return hx.Result{Obs: "badcase"}
	}
	cls, err := cx.ParseClasses(clsTok)
	if clsTok == "" { // the empty partition of the empty vertex set
		cls, err = [][]int{}, nil
	}
	if err != nil || !validClasses(g.N, cls) {
		return hx.Result{Obs: "badcase"}
	}
	gens, ok1 := parseGens(gensTok)
	ds, ok2 := parseInts(dsTok)
	if !ok1 || !ok2 {
		return hx.Result{Obs: "badcase"}
	}
	// the implementation, run afresh and checked by the oracles (everything an "o" case does)
	relabels := 4
	if fam == "labelled" || fam == "classrep" {
		relabels = 1
	}
	res := execGraphClasses("o", fam, g6, g, [][][]int{cls}, relabels)
	if res.Obs == "badcase" {
		return res
	}
	// the strict part stays empty (as the driver's) unless something is to be reported
	strict := ""
	if g.N > 0 && g.M() == 0 {
		// edgeless: the generators and the array are those of the modelled m == 0 branch
		strict = " eg=" + gensTok + ";" + dsTok
	}
	if len(res.Viol) > 0 {
		strict += " violated"
	}
	// is the result in the case line what the implementation returns now?
	if msg := guard(func() {
		_, od, gd := graph.CanonicalIsomorphFull(g.Dense(), cls)
		if gensString(gd) != gensString(gens) || csv(od) != csv(ds) {
			strict += " stale-case"
		}
	}); msg != "" {
		strict += " stale-case"
	}
	var verdict string
	if msg := guard(func() { verdict = goVerdict(mode == "chk", g, cls, gens, ds) }); msg != "" {
		verdict = "badcase"
	}
	res.Obs = verdict
	if strict != "" {
		res.Obs += " ##" + strict
	}
	for i, b := range res.Buckets {
		if b == "mode:o" {
			res.Buckets[i] = "mode:" + mode
		}
	}
	if strings.HasSuffix(verdict, "full=1") || strings.HasSuffix(verdict, "part=1") {
		res.Buckets = append(res.Buckets, "verdict:ok")
	} else {
		res.Buckets = append(res.Buckets, "verdict:bad")
	}
	return res
}

// ---------------------------------------------------------------- generator

// graphs on at most fullMaxN vertices get the full certificate (brute-force Aut in the driver)
const fullMaxN = 6

// chkLine runs the implementation on (gr, cls) and puts what it returned into a certificate case;
// if the call panics or hangs the case falls back to the oracle-only form (whose execution in a
// worker then observes the panic or hang).
var genFailures int

func chkLine(fam string, gr *cx.G, g6 string, cls [][]int) string {
	mode := "chkp"
	if gr.N <= fullMaxN {
		mode = "chk"
	}
	if fam != "" {
		fam = ":" + fam
	}
	r := "skipped"
	if genFailures < 5 { // a tree on which the calls hang or panic: stop calling it from the generator
		r = hx.Guard(20*time.Second, func() string {
			_, od, gd := graph.CanonicalIsomorphFull(gr.Dense(), cls)
			return "R" + gensString(gd) + ";" + csv(od)
		})
	}
	if !strings.HasPrefix(r, "R") {
		genFailures++
		return "o" + fam + ";" + g6 + ";" + cx.ClassesString(cls)
	}
	return mode + fam + ";" + g6 + ";" + cx.ClassesString(cls) + ";" + r[1:]
}

func gen(g *hx.Gen) {
	emit := func(fam string, gr *cx.G, toks string) {
		clss, ok := expandClasses(gr.N, strings.Fields(toks))
		if !ok {
			panic("generator: bad class tokens " + toks)
		}
		g6 := gr.Graph6()
		for _, cls := range clss {
			g.Emit(chkLine(fam, gr, g6, cls))
		}
	}
	// corpus: the three inputs on which CanonicalIsomorphFull panicked before a4bdb37 (KNOWN_FINDINGS: fixed a4bdb37;
	// currentBest[:len(op.value)] beyond its capacity after a cut-off inside splitBin, found through the search model)
	emit("corpus", cx.MustGraph6("KOD[fB~~qOCO"), "0,1,2,3,4,5,6,7,8,9|10,11")
	emit("corpus", cx.MustGraph6("K`WkCf~~ogGO"), "0,1,2,3,4,5,6,7|8,9|10,11")
	emit("corpus", cx.MustGraph6("LaGQO]CgN~~}?g"), "0,1,2,3,4,5,6,7,8,9,10,11|12")
	// corpus: failures of the pinned tree with vertex classes (KNOWN_FINDINGS: fixed 508837e, 133395a, 4b905ab)
	emit("corpus", cx.PathG(3), "1|0,2 0|1,2 2,1|0 2|1|0")
	emit("corpus", cx.PathG(4), "3,0|2,1 0|1|2,3 1,3|0,2")
	emit("corpus", cx.Empty(4), "- 0,1|2,3 3,1|2,0 0|1,2,3 2|0|3,1")
	emit("corpus", cx.Empty(1), "- 0")
	emit("corpus", cx.Empty(0), "-")
	emit("corpus", cx.CycleG(6), "- 0,2,4|1,3,5 5,3,1|0,2,4 0|1,2,3,4,5 0,3|1,2,4,5")
	// exhaustive: all labelled graphs on at most 4 (5) vertices x nil classes and all ordered partitions
	maxExh := g.Pick(4, 5)
	for n := 0; n <= maxExh; n++ {
		e := n * (n - 1) / 2
		for mask := 0; mask < 1<<uint(e); mask++ {
			gr := cx.New(n)
			k := 0
			for j := 1; j < n; j++ {
				for i := 0; i < j; i++ {
					if mask>>uint(k)&1 == 1 {
						gr.Add(i, j)
					}
					k++
				}
			}
			emit("labelled", gr, "- allcls")
		}
	}
	g.Exhaustive(fmt.Sprintf("all labelled graphs on n <= %d vertices x (no classes + every ordered partition of the vertex set into classes) x both representations", maxExh))
	if !g.Thorough() {
		// one representative per class on 5 vertices with all ordered partitions
		for _, r := range cx.ClassReps(5) {
			emit("classrep", r.Relabel(g.Rng.Perm(5)), "- allcls")
		}
	}
	nrc := g.Pick(6, 20)
	randCls := func() string { return fmt.Sprintf("- randcls:%d:%d", g.Rng.U64()>>1, nrc) }
	str := cx.Structured(g.Pick(12, 17))
	for _, ng := range str {
		if ng.G.N <= 9 {
			emit(ng.Family, ng.G.Relabel(g.Rng.Perm(ng.G.N)), randCls())
		} else {
			emit(ng.Family, ng.G.Relabel(g.Rng.Perm(ng.G.N)), "-")
		}
	}
	var pool []*cx.G // graphs for the reuse sequences
	for _, ng := range str {
		pool = append(pool, ng.G)
	}
	dens := [][2]int{{1, 10}, {1, 4}, {1, 2}, {3, 4}, {9, 10}}
	for i := 0; i < g.Pick(700, 6000); i++ {
		n := g.Rng.Range(2, g.Pick(12, 16))
		var gr *cx.G
		fam := ""
		switch g.Rng.Intn(6) {
		case 0, 1:
			d := dens[g.Rng.Intn(len(dens))]
			gr, fam = cx.RandomGnp(g.Rng, n, d[0], d[1]), "random"
		case 2:
			gr, fam = cx.RandomRegular(g.Rng, n, 2+g.Rng.Intn(4)), "regular"
		case 3:
			gr, fam = cx.RandomTree(g.Rng, n), "tree"
		case 4:
			ng := str[g.Rng.Intn(len(str))]
			gr, fam = cx.Perturb(g.Rng, ng.G, 1+g.Rng.Intn(2)).Relabel(g.Rng.Perm(ng.G.N)), "perturbed"
		default:
			k := 2 + g.Rng.Intn(2)
			c := cx.RandomGnp(g.Rng, g.Rng.Range(1, g.Pick(12, 16)/k), 1, 2)
			gr = cx.Copies(k, c)
			if g.Rng.Bool() {
				gr = gr.Complement()
			}
			gr, fam = gr.Relabel(g.Rng.Perm(gr.N)), "union"
		}
		pool = append(pool, gr)
		if gr.N <= 9 {
			emit(fam, gr, randCls())
		} else {
			emit(fam, gr, "-")
		}
	}
	if g.Thorough() {
		for n := 6; n <= 7; n++ {
			for _, r := range cx.ClassReps(n) {
				emit("classrep", r.Relabel(g.Rng.Perm(n)), randCls())
			}
		}
	}
	// structural class shapes and unions of different symmetric components, in volume (shapes.go)
	genShapes(g, func(fam string, gr *cx.G, cls [][]int) { g.Emit(chkLine(fam, gr, gr.Graph6(), cls)) })
	// larger graphs (n = 17..70, a few up to 257) with construction-known and metamorphic oracles (big.go)
	genBig(g)
	// results held, inputs scribbled, two storages interleaved, recovered panic (hold.go)
	genHold(g, pool)
	genLargeReuse(g, pool)
	genVol(g)
	// reuse sequences: ~50 graphs through one storage/partition pair, sizes going up and down
	for s := 0; s < g.Pick(150, 1500); s++ {
		capn := g.Rng.Range(4, g.Pick(12, 16))
		length := g.Rng.Range(30, 60)
		var items []string
		for len(items) < length {
			var gr *cx.G
			switch g.Rng.Intn(8) {
			case 0:
				gr = cx.Empty(g.Rng.Intn(capn + 1))
			case 1:
				gr = cx.Complete(g.Rng.Intn(capn + 1))
			case 2:
				gr = cx.RandomGnp(g.Rng, g.Rng.Intn(capn+1), 1, 2)
			default:
				gr = pool[g.Rng.Intn(len(pool))]
			}
			if gr.N > capn {
				continue
			}
			if g.Rng.Chance(1, 2) {
				gr = gr.Relabel(g.Rng.Perm(gr.N))
			}
			it := gr.Graph6() + "/"
			if g.Rng.Chance(1, 3) && gr.N > 0 {
				it += cx.ClassesString(randomClasses(g.Rng, gr.N))
			} else {
				it += "-"
			}
			if g.Rng.Chance(1, 6) && gr.N > 1 {
				// the way graph/search calls it: return early when a viable vertex is in an earlier cell
				it += fmt.Sprintf("/v%d", g.Rng.Intn(1<<uint(gr.N-1)))
			}
			items = append(items, it)
		}
		g.Emit(fmt.Sprintf("seq;%d;%s", capn, strings.Join(items, " ")))
	}
	// Reset against its array-level model: small capacities, every item with n >= 1
	for s := 0; s < g.Pick(120, 1200); s++ {
		capn := g.Rng.Range(1, 8)
		var items []string
		for len(items) < g.Rng.Range(3, 12) {
			var gr *cx.G
			switch g.Rng.Intn(4) {
			case 0:
				gr = cx.Empty(g.Rng.Range(1, capn))
			case 1:
				gr = cx.Complete(g.Rng.Range(1, capn))
			default:
				gr = cx.RandomGnp(g.Rng, g.Rng.Range(1, capn), 1, 2)
			}
			it := gr.Graph6() + "/"
			if g.Rng.Chance(2, 3) {
				it += cx.ClassesString(randomClasses(g.Rng, gr.N))
			} else {
				it += "-"
			}
			items = append(items, it)
		}
		g.Emit(fmt.Sprintf("rst;%d;%s", capn, strings.Join(items, " ")))
	}
}

func main() {
	hx.Main(hx.Prop{
		Rule: "m/o case = graph + list of vertex-class partitions (nil included); seq case = one storage/partition pair pushed through 30-60 graphs; non-trivial: for a graph case some run has a non-trivial (class-preserving) automorphism group, for a sequence the sizes go both up and down over at least three different sizes; distinct by case text",
		Gen:  gen,
		Exec: exec,
		// every case runs well under 10 s; a hanging implementation must not eat the run's time budget
		CaseTimeout: 30 * time.Second,
		MemMB:       4096,
	})
}
