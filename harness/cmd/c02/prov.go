package main

// Provenance of the Graph value (dimension 4/12 of notes/GENERATOR_DIMENSIONS.md): the same
// abstract graph handed to CanonicalIsomorphFull in every way the Graph interface allows.  Every
// representation is guarded (it must present exactly the intended graph) and its result must
// satisfy the property itself: generators are automorphisms, the returned array is the expected
// orbit partition, the generators generate a group of the expected order.  (Equality of the raw
// results is not required: the interface does not fix the order of Neighbours.)

import (
	"sort"

	"github.com/Tom-Johnston/mamba/graph"
	"github.com/Tom-Johnston/mamba/sortints"
	cx "verifharness/cmd/c01/canonx"
	"verifharness/hx"
)

// userGraph is a foreign implementation of graph.Graph: adjacency lists in arbitrary (fixed,
// shuffled) order, a fresh slice on every call.
type userGraph struct {
	nb [][]int
	m  int
}

func (u *userGraph) N() int { return len(u.nb) }
func (u *userGraph) M() int { return u.m }
func (u *userGraph) IsEdge(i, j int) bool {
	for _, w := range u.nb[i] {
		if w == j {
			return true
		}
	}
	return false
}
func (u *userGraph) Neighbours(v int) []int {
	return append(make([]int, 0, len(u.nb[v])+3), u.nb[v]...)
}
func (u *userGraph) Degrees() []int {
	d := make([]int, len(u.nb))
	for i := range d {
		d[i] = len(u.nb[i])
	}
	return d
}

var provNames = []string{"cc", "csparse", "view", "viewsparse", "edit", "editsparse", "copy", "isub", "decoded", "user"}

func sparseOf(g *cx.G) *graph.SparseGraph {
	nb := make([]sortints.SortedInts, g.N)
	for v, l := range g.Neighbours() {
		nb[v] = append(sortints.SortedInts{}, l...)
	}
	return graph.NewSparse(g.N, nb)
}

// provenance builds g in the named way; r drives the junk of edit histories and views.
func provenance(name string, g *cx.G, r *hx.Rng) graph.Graph {
	n := g.N
	switch name {
	case "cc": // complement view of a complement view
		return graph.Complement(graph.Complement(g.Dense()))
	case "csparse": // complement view of the sparse complement
		return graph.Complement(sparseOf(g.Complement()))
	case "view", "viewsparse": // induced-subgraph view into a larger graph, vertices picked in scattered order
		extra := 1 + r.Intn(3)
		pos := r.Perm(n + extra)[:n] // vertex i of g sits at pos[i] of the big graph
		big := cx.New(n + extra)
		used := make([]bool, n+extra)
		for i := 0; i < n; i++ {
			used[pos[i]] = true
			for j := 0; j < i; j++ {
				if g.Adj[i][j] {
					big.Add(pos[i], pos[j])
				}
			}
		}
		for x := 0; x < n+extra; x++ {
			if !used[x] {
				for y := 0; y < n+extra; y++ {
					if y != x && r.Bool() {
						big.Add(x, y)
					}
				}
			}
		}
		if name == "view" {
			return graph.InducedSubgraph(big.Dense(), pos)
		}
		return graph.InducedSubgraph(sparseOf(big), pos)
	case "edit", "editsparse": // an edit history: junk graph with extra vertices, removed again, edges repaired
		var h graph.EditableGraph
		junk := cx.RandomGnp(r, n, 1, 2)
		if name == "edit" {
			h = junk.Dense()
		} else {
			h = sparseOf(junk)
		}
		extra := 1 + r.Intn(2)
		for x := 0; x < extra; x++ {
			var nb []int
			for y := 0; y < h.N(); y++ {
				if r.Bool() {
					nb = append(nb, y)
				}
			}
			h.AddVertex(nb)
		}
		// remove vertices until n are left, then number the survivors 0..n-1 as they stand
		for h.N() > n {
			h.RemoveVertex(r.Intn(h.N()))
		}
		for i := 0; i < n; i++ {
			for j := 0; j < i; j++ {
				if g.Adj[i][j] && !h.IsEdge(i, j) {
					h.AddEdge(i, j)
				} else if !g.Adj[i][j] && h.IsEdge(i, j) {
					h.RemoveEdge(i, j)
				}
			}
		}
		return h
	case "copy":
		return g.Dense().Copy()
	case "isub": // deep copy made by InducedSubgraph of a relabelled sparse graph
		// vertex i of base is vertex q[i] of g; picking inverse(q) restores g
		q := r.Perm(n)
		return sparseOf(g.Relabel(q)).InducedSubgraph(cx.Inverse(q))
	case "decoded":
		h, err := graph.Graph6Decode(g.Graph6())
		if err != nil {
			return nil
		}
		return h
	case "user":
		u := &userGraph{nb: make([][]int, n), m: g.M()}
		for v, l := range g.Neighbours() {
			u.nb[v] = append([]int{}, l...)
			for i := len(u.nb[v]) - 1; i > 0; i-- {
				j := r.Intn(i + 1)
				u.nb[v][i], u.nb[v][j] = u.nb[v][j], u.nb[v][i]
			}
		}
		return u
	}
	return nil
}

// presents reports whether h presents exactly the abstract graph g through the whole interface.
func presents(h graph.Graph, g *cx.G) bool {
	if h == nil || h.N() != g.N || h.M() != g.M() {
		return false
	}
	deg := h.Degrees()
	if len(deg) != g.N {
		return false
	}
	for i := 0; i < g.N; i++ {
		nb := append([]int{}, h.Neighbours(i)...)
		sort.Ints(nb)
		k := 0
		for j := 0; j < g.N; j++ {
			if h.IsEdge(i, j) != g.Adj[i][j] {
				return false
			}
			if g.Adj[i][j] {
				if k >= len(nb) || nb[k] != j {
					return false
				}
				k++
			}
		}
		if k != len(nb) || deg[i] != k {
			return false
		}
	}
	return true
}

// checkProvenances runs CanonicalIsomorphFull on count representations of g (chosen by rng) and
// compares each result with the reference (orbit labels, order of the generated group, canonical
// graph key; key0 == "" skips the key).  report is called with a kind and a message.
func checkProvenances(g *cx.G, cls [][]int, rng *hx.Rng, count int, wantLab []int, wantOrder uint64, key0 string, report func(kind, msg string)) {
	n := g.N
	if n == 0 {
		return
	}
	clsOf := []int(nil)
	if cls != nil {
		clsOf = cx.ClassOf(n, cls)
	}
	start := rng.Intn(len(provNames))
	for k := 0; k < count; k++ {
		name := provNames[(start+k*3)%len(provNames)]
		var h graph.Graph
		if msg := guard(func() { h = provenance(name, g, rng) }); msg != "" || !presents(h, g) {
			// building the representation failed: another property's business (C05/C06), not reported here
			continue
		}
		// the classes are handed over as sub-slices of one backing array (a caller may well do that)
		var hc [][]int
		if cls != nil {
			flat := make([]int, 0, n)
			for _, c := range cls {
				flat = append(flat, c...)
			}
			pos := 0
			for _, c := range cls {
				hc = append(hc, flat[pos:pos+len(c)])
				pos += len(c)
			}
		}
		var hp, ho []int
		var hg [][]int
		if msg := guard(func() { hp, ho, hg = graph.CanonicalIsomorphFull(h, hc) }); msg != "" {
			report("provenance", "graph held as "+name+": panic: "+msg)
			continue
		}
		if !presents(h, g) {
			report("input-mutated", "graph held as "+name+": the call changed the graph it was given")
		}
		if !cx.IsPerm(hp, n) {
			report("provenance", "graph held as "+name+": returned "+hx.Ints(hp)+", not a permutation")
			continue
		}
		if key0 != "" {
			if key := g.RelabelledGraph6(hp); key != key0 {
				report("provenance", "graph held as "+name+": canonical graph "+key+", as a dense graph "+key0)
			}
		}
		bad := false
		for _, s := range hg {
			if !g.IsAut(s, clsOf) {
				report("provenance", "graph held as "+name+": generator "+hx.Ints(s)+" is not a class-preserving automorphism")
				bad = true
				break
			}
		}
		if bad {
			continue
		}
		lab, ok := cx.LabelsOfUnionFind(ho)
		if !ok || len(ho) != n || hx.Ints(lab) != hx.Ints(wantLab) {
			report("provenance", "graph held as "+name+": orbits "+hx.Ints(lab)+", expected "+hx.Ints(wantLab))
		}
		if o := cx.GroupOrder(n, hg); o != wantOrder {
			report("provenance", "graph held as "+name+": the generators generate a group of a different order than for the dense graph")
		}
	}
}
