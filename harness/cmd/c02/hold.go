package main

// hold;<capn>;<item> <item> ...      item = <graph6>/<cls>, 1 <= n <= capn
//
// Results of successive calls held at the same time, inputs scribbled over, hidden state
// (dimensions 6, 7, 8 of notes/GENERATOR_DIMENSIONS.md), all inside ONE worker process:
//
// Phase 1 — CanonicalIsomorphFull (every call owns its storage, so every result must stay valid
//   for ever): the returned slices of ALL calls are kept; after every call the caller's inputs of
//   that call are scribbled over (the class slices, and the graph is edited to junk) and every
//   result held so far is compared with the copy taken when it was returned.  The inputs must not
//   have been changed by the call.  CanonicalIsomorph must return the same permutation.
// Phase 2 — CanonicalIsomorphAllocated with two storage/partition pairs A and B used alternately
//   (the documented contract: results live in the caller's storage, so a result of A must stay
//   valid while only B is used); the neighbour lists handed in are scribbled over after the call;
//   in between a documented panic (Reset for a graph larger than the capacity) is provoked and
//   recovered, and the pair is used again.  Every result must equal the phase-1 result of the same
//   item (same permutation, same generators, same orbit partition) — i.e. is judged as in a fresh
//   process.
//
// Oracle only (the driver prints "ok").

import (
	"fmt"
	"strings"

	"github.com/Tom-Johnston/mamba/graph"
	cx "verifharness/cmd/c01/canonx"
	"verifharness/hx"
)

type held struct {
	item             string
	perm, orb        []int   // the returned slices themselves
	gens             [][]int // the returned slices themselves
	snap             triple  // copies taken at return time
	validWhileOthers bool
}

func (h *held) intact() bool {
	return hx.Ints(h.perm) == hx.Ints(h.snap.perm) && hx.Ints(h.orb) == hx.Ints(h.snap.orb) && fmt.Sprint(h.gens) == fmt.Sprint(h.snap.gens)
}

func execHold(capn int, items []string) hx.Result {
	type in struct {
		g   *cx.G
		cls [][]int
		s   string
	}
	var ins []in
	for _, it := range items {
		f := strings.Split(it, "/")
		if len(f) != 2 {
			return hx.Result{Obs: "badcase"}
		}
		g, err := cx.FromGraph6(f[0])
		if err != nil || g.N > capn || g.N < 1 {
			return hx.Result{Obs: "badcase"}
		}
		cls, err := cx.ParseClasses(f[1])
		if err != nil || !validClasses(g.N, cls) {
			return hx.Result{Obs: "badcase"}
		}
		ins = append(ins, in{g, cls, it})
	}
	var viol []hx.OracleViolation
	seen := map[string]bool{}
	fail := func(kind, format string, a ...interface{}) {
		if seen[kind] || len(viol) >= 4 {
			return
		}
		seen[kind] = true
		viol = append(viol, hx.Fail("C02:hold:"+kind, format, a...))
	}
	copyCls := func(c [][]int) [][]int {
		if c == nil {
			return nil
		}
		return copyGens(c)
	}
	// ---- phase 1
	var all []*held
	fresh := make([]triple, len(ins))
	for k, x := range ins {
		lib := x.g.Dense()
		cls := copyCls(x.cls)
		var hd *held
		if msg := guard(func() {
			p, o, gs := graph.CanonicalIsomorphFull(lib, cls)
			hd = &held{item: x.s, perm: p, orb: o, gens: gs, snap: snapshot(p, o, gs)}
		}); msg != "" {
			fail("panic", "item %d (%s): CanonicalIsomorphFull panicked: %s", k, x.s, msg)
			return hx.Result{Obs: "panic", Buckets: []string{"mode:hold"}, Viol: viol}
		}
		fresh[k] = hd.snap
		// the inputs are the caller's: unchanged by the call ...
		if fmt.Sprint(cls) != fmt.Sprint(x.cls) {
			fail("input-mutated", "item %d (%s): the call changed the vertex classes it was given: %v", k, x.s, cls)
		}
		if !cx.FromLib(lib).Equal(x.g) {
			fail("input-mutated", "item %d (%s): the call changed the graph it was given", k, x.s)
		}
		// ... and the caller may do with them what he likes afterwards
		for _, c := range cls {
			for i := range c {
				c[i] = 0
			}
		}
		for i := 0; i < x.g.N; i++ {
			for j := 0; j < i; j++ {
				if (i+j+k)%2 == 0 {
					lib.AddEdge(i, j)
				} else {
					lib.RemoveEdge(i, j)
				}
			}
		}
		all = append(all, hd)
		for j, e := range all {
			if !e.intact() {
				fail("result-changed", "the result of call %d (%s) changed after call %d (%s) / after the caller overwrote his inputs: was %v, now perm=%v orbits=%v gens=%v", j, e.item, k, x.s, e.snap, e.perm, e.orb, e.gens)
			}
		}
		if x.cls != nil { // CanonicalIsomorph has no class argument
			continue
		}
		if msg := guard(func() {
			if p := graph.CanonicalIsomorph(x.g.Sparse()); hx.Ints(p) != hx.Ints(hd.snap.perm) {
				fail("entrypoints", "item %d (%s): CanonicalIsomorph returns %v, CanonicalIsomorphFull %v", k, x.s, p, hd.snap.perm)
			}
		}); msg != "" {
			fail("panic", "item %d (%s): CanonicalIsomorph panicked: %s", k, x.s, msg)
		}
	}
	// ---- phase 2
	capm := capn * (capn - 1) / 2
	type pair struct {
		op   *graph.CanonicalOrderedPartition
		st   *graph.CanonicalStorage
		last *held
	}
	pairs := []*pair{
		{op: graph.NewOrderedPartition(capn, capm, nil), st: graph.NewStorage(capn, capm)},
		{op: graph.NewOrderedPartition(capn, capm, nil), st: graph.NewStorage(capn, capm)},
	}
	for k, x := range ins {
		pr := pairs[(k/2)%2] // A A B B A A ...: same pair twice in a row and alternation
		other := pairs[1-(k/2)%2]
		if k%5 == 3 {
			// the documented panic of Reset for a graph that does not fit, recovered; the pair is used again
			if msg := guard(func() { pr.op.Reset(capn+1, 0, nil) }); msg == "" {
				fail("contract", "Reset(%d, ...) on a partition of capacity %d did not panic", capn+1, capn)
			}
		}
		n, m := x.g.N, x.g.M()
		cls := copyCls(x.cls)
		nb := x.g.Neighbours()
		var hd *held
		if msg := guard(func() {
			pr.op.Reset(n, m, cls)
			p, o, gs := graph.CanonicalIsomorphAllocated(n, m, nb, pr.op, pr.st, new(graph.CanonicalOptions))
			hd = &held{item: x.s, perm: p, orb: o, gens: gs, snap: snapshot(p, o, gs)}
		}); msg != "" {
			fail("panic", "item %d (%s): reused pair panicked: %s", k, x.s, msg)
			return hx.Result{Obs: "panic", Buckets: []string{"mode:hold"}, Viol: viol}
		}
		if hx.Ints(hd.snap.perm) != hx.Ints(fresh[k].perm) || fmt.Sprint(hd.snap.gens) != fmt.Sprint(fresh[k].gens) || !samePartition(hd.snap.orb, fresh[k].orb) {
			fail("reuse", "item %d (%s): two interleaved storage pairs in one process: got %v, a fresh call returns %v", k, x.s, hd.snap, fresh[k])
		}
		if fmt.Sprint(cls) != fmt.Sprint(x.cls) {
			fail("input-mutated", "item %d (%s): Reset/CanonicalIsomorphAllocated changed the vertex classes it was given: %v", k, x.s, cls)
		}
		if fmt.Sprint(nb) != fmt.Sprint(x.g.Neighbours()) {
			fail("input-mutated", "item %d (%s): CanonicalIsomorphAllocated changed the neighbour lists it was given", k, x.s)
		}
		for _, c := range cls {
			for i := range c {
				c[i] = len(c) - 1 - i
			}
		}
		for _, l := range nb {
			for i := range l {
				l[i] = 0
			}
		}
		if !hd.intact() {
			fail("result-changed", "item %d (%s): the result changed when the caller overwrote the classes and neighbour lists he had passed: was %v, now perm=%v orbits=%v gens=%v", k, x.s, hd.snap, hd.perm, hd.orb, hd.gens)
		}
		pr.last = hd
		// the other pair was not touched by this call: its last result is still valid
		if other.last != nil && !other.last.intact() {
			fail("result-changed", "the result held in the other storage (%s) changed during the call for item %d (%s) on this storage: was %v, now perm=%v orbits=%v gens=%v", other.last.item, k, x.s, other.last.snap, other.last.perm, other.last.orb, other.last.gens)
		}
	}
	// phase-1 results are still intact at the very end
	for j, e := range all {
		if !e.intact() {
			fail("result-changed", "the result of CanonicalIsomorphFull call %d (%s) changed later in the process", j, e.item)
		}
	}
	obs := "ok"
	if len(viol) > 0 {
		obs = "ok ## violated"
	}
	return hx.Result{Obs: obs, Nontrivial: len(ins) >= 4, Buckets: []string{"mode:hold"}, Viol: viol}
}
