package main

// Two further kinds of behaviour cases (the model side prints the constant `ok` for both).
//
// Sweep cases `W n a m predicate placement cont wmode;from to`: one iterator (`orig`) visits
// every position k in from..to; at each it is saved and loaded, and the loaded iterator's next
// `cont` answers and graphs are compared with those of an undisturbed twin (`lead`, which runs
// cont calls ahead and is never saved); orig itself is compared with the twin too (Save must not
// disturb it).  A sweep costs O(to) calls of Next in total, so every position of a whole run of
// n = 8 (12346 positions) or n = 9 can be visited; the generator uses sweeps (1) over complete
// runs and (2) over windows around the positions of EXTREME INTERNAL STATE found by scanning a
// run with the hook search.VerifDump: the deepest choices stacks, the positions where the stack
// depth crosses a power of two in either direction, the positions whose currentPath ends in the
// most exhausted levels (the next call backtracks over several levels) and the positions right
// after those.  wmode: 0 = a new buffer for every Save; 1 = ONE buffer, Reset before every
// Save (checkpointing); 2 = all Saves of the sweep appended to ONE stream, loaded back one
// after the other from one reader at the end; 3 = as 1 through a writer of func type.
//
// Usage cases `U n a m predicate placement;script`: the API used around shared objects.
// Tokens: `aI.J` advance iterator I by J calls; `sI.W` Save iterator I into writer W (append);
// `zW` Reset writer W; `oW` open a new reader over a copy of what writer W holds now; `lR` Load
// a new iterator from reader R (the next save in that stream); `n` a new fresh iterator.
// Writers are *bytes.Buffer (W%3 = 0), a func adapter (1) or a struct value holding the buffer
// (2); readers are *bytes.Reader (io.ByteReader, so a gob decoder consumes exactly one save).
// Every iterator is compared at every step with the undisturbed reference sequence of the
// configuration, and at the end all of them are run to exhaustion in alternation.

import (
	"bytes"
	"encoding/gob"
	"encoding/hex"
	"fmt"
	"io"
	"sort"
	"strconv"
	"strings"

	"github.com/Tom-Johnston/mamba/graph"
	"github.com/Tom-Johnston/mamba/graph/search"
	"verifharness/cmd/c03/gx"
	"verifharness/hx"
)

// ---------------------------------------------------------------- writers

type funcWriter func(p []byte) (int, error)

func (f funcWriter) Write(p []byte) (int, error) { return f(p) }

// valueWriter is passed by value; the slice field makes the type non-comparable.
type valueWriter struct {
	b   *bytes.Buffer
	pad []int
}

func (v valueWriter) Write(p []byte) (int, error) { return v.b.Write(p) }

type wr struct {
	buf   *bytes.Buffer
	w     io.Writer // always the same interface value for one writer
	saved []stamp   // the saves in the stream since the last Reset
}

type stamp struct {
	pos, falses int
	ref         []string
	cfg         *config
}

func newWriter(kind int) *wr {
	b := new(bytes.Buffer)
	x := &wr{buf: b}
	switch kind % 3 {
	case 0:
		x.w = b
	case 1:
		x.w = funcWriter(b.Write)
	default:
		x.w = valueWriter{b: b, pad: []int{1}}
	}
	return x
}

type rd struct {
	r      io.Reader
	rest   func() int
	expect []stamp
}

// ---------------------------------------------------------------- sweep cases

type yield struct {
	ok   bool
	snap string
}

func execSweep(line string) hx.Result {
	head, tail, _ := strings.Cut(line, ";")
	f := strings.Fields(head)
	var c config
	c.n, _ = strconv.Atoi(f[1])
	c.a, _ = strconv.Atoi(f[2])
	c.m, _ = strconv.Atoi(f[3])
	c.pred, c.placement = f[4], f[5]
	cont, _ := strconv.Atoi(f[6])
	wmode, _ := strconv.Atoi(f[7])
	// ascending, disjoint ranges from1 to1 from2 to2 ...
	var ranges [][2]int
	ft := strings.Fields(tail)
	for i := 0; i+1 < len(ft); i += 2 {
		lo, _ := strconv.Atoi(ft[i])
		hi, _ := strconv.Atoi(ft[i+1])
		ranges = append(ranges, [2]int{lo, hi})
	}
	first := ranges[0][0]

	var viol []hx.OracleViolation
	fail := func(key, format string, a ...interface{}) {
		if len(viol) < 4 {
			viol = append(viol, hx.Fail(key, format, a...))
		}
	}
	lead, orig := c.fresh(), c.fresh()
	// ring[i] = what call number i (0-based) of an undisturbed iterator answers; entries below
	// `from` are dropped as the sweep moves to its first position
	ring := map[int]yield{}
	leadCalls := 0
	at := func(i int) yield {
		for leadCalls <= i {
			ok := lead.Next()
			y := yield{ok: ok}
			if ok {
				y.snap = gx.Snapshot(lead.Value())
			}
			ring[leadCalls] = y
			leadCalls++
		}
		return ring[i]
	}
	check := func(who string, k, i int, ok bool, it *search.GraphIterator) bool {
		want := at(i)
		if ok != want.ok {
			fail("C04:sweep-answer", "%s saved at position %d: call %d answers %v, the undisturbed iterator %v", who, k, i, ok, want.ok)
			return false
		}
		if ok {
			if got := gx.Snapshot(it.Value()); got != want.snap {
				fail("C04:sweep-sequence", "%s saved at position %d: call %d yields [%s], the undisturbed iterator [%s]", who, k, i, got, want.snap)
				return false
			}
		}
		return true
	}
	one := new(bytes.Buffer)
	var oneW io.Writer = one
	if wmode == 3 {
		oneW = funcWriter(one.Write)
	}
	var stream []int
	maxStack := 0
	verify := func(k int, ld *search.GraphIterator) bool {
		// the saved projection (N, A, M, First, G, Choices, CurrentPath) of the loaded iterator is
		// that of the original (modes 0, 1, 3: the original still stands at position k)
		if wmode != 2 {
			if a, b := dumpProj(search.VerifDump(orig)), dumpProj(search.VerifDump(ld)); a != b {
				fail("C04:projection", "saved at position %d: the loaded iterator holds [%s], the original [%s]", k, b, a)
				return false
			}
		}
		for i := 0; i < cont; i++ {
			if !check("the iterator loaded from the save", k, k+i, ld.Next(), ld) {
				return false
			}
		}
		return true
	}
	good := true
	pos := 0 // calls made on orig
	keepFrom := -1 // ring entries from here on are still needed by the continuations of the previous range
	for _, rg := range ranges {
		from, to := rg[0], rg[1]
		// move to the first position of the range; only the answers are compared on the way
		for ; pos < from && good; pos++ {
			if orig.Next() != at(pos).ok {
				fail("C04:sweep-answer", "two undisturbed iterators disagree at call %d", pos)
				good = false
			}
			if pos < keepFrom || pos >= keepFrom+cont+1 {
				delete(ring, pos)
			}
		}
		keepFrom = to
		for k := from; k <= to && good; k++ {
			switch wmode {
			case 0:
				good = verify(k, c.load(save(orig)))
			case 1, 3:
				one.Reset()
				orig.Save(oneW)
				good = verify(k, c.load(one.Bytes()))
			case 2:
				orig.Save(oneW)
				stream = append(stream, k)
			}
			if d := len(search.VerifDump(orig).Choices); d > maxStack {
				maxStack = d
			}
			// the original goes on undisturbed
			if good && k < to {
				good = check("the original (after Save)", k, k, orig.Next(), orig)
				pos++
			}
		}
	}
	if wmode == 2 && good {
		// all saves of the sweep read back one after the other from one reader
		pre, post := pruneFuncs(c.pred, c.placement)
		r := bytes.NewReader(append([]byte(nil), one.Bytes()...))
		for _, k := range stream {
			if !verify(k, search.Load(r, pre, post)) {
				good = false
				break
			}
		}
		if good && r.Len() != 0 {
			fail("C04:stream-rest", "%d bytes left in the stream after loading every save in it", r.Len())
		}
	}
	res := hx.Result{Viol: viol, Nontrivial: len(viol) > 0 || at(first).ok}
	pow := 0
	for 1<<uint(pow+1) <= maxStack {
		pow++
	}
	res.Buckets = []string{"kind=sweep", fmt.Sprintf("n=%d", c.n), fmt.Sprintf("wmode=%d", wmode), fmt.Sprintf("sweepstack>=2^%d", pow), "pred=" + c.pred + "/" + c.placement}
	if len(viol) == 0 {
		res.Obs = "ok"
	} else {
		res.Obs = "differs"
	}
	return res
}

// ---------------------------------------------------------------- extreme positions

type scanInfo struct {
	depth []int // len(choices) at position k
	zeros []int // number of exhausted levels at the end of currentPath at position k
	entry []int // largest entry of currentPath (untried choices on one level) at position k
}

// scan runs c for at most limit calls of Next and records the stack shape at every position.
func scan(c config, limit int) (s scanInfo) {
	defer func() { recover() }()
	it := c.fresh()
	for k := 0; k <= limit; k++ {
		v := search.VerifDump(it)
		z := 0
		for i := len(v.CurrentPath) - 1; i >= 0 && v.CurrentPath[i] == 0; i-- {
			z++
		}
		e := 0
		for _, x := range v.CurrentPath {
			if x > e {
				e = x
			}
		}
		s.depth = append(s.depth, len(v.Choices))
		s.zeros = append(s.zeros, z)
		s.entry = append(s.entry, e)
		if !it.Next() {
			break
		}
	}
	return s
}

// extremes returns the positions of extreme internal state of a scanned run, ascending.
func extremes(s scanInfo) []int {
	set := map[int]bool{}
	L := len(s.depth)
	if L == 0 {
		return nil
	}
	maxD := 0
	for _, d := range s.depth {
		if d > maxD {
			maxD = d
		}
	}
	// crossings of every power of two >= 8, both directions; the first two and last two of
	// each, all (up to 12) for the two largest powers reached
	var pows []int
	for p := 8; p <= maxD; p *= 2 {
		pows = append(pows, p)
	}
	for pi, p := range pows {
		var up, down []int
		for k := 1; k < L; k++ {
			if s.depth[k-1] < p && s.depth[k] >= p {
				up = append(up, k)
			}
			if s.depth[k-1] >= p && s.depth[k] < p {
				down = append(down, k-1)
			}
		}
		keep := 2
		if pi >= len(pows)-2 {
			keep = 12
		}
		for _, l := range [][]int{up, down} {
			for i, k := range l {
				if i < keep || i >= len(l)-keep {
					set[k] = true
				}
			}
		}
	}
	top := func(val []int, cnt int, after bool) {
		idx := make([]int, L)
		for i := range idx {
			idx[i] = i
		}
		sort.SliceStable(idx, func(a, b int) bool { return val[idx[a]] > val[idx[b]] })
		for i := 0; i < cnt && i < L; i++ {
			set[idx[i]] = true
			if after && idx[i]+1 < L {
				set[idx[i]+1] = true
			}
		}
	}
	top(s.depth, 8, false)
	top(s.zeros, 6, true)
	top(s.entry, 4, false)
	var out []int
	for k := range set {
		out = append(out, k)
	}
	sort.Ints(out)
	return out
}

// windows merges [p-2, p+2] around the given positions.
func windows(ps []int, last int) [][2]int {
	var w [][2]int
	for _, p := range ps {
		lo, hi := p-2, p+2
		if lo < 0 {
			lo = 0
		}
		if hi > last {
			hi = last
		}
		if len(w) > 0 && lo <= w[len(w)-1][1]+1 {
			if hi > w[len(w)-1][1] {
				w[len(w)-1][1] = hi
			}
		} else {
			w = append(w, [2]int{lo, hi})
		}
	}
	return w
}

func genSweeps(g *hx.Gen) {
	emitR := func(c config, cont, wmode int, ranges [][2]int) {
		var sb strings.Builder
		for i, r := range ranges {
			if i > 0 {
				sb.WriteByte(' ')
			}
			fmt.Fprintf(&sb, "%d %d", r[0], r[1])
		}
		g.Emit(fmt.Sprintf("W %s %d %d;%s", c.String(), cont, wmode, sb.String()))
	}
	emit := func(c config, cont, wmode, from, to int) { emitR(c, cont, wmode, [][2]int{{from, to}}) }
	idx := 0
	// (1) complete runs, in chunks: every position, short continuation
	whole := func(c config, chunk int) {
		L := len(scan(c, 1<<30).depth) - 1 // number of graphs
		for from := 0; from <= L+2; from += chunk {
			to := from + chunk - 1
			if to > L+2 {
				to = L + 2
			}
			idx++
			emit(c, 3+idx%3, []int{0, 0, 1, 2, 0, 3}[idx%6], from, to)
		}
	}
	for _, n := range []int{5, 6, 7} {
		for _, c := range configs(n, []int{1, 2}, []string{"trifree", "maxdeg3"}) {
			whole(c, 400)
		}
	}
	// values of a and m across the one-byte / length-prefixed boundary of gob's integers and up
	// to MaxInt; degenerate predicates (nothing, one vertex, one path survive)
	for _, n := range []int{6, 7} {
		for _, m := range []int{8, 16, 127, 128, 129, 255, 256, 257, 1000, 1 << 31, 1<<63 - 1} {
			for _, a := range []int{0, 1, 5, m - 1} {
				if a < m {
					whole(config{n, a, m, "none", "-"}, 2000)
				}
			}
		}
		for _, c := range configs(n, []int{1, 2}, gx.ExtremePreds) {
			if c.pred != "none" {
				whole(c, 2000)
			}
		}
	}
	// n beyond the reach of the unrestricted search, with strongly pruning hereditary predicates:
	// every position, every n = 12..24 (so len(Edges) = n(n-1)/2 takes every residue modulo 8 and
	// n crosses 16), as preprune, as prune and as both, m = 1, 2
	for n := 12; n <= g.Pick(24, 26); n++ {
		for _, pred := range []string{"maxdeg1", "edges2", "cluster"} {
			if pred == "cluster" && n > g.Pick(17, 19) {
				continue
			}
			for _, pl := range []string{"pre", "post", "both"} {
				if pl == "both" && pred != "maxdeg1" {
					continue
				}
				for _, am := range [][2]int{{0, 1}, {0, 2}, {1, 2}} {
					if pred == "cluster" && n > 15 && (am[1] == 2 || pl == "post") && !g.Thorough() {
						continue
					}
					whole(config{n, am[0], am[1], pred, pl}, 60)
				}
			}
		}
	}
	g.Exhaustive("every save position of the searches pruned to matchings / at most two edges (n = 12..24) and to disjoint unions of cliques (n = 12..17), m <= 2")
	preds8 := []string{"trifree"}
	if g.Thorough() {
		preds8 = gx.Preds
	}
	for _, c := range configs(8, []int{1, 2, 3}, preds8) {
		whole(c, 800)
	}
	g.Exhaustive("every save position of every configuration n = 8 (m <= 3, all a; no predicate, trifree pre/post; all predicates in the thorough tier) with a continuation of 3..5 calls, by sweeps")
	// (2) windows around the positions of extreme internal state of larger runs
	type big struct {
		n, limit int
		ms       []int
		preds    []string
	}
	bigs := []big{{9, 1 << 30, []int{1}, nil}, {9, 60000, []int{2, 3}, []string{"trifree"}}, {10, g.Pick(60000, 600000), []int{1}, nil}}
	if g.Thorough() {
		bigs = append(bigs, big{9, 1 << 30, []int{2, 3}, []string{"trifree", "maxdeg3", "k4free"}}, big{10, 200000, []int{2, 7}, []string{"trifree"}}, big{11, 100000, []int{1}, []string{"trifree"}})
	}
	for _, b := range bigs {
		for _, c := range configs(b.n, b.ms, b.preds) {
			s := scan(c, b.limit)
			// all windows of one configuration in one pass
			if ws := windows(extremes(s), len(s.depth)-1); len(ws) > 0 {
				idx++
				emitR(c, 3+idx%3, []int{0, 1, 2}[idx%3], ws)
			}
		}
	}
	if g.Thorough() {
		whole(config{9, 0, 1, "none", "-"}, 4000)
		g.Exhaustive("every save position of n = 9, a = 0, m = 1 with a short continuation")
	} else {
		// a prefix of n = 9 completely
		for from := 0; from < 8000; from += 1000 {
			emit(config{9, 0, 1, "none", "-"}, 3, from/1000%3, from, from+999)
		}
	}
}

// ---------------------------------------------------------------- usage cases

func execUsage(line string) hx.Result {
	head, script, _ := strings.Cut(line, ";")
	f := strings.Fields(head)
	var c config
	c.n, _ = strconv.Atoi(f[1])
	c.a, _ = strconv.Atoi(f[2])
	c.m, _ = strconv.Atoi(f[3])
	c.pred, c.placement = f[4], f[5]
	ref := reference(c)
	r := &runner{ref: ref, line: line}
	tracks := []*track{{name: "it0", it: c.fresh()}}
	writers := map[int]*wr{}
	var readers []*rd
	saves, loads, recovered := 0, 0, 0
	stride := 0
	nested := false
	// nested mode: the pruning callbacks of the iterators created from now on advance, save and
	// load ANOTHER live iterator before answering (their answer stays a function of the graph)
	auxCfg := config{4, 0, 1, "none", "-"}
	auxRef := reference(auxCfg)
	aux := &track{name: "the iterator driven from inside the callbacks", it: auxCfg.fresh(), ref: auxRef}
	auxCalls := 0
	auxStep := func() {
		auxCalls++
		if len(r.viol) > 0 {
			return
		}
		if !r.step(aux) && len(r.viol) == 0 {
			aux = &track{name: aux.name, it: auxCfg.fresh(), ref: auxRef}
		}
		if auxCalls%5 == 0 {
			aux = &track{name: aux.name, it: auxCfg.load(save(aux.it)), pos: aux.pos, falses: aux.falses, ref: auxRef}
		}
	}
	funcs := func(cc config) (pre, post func(*graph.DenseGraph) bool) {
		p0, q0 := pruneFuncs(cc.pred, cc.placement)
		if !nested {
			return p0, q0
		}
		return func(g *graph.DenseGraph) bool { auxStep(); return p0(g) }, func(g *graph.DenseGraph) bool { auxStep(); return q0(g) }
	}
	fresh := func(cc config) *search.GraphIterator {
		pre, post := funcs(cc)
		return search.WithPruning(cc.n, cc.a, cc.m, pre, post)
	}
	cfgOf := func(t *track) config {
		if t.cfg != nil {
			return *t.cfg
		}
		return c
	}
	num := func(s string) int { v, _ := strconv.Atoi(s); return v }
	for _, tok := range strings.Fields(script) {
		if len(r.viol) > 0 {
			break
		}
		arg := tok[1:]
		x, y, _ := strings.Cut(arg, ".")
		switch tok[0] {
		case 'c':
			nested = !nested
		case 'v':
			stride = num(x)
			if stride == 0 {
				stride = -1
			}
			for _, t := range tracks {
				t.stride = stride
			}
		case 'n':
			tracks = append(tracks, &track{name: fmt.Sprintf("it%d", len(tracks)), it: fresh(c), stride: stride})
		case 'N': // a fresh iterator of another configuration (same predicate): Nn.a.m
			p := strings.Split(arg, ".")
			if len(p) != 3 {
				continue
			}
			cc := config{num(p[0]), num(p[1]), num(p[2]), c.pred, c.placement}
			tracks = append(tracks, &track{name: fmt.Sprintf("it%d(%d,%d,%d)", len(tracks), cc.n, cc.a, cc.m), it: fresh(cc), ref: reference(cc), cfg: &cc, stride: stride})
		case 'a':
			if i := num(x); i < len(tracks) {
				for j := 0; j < num(y); j++ {
					r.step(tracks[i])
				}
			}
		case 's':
			i, w := num(x), num(y)
			if i >= len(tracks) {
				continue
			}
			if writers[w] == nil {
				writers[w] = newWriter(w)
			}
			t := tracks[i]
			t.it.Save(writers[w].w)
			writers[w].saved = append(writers[w].saved, stamp{t.pos, t.falses, t.ref, t.cfg})
			saves++
		case 'z':
			if w := writers[num(x)]; w != nil {
				w.buf.Reset()
				w.saved = nil
			}
		case 'o':
			w := writers[num(x)]
			if w == nil {
				w = newWriter(num(x))
				writers[num(x)] = w
			}
			rr, rest := readerOver(append([]byte(nil), w.buf.Bytes()...), uint32(len(readers)+num(x)))
			readers = append(readers, &rd{r: rr, rest: rest, expect: append([]stamp(nil), w.saved...)})
		case 'x': // Load from a stream cut in the middle: whatever it does (it panics), later calls must not notice
			w := writers[num(x)]
			if w == nil || w.buf.Len() < 8 {
				continue
			}
			cut := append([]byte(nil), w.buf.Bytes()[:w.buf.Len()/2]...)
			func() {
				defer func() {
					if recover() != nil {
						recovered++
					}
				}()
				pre, post := funcs(c)
				search.Load(bytes.NewReader(cut), pre, post)
			}()
		case 'l':
			i := num(x)
			if i >= len(readers) || len(readers[i].expect) == 0 {
				continue // nothing (left) in that stream: not a valid Load, skipped
			}
			st := readers[i].expect[0]
			readers[i].expect = readers[i].expect[1:]
			cc := c
			if st.cfg != nil {
				cc = *st.cfg
			}
			pre, post := funcs(cc)
			it := search.Load(readers[i].r, pre, post)
			tracks = append(tracks, &track{name: fmt.Sprintf("it%d(loaded from stream %d, saved at %d)", len(tracks), i, st.pos), it: it, pos: st.pos, falses: st.falses, ref: st.ref, cfg: st.cfg, stride: stride})
			loads++
		}
	}
	_ = cfgOf
	for _, rdr := range readers {
		if len(rdr.expect) == 0 && rdr.rest() != 0 && len(r.viol) == 0 {
			r.fail("C04:stream-rest", "%d bytes left in a stream after loading every save in it", rdr.rest())
		}
	}
	// everything to exhaustion, in alternation
	if len(r.viol) == 0 {
		live := len(tracks)
		done := make([]bool, len(tracks))
		for live > 0 {
			for i, t := range tracks {
				if !done[i] && !r.step(t) {
					done[i] = true
					live--
				}
			}
		}
		for _, t := range tracks {
			want := len(ref)
			if t.ref != nil {
				want = len(t.ref)
			}
			if len(r.viol) == 0 && t.pos != want {
				r.fail("C04:count", "%s yielded %d graphs in total, want %d", t.name, t.pos, want)
			}
		}
	}
	res := hx.Result{Viol: r.viol, Nontrivial: loads > 0 && len(ref) > 0}
	res.Buckets = []string{"kind=usage", fmt.Sprintf("n=%d", c.n), fmt.Sprintf("saves=%d", saves), fmt.Sprintf("loads=%d", loads), fmt.Sprintf("writers=%d", len(writers)),
		fmt.Sprintf("nestedcalls>0=%v", auxCalls > 0), fmt.Sprintf("recoveredloads=%d", recovered), fmt.Sprintf("stride=%d", stride)}
	if len(r.viol) == 0 {
		res.Obs = "ok"
	} else {
		res.Obs = "differs"
	}
	return res
}

// ---------------------------------------------------------------- streams of another process

// Foreign cases `F n a m predicate placement k cont|hex`: the bytes were written by Save in the
// GENERATING process (which registers several unrelated types with encoding/gob first, so the
// type ids in the stream differ from those a worker would assign) and are loaded here, in
// another process; the continuation is compared with a fresh iterator advanced k times.
func execForeign(line string) hx.Result {
	head, hexs, _ := strings.Cut(line, "|")
	f := strings.Fields(head)
	var c config
	c.n, _ = strconv.Atoi(f[1])
	c.a, _ = strconv.Atoi(f[2])
	c.m, _ = strconv.Atoi(f[3])
	c.pred, c.placement = f[4], f[5]
	k, _ := strconv.Atoi(f[6])
	cont, _ := strconv.Atoi(f[7])
	b, err := hex.DecodeString(hexs)
	if err != nil {
		panic(err)
	}
	var viol []hx.OracleViolation
	twin := c.fresh()
	yielded := 0
	for i := 0; i < k; i++ {
		if twin.Next() {
			yielded++
		}
	}
	ld := c.load(b)
	for i := 0; i < cont && len(viol) == 0; i++ {
		a, bb := twin.Next(), ld.Next()
		if a != bb {
			viol = append(viol, hx.Fail("C04:foreign-answer", "loaded from a stream written in another process at position %d: call %d answers %v, want %v", k, k+i, bb, a))
		} else if a {
			if x, y := gx.Snapshot(twin.Value()), gx.Snapshot(ld.Value()); x != y {
				viol = append(viol, hx.Fail("C04:foreign-sequence", "loaded from a stream written in another process at position %d: call %d yields [%s], want [%s]", k, k+i, y, x))
			}
		}
	}
	res := hx.Result{Viol: viol, Nontrivial: yielded == k, Obs: "ok", Buckets: []string{"kind=foreign", fmt.Sprintf("n=%d", c.n)}}
	if len(viol) > 0 {
		res.Obs = "differs"
	}
	return res
}

type gobShiftA struct{ X, Y int }
type gobShiftB struct {
	S []string
	M map[string]int
}
type gobShiftC struct {
	A gobShiftA
	B *gobShiftB
	F []float64
}

func genForeign(g *hx.Gen) {
	// move the type ids of this process away from those of a fresh worker
	var sink bytes.Buffer
	enc := gob.NewEncoder(&sink)
	enc.Encode(gobShiftA{1, 2})
	enc.Encode(gobShiftB{[]string{"x"}, map[string]int{"y": 1}})
	enc.Encode(gobShiftC{F: []float64{1}})
	for _, n := range []int{1, 3, 5, 6, 7} {
		for _, c := range configs(n, []int{1, 3}, []string{"trifree"}) {
			func() {
				defer func() { recover() }()
				it := c.fresh()
				L := outputLen(c)
				step := 1 + L/g.Pick(6, 40)
				for k := 0; k <= L+1; k++ {
					if k%step == 0 || k >= L {
						g.Emit(fmt.Sprintf("F %s %d %d|%s", c.String(), k, 6, hex.EncodeToString(save(it))))
					}
					it.Next()
				}
			}()
		}
	}
}

func genUsage(g *hx.Gen) {
	emit := func(c config, script string) { g.Emit(fmt.Sprintf("U %s;%s", c.String(), script)) }
	// templates; %k = first position, %j = a short advance, W = writer index (kind = W%3)
	templates := []string{
		"a0.%k s0.W zW a0.%j s0.W oW l0",                          // checkpoint into one writer with Reset: the second save alone
		"a0.%k s0.W zW s0.W zW a0.%j s0.W oW l0",                  // third save alone
		"a0.%k s0.W a0.%j s0.W oW l0 l0",                          // two saves appended, read back in turn
		"a0.%k s0.W a0.%j s0.W a0.%j s0.W oW l0 l0 l0",            // three
		"a0.%k n a1.%j s0.W s1.W oW l0 l0",                        // two different iterators into one stream
		"a0.%k n a1.%j s0.W s1.W s0.W oW l0 l0 l0",                // interleaved
		"a0.%k s0.W oW l0 zW a1.%j s1.W oW l1",                    // Save after Load after Save, same writer
		"a0.%k s0.W oW l0 a1.%j s1.W oW l1 l1",                    // ... appended to the same stream
		"a0.%k s0.W s0.V zW s0.W s0.V oW l0 oV l1 l1",             // one iterator, two writers in alternation
		"a0.%k s0.W oW zW a0.1 s0.W oW zW a0.1 s0.W oW l0 l1 l2",  // a checkpoint series, every snapshot loaded later
		"a0.%k s0.W s0.W oW l0 l0 a1.%j a2.%j s1.W s2.W oW l1 l1 l1 l1", // grow one stream over generations
		"a0.%k s0.W oW oW l0 l1",                                  // two readers over the same bytes
		"a0.%k N%B s0.W a1.%j s1.W s0.W oW l0 l0 l0",              // a larger and a smaller iterator in one stream
		"N%B N%S a1.%j a2.%j s1.W s2.W s1.W s2.W oW l0 l0 l0 l0 a0.%k s0.W oW l1", // sizes going down and up through Load
		"a0.%k s0.W xW oW l0 xW a1.%j s1.W oW l1",                 // a failed Load (truncated stream, recovered) in between
		"c a0.1 n a1.%k s1.W oW l0 c n a3.%j s3.W oW l1",          // callbacks that drive, save and load another iterator
		"c N%B a1.%j s1.W oW l0 a0.%k s0.W oW l1",                 // ... with two sizes
		"v2 a0.%k s0.W oW l0 v0 a1.%j s1.W oW l1 v3",              // Value skipped / called twice
	}
	fill := func(t string, k, j, w int, c config) string {
		big := fmt.Sprintf("%d.%d.%d", c.n+1+k%2, 0, 1+j%2)
		small := fmt.Sprintf("%d.%d.%d", (c.n+1)/2, 0, 1)
		t = strings.ReplaceAll(t, "%B", big)
		t = strings.ReplaceAll(t, "%S", small)
		t = strings.ReplaceAll(t, "%k", strconv.Itoa(k))
		t = strings.ReplaceAll(t, "%j", strconv.Itoa(j))
		t = strings.ReplaceAll(t, "W", strconv.Itoa(w))
		return strings.ReplaceAll(t, "V", strconv.Itoa(w+1))
	}
	idx := 0
	for n := 0; n <= g.Pick(5, 6); n++ {
		preds := []string{"trifree", "maxdeg3"}
		for _, c := range configs(n, []int{1, 2}, preds) {
			L := outputLen(c)
			ks := []int{0, 1, L / 2, L - 1, L, L + 1}
			for ti, t := range templates {
				for _, k := range ks {
					if k < 0 {
						continue
					}
					idx++
					if n >= 4 && !g.Thorough() && (idx+ti)%3 != 0 {
						continue
					}
					emit(c, fill(t, k, idx%3, idx%6, c))
				}
			}
		}
	}
	// random scripts
	for i := 0; i < g.Pick(1500, 20000); i++ {
		n := g.Rng.Range(2, g.Pick(6, 7))
		m := []int{1, 1, 2, 3}[g.Rng.Intn(4)]
		c := config{n, g.Rng.Intn(m), m, "none", "-"}
		if g.Rng.Chance(1, 2) {
			c.pred = gx.Preds[g.Rng.Intn(len(gx.Preds))]
			c.placement = []string{"pre", "post"}[g.Rng.Intn(2)]
		}
		L := outputLen(c)
		var toks []string
		iters, nreaders := 1, 0
		nw := g.Rng.Range(1, 3)
		for len(toks) < g.Rng.Range(6, 24) {
			switch g.Rng.Intn(11) {
			case 0:
				if iters < 6 {
					toks = append(toks, "n")
					iters++
				}
			case 1, 2:
				toks = append(toks, fmt.Sprintf("a%d.%d", g.Rng.Intn(iters), []int{0, 1, 2, L / 3, L}[g.Rng.Intn(5)]))
			case 3, 4, 5:
				toks = append(toks, fmt.Sprintf("s%d.%d", g.Rng.Intn(iters), g.Rng.Intn(nw)))
			case 6:
				toks = append(toks, fmt.Sprintf("z%d", g.Rng.Intn(nw)))
			case 7:
				toks = append(toks, fmt.Sprintf("o%d", g.Rng.Intn(nw)))
				nreaders++
			case 8:
				switch g.Rng.Intn(5) {
				case 0:
					toks = append(toks, "c")
				case 1:
					toks = append(toks, fmt.Sprintf("v%d", g.Rng.Intn(4)))
				case 2:
					toks = append(toks, fmt.Sprintf("x%d", g.Rng.Intn(nw)))
				default:
					if iters < 6 {
						mm := g.Rng.Range(1, 3)
						toks = append(toks, fmt.Sprintf("N%d.%d.%d", g.Rng.Range(0, 6), g.Rng.Intn(mm), mm))
						iters++
					}
				}
			default:
				if nreaders > 0 && iters < 10 {
					toks = append(toks, fmt.Sprintf("l%d", g.Rng.Intn(nreaders)))
					iters++ // an upper bound: a Load from an exhausted stream is skipped
				}
			}
		}
		emit(c, strings.Join(toks, " "))
	}
}
