// Command c04 checks that a saved graph search resumes with exactly the remaining graphs (C04).
//
// A case is `n a m predicate placement mode;k j1 j2 ...`: a fresh iterator is advanced k times,
// saved (twice, to compare the bytes) and loaded; the loaded iterator is advanced j1 times,
// saved and loaded again, and so on.  Every iterator created on the way is kept, and at the end
// all of them are run to exhaustion according to `mode` (0/1: Next calls in alternation,
// oldest / youngest first; 2: youngest completely first; 3: oldest completely first; +4: every
// Load is done twice from the same bytes and both copies are kept).  Every value every
// iterator yields is compared, in order, with the reference sequence produced by an
// undisturbed iterator of the same configuration: N, M, the degree sequence and the edge array
// must all be equal.  k ranges over 0..len+2 (before the first graph, after each, after Next
// has answered false once and twice).
//
// A second kind of case, `S n a m predicate placement k|<dump>`, ties the Coq model of Save and
// Load (coq/Search/Model.v: save, load; coq/Search/SaveModel.v: inv) to the code: <dump> is the
// complete state of the iterator at position k as copied by the hook search.VerifDump (all
// unexported fields, including the hidden parts of the backing arrays of the graph).  The
// worker rebuilds that state (and reports a difference from the dump in the case line: the
// search must be deterministic), saves, loads, and prints the dump of the loaded iterator; the
// driver of the extracted model computes load (save s) from the dump and prints the same.  The
// saved projection and the projection clauses of the between-calls invariant are compared as
// the property's part, the hidden arrays / cache / ViableBits of the loaded iterator and the
// hidden clauses of the invariant as implementation detail (strict part).
package main

import (
	"bufio"
	"bytes"
	"fmt"
	"hash/fnv"
	"io"
	"strconv"
	"strings"
	"time"

	"github.com/Tom-Johnston/mamba/graph"
	"github.com/Tom-Johnston/mamba/graph/search"
	"verifharness/cmd/c03/gx"
	"verifharness/hx"
)

type config struct {
	n, a, m         int
	pred, placement string
}

func (c config) String() string {
	return fmt.Sprintf("%d %d %d %s %s", c.n, c.a, c.m, c.pred, c.placement)
}

func (c config) fresh() *search.GraphIterator {
	if c.pred == "none" {
		return search.All(c.n, c.a, c.m)
	}
	pre, post := pruneFuncs(c.pred, c.placement)
	return search.WithPruning(c.n, c.a, c.m, pre, post)
}

// Strongly pruning hereditary predicates, read off the DenseGraph directly (gx's predicates are
// limited to 16 vertices): with them the search reaches n = 12..24 in a handful of graphs.
var bigPreds = map[string]func(g *graph.DenseGraph) bool{
	// some vertex has degree > 1 (the survivors are the matchings)
	"maxdeg1": func(g *graph.DenseGraph) bool {
		for _, d := range g.DegreeSequence {
			if d > 1 {
				return true
			}
		}
		return false
	},
	// more than two edges
	"edges2": func(g *graph.DenseGraph) bool { return g.NumberOfEdges > 2 },
	// an induced path on three vertices (the survivors are the disjoint unions of cliques)
	"cluster": func(g *graph.DenseGraph) bool {
		n := g.NumberOfVertices
		adj := func(u, v int) bool {
			if u < v {
				u, v = v, u
			}
			return g.Edges[u*(u-1)/2+v] > 0
		}
		for v := 0; v < n; v++ {
			for a := 0; a < n; a++ {
				if a == v || !adj(v, a) {
					continue
				}
				for b := a + 1; b < n; b++ {
					if b != v && adj(v, b) && !adj(a, b) {
						return true
					}
				}
			}
		}
		return false
	},
}

func pruneFuncs(name, placement string) (pre, post func(*graph.DenseGraph) bool) {
	f, ok := bigPreds[name]
	if !ok {
		return gx.PruneFuncs(name, placement, nil)
	}
	no := func(*graph.DenseGraph) bool { return false }
	switch placement {
	case "pre":
		return f, no
	case "post":
		return no, f
	default:
		return f, f
	}
}

// loadCount selects the kind of reader of the next Load; it is set from the case text at the start
// of every case, so a case always sees the same kinds.
var loadCount uint32

// readerOver presents the bytes through one of the standard readers that implement
// io.ByteReader (so a gob decoder consumes exactly one save); rest reports the bytes not consumed.
func readerOver(b []byte, kind uint32) (r io.Reader, rest func() int) {
	switch kind % 3 {
	case 0:
		x := bytes.NewReader(b)
		return x, x.Len
	case 1:
		x := bytes.NewBuffer(b)
		return x, x.Len
	default:
		u := bytes.NewReader(b)
		x := bufio.NewReaderSize(u, 16)
		return x, func() int { return x.Buffered() + u.Len() }
	}
}

// scribble overwrites bytes the caller owns and is done with.
func scribble(b []byte, kind uint32) {
	for i := range b {
		switch kind % 3 {
		case 0:
			b[i] = 0xff
		case 1:
			b[i] = 0
		default:
			b[i] ^= 0x55
		}
	}
}

func (c config) load(b []byte) *search.GraphIterator {
	pre, post := pruneFuncs(c.pred, c.placement)
	// a fresh copy of the bytes for every Load, overwritten as soon as Load has returned:
	// the loaded iterator must not depend on its input any more
	cp := append([]byte(nil), b...)
	loadCount++
	r, _ := readerOver(cp, loadCount)
	it := search.Load(r, pre, post)
	scribble(cp, loadCount/3)
	return it
}

// reference output of a configuration, cached per worker (a pure function of the case).
var refCache = map[string][]string{}

func reference(c config) []string {
	key := c.String()
	if r, ok := refCache[key]; ok {
		return r
	}
	it := c.fresh()
	r := []string{}
	for it.Next() {
		r = append(r, gx.Snapshot(it.Value()))
		if len(r) > 2000000 {
			break
		}
	}
	if len(refCache) > 64 {
		refCache = map[string][]string{}
	}
	refCache[key] = r
	return r
}

type track struct {
	name   string
	it     *search.GraphIterator
	pos    int // number of graphs yielded so far
	falses int // number of times Next has answered false
	ref    []string // reference sequence of this iterator's configuration (nil: the runner's)
	cfg    *config  // its configuration (nil: the case's)
	stride int      // 0: Value() after every yield; j > 0: only after every j-th; -1: twice
}

type runner struct {
	ref  []string
	viol []hx.OracleViolation
	line string
}

func (r *runner) fail(key, format string, a ...interface{}) {
	if len(r.viol) < 4 {
		r.viol = append(r.viol, hx.Fail(key, format, a...))
	}
}

// step calls Next once on t and compares with the reference.  It returns false when t is
// finished (has answered false) or has diverged.
func (r *runner) step(t *track) bool {
	ok := t.it.Next()
	ref := r.ref
	if t.ref != nil {
		ref = t.ref
	}
	if t.pos < len(ref) {
		if !ok {
			r.fail("C04:short", "%s stops after %d graphs, the undisturbed iterator yields %d", t.name, t.pos, len(ref))
			t.falses++
			return false
		}
		// Value is an optional observer: usage cases also skip it or call it twice
		if t.stride > 0 && t.pos%t.stride != 0 {
			t.pos++
			return true
		}
		got := gx.Snapshot(t.it.Value())
		if t.stride < 0 {
			if again := gx.Snapshot(t.it.Value()); again != got {
				r.fail("C04:value-twice", "%s: two calls of Value after graph #%d show [%s] and [%s]", t.name, t.pos, got, again)
			}
		}
		if got != ref[t.pos] {
			r.fail("C04:sequence", "%s: graph #%d is [%s], the undisturbed iterator yields [%s]", t.name, t.pos, got, ref[t.pos])
			t.pos++
			return false
		}
		t.pos++
		return true
	}
	if ok {
		r.fail("C04:extra", "%s yields a graph after the %d graphs of the undisturbed iterator: [%s]", t.name, len(ref), gx.Snapshot(t.it.Value()))
		return false
	}
	t.falses++
	return false
}

func save(it *search.GraphIterator) []byte {
	var b bytes.Buffer
	it.Save(&b)
	return b.Bytes()
}

func parse(line string) (c config, mode int, chain []int) {
	head, tail, _ := strings.Cut(line, ";")
	f := strings.Fields(head)
	c.n, _ = strconv.Atoi(f[0])
	c.a, _ = strconv.Atoi(f[1])
	c.m, _ = strconv.Atoi(f[2])
	c.pred, c.placement = f[3], f[4]
	mode, _ = strconv.Atoi(f[5])
	for _, t := range strings.Fields(tail) {
		j, _ := strconv.Atoi(t)
		chain = append(chain, j)
	}
	if len(chain) == 0 {
		chain = []int{0}
	}
	return
}

// exec runs one case under its own recover and watchdog: this property has no model stream, so a
// panic or a hang of Save / Load / Next must be reported as a violation here (hx would record
// them as the observations "panic" / "hang", which nothing compares).
func exec(line string) hx.Result {
	ch := make(chan hx.Result, 1)
	go func() {
		defer func() {
			if e := recover(); e != nil {
				ch <- hx.Result{Obs: "panic", Buckets: []string{"outcome:panic"},
					Viol: []hx.OracleViolation{hx.Fail("C04:panic", "panic in Next / Save / Load: %v", e)}}
			}
		}()
		ch <- exec1(line)
	}()
	select {
	case r := <-ch:
		return r
	case <-time.After(4 * time.Minute):
		return hx.Result{Obs: "hang", Buckets: []string{"outcome:hang"},
			Viol: []hx.OracleViolation{hx.Fail("C04:hang", "no answer after 4 minutes")}}
	}
}

func exec1(line string) hx.Result {
	h := fnv.New32a()
	h.Write([]byte(line))
	loadCount = h.Sum32() % 9
	if strings.HasPrefix(line, "F ") {
		return execForeign(line)
	}
	if strings.HasPrefix(line, "S ") {
		return execState(line)
	}
	if strings.HasPrefix(line, "W ") {
		return execSweep(line)
	}
	if strings.HasPrefix(line, "U ") {
		return execUsage(line)
	}
	c, mode, chain := parse(line)
	ref := reference(c)
	L := len(ref)
	r := &runner{ref: ref, line: line}
	twice := mode&4 != 0
	mode &= 3
	tracks := []*track{{name: "original", it: c.fresh()}}
	cur := tracks[0]
	diverged := false
	for ci, j := range chain {
		for i := 0; i < j; i++ {
			if !r.step(cur) {
				if len(r.viol) > 0 {
					diverged = true
				}
				// finished: further steps are further calls after exhaustion
				if diverged {
					break
				}
			}
		}
		if diverged {
			break
		}
		b1 := save(cur.it)
		b2 := save(cur.it)
		if !bytes.Equal(b1, b2) {
			r.fail("C04:save-disturbs", "two consecutive Save calls of %s at position %d write different bytes", cur.name, cur.pos)
		}
		nt := &track{name: fmt.Sprintf("load#%d(at %d of %s)", ci+1, cur.pos, cur.name), it: c.load(b1), pos: cur.pos, falses: cur.falses}
		tracks = append(tracks, nt)
		if twice {
			tracks = append(tracks, &track{name: nt.name + "'", it: c.load(b1), pos: cur.pos, falses: cur.falses})
		}
		cur = nt
	}
	// run everything to exhaustion
	if !diverged {
		order := make([]*track, len(tracks))
		copy(order, tracks)
		if mode == 1 || mode == 2 {
			for i, j := 0, len(order)-1; i < j; i, j = i+1, j-1 {
				order[i], order[j] = order[j], order[i]
			}
		}
		live := map[*track]bool{}
		for _, t := range order {
			live[t] = true
		}
		if mode >= 2 {
			for _, t := range order {
				for r.step(t) {
				}
			}
		} else {
			for n := len(order); n > 0; {
				for _, t := range order {
					if live[t] && !r.step(t) {
						live[t] = false
						n--
					}
				}
			}
		}
		// exhaustion is stable for every iterator, including ones saved after exhaustion
		if len(r.viol) == 0 {
			for _, t := range order {
				for k := 0; k < 2; k++ {
					r.step(t)
				}
				if t.pos != L {
					r.fail("C04:count", "%s yielded %d graphs in total, want %d", t.name, t.pos, L)
				}
			}
		}
	}
	k := chain[0]
	res := hx.Result{Viol: r.viol, Nontrivial: k < L}
	pos := "mid"
	switch {
	case k == 0:
		pos = "before-first"
	case k == L:
		pos = "after-last"
	case k > L:
		pos = "after-exhaustion"
	}
	res.Buckets = []string{fmt.Sprintf("n=%d", c.n), fmt.Sprintf("m=%d", c.m), "pred=" + c.pred + "/" + c.placement, "pos=" + pos, fmt.Sprintf("chain=%d", len(chain)), fmt.Sprintf("mode=%d", mode)}
	if len(r.viol) == 0 {
		res.Obs = "ok"
	} else {
		res.Obs = "differs"
	}
	res.Buckets = append(res.Buckets, fmt.Sprintf("iterators=%d", len(tracks)))
	return res
}

func joinInts[T int | byte](l []T) string {
	parts := make([]string, len(l))
	for i, x := range l {
		parts[i] = strconv.FormatUint(uint64(x), 10)
		if int64(x) < 0 {
			// only ints can be negative (orbit entries); uints print through FormatUint
			parts[i] = strconv.FormatInt(int64(x), 10)
		}
	}
	return strings.Join(parts, ",")
}

func joinUints(l []uint) string {
	parts := make([]string, len(l))
	for i, x := range l {
		parts[i] = strconv.FormatUint(uint64(x), 10)
	}
	return strings.Join(parts, ",")
}

func b01(b bool) string {
	if b {
		return "1"
	}
	return "0"
}

// dumpProj / dumpHidden print a VerifState in the syntax shared with ocaml/c04/driver.ml.
func dumpProj(v search.VerifState) string {
	return fmt.Sprintf("N=%d A=%d M=%d F=%s NV=%d NE=%d D=%s E=%s CH=%s PA=%s", v.N, v.A, v.M, b01(v.First),
		v.NV, v.NE, joinInts(v.Deg), joinInts(v.Edg), joinUints(v.Choices), joinInts(v.CurrentPath))
}

func dumpHidden(v search.VerifState) string {
	perm := "nil"
	if !v.PermNil {
		perm = joinInts(v.Perm)
	}
	gens := make([]string, len(v.Generators))
	for i, g := range v.Generators {
		gens[i] = joinInts(g)
	}
	return fmt.Sprintf("DT=%s ET=%s P=%s O=%s G=%s VB=%d", joinInts(v.DegTail), joinInts(v.EdgTail), perm,
		joinInts(v.Orbits), strings.Join(gens, "/"), v.ViableBits)
}

func dumpFull(v search.VerifState) string { return dumpProj(v) + " " + dumpHidden(v) }

func execState(line string) hx.Result {
	head, dump, _ := strings.Cut(line, "|")
	f := strings.Fields(head)
	var c config
	c.n, _ = strconv.Atoi(f[1])
	c.a, _ = strconv.Atoi(f[2])
	c.m, _ = strconv.Atoi(f[3])
	c.pred, c.placement = f[4], f[5]
	k, _ := strconv.Atoi(f[6])
	it := c.fresh()
	yielded := 0
	for i := 0; i < k; i++ {
		if it.Next() {
			yielded++
		}
	}
	var res hx.Result
	st := search.VerifDump(it)
	if got := dumpFull(st); got != dump {
		res.Viol = append(res.Viol, hx.Fail("C04:nondeterministic", "the state after %d calls of Next is [%s]; when the case was generated it was [%s]", k, got, dump))
	}
	loaded := c.load(save(it))
	after := search.VerifDump(it)
	if got := dumpFull(after); got != dump {
		res.Viol = append(res.Viol, hx.Fail("C04:save-disturbs", "Save changed the state of the iterator: before [%s], after [%s]", dump, got))
	}
	ld := search.VerifDump(loaded)
	res.Obs = dumpProj(ld) + " inv=1 ## " + dumpHidden(ld) + " hid=1"
	res.Nontrivial = st.NV > 0 && len(st.Choices) > 0
	pos := "mid"
	switch {
	case k == 0:
		pos = "before-first"
	case yielded < k:
		pos = "after-exhaustion"
	}
	res.Buckets = []string{"kind=state", fmt.Sprintf("n=%d", c.n), "pos=" + pos, fmt.Sprintf("stack=%d", len(st.Choices)/8*8), fmt.Sprintf("cached=%v", !st.PermNil)}
	return res
}

// stateCases emits one state case per position 0..len+2 (every step-th position) of c.
func stateCases(g *hx.Gen, c config, step int) {
	defer func() { recover() }() // a panic of the code under test is reported by the behaviour cases
	it := c.fresh()
	falses := 0
	for k := 0; falses < 3 && k < 400000; k++ {
		if k%step == 0 || falses > 0 {
			g.Emit(fmt.Sprintf("S %s %d|%s", c.String(), k, dumpFull(search.VerifDump(it))))
		}
		if !it.Next() {
			falses++
		}
	}
}

// statePositions emits state cases at the given ascending positions of c.
func statePositions(g *hx.Gen, c config, ps []int) {
	defer func() { recover() }()
	it := c.fresh()
	k := 0
	for _, p := range ps {
		for ; k < p; k++ {
			it.Next()
		}
		g.Emit(fmt.Sprintf("S %s %d|%s", c.String(), k, dumpFull(search.VerifDump(it))))
	}
}

// outputLen is used by the generator only, to enumerate the save positions of a configuration.
// It runs in the generating process, so a panic of the code under test is caught here (the
// positions are then enumerated up to a default length and the workers report the panic).
func outputLen(c config) (n int) {
	defer func() {
		if recover() != nil {
			n = 40
		}
	}()
	it := c.fresh()
	for it.Next() {
		n++
		if n >= 300000 {
			break
		}
	}
	return n
}

func configs(n int, ms []int, preds []string) []config {
	var cs []config
	for _, m := range ms {
		for a := 0; a < m; a++ {
			cs = append(cs, config{n, a, m, "none", "-"})
			for _, p := range preds {
				cs = append(cs, config{n, a, m, p, "pre"}, config{n, a, m, p, "post"})
			}
		}
	}
	return cs
}

func gen(g *hx.Gen) {
	emit := func(c config, mode int, chain ...int) {
		s := make([]string, len(chain))
		for i, j := range chain {
			s[i] = strconv.Itoa(j)
		}
		g.Emit(fmt.Sprintf("%s %d;%s", c.String(), mode, strings.Join(s, " ")))
	}
	full := g.Pick(6, 7) // every save position up to this n
	idx := 0
	for n := 0; n <= full; n++ {
		for _, c := range configs(n, []int{1, 2, 3}, gx.Preds) {
			L := outputLen(c)
			for k := 0; k <= L+2; k++ {
				idx++
				if n <= 5 {
					for mode := 0; mode < 4; mode++ {
						emit(c, mode, k)
					}
					emit(c, 4+idx%4, k)
					// every two-step chain with a short second leg
					for j := 0; j <= 2; j++ {
						emit(c, idx%4, k, j)
					}
				} else {
					emit(c, idx%8, k)
					if n == 6 {
						emit(c, (idx+1)%4, k, g.Rng.Range(0, 3))
					}
				}
			}
		}
	}
	g.Exhaustive(fmt.Sprintf("every save position k in 0..len+2 of every configuration (n<=%d, m<=3, all a, predicate in none+%v as pre/post)", full, gx.Preds))
	// the states themselves: model of Save / Load and the between-calls invariant against /repo
	for n := 0; n <= full; n++ {
		step := 1
		if n >= 7 {
			step = 5
		}
		for _, c := range configs(n, []int{1, 2, 3}, gx.Preds) {
			stateCases(g, c, step)
		}
	}
	g.Exhaustive(fmt.Sprintf("Load(Save(.)) on the complete iterator state at every position of every configuration n<=6 (every 5th for n=7), m<=3, against the extracted model (n<=%d in this tier)", full))
	// every position of whole runs of n = 8, extreme internal states of n = 9, 10; usage patterns
	genSweeps(g)
	genUsage(g)
	genForeign(g)
	// degenerate predicates at every position, all interleavings
	for n := 0; n <= 6; n++ {
		for _, c := range configs(n, []int{1, 2}, gx.ExtremePreds) {
			if c.pred == "none" {
				continue
			}
			L := outputLen(c)
			for k := 0; k <= L+2; k++ {
				for mode := 0; mode < 8; mode += 3 {
					emit(c, mode, k)
					emit(c, mode, k, 1)
				}
			}
			stateCases(g, c, 1)
		}
	}
	// the complete state at the positions of extreme internal state of n = 8, 9 (model of Save / Load)
	for _, c := range []config{{8, 0, 1, "none", "-"}, {8, 1, 2, "none", "-"}, {9, 0, 1, "none", "-"}} {
		if c.n == 9 && !g.Thorough() {
			statePositions(g, c, extremes(scan(c, 20000)))
		} else {
			statePositions(g, c, extremes(scan(c, 1<<30)))
		}
	}
	// sampled positions for the larger sizes, other moduli, and longer chains
	type plan struct {
		n     int
		ms    []int
		count int
	}
	plans := []plan{{5, []int{4, 7}, 6}, {6, []int{4, 7}, 6}, {7, []int{1, 2, 3}, g.Pick(6, 0)}, {7, []int{4, 7}, g.Pick(1, 8)}, {8, []int{1, 3}, g.Pick(0, 6)}}
	for _, p := range plans {
		if p.count == 0 {
			continue
		}
		for _, c := range configs(p.n, p.ms, gx.Preds) {
			L := outputLen(c)
			for _, k := range []int{0, 1, L - 1, L, L + 1} {
				if k >= 0 {
					emit(c, g.Rng.Intn(8), k)
				}
			}
			for i := 0; i < p.count; i++ {
				emit(c, g.Rng.Intn(8), g.Rng.Range(0, L+1))
			}
		}
	}
	// chains: save, load, advance, save, load, ... with 2..6 links
	for i := 0; i < g.Pick(3000, 30000); i++ {
		n := g.Rng.Range(2, g.Pick(6, 7))
		m := []int{1, 1, 2, 3, 4, 7}[g.Rng.Intn(6)]
		c := config{n, g.Rng.Intn(m), m, "none", "-"}
		if g.Rng.Chance(2, 3) {
			c.pred = gx.Preds[g.Rng.Intn(len(gx.Preds))]
			c.placement = []string{"pre", "post", "both"}[g.Rng.Intn(3)]
		}
		L := outputLen(c)
		links := g.Rng.Range(2, 6)
		chain := make([]int, links)
		rem := L + 2
		for j := range chain {
			switch g.Rng.Intn(4) {
			case 0:
				chain[j] = g.Rng.Range(0, 2)
			case 1:
				chain[j] = rem // run it out, then save after exhaustion
			default:
				chain[j] = g.Rng.Range(0, rem/(links-j)+1)
			}
			if chain[j] > rem {
				chain[j] = rem
			}
			rem -= chain[j]
		}
		emit(c, g.Rng.Intn(8), chain...)
	}
}

var _ = graph.NewDense

func main() {
	hx.Main(hx.Prop{
		Rule:        "behaviour case = (n,a,m,predicate,placement) x save position k x chain of further (advance, save, load) links x interleaving mode; non-trivial = the remaining output at the first save position is non-empty (k < len). state case = (configuration, position k, complete iterator state); non-trivial = the graph is non-empty and the DFS stack is non-empty. distinct by case text",
		Gen:         gen,
		Exec:        exec,
		CaseTimeout: 5 * time.Minute,
		MemMB:       4096,
	})
}
