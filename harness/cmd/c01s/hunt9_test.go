package main

import (
	"os"
	"strconv"
	"testing"

	"github.com/Tom-Johnston/mamba/graph"
	cx "verifharness/cmd/c01/canonx"
	"verifharness/hx"
)

// graphs with pairs of twins attached to many vertices of an irregular-looking regular base: the overflow of
// currentBest[:len(op.value)] needs a 2-element target bin whose elements have many neighbours in the singleton prefix
func twinGraph(r *hx.Rng) *cx.G {
	k := r.Range(5, 11)
	var base *cx.G
	switch r.Intn(4) {
	case 0:
		base = cx.RandomRegularSwitch(r, k+k%2, 3)
	case 1: // union of cycles of different lengths
		base = cx.New(k)
		a := r.Range(3, k-3+1)
		if a > k-3 {
			a = k - 3
		}
		if a < 3 {
			a = 3
		}
		for i := 0; i < a; i++ {
			base.Add(i, (i+1)%a)
		}
		if k-a >= 3 {
			for i := 0; i < k-a; i++ {
				base.Add(a+i, a+(i+1)%(k-a))
			}
		}
	case 2:
		base = cx.RandomGnp(r, k, r.Range(2, 6), 10)
	default:
		base = cx.RandomTree(r, k)
	}
	k = base.N
	t := r.Range(1, 2)
	extra := r.Intn(3)
	g := cx.New(k + 2*t + extra)
	for i := 0; i < k; i++ {
		for j := 0; j < i; j++ {
			if base.Adj[i][j] {
				g.Add(i, j)
			}
		}
	}
	for q := 0; q < t; q++ {
		x, y := k+2*q, k+2*q+1
		num := r.Range(4, 10)
		for v := 0; v < k+2*q; v++ {
			if r.Intn(10) < num {
				g.Add(x, v)
				g.Add(y, v)
			}
		}
		if r.Bool() {
			g.Add(x, y)
		}
	}
	for e := 0; e < extra; e++ {
		w := k + 2*t + e
		for v := 0; v < w; v++ {
			if r.Intn(10) < 2 {
				g.Add(w, v)
			}
		}
	}
	return g.Relabel(r.Perm(g.N))
}

// a regular base H, twins adjacent to all of H, low-degree vertices F attached to one or two vertices of H;
// classes [H] [x y] [F] put the low-degree vertices at the end of the order
func twinGraph2(r *hx.Rng) (*cx.G, [][]int) {
	k := 2 * r.Range(3, 6)
	deg := 3
	if r.Intn(3) == 0 && k >= 6 {
		deg = 4
	}
	base := cx.RandomRegularSwitch(r, k, deg)
	f := r.Range(1, 4)
	g := cx.New(k + 2 + f)
	for i := 0; i < k; i++ {
		for j := 0; j < i; j++ {
			if base.Adj[i][j] {
				g.Add(i, j)
			}
		}
	}
	x, y := k, k+1
	for v := 0; v < k; v++ {
		g.Add(x, v)
		g.Add(y, v)
	}
	if r.Bool() {
		g.Add(x, y)
	}
	for e := 0; e < f; e++ {
		w := k + 2 + e
		g.Add(w, r.Intn(k))
		if r.Bool() {
			g.Add(w, r.Intn(k))
		}
	}
	var cls [][]int
	switch r.Intn(3) {
	case 0:
		cls = [][]int{seqInts(0, k), {x, y}, seqInts(k+2, k+2+f)}
	case 1:
		cls = [][]int{seqInts(0, k+2), seqInts(k+2, k+2+f)}
	}
	return g, cls
}

func seqInts(a, b int) []int {
	var s []int
	for i := a; i < b; i++ {
		s = append(s, i)
	}
	return s
}

func TestHunt9(t *testing.T) {
	cnt, _ := strconv.Atoi(os.Getenv("HUNT9"))
	if cnt == 0 {
		t.Skip("set HUNT9=<restarts>")
	}
	r := hx.NewRng(uint64(cnt) + 99)
	slackOf := func(g *cx.G, cls [][]int) (int, string) {
		cov := map[string]bool{}
		_, _, _, _, status := portSearchCov(g.Adj, cls, 3000000, cov)
		if status != "ok" {
			return -1000, status
		}
		if !cov["sibling-after-cutoff"] {
			return 1000, status
		}
		return lastMinSlack, status
	}
	best := 1000
	seen := 0
	for it := 0; it < cnt; it++ {
		g := twinGraph(r)
		n := g.N
		var cls [][]int
		if r.Intn(3) == 0 {
			cls = randClasses(r, n, r.Range(1, 3))
		}
		if os.Getenv("HUNT9FAM") == "2" {
			g, cls = twinGraph2(r)
			n = g.N
		}
		cur, st0 := slackOf(g, cls)
		if cur == -1000 && st0 != "fuel" {
			msg := guard(func() { graph.CanonicalIsomorphFull(g.Dense(), copyClasses(cls)) })
			t.Logf("port %s, implementation %q on %s classes %s", st0, msg, g.Graph6(), cx.ClassesString(cls))
			if os.Getenv("HUNT9ALL") == "" {
				t.FailNow()
			}
			continue
		}
		if cur < 1000 {
			seen++
		}
		for step := 0; step < 60; step++ {
			h := cx.Perturb(r, g, 1)
			if r.Intn(3) == 0 && cls == nil {
				h = g.Relabel(r.Perm(n))
			}
			s, status := slackOf(h, cls)
			if s == -1000 {
				msg := guard(func() { graph.CanonicalIsomorphFull(h.Dense(), copyClasses(cls)) })
				t.Logf("port %s, implementation %q on %s classes %s (n = %d, m = %d)", status, msg, h.Graph6(), cx.ClassesString(cls), h.N, h.M())
				if status != "fuel" && os.Getenv("HUNT9ALL") == "" {
					t.FailNow()
				}
				continue
			}
			if s <= cur {
				g, cur = h, s
			}
			if cur < best {
				best = cur
				t.Logf("slack %d: %s classes %s (n = %d, m = %d)", best, g.Graph6(), cx.ClassesString(cls), g.N, g.M())
			}
		}
	}
	t.Logf("restarts with a sibling after a cut-off: %d of %d; least slack %d", seen, cnt, best)
}
