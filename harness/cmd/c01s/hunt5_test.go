package main

import (
	"testing"

	cx "verifharness/cmd/c01/canonx"
)

func TestShowSlack(t *testing.T) {
	for _, s := range []string{"MOoOGEOIJC?_OPCP?"} {
		g := cx.MustGraph6(s)
		cov := map[string]bool{}
		traceSplit = func(msg string) { t.Log(msg) }
		p, _, _, steps, st := portSearchCov(g.Adj, nil, 100000, cov)
		traceSplit = nil
		t.Logf("%s n=%d m=%d perm=%v steps=%d %s minSlack=%d cov=%v", s, g.N, g.M(), p, steps, st, lastMinSlack, cov)
	}
}
