package main

import (
	"os"
	"strconv"
	"testing"

	"github.com/Tom-Johnston/mamba/graph"
	cx "verifharness/cmd/c01/canonx"
	"verifharness/hx"
)

// go test -tags verif -run TestHunt ./cmd/c01s  (HUNT=<count>): random graphs with vertex classes that put
// singletons in front, looking for a panic of the implementation or a difference to the port.
func TestHunt(t *testing.T) {
	cnt, _ := strconv.Atoi(os.Getenv("HUNT"))
	if cnt == 0 {
		t.Skip("set HUNT=<count>")
	}
	r := hx.NewRng(uint64(cnt))
	bad := 0
	slackHist := map[int]int{}
	late := 0
	defer func() { t.Logf("runs with a cut-off inside splitBin after the first position: %d", late) }()
	defer func() { t.Logf("least slack m - len(value) in runs with a sibling after a cut-off: %v", slackHist) }()
	for it := 0; it < cnt && bad < 5; it++ {
		n := r.Range(4, 9)
		g := cx.RandomGnp(r, n, r.Range(2, 8), 10)
		if r.Intn(3) == 0 {
			g = cx.RandomRegularSwitch(r, n, r.Range(2, 4))
		}
		var cls [][]int
		if r.Intn(4) != 0 {
			k := r.Range(1, 3)
			p := r.Perm(n)
			for i := 0; i < k && i < n-2; i++ {
				cls = append(cls, []int{p[i]})
			}
			cls = append(cls, append([]int(nil), p[len(cls):]...))
			if r.Bool() && len(cls[len(cls)-1]) > 3 {
				last := cls[len(cls)-1]
				cls[len(cls)-1] = last[:2]
				cls = append(cls, last[2:])
			}
		}
		var perm []int
		var ds []int
		var gens [][]int
		msg := guard(func() {
			p, d, gg := graph.CanonicalIsomorphFull(g.Dense(), copyClasses(cls))
			perm, ds, gens = p, d, gg
		})
		cov := map[string]bool{}
		pp, po, pg, _, status := portSearchCov(g.Adj, cls, 1000000, cov)
		if cov["sibling-after-late-cutoff"] {
			late++
			if late <= 3 {
				t.Logf("late cut-off followed by a sibling: %s classes %s slack %d", g.Graph6(), cx.ClassesString(cls), lastMinSlack)
			}
		}
		if cov["sibling-after-cutoff"] {
			slackHist[lastMinSlack]++
		}
		if msg != "" || status != "ok" {
			t.Logf("impl %q port %q on %s classes %s", msg, status, g.Graph6(), cx.ClassesString(cls))
			bad++
			continue
		}
		if (result{pp, po, pg}).strict() != (result{perm, ds, gens}).strict() {
			t.Logf("differ on %s classes %s", g.Graph6(), cx.ClassesString(cls))
			bad++
		}
	}
	if bad > 0 {
		t.Fail()
	}
}
