package main

import (
	"os"
	"strings"
	"testing"

	"github.com/Tom-Johnston/mamba/graph"
	cx "verifharness/cmd/c01/canonx"
)

// minimise an input on which CanonicalIsomorphFull panics (capacity of currentBest): HUNT10="<graph6>;<classes>"
func TestHunt10(t *testing.T) {
	spec := os.Getenv("HUNT10")
	if spec == "" {
		t.Skip("set HUNT10=<graph6>;<classes a,b|c,d>")
	}
	parts := strings.SplitN(spec, ";", 2)
	g := cx.MustGraph6(parts[0])
	cls, err := cx.ParseClasses(parts[1])
	if err != nil {
		t.Fatal(err)
	}
	panics := func(g *cx.G, cls [][]int) string {
		return guard(func() { graph.CanonicalIsomorphFull(g.Dense(), copyClasses(cls)) })
	}
	if panics(g, cls) == "" {
		t.Fatal("no panic on the input")
	}
	removeVertex := func(g *cx.G, cls [][]int, v int) (*cx.G, [][]int) {
		h := cx.New(g.N - 1)
		idx := func(u int) int {
			if u > v {
				return u - 1
			}
			return u
		}
		for i := 0; i < g.N; i++ {
			for j := 0; j < i; j++ {
				if g.Adj[i][j] && i != v && j != v {
					h.Add(idx(i), idx(j))
				}
			}
		}
		var c2 [][]int
		for _, c := range cls {
			var d []int
			for _, u := range c {
				if u != v {
					d = append(d, idx(u))
				}
			}
			if len(d) > 0 {
				c2 = append(c2, d)
			}
		}
		return h, c2
	}
	for changed := true; changed; {
		changed = false
		for v := 0; v < g.N && g.N > 2; v++ {
			h, c2 := removeVertex(g, cls, v)
			if msg := panics(h, c2); strings.Contains(msg, "slice bounds") {
				g, cls, changed = h, c2, true
				v--
			}
		}
		for i := 0; i < g.N; i++ {
			for j := 0; j < i; j++ {
				if g.Adj[i][j] {
					h := g.Copy()
					h.Del(i, j)
					if msg := panics(h, cls); strings.Contains(msg, "slice bounds") {
						g, changed = h, true
					}
				}
			}
		}
	}
	t.Logf("minimal: %s classes %s (n = %d, m = %d): %s", g.Graph6(), cx.ClassesString(cls), g.N, g.M(), panics(g, cls))
	for i := 0; i < g.N; i++ {
		var nb []int
		for j := 0; j < g.N; j++ {
			if g.Adj[i][j] {
				nb = append(nb, j)
			}
		}
		t.Logf("  %d: %v", i, nb)
	}
	_, _, _, _, status := portSearch(g.Adj, cls, 3000000)
	t.Logf("model (port): %s", status)
}
