package main

// Go transcription of the Gallina model coq/Canon/SearchModel.v (canon_search), definition by
// definition, on lists of bins instead of the arrays of graph/canonical.go.  It is NOT the
// model (the extracted OCaml is) and decides nothing by itself: the harness uses it
//   - to count the iterations of the main loop (so that cases which would exhaust the fuel of
//     the model driver are never generated), and
//   - as a trigger: when the implementation's exact output (permutation, raw orbit array,
//     generators) differs from the port's, the property-level oracles get an extra budget on
//     that graph.
// A disagreement between the port and the extracted model shows up as a disagreement of one of
// them with the implementation.

import (
	"fmt"
	"sort"
)

type pcell struct {
	age  int
	flag bool
	v    []int
}

type pstate struct {
	cells []pcell
	age   int
	value []int
	spl   int
}

type portPanic struct{ what string }

// experiment (tests only): Heuristic 2 compares only with the entries of the recorded path that belong to
// the recorded leaf (no stale entries of older leaves)
var exactGuard bool
var staleMatches int

// statistics of the last portSearch call (tests only)
var lastMinSlack int

// trace of cut-offs inside splitBin (tests only)
var traceSplit func(string)

// positions processed by the last expandValue that was cut off, beyond the first (tests only)
var lastCutDepth int

func ppanic(s string) { panic(portPanic{s}) }

func cloneCells(cs []pcell) []pcell {
	out := make([]pcell, len(cs))
	for i, c := range cs {
		out[i] = pcell{c.age, c.flag, append([]int(nil), c.v...)}
	}
	return out
}

func orderOf(cs []pcell) []int {
	var o []int
	for _, c := range cs {
		o = append(o, c.v...)
	}
	return o
}

func inCell(cs []pcell, v int) int {
	for i, c := range cs {
		for _, u := range c.v {
			if u == v {
				return i
			}
		}
	}
	return len(cs)
}

func cmpList(a, b []int) int {
	for i := 0; ; i++ {
		if i >= len(a) && i >= len(b) {
			return 0
		}
		if i >= len(a) {
			return -1
		}
		if i >= len(b) {
			return 1
		}
		if a[i] > b[i] {
			return 1
		}
		if a[i] < b[i] {
			return -1
		}
	}
}

func firstn(k int, a []int) []int {
	if k > len(a) {
		k = len(a)
	}
	return a[:k]
}

// copy_into dst src
func copyInto(dst, src []int) []int {
	out := append([]int(nil), dst...)
	copy(out, src)
	return out
}

type port struct {
	adj      [][]bool
	n, m     int
	steps    int
	cov      map[string]bool // which branches of the search this run went through (harness statistics)
	minSlack int             // least cap(currentBest) - len(op.value) at the capacity check of expandValue after a cut-off inside splitBin
	dirty    bool            // a cut-off inside splitBin has happened in the jLoop being executed
}

func (p *port) hit(s string) {
	if p.cov != nil {
		p.cov[s] = true
	}
}

func (p *port) entries(cs []pcell, j, u int) []int {
	var e []int
	for v := 0; v < p.n; v++ {
		if p.adj[u][v] {
			if k := inCell(cs, v); k < j {
				e = append(e, (j*(j-1))/2+k)
			}
		}
	}
	sort.Ints(e)
	return e
}

// expand_value: returns (status 0 ok / 1 worse, value, spl)
func (p *port) expandValue(cs []pcell, cb, fl, value []int, spl int) (int, []int, int) {
	order := orderOf(cs)
	value = append([]int(nil), value...)
	for j := spl; j < p.n; j++ {
		if j >= len(cs) {
			ppanic("binDividers[j]")
		}
		if len(cs[j].v) != 1 {
			return 0, value, j
		}
		if j >= len(order) {
			ppanic("order[j]")
		}
		u := order[j]
		value = append(value, p.entries(cs, j, u)...)
		if len(cb) > 0 {
			if p.m < len(value) {
				ppanic("currentBest[:len(value)]")
			}
			if sl := p.m - len(value); p.dirty && sl < p.minSlack {
				p.minSlack = sl
			}
			if cmpList(value, firstn(len(value), cb)) == -1 && cmpList(value, firstn(len(value), fl)) != 0 {
				lastCutDepth = j - spl
				return 1, value, j + 1 // commit a4bdb37: singletonPrefixLength = j + 1
			}
		}
	}
	return 0, value, p.n
}

func (p *port) splitBin(cb, fl []int, ps pstate, i int) (bool, pstate) {
	age := ps.age + 1
	b := 0
	off := i
	for b < len(ps.cells) && off >= len(ps.cells[b].v) {
		off -= len(ps.cells[b].v)
		b++
	}
	if b >= len(ps.cells) {
		ppanic("position outside every bin")
	}
	c := ps.cells[b]
	x := c.v[off]
	rest := append(append([]int(nil), c.v[:off]...), c.v[off+1:]...)
	cs := append([]pcell(nil), ps.cells[:b]...)
	cs = append(cs, pcell{age, true, []int{x}}, pcell{c.age, true, rest})
	cs = append(cs, ps.cells[b+1:]...)
	if b == ps.spl {
		st, v, s := p.expandValue(cs, cb, fl, ps.value, ps.spl)
		if st == 1 {
			if traceSplit != nil {
				traceSplit(fmt.Sprintf("cut-off in splitBin: bin %d of size %d, element %d, value before %v after %v (m=%d), cut %d positions later, best %v", b, len(c.v), x, ps.value, v, p.m, lastCutDepth, cb))
			}
			p.hit("cutoff-in-splitBin")
			if lastCutDepth > 0 {
				p.hit("late-cutoff-in-splitBin")
			}
			return true, pstate{cs, age, v, s}
		}
		return false, pstate{cs, age, v, s}
	}
	return false, pstate{cs, age, ps.value, ps.spl}
}

func stripGe(maxPos int, v []int) []int {
	k := len(v) - 1
	for ; k >= 0; k-- {
		if v[k] < maxPos {
			break
		}
	}
	return v[:k+1]
}

func (p *port) deage(ps pstate) pstate {
	var out []pcell
	var pend []int
	havePend := false
	spl, value := ps.spl, ps.value
	for _, c := range ps.cells {
		if c.age == ps.age {
			pend = append(pend, c.v...)
			havePend = true
			continue
		}
		if !havePend {
			out = append(out, pcell{c.age, false, c.v})
			continue
		}
		j := len(out)
		if j < spl {
			spl = j
			value = stripGe(((j-1)*j)/2, value)
		}
		merged := append(append([]int(nil), pend...), c.v...)
		sort.Ints(merged)
		out = append(out, pcell{c.age, false, merged})
		pend, havePend = nil, false
	}
	if havePend && len(pend) > 0 {
		ppanic("deage dropped the last divider")
	}
	return pstate{out, ps.age - 1, value, spl}
}

func (p *port) cnt(w []int, v int) int {
	k := 0
	for _, u := range w {
		if p.adj[u][v] {
			k++
		}
	}
	return k
}

// split_acell: nil when the bin is uniform
func (p *port) fragments(w []int, age int, c pcell) []pcell {
	if len(c.v) == 0 {
		return nil
	}
	uniform := true
	c0 := p.cnt(w, c.v[0])
	for _, v := range c.v[1:] {
		if p.cnt(w, v) != c0 {
			uniform = false
		}
	}
	if uniform {
		return nil
	}
	var frs []pcell
	for k := 0; k <= len(w); k++ {
		var f []int
		for _, v := range c.v {
			if p.cnt(w, v) == k {
				f = append(f, v)
			}
		}
		if len(f) > 0 {
			frs = append(frs, pcell{age, true, f})
		}
	}
	frs[len(frs)-1].age = c.age
	return frs
}

// refine_s: (worse, state)
func (p *port) refine(cb, fl []int, ps pstate) (bool, pstate) {
	for {
		i := -1
		for k := len(ps.cells) - 1; k >= 0; k-- {
			if ps.cells[k].flag {
				i = k
				break
			}
		}
		if i < 0 {
			return false, ps
		}
		cs := cloneCells(ps.cells)
		cs[i].flag = false
		w := cs[i].v
		// round_loop
		var post []pcell
		value, spl := ps.value, ps.spl
		for j := len(cs) - 1; j >= 0; j-- {
			frs := p.fragments(w, ps.age, cs[j])
			if frs == nil {
				post = append([]pcell{cs[j]}, post...)
				continue
			}
			post = append(frs, post...)
			if j == spl {
				all := append(append([]pcell(nil), cs[:j]...), post...)
				st, v, s := p.expandValue(all, cb, fl, value, spl)
				if st == 1 {
					p.hit("cutoff-in-refinement")
					return true, pstate{all, ps.age, v, s}
				}
				value, spl = v, s
			}
		}
		ps = pstate{post, ps.age, value, spl}
	}
}

// ---- union-find (disjoint.Set) with path compression, as in Disjoint/Model.v
func dsFind(ds []int, x int) int {
	if x < 0 || x >= len(ds) {
		ppanic("find index")
	}
	seen := []int{x}
	cur := x
	for ds[cur] >= 0 {
		cur = ds[cur]
		seen = append(seen, cur)
		if len(seen) > len(ds)+1 {
			ppanic("find cycle")
		}
	}
	for i := 0; i < len(seen)-2; i++ {
		ds[seen[i]] = cur
	}
	return cur
}

func dsUnion(ds []int, x, y int) {
	px := dsFind(ds, x)
	py := dsFind(ds, y)
	if px == py {
		return
	}
	if ds[px] < ds[py] {
		ds[py] = px
	} else if ds[py] < ds[px] {
		ds[px] = py
	} else {
		ds[px] = py
		ds[py]--
	}
}

func orbLoop(n int, gam []int, ds []int) bool {
	merged := false
	for i := 0; i < n; i++ {
		t := gam[i]
		if dsFind(ds, t) != dsFind(ds, i) {
			dsUnion(ds, i, t)
			merged = true
		}
	}
	return merged
}

func hasEarlierMate(ds []int, earlier []int, v int) bool {
	r := dsFind(ds, v)
	for _, u := range earlier {
		if dsFind(ds, u) == r {
			return true
		}
	}
	return false
}

func hasPrefix(s, p []int) bool {
	if len(p) > len(s) {
		return false
	}
	for i := range p {
		if s[i] != p[i] {
			return false
		}
	}
	return true
}

type sstate struct {
	ps                        pstate
	path, choices             []int
	count                     int
	cb, cbPath, cbPerm, cbInv []int
	cbOrb                     []int
	fl, flPath, flInv         []int
	flOrb                     []int
	gens                      [][]int
	skip                      bool
	cbLen, flLen              int // lengths of the paths of the recorded leaves (experiment)
}

func newDS(n int) []int {
	d := make([]int, n)
	for i := range d {
		d[i] = -1
	}
	return d
}

func (p *port) gammaOf(order, inv []int) []int {
	g := make([]int, p.n)
	for i := 0; i < p.n; i++ {
		if i >= len(inv) || inv[i] < 0 || inv[i] >= len(order) {
			ppanic("gamma")
		}
		g[i] = order[inv[i]]
	}
	return g
}

func (p *port) recordGen(st *sstate, gam []int) {
	if orbLoop(p.n, gam, st.flOrb) {
		if p.n-1 < len(st.gens)+1 {
			ppanic("generators cap")
		}
		st.gens = append(st.gens, gam)
	}
}

func (p *port) backJump(st *sstate, bp []int) {
	keep := len(st.path)
	for i := 0; i < len(st.path)-1; i++ {
		if i >= len(bp) {
			ppanic("path index")
		}
		if st.path[i] != bp[i] {
			keep = i + 1
			break
		}
	}
	if keep < len(st.path) {
		p.hit("backjump")
	}
	for k := len(st.path) - keep; k > 0; k-- {
		st.ps = p.deage(st.ps)
	}
	st.path = st.path[:keep]
	st.choices = st.choices[:keep]
}

func (p *port) leafStep(st *sstate) {
	ps := st.ps
	order := orderOf(ps.cells)
	st.count++
	switch cmpList(ps.value, st.cb) {
	case 1:
		if st.count > 1 {
			p.hit("better-leaf")
		}
		cb := append([]int(nil), st.cb...)
		for len(cb) < p.m {
			cb = append(cb, 0)
		}
		st.cb = copyInto(cb[:p.m], ps.value)
		st.cbPath = copyInto(st.cbPath, st.path)
		st.cbLen = len(st.path)
		st.cbPerm = copyInto(st.cbPerm, order)
		inv := append([]int(nil), st.cbInv...)
		for i, v := range order {
			if v >= len(inv) {
				ppanic("cbPermInv index")
			}
			inv[v] = i
		}
		st.cbInv = inv
		st.cbOrb = newDS(p.n)
		if st.count == 1 {
			st.fl = copyInto(st.fl, ps.value)
			st.flPath = copyInto(st.flPath, st.path)
			st.flLen = len(st.path)
			st.flInv = copyInto(st.flInv, st.cbInv)
			st.flOrb = copyInto(st.flOrb, st.cbOrb)
		}
	case 0:
		p.hit("leaf=best")
		gam := p.gammaOf(order, st.cbInv)
		orbLoop(p.n, gam, st.cbOrb)
		p.recordGen(st, gam)
		p.backJump(st, st.cbPath)
	default:
		if cmpList(ps.value, st.fl) == 0 {
			p.hit("leaf=first<best")
			gam := p.gammaOf(order, st.flInv)
			p.recordGen(st, gam)
			p.backJump(st, st.flPath)
		}
	}
}

func (p *port) pushStep(st *sstate) {
	start := 0
	for _, c := range st.ps.cells {
		if len(c.v) > 1 {
			st.path = append(append([]int(nil), st.path...), len(c.v))
			st.choices = append(append([]int(nil), st.choices...), start+len(c.v))
			st.skip = true
			return
		}
		start += len(c.v)
	}
}

func (p *port) undo(st *sstate) {
	if st.skip {
		st.skip = false
	} else {
		st.ps = p.deage(st.ps)
	}
}

func (p *port) h2(count int, lpath, path []int, ds []int, order []int, pos, j, v int, llen int) bool {
	if count > 0 && hasPrefix(lpath, path[:len(path)-1]) {
		if len(path)-1 > llen {
			staleMatches++
			if exactGuard {
				return false
			}
		}
		if pos < j {
			ppanic("order[pos-j:pos]")
		}
		return hasEarlierMate(ds, order[pos-j:pos], v)
	}
	return false
}

// jloop: true when a step succeeded
func (p *port) jloop(top int, st *sstate) bool {
	for j := top - 1; j >= 0; j-- {
		p.undo(st)
		if len(st.choices) == 0 {
			ppanic("choices empty")
		}
		if st.choices[len(st.choices)-1] == 0 {
			ppanic("order[-1]")
		}
		st.choices = append([]int(nil), st.choices...)
		st.choices[len(st.choices)-1]--
		pos := st.choices[len(st.choices)-1]
		order := orderOf(st.ps.cells)
		if pos >= len(order) {
			ppanic("order[pos]")
		}
		v := order[pos]
		if p.h2(st.count, st.flPath, st.path, st.flOrb, order, pos, j, v, st.flLen) {
			p.hit("h2-first")
			st.skip = true
			continue
		}
		if p.h2(st.count, st.cbPath, st.path, st.cbOrb, order, pos, j, v, st.cbLen) {
			p.hit("h2-best")
			st.skip = true
			continue
		}
		worse, ps := p.splitBin(st.cb, st.fl, st.ps, pos)
		st.ps = ps
		st.path = append([]int(nil), st.path...)
		st.path[len(st.path)-1] = j
		if worse {
			if j > 0 {
				p.hit("sibling-after-cutoff")
				if lastCutDepth > 0 && !p.dirty {
					p.hit("sibling-after-late-cutoff")
				}
			}
			p.dirty = true
			continue
		}
		p.dirty = false
		return true
	}
	p.dirty = false
	return false
}

// (perm, orbits, gens, status): status "ok", "panic:<what>", "fuel"
func portSearch(adj [][]bool, cls [][]int, fuel int) (perm []int, orb []int, gens [][]int, steps int, status string) {
	return portSearchCov(adj, cls, fuel, nil)
}

func portSearchCov(adj [][]bool, cls [][]int, fuel int, cov map[string]bool) (perm []int, orb []int, gens [][]int, steps int, status string) {
	defer func() {
		if e := recover(); e != nil {
			if pp, ok := e.(portPanic); ok {
				status = "panic:" + pp.what
				return
			}
			panic(e)
		}
	}()
	n := len(adj)
	m := 0
	for j := 0; j < n; j++ {
		for i := 0; i < j; i++ {
			if adj[i][j] {
				m++
			}
		}
	}
	if n == 0 {
		return []int{}, nil, nil, 0, "ok"
	}
	var cells []pcell
	if cls == nil {
		all := make([]int, n)
		for i := range all {
			all[i] = i
		}
		cells = []pcell{{0, true, all}}
	} else {
		for _, c := range cls {
			s := append([]int(nil), c...)
			sort.Ints(s)
			cells = append(cells, pcell{0, true, s})
		}
	}
	if m == 0 {
		perm = orderOf(cells)
		orb = newDS(n)
		for _, c := range cells {
			bin := c.v
			if len(bin) == 0 {
				continue
			}
			if len(bin) == 1 {
				orb[bin[0]] = -1
				continue
			}
			orb[bin[0]] = -2
			for _, v := range bin[1:] {
				orb[v] = bin[0]
			}
			ng := 1
			if len(bin) > 2 {
				ng = 2
			}
			for i := 0; i < ng; i++ {
				t := make([]int, n)
				for j := range t {
					t[j] = j
				}
				if i == 0 {
					for j := range bin {
						t[bin[j]] = bin[(j+1)%len(bin)]
					}
				} else {
					t[bin[0]] = bin[1]
					t[bin[1]] = bin[0]
				}
				gens = append(gens, t)
			}
		}
		return perm, orb, gens, 0, "ok"
	}
	p := &port{adj: adj, n: n, m: m, cov: cov, minSlack: m}
	defer func() { lastMinSlack = p.minSlack }()
	zeros := func(k int) []int { return make([]int, k) }
	fl0 := zeros(m)
	_, v, s := p.expandValue(cells, nil, fl0, nil, 0)
	worse, ps := p.refine(nil, fl0, pstate{cells, 0, v, s})
	st := &sstate{ps: ps, cbPath: zeros(n), cbPerm: zeros(n), cbInv: zeros(n), cbOrb: newDS(n),
		fl: fl0, flPath: zeros(n), flInv: zeros(n), flOrb: newDS(n)}
	for {
		if p.steps >= fuel {
			return nil, nil, nil, p.steps, "fuel"
		}
		p.steps++
		if !worse {
			if len(st.ps.cells) == n {
				p.leafStep(st)
			} else {
				p.pushStep(st)
			}
		}
		stepped := false
		for {
			if len(st.path) == 0 {
				return st.cbPerm, st.flOrb, st.gens, p.steps, "ok"
			}
			if p.jloop(st.path[len(st.path)-1], st) {
				stepped = true
				break
			}
			p.undo(st)
			st.path = st.path[:len(st.path)-1]
			st.choices = st.choices[:len(st.choices)-1]
		}
		if !stepped {
			break
		}
		worse, st.ps = p.refine(st.cb, st.fl, st.ps)
	}
	return nil, nil, nil, p.steps, "unreachable"
}
