package main

import (
	"os"
	"strconv"
	"testing"

	cx "verifharness/cmd/c01/canonx"
	"verifharness/hx"
)

// least slack after a cut-off inside splitBin on regular, structured and perturbed graphs up to 16 vertices
func TestHunt6(t *testing.T) {
	cnt, _ := strconv.Atoi(os.Getenv("HUNT6"))
	if cnt == 0 {
		t.Skip("set HUNT6=<count>")
	}
	r := hx.NewRng(uint64(cnt) + 99)
	str := cx.Structured(16)
	best := 1000
	events := 0
	for it := 0; it < cnt; it++ {
		var g *cx.G
		switch r.Intn(4) {
		case 0:
			g = cx.RandomRegularSwitch(r, r.Range(8, 16), r.Range(3, 6))
		case 1:
			g = cx.Perturb(r, str[r.Intn(len(str))].G, 1+r.Intn(3))
		case 2:
			g = cx.Perturb(r, cx.Copies(2, cx.RandomRegularSwitch(r, r.Range(4, 8), 3)), r.Intn(3))
		default:
			c := cx.Circulant(r.Range(8, 16), 1, 2+r.Intn(3))
			g = cx.Perturb(r, c, r.Intn(3))
		}
		if g.N < 5 {
			continue
		}
		g = g.Relabel(r.Perm(g.N))
		var cls [][]int
		if r.Intn(4) == 0 {
			cls = randClasses(r, g.N, r.Range(1, 3))
		}
		cov := map[string]bool{}
		_, _, _, _, status := portSearchCov(g.Adj, cls, 2000000, cov)
		if status != "ok" {
			t.Fatalf("port %s on %s classes %s", status, g.Graph6(), cx.ClassesString(cls))
		}
		if cov["sibling-after-cutoff"] {
			events++
			if lastMinSlack < best {
				best = lastMinSlack
				t.Logf("slack %d: %s classes %s (n = %d, m = %d)", best, g.Graph6(), cx.ClassesString(cls), g.N, g.M())
			}
		}
	}
	t.Logf("%d runs with a sibling after a cut-off", events)
}
