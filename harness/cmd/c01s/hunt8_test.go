package main

import (
	"os"
	"strconv"
	"testing"

	"github.com/Tom-Johnston/mamba/graph"
	cx "verifharness/cmd/c01/canonx"
	"verifharness/hx"
)

// local search minimising the slack cap(currentBest) - len(op.value) after a cut-off inside splitBin
func TestHunt8(t *testing.T) {
	cnt, _ := strconv.Atoi(os.Getenv("HUNT8"))
	if cnt == 0 {
		t.Skip("set HUNT8=<restarts>")
	}
	r := hx.NewRng(uint64(cnt) + 4321)
	slackOf := func(g *cx.G, cls [][]int) (int, string) {
		cov := map[string]bool{}
		_, _, _, _, status := portSearchCov(g.Adj, cls, 3000000, cov)
		if status != "ok" {
			return -1000, status
		}
		if !cov["sibling-after-cutoff"] {
			return 1000, status
		}
		return lastMinSlack, status
	}
	best := 1000
	for it := 0; it < cnt; it++ {
		n := r.Range(7, 13)
		g := cx.RandomGnp(r, n, r.Range(2, 6), 10)
		if r.Bool() {
			g = cx.RandomRegularSwitch(r, n, 3)
		}
		var cls [][]int
		if r.Intn(3) == 0 {
			cls = randClasses(r, n, r.Range(1, 3))
		}
		cur, _ := slackOf(g, cls)
		for step := 0; step < 400; step++ {
			h := cx.Perturb(r, g, 1)
			if r.Intn(4) == 0 {
				h = h.Relabel(r.Perm(n))
			}
			s, status := slackOf(h, cls)
			if s == -1000 {
				msg := guard(func() { graph.CanonicalIsomorphFull(h.Dense(), copyClasses(cls)) })
				t.Logf("port %s, implementation %q on %s classes %s (n = %d, m = %d)", status, msg, h.Graph6(), cx.ClassesString(cls), h.N, h.M())
				if status != "fuel" {
					t.FailNow()
				}
				continue
			}
			if s <= cur {
				g, cur = h, s
			}
			if cur < best {
				best = cur
				t.Logf("slack %d: %s classes %s (n = %d, m = %d)", best, g.Graph6(), cx.ClassesString(cls), g.N, g.M())
			}
		}
	}
}
