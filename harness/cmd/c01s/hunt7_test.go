package main

import (
	"os"
	"strconv"
	"testing"

	"github.com/Tom-Johnston/mamba/graph"
	cx "verifharness/cmd/c01/canonx"
	"verifharness/hx"
)

// cubic and 4-regular graphs, unions of two regular graphs, perturbed: least slack / overflow of op.value
func TestHunt7(t *testing.T) {
	cnt, _ := strconv.Atoi(os.Getenv("HUNT7"))
	if cnt == 0 {
		t.Skip("set HUNT7=<count>")
	}
	r := hx.NewRng(uint64(cnt) + 1234)
	best := 1000
	for it := 0; it < cnt; it++ {
		var g *cx.G
		switch r.Intn(3) {
		case 0:
			g = cx.RandomRegularSwitch(r, 2*r.Range(4, 10), 3)
		case 1:
			g = cx.RandomRegularSwitch(r, r.Range(8, 18), 4)
		default:
			g = cx.Perturb(r, cx.Copies(2, cx.RandomRegularSwitch(r, 2*r.Range(2, 5), 3)), r.Intn(3))
		}
		if r.Intn(3) == 0 {
			g = cx.Perturb(r, g, 1)
		}
		g = g.Relabel(r.Perm(g.N))
		cov := map[string]bool{}
		_, _, _, _, status := portSearchCov(g.Adj, nil, 3000000, cov)
		if status != "ok" {
			msg := guard(func() { graph.CanonicalIsomorphFull(g.Dense(), nil) })
			t.Logf("port %s, implementation %q on %s (n = %d, m = %d)", status, msg, g.Graph6(), g.N, g.M())
			if status != "fuel" {
				t.FailNow()
			}
			continue
		}
		if cov["sibling-after-cutoff"] && lastMinSlack < best {
			best = lastMinSlack
			t.Logf("slack %d: %s (n = %d, m = %d)", best, g.Graph6(), g.N, g.M())
		}
	}
}
