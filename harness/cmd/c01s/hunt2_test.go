package main

import (
	"os"
	"strconv"
	"testing"

	"github.com/Tom-Johnston/mamba/graph"
	cx "verifharness/cmd/c01/canonx"
)

// exhaustive: all labelled graphs on N vertices x vertex classes with singletons in front
func TestHunt2(t *testing.T) {
	n, _ := strconv.Atoi(os.Getenv("HUNTN"))
	if n == 0 {
		t.Skip("set HUNTN=<n>")
	}
	var patterns [][][]int
	for k := 1; k <= n-2; k++ {
		var cls [][]int
		for i := 0; i < k; i++ {
			cls = append(cls, []int{i})
		}
		var rest []int
		for i := k; i < n; i++ {
			rest = append(rest, i)
		}
		patterns = append(patterns, append(append([][]int(nil), cls...), rest))
		for s := 1; s < len(rest); s++ {
			patterns = append(patterns, append(append([][]int(nil), cls...), rest[:s], rest[s:]))
		}
	}
	bad := 0
	e := n * (n - 1) / 2
	for mask := 0; mask < 1<<uint(e) && bad < 5; mask++ {
		g := labelled(n, mask)
		d := g.Dense()
		for _, cls := range patterns {
			msg := guard(func() { graph.CanonicalIsomorphFull(d, copyClasses(cls)) })
			if msg != "" {
				t.Logf("impl panics (%s) on %s classes %s", msg, g.Graph6(), cx.ClassesString(cls))
				bad++
			}
		}
	}
	if bad > 0 {
		t.Fail()
	}
}
