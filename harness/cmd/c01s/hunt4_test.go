package main

import (
	"os"
	"strconv"
	"testing"

	cx "verifharness/cmd/c01/canonx"
	"verifharness/hx"
)

// does Heuristic 2 ever match path entries of the recorded paths that are left over from older leaves?
func TestHunt4(t *testing.T) {
	cnt, _ := strconv.Atoi(os.Getenv("HUNT4"))
	if cnt == 0 {
		t.Skip("set HUNT4=<count>")
	}
	r := hx.NewRng(uint64(cnt) + 5)
	diff := 0
	for it := 0; it < cnt; it++ {
		n := r.Range(6, 12)
		var g *cx.G
		switch r.Intn(4) {
		case 0:
			g = cx.RandomRegularSwitch(r, n, r.Range(2, 5))
		case 1:
			g = cx.Perturb(r, cx.Copies(2, cx.RandomGnp(r, r.Range(3, 6), 1, 2)), r.Intn(3))
		case 2:
			g = cx.RandomTree(r, n)
		default:
			g = cx.RandomGnp(r, n, r.Range(2, 8), 10)
		}
		g = g.Relabel(r.Perm(g.N))
		exactGuard = false
		before := staleMatches
		p1, o1, g1, _, s1 := portSearch(g.Adj, nil, 1000000)
		if staleMatches == before {
			continue
		}
		exactGuard = true
		p2, o2, g2, _, s2 := portSearch(g.Adj, nil, 1000000)
		exactGuard = false
		if s1 != s2 || (result{p1, o1, g1}).strict() != (result{p2, o2, g2}).strict() {
			diff++
			if diff <= 5 {
				t.Logf("stale path entries matter on %s: %s vs %s", g.Graph6(), (result{p1, o1, g1}).strict(), (result{p2, o2, g2}).strict())
			}
		}
	}
	t.Logf("runs with a match on stale path entries: %d, of which the result changes without them: %d", staleMatches, diff)
}
