// Command c01s is the correspondence stream "search" of properties C01/C02: it runs
// graph.CanonicalIsomorphFull (the pruned depth-first search of CanonicalIsomorphAllocated with
// fresh storage) and prints its EXACT results, to be compared with the extracted Gallina model
// canon_search of coq/Canon/SearchModel.v.
//
// Case syntax (one line):   s:<family>;<graph6>;<classes>       classes: "-" (nil) or "0,3|1|2,4"
//
// Observation:   cg=<graph6 of the graph relabelled by the returned permutation> orb=<least
// member of the returned orbit of every vertex>  ##  perm=<p> ds=<raw union-find array>
// gens=<g>/<g>/...
// The projected part is what C01/C02 determine (canonical graph, orbit partition); the returned
// permutation, the raw array and the generators (a choice the properties leave open, but fully
// determined by the code as written) are the strict part: agreement there is the evidence that
// the model is the code.
//
// Oracles on every case (property level, independent of the model): the result is a
// permutation; every generator is a class-preserving automorphism; the returned array is a
// forest whose classes are the orbits of the generators and the orbits of Aut(g, classes)
// found by an independent search; the generators generate a group of order |Aut|; dense and
// sparse representation agree; relabelled copies (classes relabelled too) get the same
// canonical graph.  When the exact output differs from the one of the Go transcription of the
// model (port.go), i.e. when the strict part is going to differ, the relabelling oracle gets an
// extra budget on that graph (all n! relabellings for n <= 8, else 3000 random ones); if the
// canonical graph itself differs and the oracles find nothing the case is reported "skipped"
// (a change of the canonical choice that keeps the invariance is not a violation).
package main

import (
	"fmt"
	"strings"
	"time"

	"github.com/Tom-Johnston/mamba/graph"
	cx "verifharness/cmd/c01/canonx"
	"verifharness/hx"
)

// the model driver runs the main loop with fuel 3,000,000; cases needing more than this many
// iterations in the port are not generated
const maxSteps = 400000

func bucket(n int) string {
	switch {
	case n <= 4:
		return "n<=4"
	case n <= 6:
		return "n=5..6"
	case n <= 8:
		return "n=7..8"
	case n <= 10:
		return "n=9..10"
	case n <= 12:
		return "n=11..12"
	}
	return "n=13..16"
}

func guard(f func()) (msg string) {
	defer func() {
		if e := recover(); e != nil {
			msg = fmt.Sprint(e)
			if msg == "" {
				msg = "panic"
			}
		}
	}()
	f()
	return ""
}

func copyClasses(cls [][]int) [][]int {
	if cls == nil {
		return nil
	}
	c2 := make([][]int, len(cls))
	for i := range cls {
		c2[i] = append([]int(nil), cls[i]...)
	}
	return c2
}

func validClasses(n int, cls [][]int) bool {
	if cls == nil {
		return true
	}
	seen := make([]bool, n)
	cnt := 0
	for _, c := range cls {
		if len(c) == 0 {
			return false
		}
		for _, v := range c {
			if v < 0 || v >= n || seen[v] {
				return false
			}
			seen[v] = true
			cnt++
		}
	}
	return cnt == n
}

func gensString(gens [][]int) string {
	s := make([]string, len(gens))
	for i, g := range gens {
		s[i] = cx.PermString(g)
	}
	return strings.Join(s, "/")
}

type result struct {
	perm []int
	ds   []int
	gens [][]int
}

func (r result) strict() string {
	return "perm=" + cx.PermString(r.perm) + " ds=" + cx.PermString(r.ds) + " gens=" + gensString(r.gens)
}

func runImpl(h graph.Graph, cls [][]int) (r result, msg string) {
	msg = guard(func() {
		p, ds, gens := graph.CanonicalIsomorphFull(h, copyClasses(cls))
		r.perm = append([]int(nil), p...)
		r.ds = append([]int(nil), []int(ds)...)
		for _, g := range gens {
			r.gens = append(r.gens, append([]int(nil), g...))
		}
	})
	return
}

func exec(line string) hx.Result {
	f := strings.SplitN(line, ";", 3)
	if len(f) != 3 {
		return hx.Result{Obs: "badcase"}
	}
	fam := ""
	if i := strings.Index(f[0], ":"); i >= 0 {
		fam = f[0][i+1:]
	}
	g6 := f[1]
	g, err := cx.FromGraph6(g6)
	if err != nil {
		return hx.Result{Obs: "badcase"}
	}
	cls, err := cx.ParseClasses(f[2])
	if err != nil || !validClasses(g.N, cls) {
		return hx.Result{Obs: "badcase"}
	}
	n := g.N
	var viol []hx.OracleViolation
	failed := map[string]bool{}
	fail := func(kind, format string, a ...interface{}) {
		if failed[kind] || len(viol) >= 4 {
			return
		}
		failed[kind] = true
		viol = append(viol, hx.Fail("C01S:"+kind+":"+g6+";"+f[2], format, a...))
	}
	b := []string{bucket(n), "family:" + fam}
	if cls != nil {
		b = append(b, "classes")
	} else {
		b = append(b, "noclasses")
	}
	desc := g6 + " classes " + f[2]

	rd, msg := runImpl(g.Dense(), cls)
	if msg != "" {
		fail("panic", "CanonicalIsomorphFull(%s) panicked: %s", desc, msg)
		return hx.Result{Obs: "panic", Buckets: append(b, "outcome:panic"), Viol: viol}
	}
	if rs, msg := runImpl(g.Sparse(), cls); msg != "" {
		fail("panic", "CanonicalIsomorphFull(sparse %s) panicked: %s", desc, msg)
	} else if rs.strict() != rd.strict() {
		fail("representation", "CanonicalIsomorphFull(%s): dense %s, sparse %s", desc, rd.strict(), rs.strict())
	}
	// ---- property-level oracles on the result
	clsOf := cx.ClassOf(n, cls)
	if !cx.IsPerm(rd.perm, n) {
		fail("notperm", "CanonicalIsomorphFull(%s) returned %v, not a permutation of 0..%d", desc, rd.perm, n-1)
		return hx.Result{Obs: "notperm ## " + rd.strict(), Buckets: b, Viol: viol}
	}
	cg := g.RelabelledGraph6(rd.perm)
	for _, gen := range rd.gens {
		if !cx.IsPerm(gen, n) || !g.IsAut(gen, clsOf) {
			fail("notaut", "CanonicalIsomorphFull(%s) returned the generator %v, which is not a class-preserving automorphism", desc, gen)
		}
	}
	orbStr := "notforest"
	var autOrder uint64 = 1
	if n > 0 {
		lab, ok := cx.LabelsOfUnionFind(rd.ds)
		if !ok || len(rd.ds) != n {
			fail("notforest", "CanonicalIsomorphFull(%s) returned the orbit array %v, which is not a union-find forest on %d vertices", desc, rd.ds, n)
		} else {
			orbStr = cx.PermString(lab)
			if !failed["notaut"] {
				if og := cx.PermString(cx.OrbitsOf(n, rd.gens)); og != orbStr {
					fail("orbits-gens", "CanonicalIsomorphFull(%s): returned orbits %s, orbits of the returned generators %s", desc, orbStr, og)
				}
				trueOrb, order := g.AutGroup(clsOf)
				autOrder = order
				if to := cx.PermString(trueOrb); to != orbStr {
					fail("orbits", "CanonicalIsomorphFull(%s): returned orbits %s, orbits of the automorphism group %s", desc, orbStr, to)
				}
				if go_ := cx.GroupOrder(n, rd.gens); go_ != order {
					fail("grouporder", "CanonicalIsomorphFull(%s): the returned generators generate a group of order %d, |Aut| = %d", desc, go_, order)
				}
			}
		}
	} else {
		orbStr = ""
	}
	// ---- the transcription of the model: trigger for the extra budget
	cov := map[string]bool{}
	pp, po, pg, steps, status := portSearchCov(g.Adj, cls, 4*maxSteps, cov)
	for k := range cov {
		b = append(b, "branch:"+k)
	}
	differs := status != "ok" || (result{pp, po, pg}).strict() != rd.strict()
	sameCg := status == "ok" && cx.IsPerm(pp, n) && g.RelabelledGraph6(pp) == cg
	if differs {
		b = append(b, "differs-from-port")
	}
	// ---- relabelled copies
	var seed uint64 = 1469598103934665603
	for i := 0; i < len(line); i++ {
		seed = (seed ^ uint64(line[i])) * 1099511628211
	}
	r := hx.NewRng(seed)
	check := func(p []int, k int) {
		h := g.Relabel(p)
		c2 := cx.RelabelClasses(cls, p, k%3)
		var rr result
		var m string
		if k%2 == 0 {
			rr, m = runImpl(h.Dense(), c2)
		} else {
			rr, m = runImpl(h.Sparse(), c2)
		}
		if m != "" {
			fail("panic", "CanonicalIsomorphFull of %s relabelled by %v panicked: %s", desc, p, m)
			return
		}
		if !cx.IsPerm(rr.perm, n) {
			fail("notperm", "CanonicalIsomorphFull of %s relabelled by %v returned %v, not a permutation", desc, p, rr.perm)
			return
		}
		if k := h.RelabelledGraph6(rr.perm); k != cg {
			fail("noninvariant", "canonical graph of %s is %s but the copy relabelled by %v (classes %s) has canonical graph %s", desc, cg, p, cx.ClassesString(c2), k)
		}
	}
	if n >= 2 {
		switch {
		case differs && n <= 8:
			p := cx.Identity(n)
			k := 0
			for {
				check(p, k)
				k++
				if !cx.NextPerm(p) {
					break
				}
			}
		case differs:
			for k := 0; k < 3000; k++ {
				check(r.Perm(n), k)
			}
		default:
			for k := 0; k < 3; k++ {
				check(r.Perm(n), k)
			}
		}
	}
	obs := "cg=" + cg + " orb=" + orbStr + " ## " + rd.strict()
	if !sameCg && len(viol) == 0 {
		obs = "skipped ## canonical graph " + cg + " differs from the one of the transcription of the model (" + status + "); the relabelling oracle found nothing"
		b = append(b, "escalated")
	}
	b = append(b, fmt.Sprintf("gens=%d", len(rd.gens)))
	switch {
	case steps <= 1:
		b = append(b, "treenodes<=1")
	case steps <= 10:
		b = append(b, "treenodes=2..10")
	case steps <= 100:
		b = append(b, "treenodes=11..100")
	default:
		b = append(b, "treenodes>100")
	}
	return hx.Result{Obs: obs, Nontrivial: autOrder > 1, Buckets: b, Viol: viol}
}

// ---------------------------------------------------------------- generator

func orderedPartitions(n int) [][][]int {
	var out [][][]int
	var rec func(v int, cur [][]int)
	rec = func(v int, cur [][]int) {
		if v == n {
			// every ordering of the blocks
			k := len(cur)
			p := cx.Identity(k)
			for {
				o := make([][]int, k)
				for i := range o {
					o[i] = append([]int(nil), cur[p[i]]...)
				}
				out = append(out, o)
				if !cx.NextPerm(p) {
					break
				}
			}
			return
		}
		for i := range cur {
			cur[i] = append(cur[i], v)
			rec(v+1, cur)
			cur[i] = cur[i][:len(cur[i])-1]
		}
		rec(v+1, append(cur, []int{v}))
	}
	if n == 0 {
		return [][][]int{{}}
	}
	rec(0, nil)
	return out
}

func labelled(n, mask int) *cx.G {
	gr := cx.New(n)
	k := 0
	for j := 1; j < n; j++ {
		for i := 0; i < j; i++ {
			if mask>>uint(k)&1 == 1 {
				gr.Add(i, j)
			}
			k++
		}
	}
	return gr
}

// random ordered partition of 0..n-1 into k non-empty classes, members in random order
func randClasses(r *hx.Rng, n, k int) [][]int {
	if k > n {
		k = n
	}
	if k < 1 {
		k = 1
	}
	p := r.Perm(n)
	cls := make([][]int, k)
	for i := 0; i < k; i++ {
		cls[i] = []int{p[i]}
	}
	for _, v := range p[k:] {
		c := r.Intn(k)
		cls[c] = append(cls[c], v)
	}
	return cls
}

func gen(g *hx.Gen) {
	skipped := 0
	emit := func(fam string, gr *cx.G, cls [][]int) {
		if gr.N > 0 {
			if _, _, _, _, status := portSearch(gr.Adj, cls, maxSteps); status == "fuel" {
				skipped++
				return
			}
		}
		g.Emit("s:" + fam + ";" + gr.Graph6() + ";" + cx.ClassesString(cls))
	}
	relab := func(gr *cx.G) *cx.G { return gr.Relabel(g.Rng.Perm(gr.N)) }
	// with random classes: few big ones, or many, or one singleton in front
	someClasses := func(n int) [][]int {
		switch g.Rng.Intn(4) {
		case 0:
			return randClasses(g.Rng, n, 2)
		case 1:
			return randClasses(g.Rng, n, 1+g.Rng.Intn(n))
		case 2:
			c := randClasses(g.Rng, n, 2)
			if len(c) == 2 && len(c[0]) > 1 {
				c = [][]int{c[0][:1], append(c[0][1:], c[1]...)}
			}
			return c
		}
		return randClasses(g.Rng, n, 3)
	}
	// corpus: the three inputs (graph + vertex classes) on which CanonicalIsomorphFull panicked before commit a4bdb37
	// (currentBest[:len(op.value)] beyond its capacity: stale singletonPrefixLength after a cut-off inside splitBin)
	for _, c := range [][2]string{{"KOD[fB~~qOCO", "0,1,2,3,4,5,6,7,8,9|10,11"}, {"K`WkCf~~ogGO", "0,1,2,3,4,5,6,7|8,9|10,11"},
		{"LaGQO]CgN~~}?g", "0,1,2,3,4,5,6,7,8,9,10,11|12"}} {
		cls, _ := cx.ParseClasses(c[1])
		emit("corpus", cx.MustGraph6(c[0]), cls)
	}
	// corpus: the two graphs that failed on the pinned tree, in the failing labelling
	for _, c := range [][2]string{{"G|WW}K", "7,3,1,2,4,5,0,6"}, {"GhcqSK", "7,6,1,3,4,5,0,2"}} {
		gr := cx.MustGraph6(c[0])
		p, _ := cx.ParsePerm(c[1])
		emit("corpus", gr, nil)
		emit("corpus", gr.Relabel(p), nil)
	}
	// all labelled graphs on at most 5 (6) vertices, no classes
	maxExh := g.Pick(5, 6)
	for n := 0; n <= maxExh; n++ {
		for mask := 0; mask < 1<<uint(n*(n-1)/2); mask++ {
			emit("labelled", labelled(n, mask), nil)
		}
	}
	g.Exhaustive(fmt.Sprintf("search stream: all labelled graphs on n <= %d vertices, exact result", maxExh))
	// all labelled graphs on at most 3 (4) vertices x all ordered partitions into classes; a third of those on 4
	for n := 1; n <= 4; n++ {
		parts := orderedPartitions(n)
		for mask := 0; mask < 1<<uint(n*(n-1)/2); mask++ {
			if n == 4 && !g.Thorough() && mask%4 != 1 {
				continue
			}
			for _, cls := range parts {
				emit("labelled", labelled(n, mask), cls)
			}
		}
	}
	g.Exhaustive(fmt.Sprintf("search stream: all labelled graphs on n <= %d vertices x all ordered partitions into vertex classes, exact result", g.Pick(3, 4)))
	// one representative of every isomorphism class on 5..7 vertices x relabellings, with and without classes
	for n := 5; n <= 7; n++ {
		reps := cx.ClassReps(n)
		k := g.Pick(2, 12)
		if n < 7 {
			k = g.Pick(3, 30)
		}
		for _, rep := range reps {
			for i := 0; i < k; i++ {
				emit("classrep", relab(rep), nil)
			}
			emit("classrep", relab(rep), someClasses(n))
			if g.Thorough() {
				for i := 0; i < 4; i++ {
					emit("classrep", relab(rep), someClasses(n))
				}
			}
		}
	}
	// structured families up to 16 vertices
	str := cx.Structured(16)
	for _, ng := range str {
		emit(ng.Family, ng.G, nil)
		for i := 0; i < g.Pick(2, 10); i++ {
			emit(ng.Family, relab(ng.G), nil)
		}
		if ng.G.N >= 2 {
			for i := 0; i < g.Pick(1, 5); i++ {
				emit(ng.Family, relab(ng.G), someClasses(ng.G.N))
			}
		}
	}
	// perturbed symmetric graphs
	for i := 0; i < g.Pick(500, 5000); i++ {
		ng := str[g.Rng.Intn(len(str))]
		if ng.G.N < 4 {
			continue
		}
		pg := relab(cx.Perturb(g.Rng, ng.G, 1+g.Rng.Intn(2)))
		if i%4 == 0 {
			emit("perturbed", pg, someClasses(pg.N))
		} else {
			emit("perturbed", pg, nil)
		}
	}
	// random regular graphs, circulants, unions of equal components, trees, G(n,p)
	dens := [][2]int{{1, 10}, {1, 4}, {1, 2}, {3, 4}, {9, 10}}
	for i := 0; i < g.Pick(900, 12000); i++ {
		n := g.Rng.Range(6, 16)
		var gr *cx.G
		fam := ""
		switch g.Rng.Intn(6) {
		case 0:
			d := dens[g.Rng.Intn(len(dens))]
			gr, fam = cx.RandomGnp(g.Rng, n, d[0], d[1]), "random"
		case 1, 2:
			gr, fam = cx.RandomRegularSwitch(g.Rng, n, g.Rng.Range(3, 6)), "regular"
		case 3:
			var d []int
			for b := 1; b <= n/2; b++ {
				if g.Rng.Intn(3) == 0 {
					d = append(d, b)
				}
			}
			if len(d) == 0 {
				d = []int{1, 2}
			}
			gr, fam = cx.Circulant(n, d...), "circulant"
			if g.Rng.Bool() {
				gr = cx.Perturb(g.Rng, gr, 2)
			}
		case 4:
			gr, fam = cx.RandomTree(g.Rng, n), "tree"
		default:
			k := 2 + g.Rng.Intn(2)
			c := cx.RandomGnp(g.Rng, g.Rng.Range(2, 16/k), 1, 2)
			gr, fam = cx.Copies(k, c), "union"
			if g.Rng.Bool() {
				gr = gr.Complement()
			}
		}
		gr = relab(gr)
		if i%5 == 0 {
			emit(fam, gr, someClasses(gr.N))
		} else {
			emit(fam, gr, nil)
		}
	}
	// graphs selected because the search goes through its rarer branches on them (measured on the
	// transcription of the model at generation time): a cut-off inside splitBin, pruning by the
	// orbits of the best leaf, a leaf equal to the first but below the best, a better leaf
	rare := map[string]int{}
	want := g.Pick(120, 1500)
	for tries := 0; tries < g.Pick(6000, 80000) && (rare["cutoff-in-splitBin"] < want || rare["h2-best"] < want || rare["leaf=first<best"] < want); tries++ {
		n := g.Rng.Range(7, 12)
		var gr *cx.G
		switch g.Rng.Intn(4) {
		case 0:
			gr = cx.RandomRegularSwitch(g.Rng, n, g.Rng.Range(3, 5))
		case 1:
			ng := str[g.Rng.Intn(len(str))]
			if ng.G.N < 6 || ng.G.N > 12 {
				continue
			}
			gr = cx.Perturb(g.Rng, ng.G, 1+g.Rng.Intn(3))
		case 2:
			c := cx.RandomGnp(g.Rng, g.Rng.Range(3, 5), 1, 2)
			gr = cx.Perturb(g.Rng, cx.Copies(2, c), 1)
		default:
			gr = cx.RandomGnp(g.Rng, n, g.Rng.Range(3, 7), 10)
		}
		gr = relab(gr)
		var cls [][]int
		if g.Rng.Intn(3) == 0 {
			cls = someClasses(gr.N)
		}
		cov := map[string]bool{}
		if _, _, _, _, status := portSearchCov(gr.Adj, cls, maxSteps, cov); status != "ok" {
			continue
		}
		keep := false
		for _, k := range []string{"cutoff-in-splitBin", "h2-best", "leaf=first<best"} {
			if cov[k] && rare[k] < want {
				keep = true
			}
		}
		if keep {
			for k := range cov {
				rare[k]++
			}
			emit("rare", gr, cls)
		}
	}
	if g.Thorough() {
		// every isomorphism class on 8 vertices, one random labelling
		for _, rep := range cx.ClassReps(8) {
			emit("classrep", relab(rep), nil)
		}
	}
	if skipped > 0 {
		g.Note(fmt.Sprintf("search stream: %d generated graphs need more than %d iterations of the main loop and were dropped", skipped, maxSteps))
	}
}

func main() {
	hx.Main(hx.Prop{
		Rule:        "the class-preserving automorphism group of the graph is non-trivial (independent search)",
		Gen:         gen,
		Exec:        exec,
		CaseTimeout: 120 * time.Second,
		MemMB:       2048,
	})
}
