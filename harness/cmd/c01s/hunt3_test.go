package main

import (
	"os"
	"strconv"
	"testing"

	cx "verifharness/cmd/c01/canonx"
	"verifharness/hx"
)

// least slack cap(currentBest) - len(op.value) after a late cut-off inside splitBin, over random sparse graphs
func TestHunt3(t *testing.T) {
	cnt, _ := strconv.Atoi(os.Getenv("HUNT3"))
	if cnt == 0 {
		t.Skip("set HUNT3=<count>")
	}
	r := hx.NewRng(uint64(cnt) + 17)
	best := 1000
	for it := 0; it < cnt; it++ {
		n := r.Range(5, 11)
		var g *cx.G
		switch r.Intn(4) {
		case 0:
			g = cx.RandomGnp(r, n, r.Range(1, 4), 10)
		case 1:
			g = cx.RandomTree(r, n)
			if r.Bool() {
				g = cx.Perturb(r, g, 1+r.Intn(2))
			}
		case 2:
			g = cx.Perturb(r, cx.Copies(2, cx.RandomGnp(r, r.Range(2, 5), 1, 2)), r.Intn(3))
		default:
			g = cx.RandomGnp(r, n, r.Range(2, 8), 10)
		}
		g = g.Relabel(r.Perm(g.N))
		var cls [][]int
		if r.Intn(3) == 0 {
			cls = randClasses(r, g.N, r.Range(1, 3))
		}
		cov := map[string]bool{}
		_, _, _, _, status := portSearchCov(g.Adj, cls, 1000000, cov)
		if status != "ok" {
			t.Fatalf("port %s on %s classes %s", status, g.Graph6(), cx.ClassesString(cls))
		}
		if cov["sibling-after-cutoff"] && lastMinSlack < best {
			best = lastMinSlack
			t.Logf("slack %d: %s classes %s (m = %d)", best, g.Graph6(), cx.ClassesString(cls), g.M())
		}
	}
}
