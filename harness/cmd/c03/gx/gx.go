// Package gx holds the independent oracles shared by the harnesses of C03 and C04: a small
// adjacency-bitmask graph, a well-formedness check of *graph.DenseGraph values, a brute-force
// canonical form (minimum adjacency bit-string over all degree-sorted orderings), a brute-force
// automorphism count, and the hereditary predicates used as pruning functions.
//
// Nothing in this package calls the library's canonical labelling (graph.CanonicalIsomorph*).
// The only library function used as part of an oracle is graph.IsPlanar, and only as the
// *definition* of the predicate "planar" (the same function is handed to WithPruning).
package gx

import (
	"fmt"
	"math/bits"
	"strings"

	"github.com/Tom-Johnston/mamba/graph"
)

// G is a simple graph on N <= 16 vertices: bit u of Adj[v] says whether uv is an edge.
type G struct {
	N   int
	Adj [16]uint16
}

func (g *G) Edge(u, v int) bool { return g.Adj[u]>>uint(v)&1 == 1 }
func (g *G) Deg(v int) int      { return bits.OnesCount16(g.Adj[v]) }

// Bits is the packed upper triangle in the order 01, 02, 12, 03, 13, 23, ... (pair ij, i<j, at
// bit position j(j-1)/2+i counted from the most significant end of a string of N(N-1)/2 bits).
func (g *G) Bits() uint64 {
	var x uint64
	for j := 1; j < g.N; j++ {
		for i := 0; i < j; i++ {
			x <<= 1
			if g.Edge(i, j) {
				x |= 1
			}
		}
	}
	return x
}

// FromBits is the inverse of Bits.
func FromBits(n int, x uint64) G {
	var g G
	g.N = n
	tot := n * (n - 1) / 2
	pos := 0
	for j := 1; j < n; j++ {
		for i := 0; i < j; i++ {
			if x>>uint(tot-1-pos)&1 == 1 {
				g.Adj[i] |= 1 << uint(j)
				g.Adj[j] |= 1 << uint(i)
			}
			pos++
		}
	}
	return g
}

// Dense builds a fresh library graph with the same edges (used to hand canonical forms to
// graph.IsPlanar and to format graph6 strings).
func (g *G) Dense() *graph.DenseGraph {
	e := make([]byte, g.N*(g.N-1)/2)
	for j := 1; j < g.N; j++ {
		for i := 0; i < j; i++ {
			if g.Edge(i, j) {
				e[j*(j-1)/2+i] = 1
			}
		}
	}
	return graph.NewDense(g.N, e)
}

// Raw reads the adjacency of d straight from the packed byte array, trusting nothing else.
// It is what the pruning predicates see.
func Raw(d *graph.DenseGraph) G {
	var g G
	g.N = d.NumberOfVertices
	for j := 1; j < g.N; j++ {
		base := j * (j - 1) / 2
		for i := 0; i < j; i++ {
			if d.Edges[base+i] > 0 {
				g.Adj[i] |= 1 << uint(j)
				g.Adj[j] |= 1 << uint(i)
			}
		}
	}
	return g
}

// WF checks that d is a well-formed graph on exactly n vertices: sizes of the arrays, entries
// 0/1, M and the degree sequence consistent with the adjacency, and the observers N, M,
// IsEdge, Neighbours, Degrees symmetric, loop-free and consistent with it.  It returns "" or a
// description of the first inconsistency, and the adjacency it read.
func WF(d *graph.DenseGraph, n int) (string, G) {
	var g G
	if d == nil {
		return "nil graph", g
	}
	if n > 16 {
		return "n too large for the oracle", g
	}
	if d.NumberOfVertices != n || d.N() != n {
		return fmt.Sprintf("NumberOfVertices=%d N()=%d want %d", d.NumberOfVertices, d.N(), n), g
	}
	if len(d.DegreeSequence) != n {
		return fmt.Sprintf("len(DegreeSequence)=%d want %d", len(d.DegreeSequence), n), g
	}
	if len(d.Edges) != n*(n-1)/2 {
		return fmt.Sprintf("len(Edges)=%d want %d", len(d.Edges), n*(n-1)/2), g
	}
	for i, b := range d.Edges {
		if b > 1 {
			return fmt.Sprintf("Edges[%d]=%d", i, b), g
		}
	}
	g = Raw(d)
	m := 0
	for v := 0; v < n; v++ {
		m += g.Deg(v)
		if d.DegreeSequence[v] != g.Deg(v) {
			return fmt.Sprintf("DegreeSequence[%d]=%d but the adjacency gives %d", v, d.DegreeSequence[v], g.Deg(v)), g
		}
	}
	m /= 2
	if d.NumberOfEdges != m || d.M() != m {
		return fmt.Sprintf("NumberOfEdges=%d M()=%d but the adjacency has %d edges", d.NumberOfEdges, d.M(), m), g
	}
	degs := d.Degrees()
	if len(degs) != n {
		return "Degrees() has the wrong length", g
	}
	for v := 0; v < n; v++ {
		if degs[v] != g.Deg(v) {
			return fmt.Sprintf("Degrees()[%d]=%d want %d", v, degs[v], g.Deg(v)), g
		}
		if d.IsEdge(v, v) {
			return fmt.Sprintf("loop at %d", v), g
		}
		nb := d.Neighbours(v)
		var mask uint16
		for k, u := range nb {
			if u < 0 || u >= n || (k > 0 && nb[k-1] >= u) {
				return fmt.Sprintf("Neighbours(%d)=%v not ascending in range", v, nb), g
			}
			mask |= 1 << uint(u)
		}
		if mask != g.Adj[v] {
			return fmt.Sprintf("Neighbours(%d)=%v disagrees with the adjacency", v, nb), g
		}
		for u := 0; u < n; u++ {
			if d.IsEdge(u, v) != g.Edge(u, v) || d.IsEdge(u, v) != d.IsEdge(v, u) {
				return fmt.Sprintf("IsEdge(%d,%d) inconsistent", u, v), g
			}
		}
	}
	return "", g
}

// ---------------------------------------------------------------- canonical form

type canonSearch struct {
	g     *G
	n     int
	perm  [16]int // perm[k] = vertex placed at position k
	used  uint16
	cur   [16]uint16 // cur[k] = row k: bit (k-1-i) says whether perm[i] ~ perm[k], i<k
	best  [16]uint16
	have  bool
	nodes int
}

// cmpPrefix compares cur[1..k] with best[1..k] lexicographically.
func (s *canonSearch) cmpPrefix(k int) int {
	for i := 1; i <= k; i++ {
		if s.cur[i] != s.best[i] {
			if s.cur[i] < s.best[i] {
				return -1
			}
			return 1
		}
	}
	return 0
}

func (s *canonSearch) rec(k int) {
	s.nodes++
	if k == s.n {
		if !s.have || s.cmpPrefix(s.n-1) < 0 {
			s.best = s.cur
			s.have = true
		}
		return
	}
	// degree-sequence pruning: positions carry non-decreasing degrees, so position k must
	// take an unused vertex of the least unused degree.
	minDeg := 1 << 30
	for v := 0; v < s.n; v++ {
		if s.used>>uint(v)&1 == 0 && s.g.Deg(v) < minDeg {
			minDeg = s.g.Deg(v)
		}
	}
	for v := 0; v < s.n; v++ {
		if s.used>>uint(v)&1 == 1 || s.g.Deg(v) != minDeg {
			continue
		}
		var row uint16
		for i := 0; i < k; i++ {
			row <<= 1
			if s.g.Edge(s.perm[i], v) {
				row |= 1
			}
		}
		s.cur[k] = row
		if s.have && s.cmpPrefix(k) > 0 {
			continue
		}
		s.perm[k] = v
		s.used |= 1 << uint(v)
		s.rec(k + 1)
		s.used &^= 1 << uint(v)
	}
}

// Canon returns the canonical form of g: the least packed adjacency string (as Bits) over all
// orderings of the vertices in which the degrees are non-decreasing.  Two graphs on the same
// number of vertices are isomorphic iff their canonical forms are equal (an isomorphism maps
// degree-sorted orderings to degree-sorted orderings, so both minimise over the same set of
// strings; conversely the canonical form is the string of a relabelling of g).
func Canon(g *G) uint64 {
	s := canonSearch{g: g, n: g.N}
	s.rec(0)
	var x uint64
	for k := 1; k < g.N; k++ {
		x = x<<uint(k) | uint64(s.best[k])
	}
	return x
}

// ---------------------------------------------------------------- automorphisms

type autSearch struct {
	g     *G
	n     int
	img   [16]int
	used  uint16
	count uint64
}

func (s *autSearch) rec(k int) {
	if k == s.n {
		s.count++
		return
	}
	for v := 0; v < s.n; v++ {
		if s.used>>uint(v)&1 == 1 || s.g.Deg(v) != s.g.Deg(k) {
			continue
		}
		ok := true
		for i := 0; i < k; i++ {
			if s.g.Edge(i, k) != s.g.Edge(s.img[i], v) {
				ok = false
				break
			}
		}
		if !ok {
			continue
		}
		s.img[k] = v
		s.used |= 1 << uint(v)
		s.rec(k + 1)
		s.used &^= 1 << uint(v)
	}
}

// AutCount is the number of permutations of the vertices that preserve adjacency, by plain
// backtracking (every automorphism is reached exactly once: images are assigned in the order
// 0,1,..,n-1 and a partial map is extended only while it preserves adjacency on its domain).
func AutCount(g *G) uint64 {
	s := autSearch{g: g, n: g.N}
	s.rec(0)
	return s.count
}

func Factorial(n int) uint64 {
	f := uint64(1)
	for i := 2; i <= n; i++ {
		f *= uint64(i)
	}
	return f
}

// ---------------------------------------------------------------- predicates

// Bad reports whether g VIOLATES the hereditary property called name (so that it is the value
// a pruning function must return).  Every property here is closed under induced subgraphs and
// under relabelling.
func Bad(name string, g *G) bool {
	n := g.N
	switch name {
	case "none":
		return false
	case "trifree":
		for i := 0; i < n; i++ {
			for j := i + 1; j < n; j++ {
				if g.Edge(i, j) && g.Adj[i]&g.Adj[j] != 0 {
					return true
				}
			}
		}
		return false
	case "k4free":
		for i := 0; i < n; i++ {
			for j := i + 1; j < n; j++ {
				if !g.Edge(i, j) {
					continue
				}
				c := g.Adj[i] & g.Adj[j]
				for k := 0; k < n; k++ {
					if c>>uint(k)&1 == 1 && g.Adj[k]&c != 0 {
						return true
					}
				}
			}
		}
		return false
	case "maxdeg3":
		for v := 0; v < n; v++ {
			if g.Deg(v) > 3 {
				return true
			}
		}
		return false
	case "bipartite":
		col := [16]int{}
		for s := 0; s < n; s++ {
			if col[s] != 0 {
				continue
			}
			col[s] = 1
			stack := []int{s}
			for len(stack) > 0 {
				v := stack[len(stack)-1]
				stack = stack[:len(stack)-1]
				for u := 0; u < n; u++ {
					if !g.Edge(u, v) {
						continue
					}
					if col[u] == 0 {
						col[u] = -col[v]
						stack = append(stack, u)
					} else if col[u] == col[v] {
						return true
					}
				}
			}
		}
		return false
	case "clawfree":
		for v := 0; v < n; v++ {
			for a := 0; a < n; a++ {
				if !g.Edge(v, a) {
					continue
				}
				for b := a + 1; b < n; b++ {
					if !g.Edge(v, b) || g.Edge(a, b) {
						continue
					}
					for c := b + 1; c < n; c++ {
						if g.Edge(v, c) && !g.Edge(a, c) && !g.Edge(b, c) {
							return true
						}
					}
				}
			}
		}
		return false
	case "planar":
		return !graph.IsPlanar(g.Dense())
	case "novertex": // only the graph without vertices is allowed
		return n >= 1
	case "edgeless":
		for v := 0; v < n; v++ {
			if g.Adj[v] != 0 {
				return true
			}
		}
		return false
	case "complete":
		for v := 0; v < n; v++ {
			if g.Deg(v) != n-1 {
				return true
			}
		}
		return false
	}
	panic("unknown predicate " + name)
}

// Preds are the predicate names other than "none".
var Preds = []string{"trifree", "k4free", "maxdeg3", "bipartite", "clawfree", "planar"}

// ExtremePreds are degenerate hereditary predicates (used by the C03 harness only): they cut the
// search at the first, second or third vertex, or leave a single path through the tree.
var ExtremePreds = []string{"novertex", "edgeless", "complete"}

// PruneFuncs returns the (preprune, prune) pair for a predicate and a placement
// ("pre", "post", or "-" for the unrestricted search).  calls counts the invocations.
func PruneFuncs(name, placement string, calls *int) (pre, post func(*graph.DenseGraph) bool) {
	no := func(*graph.DenseGraph) bool { return false }
	f := func(d *graph.DenseGraph) bool {
		if calls != nil {
			*calls++
		}
		g := Raw(d)
		return Bad(name, &g)
	}
	switch {
	case name == "none" || placement == "-":
		return no, no
	case placement == "pre":
		return f, no
	case placement == "post":
		return no, f
	case placement == "both":
		return f, f
	}
	panic("unknown placement " + placement)
}

// Snapshot formats everything a caller can read from a yielded value (used to compare
// sequences of yielded graphs exactly, including the cached counters).
func Snapshot(d *graph.DenseGraph) string {
	var sb strings.Builder
	fmt.Fprintf(&sb, "%d %d %v ", d.NumberOfVertices, d.NumberOfEdges, d.DegreeSequence)
	for _, b := range d.Edges {
		sb.WriteByte('0' + b)
	}
	return sb.String()
}
