// Command c03 checks that search.All / search.WithPruning yield exactly one representative of
// every isomorphism class (C03).  A case is `n m predicate placement`: all shards a = 0..m-1
// are run and the union of their outputs is judged by oracles that do not use the library's
// canonical labelling (package gx): well-formedness of every yielded value, pairwise
// non-isomorphism by a brute-force canonical form, completeness by the orbit-counting
// certificate  sum_g n!/|Aut g| = 2^(n(n-1)/2)  (theorem C03_certificate), predicates against
// the filtered unrestricted output and against brute force over all labelled graphs (n <= 6),
// and the shard union against the m = 1 output.
package main

import (
	"crypto/sha256"
	"fmt"
	"sort"
	"strconv"
	"strings"
	"time"

	"github.com/Tom-Johnston/mamba/graph"
	"github.com/Tom-Johnston/mamba/graph/search"
	"verifharness/cmd/c03/gx"
	"verifharness/hx"
)

// canonCache memoises gx.Canon per (n, labelled graph) inside one worker process.
var canonCache = map[int]map[uint64]uint64{}

func canonOf(g *gx.G) uint64 {
	m := canonCache[g.N]
	if m == nil {
		m = map[uint64]uint64{}
		canonCache[g.N] = m
	}
	b := g.Bits()
	if c, ok := m[b]; ok {
		return c
	}
	c := gx.Canon(g)
	m[b] = c
	return c
}

type yielded struct {
	g     gx.G
	canon uint64
	g6    string
}

type runOut struct {
	ys    []yielded
	viol  []hx.OracleViolation
	calls int
	// streaming mode (n >= 10): nothing is stored, only the count and the orbit sum
	count int
	sum   uint64
}

// runShard runs one iterator to exhaustion, checking every yielded value as it appears (the
// value is only valid until the next call of Next).
func runShard(n, a, m int, pred, placement string, wantCanon bool) runOut {
	return runShardX(n, a, m, pred, placement, wantCanon, false)
}

func runShardX(n, a, m int, pred, placement string, wantCanon, stream bool) runOut {
	var out runOut
	var it *search.GraphIterator
	if pred == "none" {
		it = search.All(n, a, m)
	} else {
		pre, post := gx.PruneFuncs(pred, placement, &out.calls)
		it = search.WithPruning(n, a, m, pre, post)
	}
	for it.Next() {
		d := it.Value()
		msg, g := gx.WF(d, n)
		if msg != "" {
			if len(out.viol) < 3 {
				out.viol = append(out.viol, hx.Fail("C03:wf", "shard a=%d yielded value #%d is not a well-formed graph on %d vertices: %s (%s)", a, len(out.ys), n, msg, gx.Snapshot(d)))
			}
			// keep going with the adjacency as far as it can be read
			if d == nil || d.NumberOfVertices != n || len(d.Edges) < n*(n-1)/2 {
				continue
			}
		}
		if stream {
			out.count++
			out.sum += gx.Factorial(n) / gx.AutCount(&g)
			if pred != "none" && gx.Bad(pred, &g) && len(out.viol) < 3 {
				out.viol = append(out.viol, hx.Fail("C03:pred-yield", "yielded graph %s does not satisfy %s", graph.Graph6Encode(g.Dense()), pred))
			}
			continue
		}
		y := yielded{g: g}
		if wantCanon {
			y.canon = canonOf(&g)
		}
		if n <= 6 {
			y.g6 = graph.Graph6Encode(d)
		}
		out.ys = append(out.ys, y)
		if len(out.ys) > 400000 {
			out.viol = append(out.viol, hx.Fail("C03:runaway", "shard a=%d yields more than 400000 graphs", a))
			return out
		}
	}
	// exhaustion is stable: further calls keep answering false (otherwise a caller looping on
	// Next would see classes twice)
	for k := 0; k < 3; k++ {
		if it.Next() {
			out.viol = append(out.viol, hx.Fail("C03:restart", "shard a=%d: Next returned true after it had returned false", a))
			break
		}
	}
	return out
}

// reference is the unrestricted output All(n,0,1) as a sorted list of classes, together with
// whether it passed the certificate (so a predicate case never trusts an uncertified list).
type reference struct {
	classes []uint64
	ok      bool
}

var refCache = map[int]*reference{}

func certificate(n int, ys []yielded) (sum uint64, bad string) {
	f := gx.Factorial(n)
	for i := range ys {
		a := gx.AutCount(&ys[i].g)
		if a == 0 || f%a != 0 {
			return 0, fmt.Sprintf("|Aut| = %d does not divide %d!", a, n)
		}
		sum += f / a
	}
	return sum, ""
}

func hasDup(sorted []uint64) (uint64, bool) {
	for i := 1; i < len(sorted); i++ {
		if sorted[i] == sorted[i-1] {
			return sorted[i], true
		}
	}
	return 0, false
}

func sortedCanons(ys []yielded) []uint64 {
	c := make([]uint64, len(ys))
	for i := range ys {
		c[i] = ys[i].canon
	}
	sort.Slice(c, func(i, j int) bool { return c[i] < c[j] })
	return c
}

func refFor(n int) *reference {
	if r := refCache[n]; r != nil {
		return r
	}
	o := runShard(n, 0, 1, "none", "-", true)
	r := &reference{classes: sortedCanons(o.ys)}
	_, dup := hasDup(r.classes)
	sum, bad := certificate(n, o.ys)
	r.ok = len(o.viol) == 0 && !dup && bad == "" && sum == uint64(1)<<uint(n*(n-1)/2)
	refCache[n] = r
	return r
}

// bruteClasses: the classes of ALL labelled graphs on n vertices (n <= 6), sorted.
var bruteCache = map[int][]uint64{}

func bruteClasses(n int) []uint64 {
	if c, ok := bruteCache[n]; ok {
		return c
	}
	set := map[uint64]bool{}
	tot := uint(n * (n - 1) / 2)
	for x := uint64(0); x < 1<<tot; x++ {
		g := gx.FromBits(n, x)
		set[canonOf(&g)] = true
	}
	c := make([]uint64, 0, len(set))
	for k := range set {
		c = append(c, k)
	}
	sort.Slice(c, func(i, j int) bool { return c[i] < c[j] })
	bruteCache[n] = c
	return c
}

func filterClasses(n int, classes []uint64, pred string) []uint64 {
	var r []uint64
	for _, c := range classes {
		g := gx.FromBits(n, c)
		if !gx.Bad(pred, &g) {
			r = append(r, c)
		}
	}
	return r
}

func equalU64(a, b []uint64) bool {
	if len(a) != len(b) {
		return false
	}
	for i := range a {
		if a[i] != b[i] {
			return false
		}
	}
	return true
}

// firstDiff describes the first class present in exactly one of two sorted lists.
func firstDiff(n int, got, want []uint64) string {
	i, j := 0, 0
	for i < len(got) || j < len(want) {
		switch {
		case j >= len(want) || (i < len(got) && got[i] < want[j]):
			g := gx.FromBits(n, got[i])
			return "unexpected class " + graph.Graph6Encode(g.Dense())
		case i >= len(got) || want[j] < got[i]:
			g := gx.FromBits(n, want[j])
			return "missing class " + graph.Graph6Encode(g.Dense())
		default:
			i++
			j++
		}
	}
	return "equal"
}

func digest(xs []uint64) string {
	h := sha256.New()
	for _, x := range xs {
		fmt.Fprintf(h, "%x,", x)
	}
	return fmt.Sprintf("%x", h.Sum(nil)[:8])
}

func parse(line string) (n, m int, pred, placement string) {
	f := strings.Fields(line)
	n, _ = strconv.Atoi(f[0])
	m, _ = strconv.Atoi(f[1])
	return n, m, f[2], f[3]
}

// exec runs one case under its own guard: this property has no model driver to disagree with,
// so a panic or a hang of the code under test must itself be reported as a violation (the
// search never panics and always terminates on valid arguments).
func exec(line string) hx.Result {
	limit := 3 * time.Minute
	if f := strings.Fields(line); len(f) > 0 && f[0] != "selftest" {
		if n, _ := strconv.Atoi(f[0]); n >= 10 {
			limit = 19 * time.Minute
		}
	}
	ch := make(chan hx.Result, 1)
	go func() {
		defer func() {
			if e := recover(); e != nil {
				ch <- hx.Result{Obs: "panic", Buckets: []string{"outcome:panic"},
					Viol: []hx.OracleViolation{hx.Fail("C03:panic", "case %q: the search panicked: %v", line, e)}}
			}
		}()
		ch <- exec1(line)
	}()
	select {
	case r := <-ch:
		return r
	case <-time.After(limit):
		return hx.Result{Obs: "hang", Buckets: []string{"outcome:hang"},
			Viol: []hx.OracleViolation{hx.Fail("C03:hang", "case %q: not finished after %v", line, limit)}}
	}
}

func exec1(line string) hx.Result {
	if strings.HasPrefix(line, "selftest") {
		return selftest(line)
	}
	n, m, pred, placement := parse(line)
	res := hx.Result{Buckets: []string{fmt.Sprintf("n=%d", n), fmt.Sprintf("m=%d", m), "pred=" + pred, "place=" + placement}}
	if n >= 10 {
		// counts only: the graphs are not stored and no canonical forms are computed, so
		// duplicates are NOT excluded here; the orbit sum is still compared with 2^(n(n-1)/2)
		count, sum := 0, uint64(0)
		perShard := make([]int, m)
		for a := 0; a < m; a++ {
			o := runShardX(n, a, m, pred, placement, false, true)
			res.Viol = append(res.Viol, o.viol...)
			count += o.count
			sum += o.sum
			perShard[a] = o.count
		}
		if pred == "none" && sum != uint64(1)<<uint(n*(n-1)/2) {
			res.Viol = append(res.Viol, hx.Fail("C03:certificate", "n=%d m=%d: sum n!/|Aut| = %d, want 2^%d", n, m, sum, n*(n-1)/2))
		}
		res.Nontrivial = count >= 2
		res.Obs = fmt.Sprintf("countonly count=%d orbitsum=%d ## shards=%v", count, sum, perShard)
		return res
	}
	var all []yielded
	var order []string
	perShard := make([]int, m)
	for a := 0; a < m; a++ {
		o := runShard(n, a, m, pred, placement, true)
		res.Viol = append(res.Viol, o.viol...)
		all = append(all, o.ys...)
		perShard[a] = len(o.ys)
		for _, y := range o.ys {
			order = append(order, y.g6)
		}
		order = append(order, "|")
	}
	res.Nontrivial = len(all) >= 2
	// every yielded graph satisfies the predicate
	if pred != "none" {
		for i := range all {
			if gx.Bad(pred, &all[i].g) {
				res.Viol = append(res.Viol, hx.Fail("C03:pred-yield", "yielded graph %s does not satisfy %s", graph.Graph6Encode(all[i].g.Dense()), pred))
				break
			}
		}
	}
	got := sortedCanons(all)
	// (1) pairwise non-isomorphic
	if c, dup := hasDup(got); dup {
		g := gx.FromBits(n, c)
		res.Viol = append(res.Viol, hx.Fail("C03:duplicate", "n=%d m=%d %s/%s: two yielded graphs are isomorphic (class %s)", n, m, pred, placement, graph.Graph6Encode(g.Dense())))
	}
	// (2) completeness
	if pred == "none" {
		sum, bad := certificate(n, all)
		if bad != "" || sum != uint64(1)<<uint(n*(n-1)/2) {
			res.Viol = append(res.Viol, hx.Fail("C03:certificate", "n=%d m=%d: sum over yielded graphs of n!/|Aut| = %d, want 2^%d = %d %s", n, m, sum, n*(n-1)/2, uint64(1)<<uint(n*(n-1)/2), bad))
		}
	} else {
		ref := refFor(n)
		if !ref.ok {
			res.Viol = append(res.Viol, hx.Fail("C03:reference", "n=%d: the unrestricted output All(n,0,1) fails its own certificate", n))
		}
		want := filterClasses(n, ref.classes, pred)
		if !equalU64(got, want) {
			res.Viol = append(res.Viol, hx.Fail("C03:pred-filter", "n=%d m=%d %s/%s: output (%d classes) differs from the filtered unrestricted output (%d classes): %s", n, m, pred, placement, len(got), len(want), firstDiff(n, got, want)))
		}
	}
	// (3) brute force over all labelled graphs
	if n <= 6 {
		want := bruteClasses(n)
		if pred != "none" {
			want = filterClasses(n, want, pred)
		}
		if !equalU64(got, want) {
			res.Viol = append(res.Viol, hx.Fail("C03:brute", "n=%d m=%d %s/%s: output (%d classes) differs from the classes of all labelled graphs (%d): %s", n, m, pred, placement, len(got), len(want), firstDiff(n, got, want)))
		}
	}
	// (4) the shards together are the unsplit search
	if m > 1 {
		o := runShard(n, 0, 1, pred, placement, true)
		one := sortedCanons(o.ys)
		if !equalU64(got, one) {
			res.Viol = append(res.Viol, hx.Fail("C03:shard-union", "n=%d m=%d %s/%s: union of the shards (%d graphs %v) differs from the m=1 output (%d graphs): %s", n, m, pred, placement, len(got), perShard, len(one), firstDiff(n, got, one)))
		}
	}
	var sb strings.Builder
	fmt.Fprintf(&sb, "classes=%d", len(got))
	if n <= 6 {
		sb.WriteString(" [")
		for i, c := range got {
			if i > 0 {
				sb.WriteByte(' ')
			}
			fmt.Fprintf(&sb, "%x", c)
		}
		sb.WriteString("]")
		fmt.Fprintf(&sb, " ## shards=%v %s", perShard, strings.Join(order, " "))
	} else {
		fmt.Fprintf(&sb, " sha=%s ## shards=%v", digest(got), perShard)
	}
	res.Obs = sb.String()
	return res
}

// selftest guards the oracles themselves: `selftest n` checks on ALL labelled graphs with n
// vertices that Canon is invariant under relabelling and is the string of a relabelling, that
// AutCount agrees with a count over all n! permutations, that the classes found satisfy the
// orbit-counting identity, and that every predicate is hereditary and relabelling-invariant.
func selftest(line string) hx.Result {
	f := strings.Fields(line)
	n, _ := strconv.Atoi(f[1])
	res := hx.Result{Buckets: []string{"selftest"}, Nontrivial: n >= 2}
	fail := func(format string, a ...interface{}) {
		if len(res.Viol) < 3 {
			res.Viol = append(res.Viol, hx.Fail("C03:oracle-selftest", format, a...))
		}
	}
	tot := uint(n * (n - 1) / 2)
	perms := allPerms(n)
	classSize := map[uint64]uint64{}
	rng := hx.NewRng(uint64(n) + 77)
	for x := uint64(0); x < 1<<tot; x++ {
		g := gx.FromBits(n, x)
		if g.Bits() != x {
			fail("FromBits/Bits round trip fails on %x", x)
		}
		c := gx.Canon(&g)
		classSize[c]++
		// canonical form is the string of some relabelling, and invariant
		p := perms[rng.Intn(len(perms))]
		h := relabel(&g, p)
		if gx.Canon(&h) != c {
			fail("Canon not invariant: n=%d graph %x perm %v", n, x, p)
		}
		if n <= 5 || x%7 == 0 {
			found := false
			aut := uint64(0)
			for _, q := range perms {
				r := relabel(&g, q)
				if r.Bits() == c {
					found = true
				}
				if r.Bits() == x {
					aut++
				}
			}
			if !found {
				fail("Canon(%x) is not the string of a relabelling", x)
			}
			if aut != gx.AutCount(&g) {
				fail("AutCount(%x)=%d, brute force %d", x, gx.AutCount(&g), aut)
			}
		}
		for _, pr := range append(append([]string{}, gx.Preds...), gx.ExtremePreds...) {
			b := gx.Bad(pr, &g)
			if gx.Bad(pr, &h) != b {
				fail("predicate %s not relabelling-invariant on %x", pr, x)
			}
			if !b {
				for v := 0; v < n; v++ {
					s := deleteVertex(&g, v)
					if gx.Bad(pr, &s) {
						fail("predicate %s not hereditary: %x minus vertex %d", pr, x, v)
					}
				}
			}
		}
	}
	// class sizes are n!/|Aut| and the classes partition the labelled graphs
	var sum uint64
	for c, sz := range classSize {
		g := gx.FromBits(n, c)
		if sz != gx.Factorial(n)/gx.AutCount(&g) {
			fail("class of %x has %d members, n!/|Aut| = %d", c, sz, gx.Factorial(n)/gx.AutCount(&g))
		}
		sum += sz
	}
	if sum != 1<<tot {
		fail("classes do not partition")
	}
	res.Obs = fmt.Sprintf("selftest n=%d classes=%d", n, len(classSize))
	return res
}

func allPerms(n int) [][]int {
	var out [][]int
	p := make([]int, n)
	used := make([]bool, n)
	var rec func(k int)
	rec = func(k int) {
		if k == n {
			out = append(out, append([]int(nil), p...))
			return
		}
		for v := 0; v < n; v++ {
			if !used[v] {
				used[v] = true
				p[k] = v
				rec(k + 1)
				used[v] = false
			}
		}
	}
	rec(0)
	return out
}

// relabel: vertex i of the result is vertex p[i] of g.
func relabel(g *gx.G, p []int) gx.G {
	var h gx.G
	h.N = g.N
	for i := 0; i < g.N; i++ {
		for j := 0; j < g.N; j++ {
			if i != j && g.Edge(p[i], p[j]) {
				h.Adj[i] |= 1 << uint(j)
			}
		}
	}
	return h
}

func deleteVertex(g *gx.G, v int) gx.G {
	p := make([]int, 0, g.N-1)
	for u := 0; u < g.N; u++ {
		if u != v {
			p = append(p, u)
		}
	}
	var h gx.G
	h.N = g.N - 1
	for i := range p {
		for j := range p {
			if i != j && g.Edge(p[i], p[j]) {
				h.Adj[i] |= 1 << uint(j)
			}
		}
	}
	return h
}

var ms = []int{1, 2, 3, 4, 7}

// quickPreds are the predicates of the quick tier.  "planar" is defined by graph.IsPlanar
// (the subject of another property), so it is used in the thorough tier only.
func predsFor(g *hx.Gen) []string {
	if g.Thorough() {
		return append(append([]string{}, gx.Preds...), gx.ExtremePreds...)
	}
	var ps []string
	for _, p := range gx.Preds {
		if p != "planar" {
			ps = append(ps, p)
		}
	}
	return append(ps, gx.ExtremePreds...)
}

func gen(g *hx.Gen) {
	preds := predsFor(g)
	for n := 6; n >= 0; n-- {
		g.Emit(fmt.Sprintf("selftest %d", n))
	}
	nmax := g.Pick(8, 9)
	if !g.Thorough() {
		// a few cases one size up (about 3-5 s each), first for load balance
		g.Emit("9 1 none -")
		g.Emit("9 4 none -")
		g.Emit("9 3 trifree pre")
		g.Emit("9 2 k4free post")
		g.Emit("9 7 clawfree post")
		g.Emit("9 2 bipartite pre")
		g.Emit("9 1 maxdeg3 both")
	}
	for n := nmax; n >= 0; n-- { // big cases first: better load balance over the workers
		for _, m := range ms {
			g.Emit(fmt.Sprintf("%d %d none -", n, m))
			for _, p := range preds {
				g.Emit(fmt.Sprintf("%d %d %s pre", n, m, p))
				g.Emit(fmt.Sprintf("%d %d %s post", n, m, p))
			}
		}
		// the same predicate in both places, and a few more moduli
		for _, p := range preds {
			g.Emit(fmt.Sprintf("%d 1 %s both", n, p))
		}
		for _, m := range []int{5, 6, 8, 11, 16} {
			g.Emit(fmt.Sprintf("%d %d none -", n, m))
			g.Emit(fmt.Sprintf("%d %d trifree post", n, m))
		}
	}
	g.Exhaustive(fmt.Sprintf("all (n,m,predicate,placement) with n<=%d, m in {1,2,3,4,7} (all shards a<m), predicate in none+%v, placement pre/post", nmax, preds))
	if g.Thorough() {
		g.Emit("10 1 none -")
	}
	_ = g.Rng
}

func main() {
	hx.Main(hx.Prop{
		Rule:        "case = (n, m, hereditary predicate, placement); all shards a<m are run; non-trivial = the union of the shard outputs has at least 2 graphs; distinct by case text",
		Gen:         gen,
		Exec:        exec,
		CaseTimeout: 20 * time.Minute,
		MemMB:       6144,
	})
}
