package main

import (
	"fmt"
	"math"
	"sort"
	"strconv"
	"strings"

	"verifharness/hx"
)

var extremes = []int{math.MinInt64, math.MinInt64 + 1, math.MinInt64 + 2, -2, -1, 0, 1, 2, math.MaxInt64 - 2, math.MaxInt64 - 1, math.MaxInt64}

// universe draws values: 0 small range -8..40, 1 extremes, 2 both, 3 sparse 64-bit values
type universe struct {
	kind int
	pool []int // for kind 3: a fixed pool so that overlaps happen
}

func newUniverse(r *hx.Rng) *universe {
	u := &universe{kind: r.Intn(4)}
	if r.Chance(1, 2) {
		u.kind = 0
	}
	if u.kind == 3 {
		for i := 0; i < 24; i++ {
			u.pool = append(u.pool, int(r.U64()))
		}
	}
	return u
}

func (u *universe) value(r *hx.Rng) int {
	switch u.kind {
	case 0:
		return r.Range(-8, 40)
	case 1:
		return extremes[r.Intn(len(extremes))]
	case 2:
		if r.Bool() {
			return extremes[r.Intn(len(extremes))]
		}
		return r.Range(-8, 40)
	default:
		return u.pool[r.Intn(len(u.pool))]
	}
}

func (u *universe) set(r *hx.Rng, maxLen int) []int {
	n := r.Intn(maxLen + 1)
	m := map[int]bool{}
	for i := 0; i < n; i++ {
		m[u.value(r)] = true
	}
	return keys(m)
}

func keys(m map[int]bool) []int {
	l := make([]int, 0, len(m))
	for v := range m {
		l = append(l, v)
	}
	sort.Ints(l)
	return l
}

func seqCase(el, poison []int, ops []string) string {
	return fmt.Sprintf("seq %s+%s;%s", hx.Ints(el), hx.Ints(poison), strings.Join(ops, " "))
}

func poisonCells(n int) []int {
	p := make([]int, n)
	for i := range p {
		p[i] = 990001 + i
	}
	return p
}

// randomSeq builds one history; cur simulates the receiver as a plain set so that arguments can
// be chosen relative to it (elements already present).
func randomSeq(r *hx.Rng) string {
	u := newUniverse(r)
	el := u.set(r, 10)
	cur := map[int]bool{}
	for _, v := range el {
		cur[v] = true
	}
	var poison []int
	if r.Bool() {
		poison = poisonCells(r.Range(1, 8))
	}
	nops := r.Range(1, 10)
	var ops []string
	present := func() (int, bool) {
		if len(cur) == 0 {
			return 0, false
		}
		k := keys(cur)
		return k[r.Intn(len(k))], true
	}
	other := func() []int { // a set overlapping the receiver
		m := map[int]bool{}
		n := r.Intn(9)
		for i := 0; i < n; i++ {
			if v, ok := present(); ok && r.Chance(1, 3) {
				m[v] = true
			} else {
				m[u.value(r)] = true
			}
		}
		if r.Chance(1, 12) { // exactly the receiver, or a subset of it
			m = map[int]bool{}
			for v := range cur {
				if r.Chance(3, 4) {
					m[v] = true
				}
			}
		}
		return keys(m)
	}
	for len(ops) < nops {
		switch k := r.Intn(20); {
		case k < 5 || k == 19: // Add / NewSortedInts with unsorted arguments, repeats, present elements
			var xs []int
			n := r.Intn(8)
			for i := 0; i < n; i++ {
				switch {
				case len(xs) > 0 && r.Chance(1, 4):
					xs = append(xs, xs[r.Intn(len(xs))])
				case r.Chance(1, 3):
					if v, ok := present(); ok {
						xs = append(xs, v)
						break
					}
					fallthrough
				default:
					xs = append(xs, u.value(r))
				}
			}
			if r.Chance(1, 6) {
				sort.Ints(xs)
			}
			if k == 19 {
				ops = append(ops, "N:"+hx.Ints(xs))
			} else {
				ops = append(ops, "a:"+hx.Ints(xs))
				for _, v := range xs {
					cur[v] = true
				}
			}
		case k < 8:
			x := u.value(r)
			if v, ok := present(); ok && r.Chance(2, 3) {
				x = v
			}
			ops = append(ops, "r:"+strconv.Itoa(x))
			delete(cur, x)
		case k < 11:
			b := other()
			ops = append(ops, "u:"+hx.Ints(b))
			for _, v := range b {
				cur[v] = true
			}
		case k == 11:
			// Complement(n, s) for every n: around len(s) (the capacity n-len(s) was negative
			// and panicked before 0a753bf), 0, negative, and larger than every element
			n := len(cur) + r.Intn(12)
			switch r.Intn(6) {
			case 0:
				n = len(cur)
			case 1:
				n = r.Intn(len(cur) + 1) // len(s) >= n
			case 2:
				n = r.Range(-3, 2)
			case 3:
				n = r.Range(0, 45)
			}
			ops = append(ops, "C:"+strconv.Itoa(n))
		case k == 12:
			x := u.value(r)
			if v, ok := present(); ok && r.Bool() {
				x = v
			}
			ops = append(ops, "s:"+strconv.Itoa(x))
		default:
			letters := "UVIJZMWXYST"
			ops = append(ops, string(letters[r.Intn(len(letters))])+":"+hx.Ints(other()))
		}
	}
	return seqCase(el, poison, ops)
}

func subset(mask int, base []int) []int {
	var l []int
	for i, v := range base {
		if mask>>uint(i)&1 == 1 {
			l = append(l, v)
		}
	}
	return l
}

func gen(g *hx.Gen) {
	r := g.Rng
	// ---- corpus: the inputs that failed on the pinned tree (fixed by fffffa6, 0b58617 and 0a753bf)
	// Range overflowed near the ends of int until ffebdff (hang, wrong result, panic in make)
	g.Emit("range 9223372036854775802 9223372036854775807 10;")
	g.Emit("range 9223372036854775806 9223372036854775803 -3;")
	g.Emit("range 9223372036854775807 9223372036854775804 -1;")
	g.Emit("range 0 -9223372036854775808 -9223372036854775808;")
	g.Emit("range -9223372036854775807 4611686018427387904 1152921504606846976;")
	g.Emit("range 4611686018427387904 -4611686018427387914 -2305843009213693952;")
	g.Emit("range -9223372036854775808 9223372036854775807 1;") // 2^64-1 elements: make panics
	g.Emit("seq 5,6,7+;C:2") // panicked (negative capacity) until 0a753bf
	g.Emit("seq -4,-1,0,2,9+990001;C:3 C:0 C:-2 C:1 C:12")
	g.Emit("seq -2,3,4+;a:-2,-2,5,4")
	g.Emit("seq -2,3,4+990001,990002;a:-2,-2,5,4 a:4,4,4 a:3,-2,3")
	g.Emit("range 5 0 -1;")
	g.Emit("seq +;a: r:0 u: U: C:0 N:")

	// ---- Range: all (start, end, step) in [-6,6]^3, then wider random ones (no int overflow)
	for s := -6; s <= 6; s++ {
		for e := -6; e <= 6; e++ {
			for st := -6; st <= 6; st++ {
				g.Emit(fmt.Sprintf("range %d %d %d;", s, e, st))
			}
		}
	}
	g.Exhaustive("Range(start,end,step) for all (start,end,step) in [-6,6]^3")
	for i := 0; i < g.Pick(300, 5000); i++ {
		s, e := r.Range(-300, 300), r.Range(-300, 300)
		st := r.Range(1, 40)
		if r.Chance(1, 8) {
			st = r.Range(1, 700)
		}
		if e < s {
			st = -st
		}
		if r.Chance(1, 10) {
			st = -st // infinite set: panic
		}
		if r.Chance(1, 12) {
			base := []int{math.MaxInt64 - 2000, math.MinInt64 + 2000, 1 << 40, -(1 << 40)}[r.Intn(4)]
			s, e = s+base, e+base
		}
		g.Emit(fmt.Sprintf("range %d %d %d;", s, e, st))
	}

	// ---- exhaustive small spaces of set pairs and argument lists
	base := []int{0, 1, 2, 3}
	for ma := 0; ma < 16; ma++ {
		for mb := 0; mb < 16; mb++ {
			b := hx.Ints(subset(mb, base))
			var ops []string
			for _, c := range "UVIJZMWXYST" {
				ops = append(ops, string(c)+":"+b)
			}
			ops = append(ops, "u:"+b)
			g.Emit(seqCase(subset(ma, base), nil, ops))
			g.Emit(seqCase(subset(ma, base), poisonCells(ma%5), []string{"u:" + b, "u:" + b}))
		}
	}
	g.Exhaustive("every binary function and the Union method on all pairs of subsets of {0,1,2,3} (the method also with 0..4 cells of spare capacity)")
	maxLen := g.Pick(3, 4)
	var lists [][]int
	var rec func(l []int)
	rec = func(l []int) {
		lists = append(lists, append([]int(nil), l...))
		if len(l) == maxLen {
			return
		}
		for v := 0; v <= 3; v++ {
			rec(append(l, v))
		}
	}
	rec(nil)
	for ma := 0; ma < 8; ma++ {
		for _, xs := range lists {
			g.Emit(seqCase(subset(ma, base[:3]), nil, []string{"a:" + hx.Ints(xs), "N:" + hx.Ints(xs)}))
		}
	}
	g.Exhaustive(fmt.Sprintf("Add and NewSortedInts: all receivers inside {0,1,2} x all argument lists of length <= %d over {0,1,2,3}", maxLen))
	cb := []int{-1, 0, 1, 2, 3, 4}
	for ma := 0; ma < 64; ma++ {
		a := subset(ma, cb)
		for n := -2; n <= 7; n++ { // includes len(a) > n, n = 0 and n < 0
			g.Emit(seqCase(a, nil, []string{"C:" + strconv.Itoa(n)}))
		}
		for x := -2; x <= 5; x++ {
			g.Emit(seqCase(a, poisonCells(1), []string{"s:" + strconv.Itoa(x), "r:" + strconv.Itoa(x), "r:" + strconv.Itoa(x)}))
		}
	}
	g.Exhaustive("Complement(n, a) for all a inside {-1..4} and all n in -2..7; ContainsSingle and Remove for all such a and x in -2..5")

	// ---- random histories
	for i := 0; i < g.Pick(12000, 150000); i++ {
		g.Emit(randomSeq(r))
	}

	genLarge(g)
	genAsym(g)
	genValueBounds(g)
	genHarden(g)
	genCapRatio(g)
	genSort(g)
}
