package main

import (
	"fmt"
	"sort"

	"verifharness/hx"
)

// ---- large sets and long argument lists.
//
// The other streams keep sets below 11 elements and argument lists below 9; thresholds inside the
// code (a different algorithm for long argument lists, growth of a buffer, an unrolled merge) lie
// beyond that.  This stream visits, for every boundary B in 8, 16, 32, ... 512 and every size
// B-1, B, B+1 (thorough: B-2..B+2), every variadic and every binary operation with argument lists
// / sets of that size and receivers that are empty, tiny, half, equal and larger, in four argument
// shapes (all new and distinct, exactly one repeat, many repeats, mostly present), always with
// poisoned spare capacity of several sizes (none, too small for the result, large enough).

// largeUniverse: values for sets around size n; dense so that overlaps are frequent, optionally
// shifted to the extremes of int64
type largeUniverse struct {
	lo, hi int
}

func (u largeUniverse) value(r *hx.Rng) int { return r.Range(u.lo, u.hi) }

func (u largeUniverse) set(r *hx.Rng, n int) []int {
	m := map[int]bool{}
	if n > u.hi-u.lo+1 {
		n = u.hi - u.lo + 1
	}
	for len(m) < n {
		m[u.value(r)] = true
	}
	return keys(m)
}

func shuffle(r *hx.Rng, l []int) {
	for i := len(l) - 1; i > 0; i-- {
		j := r.Intn(i + 1)
		l[i], l[j] = l[j], l[i]
	}
}

// argList builds an argument list of exactly n values in one of four shapes relative to recv
func argList(r *hx.Rng, u largeUniverse, recv []int, n, shape int) []int {
	in := map[int]bool{}
	for _, v := range recv {
		in[v] = true
	}
	fresh := func() int {
		for tries := 0; tries < 64; tries++ {
			v := u.value(r)
			if !in[v] {
				return v
			}
		}
		return u.hi + 1 + r.Intn(1000)
	}
	var xs []int
	used := map[int]bool{}
	distinctFresh := func() int {
		for {
			v := fresh()
			if !used[v] {
				used[v] = true
				return v
			}
			if len(used) > u.hi-u.lo {
				v = u.hi + 1 + len(used)
				used[v] = true
				return v
			}
		}
	}
	switch shape {
	case 0: // all new, pairwise distinct
		for len(xs) < n {
			xs = append(xs, distinctFresh())
		}
	case 1: // pairwise distinct new values but exactly one value twice
		for len(xs) < n-1 {
			xs = append(xs, distinctFresh())
		}
		if len(xs) > 0 {
			xs = append(xs, xs[r.Intn(len(xs))])
		} else if n > 0 {
			xs = append(xs, distinctFresh())
		}
	case 2: // many repeats, some present
		for len(xs) < n {
			switch {
			case len(xs) > 0 && r.Chance(1, 3):
				xs = append(xs, xs[r.Intn(len(xs))])
			case len(recv) > 0 && r.Chance(1, 4):
				xs = append(xs, recv[r.Intn(len(recv))])
			default:
				xs = append(xs, u.value(r))
			}
		}
	default: // mostly elements already present, one of them twice, a few new
		for len(xs) < n {
			if len(recv) > 0 && r.Chance(5, 6) {
				xs = append(xs, recv[r.Intn(len(recv))])
			} else {
				xs = append(xs, u.value(r))
			}
		}
	}
	switch r.Intn(3) {
	case 0:
		shuffle(r, xs)
	case 1:
		sort.Ints(xs)
	}
	return xs
}

func genLarge(g *hx.Gen) {
	r := g.Rng
	bounds := []int{8, 16, 32, 64, 128, 256, 512}
	deltas := []int{-1, 0, 1}
	reps := 1
	if g.Thorough() {
		deltas = []int{-2, -1, 0, 1, 2}
		reps = 4
	}
	spare := func(need int) []int { // none / too small / enough
		switch r.Intn(3) {
		case 0:
			return nil
		case 1:
			return poisonCells(1 + r.Intn(need/2+1))
		default:
			return poisonCells(need + 1 + r.Intn(8))
		}
	}
	count := 0
	for _, b := range bounds {
		for _, d := range deltas {
			n := b + d
			for rep := 0; rep < reps; rep++ {
				u := largeUniverse{-n, 3 * n}
				switch r.Intn(6) {
				case 0: // near the upper end of int64
					u = largeUniverse{int(^uint(0)>>1) - 4*n - 1100, int(^uint(0)>>1) - 1100}
				case 1: // near the lower end
					u = largeUniverse{-int(^uint(0)>>1) + 1100, -int(^uint(0)>>1) + 4*n + 1100}
				}
				recvSizes := []int{0, r.Range(1, 5), n / 2, n, n + r.Range(1, n)}
				// ---- variadic operations: every shape on a receiver of every size class
				for shape := 0; shape < 4; shape++ {
					recv := u.set(r, recvSizes[r.Intn(len(recvSizes))])
					if shape == 3 && len(recv) == 0 {
						recv = u.set(r, n)
					}
					xs := argList(r, u, recv, n, shape)
					ys := argList(r, u, recv, n, (shape+1+r.Intn(3))%4)
					ops := []string{"a:" + hx.Ints(xs), "N:" + hx.Ints(xs), "a:" + hx.Ints(ys), "r:" + fmt.Sprint(u.value(r))}
					g.Emit(seqCase(recv, spare(n), ops))
					count++
				}
				// ---- binary operations and the Union method: |b| = n against receivers of every size class
				for _, rs := range recvSizes {
					recv := u.set(r, rs)
					other := func() []int { // overlaps the receiver
						m := map[int]bool{}
						for len(m) < n {
							if len(recv) > 0 && r.Chance(1, 3) {
								m[recv[r.Intn(len(recv))]] = true
							} else {
								m[u.value(r)] = true
							}
							if len(m) >= u.hi-u.lo {
								break
							}
						}
						return keys(m)
					}
					var ops []string
					bset := hx.Ints(other())
					for _, c := range "UVIJZMWXYST" {
						ops = append(ops, string(c)+":"+bset)
					}
					sub := recv
					if len(sub) > n {
						sub = append([]int(nil), recv[:n]...)
					}
					ops = append(ops, "S:"+hx.Ints(sub), "T:"+hx.Ints(sub), "u:"+bset, "u:"+hx.Ints(other()), "C:"+fmt.Sprint(r.Range(0, 2*n)))
					g.Emit(seqCase(recv, spare(n+rs), ops))
					count++
				}
			}
		}
	}
	g.Note(fmt.Sprintf("large stream: %d histories with sets and argument lists of the sizes B-1..B+1 (thorough B-2..B+2) for B in 8..512", count))
}

// ---- asymmetric sizes: |small| : |large| from 1:2 to 1:256 for every binary operation in both
// argument orders and for the Union method in both roles.  The large set is strided (stride 1, 2,
// 3, 7) so that there is room between its elements; the small set is put together from atoms
// placed relative to the large one: before its minimum, after its maximum, hits, misses between
// two elements, a miss directly followed by the next element of the large set (hit after miss),
// the first and the last element.
func genAsym(g *hx.Gen) {
	r := g.Rng
	ratios := []int{2, 4, 8, 16, 32, 64, 128, 256}
	smallSizes := []int{1, 2, 3, 6}
	reps := 1
	if g.Thorough() {
		reps = 6
	}
	count := 0
	for _, ratio := range ratios {
		for _, ss := range smallSizes {
			for mode := 0; mode < 8; mode++ {
				for rep := 0; rep < reps; rep++ {
					ln := ss * ratio
					if ln > 640 {
						ln = 640 - r.Intn(3)
					}
					ln += r.Range(-1, 1) // just below / at / above the exact ratio
					if ln < 1 {
						ln = 1
					}
					stride := []int{1, 2, 3, 7}[r.Intn(4)]
					if mode == 3 || mode == 4 { // misses need room between elements
						stride = []int{2, 3, 7}[r.Intn(3)]
					}
					off := r.Range(-5, 5)
					if r.Chance(1, 8) {
						off = int(^uint(0)>>1) - 8*ln - 1000
					}
					large := make([]int, ln)
					for i := range large {
						large[i] = off + i*stride
					}
					m := map[int]bool{}
					atom := func(kind int) {
						i := r.Intn(ln)
						switch kind {
						case 0: // before the minimum
							m[large[0]-1-r.Intn(4)] = true
						case 1: // after the maximum
							m[large[ln-1]+1+r.Intn(4)] = true
						case 2: // hit
							m[large[i]] = true
						case 3: // miss between two elements (or just outside when the stride is 1)
							m[large[i]+1] = true
						case 4: // miss, then the next element of the large set
							m[large[i]-1] = true
							m[large[i]] = true
						case 5: // first and last element
							m[large[0]] = true
							m[large[ln-1]] = true
						}
					}
					for tries := 0; len(m) < ss && tries < 50; tries++ {
						switch mode {
						case 0, 1, 2, 3, 4:
							atom(mode)
						case 5: // before the minimum, then the minimum itself
							atom(0)
							m[large[0]] = true
						case 6: // the maximum, then beyond it
							m[large[ln-1]] = true
							atom(1)
						default:
							atom(r.Intn(6))
						}
					}
					small := keys(m)
					ls, ss2 := hx.Ints(large), hx.Ints(small)
					var opsL, opsS []string // receiver = large resp. small
					for _, c := range "UVIJZMWXYST" {
						opsL = append(opsL, string(c)+":"+ss2)
						opsS = append(opsS, string(c)+":"+ls)
					}
					opsL = append(opsL, "u:"+ss2)
					opsS = append(opsS, "u:"+ls)
					var sp []int
					if r.Bool() {
						sp = poisonCells(len(small) + 2)
					}
					g.Emit(seqCase(large, sp, opsL))
					if r.Bool() {
						sp = poisonCells(ln + len(small) + 2)
					} else {
						sp = poisonCells(r.Intn(3))
					}
					g.Emit(seqCase(small, sp, opsS))
					count += 2
				}
			}
		}
	}
	g.Note(fmt.Sprintf("asymmetric stream: %d histories, size ratios 1:2 .. 1:256 in both orders", count))
}

// ---- value boundaries x count boundaries: argument lists and sets whose values lie in the dense
// universe [0, B] (B and 0 always among them) for B around the powers of two up to 256, with
// counts around 8, 16, 32, 64 - where bitmap and counting fast paths would live - for every
// constructor / variadic operation and, with two such sets, every binary operation.
func genValueBounds(g *hx.Gen) {
	r := g.Rng
	bs := []int{7, 8, 15, 16, 31, 32, 63, 64, 65, 127, 128, 255, 256}
	counts := []int{8, 9, 16, 17, 32, 33, 64, 65}
	if g.Thorough() {
		counts = []int{7, 8, 9, 10, 15, 16, 17, 31, 32, 33, 34, 63, 64, 65, 66, 129}
	}
	reps := g.Pick(2, 5)
	n := 0
	for _, b := range bs {
		for _, c := range counts {
			for rep := 0; rep < reps; rep++ {
				lo := 0
				if r.Chance(1, 6) {
					lo = -1 // one negative value among otherwise small non-negative ones
				}
				draw := func(k int, distinct bool) []int {
					xs := []int{b, lo}
					seen := map[int]bool{b: true, lo: true}
					for len(xs) < k {
						v := r.Range(lo, b)
						if distinct && seen[v] && len(seen) <= b-lo {
							continue
						}
						seen[v] = true
						xs = append(xs, v)
					}
					if r.Chance(1, 3) {
						sort.Ints(xs)
					} else {
						shuffle(r, xs)
					}
					return xs[:k]
				}
				sub := func() []int { // a subset of [lo, b] that contains b
					m := map[int]bool{b: true}
					for i := r.Intn(c + 1); i > 0; i-- {
						m[r.Range(lo, b)] = true
					}
					return keys(m)
				}
				xs, ys := draw(c, false), draw(c, c <= b-lo+1)
				recv := sub()
				if r.Chance(1, 3) {
					recv = nil
				}
				ops := []string{"N:" + hx.Ints(xs), "N:" + hx.Ints(ys), "a:" + hx.Ints(xs), "a:" + hx.Ints(ys)}
				bset := hx.Ints(sub())
				for _, l := range "UVIJZMWXYST" {
					ops = append(ops, string(l)+":"+bset)
				}
				ops = append(ops, "u:"+bset, "s:"+fmt.Sprint(b), "C:"+fmt.Sprint(b), "C:"+fmt.Sprint(b+1), "r:"+fmt.Sprint(b))
				var sp []int
				if r.Bool() {
					sp = poisonCells(r.Range(1, c+4))
				}
				g.Emit(seqCase(recv, sp, ops))
				n++
			}
		}
	}
	g.Note(fmt.Sprintf("value x count boundary stream: %d histories over [0,B], B in 7..256, counts 8..65", n))
}
