// Command c17 exercises package sortints and ints.Sort (C17).
//
// Case syntax (one line, shared with ocaml/c17/driver.ml):
//
//	seq <elements>+<poison>;op op op   one SortedInts value built as backing[:len(elements)] of an
//	                                   array that continues with the poison cells (spare capacity),
//	                                   then a sequence of calls on it.  op = <letter>:<argument>:
//	                                   a:xs Add(xs...)  r:x Remove(x)  u:b s.Union(b)            (mutators)
//	                                   U:b Union(s,b) V:b Union(b,s) I/J Intersection Z IntersectionSize
//	                                   M:b SetMinus(s,b) W:b SetMinus(b,s) X/Y XOR C:n Complement(n,s)
//	                                   s:x ContainsSingle S:b ContainsSorted(s,b) T:b ContainsSorted(b,s)
//	                                   N:xs NewSortedInts(xs...)
//	                                   an argument "@" stands for the receiver slice itself (same backing array)
//	                                   p: a call of Range(5,0,1) whose panic is recovered (P), then the history goes on
//	                                   R: the slice returned by the last set-valued call becomes the receiver
//	                                      (from then on the strict part is not emitted: its capacity is the code's choice)
//	seqn ...                           the same, but every empty operand (and an empty receiver without
//	                                   spare capacity) is a nil slice
//	range <start> <end> <step>;        Range
//	sort;v v v                         ints.Sort
//	sortsub <pre> <post>;v v v         ints.Sort on the sub-slice arr[pre:pre+n] of an array with pre/post
//	                                   poisoned cells around it (the cells outside must stay untouched)
//	sortall <n> <prefix>;              ints.Sort on every array of length n over {0,1,2} with this prefix
//
// Observation: seq: the result of every call joined by '|' (sets as comma separated lists, booleans
// t/f, sizes; "panic" ends the sequence) ## the backing array s[:cap(s)] after every mutator.
// Around every call the arguments (with their capacity region) are snapshotted and compared, the
// result of a non-mutating call is scribbled over afterwards to detect aliasing with an argument:
// failures are oracle violations.  Every set-valued result is then restored and HELD until the end
// of the case: after every later call all held results must still have their contents (a result
// that lives in a buffer shared with a later result or with the receiver is reported), at the end
// all of them are scribbled over (the next cases in the same worker process see fresh state only
// if the package keeps no reference to them).
package main

import (
	"fmt"
	"math"
	"sort"
	"strconv"
	"strings"
	"time"

	"github.com/Tom-Johnston/mamba/ints"
	"github.com/Tom-Johnston/mamba/sortints"
	"verifharness/hx"
)

const poisonArg = 7777777 // spare capacity of argument slices is filled with this

func parseList(s string) []int {
	if s == "" {
		return []int{}
	}
	parts := strings.Split(s, ",")
	r := make([]int, len(parts))
	for i, p := range parts {
		v, err := strconv.ParseInt(p, 10, 64)
		if err != nil {
			panic("bad number " + p)
		}
		r[i] = int(v)
	}
	return r
}

// withSpare returns a copy of l that has two poisoned cells of spare capacity, and the whole
// backing array.
func withSpare(l []int) (s []int, backing []int) {
	backing = make([]int, len(l)+2)
	copy(backing, l)
	backing[len(l)] = poisonArg
	backing[len(l)+1] = poisonArg + 1
	return backing[:len(l):len(backing)], backing
}

func full(s []int) []int { return s[:cap(s)] }

func same(a, b []int) bool {
	if len(a) != len(b) {
		return false
	}
	for i := range a {
		if a[i] != b[i] {
			return false
		}
	}
	return true
}

func member(s []int, v int) bool {
	for _, w := range s {
		if w == v {
			return true
		}
	}
	return false
}

func boolStr(b bool) string {
	if b {
		return "t"
	}
	return "f"
}

type seqRun struct {
	out, strict []string
	viol        []hx.OracleViolation
	nontrivial  bool
	buckets     []string
}

// call runs f under recover; ok is false when it panicked.
func call(f func()) (ok bool) {
	defer func() {
		if e := recover(); e != nil {
			ok = false
		}
	}()
	f()
	return true
}

func runSeq(hdr string, ops []string) *seqRun {
	r := &seqRun{}
	nilMode := strings.HasPrefix(hdr, "seqn")
	recv := strings.TrimPrefix(strings.TrimPrefix(strings.TrimPrefix(hdr, "seqn"), "seq"), " ")
	el, poison := recv, ""
	if i := strings.IndexByte(recv, '+'); i >= 0 {
		el, poison = recv[:i], recv[i+1:]
	}
	e, p := parseList(el), parseList(poison)
	backing := make([]int, len(e)+len(p))
	copy(backing, e)
	copy(backing[len(e):], p)
	s := sortints.SortedInts(backing[:len(e)])
	if nilMode && len(backing) == 0 {
		s = nil
		r.buckets = append(r.buckets, "seq:nil-receiver")
	}
	type heldRes struct {
		res, snap []int
		op        int
	}
	var held []heldRes
	var lastRes []int
	lastIdx := -1
	haveLast, noStrict := false, false
	strict := func(x string) {
		if !noStrict {
			r.strict = append(r.strict, x)
		}
	}
	operand := func(arg string) (b, bb []int, self bool) {
		if arg == "@" {
			r.buckets = append(r.buckets, "operand-is-receiver")
			return s, full(s), true
		}
		b, bb = withSpare(parseList(arg))
		if nilMode && len(b) == 0 {
			r.buckets = append(r.buckets, "nil-operand")
			return nil, nil, false
		}
		return b, bb, false
	}
	hold := func(k int, res []int) { // called after the aliasing scribble: restore and keep
		snap := append([]int(nil), res...)
		held = append(held, heldRes{res, snap, k})
		lastRes, haveLast, lastIdx = res, true, len(held)-1
	}
	scribbleRestore := func(res []int, check func()) {
		keep := append([]int(nil), res...)
		for i := range full(res) {
			full(res)[i] = -poisonArg
		}
		check()
		copy(res, keep)
	}
	r.buckets = append(r.buckets, fmt.Sprintf("seq:len<=%d", bucket(len(e))), fmt.Sprintf("seq:ops<=%d", bucket(len(ops))))
	if len(p) > 0 {
		r.buckets = append(r.buckets, "seq:initial-spare-capacity")
	}
	for k, t := range ops {
		if len(t) < 2 || t[1] != ':' {
			panic("bad op " + t)
		}
		kind, arg := t[0], t[2:]
		r.buckets = append(r.buckets, "op:"+string(kind))
		if cap(s) > len(s) {
			r.nontrivial = true
			r.buckets = append(r.buckets, "op-on-spare-capacity")
		}
		recvSnap := append([]int(nil), full(s)...)
		recvBefore := s
		fail := func(key, format string, a ...interface{}) {
			v := hx.Fail("C17:"+key+":"+string(kind), "op %d (%s): "+format, append([]interface{}{k, t}, a...)...)
			r.viol = append(r.viol, v)
		}
		var obs string
		ok := true
		mutator := false
		switch kind {
		case 'a', 'N':
			var xa, xb []int
			self := arg == "@"
			if self {
				xa, xb = s, full(s)
				r.buckets = append(r.buckets, "operand-is-receiver")
			} else {
				xa, xb = withSpare(parseList(arg))
			}
			seen := map[int]bool{}
			for _, v := range xa {
				if seen[v] || (kind == 'a' && member(s, v)) {
					r.nontrivial = true
					r.buckets = append(r.buckets, "args-with-repeat-or-present")
				}
				seen[v] = true
			}
			if nilMode && len(xa) == 0 && !self {
				xa, xb = nil, nil
			}
			xsnap := append([]int(nil), xb...)
			if kind == 'a' {
				mutator = true
				ok = call(func() { s.Add(xa...) })
				if ok {
					obs = hx.Ints(s)
					strict(hx.Ints(full(s)))
					if !same(recvSnap, full(recvBefore)) {
						fail("old-array-changed", "Add wrote into the receiver's old backing array: %v -> %v", recvSnap, full(recvBefore))
					}
				}
			} else {
				var res sortints.SortedInts
				ok = call(func() { res = sortints.NewSortedInts(xa...) })
				if ok {
					obs = hx.Ints(res)
					scribbleRestore(res, func() {
						if !same(recvSnap, full(s)) {
							fail("receiver-changed", "NewSortedInts changed or aliased the receiver: %v -> %v", recvSnap, full(s))
						}
						if !self && !same(xsnap, xb) {
							fail("argument-changed", "the variadic argument slice is aliased by the result: %v -> %v", xsnap, xb)
						}
					})
					hold(k, res)
				}
			}
			if !self && !same(xsnap, xb) {
				fail("argument-changed", "the variadic argument slice was changed or aliased: %v -> %v", xsnap, xb)
			}
		case 'r':
			mutator = true
			x := parseList(arg)[0]
			ok = call(func() { s.Remove(x) })
			if ok {
				obs = hx.Ints(s)
				strict(hx.Ints(full(recvBefore)))
			}
		case 'u':
			mutator = true
			b, bb, self := operand(arg)
			bsnap := append([]int(nil), bb...)
			ok = call(func() { s.Union(sortints.SortedInts(b)) })
			if ok {
				obs = hx.Ints(s)
				strict(hx.Ints(full(s)))
				if !self {
					// scribbling over the receiver must not reach the argument
					scribbleRestore(full(s), func() {
						if !same(bsnap, bb) {
							fail("argument-changed", "s.Union(b) changed or aliased b: %v -> %v", bsnap, bb)
						}
					})
				}
			} else if !self && !same(bsnap, bb) {
				fail("argument-changed", "s.Union(b) changed b: %v -> %v", bsnap, bb)
			}
		case 's':
			x := parseList(arg)[0]
			var res bool
			ok = call(func() { res = sortints.ContainsSingle(s, x) })
			obs = boolStr(res)
		case 'p':
			// a recovered panic inside the package, then the history continues
			if call(func() { sortints.Range(5, 0, 1) }) {
				obs = "noP"
			} else {
				obs = "P"
			}
			r.buckets = append(r.buckets, "recovered-panic-then-more-calls")
		case 'R':
			if haveLast {
				s = sortints.SortedInts(lastRes)
				held[lastIdx].op = -1 // now the receiver: mutators may change it
				haveLast = false
				noStrict = true
				obs = hx.Ints(s)
				r.buckets = append(r.buckets, "result-adopted-as-receiver")
			} else {
				obs = "-"
			}
			mutator = true
		case 'C':
			n := parseList(arg)[0]
			var res sortints.SortedInts
			ok = call(func() { res = sortints.Complement(n, s) })
			if ok {
				obs = hx.Ints(res)
				scribbleRestore(res, func() {})
				hold(k, res)
			}
		default:
			b, bb, _ := operand(arg)
			bsnap := append([]int(nil), bb...)
			sb := sortints.SortedInts(b)
			var res sortints.SortedInts
			isSet := true
			switch kind {
			case 'U':
				ok = call(func() { res = sortints.Union(s, sb) })
			case 'V':
				ok = call(func() { res = sortints.Union(sb, s) })
			case 'I':
				ok = call(func() { res = sortints.Intersection(s, sb) })
			case 'J':
				ok = call(func() { res = sortints.Intersection(sb, s) })
			case 'M':
				ok = call(func() { res = sortints.SetMinus(s, sb) })
			case 'W':
				ok = call(func() { res = sortints.SetMinus(sb, s) })
			case 'X':
				ok = call(func() { res = sortints.XOR(s, sb) })
			case 'Y':
				ok = call(func() { res = sortints.XOR(sb, s) })
			case 'Z':
				isSet = false
				var n int
				ok = call(func() { n = sortints.IntersectionSize(s, sb) })
				obs = strconv.Itoa(n)
			case 'S':
				isSet = false
				var c bool
				ok = call(func() { c = sortints.ContainsSorted(s, sb) })
				obs = boolStr(c)
			case 'T':
				isSet = false
				var c bool
				ok = call(func() { c = sortints.ContainsSorted(sb, s) })
				obs = boolStr(c)
			default:
				panic("bad op " + t)
			}
			if ok && isSet {
				obs = hx.Ints(res)
				scribbleRestore(res, func() {
					if !same(bsnap, bb) {
						fail("argument-changed", "argument b is aliased by the result: %v -> %v", bsnap, bb)
					}
					if !same(recvSnap, full(s)) {
						fail("argument-changed", "argument s is aliased by the result: %v -> %v", recvSnap, full(s))
					}
				})
				hold(k, res)
			}
			if !same(bsnap, bb) {
				fail("argument-changed", "argument b was changed: %v -> %v", bsnap, bb)
			}
		}
		// non-mutating calls leave the receiver value (and its capacity region) untouched
		if !mutator {
			if !same(recvSnap, full(s)) || len(s) != len(recvBefore) {
				fail("argument-changed", "argument s was changed: %v -> %v", recvSnap, full(s))
			}
		}
		// every result of an earlier call still has its contents
		for _, h := range held {
			if h.op >= 0 && h.op != k && !same(h.res, h.snap) {
				fail("earlier-result-changed", "the result of op %d changed afterwards: %v -> %v", h.op, h.snap, h.res)
			}
		}
		if len(held) > 1 {
			r.buckets = append(r.buckets, "results-held")
		}
		if !ok {
			r.out = append(r.out, "panic")
			r.buckets = append(r.buckets, "outcome:panic")
			break
		}
		r.out = append(r.out, obs)
	}
	// the caller overwrites everything it was given: nothing of it may matter to later cases
	for _, h := range held {
		if h.op >= 0 {
			for i := range full(h.res) {
				full(h.res)[i] = -poisonArg
			}
		}
	}
	return r
}

func runSortAll(n int, prefix string) string {
	a := make([]int, n)
	for i := 0; i < len(prefix); i++ {
		a[i] = int(prefix[i] - '0')
	}
	p := len(prefix)
	var sb strings.Builder
	work := make([]int, n)
	for {
		copy(work, a)
		if call(func() { ints.Sort(work) }) {
			for _, v := range work {
				sb.WriteString(strconv.Itoa(v))
			}
		} else {
			sb.WriteString("panic")
		}
		sb.WriteByte('.')
		i := n - 1
		for i >= p && a[i] == 2 {
			a[i] = 0
			i--
		}
		if i < p {
			break
		}
		a[i]++
	}
	return sb.String()
}

func exec(line string) hx.Result {
	i := strings.IndexByte(line, ';')
	if i < 0 {
		return hx.Result{Obs: "bad"}
	}
	hdr, toks := strings.Fields(line[:i]), strings.Fields(line[i+1:])
	if len(hdr) == 0 {
		return hx.Result{Obs: "bad"}
	}
	switch hdr[0] {
	case "seq", "seqn":
		r := runSeq(line[:i], toks)
		st := strings.Join(r.strict, "|")
		if len(r.strict) > 0 {
			st += "|"
		}
		return hx.Result{Obs: strings.Join(r.out, "|") + " ## " + st, Nontrivial: r.nontrivial, Buckets: r.buckets, Viol: r.viol}
	case "range":
		if len(hdr) != 4 {
			return hx.Result{Obs: "bad"}
		}
		v := parseList(strings.Join(hdr[1:], ","))
		var res sortints.SortedInts
		if !call(func() { res = sortints.Range(v[0], v[1], v[2]) }) {
			return hx.Result{Obs: "panic", Nontrivial: true, Buckets: []string{"range:panic"}}
		}
		b := "range:ascending"
		if v[2] < 0 {
			b = "range:descending"
		}
		return hx.Result{Obs: hx.Ints(res), Nontrivial: len(res) >= 2, Buckets: []string{b, fmt.Sprintf("range:len<=%d", bucket(len(res)))}}
	case "sort":
		a := parseList(strings.Join(toks, ","))
		in := append([]int(nil), a...)
		if !call(func() { ints.Sort(a) }) {
			return hx.Result{Obs: "panic", Nontrivial: true}
		}
		var viol []hx.OracleViolation
		ref := append([]int(nil), in...)
		sort.Ints(ref)
		if !same(ref, a) {
			viol = append(viol, hx.Fail("C17:sort-differs-from-sort.Ints", "ints.Sort differs from sort.Ints on an input of length %d", len(in)))
		}
		return hx.Result{Obs: hx.Ints(a), Nontrivial: !sort.IntsAreSorted(in), Buckets: []string{fmt.Sprintf("sort:len<=%d", bucket(len(a)))}, Viol: viol}
	case "sortsub":
		if len(hdr) != 3 {
			return hx.Result{Obs: "bad"}
		}
		pre, _ := strconv.Atoi(hdr[1])
		post, _ := strconv.Atoi(hdr[2])
		vals := parseList(strings.Join(toks, ","))
		arr := make([]int, pre+len(vals)+post)
		for i := range arr {
			arr[i] = 880001 + i
		}
		copy(arr[pre:], vals)
		whole := append([]int(nil), arr...)
		sub := arr[pre : pre+len(vals)] // its capacity reaches to the end of arr
		if !call(func() { ints.Sort(sub) }) {
			return hx.Result{Obs: "panic", Nontrivial: true}
		}
		var viol []hx.OracleViolation
		if !same(whole[:pre], arr[:pre]) || !same(whole[pre+len(vals):], arr[pre+len(vals):]) {
			viol = append(viol, hx.Fail("C17:sort-outside-range", "ints.Sort(arr[%d:%d]) changed cells outside the slice", pre, pre+len(vals)))
		}
		ref := append([]int(nil), vals...)
		sort.Ints(ref)
		if !same(ref, sub) {
			viol = append(viol, hx.Fail("C17:sort-differs-from-sort.Ints", "ints.Sort on a sub-slice differs from sort.Ints (length %d)", len(vals)))
		}
		return hx.Result{Obs: hx.Ints(sub), Nontrivial: !sort.IntsAreSorted(vals), Buckets: []string{fmt.Sprintf("sortsub:len<=%d", bucket(len(vals)))}, Viol: viol}
	case "sortall":
		if len(hdr) < 2 {
			return hx.Result{Obs: "bad"}
		}
		n, _ := strconv.Atoi(hdr[1])
		prefix := ""
		if len(hdr) > 2 {
			prefix = hdr[2]
		}
		return hx.Result{Obs: runSortAll(n, prefix), Nontrivial: n >= 2, Buckets: []string{fmt.Sprintf("sortall:n=%d", n)}}
	}
	return hx.Result{Obs: "bad"}
}

func bucket(n int) int {
	b := 1
	for b < n {
		b *= 2
	}
	return b
}

var _ = math.MaxInt64

func main() {
	hx.Main(hx.Prop{
		Rule: "seq: some Add/NewSortedInts argument list has a repeat or an element already present, or some call ran on a receiver with spare capacity; " +
			"range: the result has >= 2 elements or the call panics; sort: the input is not already sorted; sortall: n >= 2; distinct by case text",
		Gen:         gen,
		Exec:        exec,
		CaseTimeout: 20 * time.Second,
		MemMB:       2048,
	})
}
