package main

import (
	"fmt"
	"math"
	"math/big"
	"strings"

	"verifharness/hx"
)

// ---- hardening streams (notes/C17.md, "Hardening pass: dimensions")

// decorate rewrites a random history: nil operands (seqn), the receiver itself as operand (@),
// recovered panics between the calls (p:), results adopted as receiver (R:)
func decorate(r *hx.Rng, line string) string {
	i := strings.IndexByte(line, ';')
	hdr, ops := line[:i], strings.Fields(line[i+1:])
	if r.Chance(1, 3) {
		hdr = "seqn" + strings.TrimPrefix(hdr, "seq")
	}
	var out []string
	for _, op := range ops {
		if r.Chance(1, 8) {
			out = append(out, "p:")
		}
		kind := op[0]
		switch {
		case strings.IndexByte("UVIJZMWXYSTu", kind) >= 0 && r.Chance(1, 6):
			op = string(kind) + ":@"
		case (kind == 'a' || kind == 'N') && r.Chance(1, 10):
			op = string(kind) + ":@"
		}
		out = append(out, op)
		if strings.IndexByte("UVIJMWXYNC", kind) >= 0 && r.Chance(1, 5) {
			out = append(out, "R:")
		}
	}
	return hdr + ";" + strings.Join(out, " ")
}

var (
	bigMax = big.NewInt(math.MaxInt64)
	bigMin = big.NewInt(math.MinInt64)
)

func fits(x *big.Int) bool { return x.Cmp(bigMin) >= 0 && x.Cmp(bigMax) <= 0 }

// rangeCountOK: the result of Range(start, end, step) is small enough to allocate (at most maxLen
// elements), or the call panics for certain: "Infinite set", or more than MaxInt elements (make).
// The values themselves are not restricted.
func rangeCountOK(start, end, step int, maxLen int64) bool {
	if (end < start && step > 0) || (end > start && step < 0) || (end != start && step == 0) || end == start {
		return true
	}
	d := new(big.Int).Sub(big.NewInt(int64(end)), big.NewInt(int64(start)))
	d.Abs(d)
	st := new(big.Int).Abs(big.NewInt(int64(step)))
	cnt := new(big.Int).Quo(new(big.Int).Sub(d, big.NewInt(1)), st)
	cnt.Add(cnt, big.NewInt(1))
	return cnt.Cmp(big.NewInt(maxLen)) <= 0 || cnt.Cmp(bigMax) > 0
}

func genHarden(g *hx.Gen) {
	r := g.Rng

	// ---- empty and nil operands for every function, both as receiver and as argument
	for _, hdr := range []string{"seq", "seqn"} {
		for _, recv := range []string{"", "1,2"} {
			for _, arg := range []string{"", "2,3", "@"} {
				var ops []string
				for _, c := range "UVIJZMWXYST" {
					ops = append(ops, string(c)+":"+arg)
				}
				ops = append(ops, "N:"+arg, "a:"+arg, "u:"+arg, "C:2", "s:1", "r:1", "p:", "U:"+arg, "R:", "u:"+arg, "a:"+arg)
				g.Emit(hdr + " " + recv + "+;" + strings.Join(ops, " "))
				g.Emit(hdr + " " + recv + "+990001,990002,990003;" + strings.Join(ops, " "))
			}
		}
	}
	g.Exhaustive("every operation with empty / nil / non-empty receiver x empty / nil / non-empty / receiver-itself argument")

	// ---- random histories decorated with nil operands, self operands, recovered panics, adopted results
	for i := 0; i < g.Pick(3000, 30000); i++ {
		g.Emit(decorate(r, randomSeq(r)))
	}

	// ---- many results held at once, sizes going down and up again (a later result fits an earlier buffer)
	for i := 0; i < g.Pick(60, 600); i++ {
		u := largeUniverse{-20, 120}
		recv := u.set(r, r.Range(30, 60))
		sizes := []int{40, 30, 20, 10, 5, 2, 0, 2, 5, 10, 20, 40}
		if r.Bool() {
			sizes = []int{3, 9, 27, 50, 27, 9, 3}
		}
		var ops []string
		letters := "UIMXVJWYNC"
		for _, n := range sizes {
			c := letters[r.Intn(len(letters))]
			switch c {
			case 'C':
				ops = append(ops, "C:"+fmt.Sprint(n))
			case 'N':
				ops = append(ops, "N:"+hx.Ints(argList(r, u, recv, n, 2)))
			default:
				b := u.set(r, n)
				if c == 'I' || c == 'J' { // a subset of the receiver: the result has exactly n elements
					if n > len(recv) {
						n = len(recv)
					}
					b = append([]int(nil), recv[:n]...)
				}
				ops = append(ops, string(c)+":"+hx.Ints(b))
			}
			if r.Chance(1, 6) {
				ops = append(ops, "r:"+fmt.Sprint(u.value(r)))
			}
			if r.Chance(1, 10) {
				ops = append(ops, "u:"+hx.Ints(u.set(r, 3)))
			}
		}
		g.Emit(seqCase(recv, poisonCells(r.Intn(12)), ops))
	}

	// ---- one receiver growing and shrinking across the boundaries: most of its elements are removed
	// again, then small sets are united into the stale capacity in place
	for i := 0; i < g.Pick(40, 400); i++ {
		u := largeUniverse{0, 400}
		cur := map[int]bool{}
		start := u.set(r, r.Intn(4))
		for _, v := range start {
			cur[v] = true
		}
		var ops []string
		for round := 0; round < 2; round++ {
			xs := argList(r, u, nil, []int{9, 17, 33, 65, 129}[r.Intn(5)], 2)
			ops = append(ops, "a:"+hx.Ints(xs))
			b := u.set(r, r.Range(1, 80))
			ops = append(ops, "u:"+hx.Ints(b))
			for _, v := range append(xs, b...) {
				cur[v] = true
			}
			present := keys(cur)
			shuffle(r, present)
			for _, v := range present[:len(present)*r.Range(60, 97)/100] {
				ops = append(ops, "r:"+fmt.Sprint(v))
				delete(cur, v)
				if r.Chance(1, 9) {
					ops = append(ops, "r:"+fmt.Sprint(u.value(r)+401)) // absent
				}
			}
			for k := 0; k < 2; k++ {
				b := u.set(r, r.Range(1, 12))
				ops = append(ops, "u:"+hx.Ints(b), "I:"+hx.Ints(b))
				for _, v := range b {
					cur[v] = true
				}
			}
		}
		g.Emit(seqCase(start, nil, ops))
	}

	// ---- Range at the ends of int64: every combination of values, only the element count is bounded
	anchors := []int{math.MinInt64, math.MinInt64 + 1, math.MinInt64 + 7, -(1 << 62) - 1, -(1 << 62), -(1 << 32), -1, 0, 1, 1 << 31, 1 << 32,
		1<<62 - 1, 1 << 62, math.MaxInt64/2 + 1, math.MaxInt64 - 7, math.MaxInt64 - 1, math.MaxInt64}
	steps := func() int {
		switch r.Intn(5) {
		case 0:
			return r.Range(1, 9)
		case 1:
			return 1 << uint(r.Range(3, 61))
		case 2:
			return 1<<uint(r.Range(3, 61)) + r.Range(-3, 3)
		case 3:
			if r.Chance(1, 4) {
				return math.MinInt64 + r.Intn(3) // negated below or used as is: -step wraps for MinInt
			}
			return math.MaxInt64 - r.Intn(4)
		default:
			return r.Range(10, 100000)
		}
	}
	emitted, tried := 0, 0
	for emitted < g.Pick(600, 6000) && tried < 200000 {
		tried++
		a := anchors[r.Intn(len(anchors))]
		st := steps()
		// start near an anchor, end = start +- about c steps (wrapping sums are simply rejected below)
		start := big.NewInt(int64(a))
		start.Add(start, big.NewInt(int64(r.Range(-3, 3))))
		c := big.NewInt(int64(r.Intn(40)))
		span := new(big.Int).Mul(c, big.NewInt(int64(st)))
		span.Add(span, big.NewInt(int64(r.Range(-2, 2))))
		end := new(big.Int)
		if r.Bool() {
			end.Add(start, span)
		} else {
			end.Sub(start, span)
			st = -st
		}
		if r.Chance(1, 10) { // end at another anchor
			end = big.NewInt(int64(anchors[r.Intn(len(anchors))]))
			if end.Cmp(start) < 0 && st > 0 || end.Cmp(start) > 0 && st < 0 {
				st = -st
			}
		}
		if r.Chance(1, 12) {
			st = -st // infinite set: panics by comparison only
		}
		if !fits(start) || !fits(end) {
			continue
		}
		s, e := int(start.Int64()), int(end.Int64())
		if !rangeCountOK(s, e, st, 2000) {
			continue
		}
		g.Emit(fmt.Sprintf("range %d %d %d;", s, e, st))
		emitted++
	}
	g.Note(fmt.Sprintf("extreme Range stream: %d calls with at most 2000 elements or a certain panic (of %d drawn)", emitted, tried))

	// ---- ints.Sort on sub-slices of a larger array, sizes around the insertion sort threshold,
	// huge runs of one value, killers behind a prefix
	sub := func(a []int) {
		post := r.Intn(7)
		if r.Chance(1, 3) {
			post = r.Range(7, 40) // room for a slice widened to some fixed size
		}
		g.Emit(fmt.Sprintf("sortsub %d %d;%s", r.Intn(7), post, strings.TrimPrefix(sortCase(a), "sort;")))
	}
	for n := 0; n <= 45; n++ {
		for rep := 0; rep < g.Pick(3, 12); rep++ {
			a := make([]int, n)
			k := r.Range(1, n+2)
			for j := range a {
				a[j] = r.Intn(k) - k/2
			}
			if r.Chance(1, 5) {
				for j := range a {
					a[j] = extremes[r.Intn(len(extremes))]
				}
			}
			sub(a)
		}
	}
	for i := 0; i < g.Pick(40, 300); i++ { // one value almost everywhere
		n := []int{12, 13, 14, 41, 60, 100, 257, 600}[r.Intn(8)]
		if g.Thorough() && r.Chance(1, 6) {
			n = 2000
		}
		a := make([]int, n)
		v := r.Range(-2, 2)
		for j := range a {
			a[j] = v
		}
		for t := r.Intn(6); t > 0; t-- {
			a[r.Intn(n)] = v + r.Range(-1, 1)
		}
		if r.Bool() { // two long runs
			w := v + 1 - 2*r.Intn(2)
			for j := r.Intn(n); j < n; j++ {
				a[j] = w
			}
		}
		sub(a)
		g.Emit(sortCase(a))
	}
	for _, n := range []int{13, 20, 41, 64, 100, 257} {
		a, _ := killer(n)
		sub(a)
	}
}
