package main

import (
	"fmt"
	"math"
	"sort"
	"strconv"
	"strings"

	"verifharness/hx"
)

func sortCase(a []int) string {
	s := make([]string, len(a))
	for i, v := range a {
		s[i] = strconv.Itoa(v)
	}
	return "sort;" + strings.Join(s, " ")
}

// ---- McIlroy's adversary ("A Killer Adversary for Quicksort", 1999) run against a transcription
// of the algorithm of ints/int_sort.go that compares through a callback.  The values it fixes
// make that algorithm partition badly at every level, so that ints.Sort exhausts maxDepth and
// falls into heapSort.  The transcription is used only to construct inputs (and to count how
// many of them reach heapSort); the observation always comes from ints.Sort itself.
type adversary struct {
	val       []int
	gas       int
	nsolid    int
	candidate int
	heap      bool // the transcription reached heapSort
}

func (ad *adversary) less(x, y int) bool {
	if ad.val[x] == ad.gas && ad.val[y] == ad.gas {
		if x == ad.candidate {
			ad.val[x] = ad.nsolid
		} else {
			ad.val[y] = ad.nsolid
		}
		ad.nsolid++
	}
	if ad.val[x] == ad.gas {
		ad.candidate = x
	} else if ad.val[y] == ad.gas {
		ad.candidate = y
	}
	return ad.val[x] < ad.val[y]
}

type advSorter struct {
	d  []int // item numbers
	ad *adversary
}

func (s *advSorter) lt(i, j int) bool { return s.ad.less(s.d[i], s.d[j]) }
func (s *advSorter) swap(i, j int)    { s.d[i], s.d[j] = s.d[j], s.d[i] }

func (s *advSorter) insertionSort(a, b int) {
	for i := a + 1; i < b; i++ {
		for j := i; j > a && s.lt(j, j-1); j-- {
			s.swap(j, j-1)
		}
	}
}

func (s *advSorter) siftDown(lo, hi, first int) {
	root := lo
	for {
		child := 2*root + 1
		if child >= hi {
			break
		}
		if child+1 < hi && s.lt(first+child, first+child+1) {
			child++
		}
		if !s.lt(first+root, first+child) {
			return
		}
		s.swap(first+root, first+child)
		root = child
	}
}

func (s *advSorter) heapSort(a, b int) {
	s.ad.heap = true
	first, lo, hi := a, 0, b-a
	for i := (hi - 1) / 2; i >= 0; i-- {
		s.siftDown(i, hi, first)
	}
	for i := hi - 1; i >= 0; i-- {
		s.swap(first, first+i)
		s.siftDown(lo, i, first)
	}
}

func (s *advSorter) medianOfThree(m1, m0, m2 int) {
	if s.lt(m1, m0) {
		s.swap(m1, m0)
	}
	if s.lt(m2, m1) {
		s.swap(m2, m1)
		if s.lt(m1, m0) {
			s.swap(m1, m0)
		}
	}
}

func (s *advSorter) doPivot(lo, hi int) (midlo, midhi int) {
	m := int(uint(lo+hi) >> 1)
	if hi-lo > 40 {
		t := (hi - lo) / 8
		s.medianOfThree(lo, lo+t, lo+2*t)
		s.medianOfThree(m, m-t, m+t)
		s.medianOfThree(hi-1, hi-1-t, hi-1-2*t)
	}
	s.medianOfThree(lo, m, hi-1)
	pivot := lo
	a, c := lo+1, hi-1
	for ; a < c && s.lt(a, pivot); a++ {
	}
	b := a
	for {
		for ; b < c && !s.lt(pivot, b); b++ {
		}
		for ; b < c && s.lt(pivot, c-1); c-- {
		}
		if b >= c {
			break
		}
		s.swap(b, c-1)
		b++
		c--
	}
	protect := hi-c < 5
	if !protect && hi-c < (hi-lo)/4 {
		dups := 0
		if !s.lt(pivot, hi-1) {
			s.swap(c, hi-1)
			c++
			dups++
		}
		if !s.lt(b-1, pivot) {
			b--
			dups++
		}
		if !s.lt(m, pivot) {
			s.swap(m, b-1)
			b--
			dups++
		}
		protect = dups > 1
	}
	if protect {
		for {
			for ; a < b && !s.lt(b-1, pivot); b-- {
			}
			for ; a < b && s.lt(a, pivot); a++ {
			}
			if a >= b {
				break
			}
			s.swap(a, b-1)
			a++
			b--
		}
	}
	s.swap(pivot, b-1)
	return b - 1, c
}

func (s *advSorter) quickSort(a, b, maxDepth int) {
	for b-a > 12 {
		if maxDepth == 0 {
			s.heapSort(a, b)
			return
		}
		maxDepth--
		mlo, mhi := s.doPivot(a, b)
		if mlo-a < b-mhi {
			s.quickSort(a, mlo, maxDepth)
			a = mhi
		} else {
			s.quickSort(mhi, b, maxDepth)
			b = mlo
		}
	}
	if b-a > 1 {
		for i := a + 6; i < b; i++ {
			if s.lt(i, i-6) {
				s.swap(i, i-6)
			}
		}
		s.insertionSort(a, b)
	}
}

// killer returns an input of length n on which the transcribed algorithm was driven into its
// worst case, and whether heapSort was reached.
func killer(n int) ([]int, bool) {
	ad := &adversary{val: make([]int, n), gas: n}
	d := make([]int, n)
	for i := range d {
		d[i] = i
		ad.val[i] = ad.gas
	}
	depth := 0
	for i := n; i > 0; i >>= 1 {
		depth++
	}
	(&advSorter{d: d, ad: ad}).quickSort(0, n, depth*2)
	return ad.val, ad.heap
}

func genSort(g *hx.Gen) {
	r := g.Rng
	// ---- every array over {0,1,2}: lengths 0..10 always; 11..13 sampled in the quick tier
	full := g.Pick(10, 13)
	for n := 0; n <= 13; n++ {
		p := n - 7 // prefix length: at most 3^7 arrays per case
		if p < 0 {
			p = 0
		}
		total := 1
		for i := 0; i < p; i++ {
			total *= 3
		}
		emit := func(k int) {
			pre := make([]byte, p)
			for i := p - 1; i >= 0; i-- {
				pre[i] = byte('0' + k%3)
				k /= 3
			}
			g.Emit(fmt.Sprintf("sortall %d %s;", n, string(pre)))
		}
		if n <= full {
			for k := 0; k < total; k++ {
				emit(k)
			}
		} else {
			for i := 0; i < 24; i++ {
				emit(r.Intn(total))
			}
		}
	}
	g.Exhaustive(fmt.Sprintf("ints.Sort on every array over {0,1,2} of every length 0..%d", full))

	// ---- structured random inputs
	// The extracted model works on lists (every read and write is linear in the index), so the
	// model driver costs about 0.8 us * n^2 per case: the sizes are budgeted by the sum of n^2
	// (quick about 2e7, thorough about 6e8); the few large inputs are added explicitly below.
	sizes := func() int {
		switch r.Intn(10) {
		case 0, 1, 2:
			return r.Range(0, 14)
		case 3, 4, 5:
			return r.Range(13, 60)
		case 6, 7, 8:
			return r.Range(41, 300)
		default:
			return r.Range(300, g.Pick(600, 1200))
		}
	}
	count := g.Pick(400, 3000)
	for i := 0; i < count; i++ {
		n := sizes()
		a := make([]int, n)
		switch r.Intn(9) {
		case 0: // wide random
			for j := range a {
				a[j] = int(r.U64())
			}
		case 1: // sorted with a few swaps
			for j := range a {
				a[j] = j - n/2
			}
			for k := r.Intn(4); k > 0 && n > 0; k-- {
				x, y := r.Intn(n), r.Intn(n)
				a[x], a[y] = a[y], a[x]
			}
		case 2: // reverse
			for j := range a {
				a[j] = n - j
			}
		case 3: // many duplicates
			k := r.Range(1, 5)
			for j := range a {
				a[j] = r.Intn(k)
			}
		case 4: // organ pipe
			for j := range a {
				a[j] = j
				if j > n/2 {
					a[j] = n - j
				}
			}
		case 5: // sawtooth
			k := r.Range(2, 17)
			for j := range a {
				a[j] = j % k
			}
		case 6: // extremes mixed with small values
			for j := range a {
				a[j] = extremes[r.Intn(len(extremes))]
				if r.Bool() {
					a[j] = r.Range(-3, 3)
				}
			}
		case 7: // all equal but a few
			for j := range a {
				a[j] = 5
			}
			for k := r.Intn(4); k > 0 && n > 0; k-- {
				a[r.Intn(n)] = r.Range(0, 10)
			}
		default: // moderate range
			for j := range a {
				a[j] = r.Range(-n, n)
			}
		}
		g.Emit(sortCase(a))
	}
	// short arrays with repeated values (13..96 cells, 2..n/2 distinct values): layouts in which the
	// partition point, the pivot copies and the probed cells of doPivot coincide are frequent only here
	for i := 0; i < g.Pick(800, 8000); i++ {
		n := r.Range(13, 96)
		k := r.Range(2, n/2)
		a := make([]int, n)
		for j := range a {
			a[j] = r.Intn(k)
		}
		if r.Chance(1, 4) { // nearly sorted with repeats
			sortInts(a)
			for t := r.Intn(4); t > 0; t-- {
				x, y := r.Intn(n), r.Intn(n)
				a[x], a[y] = a[y], a[x]
			}
		}
		g.Emit(sortCase(a))
	}

	// ---- runs with misplaced ends: an ascending (or descending, or constant) run of every length 2..N
	// (both parities, every length across the insertion-sort / quickSort boundary and the capacity
	// doublings) whose last 1..3 or first 1..3 cells are out of place ("append, then sort again";
	// "push to the front, then sort").  Any pre-check for "already in order", any unrolled or
	// strided scan, and any merge of a sorted prefix with a tail is decided by exactly these cells.
	endN := g.Pick(96, 200)
	for n := 2; n <= endN; n++ {
		base := make([]int, n)
		for j := range base {
			base[j] = 2 * j // even values: odd ones fall strictly between
		}
		variants := 0
		emitV := func(a []int) { g.Emit(sortCase(a)); variants++ }
		// last cell too small / in the middle / equal to its predecessor's predecessor
		for _, v := range []int{-1, n - 1 | 1, 2*(n-1) - 3} {
			a := append([]int(nil), base...)
			a[n-1] = v
			emitV(a)
		}
		// first cell too large / in the middle
		for _, v := range []int{2*n + 1, n | 1} {
			a := append([]int(nil), base...)
			a[0] = v
			emitV(a)
		}
		if n >= 4 {
			// the last two / three cells form their own ascending run below the prefix's end
			a := append([]int(nil), base...)
			a[n-2], a[n-1] = 1, 3
			emitV(a)
			a = append([]int(nil), base...)
			a[n-3], a[n-2], a[n-1] = 2*(n-3)+1, 2*(n-3)-1, 2*(n-3)-3
			emitV(a)
			// exactly one adjacent descent at a chosen place: last-but-one pair, first pair, middle
			for _, at := range []int{n - 3, 0, n / 2} {
				a = append([]int(nil), base...)
				a[at], a[at+1] = a[at+1], a[at]
				emitV(a)
			}
		}
		// descending with the last cell too large; constant with the last cell smaller
		a := make([]int, n)
		for j := range a {
			a[j] = -2 * j
		}
		a[n-1] = 1
		emitV(a)
		for j := range a {
			a[j] = 7
		}
		a[n-1] = 6
		emitV(a)
		_ = variants
	}
	g.Exhaustive(fmt.Sprintf("ints.Sort on ascending/descending/constant runs of every length 2..%d with misplaced first or last cells and single adjacent descents", endN))

	// the largest sizes: 1000 in the quick tier, up to 5000 in the thorough tier
	large := []int{1000}
	if g.Thorough() {
		large = []int{1500, 2000, 2500, 3000, 4000, 5000}
	}
	for _, n := range large {
		a := make([]int, n)
		for j := range a {
			a[j] = int(r.U64() >> 1)
		}
		g.Emit(sortCase(a))
		for j := range a {
			a[j] = n - j
		}
		g.Emit(sortCase(a))
		k := r.Range(2, 9)
		for j := range a {
			a[j] = r.Intn(k)
		}
		g.Emit(sortCase(a))
	}

	// ---- median-of-three / ninther killers: force the heapSort path
	ks := []int{13, 20, 41, 64, 100, 257, 1000}
	if g.Thorough() {
		for n := 13; n <= 400; n++ {
			ks = append(ks, n)
		}
		ks = append(ks, 2000, 3000, 5000)
	}
	reached := 0
	for _, n := range ks {
		a, heap := killer(n)
		if heap {
			reached++
		}
		g.Emit(sortCase(a))
		// the same shape with duplicates and with shifted extreme values
		b := make([]int, n)
		for j := range a {
			b[j] = a[j] / 2
		}
		g.Emit(sortCase(b))
		for j := range a {
			b[j] = math.MinInt64 + a[j]
		}
		g.Emit(sortCase(b))
	}
	g.Note(fmt.Sprintf("killer inputs: %d of %d sizes drive the transcribed algorithm into heapSort", reached, len(ks)))
}

func sortInts(a []int) { sort.Ints(a) }
