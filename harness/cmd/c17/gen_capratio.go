package main

import (
	"fmt"
	"strconv"

	"verifharness/hx"
)

// genCapRatio: receivers of every fill ratio in large backing arrays.  A mutator may take a
// different path depending on len(s) relative to cap(s) (grow, shrink, compact, reuse); receivers
// built by Range/Add/Union have len == cap and one-at-a-time histories cross every threshold
// exactly, so only a receiver that STARTS far from the threshold (a short prefix of a long array,
// NewSortedInts with many repeats, the in-place Union into a big buffer) sees the other side.
// cap in {64, 65, 128, 256, 512} x len in {0, 1, 2, cap/8, cap/4-1, cap/4, cap/4+1, cap/2-1,
// cap/2, cap/2+1, cap-1, cap} x {Remove present first/middle/last, Remove absent, Add, Union method,
// then the same call again on the result}.
func genCapRatio(g *hx.Gen) {
	caps := []int{64, 65, 128, 256}
	if g.Thorough() {
		caps = append(caps, 100, 512, 1024)
	}
	n := 0
	for _, c := range caps {
		lens := []int{0, 1, 2, c / 8, c/4 - 1, c / 4, c/4 + 1, c/2 - 1, c / 2, c/2 + 1, c - 1, c}
		for _, l := range lens {
			recv := make([]int, l)
			for i := range recv {
				recv[i] = 3*i - c // negative and positive values, gaps of 3
			}
			poison := poisonCells(c - l)
			it := func(x int) string { return strconv.Itoa(x) }
			var hist [][]string
			if l > 0 {
				first, mid, last := recv[0], recv[l/2], recv[l-1]
				hist = append(hist,
					[]string{"r:" + it(first), "s:" + it(first), "r:" + it(last)},
					[]string{"r:" + it(mid), "r:" + it(mid), "a:" + it(mid)},
					[]string{"r:" + it(last), "a:" + it(last+1) + "," + it(first-1)},
					[]string{"r:" + it(mid+1), "r:" + it(mid)}, // absent, then present
				)
			}
			hist = append(hist,
				[]string{"a:" + it(-c-5) + "," + it(1) + "," + it(1), "r:1"},
				[]string{"u:" + it(-c-7) + "," + it(2) + "," + it(4*c), "r:2"},
				[]string{"r:" + it(5*c)},
			)
			for _, ops := range hist {
				g.Emit(seqCase(recv, poison, ops))
				n++
			}
		}
	}
	g.Note(fmt.Sprintf("capacity-ratio receivers: %d histories over cap %v x 12 fill ratios", n, caps))
}
