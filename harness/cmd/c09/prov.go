package main

// Provenance of the Graph value, aliasing of inputs and results, hidden state (hardening pass).
//
// Besides the nine representations of gx.Build, a variant token may carry one of the tags below;
// each builds the same abstract graph H = base.Relabel(perm) another way the API allows, with the
// guard that the built value presents exactly H (N, M, IsEdge, ascending Neighbours, Degrees):
//
//	W  NewDense from an edge array with arbitrary non-zero bytes (2, 7, 128, 255 mixed with 1)
//	H  DenseGraph reached through an edit history (junk vertices and edges added and removed:
//	   stale capacity in the edge array and the degree slice)
//	S  SparseGraph reached through an edit history
//	C  Copy() of an edited DenseGraph, the original edited further afterwards
//	D  Graph6Decode of the harness's own graph6 text
//	E  Sparse6Decode(Sparse6Encode(.))        M  MulticodeDecode(MulticodeEncode(.))
//	V  induced-subgraph view into a larger editable dense graph whose base is edited between
//	   every two calls (edges among the unselected vertices toggled, a vertex appended/removed)
//	U  a user-defined implementation of the Graph interface (adjacency lists; Neighbours and
//	   Degrees hand out its internal slices)
//
// tick() is called between every two library calls of observe: it performs the base edits of V,
// checks that the argument still presents H (no function may modify its argument) and that
// every result held from earlier calls — of this variant, of earlier variants and of earlier
// cases of the same worker process — still reads as it did when it was returned.

import (
	"fmt"

	"github.com/Tom-Johnston/mamba/graph"
	"github.com/Tom-Johnston/mamba/sortints"
	"verifharness/cmd/c09/gx"
	"verifharness/hx"
)

const extraReps = "WHSCDEMVU"

type userGraph struct {
	nb  [][]int
	deg []int
	m   int
}

func (u *userGraph) N() int { return len(u.nb) }
func (u *userGraph) M() int { return u.m }
func (u *userGraph) IsEdge(i, j int) bool {
	if i < 0 || j < 0 || i >= len(u.nb) || j >= len(u.nb) {
		return false
	}
	for _, x := range u.nb[i] {
		if x == j {
			return true
		}
	}
	return false
}
func (u *userGraph) Neighbours(v int) []int { return u.nb[v] }
func (u *userGraph) Degrees() []int         { return u.deg }

func denseOf(h *gx.G) *graph.DenseGraph { return graph.NewDense(h.N, h.EdgeArray()) }

// editedDense builds H through a history: three junk vertices are interleaved, junk edges are
// added, then everything foreign is removed again.
func editedDense(h *gx.G, e graph.EditableGraph) graph.EditableGraph {
	n := h.N
	// append junk vertices joined to every second / third vertex
	for k := 0; k < 3; k++ {
		var nb []int
		for v := 0; v < e.N(); v++ {
			if v%(k+2) == 0 {
				nb = append(nb, v)
			}
		}
		e.AddVertex(nb)
	}
	// build H's edges on the first n vertices, with foreign edges added and removed around them
	for i := 0; i < n; i++ {
		for j := 0; j < i; j++ {
			e.AddEdge(i, j)
		}
	}
	for i := 0; i < n; i++ {
		for j := 0; j < i; j++ {
			if !h.A[i][j] {
				e.RemoveEdge(i, j)
			}
		}
	}
	e.RemoveVertex(n + 1)
	e.RemoveVertex(n)
	e.RemoveVertex(n)
	e.AddVertex(nil)
	e.RemoveVertex(n)
	return e
}

// buildAny returns the graph of a variant and the action to perform between two calls.
func buildAny(rep byte, base *gx.G, perm []int) (graph.Graph, func()) {
	nop := func() {}
	h := base.Relabel(perm)
	n := h.N
	switch rep {
	case 'W':
		ea := h.EdgeArray()
		marks := []byte{2, 7, 128, 255, 1, 3}
		for i := range ea {
			if ea[i] != 0 {
				ea[i] = marks[i%len(marks)]
			}
		}
		return graph.NewDense(n, ea), nop
	case 'H':
		return editedDense(h, graph.NewDense(n, nil)), nop
	case 'S':
		return editedDense(h, graph.NewSparse(n, nil)), nop
	case 'C':
		orig := editedDense(h, graph.NewDense(n, nil))
		cp := orig.Copy()
		if n >= 2 { // the original goes on living
			orig.AddEdge(0, 1)
			orig.RemoveEdge(0, 1)
			orig.AddVertex([]int{0})
		}
		return cp, nop
	case 'D':
		g, err := graph.Graph6Decode(h.G6())
		if err != nil {
			return denseOf(h), nop
		}
		return g, nop
	case 'E':
		g, err := graph.Sparse6Decode(graph.Sparse6Encode(denseOf(h)))
		if err != nil {
			return denseOf(h), nop
		}
		return g, nop
	case 'M':
		if n > 255 {
			return denseOf(h), nop
		}
		return graph.MulticodeDecode(graph.MulticodeEncode(denseOf(h))), nop
	case 'V':
		// base vertices are 1..n of a graph on n+2 vertices
		big := gx.New(n + 2)
		for i := 0; i < n; i++ {
			for j := 0; j < n; j++ {
				big.A[i+1][j+1] = base.A[i][j]
			}
			if i%3 == 0 {
				big.Add(0, i+1)
			}
		}
		bd := denseOf(big)
		p := make([]int, len(perm))
		for i, v := range perm {
			p[i] = v + 1
		}
		step := 0
		tick := func() {
			step++
			switch step % 4 {
			case 0:
				bd.AddEdge(0, n+1)
			case 1:
				bd.RemoveEdge(0, n+1)
			case 2:
				bd.AddVertex([]int{0, n + 1})
			case 3:
				bd.RemoveVertex(bd.N() - 1)
			}
		}
		return graph.InducedSubgraph(bd, p), tick
	case 'U':
		u := &userGraph{nb: make([][]int, n), deg: make([]int, n)}
		for v := 0; v < n; v++ {
			u.nb[v] = h.Nbrs(v)
			u.deg[v] = len(u.nb[v])
			u.m += len(u.nb[v])
		}
		u.m /= 2
		return u, nop
	}
	return gx.Build(rep, base, perm), nop
}

var _ = sortints.SortedInts{}

// presents reports whether g presents exactly h through the Graph interface.
func presents(g graph.Graph, h *gx.G) bool {
	if g.N() != h.N || g.M() != h.M() {
		return false
	}
	deg := g.Degrees()
	if len(deg) != h.N {
		return false
	}
	for v := 0; v < h.N; v++ {
		if deg[v] != h.Deg(v) {
			return false
		}
	}
	return sameGraph(g, h)
}

// ---------------------------------------------------------------- held results

type heldResult struct {
	what string
	read func() string
	snap string
}

// results of earlier calls, kept across variants and across the cases of one worker process
var held []heldResult

const maxHeld = 40

func hold(what string, read func() string) {
	if len(held) >= maxHeld {
		held = held[len(held)-maxHeld/2:]
	}
	held = append(held, heldResult{what, read, read()})
}

func holdInts(what string, s []int) {
	if s != nil {
		hold(what, func() string { return gx.JoinInts(s, ".") })
	}
}

// checkHeld re-reads every held result.
func checkHeld(where string, viol *[]hx.OracleViolation) {
	for i := range held {
		if now := held[i].read(); now != held[i].snap {
			*viol = append(*viol, hx.Fail("C09:alias:"+held[i].what, "the result %s read [%s] when it was returned and reads [%s] after %s: a later call wrote into an earlier result", held[i].what, clip(held[i].snap), clip(now), where))
			held[i].snap = now
		}
	}
}

// resnapHeld: the caller has written into results it holds; from now on they must read like that.
func resnapHeld() {
	for i := range held {
		held[i].snap = held[i].read()
	}
}

func clip(s string) string {
	if len(s) > 120 {
		return s[:120] + "..."
	}
	return s
}

func fmtBytes(b []byte) string { return fmt.Sprint(b) }
