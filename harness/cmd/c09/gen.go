package main

import (
	"fmt"

	"verifharness/cmd/c09/gx"
	"verifharness/hx"
)

// model-side limits: level 1 cases make the extracted references recompute the chromatic
// index and the colouring counts too.
func levelOf(g *gx.G) int {
	if g.N <= 5 || (g.N == 6 && g.M() <= 11) {
		return 1
	}
	return 0
}

func permutations(n int, f func(p []int)) {
	p := gx.Identity(n)
	var rec func(k int)
	rec = func(k int) {
		if k == n {
			f(append([]int(nil), p...))
			return
		}
		for i := k; i < n; i++ {
			p[k], p[i] = p[i], p[k]
			rec(k + 1)
			p[k], p[i] = p[i], p[k]
		}
	}
	rec(0)
}

// colourTokens draws candidate colourings: a proper one, near misses, malformed ones.
func colourTokens(r *hx.Rng, g *gx.G, k int) []string {
	n := g.N
	var out []string
	proper := refGreedy(g, r.Perm(n))
	for i := 0; i < k; i++ {
		c := append([]int(nil), proper...)
		switch r.Intn(8) {
		case 0: // proper
		case 1: // copy a neighbour's colour (improper when the graph has an edge)
			if n > 0 {
				v := r.Intn(n)
				if nb := g.Nbrs(v); len(nb) > 0 {
					c[v] = c[nb[r.Intn(len(nb))]]
				}
			}
		case 2: // a negative colour
			if n > 0 {
				c[r.Intn(n)] = -1 - r.Intn(2)
			}
		case 3: // wrong length
			if r.Bool() && n > 0 {
				c = c[:n-1]
			} else {
				c = append(c, 0)
			}
		case 4: // few colours at random
			for j := range c {
				c[j] = r.Intn(3)
			}
		case 5: // large colours, proper iff greedy was
			for j := range c {
				c[j] = c[j]*1000 + 7
			}
		case 6: // colours near the ends of the integer range (the model driver reads 63-bit integers)
			top := 1<<62 - 1
			for j := range c {
				c[j] = top - c[j]
			}
			if r.Bool() && n > 0 {
				c[r.Intn(n)] = -top - 1
			}
		default: // two colours swapped in a proper colouring stays proper; then one random change
			if n > 0 {
				c[r.Intn(n)] = r.Intn(n + 1)
			}
		}
		out = append(out, gx.TokString('p', c))
	}
	return out
}

func gen(g *hx.Gen) {
	r := g.Rng
	emit := func(gr *gx.G, nvar, nord, ncol int, reps string) {
		toks := gx.Variants(r, gr.N, nvar+1, reps)[1:]
		for i := 0; i < 2; i++ { // provenance variants (prov.go)
			toks = append(toks, gx.TokString(extraReps[r.Intn(len(extraReps))], r.Perm(gr.N)))
		}
		for i := 0; i < nord; i++ {
			toks = append(toks, gx.TokString('o', r.Perm(gr.N)))
		}
		toks = append(toks, colourTokens(r, gr, ncol)...)
		g.Emit(gx.CaseLine(gr, levelOf(gr), toks))
	}
	all := gx.Reps

	// corpus: the known finding C09:chromatic-index-byte-wrap (KNOWN_FINDINGS.txt).  ChromaticIndex
	// alone on the star K_{1,256} and on a tree with a vertex of degree 257 (see big.go).
	// (third field 1 = also run the extracted model on it and compare the edge array, 17 s: thorough tier)
	g.Emit(gx.CaseLine(gx.Empty(1), 0, []string{[]string{"B:256.0", "B:256.0.1"}[g.Pick(0, 1)]}))
	g.Emit(gx.CaseLine(gx.Empty(1), 0, []string{"B:257.12"}))

	// call sequences on related inputs with the caller writing into every result (seq.go)
	for _, m := range []int{3, 6, 8} {
		g.Emit(gx.CaseLine(gx.Empty(1), 0, []string{gx.TokString('Q', []int{m})}))
	}

	// large graphs with answers known by construction, at sizes / degrees / counter values around
	// 128, 256 (and 512 in the thorough tier): see constructed.go.  One token per case.
	sizes := []int{15, 16, 17, 31, 32, 33, 63, 64, 65, 127, 128, 129, 255, 256, 257}
	if g.Pick(0, 1) == 1 {
		sizes = append(sizes, 511, 512, 513)
	}
	big := func(fam, a, b, c int) {
		g.Emit(gx.CaseLine(gx.Empty(1), 0, []string{gx.TokString('G', []int{fam, a, b, c, r.Intn(1 << 30)})}))
	}
	for _, m := range sizes {
		big(0, m, 0, 0)           // star
		big(1, m, 3, 0)           // double star, one big hub
		big(1, m-1, m, 0)         // double star, two big hubs
		big(2, m, 2+r.Intn(5), 0) // complete bipartite with a huge side
		big(3, m, 1+r.Intn(3), 1+r.Intn(3))
		for q := 3; q <= 4; q++ { // z collects m neighbours of one colour
			big(4, q, m, m+1)
		}
		big(4, 3, m, 0)
		big(6, m, 2+r.Intn(m-1), 0)
		if m <= 300 && (m%2 == 0 || m > 250 && g.Pick(0, 1) == 1) { // big clique with pendant leaves (seconds each above 250)
			big(5, m, 1, 0)
		}
		big(5, 3+r.Intn(6), m/4, 0) // small clique, many leaves
	}

	// many maximal cliques of one size across 8 / 16 / 32 / 64: K_a joined to t disjoint non-edges
	for _, sz := range []int{7, 8, 9, 15, 16, 17, 31, 32, 33, 63, 64, 65} {
		for _, t := range []int{2, 3 + r.Intn(2), 5, g.Pick(6, 8+r.Intn(3))} {
			if t <= sz {
				big(7, sz-t, t, 0)
			}
		}
	}
	big(7, 12, 5, 0)
	big(7, 0, 8, 0) // cocktail party graph: 256 cliques of size 8

	// volume where the branch and bound backtracks: batches of planted k-partite graphs checked
	// without an exponential oracle (planted.go) ...
	batches := g.Pick(24, 600)
	for i := 0; i < batches; i++ {
		g.Emit(gx.CaseLine(gx.Empty(1), 0, []string{gx.TokString('P', []int{r.Intn(1 << 30), 1000})}))
	}
	// ... and single planted graphs, n = 12..22, through the extracted proved model of dfsDsatur
	singles := g.Pick(300, 5000)
	for i := 0; i < singles; i++ {
		gr, _ := plantedGraph(r, 12, 22)
		g.Emit(gx.CaseLine(gr, 2, gx.Variants(r, gr.N, 3, "ds")[1:]))
	}

	// n = 0, 1, 2: every representation, every relabelling
	for n := 0; n <= 2; n++ {
		gx.AllLabelled(n, func(gr *gx.G) {
			var toks []string
			permutations(n, func(p []int) {
				for i := 0; i < len(all); i++ {
					toks = append(toks, gx.TokString(all[i], p))
				}
				for i := 0; i < len(extraReps); i++ {
					toks = append(toks, gx.TokString(extraReps[i], p))
				}
				toks = append(toks, gx.TokString('o', p))
			})
			toks = append(toks, colourTokens(r, gr, 6)...)
			g.Emit(gx.CaseLine(gr, 1, toks))
		})
	}
	// all labelled graphs n = 3, 4, 5, all vertex orders for GreedyColor
	top := 5
	for n := 3; n <= top; n++ {
		gx.AllLabelled(n, func(gr *gx.G) {
			toks := gx.Variants(r, n, g.Pick(5, 9)+1, all)[1:]
			for i := 0; i < 2; i++ {
				toks = append(toks, gx.TokString(extraReps[r.Intn(len(extraReps))], r.Perm(n)))
			}
			permutations(n, func(p []int) { toks = append(toks, gx.TokString('o', p)) })
			toks = append(toks, colourTokens(r, gr, 4)...)
			g.Emit(gx.CaseLine(gr, 1, toks))
		})
	}
	g.Exhaustive(fmt.Sprintf("all labelled graphs with n <= %d vertices, each with all n! vertex orders for GreedyColor", top))

	// one graph per isomorphism class
	topc := g.Pick(7, 8)
	for n := 3; n <= topc; n++ {
		nv := g.Pick(5, 20)
		if n == 8 {
			nv = 8
		}
		for _, gr := range gx.IsoClasses(n) {
			emit(gr, nv, 3, 3, all)
		}
	}
	g.Exhaustive(fmt.Sprintf("one graph per isomorphism class with n <= %d vertices (brute-force canonical forms)", topc))

	// fixed families
	fixed := []*gx.G{gx.Petersen(), gx.Cube(), gx.Complete(7), gx.Complete(8), gx.Cycle(9), gx.Cycle(10), gx.Path(9),
		gx.Multipartite([]int{3, 3}), gx.Multipartite([]int{2, 2, 2}), gx.Multipartite([]int{1, 2, 3}), gx.Multipartite([]int{2, 2, 2, 2}),
		gx.Wheel(6), gx.Wheel(7), gx.Ladder(4, true), gx.Union(gx.Cycle(5), gx.Complete(4)), gx.Union(gx.Petersen(), gx.Empty(1)),
		gx.Empty(9), gx.Star(9), gx.Friendship(4), gx.CycleSquare(8), gx.Complement(gx.Cycle(7))}
	for _, gr := range fixed {
		emit(gr, 8, 4, 4, all)
	}

	// random and structured graphs
	maxN := g.Pick(10, 11)
	count := g.Pick(700, 12000)
	dens := [][2]int{{1, 5}, {1, 3}, {1, 2}, {2, 3}, {4, 5}, {9, 10}}
	for i := 0; i < count; i++ {
		var gr *gx.G
		switch r.Intn(10) {
		case 0, 1, 2, 3:
			d := dens[r.Intn(len(dens))]
			gr = gx.Random(r, r.Range(5, maxN), d[0], d[1])
		case 4:
			gr = gx.RandomTree(r, r.Range(2, maxN))
		case 5:
			gr = gx.RandomCactus(r, r.Range(3, maxN))
		case 6:
			gr = gx.RandomBlocky(r, r.Range(3, maxN))
		case 7:
			gr = gx.ManyShortCycles(r, maxN)
		case 8:
			gr = gx.RandomMultipartite(r, maxN)
		default:
			a := gx.Random(r, r.Range(1, maxN/2), 1, 2)
			b := gx.ManyShortCycles(r, maxN-a.N)
			gr = gx.Union(a, b)
		}
		emit(gr, g.Pick(4, 6), 2, 3, all)
	}
}
