package main

// Brute-force reference implementations for C09, written against the harness's own graph
// type and independent of the library: everything is computed from the definitions by
// enumeration (subsets, colourings, partitions).

import (
	"math/big"
	"sort"

	"verifharness/cmd/c09/gx"
)

func adjMasks(g *gx.G) []uint32 {
	a := make([]uint32, g.N)
	for i := 0; i < g.N; i++ {
		for j := 0; j < g.N; j++ {
			if g.A[i][j] {
				a[i] |= 1 << uint(j)
			}
		}
	}
	return a
}

func bitsOf(s uint32) []int {
	var r []int
	for v := 0; s>>uint(v) != 0; v++ {
		if s>>uint(v)&1 == 1 {
			r = append(r, v)
		}
	}
	return r
}

// refMaximalCliques enumerates all vertex subsets, keeps the cliques that no vertex extends.
// The empty set is a clique; it is maximal exactly when n = 0.
func refMaximalCliques(g *gx.G) [][]int {
	a := adjMasks(g)
	out := [][]int{}
	for s := uint32(0); s < 1<<uint(g.N); s++ {
		ok := true
		common := uint32(1<<uint(g.N)) - 1
		for v := 0; v < g.N && ok; v++ {
			if s>>uint(v)&1 == 1 {
				if s&^(1<<uint(v))&^a[v] != 0 {
					ok = false
				}
				common &= a[v]
			}
		}
		if ok && common&^s == 0 {
			out = append(out, append([]int{}, bitsOf(s)...))
		}
	}
	gx.SortLists(out)
	return out
}

func refCliqueNumber(g *gx.G) int {
	w := 0
	for _, c := range refMaximalCliques(g) {
		if len(c) > w {
			w = len(c)
		}
	}
	return w
}

// isProper is the definition: right length, no negative colour, adjacent vertices differ.
func isProper(g *gx.G, col []int) bool {
	if len(col) != g.N {
		return false
	}
	for i := 0; i < g.N; i++ {
		if col[i] < 0 {
			return false
		}
		for j := 0; j < i; j++ {
			if g.A[i][j] && col[i] == col[j] {
				return false
			}
		}
	}
	return true
}

// refKColourable tries every assignment of colours 0..k-1 by backtracking over the vertices in
// index order (a partial assignment is abandoned as soon as an edge is monochromatic; no other
// pruning, in particular no symmetry breaking).
func refKColourable(g *gx.G, k int) bool {
	col := make([]int, g.N)
	var rec func(v int) bool
	rec = func(v int) bool {
		if v == g.N {
			return true
		}
		for c := 0; c < k; c++ {
			ok := true
			for u := 0; u < v; u++ {
				if g.A[u][v] && col[u] == c {
					ok = false
					break
				}
			}
			if ok {
				col[v] = c
				if rec(v + 1) {
					return true
				}
			}
		}
		return false
	}
	return rec(0)
}

func refChromaticNumber(g *gx.G) int {
	for k := 0; ; k++ {
		if refKColourable(g, k) {
			return k
		}
	}
}

// refChromaticIndex: least k such that the edges can be coloured with k colours, edges that
// share an end receiving different colours; backtracking over the edges, where an edge may
// only open the next unused colour (colour classes are interchangeable).
func refChromaticIndex(g *gx.G) int {
	e := g.Edges()
	col := make([]int, len(e))
	var rec func(i, used, k int) bool
	rec = func(i, used, k int) bool {
		if i == len(e) {
			return true
		}
		lim := used + 1
		if lim > k {
			lim = k
		}
		for c := 0; c < lim; c++ {
			ok := true
			for j := 0; j < i; j++ {
				if col[j] == c && (e[j][0] == e[i][0] || e[j][0] == e[i][1] || e[j][1] == e[i][0] || e[j][1] == e[i][1]) {
					ok = false
					break
				}
			}
			if ok {
				col[i] = c
				nu := used
				if c == used {
					nu++
				}
				if rec(i+1, nu, k) {
					return true
				}
			}
		}
		return false
	}
	for k := 0; ; k++ {
		if rec(0, 0, k) {
			return k
		}
	}
}

// refCountColourings: number of proper colourings with colours 0..k-1.  Direct enumeration when
// k^n is small; otherwise sum over the partitions of V into j non-empty independent sets of
// k(k-1)...(k-j+1) (each proper colouring is such a partition plus an injection of its parts
// into the colours).  Both are used and compared when the direct one is affordable.
func refCountColourings(g *gx.G, k int, indepParts []int64) *big.Int {
	viaParts := new(big.Int)
	for j, a := range indepParts {
		if a == 0 {
			continue
		}
		t := big.NewInt(a)
		for i := 0; i < j; i++ {
			t.Mul(t, big.NewInt(int64(k-i)))
		}
		viaParts.Add(viaParts, t)
	}
	pow := 1.0
	for i := 0; i < g.N; i++ {
		pow *= float64(k)
	}
	if pow <= 200000 {
		col := make([]int, g.N)
		var cnt int64
		var rec func(v int)
		rec = func(v int) {
			if v == g.N {
				cnt++
				return
			}
			for c := 0; c < k; c++ {
				ok := true
				for u := 0; u < v; u++ {
					if g.A[u][v] && col[u] == c {
						ok = false
						break
					}
				}
				if ok {
					col[v] = c
					rec(v + 1)
				}
			}
		}
		rec(0)
		if big.NewInt(cnt).Cmp(viaParts) != 0 {
			panic("harness reference disagrees with itself on the number of colourings")
		}
	}
	return viaParts
}

// independentPartitions[j] = number of partitions of the vertex set into j non-empty independent sets.
func independentPartitions(g *gx.G) []int64 {
	a := adjMasks(g)
	cnt := make([]int64, g.N+1)
	parts := []uint32{}
	var rec func(v int)
	rec = func(v int) {
		if v == g.N {
			cnt[len(parts)]++
			return
		}
		for i := range parts {
			if parts[i]&a[v] == 0 {
				parts[i] |= 1 << uint(v)
				rec(v + 1)
				parts[i] &^= 1 << uint(v)
			}
		}
		parts = append(parts, 1<<uint(v))
		rec(v + 1)
		parts = parts[:len(parts)-1]
	}
	rec(0)
	return cnt
}

// refDegeneracy: repeatedly delete a vertex of least degree; the largest degree seen at a
// deletion.  (Equals the maximum over induced subgraphs of the minimum degree; that too is
// computed, by subset enumeration, when n is small, and compared.)
func refDegeneracy(g *gx.G) int {
	alive := make([]bool, g.N)
	for i := range alive {
		alive[i] = true
	}
	d := 0
	for step := 0; step < g.N; step++ {
		best, bd := -1, 0
		for v := 0; v < g.N; v++ {
			if !alive[v] {
				continue
			}
			dv := 0
			for u := 0; u < g.N; u++ {
				if alive[u] && g.A[u][v] {
					dv++
				}
			}
			if best < 0 || dv < bd {
				best, bd = v, dv
			}
		}
		if bd > d {
			d = bd
		}
		alive[best] = false
	}
	if g.N <= 12 {
		a := adjMasks(g)
		mx := 0
		for s := uint32(1); s < 1<<uint(g.N); s++ {
			mn := g.N
			for _, v := range bitsOf(s) {
				if c := popcount(a[v] & s); c < mn {
					mn = c
				}
			}
			if mn > mx {
				mx = mn
			}
		}
		if mx != d {
			panic("harness reference disagrees with itself on the degeneracy")
		}
	}
	return d
}

func popcount(x uint32) int {
	c := 0
	for ; x != 0; x &= x - 1 {
		c++
	}
	return c
}

// refGreedy: first-fit along order.
func refGreedy(g *gx.G, order []int) []int {
	col := make([]int, g.N)
	for i := range col {
		col[i] = -1
	}
	for _, v := range order {
		used := map[int]bool{}
		for u := 0; u < g.N; u++ {
			if g.A[u][v] && col[u] >= 0 {
				used[col[u]] = true
			}
		}
		c := 0
		for used[c] {
			c++
		}
		col[v] = c
	}
	return col
}

func isPerm(p []int, n int) bool {
	if len(p) != n {
		return false
	}
	q := append([]int(nil), p...)
	sort.Ints(q)
	for i, v := range q {
		if v != i {
			return false
		}
	}
	return true
}
