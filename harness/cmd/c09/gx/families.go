package gx

import (
	"sort"

	"verifharness/hx"
)

// ---------------------------------------------------------------- exhaustive spaces

// AllLabelled calls f on every labelled graph with n vertices.
func AllLabelled(n int, f func(g *G)) {
	e := n * (n - 1) / 2
	for mask := 0; mask < 1<<uint(e); mask++ {
		f(fromMask(n, uint64(mask)))
	}
}

func fromMask(n int, mask uint64) *G {
	g := New(n)
	idx := uint(0)
	for j := 1; j < n; j++ {
		for i := 0; i < j; i++ {
			if mask>>idx&1 == 1 {
				g.Add(i, j)
			}
			idx++
		}
	}
	return g
}

func toMask(g *G, p []int) uint64 {
	var m uint64
	idx := uint(0)
	for j := 1; j < g.N; j++ {
		for i := 0; i < j; i++ {
			if g.A[p[i]][p[j]] {
				m |= 1 << idx
			}
			idx++
		}
	}
	return m
}

// canon is a brute-force canonical form (independent of the library): the least edge mask over
// all relabellings that list the vertices by non-increasing degree.
func canon(g *G) uint64 {
	n := g.N
	vs := Identity(n)
	deg := make([]int, n)
	for v := range deg {
		deg[v] = g.Deg(v)
	}
	sort.SliceStable(vs, func(a, b int) bool { return deg[vs[a]] > deg[vs[b]] })
	best := ^uint64(0)
	p := make([]int, n)
	used := make([]bool, n)
	var rec func(pos int)
	rec = func(pos int) {
		if pos == n {
			if m := toMask(g, p); m < best {
				best = m
			}
			return
		}
		d := deg[vs[pos]]
		for _, v := range vs {
			if !used[v] && deg[v] == d {
				used[v] = true
				p[pos] = v
				rec(pos + 1)
				used[v] = false
			}
		}
	}
	rec(0)
	return best
}

var classCache = map[int][]*G{}

// IsoClasses returns one graph per isomorphism class on n vertices (n <= 8), built by adding a
// vertex to every class on n-1 vertices in every way and removing duplicates by canon.
// Counts: 1 1 2 4 11 34 156 1044 12346.
func IsoClasses(n int) []*G {
	if c, ok := classCache[n]; ok {
		return c
	}
	var out []*G
	if n == 0 {
		out = []*G{New(0)}
	} else {
		seen := map[uint64]bool{}
		var keys []uint64
		for _, h := range IsoClasses(n - 1) {
			for sub := 0; sub < 1<<uint(n-1); sub++ {
				g := New(n)
				for i := 0; i < n-1; i++ {
					copy(g.A[i], h.A[i])
					if sub>>uint(i)&1 == 1 {
						g.Add(i, n-1)
					}
				}
				c := canon(g)
				if !seen[c] {
					seen[c] = true
					keys = append(keys, c)
				}
			}
		}
		sort.Slice(keys, func(a, b int) bool { return keys[a] < keys[b] })
		for _, k := range keys {
			out = append(out, fromMask(n, k))
		}
	}
	classCache[n] = out
	return out
}

// ---------------------------------------------------------------- named families

func Empty(n int) *G { return New(n) }

func Complete(n int) *G {
	g := New(n)
	for i := 0; i < n; i++ {
		for j := 0; j < i; j++ {
			g.Add(i, j)
		}
	}
	return g
}

func Path(n int) *G {
	g := New(n)
	for i := 0; i+1 < n; i++ {
		g.Add(i, i+1)
	}
	return g
}

func Cycle(n int) *G {
	g := Path(n)
	if n >= 3 {
		g.Add(0, n-1)
	}
	return g
}

func Star(n int) *G {
	g := New(n)
	for i := 1; i < n; i++ {
		g.Add(0, i)
	}
	return g
}

func Wheel(n int) *G { // hub 0 and a cycle on 1..n-1
	g := New(n)
	for i := 1; i < n; i++ {
		g.Add(0, i)
		if i+1 < n {
			g.Add(i, i+1)
		}
	}
	if n >= 4 {
		g.Add(1, n-1)
	}
	return g
}

func Multipartite(parts []int) *G {
	n := 0
	for _, p := range parts {
		n += p
	}
	cls := make([]int, 0, n)
	for k, p := range parts {
		for i := 0; i < p; i++ {
			cls = append(cls, k)
		}
	}
	g := New(n)
	for i := 0; i < n; i++ {
		for j := 0; j < i; j++ {
			if cls[i] != cls[j] {
				g.Add(i, j)
			}
		}
	}
	return g
}

func Petersen() *G {
	g := New(10)
	for i := 0; i < 5; i++ {
		g.Add(i, (i+1)%5)
		g.Add(i, i+5)
		g.Add(5+i, 5+(i+2)%5)
	}
	return g
}

func Cube() *G {
	g := New(8)
	for i := 0; i < 8; i++ {
		for b := uint(0); b < 3; b++ {
			g.Add(i, i^(1<<b))
		}
	}
	return g
}

func Ladder(k int, moebius bool) *G { // 2k vertices
	g := New(2 * k)
	for i := 0; i < k; i++ {
		g.Add(i, k+i)
		if i+1 < k {
			g.Add(i, i+1)
			g.Add(k+i, k+i+1)
		}
	}
	if k >= 3 {
		if moebius {
			g.Add(k-1, k)
			g.Add(2*k-1, 0)
		} else {
			g.Add(k-1, 0)
			g.Add(2*k-1, k)
		}
	}
	return g
}

func Friendship(k int) *G { // k triangles sharing vertex 0
	g := New(2*k + 1)
	for i := 0; i < k; i++ {
		g.Add(0, 2*i+1)
		g.Add(0, 2*i+2)
		g.Add(2*i+1, 2*i+2)
	}
	return g
}

func Theta(a, b, c int) *G { // two hubs joined by three paths with a, b, c inner vertices
	g := New(2 + a + b + c)
	next := 2
	for _, l := range []int{a, b, c} {
		prev := 0
		for i := 0; i < l; i++ {
			g.Add(prev, next)
			prev = next
			next++
		}
		g.Add(prev, 1)
	}
	return g
}

func CycleSquare(n int) *G {
	g := Cycle(n)
	for i := 0; i < n && n >= 5; i++ {
		g.Add(i, (i+2)%n)
	}
	return g
}

// Union is the disjoint union.
func Union(a, b *G) *G {
	g := New(a.N + b.N)
	for i := 0; i < a.N; i++ {
		copy(g.A[i][:a.N], a.A[i])
	}
	for i := 0; i < b.N; i++ {
		copy(g.A[a.N+i][a.N:], b.A[i])
	}
	return g
}

// GlueAt identifies vertex u of a with vertex v of b (a cut vertex when both have >= 2 vertices).
func GlueAt(a *G, u int, b *G, v int) *G {
	g := New(a.N + b.N - 1)
	for i := 0; i < a.N; i++ {
		copy(g.A[i][:a.N], a.A[i])
	}
	idx := func(x int) int {
		if x == v {
			return u
		}
		if x < v {
			return a.N + x
		}
		return a.N + x - 1
	}
	for i := 0; i < b.N; i++ {
		for j := 0; j < b.N; j++ {
			if b.A[i][j] {
				g.Add(idx(i), idx(j))
			}
		}
	}
	return g
}

// Bridge joins u of a and v of b by a path with k inner vertices (k = 0: a bridge).
func Bridge(a *G, u int, b *G, v int, k int) *G {
	g := Union(Union(a, b), New(k))
	prev := u
	for i := 0; i < k; i++ {
		g.Add(prev, a.N+b.N+i)
		prev = a.N + b.N + i
	}
	g.Add(prev, a.N+v)
	return g
}

// ---------------------------------------------------------------- random families

func Random(r *hx.Rng, n, num, den int) *G {
	g := New(n)
	for i := 0; i < n; i++ {
		for j := 0; j < i; j++ {
			if r.Chance(num, den) {
				g.Add(i, j)
			}
		}
	}
	return g
}

func RandomTree(r *hx.Rng, n int) *G {
	g := New(n)
	style := r.Intn(3)
	for i := 1; i < n; i++ {
		switch style {
		case 0:
			g.Add(i, r.Intn(i))
		case 1: // caterpillar-like: attach near the end
			lo := i - 3
			if lo < 0 {
				lo = 0
			}
			g.Add(i, r.Range(lo, i-1))
		default: // few hubs
			g.Add(i, r.Intn(1+i/3))
		}
	}
	return g
}

// RandomCactus: every block is an edge or a cycle.
func RandomCactus(r *hx.Rng, n int) *G {
	g := New(n)
	used := 1
	for used < n {
		at := r.Intn(used)
		l := r.Range(1, 5) // number of new vertices; 1 = pendant edge, >= 2 = cycle through at
		if used+l > n {
			l = n - used
		}
		prev := at
		for i := 0; i < l; i++ {
			g.Add(prev, used+i)
			prev = used + i
		}
		if l >= 2 {
			g.Add(prev, at)
		}
		used += l
	}
	return g
}

// RandomBlocky glues small dense blobs at cut vertices and by bridges.
func RandomBlocky(r *hx.Rng, n int) *G {
	g := New(0)
	for g.N < n {
		room := n - g.N
		k := r.Range(1, 5)
		if k > room {
			k = room
		}
		var b *G
		switch r.Intn(4) {
		case 0:
			b = Complete(k)
		case 1:
			b = Cycle(k)
		case 2:
			b = Random(r, k, 2, 3)
		default:
			b = Wheel(k)
		}
		if g.N == 0 {
			g = b
			continue
		}
		switch r.Intn(4) {
		case 0:
			g = Union(g, b)
		case 1:
			if b.N+g.N-1 >= 1 {
				g = GlueAt(g, r.Intn(g.N), b, r.Intn(b.N))
			}
		default:
			inner := 0
			if r.Chance(1, 3) && g.N+b.N < n {
				inner = 1
			}
			g = Bridge(g, r.Intn(g.N), b, r.Intn(b.N), inner)
		}
	}
	return g
}

// ManyShortCycles: random member of the families rich in 3-, 4- and 5-cycles.
func ManyShortCycles(r *hx.Rng, maxN int) *G {
	for {
		var g *G
		switch r.Intn(10) {
		case 0:
			g = Wheel(r.Range(4, maxN))
		case 1:
			g = Friendship(r.Range(1, (maxN-1)/2))
		case 2:
			g = Theta(r.Range(0, 2), r.Range(1, 3), r.Range(1, 3))
		case 3:
			g = Ladder(r.Range(2, maxN/2), r.Bool())
		case 4:
			g = CycleSquare(r.Range(5, maxN))
		case 5:
			g = Multipartite([]int{2, r.Range(2, maxN-2)})
		case 6:
			g = Multipartite([]int{r.Range(1, 3), r.Range(1, 3), r.Range(1, 3)})
		case 7:
			g = Cube()
		case 8:
			g = Petersen()
		default: // a cycle with a few chords
			n := r.Range(5, maxN)
			g = Cycle(n)
			for k := r.Range(1, 3); k > 0; k-- {
				g.Add(r.Intn(n), r.Intn(n))
			}
		}
		if g.N <= maxN {
			return g
		}
	}
}

// RandomMultipartite draws a complete multipartite graph on at most maxN vertices.
func RandomMultipartite(r *hx.Rng, maxN int) *G {
	var parts []int
	left := r.Range(1, maxN)
	for left > 0 {
		p := r.Range(1, 4)
		if p > left {
			p = left
		}
		parts = append(parts, p)
		left -= p
	}
	return Multipartite(parts)
}

// Complement as a function (for generator expressions).
func Complement(g *G) *G { return g.Complement() }
