// Package gx holds what the harnesses of C09 and C10 share: the harness's own graph type
// (independent of the library), graph6 text, relabelling, the representations under test,
// the graph families of the generators and the case syntax
//
//	<graph6>,<level>;<tok> <tok> ...
//
// where a token <rep>:<perm> is one variant (representation tag + relabelling, the perm as a
// dot separated list: vertex i of the variant is vertex perm[i] of the base graph) and the
// other token kinds are private to each property.  level 1 = the model driver recomputes the
// expensive reference values too (small n), level 0 = only the cheap ones.
package gx

import (
	"fmt"
	"sort"
	"strconv"
	"strings"

	"github.com/Tom-Johnston/mamba/graph"
	"github.com/Tom-Johnston/mamba/sortints"
	"verifharness/hx"
)

// G is the harness's own simple graph: adjacency matrix.
type G struct {
	N int
	A [][]bool
}

func New(n int) *G {
	a := make([][]bool, n)
	for i := range a {
		a[i] = make([]bool, n)
	}
	return &G{N: n, A: a}
}

func (g *G) Add(i, j int) {
	if i != j {
		g.A[i][j] = true
		g.A[j][i] = true
	}
}

func (g *G) M() int {
	m := 0
	for i := 0; i < g.N; i++ {
		for j := 0; j < i; j++ {
			if g.A[i][j] {
				m++
			}
		}
	}
	return m
}

func (g *G) Nbrs(v int) []int {
	var r []int
	for u := 0; u < g.N; u++ {
		if g.A[v][u] {
			r = append(r, u)
		}
	}
	return r
}

func (g *G) Deg(v int) int { return len(g.Nbrs(v)) }

func (g *G) Copy() *G {
	h := New(g.N)
	for i := range g.A {
		copy(h.A[i], g.A[i])
	}
	return h
}

// Relabel gives H with H(i,j) = G(perm[i],perm[j]); len(perm) may be < N (induced subgraph).
func (g *G) Relabel(perm []int) *G {
	h := New(len(perm))
	for i := range perm {
		for j := range perm {
			h.A[i][j] = g.A[perm[i]][perm[j]]
		}
	}
	return h
}

func (g *G) Complement() *G {
	h := New(g.N)
	for i := 0; i < g.N; i++ {
		for j := 0; j < g.N; j++ {
			h.A[i][j] = i != j && !g.A[i][j]
		}
	}
	return h
}

// Induced on the sorted vertex list vs.
func (g *G) Induced(vs []int) *G { return g.Relabel(vs) }

// Edges lists the edges (i<j) in the library's order 01 02 12 03 ...
func (g *G) Edges() [][2]int {
	var e [][2]int
	for j := 1; j < g.N; j++ {
		for i := 0; i < j; i++ {
			if g.A[i][j] {
				e = append(e, [2]int{i, j})
			}
		}
	}
	return e
}

// EdgeArray is the library's dense edge array.
func (g *G) EdgeArray() []byte {
	n := g.N
	e := make([]byte, n*(n-1)/2)
	idx := 0
	for j := 1; j < n; j++ {
		for i := 0; i < j; i++ {
			if g.A[i][j] {
				e[idx] = 1
			}
			idx++
		}
	}
	return e
}

// G6 encodes n <= 62.
func (g *G) G6() string {
	if g.N > 62 {
		panic("n > 62")
	}
	var sb strings.Builder
	sb.WriteByte(byte(g.N + 63))
	bits, k := 0, 0
	for j := 1; j < g.N; j++ {
		for i := 0; i < j; i++ {
			bits <<= 1
			if g.A[i][j] {
				bits |= 1
			}
			k++
			if k == 6 {
				sb.WriteByte(byte(bits + 63))
				bits, k = 0, 0
			}
		}
	}
	if k > 0 {
		bits <<= uint(6 - k)
		sb.WriteByte(byte(bits + 63))
	}
	return sb.String()
}

func FromG6(s string) *G {
	n := int(s[0]) - 63
	g := New(n)
	pos := 0
	for j := 1; j < n; j++ {
		for i := 0; i < j; i++ {
			b := int(s[1+pos/6]) - 63
			if b>>(5-uint(pos%6))&1 == 1 {
				g.Add(i, j)
			}
			pos++
		}
	}
	return g
}

// ---------------------------------------------------------------- representations

// Reps lists the representation tags.  d dense, s sparse, c complement view of the complement
// view of a dense graph, e complement view of a sparse complement, v induced-subgraph view of
// the dense base graph (the view performs the relabelling), w the same over a sparse base,
// x induced-subgraph view into a larger dense graph (two extra vertices), i / j deep copies
// made by DenseGraph.InducedSubgraph / SparseGraph.InducedSubgraph (editable).
const Reps = "dscevwxij"

func Editable(rep byte) bool { return rep == 'd' || rep == 's' || rep == 'i' || rep == 'j' }

func dense(g *G) *graph.DenseGraph { return graph.NewDense(g.N, g.EdgeArray()) }

func sparse(g *G) *graph.SparseGraph {
	nb := make([]sortints.SortedInts, g.N)
	for v := range nb {
		nb[v] = append(sortints.SortedInts{}, g.Nbrs(v)...)
	}
	return graph.NewSparse(g.N, nb)
}

// Build returns the relabelled graph H = base.Relabel(perm) held in representation rep.
func Build(rep byte, base *G, perm []int) graph.Graph {
	h := base.Relabel(perm)
	switch rep {
	case 'd':
		return dense(h)
	case 's':
		return sparse(h)
	case 'c':
		return graph.Complement(graph.Complement(dense(h)))
	case 'e':
		return graph.Complement(sparse(h.Complement()))
	case 'v':
		return graph.InducedSubgraph(dense(base), append([]int(nil), perm...))
	case 'w':
		return graph.InducedSubgraph(sparse(base), append([]int(nil), perm...))
	case 'x':
		// base vertices are 1..n of a graph on n+2 vertices; vertex 0 is joined to the even base
		// vertices, vertex n+1 to everything.
		n := base.N
		big := New(n + 2)
		for i := 0; i < n; i++ {
			for j := 0; j < n; j++ {
				big.A[i+1][j+1] = base.A[i][j]
			}
			if i%2 == 0 {
				big.Add(0, i+1)
			}
			big.Add(n+1, i+1)
		}
		big.Add(0, n+1)
		p := make([]int, len(perm))
		for i, v := range perm {
			p[i] = v + 1
		}
		return graph.InducedSubgraph(dense(big), p)
	case 'i':
		return dense(base).InducedSubgraph(append([]int(nil), perm...))
	case 'j':
		return sparse(base).InducedSubgraph(append([]int(nil), perm...))
	}
	panic("unknown representation " + string(rep))
}

// ---------------------------------------------------------------- case syntax

type Variant struct {
	Rep  byte
	Perm []int
}

type Tok struct {
	Kind byte
	Ints []int
}

type Case struct {
	G6    string
	Level int
	Base  *G
	Vars  []Variant
	Toks  []Tok // the tokens that are not variants
}

func JoinInts(a []int, sep string) string {
	s := make([]string, len(a))
	for i, v := range a {
		s[i] = strconv.Itoa(v)
	}
	return strings.Join(s, sep)
}

func ParseInts(s string) []int {
	if s == "" {
		return []int{}
	}
	parts := strings.Split(s, ".")
	r := make([]int, len(parts))
	for i, p := range parts {
		r[i], _ = strconv.Atoi(p)
	}
	return r
}

func TokString(kind byte, a []int) string { return string(kind) + ":" + JoinInts(a, ".") }

func CaseLine(g *G, level int, toks []string) string {
	return fmt.Sprintf("%s,%d;%s", g.G6(), level, strings.Join(toks, " "))
}

func ParseCase(line string) Case {
	k := strings.LastIndex(line, ";")
	head, tail := line[:k], line[k+1:]
	c := Case{}
	hp := strings.LastIndex(head, ",")
	c.G6 = head[:hp]
	c.Level, _ = strconv.Atoi(head[hp+1:])
	c.Base = FromG6(c.G6)
	for _, t := range strings.Fields(tail) {
		kind := t[0]
		a := ParseInts(t[2:])
		if strings.IndexByte(Reps, kind) >= 0 {
			c.Vars = append(c.Vars, Variant{kind, a})
		} else {
			c.Toks = append(c.Toks, Tok{kind, a})
		}
	}
	if len(c.Vars) == 0 {
		c.Vars = []Variant{{'d', Identity(c.Base.N)}}
	}
	return c
}

func Identity(n int) []int {
	p := make([]int, n)
	for i := range p {
		p[i] = i
	}
	return p
}

func Inverse(p []int) []int {
	q := make([]int, len(p))
	for i, v := range p {
		q[v] = i
	}
	return q
}

// MapBack sends a list of variant vertices to sorted base vertices.
func MapBack(perm, vs []int) []int {
	r := make([]int, len(vs))
	for i, v := range vs {
		r[i] = perm[v]
	}
	sort.Ints(r)
	return r
}

// SortLists sorts a list of int lists lexicographically (each list is expected sorted).
func SortLists(l [][]int) {
	sort.Slice(l, func(a, b int) bool {
		x, y := l[a], l[b]
		for i := 0; i < len(x) && i < len(y); i++ {
			if x[i] != y[i] {
				return x[i] < y[i]
			}
		}
		return len(x) < len(y)
	})
}

// Lists prints a list of lists as 0.1.2/3.4
func Lists(l [][]int) string {
	s := make([]string, len(l))
	for i, x := range l {
		s[i] = JoinInts(x, ".")
	}
	return strings.Join(s, "/")
}

// Variants draws k variants: the first is dense/identity, the next ones cycle through the
// representations with random relabellings.
func Variants(r *hx.Rng, n, k int, reps string) []string {
	out := []string{TokString('d', Identity(n))}
	start := r.Intn(len(reps))
	for i := 1; i < k; i++ {
		rep := reps[(start+i)%len(reps)]
		p := r.Perm(n)
		if r.Chance(1, 6) {
			p = Identity(n)
		}
		out = append(out, TokString(rep, p))
	}
	return out
}

func Bucket(n int) int {
	b := 1
	for b < n {
		b *= 2
	}
	return b
}
