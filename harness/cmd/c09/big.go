package main

// Corpus cases for the known finding C09:chromatic-index-byte-wrap (KNOWN_FINDINGS.txt):
// ChromaticIndex returns its edge colouring as []byte, so on a graph with chromatic index >= 256
// the colours wrap modulo 256.  Token  B:<leaves>.<extra>  names the tree "star with <leaves>
// leaves at centre 0, plus a path of <extra> further vertices hanging off leaf 1" (maximum degree
// = <leaves>, and a tree has chromatic index = maximum degree).  Only ChromaticIndex is run on it.

import (
	"fmt"
	"strings"

	"github.com/Tom-Johnston/mamba/graph"
	"verifharness/cmd/c09/gx"
	"verifharness/hx"
)

const byteWrapKey = "C09:chromatic-index-byte-wrap"

func bigTree(leaves, extra int) (n int, edges [][2]int) {
	n = leaves + 1 + extra
	for i := 1; i <= leaves; i++ {
		edges = append(edges, [2]int{0, i})
	}
	prev := 1
	for i := 0; i < extra; i++ {
		v := leaves + 1 + i
		edges = append(edges, [2]int{prev, v})
		prev = v
	}
	return
}

// observeBig runs ChromaticIndex on the tree of one B token, validates value and witness and
// returns the strict-part text "<chi'>:<colours of the edges in dense-array order>".
func observeBig(c gx.Case, t gx.Tok, viol *[]hx.OracleViolation) string {
	if len(t.Ints) < 2 || t.Ints[0] < 1 || t.Ints[1] < 0 {
		return "?"
	}
	leaves, extra := t.Ints[0], t.Ints[1]
	n, es := bigTree(leaves, extra)
	tag := fmt.Sprintf("B:%d.%d", leaves, extra)
	h := gx.New(n)
	g := graph.NewDense(n, nil)
	for _, e := range es {
		g.AddEdge(e[0], e[1])
		h.Add(e[0], e[1])
	}
	want := leaves // maximum degree of the tree (leaf 1 has degree <= 2 <= leaves when leaves >= 2)
	if leaves == 1 && extra > 1 {
		want = 2
	}
	return checkChromaticIndex(c, tag, g, h, want, viol)
}

// checkChromaticIndex runs ChromaticIndex on g (the harness's copy of the same graph is h),
// compares the value with the constructed chromatic index want and validates the witness.
func checkChromaticIndex(c gx.Case, tag string, g graph.Graph, h *gx.G, want int, viol *[]hx.OracleViolation) string {
	n := h.N
	adj := h.A
	es := h.Edges()
	fail := func(format string, a ...interface{}) {
		*viol = append(*viol, hx.Fail("C09:ChromaticIndex:"+c.G6+":"+tag, "ChromaticIndex on %s: %s", tag, fmt.Sprintf(format, a...)))
	}
	ci, ce := graph.ChromaticIndex(g)
	if ci != want {
		fail("value %d, the chromatic index of this graph is %d", ci, want)
	}
	if len(ce) != n*(n-1)/2 {
		fail("edge array has length %d", len(ce))
		return fmt.Sprintf("%d:?", ci)
	}
	// the witness, validated as for every other case
	idx := func(i, j int) int {
		if i > j {
			i, j = j, i
		}
		return j*(j-1)/2 + i
	}
	var problems []string
	used := map[byte]bool{}
	var cols []string
	for j := 1; j < n; j++ {
		for i := 0; i < j; i++ {
			x := ce[idx(i, j)]
			if !adj[i][j] {
				if x != 0 {
					problems = append(problems, fmt.Sprintf("non-edge %d-%d has colour %d", i, j, x))
				}
				continue
			}
			cols = append(cols, fmt.Sprint(x))
			used[x] = true
			if x < 1 || int(x) > ci {
				problems = append(problems, fmt.Sprintf("edge %d-%d has colour %d outside 1..%d", i, j, x, ci))
			}
			for u := 0; u < n; u++ {
				if u != i && u != j {
					if adj[u][j] && ce[idx(u, j)] == x {
						problems = append(problems, fmt.Sprintf("edges %d-%d and %d-%d share colour %d", i, j, u, j, x))
					}
					if adj[u][i] && ce[idx(u, i)] == x {
						problems = append(problems, fmt.Sprintf("edges %d-%d and %d-%d share colour %d", i, j, u, i, x))
					}
				}
			}
		}
	}
	if len(used) != ci {
		problems = append(problems, fmt.Sprintf("colouring uses %d colours, value is %d", len(used), ci))
	}
	if len(problems) > 0 {
		// Is the byte conversion the only thing wrong?  Redo ChromaticIndex's steps in int: the
		// colouring of the line graph must be a proper colouring with exactly ci colours 0..ci-1
		// and the array must be byte(colour+1) at the edges.  Only then, and only for a value
		// >= 256 that is right, the failure is the known finding.
		onlyWrap := ci == want && ci >= 256
		if onlyWrap {
			h := graph.LineGraphDense(g)
			chi, col := graph.ChromaticNumber(h)
			if chi != ci || len(col) != len(es) || h.N() != len(es) {
				onlyWrap = false
			} else {
				seen := map[int]bool{}
				for a, x := range col {
					if x < 0 || x >= ci {
						onlyWrap = false
					}
					seen[x] = true
					for b := 0; b < a; b++ {
						if h.IsEdge(a, b) && col[b] == x {
							onlyWrap = false
						}
					}
				}
				if len(seen) != ci {
					onlyWrap = false
				}
				a := 0
				for j := 1; j < n && onlyWrap; j++ {
					for i := 0; i < j; i++ {
						if adj[i][j] {
							// the a-th edge of the dense-array order is the a-th vertex of the line graph
							if ce[idx(i, j)] != byte(col[a]+1) {
								onlyWrap = false
							}
							a++
						}
					}
				}
				// the line graph's adjacency must be "share an end" for the order used above
				a = 0
				var ends [][2]int
				for j := 1; j < n; j++ {
					for i := 0; i < j; i++ {
						if adj[i][j] {
							ends = append(ends, [2]int{i, j})
						}
					}
				}
				for a = 0; a < len(ends) && onlyWrap; a++ {
					for b := 0; b < a; b++ {
						sh := ends[a][0] == ends[b][0] || ends[a][0] == ends[b][1] || ends[a][1] == ends[b][0] || ends[a][1] == ends[b][1]
						if h.IsEdge(a, b) != sh {
							onlyWrap = false
							break
						}
					}
				}
			}
		}
		detail := strings.Join(problems[:min(3, len(problems))], "; ")
		if onlyWrap {
			*viol = append(*viol, hx.Fail(byteWrapKey, "ChromaticIndex on %s (chromatic index %d >= 256): value right, colouring of the line graph proper with exactly %d colours, but the []byte result wraps: %s", tag, ci, ci, detail))
		} else {
			fail("%s", detail)
		}
	}
	return fmt.Sprintf("%d:%s", ci, strings.Join(cols, "."))
}

func min(a, b int) int {
	if a < b {
		return a
	}
	return b
}
