package main

// Large graphs whose invariants are known by construction (no exponential oracle needed), at
// sizes / degrees / counter values around 128, 256, 512.  Token
//
//	G:<family>.<a>.<b>.<c>.<seed>
//
// names one graph; every function of C09 that is affordable on it is run on the graph as
// constructed (dense) and on one random relabelling (sparse or dense), every witness is
// validated and every value is compared with the constructed answer.  Nothing of these cases
// goes through the model driver (Bron-Kerbosch in extracted Coq is too slow at this size); the
// theorems are for all sizes, the oracle here is the construction.
//
// Families: 0 star K_{1,a}; 1 double star (a and b leaves on two adjacent centres);
// 2 complete bipartite K_{a,b}; 3 complete tripartite K_{a,b,c}; 4 saturation gadget (clique
// core of a vertices, the first with c leaves, b vertices joined to the other core vertices,
// one vertex z joined to those b vertices: z collects b neighbours of one colour); 5 clique K_a
// with b leaves on every clique vertex; 6 disjoint union of K_{1,a}, K_b and an edge; 7 K_a joined
// to b disjoint non-edges (2^b maximal cliques of size a+b).

import (
	"fmt"
	"runtime"
	"sort"

	"github.com/Tom-Johnston/mamba/graph"
	"verifharness/cmd/c09/gx"
	"verifharness/hx"
)

type built struct {
	g        *gx.G
	omega    int
	chi      int
	alpha    int // -1: IndependenceNumber is not run
	cliques  int // number of maximal cliques; -1: AllMaximalCliques is not run
	chiIndex int // -1: ChromaticIndex is not run
	noBelow  bool // IsKColorable(chi-1) is not run (refuting it is exponential for DSATUR: a big clique next to other components)
}

func maxi(a, b int) int {
	if a > b {
		return a
	}
	return b
}

func construct(fam, a, b, c int) *built {
	switch fam {
	case 0:
		if a < 2 {
			return nil
		}
		g := gx.New(a + 1)
		for i := 1; i <= a; i++ {
			g.Add(0, i)
		}
		ci := -1
		if a <= 300 {
			ci = a
		}
		return &built{g, 2, 2, a, a, ci, false}
	case 1:
		if a < 1 || b < 1 {
			return nil
		}
		g := gx.New(a + b + 2)
		g.Add(0, 1)
		for i := 0; i < a; i++ {
			g.Add(0, 2+i)
		}
		for i := 0; i < b; i++ {
			g.Add(1, 2+a+i)
		}
		ci := -1
		if a+b <= 300 {
			ci = maxi(a, b) + 1
		}
		return &built{g, 2, 2, a + b, a + b + 1, ci, false}
	case 2:
		if a < 1 || b < 1 || a*b > 6000 {
			return nil
		}
		g := gx.New(a + b)
		for i := 0; i < a; i++ {
			for j := 0; j < b; j++ {
				g.Add(i, a+j)
			}
		}
		return &built{g, 2, 2, maxi(a, b), a * b, -1, false}
	case 3:
		if a < 1 || b < 1 || c < 1 || a*b*c > 6000 {
			return nil
		}
		g := gx.Multipartite([]int{a, b, c})
		return &built{g, 3, 3, maxi(a, maxi(b, c)), a * b * c, -1, false}
	case 4:
		q, m, l := a, b, c
		if q < 3 || m < 2 || l < 0 {
			return nil
		}
		n := q + l + m + 1
		g := gx.New(n)
		for i := 0; i < q; i++ {
			for j := 0; j < i; j++ {
				g.Add(i, j)
			}
		}
		for i := 0; i < l; i++ {
			g.Add(0, q+i)
		}
		z := n - 1
		for i := 0; i < m; i++ {
			x := q + l + i
			for j := 1; j < q; j++ {
				g.Add(j, x)
			}
			g.Add(z, x)
		}
		al := l + m
		if l == 0 {
			al = m + 1 // the x's and the first core vertex
		}
		return &built{g, q, q, al, l + 2*m + 1, -1, false}
	case 5:
		if a < 2 || b < 1 {
			return nil
		}
		g := gx.New(a + a*b)
		for i := 0; i < a; i++ {
			for j := 0; j < i; j++ {
				g.Add(i, j)
			}
			for k := 0; k < b; k++ {
				g.Add(i, a+i*b+k)
			}
		}
		return &built{g, a, a, a * b, 1 + a*b, -1, false}
	case 7:
		// K_a joined to b disjoint non-edges (complete multipartite with a parts of size 1 and b of
		// size 2): 2^b maximal cliques, each K_a plus one end of every non-edge
		if a < 0 || b < 1 || b > 12 || a+b < 2 {
			return nil
		}
		n := a + 2*b
		g := gx.New(n)
		for i := 0; i < n; i++ {
			for j := 0; j < i; j++ {
				if !(i >= a && j >= a && (i-a)/2 == (j-a)/2) {
					g.Add(i, j)
				}
			}
		}
		return &built{g, a + b, a + b, 2, 1 << uint(b), -1, b > 6}
	case 6:
		if a < 2 || b < 2 {
			return nil
		}
		g := gx.Union(gx.Union(gx.Star(a+1), gx.Complete(b)), gx.Complete(2))
		return &built{g, b, b, a + 2, a + 2, -1, true}
	}
	return nil
}

// peelDegeneracy: repeatedly delete a vertex of minimum degree; the largest degree seen at
// deletion time is the degeneracy (the classical characterisation, O(n^2) here).
func peelDegeneracy(g *gx.G) int {
	n := g.N
	deg := make([]int, n)
	for v := 0; v < n; v++ {
		deg[v] = g.Deg(v)
	}
	gone := make([]bool, n)
	d := 0
	for step := 0; step < n; step++ {
		best := -1
		for v := 0; v < n; v++ {
			if !gone[v] && (best < 0 || deg[v] < deg[best]) {
				best = v
			}
		}
		if deg[best] > d {
			d = deg[best]
		}
		gone[best] = true
		for u := 0; u < n; u++ {
			if !gone[u] && g.A[best][u] {
				deg[u]--
			}
		}
	}
	return d
}

func checkColouring(h *gx.G, col []int, k int, exact bool) string {
	if !isProper(h, col) {
		return "not a proper colouring"
	}
	used := map[int]bool{}
	for _, x := range col {
		if x >= k {
			return fmt.Sprintf("colour %d >= %d", x, k)
		}
		used[x] = true
	}
	if exact && len(used) != k {
		return fmt.Sprintf("uses %d colours, value is %d", len(used), k)
	}
	return ""
}

// observeConstructed runs the library on one G token.
func observeConstructed(c gx.Case, t gx.Tok, viol *[]hx.OracleViolation) {
	if len(t.Ints) != 5 {
		return
	}
	bt := construct(t.Ints[0], t.Ints[1], t.Ints[2], t.Ints[3])
	if bt == nil {
		return
	}
	tag := gx.TokString('G', t.Ints)
	n := bt.g.N
	r := hx.NewRng(uint64(t.Ints[4])*0x9E3779B97F4A7C15 + 12345)
	vars := []gx.Variant{{Rep: 'd', Perm: gx.Identity(n)}, {Rep: "sd"[r.Intn(2)], Perm: r.Perm(n)}}
	dgWant := peelDegeneracy(bt.g)
	for vi, v := range vars {
		vtag := fmt.Sprintf("%s/%d%c", tag, vi, v.Rep)
		fail := func(fn, format string, a ...interface{}) {
			*viol = append(*viol, hx.Fail("C09:big:"+fn+":"+vtag, "%s on constructed graph %s (variant %d, representation %c): %s", fn, tag, vi, v.Rep, fmt.Sprintf(format, a...)))
		}
		h := bt.g.Relabel(v.Perm)
		g := gx.Build(v.Rep, bt.g, v.Perm)

		if w := graph.CliqueNumber(g); w != bt.omega {
			fail("CliqueNumber", "value %d, constructed clique number %d", w, bt.omega)
		}
		// (the clique search on the complement view is the one expensive call here: ~2.5 s at n = 512)
		if bt.alpha >= 0 && (n <= 300 || vi == 0) && n <= 700 {
			if a := graph.IndependenceNumber(g); a != bt.alpha {
				fail("IndependenceNumber", "value %d, constructed independence number %d", a, bt.alpha)
			}
		}
		if bt.cliques >= 0 {
			// every channel capacity, fast and yielding receivers; the slices are kept as received
			// and looked at only after the channel is closed
			caps := []int{0, 1, 4, 64, 1024}
			if bt.cliques > 300 {
				caps = []int{0, 64}
			}
			for ci, capacity := range caps {
				ch := make(chan []int, capacity)
				go graph.AllMaximalCliques(g, ch)
				var kept [][]int
				var onReceipt []string
				for cl := range ch {
					if ci%2 == 1 {
						runtime.Gosched()
					}
					kept = append(kept, cl)
					onReceipt = append(onReceipt, gx.JoinInts(cl, "."))
				}
				seen := map[string]bool{}
				for i, cl := range kept {
					if gx.JoinInts(cl, ".") != onReceipt[i] {
						fail("AllMaximalCliques", "channel capacity %d: clique number %d read %s when received and reads %v after the channel was closed", capacity, i, onReceipt[i], cl)
						break
					}
					s := hx.SortedCopy(cl)
					key := gx.JoinInts(s, ".")
					if seen[key] {
						fail("AllMaximalCliques", "channel capacity %d: clique %v reported twice", capacity, s)
					}
					seen[key] = true
					ok := true
					for i, x := range s {
						if x < 0 || x >= n || (i > 0 && s[i-1] == x) {
							ok = false
							break
						}
						for _, y := range s[:i] {
							if !h.A[x][y] {
								ok = false
							}
						}
					}
					if !ok {
						fail("AllMaximalCliques", "channel capacity %d: %v is not a clique", capacity, s)
						continue
					}
					in := make([]bool, n)
					for _, x := range s {
						in[x] = true
					}
					for u := 0; u < n; u++ {
						if in[u] {
							continue
						}
						all := true
						for _, x := range s {
							if !h.A[x][u] {
								all = false
								break
							}
						}
						if all {
							fail("AllMaximalCliques", "channel capacity %d: %v is not maximal: %d extends it", capacity, s, u)
							break
						}
					}
				}
				if len(kept) != bt.cliques {
					fail("AllMaximalCliques", "channel capacity %d: %d cliques reported, the graph has %d maximal cliques", capacity, len(kept), bt.cliques)
				}
			}
		}

		chi, col := graph.ChromaticNumber(g)
		if chi != bt.chi {
			fail("ChromaticNumber", "value %d, constructed chromatic number %d", chi, bt.chi)
		}
		if msg := checkColouring(h, col, chi, true); msg != "" {
			fail("ChromaticNumber", "colouring %s", msg)
		} else {
			if !graph.IsProperColouring(g, col) {
				fail("IsProperColouring", "rejects the proper colouring returned by ChromaticNumber")
			}
			// one conflict: copy a neighbour's colour
			for u := 0; u < n; u++ {
				if nb := h.Nbrs(u); len(nb) > 0 {
					bad := append([]int(nil), col...)
					bad[u] = bad[nb[len(nb)-1]]
					if graph.IsProperColouring(g, bad) {
						fail("IsProperColouring", "accepts a colouring with a monochromatic edge %d-%d", u, nb[len(nb)-1])
					}
					break
				}
			}
		}
		for _, k := range []int{bt.chi - 1, bt.chi, bt.chi + 1} {
			if k < bt.chi && bt.noBelow {
				continue
			}
			ok, kcol := graph.IsKColorable(g, k)
			if ok != (k >= bt.chi) {
				fail("IsKColorable", "k=%d answers %v, constructed chromatic number %d", k, ok, bt.chi)
			}
			if ok {
				if msg := checkColouring(h, kcol, k, false); msg != "" {
					fail("IsKColorable", "k=%d colouring %s", k, msg)
				}
			} else if kcol != nil {
				fail("IsKColorable", "k=%d false with a colouring", k)
			}
		}

		// far more colours than vertices
		if ok, kcol := graph.IsKColorable(g, n+1000); !ok {
			fail("IsKColorable", "k=%d answers false", n+1000)
		} else if msg := checkColouring(h, kcol, n+1000, false); msg != "" {
			fail("IsKColorable", "k=%d colouring %s", n+1000, msg)
		}

		d, order := graph.Degeneracy(g)
		if d != dgWant {
			fail("Degeneracy", "value %d, minimum-degree peeling gives %d", d, dgWant)
		}
		if !isPerm(order, n) {
			fail("Degeneracy", "order is not a permutation of the vertices")
		} else {
			pos := make([]int, n)
			for i, x := range order {
				pos[x] = i
			}
			worst := 0
			for x := 0; x < n; x++ {
				cnt := 0
				for _, y := range h.Nbrs(x) {
					if pos[y] < pos[x] {
						cnt++
					}
				}
				if cnt > worst {
					worst = cnt
				}
			}
			if worst > d {
				fail("Degeneracy", "order has a vertex preceded by %d > %d neighbours", worst, d)
			}
		}

		for _, ord := range [][]int{gx.Identity(n), r.Perm(n)} {
			mx, gc := graph.GreedyColor(g, ord)
			want := refGreedy(h, ord)
			top := -1
			same := len(gc) == n
			for i := 0; same && i < n; i++ {
				if gc[i] != want[i] {
					same = false
				}
				if gc[i] > top {
					top = gc[i]
				}
			}
			if !same {
				fail("GreedyColor", "colouring differs from first-fit along the order")
			} else if mx != top {
				fail("GreedyColor", "returned maximum %d, largest colour %d", mx, top)
			}
		}

		if bt.chiIndex >= 0 && vi == 0 {
			checkChromaticIndex(c, tag, g, h, bt.chiIndex, viol)
		}
	}
}

func sortedKeys(m map[int]bool) []int {
	var r []int
	for k := range m {
		r = append(r, k)
	}
	sort.Ints(r)
	return r
}
