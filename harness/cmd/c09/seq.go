package main

// Call sequences on related inputs inside one case (token Q:<maxm>): ChromaticPolynomial on the
// complete graphs K_0..K_maxm, the caller writing into (and appending to) every result, then on
// the same complete graphs again (other representation) and on graphs whose deletion-contraction
// reaches them (K_m minus an edge, K_m with a pendant vertex, K_m plus an isolated vertex), in
// decreasing and increasing size; every result compared with the closed form
// (falling factorial ff_m; ff_m + ff_{m-1}; ff_m (k-1); ff_m k) and then scribbled too.

import (
	"fmt"

	"github.com/Tom-Johnston/mamba/graph"
	"verifharness/cmd/c09/gx"
	"verifharness/hx"
)

// fallingFactorial returns the coefficients of k(k-1)...(k-m+1), constant term first.
func fallingFactorial(m int) []int {
	p := []int{1}
	for j := 0; j < m; j++ { // multiply by (k - j)
		q := make([]int, len(p)+1)
		for i, c := range p {
			q[i+1] += c
			q[i] -= j * c
		}
		p = q
	}
	return p
}

func polyMulLinear(p []int, a int) []int { // p * (k + a)
	q := make([]int, len(p)+1)
	for i, c := range p {
		q[i+1] += c
		q[i] += a * c
	}
	return q
}

func polyAddPadded(p, q []int) []int {
	r := append([]int(nil), p...)
	for i, c := range q {
		r[i] += c
	}
	return r
}

func observeSequence(c gx.Case, t gx.Tok, viol *[]hx.OracleViolation) {
	if len(t.Ints) != 1 || t.Ints[0] < 0 || t.Ints[0] > 9 {
		return
	}
	maxm := t.Ints[0]
	tag := gx.TokString('Q', t.Ints)
	step := 0
	call := func(what string, g graph.EditableGraph, want []int) {
		step++
		got := graph.ChromaticPolynomial(g)
		if gx.JoinInts(got, ",") != gx.JoinInts(want, ",") {
			*viol = append(*viol, hx.Fail("C09:sequence:ChromaticPolynomial:"+tag, "ChromaticPolynomial in the sequence %s, call %d (%s): got %v want %v (the caller wrote into the results of the earlier calls)", tag, step, what, got, want))
		}
		for i := range got { // the caller sums / edits in place
			got[i] = 1000 + i
		}
		if got != nil {
			_ = append(got, 5, 6, 7)
		}
	}
	dense := func(h *gx.G) graph.EditableGraph { return gx.Build('d', h, gx.Identity(h.N)).(graph.EditableGraph) }
	sparse := func(h *gx.G) graph.EditableGraph { return gx.Build('s', h, gx.Identity(h.N)).(graph.EditableGraph) }
	for m := 0; m <= maxm; m++ {
		call(fmt.Sprintf("K_%d dense", m), dense(gx.Complete(m)), fallingFactorial(m))
	}
	related := func(m int) {
		ff := fallingFactorial(m)
		call(fmt.Sprintf("K_%d sparse", m), sparse(gx.Complete(m)), ff)
		if m >= 2 {
			h := gx.Complete(m)
			h.A[0][1], h.A[1][0] = false, false
			call(fmt.Sprintf("K_%d minus an edge", m), dense(h), polyAddPadded(ff, fallingFactorial(m-1)))
		}
		if m >= 1 {
			h := gx.Union(gx.Complete(m), gx.Empty(1))
			call(fmt.Sprintf("K_%d plus an isolated vertex", m), sparse(h), polyMulLinear(ff, 0))
			h2 := gx.Union(gx.Complete(m), gx.Empty(1))
			h2.Add(0, m)
			call(fmt.Sprintf("K_%d with a pendant vertex", m), dense(h2), polyMulLinear(ff, -1))
		}
	}
	for m := maxm; m >= 0; m-- {
		related(m)
	}
	for m := 0; m <= maxm; m++ {
		related(m)
	}
}
