package main

// Volume on the inputs where the DSATUR branch and bound actually backtracks: planted k-partite
// graphs (k = 3..5, n = 12..30, edge density near the k-colourability threshold).
//
// Token  P:<seed>.<count>  is a batch of <count> such graphs drawn from its own generator.  For
// each graph the chromatic number is checked in ways that need no exponential oracle:
// (i) chi <= k by construction (and chi >= the clique number), (ii) ChromaticNumber of two
// relabelled copies (one sparse) must be the same number — the invariance clause of C09 —,
// (iii) IsKColorable(g, chi-1) = false and IsKColorable(g, chi) = true (the two entry points
// take different paths through dfsDsatur); every colouring returned is validated.
//
// Level-2 cases (<graph6>,2;variants) carry single planted graphs through the model driver: the
// extracted, proved model of dfsDsatur gives chi and the IsKColorable answers (execDsaturOnly).

import (
	"fmt"
	"strings"

	"github.com/Tom-Johnston/mamba/graph"
	"verifharness/cmd/c09/gx"
	"verifharness/hx"
)

func plantedGraph(r *hx.Rng, loN, hiN int) (*gx.G, int) {
	k := r.Range(3, 5)
	n := r.Range(loN, hiN)
	d := r.Range(12*k-10, 12*k+12) // percent; the threshold moves up with k
	part := make([]int, n)
	for i := range part {
		part[i] = r.Intn(k)
	}
	g := gx.New(n)
	for i := 0; i < n; i++ {
		for j := 0; j < i; j++ {
			if part[i] != part[j] && r.Intn(100) < d {
				g.Add(i, j)
			}
		}
	}
	return g, k
}

func observePlanted(c gx.Case, t gx.Tok, viol *[]hx.OracleViolation) {
	if len(t.Ints) != 2 {
		return
	}
	r := hx.NewRng(uint64(t.Ints[0])*0x9E3779B97F4A7C15 + 777)
	for q := 0; q < t.Ints[1]; q++ {
		base, k := plantedGraph(r, 12, 30)
		n := base.N
		var g6 string
		fail := func(fn, format string, a ...interface{}) {
			if g6 == "" {
				g6 = base.G6()
			}
			*viol = append(*viol, hx.Fail("C09:planted:"+fn+":"+g6, "%s on planted %d-partite graph %s (batch %s, number %d): %s", fn, k, g6, gx.TokString('P', t.Ints), q, fmt.Sprintf(format, a...)))
		}
		g := gx.Build('d', base, gx.Identity(n))
		chi, col := graph.ChromaticNumber(g)
		if msg := checkColouring(base, col, chi, true); msg != "" {
			fail("ChromaticNumber", "colouring %v %s", col, msg)
		}
		if chi > k {
			fail("ChromaticNumber", "value %d, but the graph is %d-partite by construction", chi, k)
		}
		if w := graph.CliqueNumber(g); w > chi {
			fail("ChromaticNumber", "value %d is below the clique number %d", chi, w)
		}
		if ok, kcol := graph.IsKColorable(g, chi); !ok {
			fail("IsKColorable", "k=%d false, ChromaticNumber is %d", chi, chi)
		} else if msg := checkColouring(base, kcol, chi, false); msg != "" {
			fail("IsKColorable", "k=%d colouring %s", chi, msg)
		}
		if ok, kcol := graph.IsKColorable(g, chi-1); ok {
			if msg := checkColouring(base, kcol, chi-1, false); msg != "" {
				fail("IsKColorable", "k=%d colouring %s", chi-1, msg)
			} else {
				fail("ChromaticNumber", "value %d, but IsKColorable(g, %d) returns the proper colouring %v", chi, chi-1, kcol)
			}
		}
		for j := 0; j < 2; j++ {
			perm := r.Perm(n)
			rep := "sd"[j]
			h := base.Relabel(perm)
			c2, col2 := graph.ChromaticNumber(gx.Build(rep, base, perm))
			if msg := checkColouring(h, col2, c2, true); msg != "" {
				fail("ChromaticNumber", "relabelling %v (%c): colouring %s", perm, rep, msg)
			}
			if c2 != chi {
				fail("ChromaticNumber", "value %d, but %d on the relabelling %v (%c) of the same graph", chi, c2, perm, rep)
			}
		}
	}
}

// execDsaturOnly is the level-2 path: ChromaticNumber and IsKColorable (k = 0..n+1) on the base
// graph and on every variant, witnesses validated, all variants equal; the projected line
// "n m chi kc" is compared with the extracted proved model of dfsDsatur.
func execDsaturOnly(c gx.Case) hx.Result {
	var viol []hx.OracleViolation
	base := c.Base
	n := base.N
	vars := append([]gx.Variant{{Rep: 'd', Perm: gx.Identity(n)}}, c.Vars...)
	var firstLine, firstStrict string
	nonDense := false
	for i, v := range vars {
		if !isPerm(v.Perm, n) {
			continue
		}
		tag := fmt.Sprintf("%c:%s", v.Rep, gx.JoinInts(v.Perm, "."))
		fail := func(fn, format string, a ...interface{}) {
			viol = append(viol, hx.Fail("C09:"+fn+":"+c.G6+":"+tag, "%s on %s variant %s: %s", fn, c.G6, tag, fmt.Sprintf(format, a...)))
		}
		h := base.Relabel(v.Perm)
		g := gx.Build(v.Rep, base, v.Perm)
		chi, col := graph.ChromaticNumber(g)
		if msg := checkColouring(h, col, chi, true); msg != "" {
			fail("ChromaticNumber", "colouring %v %s", col, msg)
		}
		kc := ""
		var dk []string
		for k := 0; k <= n+1; k++ {
			ok, kcol := graph.IsKColorable(g, k)
			if ok {
				kc += "1"
				dk = append(dk, "1:"+showCol(kcol))
				if msg := checkColouring(h, kcol, k, false); msg != "" {
					fail("IsKColorable", "k=%d colouring %s", k, msg)
				}
			} else {
				kc += "0"
				dk = append(dk, "0:"+showCol(kcol))
				if kcol != nil {
					fail("IsKColorable", "k=%d false with a colouring %v", k, kcol)
				}
			}
		}
		line := fmt.Sprintf("n=%d m=%d chi=%d kc=%s", n, g.M(), chi, kc)
		if i == 0 {
			firstLine = line
			firstStrict = "ds=" + fmt.Sprintf("%d:%s", chi, showCol(col)) + " dk=" + strings.Join(dk, "/")
		} else {
			nonDense = true
			if line != firstLine {
				viol = append(viol, hx.Fail(fmt.Sprintf("C09:values:%s:%s", c.G6, tag),
					"values on %s variant %s differ from those on the graph as given: got [%s] want [%s]", c.G6, tag, line, firstLine))
			}
		}
	}
	m := base.M()
	return hx.Result{Obs: firstLine + " ## " + firstStrict, Nontrivial: m > 0 && m < n*(n-1)/2 && nonDense,
		Buckets: []string{fmt.Sprintf("n=%d", n), "level=2"}, Viol: viol}
}
