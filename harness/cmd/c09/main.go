// Command c09 runs the clique / colouring / degeneracy functions of the graph package on a
// graph held in several representations under several relabellings, validates every returned
// witness, compares every value with brute-force references written here, and prints the
// determined values in a relabelling-independent form (C09).
//
// Case:  <graph6>,<level>;<tok> ...   tokens:
//
//	<rep>:<perm>   one more variant (the variant d:identity is always run first)
//	o:<order>      a vertex order for GreedyColor (base labels)
//	p:<colouring>  a candidate colouring for IsProperColouring (base labels; any length)
//
// Observation (projected): n m w(omega) a(alpha) mc(maximal cliques) chi kc(IsKColorable for
// k=0..n+1) dg(degeneracy) gr(first-fit colourings) pr(IsProperColouring answers), and at
// level 1 also ci(chromatic index) and pk(number of proper k-colourings, k=0..n+1, from the
// chromatic polynomial) and cp(its coefficients, constant term first).
package main

import (
	"fmt"
	"math/big"
	"runtime"
	"sort"
	"strings"
	"time"

	"github.com/Tom-Johnston/mamba/graph"
	"verifharness/cmd/c09/gx"
	"verifharness/hx"
)

// limits above which a function is not called at all (it would not finish in reasonable time)
const (
	maxEdgesChromaticIndex = 22
	maxNPoly               = 9
)

type fields struct {
	n, m   int
	w, a   int
	mc     string
	chi    int
	kc     string
	ci     int // -2 = not computed
	pk     string
	cp     string // coefficients of the chromatic polynomial, constant term first
	dg     int
	ord    string // the order returned by Degeneracy (implementation detail: strict part only)
	bk     string // the maximal cliques as sent, in order (strict part only)
	lg     string // the edge array of LineGraphDense (strict part only; "-" when not computed)
	gr, pr []string
	ds     string // ChromaticNumber's value and exact colouring (strict part only)
	dk     string // IsKColorable's answers and exact witnesses for k = 0..n+1 (strict part only)
	dci    string // ChromaticIndex's value and exact edge array (strict part only; "-" when not computed)
}

func showCol(c []int) string {
	if c == nil {
		return "nil"
	}
	return gx.JoinInts(c, ".")
}

func (f fields) line(level int) string {
	var sb strings.Builder
	fmt.Fprintf(&sb, "n=%d m=%d w=%d a=%d mc=%s chi=%d kc=%s dg=%d gr=%s pr=%s", f.n, f.m, f.w, f.a, f.mc, f.chi, f.kc, f.dg,
		strings.Join(f.gr, "|"), strings.Join(f.pr, ""))
	if level >= 1 {
		fmt.Fprintf(&sb, " ci=%d pk=%s cp=%s", f.ci, f.pk, f.cp)
	}
	return sb.String()
}

// reference computes every field from the definitions on the base graph.
func reference(c gx.Case) fields {
	g := c.Base
	f := fields{n: g.N, m: g.M(), ci: -2}
	mc := refMaximalCliques(g)
	f.mc = fmt.Sprintf("%d:%s", len(mc), gx.Lists(mc))
	f.w = refCliqueNumber(g)
	f.a = refCliqueNumber(g.Complement())
	f.chi = refChromaticNumber(g)
	for k := 0; k <= g.N+1; k++ {
		if refKColourable(g, k) {
			f.kc += "1"
		} else {
			f.kc += "0"
		}
	}
	if f.m <= maxEdgesChromaticIndex {
		f.ci = refChromaticIndex(g)
	}
	if g.N <= maxNPoly {
		ip := independentPartitions(g)
		var s []string
		for k := 0; k <= g.N+1; k++ {
			s = append(s, refCountColourings(g, k, ip).String())
		}
		f.pk = strings.Join(s, ",")
	}
	f.dg = refDegeneracy(g)
	for _, t := range c.Toks {
		switch t.Kind {
		case 'o':
			f.gr = append(f.gr, gx.JoinInts(refGreedy(g, t.Ints), "."))
		case 'p':
			if isProper(g, t.Ints) {
				f.pr = append(f.pr, "t")
			} else {
				f.pr = append(f.pr, "f")
			}
		}
	}
	return f
}

// observe runs the library on one variant and returns the fields in base labels; every
// witness is validated here and failures are appended to viol.
func observe(c gx.Case, v gx.Variant, viol *[]hx.OracleViolation) fields {
	base := c.Base
	n := base.N
	tag := fmt.Sprintf("%c:%s", v.Rep, gx.JoinInts(v.Perm, "."))
	fail := func(fn, format string, a ...interface{}) {
		*viol = append(*viol, hx.Fail("C09:"+fn+":"+c.G6+":"+tag, "%s on %s variant %s: %s", fn, c.G6, tag, fmt.Sprintf(format, a...)))
	}
	h := base.Relabel(v.Perm) // the harness's own copy of the variant graph
	inv := gx.Inverse(v.Perm)
	g, edit := buildAny(v.Rep, base, v.Perm)
	if !presents(g, h) {
		if strings.IndexByte(extraReps, v.Rep) < 0 {
			fail("representation", "the %c representation does not present the intended graph", v.Rep)
		}
		// a decoder / edit history that yields another graph is another property's business
		g, edit = gx.Build('d', base, v.Perm), func() {}
	}
	// between every two calls: edit the base of an edited view, check that the argument still
	// presents the same graph and that no earlier result has been written into
	tick := func(after string) {
		edit()
		if !presents(g, h) {
			fail(after, "the argument graph no longer presents the same graph after the call")
		}
		checkHeld(after+" on "+c.G6+" "+tag, viol)
	}
	tick("building the graph")
	// every slice a call returns is collected here; at the end of the variant the caller writes
	// into all of them (and appends to them) and calls the functions again
	var returned [][]int
	var returnedBytes [][]byte
	f := fields{n: g.N(), m: g.M(), ci: -2}

	// cliques
	f.w = graph.CliqueNumber(g)
	tick("CliqueNumber")
	f.a = graph.IndependenceNumber(g)
	tick("IndependenceNumber")
	// call pattern of AllMaximalCliques: unbuffered / buffered channel, consumer that copies at
	// once or keeps the slices as sent (a producer that re-uses a buffer shows up at the end),
	// fast or slow consumer; chosen from the variant
	pat := (len(c.G6)*7 + len(tag)*3 + int(v.Rep)) % 6
	ch := make(chan []int, []int{0, 0, 1, 4, 64, 1024}[pat])
	go graph.AllMaximalCliques(g, ch)
	var mc [][]int
	seen := map[string]bool{}
	var raw []string
	var asSent [][]int
	for cl := range ch {
		if pat%2 == 1 {
			for k := 0; k < 3; k++ {
				runtime.Gosched()
			}
		}
		asSent = append(asSent, cl)
		cl = append([]int(nil), cl...)
		raw = append(raw, gx.JoinInts(cl, "."))
		s := hx.SortedCopy(cl)
		for i := 1; i < len(s); i++ {
			if s[i] == s[i-1] {
				fail("AllMaximalCliques", "vertex repeated in %v", cl)
			}
		}
		bad := false
		for i, x := range s {
			if x < 0 || x >= n {
				fail("AllMaximalCliques", "vertex out of range in %v", cl)
				bad = true
				break
			}
			for _, y := range s[:i] {
				if !h.A[x][y] {
					fail("AllMaximalCliques", "%v is not a clique", cl)
				}
			}
		}
		if bad {
			continue
		}
		for u := 0; u < n; u++ {
			all := true
			for _, x := range s {
				if x == u || !h.A[x][u] {
					all = false
					break
				}
			}
			if all {
				fail("AllMaximalCliques", "%v is not maximal: %d extends it", cl, u)
			}
		}
		b := gx.MapBack(v.Perm, s)
		key := gx.JoinInts(b, ".")
		if seen[key] {
			fail("AllMaximalCliques", "clique %v reported twice", cl)
		}
		seen[key] = true
		mc = append(mc, b)
	}
	for i, cl := range asSent {
		if gx.JoinInts(cl, ".") != raw[i] {
			fail("AllMaximalCliques", "clique number %d read %s when received and reads %v after the channel was closed (channel capacity %d)", i, raw[i], cl, cap(ch))
		}
	}
	returned = append(returned, asSent...)
	if len(asSent) > 0 {
		first := asSent[0]
		holdInts("AllMaximalCliques[0] of "+c.G6+" "+tag, first)
	}
	tick("AllMaximalCliques")
	gx.SortLists(mc)
	f.mc = fmt.Sprintf("%d:%s", len(mc), gx.Lists(mc))
	f.bk = strings.Join(raw, "/")

	// chromatic number with witness
	chi, col := graph.ChromaticNumber(g)
	holdInts("ChromaticNumber colouring of "+c.G6+" "+tag, col)
	returned = append(returned, col)
	tick("ChromaticNumber")
	f.chi = chi
	f.ds = fmt.Sprintf("%d:%s", chi, showCol(col))
	var dk []string
	if !isProper(h, col) {
		fail("ChromaticNumber", "colouring %v is not proper", col)
	} else {
		used := map[int]bool{}
		for _, x := range col {
			used[x] = true
			if x >= chi {
				fail("ChromaticNumber", "colouring %v uses colour %d >= %d", col, x, chi)
			}
		}
		if len(used) != chi {
			fail("ChromaticNumber", "colouring %v uses %d colours, value is %d", col, len(used), chi)
		}
	}
	for k := 0; k <= n+1; k++ {
		ok, kcol := graph.IsKColorable(g, k)
		returned = append(returned, kcol)
		if k == chi || k == n+1 {
			holdInts(fmt.Sprintf("IsKColorable(%d) colouring of %s %s", k, c.G6, tag), kcol)
		}
		tick("IsKColorable")
		if ok {
			dk = append(dk, "1:"+showCol(kcol))
		} else {
			dk = append(dk, "0:"+showCol(kcol))
		}
		if ok {
			f.kc += "1"
			if !isProper(h, kcol) {
				fail("IsKColorable", "k=%d colouring %v is not proper", k, kcol)
			}
			for _, x := range kcol {
				if x >= k {
					fail("IsKColorable", "k=%d colouring %v uses colour %d", k, kcol, x)
				}
			}
		} else {
			f.kc += "0"
			if kcol != nil {
				fail("IsKColorable", "k=%d false with a colouring %v", k, kcol)
			}
		}
	}

	f.dk = strings.Join(dk, "/")
	// values of k outside 0..n+1: far more colours than vertices; k = -1 (no colouring with -1 colours)
	if ok, kcol := graph.IsKColorable(g, n+1000); !ok || !isProper(h, kcol) {
		fail("IsKColorable", "k=%d answers %v with colouring %v", n+1000, ok, kcol)
	}
	if ok, kcol := graph.IsKColorable(g, -1); n > 0 && (ok || kcol != nil) {
		fail("IsKColorable", "k=-1 answers %v with colouring %v", ok, kcol)
	}
	tick("IsKColorable with extreme k")

	// chromatic index with witness
	f.lg = "-"
	f.dci = "-"
	if f.m <= maxEdgesChromaticIndex {
		var sb strings.Builder
		for _, b := range graph.LineGraphDense(g).Edges {
			sb.WriteByte('0' + b)
		}
		f.lg = sb.String()
		ci, ce := graph.ChromaticIndex(g)
		returnedBytes = append(returnedBytes, ce)
		if ce != nil {
			hold("ChromaticIndex edge array of "+c.G6+" "+tag, func() string { return fmtBytes(ce) })
		}
		tick("ChromaticIndex")
		f.ci = ci
		if ce == nil {
			f.dci = fmt.Sprintf("%d:nil", ci)
		} else {
			cei := make([]int, len(ce))
			for i, b := range ce {
				cei[i] = int(b)
			}
			f.dci = fmt.Sprintf("%d:%s", ci, gx.JoinInts(cei, "."))
		}
		if len(ce) != n*(n-1)/2 {
			fail("ChromaticIndex", "edge array has length %d", len(ce))
		} else {
			used := map[byte]bool{}
			idx := func(i, j int) int {
				if i > j {
					i, j = j, i
				}
				return j*(j-1)/2 + i
			}
			for j := 1; j < n; j++ {
				for i := 0; i < j; i++ {
					x := ce[idx(i, j)]
					if !h.A[i][j] {
						if x != 0 {
							fail("ChromaticIndex", "non-edge %d-%d has colour %d", i, j, x)
						}
						continue
					}
					used[x] = true
					if x < 1 || int(x) > ci {
						fail("ChromaticIndex", "edge %d-%d has colour %d outside 1..%d", i, j, x, ci)
					}
					for u := 0; u < n; u++ { // edges sharing the end j or i
						if u != i && u != j {
							if h.A[u][j] && ce[idx(u, j)] == x {
								fail("ChromaticIndex", "edges %d-%d and %d-%d share colour %d", i, j, u, j, x)
							}
							if h.A[u][i] && ce[idx(u, i)] == x {
								fail("ChromaticIndex", "edges %d-%d and %d-%d share colour %d", i, j, u, i, x)
							}
						}
					}
				}
			}
			if len(used) != ci {
				fail("ChromaticIndex", "colouring uses %d colours, value is %d", len(used), ci)
			}
		}
	}

	// chromatic polynomial (editable representations only)
	if eg, ok := g.(graph.EditableGraph); ok && n <= maxNPoly {
		poly := graph.ChromaticPolynomial(eg)
		holdInts("ChromaticPolynomial coefficients of "+c.G6+" "+tag, poly)
		returned = append(returned, poly)
		tick("ChromaticPolynomial")
		if len(poly) != n+1 {
			fail("ChromaticPolynomial", "%d coefficients for n=%d", len(poly), n)
		}
		var s []string
		for k := 0; k <= n+1; k++ {
			val := new(big.Int)
			for i := len(poly) - 1; i >= 0; i-- {
				val.Mul(val, big.NewInt(int64(k)))
				val.Add(val, big.NewInt(int64(poly[i])))
			}
			s = append(s, val.String())
		}
		f.pk = strings.Join(s, ",")
		f.cp = gx.JoinInts(poly, ",")
		if eg.N() != n || eg.M() != f.m || !sameGraph(eg, h) {
			fail("ChromaticPolynomial", "the argument was modified")
		}
	}

	// degeneracy with certificate
	d, order := graph.Degeneracy(g)
	holdInts("Degeneracy order of "+c.G6+" "+tag, order)
	returned = append(returned, order)
	tick("Degeneracy")
	f.dg = d
	f.ord = gx.JoinInts(order, ".")
	if !isPerm(order, n) {
		fail("Degeneracy", "order %v is not a permutation of the vertices", order)
	} else {
		worst := 0
		for i, x := range order {
			cnt := 0
			for _, y := range order[:i] {
				if h.A[x][y] {
					cnt++
				}
			}
			if cnt > worst {
				worst = cnt
			}
		}
		if worst > d {
			fail("Degeneracy", "order %v has a vertex preceded by %d > %d neighbours", order, worst, d)
		}
	}

	// greedy colouring and IsProperColouring on the given inputs
	for _, t := range c.Toks {
		switch t.Kind {
		case 'o':
			ord := make([]int, len(t.Ints))
			for i, b := range t.Ints {
				ord[i] = inv[b]
			}
			ordSnap := append([]int(nil), ord...)
			mx, gc := graph.GreedyColor(g, ord)
			if gx.JoinInts(ord, ".") != gx.JoinInts(ordSnap, ".") {
				fail("GreedyColor", "the order slice %v was changed to %v", ordSnap, ord)
			}
			for i := range ord { // the caller re-uses its slice: the result must not live in it
				ord[i] = -1
			}
			holdInts("GreedyColor colouring of "+c.G6+" "+tag, gc)
			returned = append(returned, gc)
			tick("GreedyColor")
			if len(gc) != n {
				fail("GreedyColor", "colouring of length %d", len(gc))
				f.gr = append(f.gr, "?")
				continue
			}
			bc := make([]int, n)
			top := -1
			for i, x := range gc {
				bc[v.Perm[i]] = x
				if x > top {
					top = x
				}
			}
			if mx != top {
				fail("GreedyColor", "returned maximum %d, colouring %v", mx, gc)
			}
			if !isProper(h, gc) {
				fail("GreedyColor", "order %v: colouring %v is not proper", ordSnap, gc)
			}
			if got := graph.IsProperColouring(g, gc); got != isProper(h, gc) {
				fail("IsProperColouring", "on the greedy colouring %v: %v", gc, got)
			}
			f.gr = append(f.gr, gx.JoinInts(bc, "."))
		case 'p':
			pc := append([]int{}, t.Ints...)
			if len(pc) == n {
				for i := range pc {
					pc[i] = t.Ints[v.Perm[i]]
				}
			}
			pcSnap := append([]int(nil), pc...)
			verdict := graph.IsProperColouring(g, pc)
			if gx.JoinInts(pc, ".") != gx.JoinInts(pcSnap, ".") {
				fail("IsProperColouring", "the colouring slice %v was changed to %v", pcSnap, pc)
			}
			for i := range pc {
				pc[i] = 0
			}
			tick("IsProperColouring")
			if verdict {
				f.pr = append(f.pr, "t")
			} else {
				f.pr = append(f.pr, "f")
			}
		}
	}
	// a documented panic (order of the wrong length), recovered, followed by further calls
	if n >= 1 {
		panicked := func() (p bool) {
			defer func() { p = recover() != nil }()
			graph.GreedyColor(g, gx.Identity(n-1))
			return
		}()
		if !panicked {
			fail("GreedyColor", "no panic for an order of length n-1")
		}
		tick("GreedyColor (recovered panic)")
		if mx2, gc2 := graph.GreedyColor(g, gx.Identity(n)); gx.JoinInts(gc2, ".") != gx.JoinInts(refGreedy(h, gx.Identity(n)), ".") || len(gc2) != n {
			fail("GreedyColor", "after a recovered panic: colouring %v (max %d) is not first-fit along 0..n-1", gc2, mx2)
		}
		if c2, col2 := graph.ChromaticNumber(g); c2 != chi || !isProper(h, col2) {
			fail("ChromaticNumber", "second call on the same graph: %d %v, first call %d", c2, col2, chi)
		}
		tick("second calls")
	}
	// the optimal colourings are inputs for IsProperColouring too
	if !graph.IsProperColouring(g, col) && isProper(h, col) {
		fail("IsProperColouring", "rejects the proper colouring %v", col)
	}
	// the caller owns what was returned: write into every returned slice, append to it, and then
	// call everything again on the same graph (a function that handed out memory it still uses,
	// e.g. a cached table, now computes with the caller's scribbles)
	scribble := func() {
		for _, sl := range returned {
			for i := range sl {
				sl[i] = 7777 + i
			}
			if sl != nil {
				_ = append(sl, 4242, 4243)
			}
		}
		for _, sl := range returnedBytes {
			for i := range sl {
				sl[i] = 0xEE
			}
			if sl != nil {
				_ = append(sl, 0xEF)
			}
		}
		returned, returnedBytes = nil, nil
		resnapHeld()
	}
	scribble()
	if secondRound || n <= 2 {
		if w2 := graph.CliqueNumber(g); w2 != f.w {
			fail("CliqueNumber", "second call %d, first call %d", w2, f.w)
		}
		if a2 := graph.IndependenceNumber(g); a2 != f.a {
			fail("IndependenceNumber", "second call %d, first call %d", a2, f.a)
		}
		ch2 := make(chan []int, 3)
		go graph.AllMaximalCliques(g, ch2)
		var mc2 [][]int
		for cl := range ch2 {
			returned = append(returned, cl)
			mc2 = append(mc2, gx.MapBack(v.Perm, hx.SortedCopy(cl)))
		}
		gx.SortLists(mc2)
		if got := fmt.Sprintf("%d:%s", len(mc2), gx.Lists(mc2)); got != f.mc {
			fail("AllMaximalCliques", "second call reports %s, first call %s", got, f.mc)
		}
		c2, col2 := graph.ChromaticNumber(g)
		returned = append(returned, col2)
		if c2 != f.chi || !isProper(h, col2) {
			fail("ChromaticNumber", "second call (after the caller wrote into the first result): %d %v, first call %d", c2, col2, f.chi)
		}
		if ok, kcol := graph.IsKColorable(g, f.chi); !ok || !isProper(h, kcol) {
			fail("IsKColorable", "second round: k=%d answers %v %v", f.chi, ok, kcol)
		} else {
			returned = append(returned, kcol)
		}
		if ok, _ := graph.IsKColorable(g, f.chi-1); ok && f.chi >= 1 {
			fail("IsKColorable", "second round: k=%d answers true, chi is %d", f.chi-1, f.chi)
		}
		if f.m <= maxEdgesChromaticIndex {
			ci2, ce2 := graph.ChromaticIndex(g)
			returnedBytes = append(returnedBytes, ce2)
			cei := make([]int, len(ce2))
			for i, b := range ce2 {
				cei[i] = int(b)
			}
			if got := fmt.Sprintf("%d:%s", ci2, gx.JoinInts(cei, ".")); ce2 != nil && got != f.dci {
				fail("ChromaticIndex", "second call %s, first call %s", got, f.dci)
			}
		}
		if eg, ok := g.(graph.EditableGraph); ok && n <= maxNPoly && f.cp != "" {
			poly2 := graph.ChromaticPolynomial(eg)
			if got := gx.JoinInts(poly2, ","); got != f.cp {
				fail("ChromaticPolynomial", "second call (after the caller wrote into the first result) %s, first call %s", got, f.cp)
			}
			returned = append(returned, poly2)
		}
		d2, order2 := graph.Degeneracy(g)
		returned = append(returned, order2)
		if d2 != f.dg || !isPerm(order2, n) {
			fail("Degeneracy", "second call %d %v, first call %d", d2, order2, f.dg)
		}
		if _, gc2 := graph.GreedyColor(g, gx.Identity(n)); gx.JoinInts(gc2, ".") != gx.JoinInts(refGreedy(h, gx.Identity(n)), ".") {
			fail("GreedyColor", "second round: colouring %v is not first-fit along 0..n-1", gc2)
		} else {
			returned = append(returned, gc2)
		}
		tick("second round")
		scribble()
	}
	return f
}

// secondRound: observe calls every function a second time after scribbling over the results
var secondRound bool

func sameGraph(g graph.Graph, h *gx.G) bool {
	for i := 0; i < h.N; i++ {
		for j := 0; j < h.N; j++ {
			if i != j && g.IsEdge(i, j) != h.A[i][j] {
				return false
			}
		}
		nb := g.Neighbours(i)
		if !sort.IntsAreSorted(nb) || gx.JoinInts(nb, ".") != gx.JoinInts(h.Nbrs(i), ".") {
			return false
		}
	}
	return true
}

func exec(line string) hx.Result {
	c := gx.ParseCase(line)
	if c.Level == 2 {
		return execDsaturOnly(c)
	}
	var viol []hx.OracleViolation
	ref := reference(c)
	vars := append([]gx.Variant{{Rep: 'd', Perm: gx.Identity(c.Base.N)}}, c.Vars...)
	for _, t := range c.Toks { // provenance variants (prov.go)
		if strings.IndexByte(extraReps, t.Kind) >= 0 {
			vars = append(vars, gx.Variant{Rep: t.Kind, Perm: t.Ints})
		}
	}
	var first fields
	nonDense := false
	for i, v := range vars {
		if !isPerm(v.Perm, c.Base.N) {
			continue
		}
		secondRound = i <= 1
		f := observe(c, v, &viol)
		if i == 0 {
			first = f
			// the coefficients are determined by the values (n+1 values fix a polynomial of degree
			// <= n), which are compared with the definition; the coefficient arrays of the other
			// variants are compared with those of the first
			ref.cp = f.cp
		} else {
			nonDense = true
		}
		if f.pk == "" { // not an editable representation: nothing to compare
			f.pk = ref.pk
			f.cp = ref.cp
		}
		// level 1 line holds every field
		if got, want := f.line(1), ref.line(1); got != want {
			viol = append(viol, hx.Fail(fmt.Sprintf("C09:values:%s:%c:%s", c.G6, v.Rep, gx.JoinInts(v.Perm, ".")),
				"values on %s variant %c:%s differ from the definitions: got [%s] want [%s]", c.G6, v.Rep, gx.JoinInts(v.Perm, "."), got, want))
		}
	}
	g := c.Base
	nontrivial := ref.m > 0 && ref.m < g.N*(g.N-1)/2 && nonDense
	b := []string{fmt.Sprintf("n=%d", g.N), fmt.Sprintf("chi-omega=%d", ref.chi-ref.w), fmt.Sprintf("maximal-cliques<=%d", gx.Bucket(len(strings.Split(ref.mc, "/")))),
		fmt.Sprintf("level=%d", c.Level)}
	if ref.ci >= 0 {
		maxDeg := 0
		for v := 0; v < g.N; v++ {
			if d := g.Deg(v); d > maxDeg {
				maxDeg = d
			}
		}
		b = append(b, fmt.Sprintf("class=%d", 1+ref.ci-maxDeg))
	}
	// corpus of the known finding C09:chromatic-index-byte-wrap: ChromaticIndex alone on a large tree
	big := ""
	for _, t := range c.Toks {
		if t.Kind == 'G' {
			observeConstructed(c, t, &viol)
		}
		if t.Kind == 'Q' {
			observeSequence(c, t, &viol)
		}
		if t.Kind == 'P' {
			observePlanted(c, t, &viol)
		}
		if t.Kind == 'B' {
			// the model side (Bron-Kerbosch and the edge-array loop on 33 000 pairs in extracted
			// Coq) costs ~17 s per case: only the pure star is compared with the model, the other
			// shapes are validated here only
			// (token B:<leaves>.0.1, emitted in the thorough tier)
			if o := observeBig(c, t, &viol); len(t.Ints) == 3 && t.Ints[1] == 0 && t.Ints[2] == 1 {
				big += " big=" + o
			}
		}
	}
	return hx.Result{Obs: first.line(c.Level) + " ## order=" + first.ord + " bk=" + first.bk + " lg=" + first.lg + " ds=" + first.ds + " dk=" + first.dk + " dci=" + first.dci + big, Nontrivial: nontrivial, Buckets: b, Viol: viol}
}

func main() {
	hx.Main(hx.Prop{
		Rule:        "case = graph + extra (representation, relabelling) variants + vertex orders + candidate colourings; non-trivial = the graph has an edge and a non-edge (so omega, alpha, chi are not forced by n) and at least one variant besides dense/identity is run; distinct by case text",
		Gen:         gen,
		Exec:        exec,
		CaseTimeout: 120 * time.Second, // the largest constructed cases take ~3 s alone; the box may be 10x oversubscribed
		MemMB:       4096,
	})
}
