// Command c02r is the correspondence stream "reuse" of property C02: one CanonicalStorage and one
// CanonicalOrderedPartition pushed through a sequence of graphs of sizes going up and down within
// capacity (op.Reset, then CanonicalIsomorphAllocated), compared with the extracted reuse model
// coq/Canon/SearchReuseModel.v (canon_alloc_reset, storage threaded from call to call).
//
// The theorem of coq/Props/C02_reuse.v quantifies over ALL contents of the storage arrays and of
// the partition arrays.  To exercise that quantifier on the real code the storage and the partition
// do not only hold what earlier calls of the sequence left: before the first call every array
// (all unexported fields of both structs, set through reflect/unsafe) is filled with junk from a
// small linear congruential generator that the driver reproduces — values below a bound given in
// the case (a small bound makes stale path entries coincide with live ones), junk lengths, junk
// inner generator slices of capacities below and above n, junk union-find parents and ranks, junk
// scratch arrays, capacities capn/capm plus 0..2.
//
// Case syntax (one line):
//
//	r:<family>;<capn>;<capm>;<bound>;<seed>;<item> <item> ...     item = <graph6>!<classes>
//	    bound = 0: NewStorage(capn, capm) and NewOrderedPartition(capn, capm, nil), no junk
//	    bound > 0: junk, values of the int arrays in [0, bound), orbit arrays in [-3, capn)
//	    classes: "-" (nil) or "0,3|1|2,4";  every graph has 1 <= n <= capn and m <= capm
//
// Observation: for every item  cg=<graph6 of the graph relabelled by the returned permutation>
// orb=<least member of the returned orbit of every vertex>   ##   for every item perm= ds= gens=
// (exact results), then the whole storage after the last call: the full backing arrays
// (0..cap) of currentBest, currentBestPath/Perm/PermInv/Orbits, firstLeaf, firstLeafPermInv/Orbits/
// Path and of every inner slice of generators (strict: implementation detail).
//
// Oracles (independent of the model): every call on the reused pair returns exactly what
// graph.CanonicalIsomorphFull returns (permutation, generators; orbit partition) — the reuse clause
// of C02 itself; the result is a permutation; every generator is a class-preserving automorphism.
package main

import (
	"fmt"
	"reflect"
	"strconv"
	"strings"
	"time"
	"unsafe"

	"github.com/Tom-Johnston/mamba/graph"
	cx "verifharness/cmd/c01/canonx"
	"verifharness/hx"
)

// ---------------------------------------------------------------- junk (reproduced by ocaml/c02r/driver.ml)

type lcg struct{ x int64 }

func (l *lcg) next() int {
	l.x = (l.x*1103515245 + 12345) & 0x7fffffff
	return int(l.x >> 16)
}

// one array: capacity base + 0..2, a length, the contents (in this order)
func (l *lcg) arr(base, bound int, z bool, capn int) (a []int, ln int) {
	c := base + l.next()%3
	ln = l.next() % (c + 1)
	a = make([]int, c)
	for i := range a {
		if z {
			a[i] = l.next()%(capn+3) - 3
		} else {
			a[i] = l.next() % bound
		}
	}
	return a, ln
}

// ---------------------------------------------------------------- unexported fields

func field(obj interface{}, name string) reflect.Value {
	v := reflect.ValueOf(obj).Elem().FieldByName(name)
	if !v.IsValid() {
		panic("c02r: no field " + name)
	}
	return reflect.NewAt(v.Type(), unsafe.Pointer(v.UnsafeAddr())).Elem()
}

func setInts(obj interface{}, name string, a []int, ln int) {
	f := field(obj, name)
	f.Set(reflect.ValueOf(a[:ln]).Convert(f.Type()))
}

func setInt(obj interface{}, name string, v int) { field(obj, name).SetInt(int64(v)) }

// the whole backing array of a []int-like field
func backing(obj interface{}, name string) []int {
	f := field(obj, name)
	if f.IsNil() {
		return nil
	}
	f = f.Slice(0, f.Cap())
	out := make([]int, f.Len())
	for i := range out {
		out[i] = int(f.Index(i).Int())
	}
	return out
}

func junkStorage(l *lcg, capn, capm, bound int) *graph.CanonicalStorage {
	st := graph.NewStorage(0, 0)
	set := func(name string, base int, z bool) {
		a, ln := l.arr(base, bound, z, capn)
		setInts(st, name, a, ln)
	}
	set("currentBest", capm, false)
	set("currentBestPath", capn, false)
	set("currentBestPerm", capn, false)
	set("currentBestPermInv", capn, false)
	set("currentBestOrbits", capn, true)
	set("firstLeaf", capm, false)
	set("firstLeafPermInv", capn, false)
	set("firstLeafOrbits", capn, true)
	set("firstLeafPath", capn, false)
	// generators: capn-1 + 0..1 inner slices, each of capacity 0..capn+1 (0 = nil)
	ng := capn - 1 + l.next()%2
	gens := make([][]int, ng)
	for i := range gens {
		c := l.next() % (capn + 2)
		ln := l.next() % (c + 1)
		if c > 0 {
			a := make([]int, c)
			for j := range a {
				a[j] = l.next() % bound
			}
			gens[i] = a[:ln]
		}
	}
	field(st, "generators").Set(reflect.ValueOf(gens))
	set("space", capn, false)
	{ // dws []keyValue
		c := capn + l.next()%3
		ln := l.next() % (c + 1)
		f := field(st, "dws")
		s := reflect.MakeSlice(f.Type(), c, c)
		for i := 0; i < c; i++ {
			e := s.Index(i)
			for k := 0; k < 2; k++ {
				fe := e.Field(k)
				reflect.NewAt(fe.Type(), unsafe.Pointer(fe.UnsafeAddr())).Elem().SetInt(int64(l.next() % bound))
			}
		}
		f.Set(s.Slice(0, ln))
	}
	set("nbs", capn, false)
	set("timesSeen", capn, false)
	set("maxCell", capn, false)
	set("numberOfMax", capn, false)
	set("path", capn, false)
	set("choices", capn, false)
	return st
}

func junkPartition(l *lcg, capn, capm, bound int) *graph.CanonicalOrderedPartition {
	op := graph.NewOrderedPartition(1, 0, nil)
	set := func(name string, base int) {
		a, ln := l.arr(base, bound, false, capn)
		setInts(op, name, a, ln)
	}
	set("order", capn)
	set("binDividers", capn)
	set("binAges", capn)
	set("binsToCheck", capn)
	set("value", capm)
	set("inCell", capn)
	setInt(op, "age", l.next()%bound)
	setInt(op, "singletonPrefixLength", l.next()%bound)
	return op
}

func dumpStorage(st *graph.CanonicalStorage) string {
	var b strings.Builder
	for _, nm := range []string{"currentBest", "currentBestPath", "currentBestPerm", "currentBestPermInv", "currentBestOrbits",
		"firstLeaf", "firstLeafPermInv", "firstLeafOrbits", "firstLeafPath"} {
		fmt.Fprintf(&b, " %s=%s", nm, cx.PermString(backing(st, nm)))
	}
	g := field(st, "generators")
	b.WriteString(" slots=")
	if !g.IsNil() {
		g = g.Slice(0, g.Cap())
		for i := 0; i < g.Len(); i++ {
			if i > 0 {
				b.WriteString("/")
			}
			s := g.Index(i)
			if s.IsNil() {
				continue
			}
			s = s.Slice(0, s.Cap())
			a := make([]int, s.Len())
			for j := range a {
				a[j] = int(s.Index(j).Int())
			}
			b.WriteString(cx.PermString(a))
		}
	}
	return b.String()
}

// ---------------------------------------------------------------- execution

func guard(f func()) (msg string) {
	defer func() {
		if e := recover(); e != nil {
			msg = fmt.Sprint(e)
			if msg == "" {
				msg = "panic"
			}
		}
	}()
	f()
	return ""
}

func validClasses(n int, cls [][]int) bool {
	if cls == nil {
		return true
	}
	seen := make([]bool, n)
	cnt := 0
	for _, c := range cls {
		if len(c) == 0 {
			return false
		}
		for _, v := range c {
			if v < 0 || v >= n || seen[v] {
				return false
			}
			seen[v] = true
			cnt++
		}
	}
	return cnt == n
}

func copyClasses(cls [][]int) [][]int {
	if cls == nil {
		return nil
	}
	c2 := make([][]int, len(cls))
	for i := range cls {
		c2[i] = append([]int(nil), cls[i]...)
	}
	return c2
}

func gensString(gens [][]int) string {
	s := make([]string, len(gens))
	for i, g := range gens {
		s[i] = cx.PermString(g)
	}
	return strings.Join(s, "/")
}

type triple struct {
	perm, ds []int
	gens     [][]int
}

func snapshot(p []int, ds []int, gens [][]int) (t triple) {
	t.perm = append([]int(nil), p...)
	t.ds = append([]int(nil), ds...)
	for _, g := range gens {
		t.gens = append(t.gens, append([]int(nil), g...))
	}
	return
}

func (t triple) strict() string {
	return "perm=" + cx.PermString(t.perm) + " ds=" + cx.PermString(t.ds) + " gens=" + gensString(t.gens)
}

func bucketN(n int) string {
	switch {
	case n <= 3:
		return "n<=3"
	case n <= 5:
		return "n=4..5"
	case n <= 7:
		return "n=6..7"
	}
	return "n>=8"
}

func exec(line string) hx.Result {
	f := strings.SplitN(line, ";", 6)
	if len(f) != 6 {
		return hx.Result{Obs: "badcase"}
	}
	fam := f[0]
	capn, e1 := strconv.Atoi(f[1])
	capm, e2 := strconv.Atoi(f[2])
	bound, e3 := strconv.Atoi(f[3])
	seed, e4 := strconv.Atoi(f[4])
	if e1 != nil || e2 != nil || e3 != nil || e4 != nil || capn < 1 || capn > 40 || capm < 0 || bound < 0 || seed < 0 {
		return hx.Result{Obs: "badcase"}
	}
	items := strings.Fields(f[5])
	if len(items) == 0 {
		return hx.Result{Obs: "badcase"}
	}
	type item struct {
		g   *cx.G
		cls [][]int
	}
	var its []item
	for _, it := range items {
		p := strings.SplitN(it, "!", 2)
		if len(p) != 2 {
			return hx.Result{Obs: "badcase"}
		}
		g, err := cx.FromGraph6(p[0])
		if err != nil || g.N < 1 || g.N > capn || g.M() > capm {
			return hx.Result{Obs: "badcase"}
		}
		cls, err := cx.ParseClasses(p[1])
		if err != nil || !validClasses(g.N, cls) {
			return hx.Result{Obs: "badcase"}
		}
		its = append(its, item{g, cls})
	}
	var storage *graph.CanonicalStorage
	var op *graph.CanonicalOrderedPartition
	junkFailed := false
	if bound == 0 {
		storage = graph.NewStorage(capn, capm)
		op = graph.NewOrderedPartition(capn, capm, nil)
	} else {
		l := &lcg{x: int64(seed)}
		if msg := guard(func() {
			storage = junkStorage(l, capn, capm, bound)
			op = junkPartition(l, capn, capm, bound)
		}); msg != "" {
			// the structs no longer have the fields this harness knows (a harmless rewrite of the code):
			// no junk; the results do not depend on it, only the dump in the strict part will differ
			storage = graph.NewStorage(capn, capm)
			op = graph.NewOrderedPartition(capn, capm, nil)
			junkFailed = true
		}
	}
	var viol []hx.OracleViolation
	var proj, strict []string
	buckets := []string{"family:" + fam, fmt.Sprintf("bound:%d", bound)}
	if junkFailed {
		buckets = append(buckets, "junk:unavailable")
	}
	ups, downs, prevN := 0, 0, -1
	sizes := map[int]bool{}
	edgeless, classes := false, false
	for idx, it := range its {
		n, m := it.g.N, it.g.M()
		sizes[n] = true
		if prevN >= 0 && n > prevN {
			ups++
		}
		if prevN >= 0 && n < prevN {
			downs++
		}
		prevN = n
		edgeless = edgeless || m == 0
		classes = classes || it.cls != nil
		prefix := fmt.Sprintf("%s;%d;%d;%d;%d;%s", fam, capn, capm, bound, seed, strings.Join(items[:idx+1], " "))
		var reused, fresh triple
		if msg := guard(func() {
			op.Reset(n, m, copyClasses(it.cls))
			p, ds, gens := graph.CanonicalIsomorphAllocated(n, m, it.g.Neighbours(), op, storage, new(graph.CanonicalOptions))
			reused = snapshot(p, ds, gens)
		}); msg != "" {
			v := hx.Fail("C02:reuse-panic:"+items[idx], "item %d (%s): the call on the reused storage panicked: %s", idx, items[idx], msg)
			v.Case = prefix
			return hx.Result{Obs: "panic", Buckets: buckets, Viol: append(viol, v)}
		}
		if msg := guard(func() {
			p, ds, gens := graph.CanonicalIsomorphFull(it.g.Dense(), copyClasses(it.cls))
			fresh = snapshot(p, ds, gens)
		}); msg != "" {
			v := hx.Fail("C02:panic:"+items[idx], "item %d (%s): the fresh call panicked: %s", idx, items[idx], msg)
			v.Case = prefix
			return hx.Result{Obs: "panic", Buckets: buckets, Viol: append(viol, v)}
		}
		clsOf := cx.ClassOf(n, it.cls)
		orbR, okR := cx.LabelsOfUnionFind(reused.ds)
		orbF, okF := cx.LabelsOfUnionFind(fresh.ds)
		bad := ""
		switch {
		case !cx.IsPerm(reused.perm, n):
			bad = "the result is not a permutation"
		case !okR || !okF || len(reused.ds) != n:
			bad = "the orbit array is not a forest of length n"
		case hx.Ints(reused.perm) != hx.Ints(fresh.perm):
			bad = "permutation differs from the fresh call"
		case gensString(reused.gens) != gensString(fresh.gens):
			bad = "generators differ from the fresh call"
		case hx.Ints(orbR) != hx.Ints(orbF):
			bad = "orbit partition differs from the fresh call"
		}
		if bad == "" {
			for _, gm := range reused.gens {
				if !it.g.IsAut(gm, clsOf) {
					bad = "a generator is not a class-preserving automorphism"
				}
			}
		}
		if bad != "" && len(viol) < 3 {
			v := hx.Fail("C02:reuse:"+items[idx], "item %d (%s): %s: reused %s, fresh %s", idx, items[idx], bad, reused.strict(), fresh.strict())
			v.Case = prefix
			viol = append(viol, v)
		}
		orb := "notforest"
		if okR {
			orb = cx.PermString(orbR)
		}
		cg := "notperm"
		if cx.IsPerm(reused.perm, n) {
			cg = it.g.RelabelledGraph6(reused.perm)
		}
		proj = append(proj, "cg="+cg+" orb="+orb)
		st := reused.strict()
		if hx.Ints(reused.ds) != hx.Ints(fresh.ds) {
			st += " rawdiff"
		}
		strict = append(strict, st)
		buckets = append(buckets, bucketN(n))
	}
	if edgeless {
		buckets = append(buckets, "has:edgeless")
	}
	if classes {
		buckets = append(buckets, "has:classes")
	}
	buckets = append(buckets, fmt.Sprintf("len:%d", len(its)))
	final := "unreadable"
	guard(func() { final = dumpStorage(storage) })
	obs := strings.Join(proj, " | ") + " ## " + strings.Join(strict, " | ") + " final:" + final
	return hx.Result{Obs: obs, Nontrivial: ups > 0 && downs > 0 && len(sizes) >= 3, Buckets: buckets, Viol: viol}
}

// ---------------------------------------------------------------- generator

func randomClasses(r *hx.Rng, n int) [][]int {
	k := 1 + r.Intn(n)
	if r.Chance(1, 2) {
		k = 1 + r.Intn(3)
		if k > n {
			k = n
		}
	}
	for {
		cls := make([][]int, k)
		for _, v := range r.Perm(n) {
			c := r.Intn(k)
			cls[c] = append(cls[c], v)
		}
		ok := true
		for _, c := range cls {
			if len(c) == 0 {
				ok = false
			}
		}
		if ok {
			return cls
		}
	}
}

func randomGraph(r *hx.Rng, n int) *cx.G {
	switch r.Intn(12) {
	case 0:
		return cx.Empty(n)
	case 1:
		return cx.Complete(n)
	case 2:
		if n >= 3 {
			return cx.CycleG(n)
		}
	case 3:
		return cx.PathG(n)
	case 4:
		if n >= 2 {
			return cx.StarG(n)
		}
	case 5:
		if n >= 2 {
			a := 1 + r.Intn(n-1)
			return cx.CompleteMultipartite(a, n-a)
		}
	case 6:
		return cx.RandomTree(r, n)
	case 7:
		if n >= 4 {
			return cx.Circulant(n, 1, 2)
		}
	case 8:
		if n >= 2 && n%2 == 0 {
			return cx.Copies(2, cx.RandomGnp(r, n/2, 1, 2))
		}
	}
	return cx.RandomGnp(r, n, 1+r.Intn(3), 4)
}

func gen(g *hx.Gen) {
	r := g.Rng
	emit := func(fam string, capn, capm, bound int, gs []*cx.G, withClasses bool) {
		var toks []string
		for _, h := range gs {
			cls := "-"
			if withClasses && r.Chance(1, 2) {
				cls = cx.ClassesString(randomClasses(r, h.N))
			}
			toks = append(toks, h.Graph6()+"!"+cls)
		}
		g.Emit(fmt.Sprintf("r:%s;%d;%d;%d;%d;%s", fam, capn, capm, bound, r.Intn(1<<30), strings.Join(toks, " ")))
	}
	bounds := func(capn int) int {
		switch r.Intn(6) {
		case 0:
			return 0
		case 1:
			return 1
		case 2:
			return 2
		case 3:
			return 3
		case 4:
			return capn
		}
		return capn * capn
	}
	// fixed small sequences: every pair of graphs on <= 3 vertices in both orders, junk bound 2
	var small []*cx.G
	for n := 1; n <= 3; n++ {
		for mask := 0; mask < 1<<uint(n*(n-1)/2); mask++ {
			h := cx.New(n)
			b := 0
			for j := 1; j < n; j++ {
				for i := 0; i < j; i++ {
					if mask>>uint(b)&1 == 1 {
						h.Add(i, j)
					}
					b++
				}
			}
			small = append(small, h)
		}
	}
	for _, a := range small {
		for _, b := range small {
			emit("pairs", 3, 3, 2, []*cx.G{a, b, a}, false)
		}
	}
	g.Exhaustive("all ordered pairs (a, b) of labelled graphs on 1..3 vertices as the sequence a b a through one junk-filled storage")
	// random sequences
	nseq := g.Pick(2500, 30000)
	for s := 0; s < nseq; s++ {
		capn := 3 + r.Intn(8)
		if r.Chance(1, 10) {
			capn = 11 + r.Intn(2)
		}
		capm := capn * (capn - 1) / 2
		k := 2 + r.Intn(6)
		var gs []*cx.G
		for i := 0; i < k; i++ {
			n := 1 + r.Intn(capn)
			if r.Chance(1, 2) {
				n = capn - r.Intn(3)
			}
			gs = append(gs, randomGraph(r, n))
		}
		emit("random", capn, capm, bounds(capn), gs, r.Chance(2, 3))
	}
	// the same graph relabelled again and again, with smaller ones in between: recorded paths of
	// earlier calls are prefixes of later ones
	for s := 0; s < g.Pick(600, 6000); s++ {
		capn := 4 + r.Intn(7)
		capm := capn * (capn - 1) / 2
		base := randomGraph(r, capn)
		var gs []*cx.G
		for i := 0; i < 3+r.Intn(4); i++ {
			if r.Chance(1, 3) {
				gs = append(gs, randomGraph(r, 1+r.Intn(capn)))
			} else {
				gs = append(gs, base.Relabel(r.Perm(capn)))
			}
		}
		emit("relabel", capn, capm, bounds(capn), gs, r.Chance(1, 2))
	}
	// structured graphs (vertex-transitive, strongly regular, unions of unequal components: deep search trees
	// with leaves at different depths), relabelled, smaller random graphs in between
	var pool []*cx.G
	for _, nm := range cx.Structured(12) {
		if nm.G.N >= 4 {
			pool = append(pool, nm.G)
		}
	}
	for s := 0; s < g.Pick(700, 8000); s++ {
		var gs []*cx.G
		capn, capm := 0, 0
		for i := 0; i < 2+r.Intn(5); i++ {
			var h *cx.G
			switch r.Intn(5) {
			case 0:
				h = randomGraph(r, 1+r.Intn(8))
			case 1:
				a, b := pool[r.Intn(len(pool))], pool[r.Intn(len(pool))]
				if a.N+b.N <= 12 {
					h = cx.Union(a, b)
				} else {
					h = a
				}
			case 2:
				h = cx.Perturb(r, pool[r.Intn(len(pool))], 1+r.Intn(2))
			default:
				h = pool[r.Intn(len(pool))]
			}
			h = h.Relabel(r.Perm(h.N))
			if h.N > capn {
				capn = h.N
			}
			if h.M() > capm {
				capm = h.M()
			}
			gs = append(gs, h)
		}
		capn += r.Intn(3)
		if r.Chance(1, 2) {
			capm = capn * (capn - 1) / 2
		}
		emit("structured", capn, capm, bounds(capn), gs, r.Chance(1, 2))
	}
	// regular graphs: leaves of the search tree at different depths, so that ints.HasPrefix(firstLeafPath /
	// currentBestPath, path[:len(path)-1]) reads BEYOND the entries of the recorded leaf, into the stale tail
	// (measured on an instrumented clone: the six corpus graphs below do, also in a fresh call); with a junk
	// bound of 1..3 the stale entries often equal the live ones
	corpus := []string{"Kg_Ox@@ISGAD", "IsD?XScSG", "IKOeKO[KO", "IcCeBGMM?", "Iq_GY_pH_", "I@`SRQaT?"}
	for _, c := range corpus {
		h := cx.MustGraph6(c)
		for b := 1; b <= 3; b++ {
			for rep := 0; rep < 3; rep++ {
				emit("stalepath", h.N+rep, h.N*(h.N-1)/2, b, []*cx.G{cx.PathG(h.N), h, h.Relabel(r.Perm(h.N))}, false)
			}
		}
	}
	for s := 0; s < g.Pick(500, 6000); s++ {
		var gs []*cx.G
		capn := 0
		for i := 0; i < 2+r.Intn(3); i++ {
			n := 8 + 2*r.Intn(4)
			d := 3
			if r.Chance(1, 3) {
				d = 4
			}
			h := cx.RandomRegularSwitch(r, n, d)
			if r.Chance(1, 2) && n <= 14 {
				// two copies of a cubic graph joined by the perfect matching i -- i'
				b := cx.RandomRegularSwitch(r, n/2+n/2%2, 3)
				if b != nil {
					m := b.N
					h = cx.Union(b, b)
					for v := 0; v < m; v++ {
						h.Add(v, m+v)
					}
				}
			}
			if h == nil {
				h = cx.CycleG(n)
			}
			h = h.Relabel(r.Perm(h.N))
			if h.N > capn {
				capn = h.N
			}
			gs = append(gs, h)
		}
		emit("regular", capn+r.Intn(2), capn*(capn+1)/2, 1+r.Intn(3), gs, r.Chance(1, 4))
	}
	// tight capacity in edges: capm = the largest m of the sequence
	for s := 0; s < g.Pick(200, 2000); s++ {
		capn := 3 + r.Intn(6)
		var gs []*cx.G
		capm := 0
		for i := 0; i < 2+r.Intn(4); i++ {
			h := randomGraph(r, 1+r.Intn(capn))
			if h.M() > capm {
				capm = h.M()
			}
			gs = append(gs, h)
		}
		emit("tight", capn, capm, bounds(capn), gs, r.Chance(1, 2))
	}
}

func main() {
	hx.Main(hx.Prop{
		Rule:        "case = one storage/partition pair (junk-filled or fresh) pushed through a sequence of graphs; non-trivial: the sizes go both up and down over at least three different sizes; distinct by case text",
		Gen:         gen,
		Exec:        exec,
		CaseTimeout: 20 * time.Second,
		MemMB:       2048,
	})
}
