// Command c20 exercises tsp.LIB: every position of a failing Write x {error, short write, full count + error} x
// {transient, permanent}, and the content of the complete output (C20).
package main

import (
	"errors"
	"fmt"
	"io"
	"os"
	"syscall"
	"strconv"
	"strings"
	"time"

	"github.com/Tom-Johnston/mamba/tsp"
	"verifharness/hx"
)

var errInjected = errors.New("injected write failure")

// tempErr looks like a net.Error that announces itself as temporary and as a timeout.
type tempErr struct{}

func (tempErr) Error() string   { return "temporary failure" }
func (tempErr) Temporary() bool { return true }
func (tempErr) Timeout() bool   { return true }

// errValues: the error a failing Write returns.  The property says that EVERY failing Write is
// reported, whatever the error value is: "retry on EINTR/EAGAIN", "ignore timeouts", "EOF means
// done" and errors.Is / type-assertion special cases are all wrong.  The value is chosen from the
// case (index of the failing call and n), so every position meets every value over the sweep.
var errValues = []error{
	errInjected,
	syscall.EINTR,
	syscall.EAGAIN,
	io.ErrShortWrite,
	io.EOF,
	fmt.Errorf("write: %w", syscall.EINTR),
	tempErr{},
	os.ErrDeadlineExceeded,
	io.ErrClosedPipe,
	&os.PathError{Op: "write", Path: "/dev/full", Err: syscall.ENOSPC},
	syscall.EPIPE,
	io.ErrUnexpectedEOF,
}

// fwriter fails at call index idx (transient: only that call; permanent: from there on).
type fwriter struct {
	calls     int
	idx       int // -1: never
	short     bool
	full      bool // the failing call accepts all bytes and still returns an error
	permanent bool
	errv      error
	buf       []byte
}

func (w *fwriter) Write(p []byte) (int, error) {
	k := w.calls
	w.calls++
	if w.idx >= 0 && (k == w.idx || (w.permanent && k > w.idx)) {
		e := w.errv
		if e == nil {
			e = errInjected
		}
		if w.full {
			w.buf = append(w.buf, p...)
			return len(p), e
		}
		if w.short && len(p) > 0 {
			w.buf = append(w.buf, p[:len(p)/2]...)
			return len(p) / 2, e
		}
		return 0, e
	}
	w.buf = append(w.buf, p...)
	return len(p), nil
}

// formula weights for large instances (case syntax w=#): the same function is in the driver
func formulaWeight(i, j int) int { return (i*31+j*17)%1000 - 500 }

func parse(line string) (n int, failspec, kind string, vals []int) {
	f := strings.Split(line, ";")
	n, _ = strconv.Atoi(f[0])
	failspec, kind = f[1], f[2]
	if f[3] == "w=#" {
		for i := 0; i < n; i++ {
			for j := 0; j < i; j++ {
				vals = append(vals, formulaWeight(i, j))
			}
		}
		return
	}
	for _, s := range strings.Split(strings.TrimPrefix(f[3], "w="), ",") {
		if s != "" {
			v, _ := strconv.Atoi(s)
			vals = append(vals, v)
		}
	}
	return
}

func exec(line string) hx.Result {
	n, failspec, kind, vals := parse(line)
	var res hx.Result
	type call struct{ i, j int }
	var calls []call
	domainOK := true
	weights := func(i, j int) int {
		calls = append(calls, call{i, j})
		if !(0 <= j && j < i && i < n) {
			domainOK = false
			return -777
		}
		return vals[i*(i-1)/2+j]
	}
	// dry run with a writer that never fails: number of Write calls of the complete output
	dry := &fwriter{idx: -1}
	if err := tsp.LIB(dry, n, weights); err != nil {
		res.Viol = append(res.Viol, hx.Fail("C20:dry-run-error", "LIB returned %v on a writer that never fails (n=%d)", err, n))
	}
	total := dry.calls
	c := total - 4
	if c < 0 {
		c = 0
	}
	idx := -1
	switch {
	case failspec == "none":
	case failspec == "h0", failspec == "h1", failspec == "h2":
		idx = int(failspec[1] - '0')
	case failspec == "eof":
		idx = 3 + c
	default:
		j, _ := strconv.Atoi(failspec[1:])
		if c > 0 {
			idx = 3 + j%c
		} else {
			idx = 3 + c
		}
	}
	calls = nil
	domainOK = true
	w := &fwriter{idx: idx, short: kind == "s" || kind == "S", full: kind == "c" || kind == "C", permanent: kind == "E" || kind == "S" || kind == "C"}
	if idx >= 0 {
		w.errv = errValues[(idx*7+n*5+len(kind)+int(kind[0]))%len(errValues)]
	}
	err := tsp.LIB(w, n, weights)
	if idx >= 0 && idx < total && err == nil {
		res.Viol = append(res.Viol, hx.Fail("", "LIB returned nil although Write call %d of %d failed (%s, kind %s, error value %v)", idx, total, failspec, kind, w.errv))
	}
	if idx >= 0 && !strings.HasPrefix(string(dry.buf), string(w.buf)) {
		res.Viol = append(res.Viol, hx.Fail("", "bytes accepted before the failure are not a prefix of the complete output"))
	}
	var sb strings.Builder
	fmt.Fprintf(&sb, "err=%t;domain_ok=%t", err != nil, domainOK)
	if idx < 0 {
		out := string(w.buf)
		if !strings.HasSuffix(out, "\n") {
			out += "<no final newline>"
		}
		ls := strings.Split(strings.TrimSuffix(out, "\n"), "\n")
		for i := range ls {
			ls[i] = strings.Join(strings.Fields(ls[i]), " ")
		}
		sb.WriteString(";lines=" + strings.Join(ls, "/"))
	}
	if strings.HasSuffix(line, "w=#") {
		// large instance: number of weights calls and a position-dependent checksum of them
		sum := 0
		for k, c := range calls {
			sum = (sum + (c.i*1009+c.j)*(k%977+1)) % 1000000007
		}
		fmt.Fprintf(&sb, " ## calls#=%d:%d", len(calls), sum)
	} else {
		cs := make([]string, len(calls))
		for i, c := range calls {
			cs[i] = fmt.Sprintf("%d.%d", c.i, c.j)
		}
		sb.WriteString(" ## calls=" + strings.Join(cs, ","))
	}
	res.Obs = sb.String()
	res.Nontrivial = idx >= 3 && idx < 3+c // failure index inside the weight section
	res.Buckets = []string{"n=" + strconv.Itoa(n), "fail:" + strings.TrimRight(failspec, "0123456789") + "/" + kind}
	return res
}

func genWeights(r *hx.Rng, n int, style int) []int {
	m := n * (n - 1) / 2
	v := make([]int, m)
	for k := range v {
		switch style {
		case 0:
			v[k] = r.Range(0, 99)
		case 1:
			v[k] = r.Range(-1000, 1000)
		case 2:
			big := []int{1 << 62, -(1 << 62), 1<<63 - 1, -1 << 63, 0, -1, 1, 123456789012345678}
			v[k] = big[r.Intn(len(big))]
		case 4:
			// digit-count boundaries: 10^e + d and its negative, d in -2..2, next to short numbers
			if r.Intn(3) == 0 {
				v[k] = r.Range(0, 99)
			} else {
				p := 1
				for e := r.Intn(19); e > 0; e-- {
					p *= 10
				}
				v[k] = p + r.Range(-2, 2)
				if r.Intn(2) == 0 {
					v[k] = -v[k]
				}
			}
		case 5:
			// powers of two and neighbours (binary boundaries)
			v[k] = (1 << uint(r.Intn(63))) + r.Range(-1, 1)
			if r.Intn(2) == 0 {
				v[k] = -v[k]
			}
		default:
			v[k] = k + 1
		}
	}
	return v
}

func gen(g *hx.Gen) {
	emit := func(n int, failspec, kind string, vals []int) {
		g.Emit(fmt.Sprintf("%d;%s;%s;w=%s", n, failspec, kind, hx.Ints(vals)))
	}
	// corpus: the instance of the repository's golden test (n = 11, weights 100*j+i)
	{
		n := 11
		var v []int
		for i := 0; i < n; i++ {
			for j := 0; j < i; j++ {
				v = append(v, 100*j+i)
			}
		}
		emit(n, "none", "e", v)
		emit(n, "f7", "e", v) // the failure the pinned tree did not report
	}
	maxN := g.Pick(9, 14)
	for n := 0; n <= maxN; n++ {
		for style := 0; style < 6; style++ {
			vals := genWeights(g.Rng, n, style)
			emit(n, "none", "e", vals)
			if style > 3 {
				// value-boundary styles: the complete output is what matters; several draws
				for rep := 0; rep < g.Pick(6, 40); rep++ {
					emit(n, "none", "e", genWeights(g.Rng, n, style))
				}
				continue
			}
			if style > 1 && n > 5 {
				continue
			}
			// every write index: the three header writes, every flush write, the EOF write.
			// The tabwriter issues at most ~3 writes per cell; f<j> is taken modulo the
			// measured number of flush writes, so j up to 3*cells+n+2 covers every index.
			cells := n*(n+1)/2 + n
			limit := 3*cells + 3
			for _, kind := range []string{"e", "s", "c", "E", "S", "C"} {
				for _, h := range []string{"h0", "h1", "h2", "eof"} {
					emit(n, h, kind, vals)
				}
				for j := 0; j < limit; j++ {
					emit(n, "f"+strconv.Itoa(j), kind, vals)
				}
			}
		}
	}
	g.Exhaustive(fmt.Sprintf("every Write call index of the complete output x {error with zero count, short count, full count} x {transient, permanent} for every n <= %d (4 weight styles for n<=5, 2 above)", maxN))
	kinds := []string{"e", "s", "c", "E", "S", "C"}
	for i := 0; i < g.Pick(300, 3000); i++ {
		n := g.Rng.Range(0, 24)
		vals := genWeights(g.Rng, n, g.Rng.Intn(6))
		emit(n, "none", "e", vals)
		emit(n, "f"+strconv.Itoa(g.Rng.Intn(4000)), kinds[g.Rng.Intn(len(kinds))], vals)
	}
	// large instances (formula weights, syntax w=#): sizes around powers of two and other
	// thresholds where buffering / chunking of the output could change, with a transient
	// failure at every write index (stride in the quick tier for the largest ones)
	emitF := func(n int, failspec, kind string) { g.Emit(fmt.Sprintf("%d;%s;%s;w=#", n, failspec, kind)) }
	for _, n := range []int{31, 32, 33, 63, 64, 65, 66, 100, 127, 128, 129, 130} {
		emitF(n, "none", "e")
		cells := n*(n+1)/2 + n
		limit := 3*cells + 3
		stride := g.Pick(5, 1)
		if n > 40 {
			stride = g.Pick(17, 1)
		}
		if n > 70 {
			stride = g.Pick(211, 5)
		}
		for _, kind := range []string{"e", "c"} {
			for _, h := range []string{"h0", "h1", "h2", "eof"} {
				emitF(n, h, kind)
			}
			for j := 0; j < limit; j += stride {
				emitF(n, "f"+strconv.Itoa(j), kind)
			}
		}
	}
	// sizes across 256 (thorough: 512) (row length, digit count of DIMENSION, any
	// "large problem" path): the complete output and a few failure positions each
	// (the extracted model works on lists: about n^3 steps per case, so 300 is the quick limit)
	bigNs := []int{255, 256, 257, 258, 300}
	if g.Thorough() {
		bigNs = append(bigNs, 400, 511, 512, 513)
	}
	for _, n := range bigNs {
		emitF(n, "none", "e")
		for _, h := range []string{"h0", "h1", "h2", "eof"} {
			emitF(n, h, kinds[g.Rng.Intn(len(kinds))])
		}
		for k := 0; k < g.Pick(4, 12); k++ {
			emitF(n, "f"+strconv.Itoa(g.Rng.Intn(1<<22)), kinds[g.Rng.Intn(len(kinds))])
		}
	}
	for i := 0; i < g.Pick(400, 6000); i++ {
		n := g.Rng.Range(25, 200)
		emitF(n, "f"+strconv.Itoa(g.Rng.Intn(1<<20)), kinds[g.Rng.Intn(len(kinds))])
	}
}

func main() {
	hx.Main(hx.Prop{
		Rule:        "case = n, weights (lower triangle), position and kind of a failing Write; non-trivial = the failing call lies inside the weight section written by the tabwriter flush; distinct by case text",
		Gen:         gen,
		Exec:        exec,
		CaseTimeout: 10 * time.Second,
		MemMB:       2048,
	})
}
