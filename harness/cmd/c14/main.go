// Command c14: the main correspondence stream of C14 (see package lib).
package main

import (
	"time"

	"verifharness/cmd/c14/lib"
	"verifharness/hx"
)

func main() {
	hx.Main(hx.Prop{
		Rule:        lib.Rule,
		Gen:         lib.Gen,
		Exec:        lib.Exec,
		CaseTimeout: 30 * time.Second,
		MemMB:       3072,
	})
}
