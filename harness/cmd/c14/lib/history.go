package lib

// History cases: several automata, a program of encode / decode / observe steps over them, and
// the results of all the calls held at the same time.
//
//	b=..,s=..,n=<k>[,x=<i>:<hex stream>/...],p=<op>.<op>...,v=e|f;<i>:<hex word> <i>:<hex word> ...
//
// Source i (0 <= i < n) is the word set of the tokens with prefix "i:" (dawg.New), or the foreign
// stream given under x= (GobDecode into a fresh Dawg).  Slots 0..n-1 hold the source automata;
// slots n, n+1 are zero-value Dawgs (new(dawg.Dawg)).  Every result of an encoding step is kept
// ("held") exactly as the call returned it and numbered 0,1,2,... in program order.
//
//	e<o>        b := slot[o].GobEncode(); hold b (not copied)
//	g<o>        encode slot[o] with a gob.Encoder of its own; hold the stream
//	d<o>:<h>    slot[o].GobDecode(held h)        (the receiver keeps whatever history it has; the
//	            bytes are passed in ONE scratch buffer that all d steps of the case reuse and
//	            that is overwritten after every second step and before the final validation)
//	D<o>:<h>    gob-decode the held stream h into slot[o]
//	G<o>+<o>..><r>+<r>..   encode the slots with ONE gob.Encoder into one stream, decode it with
//	            ONE gob.Decoder into the receivers r (a slot number, or f = a fresh Dawg that is
//	            then held and validated like a slot)
//	s<o>        observe slot[o] (Search, Lookup, counts)
//	k<o>        keep a copy BY VALUE of the Dawg in slot[o] (cp := *slot[o], as `all = append(all, d)`
//	            does with a `var d dawg.Dawg` that is decoded into again and again); the copy must
//	            behave as the source it held at that moment whatever is decoded into the slot later
//	c           validate everything now
//
// Validation: every held encoding still decodes (into a fresh Dawg) to the automaton of the
// source it was taken from and re-encodes to itself; all direct encodings of one source are
// byte-identical (the decoded copies keep the ids); every slot behaves as the source whose
// automaton it holds; at the end every slot is encoded once more.  v=e validates after each
// step, v=f only at the end (and at c steps): intermediate calls can mask or expose state.
//
// The projected observation is, per source, the plain round-trip observation computed at the
// END of the program from the first encoding of that source that the program held — the model
// computes it from the source alone, so a held result that a later call disturbed shows up
// against the model as well as in the oracles.

import (
	"bytes"
	"encoding/gob"
	"fmt"
	"strconv"
	"strings"

	"github.com/Tom-Johnston/mamba/dawg"
	"verifharness/hx"
)

type heldEnc struct {
	b      []byte
	framed bool
	c      int // source whose automaton was encoded
	step   int
}

type extraObj struct {
	d *dawg.Dawg
	c int
}

func execHistory(c tcase) hx.Result {
	n := c.n
	var viol []hx.OracleViolation
	fail := func(key, f string, a ...interface{}) {
		if len(viol) < 6 {
			viol = append(viol, hx.Fail(key, f, a...))
		}
	}
	exp := make([]string, n)
	wf := make([]string, n)
	slots := make([]*dawg.Dawg, n+2)
	content := make([]int, n+2)
	projs := make([]string, n)
	stricts := make([]string, n)
	bad := false
	for i := 0; i < n; i++ {
		d, what := makeSource(c.srcs[i], c.cons+i)
		if d == nil {
			projs[i] = what
			bad = true
			if c.srcs[i].stream != nil {
				fail("C14:foreign-decode-error", "GobDecode rejects a stream in the shape GobEncode writes (another id numbering)")
			}
			continue
		}
		slots[i], content[i] = d, i
		// expectations from a twin: the slot itself is untouched until the program reaches it
		// (so a program can encode an automaton that has never been searched)
		twin, _ := makeSource(c.srcs[i], c.cons+i)
		if twin == nil {
			twin = d
		}
		exp[i] = c.obs(twin)
		wf[i] = wfString(twin)
	}
	if bad {
		for i := range projs {
			if projs[i] == "" {
				projs[i] = "not-run"
			}
		}
		return hx.Result{Obs: joinSources(projs, nil), Viol: viol}
	}
	for j := n; j < n+2; j++ {
		slots[j], content[j] = new(dawg.Dawg), -1
	}
	var helds []heldEnc
	var scratch []byte // the caller's buffer of the direct decodes (d steps), reused
	var extras []extraObj
	canon := make([][]byte, n)
	usedReceiver, multiHeld := false, false
	valueCopies := 0
	_ = valueCopies
	step := 0

	slotOK := func(o int) bool { return o >= 0 && o < len(slots) }
	noteCanon := func(ci int, b []byte, where string) {
		if canon[ci] == nil {
			canon[ci] = append([]byte{}, b...)
		} else if !bytes.Equal(canon[ci], b) {
			fail("C14:history-encoding-differs", "step %d (%s): GobEncode of an automaton holding source %d gives bytes different from an earlier encoding of that source", step, where, ci)
		}
	}
	checkSlot := func(o int, where string) {
		if content[o] < 0 {
			return
		}
		if got := c.obs(slots[o]); got != exp[content[o]] {
			fail("C14:history-object-differs", "step %d (%s): slot %d should behave as source %d: expected %s got %s", step, where, o, content[o], short(exp[content[o]], 300), short(got, 300))
		}
	}
	checkHeld := func(k int, where string) {
		h := helds[k]
		d := new(dawg.Dawg)
		if h.framed {
			if err := gob.NewDecoder(bytes.NewReader(h.b)).Decode(d); err != nil {
				fail("C14:history-held-decode-error", "step %d (%s): the gob stream held since step %d no longer decodes: %v", step, where, h.step, err)
				return
			}
		} else if err := decodeScribble(d, h.b, 4+k); err != nil {
			fail("C14:history-held-decode-error", "step %d (%s): the encoding held since step %d no longer decodes: %v", step, where, h.step, err)
			return
		}
		if got := c.obs(d); got != exp[h.c] {
			fail("C14:history-held-differs", "step %d (%s): the encoding of source %d held since step %d now decodes to another automaton: expected %s got %s", step, where, h.c, h.step, short(exp[h.c], 300), short(got, 300))
			return
		}
		if !h.framed {
			if b2, err := d.GobEncode(); err != nil || !bytes.Equal(b2, h.b) {
				fail("C14:history-held-reencode-differs", "step %d (%s): encoding the automaton decoded from the held encoding of source %d gives different bytes", step, where, h.c)
			}
		}
	}
	checkAll := func(where string, final bool) {
		for k := range helds {
			checkHeld(k, where)
		}
		for o := range slots {
			checkSlot(o, where)
		}
		for _, e := range extras {
			if got := c.obs(e.d); got != exp[e.c] {
				fail("C14:history-object-differs", "step %d (%s): an automaton decoded from a shared gob stream should behave as source %d: expected %s got %s", step, where, e.c, short(exp[e.c], 300), short(got, 300))
			}
		}
		if final {
			for o := range slots {
				if content[o] < 0 {
					continue
				}
				b, err := slots[o].GobEncode()
				if err != nil {
					fail("C14:encode-error", "GobEncode: %v", err)
					continue
				}
				noteCanon(content[o], b, where)
			}
			// and the held ones once more after those encodings
			for k := range helds {
				checkHeld(k, where+"+")
			}
		}
	}

	for _, op := range c.prog {
		step++
		arg := op[1:]
		switch op[0] {
		case 'e', 'g':
			o, err := strconv.Atoi(arg)
			if err != nil || !slotOK(o) || content[o] < 0 {
				continue
			}
			if op[0] == 'e' {
				b, err := slots[o].GobEncode()
				if err != nil {
					fail("C14:encode-error", "GobEncode: %v", err)
					continue
				}
				noteCanon(content[o], b, op)
				helds = append(helds, heldEnc{b: b, c: content[o], step: step})
			} else {
				var buf bytes.Buffer
				if err := gob.NewEncoder(&buf).Encode(slots[o]); err != nil {
					fail("C14:gob-encode-error", "gob Encode: %v", err)
					continue
				}
				helds = append(helds, heldEnc{b: buf.Bytes(), framed: true, c: content[o], step: step})
			}
			if len(helds) >= 2 {
				multiHeld = true
			}
		case 'd', 'D':
			f := strings.SplitN(arg, ":", 2)
			if len(f) != 2 {
				continue
			}
			o, err1 := strconv.Atoi(f[0])
			k, err2 := strconv.Atoi(f[1])
			if err1 != nil || err2 != nil || !slotOK(o) || k < 0 || k >= len(helds) || helds[k].framed != (op[0] == 'D') {
				continue
			}
			if content[o] >= 0 {
				usedReceiver = true
			}
			var err error
			if op[0] == 'd' {
				// one scratch buffer of the case serves all the direct decodes: it still holds
				// the previous encoding when the next one is copied into it, and on every
				// second step it is overwritten right after the call
				hb := helds[k].b
				if cap(scratch) < len(hb) {
					scribble(scratch, step)
					scratch = make([]byte, 0, 2*len(hb)+16)
				}
				scratch = append(scratch[:0], hb...)
				err = slots[o].GobDecode(scratch)
				if step%2 == 0 {
					scribble(scratch, step/2)
				}
			} else {
				err = gob.NewDecoder(bytes.NewReader(helds[k].b)).Decode(slots[o])
			}
			if err != nil {
				fail("C14:history-decode-error", "step %d (%s): decoding a held encoding of source %d: %v", step, op, helds[k].c, err)
				content[o] = -1
				continue
			}
			content[o] = helds[k].c
			checkSlot(o, op)
		case 'G':
			f := strings.SplitN(arg, ">", 2)
			if len(f) != 2 {
				continue
			}
			var from []int
			for _, t := range strings.Split(f[0], "+") {
				o, err := strconv.Atoi(t)
				if err == nil && slotOK(o) && content[o] >= 0 {
					from = append(from, o)
				}
			}
			var buf bytes.Buffer
			enc := gob.NewEncoder(&buf)
			var sent []int
			for _, o := range from {
				if err := enc.Encode(slots[o]); err != nil {
					fail("C14:gob-encode-error", "gob Encode: %v", err)
					break
				}
				sent = append(sent, content[o])
			}
			dec := gob.NewDecoder(bytes.NewReader(buf.Bytes()))
			for i, t := range strings.Split(f[1], "+") {
				if i >= len(sent) {
					break
				}
				var target *dawg.Dawg
				o := -1
				if t == "f" {
					target = new(dawg.Dawg)
				} else if v, err := strconv.Atoi(t); err == nil && slotOK(v) {
					o, target = v, slots[v]
					if content[o] >= 0 {
						usedReceiver = true
					}
				} else {
					break
				}
				if err := dec.Decode(target); err != nil {
					fail("C14:gob-decode-error", "step %d (%s): value %d of a gob stream with several automata: %v", step, op, i, err)
					if o >= 0 {
						content[o] = -1
					}
					break
				}
				if o >= 0 {
					content[o] = sent[i]
				} else {
					extras = append(extras, extraObj{target, sent[i]})
				}
			}
			if len(sent) >= 2 {
				multiHeld = true
			}
		case 's':
			if o, err := strconv.Atoi(arg); err == nil && slotOK(o) {
				checkSlot(o, op)
			}
		case 'k':
			if o, err := strconv.Atoi(arg); err == nil && slotOK(o) && content[o] >= 0 {
				cp := *slots[o]
				extras = append(extras, extraObj{&cp, content[o]})
				valueCopies++
			}
		case 'c':
			checkAll(op, false)
		}
		if c.each {
			checkAll(op, false)
		}
	}
	step++
	scribble(scratch, len(c.prog))
	checkAll("end", true)

	// the caller owns the slices GobEncode returned: overwrite all of them (after taking the
	// copies the per-source lines below need), then every slot must still encode canonically
	firstHeld := make([][]byte, n)
	for _, h := range helds {
		if !h.framed && firstHeld[h.c] == nil {
			firstHeld[h.c] = append([]byte{}, h.b...)
		}
	}
	for k, h := range helds {
		if !h.framed {
			scribble(h.b, k)
		}
	}
	step++
	for o := range slots {
		if content[o] < 0 {
			continue
		}
		if b, err := slots[o].GobEncode(); err != nil {
			fail("C14:encode-error", "GobEncode: %v", err)
		} else {
			noteCanon(content[o], b, "after the held encodings were overwritten by the caller")
			scribble(b, o)
		}
	}

	// per source: the plain observation, from the first direct encoding the program held
	for i := 0; i < n; i++ {
		b := firstHeld[i]
		if b == nil {
			d, _ := makeSource(c.srcs[i], c.cons+i)
			if d != nil {
				b, _ = d.GobEncode()
			}
			b = append([]byte{}, b...)
		}
		p, s, v := roundTrip(c, c.srcs[i], wf[i], b)
		projs[i], stricts[i] = p, s
		for _, x := range v {
			fail(x.Key, "source %d at the end of the program: %s", i, x.Detail)
		}
	}
	nwords := 0
	for _, sc := range c.srcs {
		nwords += len(sc.words)
	}
	buckets := []string{"kind:history", "hist-sources:" + strconv.Itoa(n), "hist-steps:" + cross(len(c.prog)), "hist-held:" + cross(len(helds))}
	if usedReceiver {
		buckets = append(buckets, "hist:decode-into-used-receiver")
	}
	if multiHeld {
		buckets = append(buckets, "hist:several-results-held")
	}
	return hx.Result{Obs: joinSources(projs, stricts), Nontrivial: (usedReceiver || multiHeld) && nwords > 0, Viol: viol, Buckets: buckets}
}

func joinSources(projs, stricts []string) string {
	var sb strings.Builder
	for i, p := range projs {
		if i > 0 {
			sb.WriteByte(' ')
		}
		fmt.Fprintf(&sb, "[%d] %s", i, p)
	}
	if stricts != nil {
		sb.WriteString(" ##")
		for i, s := range stricts {
			fmt.Fprintf(&sb, " [%d] %s", i, s)
		}
	}
	return sb.String()
}

// ---------------------------------------------------------------- generation

// sizeBoundaries: lengths in bytes of an encoding around which buffers change size class
var sizeBoundaries = []int{8, 16, 32, 48, 64, 96, 128, 256, 512, 1024, 2048, 4096}

// chainOfSize: a one-word set whose encoding has (about) the given number of bytes.
func chainOfSize(r *hx.Rng, size int) [][]byte {
	letters := [][]byte{[]byte("a"), []byte("b"), {0x00}, {0xff}, []byte("ab")}[r.Intn(5)]
	mk := func(n int) [][]byte {
		w := make([]byte, n)
		for i := range w {
			w[i] = letters[i%len(letters)]
		}
		return [][]byte{w}
	}
	lo, hi := 0, size
	for lo < hi { // least n with encodedSize >= size
		mid := (lo + hi) / 2
		if encodedSize(mk(mid)) >= size {
			hi = mid
		} else {
			lo = mid + 1
		}
	}
	return mk(lo)
}

func subset(r *hx.Rng, ws [][]byte, num, den int) [][]byte {
	out := [][]byte{}
	for _, w := range ws {
		if r.Chance(num, den) {
			out = append(out, w)
		}
	}
	return out
}

func randomWords(r *hx.Rng, alpha []byte, n, maxLen int) [][]byte {
	var ws [][]byte
	for i := 0; i < n; i++ {
		ws = append(ws, randWord(r, alpha, maxLen))
	}
	return sortDedup(ws)
}

// sourceFamily: 2..4 word sets related in size and content.
func sourceFamily(r *hx.Rng) [][][]byte {
	var sets [][][]byte
	switch r.Intn(7) {
	case 0: // independent small sets
		for i, k := 0, r.Range(2, 4); i < k; i++ {
			sets = append(sets, wordSet(r, randAlphabet(r)))
		}
	case 1: // nested: each a subset of the one before (decreasing); reversed or shuffled below
		a := randomWords(r, randAlphabet(r), r.Range(5, 80), 6)
		sets = append(sets, a)
		for i, k := 0, r.Range(1, 3); i < k; i++ {
			a = subset(r, a, 1, 2)
			sets = append(sets, a)
		}
	case 2: // the same set twice and another one
		a := wordSet(r, randAlphabet(r))
		sets = [][][]byte{a, wordSet(r, randAlphabet(r)), a}
	case 3: // the empty set, the empty word, and sets with the empty word
		a := wordSet(r, randAlphabet(r))
		sets = [][][]byte{{}, {{}}, sortDedup(append([][]byte{{}}, a...)), a}[r.Intn(2):]
		if r.Bool() {
			sets = sets[:r.Range(2, len(sets))]
		}
	case 4: // encodings around a buffer-size boundary: below, at, above
		t := sizeBoundaries[r.Intn(len(sizeBoundaries))]
		for _, dlt := range [][]int{{0, -1, 1}, {1, 0}, {0, 0, -1}, {-1, 0, 1}, {0, -2}}[r.Intn(5)] {
			sets = append(sets, chainOfSize(r, t+dlt))
		}
	case 5: // same shape, other letters (equal sizes, different bytes)
		a := wordSet(r, []byte("ab"))
		m := func(x, y byte) [][]byte {
			out := [][]byte{}
			for _, w := range a {
				v := cat(w)
				for i := range v {
					if v[i] == 'a' {
						v[i] = x
					} else {
						v[i] = y
					}
				}
				out = append(out, v)
			}
			return sortDedup(out)
		}
		sets = [][][]byte{a, m('c', 'd'), m(0x00, 0xff)}
	default: // one larger set with smaller ones
		sets = append(sets, randomWords(r, []byte("abc"), r.Range(60, 250), 8))
		for i, k := 0, r.Range(1, 2); i < k; i++ {
			sets = append(sets, wordSet(r, randAlphabet(r)))
		}
	}
	switch r.Intn(3) {
	case 0: // as generated (mostly decreasing)
	case 1: // reversed (increasing)
		for i, j := 0, len(sets)-1; i < j; i, j = i+1, j-1 {
			sets[i], sets[j] = sets[j], sets[i]
		}
	default:
		p := r.Perm(len(sets))
		out := make([][][]byte, len(sets))
		for i, v := range p {
			out[i] = sets[v]
		}
		sets = out
	}
	return sets
}

// program templates over n sources (slots n, n+1 are zero-value Dawgs)
func historyProgram(r *hx.Rng, n int) []string {
	it := strconv.Itoa
	var p []string
	switch r.Intn(10) {
	case 8, 9: // one variable decoded into again and again, the values kept by copy (a loop reading a file of automata)
		for i := 0; i < n; i++ {
			p = append(p, "e"+it(i))
		}
		v := n + r.Intn(2)
		order := r.Perm(n)
		if r.Bool() { // widest root last / first: both orders of the root's link counts
			for i, j := 0, len(order)-1; i < j; i, j = i+1, j-1 {
				order[i], order[j] = order[j], order[i]
			}
		}
		for _, i := range order {
			p = append(p, "d"+it(v)+":"+it(i), "k"+it(v))
		}
		// and the same automaton twice in a row, then a kept source slot that is overwritten
		p = append(p, "d"+it(v)+":"+it(order[0]), "k"+it(v), "d"+it(v)+":"+it(order[0]))
		if n >= 2 {
			p = append(p, "k0", "d0:1", "k0", "d0:0")
		}
	case 0: // hold the encodings of all sources at the same time
		for i := 0; i < n; i++ {
			p = append(p, "e"+it(i))
		}
	case 1: // hold several decoded automata at the same time (fresh receivers), then re-encode them
		for i := 0; i < n && i < 2; i++ {
			p = append(p, "e"+it(i))
		}
		p = append(p, "d"+it(n)+":0", "d"+it(n+1)+":"+it(len(p)-1), "e"+it(n), "e"+it(n+1))
	case 2: // encode x, decode another automaton into x, encode x again
		x, y := r.Intn(n), r.Intn(n)
		p = append(p, "e"+it(x), "e"+it(y), "d"+it(x)+":1", "e"+it(x))
		if r.Bool() {
			p = append(p, "s"+it(x), "e"+it(x))
		}
	case 3: // the same through encoding/gob
		x, y := r.Intn(n), r.Intn(n)
		p = append(p, "g"+it(x), "g"+it(y), "D"+it(x)+":1", "g"+it(x), "e"+it(x))
	case 4: // several automata in one gob stream, into fresh receivers / swapped into each other
		var from, to []string
		for i := 0; i < n; i++ {
			from = append(from, it(i))
			if r.Bool() {
				to = append(to, "f")
			} else {
				to = append(to, it((i+1)%n))
			}
		}
		p = append(p, "G"+strings.Join(from, "+")+">"+strings.Join(to, "+"))
		if r.Bool() {
			p = append(p, "e"+it(r.Intn(n)))
		}
	case 5: // a chain: the automaton travels through receivers with histories of their own
		p = append(p, "e0")
		h := 0
		for i, k := 0, r.Range(2, 5); i < k; i++ {
			o := r.Intn(n + 2)
			p = append(p, "d"+it(o)+":"+it(h), "e"+it(o))
			h++
		}
	default: // random steps
		nh := 0
		framed := []bool{}
		full := []int{} // slots that hold an automaton
		for i := 0; i < n; i++ {
			full = append(full, i)
		}
		isFull := func(o int) bool {
			for _, v := range full {
				if v == o {
					return true
				}
			}
			return false
		}
		for i, k := 0, r.Range(3, 10); i < k; i++ {
			switch r.Intn(7) {
			case 0, 1:
				p = append(p, "e"+it(full[r.Intn(len(full))]))
				nh++
				framed = append(framed, false)
			case 2:
				p = append(p, "g"+it(full[r.Intn(len(full))]))
				nh++
				framed = append(framed, true)
			case 3, 4:
				if nh > 0 {
					h := r.Intn(nh)
					op := "d"
					if framed[h] {
						op = "D"
					}
					o := r.Intn(n + 2)
					p = append(p, op+it(o)+":"+it(h))
					if !isFull(o) {
						full = append(full, o)
					}
				}
			case 5:
				p = append(p, "s"+it(full[r.Intn(len(full))]))
			default:
				p = append(p, "c")
			}
		}
	}
	return p
}
