package lib

// Provenance: the same word set turned into a Dawg every way the exported API allows.  The model
// side is always new_dawg of the word set (C12 proves that a zero-value Builder behaves as an
// initialised one and that a rejected Add leaves the Builder unchanged; Initialise overwrites
// every field), so whatever the construction, the round trip must be that of the word set.

import (
	"github.com/Tom-Johnston/mamba/dawg"
)

const nCons = 4

// buildWords: words strictly increasing.
func buildWords(words [][]byte, cons int) (*dawg.Dawg, error) {
	switch cons % nCons {
	case 1: // the zero value of Builder, never initialised explicitly
		var db dawg.Builder
		for _, w := range words {
			if err := db.Add(w); err != nil {
				return nil, err
			}
		}
		return db.Finish()
	case 2: // a Builder with a past (other words added, finished), initialised again
		db := new(dawg.Builder)
		db.Initialise()
		for i, w := range words {
			if i%2 == 0 {
				db.Add(append(append([]byte{}, w...), 'z'))
			}
		}
		db.Add([]byte{0xff, 0xff, 0xff, 0xff})
		if len(words)%3 != 0 {
			db.Finish()
		}
		db.Initialise()
		for _, w := range words {
			if err := db.Add(w); err != nil {
				return nil, err
			}
		}
		return db.Finish()
	case 3: // Adds that must be rejected (the word again, a smaller word) between the real ones
		db := new(dawg.Builder)
		for i, w := range words {
			if err := db.Add(w); err != nil {
				return nil, err
			}
			if i%2 == 0 {
				db.Add(append([]byte{}, w...)) // a duplicate: an error, no effect
			}
			if len(w) > 0 && i%3 == 0 {
				db.Add(w[:len(w)-1]) // a proper prefix is smaller: an error, no effect
			}
		}
		return db.Finish()
	}
	return dawg.New(words)
}
