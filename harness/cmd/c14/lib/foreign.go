package lib

// Streams written by "another producer": the byte format of GobEncode admits any numbering of
// the nodes (ids are "unique but otherwise arbitrary"), and the C14 theorems hold for every
// well-formed automaton, not only for those the Builder makes (whose ids happen to grow in
// depth-first first-visit order).  A Dawg with another numbering is reachable through the
// exported API by GobDecode of such a stream.
//
// The generator builds an automaton of a word set by itself (trie, merged fully / partly / not
// at all), numbers the nodes by some scheme (the root always gets the least id, as GobDecode
// needs), and writes the stream exactly in the shape the modelled GobEncode would write it for
// that automaton (sorted id table, records in depth-first first-visit order, minimal
// integers) — so every generated stream is the encoding of some well-formed automaton.  Nothing
// here calls the library: the model driver decides what the stream denotes (gob_decode), runs
// the proved domain check on it and confirms that the stream is canonical (gob_encode of the
// decoded automaton gives the stream back: canon=same).

import (
	"bytes"
	"math/bits"
	"sort"

	"verifharness/hx"
)

type fnode struct {
	id       uint64
	numWords int
	final    bool
	labels   []byte
	kids     []*fnode
	cid      int // number of the node among the distinct nodes (set by merge)
	done     bool
}

// buildTrie: ws strictly increasing.
func buildTrie(ws [][]byte) *fnode {
	root := &fnode{}
	for _, w := range ws {
		cur := root
		for _, c := range w {
			if k := len(cur.labels); k > 0 && cur.labels[k-1] == c {
				cur = cur.kids[k-1]
				continue
			}
			nn := &fnode{}
			cur.labels = append(cur.labels, c)
			cur.kids = append(cur.kids, nn)
			cur = nn
		}
		cur.final = true
	}
	return root
}

// merge identifies equal subtrees bottom-up.  mode 0: none (the trie), 1: all (the minimal
// automaton), 2: each candidate with probability 1/2 (a non-minimal automaton with sharing).
func merge(root *fnode, mode int, r *hx.Rng) {
	reg := map[string]*fnode{}
	next := 0
	var visit func(n *fnode) *fnode
	visit = func(n *fnode) *fnode {
		var sig bytes.Buffer
		if n.final {
			sig.WriteByte(1)
		} else {
			sig.WriteByte(0)
		}
		for i := range n.kids {
			n.kids[i] = visit(n.kids[i])
			sig.WriteByte(n.labels[i])
			c := n.kids[i].cid
			sig.Write([]byte{byte(c >> 24), byte(c >> 16), byte(c >> 8), byte(c)})
		}
		if mode != 0 && n != root {
			if m, ok := reg[sig.String()]; ok && (mode == 1 || r.Bool()) {
				return m
			}
		}
		n.cid = next
		next++
		if _, ok := reg[sig.String()]; !ok {
			reg[sig.String()] = n
		}
		return n
	}
	visit(root)
}

// preorder lists the distinct nodes in depth-first first-visit order and sets numWords.
func preorder(root *fnode) []*fnode {
	var order []*fnode
	seen := map[*fnode]bool{}
	var visit func(n *fnode)
	visit = func(n *fnode) {
		if seen[n] {
			return
		}
		seen[n] = true
		order = append(order, n)
		for _, k := range n.kids {
			visit(k)
		}
		n.numWords = 0
		if n.final {
			n.numWords = 1
		}
		for _, k := range n.kids {
			n.numWords += k.numWords
		}
	}
	visit(root)
	return order
}

// id orders: the position of every non-root node in the increasing sequence of ids
const (
	ordDFS     = iota // as the Builder numbers
	ordReverse        // the last node of the preorder gets the smallest id after the root's
	ordBFS            // level order
	ordPost           // children before parents
	ordRandom
	ordOneSwap // preorder with two neighbours exchanged
	ordRotate  // preorder rotated by a random amount
	nOrders
)

var orderNames = []string{"dfs", "reverse", "bfs", "post", "random", "oneswap", "rotate"}

// rankOrder returns the non-root nodes in the order of their future ids.
func rankOrder(order []*fnode, scheme int, r *hx.Rng) []*fnode {
	rest := append([]*fnode{}, order[1:]...)
	n := len(rest)
	switch scheme {
	case ordReverse:
		for i, j := 0, n-1; i < j; i, j = i+1, j-1 {
			rest[i], rest[j] = rest[j], rest[i]
		}
	case ordBFS:
		seen := map[*fnode]bool{order[0]: true}
		queue := []*fnode{order[0]}
		rest = rest[:0]
		for len(queue) > 0 {
			x := queue[0]
			queue = queue[1:]
			for _, k := range x.kids {
				if !seen[k] {
					seen[k] = true
					queue = append(queue, k)
					rest = append(rest, k)
				}
			}
		}
	case ordPost:
		seen := map[*fnode]bool{}
		rest = rest[:0]
		var visit func(x *fnode)
		visit = func(x *fnode) {
			if seen[x] {
				return
			}
			seen[x] = true
			for _, k := range x.kids {
				visit(k)
			}
			if x != order[0] {
				rest = append(rest, x)
			}
		}
		visit(order[0])
	case ordRandom:
		p := r.Perm(n)
		out := make([]*fnode, n)
		for i, v := range p {
			out[i] = rest[v]
		}
		rest = out
	case ordOneSwap:
		if n >= 2 {
			i := r.Intn(n - 1)
			rest[i], rest[i+1] = rest[i+1], rest[i]
		}
	case ordRotate:
		if n >= 2 {
			k := r.Range(1, n-1)
			rest = append(append([]*fnode{}, rest[k:]...), rest[:k]...)
		}
	}
	return rest
}

// id values: n strictly increasing uint64 values, the first is the root's
const (
	valContig = iota // base, base+1, ...
	valGaps          // small random gaps
	valSparse        // random values of all magnitudes
	valEdge          // clustered around the boundaries of the integer encoding
	valTop           // the last ones end at 2^64-1
	nVals
)

var idBases = []uint64{0, 0, 0, 1, 100, 126, 127, 128, 250, 255, 256, 65534, 65535, 65536, 1<<32 - 2, 1 << 32, 1<<56 - 1, 1<<63 - 1, 1 << 63}

func idValues(n int, scheme int, r *hx.Rng) []uint64 {
	vals := make([]uint64, n)
	base := idBases[r.Intn(len(idBases))]
	if scheme == valEdge && n > 150 {
		scheme = valSparse // not enough room around the boundaries
	}
	switch scheme {
	case valContig:
		for i := range vals {
			vals[i] = base + uint64(i)
		}
	case valGaps:
		x := base
		for i := range vals {
			vals[i] = x
			x += uint64(r.Range(1, 5))
		}
	case valTop:
		for i := range vals {
			vals[i] = ^uint64(0) - uint64(n-1-i)
		}
		if r.Bool() {
			vals[0] = base // the root far below
		}
	default:
		set := map[uint64]bool{}
		for len(set) < n {
			var v uint64
			if scheme == valEdge {
				e := []uint64{127, 128, 255, 256, 65535, 65536, 1<<24 - 1, 1 << 24, 1<<32 - 1, 1 << 32, 1 << 40, 1 << 48, 1<<56 - 1, 1 << 56, 1<<63 - 1, 1 << 63, ^uint64(0) - 40}[r.Intn(17)]
				v = e + uint64(r.Intn(40)) - 20
				if e < 20 {
					v = e + uint64(r.Intn(40))
				}
			} else {
				v = r.U64() >> uint(r.Intn(64))
			}
			set[v] = true
		}
		i := 0
		for v := range set {
			vals[i] = v
			i++
		}
		sort.Slice(vals, func(a, b int) bool { return vals[a] < vals[b] })
	}
	return vals
}

func putUint(b []byte, x uint64) []byte {
	if x <= 127 {
		return append(b, byte(x))
	}
	nb := 8 - bits.LeadingZeros64(x)/8
	b = append(b, byte(128+nb))
	for i := nb - 1; i >= 0; i-- {
		b = append(b, byte(x>>uint(8*i)))
	}
	return b
}

// writeStream writes the automaton in the shape of GobEncode: number of nodes, the ids in
// increasing order, one record per node in depth-first first-visit order (position of the id
// in the table, numWords, final, number of links, label and position of the target for each).
func writeStream(order []*fnode) []byte {
	ids := make([]uint64, len(order))
	for i, n := range order {
		ids[i] = n.id
	}
	sort.Slice(ids, func(a, b int) bool { return ids[a] < ids[b] })
	idx := func(id uint64) uint64 {
		return uint64(sort.Search(len(ids), func(i int) bool { return ids[i] >= id }))
	}
	b := putUint(nil, uint64(len(ids)))
	for _, id := range ids {
		b = putUint(b, id)
	}
	for _, n := range order {
		b = putUint(b, idx(n.id))
		b = putUint(b, uint64(n.numWords))
		if n.final {
			b = append(b, 1)
		} else {
			b = append(b, 0)
		}
		b = putUint(b, uint64(len(n.labels)))
		for i := range n.labels {
			b = append(b, n.labels[i])
			b = putUint(b, idx(n.kids[i].id))
		}
	}
	return b
}

// foreignStream: the stream of the word set ws (strictly increasing) with the given sharing
// mode, id order and id values.
func foreignStream(r *hx.Rng, ws [][]byte, mergeMode, ord, val int) []byte {
	root := buildTrie(ws)
	merge(root, mergeMode, r)
	order := preorder(root)
	vals := idValues(len(order), val, r)
	order[0].id = vals[0]
	for i, n := range rankOrder(order, ord, r) {
		n.id = vals[i+1]
	}
	return writeStream(order)
}

// streamWithIDs: minimal automaton of ws, the non-root nodes (in preorder) numbered by the
// permutation perm of 1..n-1, the root 0.
func streamWithPerm(ws [][]byte, perm []int) []byte {
	root := buildTrie(ws)
	merge(root, 1, nil)
	order := preorder(root)
	order[0].id = 0
	for i, n := range order[1:] {
		n.id = uint64(perm[i] + 1)
	}
	return writeStream(order)
}

func minimalSize(ws [][]byte) int {
	root := buildTrie(ws)
	merge(root, 1, nil)
	return len(preorder(root))
}

// encodedSize: length of the encoding of the minimal automaton of ws numbered 0,1,2,... in
// preorder (used to place cases around buffer-size boundaries; the Builder's ids may have gaps,
// so the real length can be a few bytes more).
func encodedSize(ws [][]byte) int {
	root := buildTrie(ws)
	merge(root, 1, nil)
	order := preorder(root)
	for i, n := range order {
		n.id = uint64(i)
	}
	return len(writeStream(order))
}

func permutations(n int) [][]int {
	if n == 0 {
		return [][]int{{}}
	}
	var out [][]int
	for _, p := range permutations(n - 1) {
		for pos := 0; pos <= len(p); pos++ {
			q := append(append(append([]int{}, p[:pos]...), n-1), p[pos:]...)
			out = append(out, q)
		}
	}
	return out
}

// ---------------------------------------------------------------- huge languages on few nodes
//
// numWords is a field of its own in every record; to take it (and the ranks) across the
// boundaries of the integer encoding up to 2^63-1 the language must be that large.  A layered
// automaton does it on a few dozen nodes: level i is one node with b_i links (distinct labels),
// all to the node of level i+1, so numWords(i) = final_i + b_i * numWords(i+1): only the leaf
// final and b = 2 gives 1, 2, 4, ..., 2^62; every level final gives 1, 3, 7, ..., 2^63-1.  Such a
// case is observed through counts and the ranks of probe words only (o=p).

// powerLanguage returns the nodes in preorder (level order here) and some probe words.
func powerLanguage(r *hx.Rng, finals int, wide bool) ([]*fnode, [][]byte) {
	var levels []*fnode // built from the leaf upwards
	leaf := &fnode{final: true}
	levels = append(levels, leaf)
	total := uint64(1)
	limit := uint64(1) << 62
	if finals == 1 {
		limit = 1<<63 - 1
	}
	for len(levels) < 130 {
		b := 2
		if wide && r.Chance(1, 6) {
			b = 3
		}
		if r.Chance(1, 8) && finals != 1 && finals != 0 {
			b = 1
		}
		f := finals == 1 || (finals == 2 && r.Bool())
		fv := uint64(0)
		if f {
			fv = 1
		}
		if total > (limit-fv)/uint64(b) {
			break
		}
		total = fv + uint64(b)*total
		n := &fnode{final: f, labels: byteSubset(r, b)}
		for range n.labels {
			n.kids = append(n.kids, levels[len(levels)-1])
		}
		levels = append(levels, n)
	}
	// root first
	for i, j := 0, len(levels)-1; i < j; i, j = i+1, j-1 {
		levels[i], levels[j] = levels[j], levels[i]
	}
	order := preorder(levels[0])
	// probes: paths of random length (words when they stop on a final level), the first and the
	// last word, and some non-words
	var probes [][]byte
	path := func(n int, pick func(lab []byte) byte) []byte {
		w := []byte{}
		for i := 0; i < n && i < len(levels)-1; i++ {
			w = append(w, pick(levels[i].labels))
		}
		return w
	}
	depth := len(levels) - 1
	probes = append(probes, path(depth, func(l []byte) byte { return l[0] }), path(depth, func(l []byte) byte { return l[len(l)-1] }))
	for i := 0; i < 6; i++ {
		n := depth
		if i%2 == 1 {
			n = r.Range(0, depth)
		}
		probes = append(probes, path(n, func(l []byte) byte { return l[r.Intn(len(l))] }))
	}
	bad := path(depth, func(l []byte) byte { return l[0] })
	if len(bad) > 0 {
		bad[r.Intn(len(bad))] ^= 0x5a
		probes = append(probes, bad, append(path(depth, func(l []byte) byte { return l[0] }), 'x'))
	}
	return order, probes
}

// numberAndWrite gives the nodes (in preorder) ids by order and value scheme and writes the stream.
func numberAndWrite(r *hx.Rng, order []*fnode, ord, val int) []byte {
	vals := idValues(len(order), val, r)
	order[0].id = vals[0]
	for i, n := range rankOrder(order, ord, r) {
		n.id = vals[i+1]
	}
	return writeStream(order)
}

// varintLadder: the values around every boundary of the integer encoding (1 byte up to 127, then
// one more byte per factor 256), ascending.
func varintLadder() []uint64 {
	set := map[uint64]bool{0: true, 1: true, ^uint64(0): true, ^uint64(0) - 1: true}
	for _, e := range []uint{7, 8, 14, 15, 16, 21, 24, 28, 31, 32, 35, 40, 42, 48, 49, 56, 63} {
		for d := -1; d <= 1; d++ {
			set[uint64(1)<<e+uint64(d)] = true
		}
	}
	var vals []uint64
	for v := range set {
		vals = append(vals, v)
	}
	sort.Slice(vals, func(a, b int) bool { return vals[a] < vals[b] })
	return vals
}

// streamWithIDs: the minimal automaton of ws; the root gets ids[0], the other nodes the next
// values in the given order scheme (ids ascending, at least as many as nodes).
func streamWithIDs(r *hx.Rng, ws [][]byte, ids []uint64, ord int) []byte {
	root := buildTrie(ws)
	merge(root, 1, nil)
	order := preorder(root)
	order[0].id = ids[0]
	for i, n := range rankOrder(order, ord, r) {
		n.id = ids[i+1]
	}
	return writeStream(order)
}
