// Package lib is the harness of C14, shared by the commands c14 (cases small enough for the
// model driver) and c14big (oracle-only stream of large automata).  It exercises the serialisation of dawg.Dawg (C14): GobEncode / GobDecode directly
// and through encoding/gob, on automata built by dawg.New from generated word sets.
//
// Case:  b=<hex blank byte>,s=<hex pattern>.<hex pattern>...;tok tok tok
// The tokens are the words of the set in hex ("-" = the empty word), strictly increasing, so
// deleting tokens keeps a case valid.  The patterns are searched with blank b.
//
// Further header fields (foreign.go, history.go): n=<number of sources>, x=<i>:<hex stream>/...
// (source i is read from a stream written with another node numbering), p=<program>, v=e|f, and
// tokens "<i>:<hex word>" for the word set of source i.
//
// Observation: the projected part describes the automaton decoded from GobEncode(d) by what
// the property determines (words, ranks, word count, node count, pattern search results) and
// says whether encoding the decoded automaton gives the same bytes.  The strict part holds the
// node dump of the decoded automaton (ids, numWords, final, labels, link ids) and the bytes:
// the property does not fix the format, so the bytes of the model's encoder are compared only
// as a warning.  Oracles (hx.Fail) compare the decoded automaton (direct, through
// encoding/gob, into a used receiver) with the original on the same observables.
package lib

import (
	"bytes"
	"crypto/md5"
	"encoding/gob"
	"encoding/hex"
	"fmt"
	"sort"
	"strconv"
	"strings"

	"github.com/Tom-Johnston/mamba/dawg"
	"verifharness/hx"
)

// Rule is the non-triviality rule printed in the evidence.
const Rule = "case = a strictly increasing word set (the automaton is dawg.New of it) or a stream in the shape GobEncode writes with another node numbering (the automaton is GobDecode of it), plus search patterns; non-trivial = the automaton shares a node (node count < number of distinct prefixes) or some word is a proper prefix of another; a history case (several such automata and a program of encode/decode/observe steps whose results are all held) is non-trivial when at least two results are held at once or a decode goes into a receiver that already held an automaton, and some word set is non-empty; distinct by case text"

// WfLimit: the domain check is run (on both sides) on automata with at most this many nodes.
const WfLimit = 3000

func hexWord(w []byte) string {
	if len(w) == 0 {
		return "-"
	}
	return hex.EncodeToString(w)
}

func unhex(s string) []byte {
	if s == "-" || s == "" {
		return []byte{}
	}
	b, err := hex.DecodeString(s)
	if err != nil {
		panic("bad hex in case: " + s)
	}
	return b
}

// clip replaces a long field by its MD5 (same rule in the model driver).
func clip(s string) string {
	if len(s) > 4096 {
		return fmt.Sprintf("md5:%x:%d", md5.Sum([]byte(s)), len(s))
	}
	return s
}

// source: where an automaton of a case comes from — a word set (dawg.New) or a stream written
// by another producer (GobDecode into a fresh Dawg), see foreign.go.
type source struct {
	words  [][]byte
	stream []byte // non-nil: a foreign stream
}

type tcase struct {
	blank  byte
	pats   [][]byte
	tokens [][]byte // the word set of a plain case (old syntax: one source, no program)
	// history cases (history.go): n sources, a program over them
	n    int
	srcs []source
	prog []string
	each bool // validate everything after each step (otherwise only at the end)
	// o=p: the language is too large to enumerate (numWords up to 2^63-1 on a few dozen nodes):
	// observe counts and the ranks of the probe words only
	probe bool
	// c=<k>: how the word sets are turned into automata (construction.go): 0 dawg.New, 1 a
	// zero-value Builder, 2 a Builder with a past that is initialised again, 3 with rejected Adds
	cons int
}

// plain: one source, no program (the shape of every case before the history cases existed)
func (c tcase) plain() bool { return len(c.prog) == 0 && c.n <= 1 }

func (c tcase) line() string {
	ps := make([]string, len(c.pats))
	for i, p := range c.pats {
		ps[i] = hexWord(p)
	}
	head := fmt.Sprintf("b=%02x,s=%s", c.blank, strings.Join(ps, "."))
	if c.probe {
		head += ",o=p"
	}
	if c.cons != 0 {
		head += fmt.Sprintf(",c=%d", c.cons)
	}
	if c.n == 0 && len(c.srcs) == 0 {
		tk := make([]string, len(c.tokens))
		for i, w := range c.tokens {
			tk[i] = hexWord(w)
		}
		return head + ";" + strings.Join(tk, " ")
	}
	var xs, tk []string
	for i, sc := range c.srcs {
		if sc.stream != nil {
			xs = append(xs, fmt.Sprintf("%d:%s", i, hex.EncodeToString(sc.stream)))
			continue
		}
		for _, w := range sc.words {
			tk = append(tk, fmt.Sprintf("%d:%s", i, hexWord(w)))
		}
	}
	head += fmt.Sprintf(",n=%d", len(c.srcs))
	if len(xs) > 0 {
		head += ",x=" + strings.Join(xs, "/")
	}
	if len(c.prog) > 0 {
		head += ",p=" + strings.Join(c.prog, ".")
		if c.each {
			head += ",v=e"
		} else {
			head += ",v=f"
		}
	}
	return head + ";" + strings.Join(tk, " ")
}

func parse(line string) tcase {
	c := tcase{blank: '?'}
	parts := strings.SplitN(line, ";", 2)
	streams := map[int][]byte{}
	for _, kv := range strings.Split(parts[0], ",") {
		i := strings.IndexByte(kv, '=')
		if i < 0 {
			continue
		}
		k, v := kv[:i], kv[i+1:]
		switch k {
		case "b":
			x, _ := strconv.ParseUint(v, 16, 8)
			c.blank = byte(x)
		case "s":
			for _, p := range strings.Split(v, ".") {
				if p != "" {
					c.pats = append(c.pats, unhex(p))
				}
			}
		case "n":
			c.n, _ = strconv.Atoi(v)
		case "x":
			for _, e := range strings.Split(v, "/") {
				if j := strings.IndexByte(e, ':'); j > 0 {
					si, _ := strconv.Atoi(e[:j])
					streams[si] = unhex(e[j+1:])
				}
			}
		case "p":
			for _, op := range strings.Split(v, ".") {
				if op != "" {
					c.prog = append(c.prog, op)
				}
			}
		case "v":
			c.each = v == "e"
		case "o":
			c.probe = v == "p"
		case "c":
			c.cons, _ = strconv.Atoi(v)
		}
	}
	if c.n < 1 {
		c.n = 1
	}
	c.srcs = make([]source, c.n)
	for i, b := range streams {
		if i >= 0 && i < c.n {
			c.srcs[i].stream = b
		}
	}
	if len(parts) > 1 {
		for _, t := range strings.Fields(parts[1]) {
			si := 0
			if j := strings.IndexByte(t, ':'); j > 0 {
				si, _ = strconv.Atoi(t[:j])
				t = t[j+1:]
			}
			if si < 0 || si >= c.n || c.srcs[si].stream != nil {
				continue
			}
			c.srcs[si].words = append(c.srcs[si].words, unhex(t))
		}
	}
	c.tokens = c.srcs[0].words
	return c
}

func dumpString(d *dawg.Dawg) string {
	var sb strings.Builder
	for _, n := range d.VerifDump() {
		f := 0
		if n.Final {
			f = 1
		}
		kids := make([]string, len(n.Kids))
		for i := range n.Kids {
			kids[i] = strconv.FormatUint(n.Kids[i], 10)
		}
		fmt.Fprintf(&sb, "%d:%d:%d:%s:%s|", n.ID, n.NumWords, f, hexWord(n.Labels), strings.Join(kids, "."))
	}
	return sb.String()
}

// wfString checks that the automaton is in the domain of the C14 theorems (wf of
// coq/Dawg/CodecWf.v): distinct ids, the root has the least id, as many links as labels, no
// cycle.  The model driver runs the proved checker wf_checkb on its automaton.
func wfString(d *dawg.Dawg) string {
	dump := d.VerifDump()
	if len(dump) > WfLimit {
		return "skipped"
	}
	ids := map[uint64]bool{}
	for _, n := range dump {
		if ids[n.ID] || n.ID < dump[0].ID || len(n.Labels) != len(n.Kids) {
			return "BAD"
		}
		ids[n.ID] = true
	}
	colour := make([]int, len(dump)) // 0 new, 1 on the path, 2 finished
	var visit func(i int) bool
	visit = func(i int) bool {
		if colour[i] == 1 {
			return false
		}
		if colour[i] == 2 {
			return true
		}
		colour[i] = 1
		for _, k := range dump[i].KidIdx {
			if !visit(k) {
				return false
			}
		}
		colour[i] = 2
		return true
	}
	if !visit(0) {
		return "BAD"
	}
	return "ok"
}

// probeString: Lookup of every pattern taken literally as a word (present or absent).
func probeString(d *dawg.Dawg, pats [][]byte) string {
	pr := make([]string, len(pats))
	for i, p := range pats {
		if r, ok := d.Lookup(p); ok {
			pr[i] = hexWord(p) + ":" + strconv.Itoa(r)
		} else {
			pr[i] = hexWord(p) + ":-"
		}
	}
	return clip(strings.Join(pr, ","))
}

// obs prints what the property determines about an automaton.
func (c tcase) obs(d *dawg.Dawg) string {
	if c.probe {
		return fmt.Sprintf("nw=%d nodes=%d probes=%s", d.NumberOfWords(), d.VerifNodeCount(), probeString(d, c.pats))
	}
	blank, pats := c.blank, c.pats
	words, _ := d.Search()
	ws := make([]string, len(words))
	rk := make([]string, len(words))
	for i, w := range words {
		ws[i] = hexWord(w)
		if r, ok := d.Lookup(w); ok {
			rk[i] = strconv.Itoa(r)
		} else {
			rk[i] = "-"
		}
	}
	sr := make([]string, len(pats))
	for i, p := range pats {
		sol, ids := d.Search(dawg.NewPatternSearcher(append([]byte{}, p...), blank))
		hits := make([]string, len(sol))
		for j := range sol {
			hits[j] = hexWord(sol[j]) + "@" + strconv.Itoa(ids[j])
		}
		sr[i] = hexWord(p) + "=" + strings.Join(hits, ",")
	}
	return fmt.Sprintf("words=%s ranks=%s nw=%d nodes=%d search=%s probes=%s", clip(strings.Join(ws, ",")), clip(strings.Join(rk, ",")),
		d.NumberOfWords(), d.VerifNodeCount(), clip(strings.Join(sr, ";")), probeString(d, pats))
}

// makeSource builds the automaton of a source: dawg.New of the word set, or GobDecode of the
// foreign stream into a fresh Dawg.  what = "build-error" / "src-decode-error" on failure.
func makeSource(sc source, cons int) (d *dawg.Dawg, what string) {
	if sc.stream != nil {
		d = new(dawg.Dawg)
		if err := decodeScribble(d, sc.stream, 0); err != nil {
			return nil, "src-decode-error"
		}
		return d, ""
	}
	d, err := buildWords(sc.words, cons)
	if err != nil || d == nil {
		return nil, "build-error"
	}
	return d, ""
}

// roundTrip is the observation of one source: the automaton decoded from the encoding b of
// the source automaton, by what the property determines, and whether encoding it again gives b.
// For a foreign source canon= says whether b is the stream the automaton was read from.
func roundTrip(c tcase, sc source, wf string, b []byte) (proj, strict string, viol []hx.OracleViolation) {
	strict = "bytes=" + clip(hex.EncodeToString(b))
	d2 := new(dawg.Dawg)
	if err := decodeScribble(d2, b, 1); err != nil {
		return "decode-error", strict, []hx.OracleViolation{hx.Fail("C14:decode-error", "GobDecode rejects the output of GobEncode: %v", err)}
	}
	// the decoded automaton is encoded before anything else is asked of it in every second
	// case, and after it has been searched in the others
	var dec string
	if len(b)%2 == 0 {
		dec = c.obs(d2)
	}
	reenc := "same"
	b2, err := d2.GobEncode()
	if err != nil {
		reenc = "error"
	} else if !bytes.Equal(b2, b) {
		reenc = "DIFFERENT"
	}
	if len(b)%2 != 0 {
		dec = c.obs(d2)
	}
	if reenc != "same" {
		viol = append(viol, hx.Fail("C14:reencode-differs", "encoding the decoded automaton: %s", reenc))
	}
	proj = "wf=" + wf + " " + dec + " reenc=" + reenc
	if sc.stream != nil {
		if bytes.Equal(b, sc.stream) {
			proj += " canon=same"
		} else {
			proj += " canon=DIFFERENT"
		}
	}
	return proj, "dump=" + clip(dumpString(d2)) + " " + strict, viol
}

func Exec(line string) hx.Result {
	c := parse(line)
	if !c.plain() {
		return execHistory(c)
	}
	sc := c.srcs[0]
	var viol []hx.OracleViolation
	d, what := makeSource(sc, c.cons)
	if d == nil {
		if sc.stream != nil {
			viol = append(viol, hx.Fail("C14:foreign-decode-error", "GobDecode rejects a stream in the shape GobEncode writes (another id numbering)"))
		}
		return hx.Result{Obs: what, Viol: viol}
	}
	// what d should look like is taken from a twin built the same way, so that d itself is
	// encoded before any Search / Lookup has been called on it (and searched later, below)
	twin, _ := makeSource(sc, c.cons)
	if twin == nil {
		return hx.Result{Obs: what}
	}
	orig := c.obs(twin)
	origDump := dumpString(twin)
	b, err := d.GobEncode()
	if err != nil {
		return hx.Result{Obs: "encode-error"}
	}
	if o := c.obs(d); o != orig {
		viol = append(viol, hx.Fail("C14:twin-differs", "two automata built the same way differ, or GobEncode changed the one it was called on: %s / %s", short(orig, 300), short(o, 300)))
	}
	if b1, err1 := d.GobEncode(); err1 != nil || !bytes.Equal(b1, b) {
		viol = append(viol, hx.Fail("C14:encode-not-deterministic", "two calls of GobEncode on the same automaton gave different results"))
	}
	if dumpString(d) != origDump {
		viol = append(viol, hx.Fail("C14:encode-modifies", "GobEncode changed the automaton"))
	}
	bHeld := b                 // the slice GobEncode returned, kept until the end of the case
	b = append([]byte{}, b...) // our own copy: the calls below must not be able to touch it
	proj, strict, v := roundTrip(c, sc, wfString(d), b)
	viol = append(viol, v...)
	if proj == "decode-error" {
		return hx.Result{Obs: proj + " ## " + strict, Viol: viol}
	}
	dHeld := mustDecode(b) // a decoded automaton kept until the end of the case
	if dec := c.obs(dHeld); dec != orig {
		viol = append(viol, hx.Fail("C14:roundtrip-differs", "decoded automaton differs from the original: original %s decoded %s", short(orig, 300), short(dec, 300)))
	}
	// through encoding/gob
	var buf bytes.Buffer
	if err := gob.NewEncoder(&buf).Encode(d); err != nil {
		viol = append(viol, hx.Fail("C14:gob-encode-error", "gob Encode: %v", err))
	} else {
		framed := append([]byte{}, buf.Bytes()...)
		if !bytes.Contains(framed, b) {
			viol = append(viol, hx.Fail("C14:gob-frame", "the gob stream does not contain the bytes of GobEncode"))
		}
		var d3 dawg.Dawg
		if err := gob.NewDecoder(bytes.NewReader(framed)).Decode(&d3); err != nil {
			viol = append(viol, hx.Fail("C14:gob-decode-error", "gob Decode: %v", err))
		} else {
			if o3 := c.obs(&d3); o3 != orig {
				viol = append(viol, hx.Fail("C14:gob-roundtrip-differs", "automaton decoded through encoding/gob differs from the original: original %s decoded %s", short(orig, 300), short(o3, 300)))
			}
			var buf3 bytes.Buffer
			if err := gob.NewEncoder(&buf3).Encode(&d3); err != nil || !bytes.Equal(buf3.Bytes(), framed) {
				viol = append(viol, hx.Fail("C14:gob-reencode-differs", "encoding the automaton decoded through encoding/gob gives different bytes"))
			}
		}
	}
	// into a receiver that already holds another automaton
	d4, err4 := dawg.New([][]byte{{}, []byte("a"), []byte("ab"), []byte("b"), {0xff, 0x00}})
	if err4 == nil {
		if err := decodeScribble(d4, b, 2); err != nil {
			viol = append(viol, hx.Fail("C14:decode-error-used-receiver", "GobDecode into a used receiver: %v", err))
		} else if o4 := c.obs(d4); o4 != orig {
			viol = append(viol, hx.Fail("C14:used-receiver-differs", "decoding into a used receiver: original %s decoded %s", short(orig, 300), short(o4, 300)))
		} else if b4, err := d4.GobEncode(); err != nil || !bytes.Equal(b4, b) {
			viol = append(viol, hx.Fail("C14:used-receiver-reencode-differs", "encoding the automaton decoded into a used receiver gives different bytes"))
		}
	}
	// the same with a receiver that has itself been encoded before (and whose encoding is still
	// held): its old encoding must not come back, and must not have been touched either
	if d5, err5 := dawg.New([][]byte{[]byte("b"), []byte("ba"), {0xfe}}); err5 == nil {
		b5, err := d5.GobEncode()
		b5copy := append([]byte{}, b5...)
		if err != nil {
			viol = append(viol, hx.Fail("C14:encode-error", "GobEncode: %v", err))
		} else if err := decodeScribble(d5, b, 3); err != nil {
			viol = append(viol, hx.Fail("C14:decode-error-used-receiver", "GobDecode into a receiver that was encoded before: %v", err))
		} else if o5 := c.obs(d5); o5 != orig {
			viol = append(viol, hx.Fail("C14:used-receiver-differs", "decoding into a receiver that was encoded before: original %s decoded %s", short(orig, 300), short(o5, 300)))
		} else if b6, err := d5.GobEncode(); err != nil || !bytes.Equal(b6, b) {
			viol = append(viol, hx.Fail("C14:encoded-receiver-reencode-differs", "GobEncode, GobDecode of another automaton into the same Dawg, GobEncode: the second encoding is not that of the new contents"))
		} else if !bytes.Equal(b5, b5copy) {
			viol = append(viol, hx.Fail("C14:encoding-overwritten", "a []byte returned by GobEncode changed during later calls"))
		}
	}
	// one buffer passed to two GobDecode calls on two Dawgs, then overwritten
	{
		buf := append([]byte{}, b...)
		dA, dB := new(dawg.Dawg), new(dawg.Dawg)
		errA := dA.GobDecode(buf)
		errB := dB.GobDecode(buf)
		scribble(buf, len(b)+1)
		if errA != nil || errB != nil {
			viol = append(viol, hx.Fail("C14:decode-error-same-buffer", "decoding one buffer into two Dawgs: %v / %v", errA, errB))
		} else if oA, oB := c.obs(dA), c.obs(dB); oA != orig || oB != orig {
			viol = append(viol, hx.Fail("C14:same-buffer-differs", "two Dawgs decoded from the same buffer: original %s first %s second %s", short(orig, 200), short(oA, 200), short(oB, 200)))
		}
	}
	// the first result of GobEncode, held all along, is still the encoding of d; the automaton
	// decoded first and the original still behave as at the start
	if !bytes.Equal(bHeld, b) {
		viol = append(viol, hx.Fail("C14:encoding-overwritten", "the []byte returned by GobEncode changed during later GobEncode/GobDecode calls on other automata"))
	}
	if o := c.obs(dHeld); o != orig {
		viol = append(viol, hx.Fail("C14:decoded-overwritten", "an automaton returned by GobDecode changed during later GobEncode/GobDecode calls on other automata: at first %s now %s", short(orig, 300), short(o, 300)))
	}
	if o := c.obs(d); o != orig || dumpString(d) != origDump {
		viol = append(viol, hx.Fail("C14:encode-modifies", "the original automaton changed during the GobEncode/GobDecode calls of the case"))
	}
	// the caller owns what GobEncode returned: after it has overwritten every slice it was given,
	// the automata still encode to the same bytes
	scribble(bHeld, len(b))
	for i, x := range []*dawg.Dawg{d, dHeld, twin} {
		if bx, err := x.GobEncode(); err != nil || !bytes.Equal(bx, b) {
			viol = append(viol, hx.Fail("C14:encode-after-scribble", "GobEncode after the caller overwrote the slices returned by earlier GobEncode calls gives other bytes (automaton %d of original/decoded/twin)", i))
			break
		} else {
			scribble(bx, i)
		}
	}
	obs := proj + " ## " + strict

	// statistics
	words := sc.words
	kind := "plain"
	dump := d.VerifDump()
	if sc.stream != nil {
		if !c.probe {
			words, _ = d.Search()
		}
		kind = "foreign-dfs-ids"
		var last uint64
		for i, n := range dump {
			if i > 0 && n.ID < last {
				kind = "foreign-other-ids" // not the order in which the Builder numbers
			}
			last = n.ID
		}
	}
	nontrivial, _ := sharing(words, len(dump))
	if c.probe {
		nontrivial = d.NumberOfWords() > len(dump)
		kind = "foreign-huge-language"
	}
	if c.cons != 0 {
		kind += "-cons" + strconv.Itoa(c.cons%nCons)
	}
	maxBranch, maxID := 0, uint64(0)
	for _, n := range dump {
		if len(n.Labels) > maxBranch {
			maxBranch = len(n.Labels)
		}
		if n.ID > maxID {
			maxID = n.ID
		}
	}
	return hx.Result{Obs: obs, Nontrivial: nontrivial, Viol: viol,
		Buckets: []string{"kind:" + kind, "words:" + cross(len(words)), "nodes:" + cross(len(dump)), "branch:" + cross(maxBranch), "maxid:" + crossID(maxID)}}
}

// Input aliasing: the caller of GobDecode owns the byte slice it passes and may overwrite or
// reuse it as soon as the call returns (a loader reading several automata through one scratch
// buffer).  Every direct GobDecode of the harness therefore decodes from a private buffer and
// overwrites that buffer (its whole capacity) before the decoded automaton is observed: with
// zeros, with 0xff, with every byte changed, or with another valid encoding written over it.
var otherEncoding = streamWithPerm([][]byte{[]byte("qz"), []byte("z"), []byte("zq")}, []int{2, 0, 1})

func scribble(buf []byte, mode int) {
	buf = buf[:cap(buf)]
	for i := range buf {
		switch mode % 4 {
		case 0:
			buf[i] = 0
		case 1:
			buf[i] = 0xff
		case 2:
			buf[i] ^= 0x55
		default:
			buf[i] = otherEncoding[i%len(otherEncoding)]
		}
	}
}

// decodeScribble: d.GobDecode(b) from a buffer that is overwritten right after the call.  The
// way of overwriting depends on the call site and on the length (deterministic per case).
func decodeScribble(d *dawg.Dawg, b []byte, site int) error {
	buf := append(make([]byte, 0, len(b)+site%3), b...)
	err := d.GobDecode(buf)
	scribble(buf, site+len(b))
	return err
}

func mustDecode(b []byte) *dawg.Dawg {
	d := new(dawg.Dawg)
	if err := decodeScribble(d, b, 5); err != nil {
		return new(dawg.Dawg)
	}
	return d
}

// sharing: the non-triviality rule on a sorted word list and the node count of its automaton:
// a node is shared (fewer nodes than distinct prefixes) or a word is a proper prefix of another.
func sharing(words [][]byte, nodes int) (nontrivial bool, npre int) {
	npre = 1
	properPrefix := false
	for i, w := range words {
		l := 0
		if i > 0 {
			p := words[i-1]
			for l < len(p) && l < len(w) && p[l] == w[l] {
				l++
			}
			if l == len(p) {
				properPrefix = true
			}
		}
		npre += len(w) - l
	}
	return nodes < npre || properPrefix, npre
}

func crossID(x uint64) string {
	if x >= 1<<32 {
		return ">=2^32"
	}
	return cross(int(x))
}

// cross names the side of the varint boundaries a count lies on.
func cross(n int) string {
	switch {
	case n == 0:
		return "0"
	case n <= 1:
		return "1"
	case n < 127:
		return "2..126"
	case n == 127:
		return "127"
	case n == 128:
		return "128"
	case n < 255:
		return "129..254"
	case n <= 256:
		return "255..256"
	case n < 65535:
		return "257..65534"
	default:
		return ">=65535"
	}
}

// ---------------------------------------------------------------- generation

func sortDedup(ws [][]byte) [][]byte {
	sort.Slice(ws, func(i, j int) bool { return bytes.Compare(ws[i], ws[j]) < 0 })
	out := ws[:0]
	for i, w := range ws {
		if i == 0 || !bytes.Equal(w, ws[i-1]) {
			out = append(out, w)
		}
	}
	return out
}

func cat(parts ...[]byte) []byte {
	var w []byte
	for _, p := range parts {
		w = append(w, p...)
	}
	if w == nil {
		w = []byte{}
	}
	return w
}

func randWord(r *hx.Rng, alpha []byte, maxLen int) []byte {
	n := r.Intn(maxLen + 1)
	w := make([]byte, n)
	for i := range w {
		w[i] = alpha[r.Intn(len(alpha))]
	}
	return w
}

func allWords(alpha []byte, n int) [][]byte {
	level := [][]byte{{}}
	out := [][]byte{{}}
	for k := 1; k <= n; k++ {
		var next [][]byte
		for _, w := range level {
			for _, c := range alpha {
				next = append(next, cat(w, []byte{c}))
			}
		}
		out = append(out, next...)
		level = next
	}
	return out
}

func randAlphabet(r *hx.Rng) []byte {
	switch r.Intn(7) {
	case 6: // bytes congruent modulo 32 / 64 / 128
		m := []int{32, 64, 128}[r.Intn(3)]
		var a []byte
		for x := r.Intn(m); x < 256; x += m {
			a = append(a, byte(x))
		}
		if len(a) < 2 {
			a = append(a, a[0]^0x01)
			sort.Slice(a, func(i, j int) bool { return a[i] < a[j] })
		}
		return a
	case 0:
		return []byte("a")
	case 1:
		return []byte("ab")
	case 2:
		return []byte("abc")
	case 3:
		return []byte("abcd")
	case 4: // bytes at the edges of the range
		return []byte{0x00, 0x01, 0x7f, 0x80, 0xfe, 0xff}[:r.Range(2, 6)]
	default: // a random subset of all bytes
		return byteSubset(r, r.Range(2, 40))
	}
}

// byteSubset returns k distinct bytes in increasing order.
func byteSubset(r *hx.Rng, k int) []byte {
	p := r.Perm(256)[:k]
	sort.Ints(p)
	a := make([]byte, k)
	for i, v := range p {
		a[i] = byte(v)
	}
	return a
}

// wordSet builds a small set with the shapes of C12's generator.
func wordSet(r *hx.Rng, alpha []byte) [][]byte {
	var ws [][]byte
	switch r.Intn(6) {
	case 0: // independent random words
		n := r.Range(0, 12)
		for i := 0; i < n; i++ {
			ws = append(ws, randWord(r, alpha, 5))
		}
	case 1: // prefixes x suffixes: heavy sharing at both ends
		np, ns := r.Range(1, 4), r.Range(1, 4)
		var pre, suf [][]byte
		for i := 0; i < np; i++ {
			pre = append(pre, randWord(r, alpha, 3))
		}
		for i := 0; i < ns; i++ {
			suf = append(suf, randWord(r, alpha, 3))
		}
		for _, p := range pre {
			for _, s := range suf {
				if r.Chance(5, 6) {
					ws = append(ws, cat(p, s))
				}
			}
		}
	case 2: // a few words and many of their prefixes
		n := r.Range(1, 4)
		for i := 0; i < n; i++ {
			w := randWord(r, alpha, 7)
			for k := 0; k <= len(w); k++ {
				if r.Chance(1, 2) {
					ws = append(ws, cat(w[:k]))
				}
			}
			ws = append(ws, w)
		}
	case 3: // dense: most short words
		maxLen := 3
		if len(alpha) > 4 {
			maxLen = 2
		}
		if len(alpha) > 16 {
			maxLen = 1
		}
		for _, w := range allWords(alpha, maxLen) {
			if r.Chance(3, 5) {
				ws = append(ws, w)
			}
		}
	case 4: // common stem, then branches with common endings
		stem := randWord(r, alpha, 4)
		ends := [][]byte{randWord(r, alpha, 2), randWord(r, alpha, 2)}
		n := r.Range(1, 8)
		for i := 0; i < n; i++ {
			ws = append(ws, cat(stem, randWord(r, alpha, 3), ends[r.Intn(2)]))
		}
	default: // tiny
		n := r.Range(0, 3)
		for i := 0; i < n; i++ {
			ws = append(ws, randWord(r, alpha, 2))
		}
	}
	if r.Chance(1, 5) {
		ws = append(ws, []byte{})
	}
	return sortDedup(ws)
}

var boundaries = []int{0, 1, 2, 126, 127, 128, 129, 200, 254, 255, 256}

// wide builds a set whose automaton has a node with exactly k outgoing links (k <= 256) below
// a stem; the links lead to leaves, to a shared inner node, or to a mixture.
func wide(r *hx.Rng, k int, budget int) [][]byte {
	stem := randWord(r, []byte{'x', 0x00, 0xff}, 2)
	letters := byteSubset(r, k)
	tails := [][]byte{{}}
	switch r.Intn(4) {
	case 0: // leaves only
	case 1: // every link continues with the same one or two suffixes
		tails = [][]byte{randWord(r, []byte("ab"), 2), randWord(r, []byte{0x80, 0xff}, 3)}
	case 2: // a second wide level shared by all links (k x j words, 3 levels)
		// GobEncode revisits shared nodes: about k^2 j^2 / 4 loop iterations here, which the
		// model driver has to follow
		j := []int{2, 3, 127, 128, 200, 256}[r.Intn(6)]
		for j > 3 && k*k*j*j/4 > budget {
			j = []int{2, 3, 16}[r.Intn(3)]
		}
		tails = nil
		for _, c := range byteSubset(r, j) {
			tails = append(tails, []byte{c})
		}
	default: // mixture
		tails = [][]byte{{}, {0x00}, {0x7f, 0x80}, []byte("zz")}
	}
	ws := [][]byte{}
	if r.Chance(1, 3) {
		ws = append(ws, cat(stem))
	}
	for _, c := range letters {
		if len(tails) > 4 || r.Intn(4) != 3 {
			for _, t := range tails {
				ws = append(ws, cat(stem, []byte{c}, t))
			}
		} else {
			ws = append(ws, cat(stem, []byte{c}, tails[r.Intn(len(tails))]))
		}
	}
	return sortDedup(ws)
}

// chain: one word of length n (n+1 nodes, ids 0..n), optionally with some of its prefixes.
func chain(r *hx.Rng, n int, prefixes bool) [][]byte {
	w := make([]byte, n)
	for i := range w {
		w[i] = []byte{'a', 'b', 0x00, 0xff}[r.Intn(4)]
	}
	ws := [][]byte{w}
	if prefixes {
		// about a third of the prefixes, at most about 60 of them (the case line grows with n^2)
		den := 3
		if n > 180 {
			den = n / 60
		}
		for k := 0; k < n; k++ {
			if r.Chance(1, den) {
				ws = append(ws, cat(w[:k]))
			}
		}
	}
	return sortDedup(ws)
}

// manyWords: exactly n words with heavy sharing (few nodes): numbers written with d digits in
// base len(alpha), the first n of them.
func manyWords(alpha []byte, d, n int) [][]byte {
	var ws [][]byte
	idx := make([]int, d)
	for len(ws) < n {
		w := make([]byte, d)
		for i := range w {
			w[i] = alpha[idx[i]]
		}
		ws = append(ws, w)
		i := d - 1
		for i >= 0 {
			idx[i]++
			if idx[i] < len(alpha) {
				break
			}
			idx[i] = 0
			i--
		}
		if i < 0 {
			break
		}
	}
	return sortDedup(ws)
}

func patterns(r *hx.Rng, ws [][]byte, blank byte) [][]byte {
	var ps [][]byte
	if len(ws) == 0 {
		return [][]byte{{}, {blank}}
	}
	for i := 0; i < 3; i++ {
		w := cat(ws[r.Intn(len(ws))])
		if len(w) > 24 {
			continue
		}
		for j := range w {
			if r.Chance(1, 2) {
				w[j] = blank
			}
		}
		ps = append(ps, w)
	}
	ps = append(ps, []byte{blank}, []byte{blank, blank})
	return ps
}

func Gen(g *hx.Gen) {
	r := g.Rng
	emit := func(ws [][]byte) {
		blank := byte('?')
		if r.Chance(1, 4) {
			blank = byte(r.Intn(256))
		}
		g.Emit(tcase{blank: blank, pats: patterns(r, ws, blank), tokens: ws}.line())
	}
	// corpus: the empty set, the empty word, the word list of TestGob, the input that failed on
	// the pinned tree (a node with 128 children; see KNOWN_FINDINGS.txt, fixed) and 256 children
	emit(nil)
	emit([][]byte{{}})
	var tw [][]byte
	for _, s := range []string{"abject", "abjection", "abjections", "abjectly", "abjectness", "ablate", "ablated", "ablation", "ablations"} {
		tw = append(tw, []byte(s))
	}
	emit(tw)
	for _, k := range []int{127, 128, 256} {
		var ws [][]byte
		for i := 0; i < k; i++ {
			ws = append(ws, []byte{byte(i)})
		}
		emit(ws)
	}
	// exhaustive small spaces
	ab := []byte("ab")
	short := sortDedup(allWords(ab, g.Pick(2, 3)))
	for mask := 0; mask < 1<<uint(len(short)); mask++ {
		var ws [][]byte
		for i, w := range short {
			if mask>>uint(i)&1 == 1 {
				ws = append(ws, w)
			}
		}
		emit(ws)
	}
	g.Exhaustive(fmt.Sprintf("every subset of the %d words of length <= %d over {a,b}", len(short), g.Pick(2, 3)))
	// structured random sets as in C12
	for i, n := 0, g.Pick(6000, 150000); i < n; i++ {
		emit(wordSet(r, randAlphabet(r)))
	}
	// full byte alphabet: a node with k links for the boundary values of k
	budget := g.Pick(400000, 8000000)
	for i, n := 0, g.Pick(6, 60); i < n; i++ {
		for _, k := range boundaries {
			emit(wide(r, k, budget))
		}
	}
	for i, n := 0, g.Pick(40, 1000); i < n; i++ {
		emit(wide(r, r.Range(0, 256), budget))
	}
	// node counts and ids across 127 and 255: chains; word counts across 127 and 255
	for _, n := range []int{125, 126, 127, 128, 253, 254, 255, 256, 300} {
		emit(chain(r, n, false))
		emit(chain(r, n, true))
	}
	for _, n := range []int{126, 127, 128, 129, 254, 255, 256, 257} {
		emit(manyWords([]byte("abcd"), 5, n))
		emit(manyWords(byteSubset(r, 16), 2, n))
		var ws [][]byte
		for j := 0; j < 2*n; j++ {
			ws = append(ws, randWord(r, []byte("abc"), 9))
		}
		ws = sortDedup(ws)
		if len(ws) > n {
			ws = ws[:n]
		}
		emit(ws)
	}
	// word counts across 65535 on few nodes (numWords of the root takes three bytes); a last
	// word with a suffix of its own gets nodes whose ids are beyond 65535
	bigs := []int{65535, 65536, 65537}
	if !g.Thorough() {
		bigs = []int{65536}
	}
	for _, n := range bigs {
		alpha := byteSubset(r, 17)
		for alpha[16] == 0xff {
			alpha = byteSubset(r, 17)
		}
		ws := manyWords(alpha, 4, n)
		emit(ws)
		emit(append(append([][]byte{}, ws...), []byte{0xff, 0x00, 0x01}))
	}
	for i, n := 0, g.Pick(10, 300); i < n; i++ {
		var ws [][]byte
		for j, m := 0, r.Range(100, 600); j < m; j++ {
			ws = append(ws, randWord(r, []byte("abc"), 8))
		}
		emit(sortDedup(ws))
	}
	genForeign(g)
	genHistory(g)
	genHarden(g)
}

// genHarden: the dimensions of notes/GENERATOR_DIMENSIONS.md that the streams above do not visit
// deliberately: sizes just below / at / above 8..1024 (depth, width, word count, node count),
// lopsided shapes, every boundary of the integer encoding in every field kind (ids, numWords,
// ranks), label bytes congruent modulo 32/64/128, and the other ways of building a Dawg.
func genHarden(g *hx.Gen) {
	r := g.Rng
	nth := 0
	// every set goes out as built by one of the constructions (rotating) and as a foreign stream
	emit := func(ws [][]byte) {
		blank := pickBlank(r)
		pats := patterns(r, ws, blank)
		nth++
		g.Emit(tcase{blank: blank, pats: pats, tokens: ws, cons: nth % nCons}.line())
		// (the model's traversal is quadratic in the node count: large ones as foreign streams in
		// the thorough tier only)
		if _, npre := sharing(ws, 0); npre <= g.Pick(300, 1100) {
			g.Emit(tcase{blank: blank, pats: pats, srcs: []source{{stream: foreignStream(r, ws, 1, r.Intn(nOrders), r.Intn(nVals))}}}.line())
		}
	}
	for _, t := range []int{8, 16, 32, 64, 128, 256, 512, 1024} {
		for d := -2; d <= 1; d++ {
			if t >= 512 && d != 0 && !g.Thorough() {
				continue
			}
			emit(chain(r, t+d, false)) // depth t+d, t+d+1 nodes
			if d >= -1 {
				emit(manyWords([]byte("abcd"), 6, t+d)) // word count
				if t+d <= 256 {
					emit(wide(r, t+d, 20000)) // width
				}
			}
		}
	}
	// lopsided: one deep branch first / in the middle / last among k short siblings
	for _, depth := range []int{63, 64, 65, 128, 256} {
		for _, k := range []int{3, 16, 255} {
			if k == 255 && depth != 64 && !g.Thorough() {
				continue
			}
			letters := byteSubset(r, k)
			for _, pos := range []int{0, k / 2, k - 1} {
				var ws [][]byte
				for i, c := range letters {
					ws = append(ws, []byte{c})
					if i == pos {
						ws = append(ws, cat([]byte{c}, chain(r, depth-1, false)[0]))
					}
				}
				emit(sortDedup(ws))
			}
		}
	}
	// the constructions on structured random sets
	for i, n := 0, g.Pick(240, 6000); i < n; i++ {
		ws := wordSet(r, randAlphabet(r))
		blank := pickBlank(r)
		g.Emit(tcase{blank: blank, pats: patterns(r, ws, blank), tokens: ws, cons: 1 + i%(nCons-1)}.line())
	}
	// ids on every boundary of the integer encoding, in every id order
	ladder := varintLadder()
	for i, n := 0, g.Pick(3, 40); i < n; i++ {
		for ord := 0; ord < nOrders; ord++ {
			var ws [][]byte
			switch (i + ord) % 3 {
			case 0:
				ws = chain(r, r.Range(len(ladder)-12, len(ladder)-1), r.Bool())
			case 1:
				ws = wide(r, r.Range(20, len(ladder)-8), 20000)
			default:
				ws = wordSet(r, randAlphabet(r))
			}
			k := minimalSize(ws)
			if k > len(ladder) {
				continue
			}
			ids := ladder
			if k < len(ladder) && r.Bool() {
				ids = ladder[len(ladder)-k:] // the largest ones
			}
			blank := pickBlank(r)
			g.Emit(tcase{blank: blank, pats: patterns(r, ws, blank), srcs: []source{{stream: streamWithIDs(r, ws, ids, ord)}}}.line())
		}
	}
	// numWords (and ranks) on every boundary up to 2^63-1: huge languages on few nodes, probes only
	for i, n := 0, g.Pick(1, 20); i < n; i++ {
		for finals := 0; finals < 3; finals++ {
			for ord := 0; ord < nOrders; ord++ {
				order, probes := powerLanguage(r, finals, (i+ord)%2 == 1)
				stream := numberAndWrite(r, order, ord, r.Intn(nVals))
				g.Emit(tcase{blank: '?', pats: probes, probe: true, srcs: []source{{stream: stream}}}.line())
			}
		}
	}
}

func pickBlank(r *hx.Rng) byte {
	if r.Chance(1, 4) {
		return byte(r.Intn(256))
	}
	return '?'
}

// genForeign: streams in the shape GobEncode writes, with node numberings the Builder never
// produces (foreign.go); plain round-trip cases whose source is the stream.
func genForeign(g *hx.Gen) {
	r := g.Rng
	emit := func(ws [][]byte, stream []byte) {
		blank := pickBlank(r)
		g.Emit(tcase{blank: blank, pats: patterns(r, ws, blank), srcs: []source{{stream: stream}}}.line())
	}
	// corpus: two paths of different first-visit order meeting in one node, numbered so that the
	// node reached second has the smaller id: root(0) -a-> 2 -x-> 3, root -b-> 1 -y-> 3
	emit([][]byte{[]byte("ax"), []byte("by")}, streamWithPerm([][]byte{[]byte("ax"), []byte("by")}, []int{1, 2, 0}))
	// exhaustive: every numbering 0..k of the minimal automaton of every subset of the short
	// words over {a,b}, for automata with at most 5 (quick) / 6 (thorough) nodes
	short := sortDedup(allWords([]byte("ab"), 2))
	maxNodes := g.Pick(5, 6)
	for mask := 1; mask < 1<<uint(len(short)); mask++ {
		var ws [][]byte
		for i, w := range short {
			if mask>>uint(i)&1 == 1 {
				ws = append(ws, w)
			}
		}
		k := minimalSize(ws)
		if k < 3 || k > maxNodes {
			continue
		}
		for _, perm := range permutations(k - 1) {
			emit(ws, streamWithPerm(ws, perm))
		}
	}
	g.Exhaustive(fmt.Sprintf("every numbering (root least) of the minimal automaton of every subset of the 7 words of length <= 2 over {a,b} with 3..%d nodes, as a foreign stream", maxNodes))
	// every id order x id value scheme x sharing mode on structured random sets
	for i, n := 0, g.Pick(3, 60); i < n; i++ {
		for ord := 0; ord < nOrders; ord++ {
			for val := 0; val < nVals; val++ {
				for mode := 0; mode < 3; mode++ {
					ws := wordSet(r, randAlphabet(r))
					emit(ws, foreignStream(r, ws, mode, ord, val))
				}
			}
		}
	}
	// random combinations on the other shapes: wide nodes, chains across 127/255 nodes, many words
	for i, n := 0, g.Pick(150, 4000); i < n; i++ {
		var ws [][]byte
		forceMinimal := false
		switch r.Intn(5) {
		case 0:
			// (the model follows the rescans of shared nodes below a wide node: keep most of them narrow)
			k := []int{2, 3, 16, 100, 126, 127, 128, 129}[r.Intn(8)]
			if r.Chance(1, 8) {
				k = r.Range(254, 256)
			}
			ws = wide(r, k, 20000)
			forceMinimal = true
		case 1:
			ws = chain(r, []int{5, 30, 125, 126, 127, 128, 254, 255, 256}[r.Intn(9)], r.Bool())
		case 2:
			ws = randomWords(r, []byte("abc"), r.Range(20, 300), 8)
		case 3:
			ws = manyWords([]byte("abcd"), 4, []int{126, 127, 128, 129, 255, 256}[r.Intn(6)])
		default:
			ws = wordSet(r, randAlphabet(r))
		}
		mode := 1
		if _, npre := sharing(ws, 0); r.Chance(1, 3) && !forceMinimal && npre <= 400 {
			mode = []int{0, 2}[r.Intn(2)]
		}
		emit(ws, foreignStream(r, ws, mode, r.Intn(nOrders), r.Intn(nVals)))
	}
}

// genHistory: several automata and a program over them (history.go).
func genHistory(g *hx.Gen) {
	r := g.Rng
	emit := func(sets [][][]byte, foreign []bool, prog []string, each bool) {
		var all [][]byte
		srcs := make([]source, len(sets))
		for i, ws := range sets {
			all = append(all, ws...)
			if foreign != nil && foreign[i] {
				srcs[i] = source{stream: foreignStream(r, ws, []int{1, 1, 0, 2}[r.Intn(4)], r.Intn(nOrders), r.Intn(nVals))}
			} else {
				srcs[i] = source{words: ws}
			}
		}
		all = sortDedup(append([][]byte{}, all...))
		blank := pickBlank(r)
		cons := 0
		if r.Chance(1, 3) {
			cons = r.Intn(nCons)
		}
		g.Emit(tcase{blank: blank, pats: patterns(r, all, blank), srcs: srcs, prog: prog, each: each, cons: cons}.line())
	}
	// exhaustive: every ordered pair of subsets of {"", a, b, ab}: both encodings held; and
	// encode A, decode B's encoding into A, encode A again
	base := [][]byte{{}, []byte("a"), []byte("ab"), []byte("b")}
	sub := func(mask int) [][]byte {
		ws := [][]byte{}
		for i, w := range base {
			if mask>>uint(i)&1 == 1 {
				ws = append(ws, w)
			}
		}
		return ws
	}
	for ma := 0; ma < 16; ma++ {
		for mb := 0; mb < 16; mb++ {
			emit([][][]byte{sub(ma), sub(mb)}, nil, []string{"e0", "e1", "c", "d0:1", "e0", "d2:0", "e2"}, false)
		}
	}
	g.Exhaustive("every ordered pair (A,B) of subsets of {\"\",a,ab,b}: encodings of A and B held together; encode A, decode B into the Dawg of A, encode it again; decode A's held encoding into a zero Dawg")
	// every buffer-size boundary: encodings of t, t-1, t+1 bytes (and the reverse order) held together
	for _, t := range sizeBoundaries {
		for _, dl := range [][]int{{0, -1, 1}, {1, 0, -1}, {-1, 0, 0}} {
			var sets [][][]byte
			for _, d := range dl {
				sets = append(sets, chainOfSize(r, t+d))
			}
			emit(sets, nil, []string{"e0", "e1", "e2", "c", "d1:0", "e1"}, r.Bool())
		}
	}
	for i, n := 0, g.Pick(900, 30000); i < n; i++ {
		sets := sourceFamily(r)
		var foreign []bool
		if r.Chance(1, 4) {
			foreign = make([]bool, len(sets))
			for j := range foreign {
				foreign[j] = r.Bool() && len(sets[j]) <= 120
			}
		}
		emit(sets, foreign, historyProgram(r, len(sets)), r.Bool())
	}
}

func short(s string, n int) string {
	if len(s) > n {
		return s[:n] + "..."
	}
	return s
}

// GenBig: automata too large for the model driver.  Word counts, ids and node counts across
// 65535 (three-byte integers in the stream).
func GenBig(g *hx.Gen) {
	r := g.Rng
	emit := func(ws [][]byte) {
		g.Emit(tcase{blank: '?', pats: patterns(r, ws[:min(len(ws), 50)], '?'), tokens: ws}.line())
	}
	// a few thousand nodes: chains and random sets
	for _, n := range []int{g.Pick(3500, 4000), g.Pick(5000, 20000)} {
		emit(chain(r, n, true))
	}
	for i, n := 0, g.Pick(2, 12); i < n; i++ {
		var ws [][]byte
		for j, m := 0, r.Range(3000, g.Pick(5000, 9000)); j < m; j++ {
			ws = append(ws, randWord(r, []byte("abcde"), 10))
		}
		emit(sortDedup(ws))
	}
	// the same sizes read from a stream with another node numbering (foreign.go), and held
	// together with the encoding of a smaller set (history.go)
	{
		ws := chain(r, g.Pick(3500, 9000), true)
		g.Emit(tcase{blank: '?', pats: patterns(r, ws[:min(len(ws), 50)], '?'), srcs: []source{{stream: foreignStream(r, ws, 1, ordReverse, valContig)}}}.line())
		ws = randomWords(r, []byte("abcde"), g.Pick(3000, 8000), 10)
		g.Emit(tcase{blank: '?', pats: patterns(r, ws[:50], '?'), srcs: []source{{stream: foreignStream(r, ws, 1, ordRandom, valSparse)}}}.line())
		sub := subset(r, ws, 1, 2)
		g.Emit(tcase{blank: '?', pats: patterns(r, ws[:50], '?'), srcs: []source{{words: ws}, {words: sub}, {stream: foreignStream(r, sub, 1, ordBFS, valGaps)}},
			prog: []string{"e0", "e1", "e2", "c", "d0:1", "e0", "d3:0", "d1:2", "e1", "e3"}}.line())
	}
	if !g.Thorough() {
		return
	}
	// node count (and ids) across 65535: one long word, with and without prefixes
	for _, n := range []int{65534, 65535, 65536} {
		emit(chain(r, n, false))
	}
	emit(chain(r, 66000, true))
	// many distinct nodes with branching: random words over 4 letters
	for i := 0; i < 2; i++ {
		var ws [][]byte
		for j := 0; j < 30000; j++ {
			ws = append(ws, randWord(r, []byte("abcd"), 12))
		}
		emit(sortDedup(ws))
	}
}

func min(a, b int) int {
	if a < b {
		return a
	}
	return b
}
