package canonx

import "sort"

// This file is a Go transcription of the Coq model coq/Canon/Model.v (no shortcut for edgeless graphs) (refinement of ordered
// partitions and the unpruned individualise-refine search tree).  The harness uses it only to
// *measure the size of the model's search tree* (so that the generator can mark the cases on
// which the extracted model is affordable) and, in the tests of this package, to cross-check
// the transcription against the library.  It decides nothing in ./check.

type cell struct {
	flag bool
	vs   []int
}

func refRefine(g *G, cells []cell) []cell {
	for {
		i := -1
		for k := len(cells) - 1; k >= 0; k-- {
			if cells[k].flag {
				i = k
				break
			}
		}
		if i < 0 {
			return cells
		}
		cells[i].flag = false
		w := cells[i].vs
		cnt := func(v int) int {
			c := 0
			for _, u := range w {
				if g.Adj[u][v] {
					c++
				}
			}
			return c
		}
		var out []cell
		for _, c := range cells {
			all := true
			c0 := cnt(c.vs[0])
			for _, v := range c.vs {
				if cnt(v) != c0 {
					all = false
				}
			}
			if all {
				out = append(out, c)
				continue
			}
			for k := 0; k <= len(w); k++ {
				var f []int
				for _, v := range c.vs {
					if cnt(v) == k {
						f = append(f, v)
					}
				}
				if len(f) > 0 {
					out = append(out, cell{true, f})
				}
			}
		}
		cells = out
	}
}

// RefCells runs the model's refinement on the initial partition given by cls (nil = one cell).
func RefCells(g *G, cls [][]int) [][]int {
	cells := refInit(g.N, cls)
	cells = refRefine(g, cells)
	out := make([][]int, len(cells))
	for i, c := range cells {
		out[i] = c.vs
	}
	return out
}

func refInit(n int, cls [][]int) []cell {
	var cells []cell
	if cls == nil {
		if n > 0 {
			cells = []cell{{true, Identity(n)}}
		}
		return cells
	}
	for _, c := range cls {
		s := append([]int(nil), c...)
		sort.Ints(s)
		cells = append(cells, cell{true, s})
	}
	return cells
}

// RefCanon is the model's canonical labelling: the permutation of a leaf of the unpruned search
// tree with the least adjacency bit string (= the greatest sorted list of edge indices, the
// certificate of canonical.go).  It gives up (ok=false) after more than budget leaves.
func RefCanon(g *G, cls [][]int, budget int) (perm []int, leaves int, ok bool) {
	n := g.N
	if n == 0 {
		return []int{}, 0, true
	}
	cells := refInit(n, cls)
	cells = refRefine(g, cells)
	var best []int
	var bestKey string
	ok = true
	var rec func(cells []cell)
	rec = func(cells []cell) {
		if !ok {
			return
		}
		t := -1
		for k, c := range cells {
			if len(c.vs) > 1 {
				t = k
				break
			}
		}
		if t < 0 {
			leaves++
			if leaves > budget {
				ok = false
				return
			}
			p := make([]int, 0, n)
			for _, c := range cells {
				p = append(p, c.vs...)
			}
			key := bitString(g, p)
			if best == nil || key < bestKey {
				best, bestKey = p, key
			}
			return
		}
		tc := cells[t].vs
		for k := len(tc) - 1; k >= 0; k-- {
			var child []cell
			for _, c := range cells[:t] {
				child = append(child, cell{false, c.vs})
			}
			rest := make([]int, 0, len(tc)-1)
			rest = append(rest, tc[:k]...)
			rest = append(rest, tc[k+1:]...)
			child = append(child, cell{true, []int{tc[k]}}, cell{true, rest})
			for _, c := range cells[t+1:] {
				child = append(child, cell{false, c.vs})
			}
			rec(refRefine(g, child))
		}
	}
	rec(cells)
	return best, leaves, ok
}

func bitString(g *G, p []int) string {
	n := g.N
	b := make([]byte, 0, n*(n-1)/2)
	for j := 1; j < n; j++ {
		for i := 0; i < j; i++ {
			if g.Adj[p[i]][p[j]] {
				b = append(b, '1')
			} else {
				b = append(b, '0')
			}
		}
	}
	return string(b)
}
