package canonx

import (
	"testing"

	"github.com/Tom-Johnston/mamba/graph"
)

// the transcription of the model agrees with the library on the canonical graph
func TestRefAgainstLibrary(t *testing.T) {
	check := func(name string, g *G) {
		p, leaves, ok := RefCanon(g, nil, 50000)
		if !ok {
			return
		}
		q := graph.CanonicalIsomorph(g.Dense())
		if !IsPerm(q, g.N) {
			t.Fatalf("%s: not a permutation", name)
		}
		if a, b := g.RelabelledGraph6(p), g.RelabelledGraph6(q); a != b {
			t.Fatalf("%s %s: model %s (%d leaves) library %s", name, g.Graph6(), a, leaves, b)
		}
	}
	for n := 0; n <= 6; n++ {
		e := n * (n - 1) / 2
		for mask := 0; mask < 1<<uint(e); mask++ {
			g := New(n)
			k := 0
			for j := 1; j < n; j++ {
				for i := 0; i < j; i++ {
					if mask>>uint(k)&1 == 1 {
						g.Add(i, j)
					}
					k++
				}
			}
			check("labelled", g)
		}
	}
	r := &trng{3}
	for _, ng := range Structured(13) {
		check(ng.Name, ng.G)
		check(ng.Name+"~", ng.G.Relabel(r.Perm(ng.G.N)))
	}
}
