package canonx

import "testing"

type trng struct{ s uint64 }

func (r *trng) u() uint64 {
	r.s += 0x9E3779B97F4A7C15
	z := r.s
	z = (z ^ (z >> 30)) * 0xBF58476D1CE4E5B9
	z = (z ^ (z >> 27)) * 0x94D049BB133111EB
	return z ^ (z >> 31)
}
func (r *trng) Intn(n int) int           { return int(r.u() % uint64(n)) }
func (r *trng) Chance(num, den int) bool { return r.Intn(den) < num }
func (r *trng) Perm(n int) []int {
	p := Identity(n)
	for i := n - 1; i > 0; i-- {
		j := r.Intn(i + 1)
		p[i], p[j] = p[j], p[i]
	}
	return p
}

func TestOracles(t *testing.T) {
	counts := []int{1, 1, 2, 4, 11, 34, 156}
	for n, c := range counts {
		if got := len(ClassReps(n)); got != c {
			t.Fatalf("ClassReps(%d) = %d, want %d", n, got, c)
		}
	}
	want := map[string]uint64{"Petersen": 120, "Q3": 48, "Q4": 384, "K5": 120, "C7": 14, "Paley13": 78, "Paley17": 136, "Heawood": 336, "R3x3": 72, "Shrikhande": 192, "R4x4": 1152, "Clebsch": 1920, "3K4": 6 * 24 * 24 * 24, "K[6 6]": 2 * 720 * 720, "K12": 479001600}
	for _, ng := range Structured(17) {
		g := ng.G
		orb, ord := g.AutGroup(nil)
		if w, ok := want[ng.Name]; ok && w != ord {
			t.Fatalf("%s: |Aut| = %d, want %d", ng.Name, ord, w)
		}
		if g.N <= 7 {
			cnt := uint64(0)
			var all [][]int
			g.AutAll(nil, func(p []int) bool { cnt++; all = append(all, append([]int(nil), p...)); return true })
			if cnt != ord {
				t.Fatalf("%s: AutAll %d AutGroup %d", ng.Name, cnt, ord)
			}
			if o := GroupOrder(g.N, all); o != ord {
				t.Fatalf("%s: GroupOrder(all) %d want %d", ng.Name, o, ord)
			}
			lab := OrbitsOf(g.N, all)
			for i := range lab {
				if lab[i] != orb[i] {
					t.Fatalf("%s: orbits %v vs %v", ng.Name, lab, orb)
				}
			}
		}
	}
	// random generator sets: Schreier-Sims against closure
	r := &trng{7}
	for it := 0; it < 3000; it++ {
		n := 1 + r.Intn(8)
		k := r.Intn(4)
		var gens [][]int
		for i := 0; i < k; i++ {
			p := r.Perm(n)
			if r.Chance(1, 2) { // make it sparse: a product of few transpositions
				p = Identity(n)
				for s := 0; s < 1+r.Intn(2); s++ {
					a, b := r.Intn(n), r.Intn(n)
					p[a], p[b] = p[b], p[a]
				}
			}
			gens = append(gens, p)
		}
		a, b := GroupOrder(n, gens), GroupOrderClosure(n, gens, 1<<20)
		if a != b {
			t.Fatalf("GroupOrder %d closure %d for %v", a, b, gens)
		}
	}
}
