// Package canonx holds what the harnesses of C01 and C02 share: an independent simple-graph
// type (own graph6 codec, own relabelling, own conversion to the library's DenseGraph and
// SparseGraph), graph families, and independent brute-force oracles for isomorphism and
// automorphism groups.  Nothing in here calls graph/canonical.go.
package canonx

import (
	"fmt"
	"sort"
	"strconv"
	"strings"

	"github.com/Tom-Johnston/mamba/graph"
	"github.com/Tom-Johnston/mamba/sortints"
)

// G is a simple undirected graph on vertices 0..N-1 as an adjacency matrix.
type G struct {
	N   int
	Adj [][]bool
}

func New(n int) *G {
	g := &G{N: n, Adj: make([][]bool, n)}
	for i := range g.Adj {
		g.Adj[i] = make([]bool, n)
	}
	return g
}

func (g *G) Add(i, j int) {
	if i == j {
		return
	}
	g.Adj[i][j] = true
	g.Adj[j][i] = true
}

func (g *G) Del(i, j int) {
	g.Adj[i][j] = false
	g.Adj[j][i] = false
}

func (g *G) M() int {
	m := 0
	for j := 0; j < g.N; j++ {
		for i := 0; i < j; i++ {
			if g.Adj[i][j] {
				m++
			}
		}
	}
	return m
}

func (g *G) Copy() *G {
	h := New(g.N)
	for i := range g.Adj {
		copy(h.Adj[i], g.Adj[i])
	}
	return h
}

func (g *G) Degree(v int) int {
	d := 0
	for _, b := range g.Adj[v] {
		if b {
			d++
		}
	}
	return d
}

// FromGraph6 decodes a graph6 string (one size byte for n <= 62, "~" and three bytes up to 258047).
func FromGraph6(s string) (*G, error) {
	if len(s) == 0 {
		return nil, fmt.Errorf("empty graph6")
	}
	n := int(s[0]) - 63
	if n == 63 {
		if len(s) < 4 {
			return nil, fmt.Errorf("graph6 size bytes missing")
		}
		n = 0
		for i := 1; i <= 3; i++ {
			c := int(s[i]) - 63
			if c < 0 || c > 63 {
				return nil, fmt.Errorf("graph6 size byte out of range")
			}
			n = n<<6 | c
		}
		if n < 63 || n > 2000 {
			return nil, fmt.Errorf("graph6 size out of range")
		}
		s = s[3:]
	} else if n < 0 || n > 62 {
		return nil, fmt.Errorf("graph6 size byte out of range")
	}
	bits := n * (n - 1) / 2
	if len(s)-1 != (bits+5)/6 {
		return nil, fmt.Errorf("graph6 length %d does not match n=%d", len(s), n)
	}
	g := New(n)
	k := 0
	for j := 1; j < n; j++ {
		for i := 0; i < j; i++ {
			c := int(s[1+k/6]) - 63
			if c < 0 || c > 63 {
				return nil, fmt.Errorf("graph6 byte out of range")
			}
			if c>>(5-uint(k%6))&1 == 1 {
				g.Add(i, j)
			}
			k++
		}
	}
	return g, nil
}

func MustGraph6(s string) *G {
	g, err := FromGraph6(s)
	if err != nil {
		panic(err)
	}
	return g
}

// Graph6 encodes g.
func (g *G) Graph6() string {
	return g.RelabelledGraph6(nil)
}

// RelabelledGraph6 is the graph6 string of the graph h with h(i,j) = g(p[i],p[j]); p == nil is the identity.
func (g *G) RelabelledGraph6(p []int) string {
	n := g.N
	if n > 2000 {
		panic("graph6: n > 2000")
	}
	bits := n * (n - 1) / 2
	out := make([]byte, 1+(bits+5)/6)
	out[0] = byte(n + 63)
	var prefix string
	if n > 62 {
		out[0] = byte(n&63 + 63)
		prefix = string([]byte{126, byte(n>>12&63 + 63), byte(n>>6&63 + 63)})
	}
	k := 0
	for j := 1; j < n; j++ {
		for i := 0; i < j; i++ {
			var e bool
			if p == nil {
				e = g.Adj[i][j]
			} else {
				e = g.Adj[p[i]][p[j]]
			}
			if e {
				out[1+k/6] |= 1 << (5 - uint(k%6))
			}
			k++
		}
	}
	for i := 1; i < len(out); i++ {
		out[i] += 63
	}
	return prefix + string(out)
}

// Relabel returns h with h(i,j) = g(p[i],p[j]) (vertex i of h is vertex p[i] of g): the
// semantics of InducedSubgraph(p) of the library.
func (g *G) Relabel(p []int) *G {
	h := New(g.N)
	for i := 0; i < g.N; i++ {
		for j := 0; j < g.N; j++ {
			h.Adj[i][j] = g.Adj[p[i]][p[j]]
		}
	}
	return h
}

func (g *G) Equal(h *G) bool {
	if g.N != h.N {
		return false
	}
	for i := range g.Adj {
		for j := range g.Adj[i] {
			if g.Adj[i][j] != h.Adj[i][j] {
				return false
			}
		}
	}
	return true
}

func (g *G) Complement() *G {
	h := New(g.N)
	for i := 0; i < g.N; i++ {
		for j := 0; j < g.N; j++ {
			h.Adj[i][j] = i != j && !g.Adj[i][j]
		}
	}
	return h
}

// Union is the disjoint union, vertices of the later graphs shifted up.
func Union(gs ...*G) *G {
	n := 0
	for _, g := range gs {
		n += g.N
	}
	h := New(n)
	off := 0
	for _, g := range gs {
		for i := 0; i < g.N; i++ {
			for j := 0; j < g.N; j++ {
				h.Adj[off+i][off+j] = g.Adj[i][j]
			}
		}
		off += g.N
	}
	return h
}

// Neighbours gives the sorted adjacency lists.
func (g *G) Neighbours() [][]int {
	nb := make([][]int, g.N)
	for i := 0; i < g.N; i++ {
		nb[i] = []int{}
		for j := 0; j < g.N; j++ {
			if g.Adj[i][j] {
				nb[i] = append(nb[i], j)
			}
		}
	}
	return nb
}

// Dense builds the library's DenseGraph directly from the adjacency matrix.
func (g *G) Dense() *graph.DenseGraph {
	n := g.N
	e := make([]byte, n*(n-1)/2)
	k := 0
	for j := 1; j < n; j++ {
		for i := 0; i < j; i++ {
			if g.Adj[i][j] {
				e[k] = 1
			}
			k++
		}
	}
	return graph.NewDense(n, e)
}

// Sparse builds the library's SparseGraph directly from the adjacency matrix.
func (g *G) Sparse() *graph.SparseGraph {
	nb := g.Neighbours()
	s := make([]sortints.SortedInts, g.N)
	for i := range nb {
		s[i] = sortints.SortedInts(nb[i])
	}
	return graph.NewSparse(g.N, s)
}

// FromLib reads a library graph back through IsEdge.
func FromLib(h graph.Graph) *G {
	g := New(h.N())
	for i := 0; i < g.N; i++ {
		for j := 0; j < i; j++ {
			if h.IsEdge(i, j) {
				g.Add(i, j)
			}
		}
	}
	return g
}

// IsPerm reports whether p is a permutation of 0..n-1.
func IsPerm(p []int, n int) bool {
	if len(p) != n {
		return false
	}
	seen := make([]bool, n)
	for _, v := range p {
		if v < 0 || v >= n || seen[v] {
			return false
		}
		seen[v] = true
	}
	return true
}

func Identity(n int) []int {
	p := make([]int, n)
	for i := range p {
		p[i] = i
	}
	return p
}

func IsIdentity(p []int) bool {
	for i, v := range p {
		if i != v {
			return false
		}
	}
	return true
}

func Inverse(p []int) []int {
	q := make([]int, len(p))
	for i, v := range p {
		q[v] = i
	}
	return q
}

// NextPerm advances p to the next permutation in lexicographic order; false after the last.
func NextPerm(p []int) bool {
	i := len(p) - 2
	for i >= 0 && p[i] > p[i+1] {
		i--
	}
	if i < 0 {
		return false
	}
	j := len(p) - 1
	for p[j] < p[i] {
		j--
	}
	p[i], p[j] = p[j], p[i]
	for a, b := i+1, len(p)-1; a < b; a, b = a+1, b-1 {
		p[a], p[b] = p[b], p[a]
	}
	return true
}

func PermString(p []int) string {
	s := make([]string, len(p))
	for i, v := range p {
		s[i] = strconv.Itoa(v)
	}
	return strings.Join(s, ",")
}

func ParsePerm(s string) ([]int, error) {
	if s == "" || s == "-" {
		return []int{}, nil
	}
	f := strings.Split(s, ",")
	p := make([]int, len(f))
	for i, t := range f {
		v, err := strconv.Atoi(t)
		if err != nil {
			return nil, err
		}
		p[i] = v
	}
	return p, nil
}

// ClassesString formats an ordered partition into classes as "0,3|1|2,4"; "-" is "no classes".
func ClassesString(cls [][]int) string {
	if cls == nil {
		return "-"
	}
	s := make([]string, len(cls))
	for i, c := range cls {
		s[i] = PermString(c)
	}
	return strings.Join(s, "|")
}

func ParseClasses(s string) ([][]int, error) {
	if s == "-" {
		return nil, nil
	}
	var cls [][]int
	for _, t := range strings.Split(s, "|") {
		c, err := ParsePerm(t)
		if err != nil {
			return nil, err
		}
		cls = append(cls, c)
	}
	return cls, nil
}

// ClassOf gives for every vertex the index of its class; nil classes = everything in class 0.
func ClassOf(n int, cls [][]int) []int {
	c := make([]int, n)
	for i, cl := range cls {
		for _, v := range cl {
			c[v] = i
		}
	}
	return c
}

// RelabelClasses gives the classes of g.Relabel(p): vertex i of the new graph is vertex p[i] of g.
// The order of the members inside a class is rotated by rot so that unsorted class lists occur.
func RelabelClasses(cls [][]int, p []int, rot int) [][]int {
	if cls == nil {
		return nil
	}
	inv := Inverse(p)
	out := make([][]int, len(cls))
	for i, c := range cls {
		out[i] = make([]int, len(c))
		for j, v := range c {
			out[i][(j+rot)%len(c)] = inv[v]
		}
	}
	return out
}

// MinLabels turns a partition given as "same class" predicate into least-member labels.
func MinLabels(n int, same func(a, b int) bool) []int {
	lab := make([]int, n)
	for i := 0; i < n; i++ {
		lab[i] = i
		for j := 0; j < i; j++ {
			if same(i, j) {
				lab[i] = lab[j]
				break
			}
		}
	}
	return lab
}

func SortedCopy(a []int) []int {
	b := append([]int(nil), a...)
	sort.Ints(b)
	return b
}
