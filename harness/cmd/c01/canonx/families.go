package canonx

import "fmt"

// Named is a graph with the name of the family it came from (for the evidence histogram).
type Named struct {
	Name   string
	Family string
	G      *G
}

func Complete(n int) *G {
	g := New(n)
	for i := 0; i < n; i++ {
		for j := 0; j < i; j++ {
			g.Add(i, j)
		}
	}
	return g
}

func Empty(n int) *G { return New(n) }

func Circulant(n int, diffs ...int) *G {
	g := New(n)
	for i := 0; i < n; i++ {
		for _, d := range diffs {
			g.Add(i, ((i+d)%n+n)%n)
		}
	}
	return g
}

func CycleG(n int) *G {
	if n < 3 {
		g := New(n)
		if n == 2 {
			g.Add(0, 1)
		}
		return g
	}
	return Circulant(n, 1)
}

func PathG(n int) *G {
	g := New(n)
	for i := 0; i+1 < n; i++ {
		g.Add(i, i+1)
	}
	return g
}

func StarG(n int) *G {
	g := New(n)
	for i := 1; i < n; i++ {
		g.Add(0, i)
	}
	return g
}

func CompleteMultipartite(parts ...int) *G {
	n := 0
	for _, p := range parts {
		n += p
	}
	part := make([]int, 0, n)
	for i, p := range parts {
		for k := 0; k < p; k++ {
			part = append(part, i)
		}
	}
	g := New(n)
	for i := 0; i < n; i++ {
		for j := 0; j < i; j++ {
			if part[i] != part[j] {
				g.Add(i, j)
			}
		}
	}
	return g
}

func subsets(n, k int) [][]int {
	var out [][]int
	var rec func(start int, cur []int)
	rec = func(start int, cur []int) {
		if len(cur) == k {
			out = append(out, append([]int(nil), cur...))
			return
		}
		for v := start; v < n; v++ {
			rec(v+1, append(cur, v))
		}
	}
	rec(0, nil)
	return out
}

func disjointSets(a, b []int) bool {
	for _, x := range a {
		for _, y := range b {
			if x == y {
				return false
			}
		}
	}
	return true
}

func shared(a, b []int) int {
	c := 0
	for _, x := range a {
		for _, y := range b {
			if x == y {
				c++
			}
		}
	}
	return c
}

// Kneser(n,k): k-subsets of an n-set, adjacent when disjoint.
func Kneser(n, k int) *G {
	s := subsets(n, k)
	g := New(len(s))
	for i := range s {
		for j := 0; j < i; j++ {
			if disjointSets(s[i], s[j]) {
				g.Add(i, j)
			}
		}
	}
	return g
}

// Johnson(n,k): k-subsets adjacent when they share k-1 elements; Johnson(n,2) is the triangular graph T(n).
func Johnson(n, k int) *G {
	s := subsets(n, k)
	g := New(len(s))
	for i := range s {
		for j := 0; j < i; j++ {
			if shared(s[i], s[j]) == k-1 {
				g.Add(i, j)
			}
		}
	}
	return g
}

func Hypercube(d int) *G {
	n := 1 << uint(d)
	g := New(n)
	for i := 0; i < n; i++ {
		for b := 0; b < d; b++ {
			g.Add(i, i^(1<<uint(b)))
		}
	}
	return g
}

func FoldedHypercube(d int) *G {
	g := Hypercube(d - 1)
	n := g.N
	for i := 0; i < n; i++ {
		g.Add(i, (n-1)^i)
	}
	return g
}

// Rook(a,b): the a x b rook's graph (Cartesian product of K_a and K_b); Rook(n,n) is the lattice graph L2(n).
func Rook(a, b int) *G {
	g := New(a * b)
	for i := 0; i < a*b; i++ {
		for j := 0; j < i; j++ {
			if i/b == j/b || i%b == j%b {
				g.Add(i, j)
			}
		}
	}
	return g
}

// Cartesian product.
func Product(a, b *G) *G {
	g := New(a.N * b.N)
	for i := 0; i < g.N; i++ {
		for j := 0; j < i; j++ {
			ai, bi, aj, bj := i/b.N, i%b.N, j/b.N, j%b.N
			if (ai == aj && b.Adj[bi][bj]) || (bi == bj && a.Adj[ai][aj]) {
				g.Add(i, j)
			}
		}
	}
	return g
}

func GenPetersen(n, k int) *G {
	g := New(2 * n)
	for i := 0; i < n; i++ {
		g.Add(i, (i+1)%n)
		g.Add(i, n+i)
		g.Add(n+i, n+(i+k)%n)
	}
	return g
}

// Paley(q) for a prime q = 1 mod 4.
func Paley(q int) *G {
	sq := map[int]bool{}
	for x := 1; x < q; x++ {
		sq[x*x%q] = true
	}
	g := New(q)
	for i := 0; i < q; i++ {
		for j := 0; j < i; j++ {
			if sq[(i-j+q)%q] {
				g.Add(i, j)
			}
		}
	}
	return g
}

// Heawood graph, the (3,6)-cage on 14 vertices.
func Heawood() *G {
	g := Circulant(14, 1)
	for i := 0; i < 14; i += 2 {
		g.Add(i, (i+5)%14)
	}
	return g
}

// Shrikhande graph: srg(16,6,2,2) not isomorphic to Rook(4,4).
func Shrikhande() *G {
	g := New(16)
	for a := 0; a < 4; a++ {
		for b := 0; b < 4; b++ {
			for _, d := range [][2]int{{1, 0}, {0, 1}, {1, 1}} {
				g.Add(a*4+b, ((a+d[0])%4)*4+(b+d[1])%4)
			}
		}
	}
	return g
}

func Wheel(n int) *G { // hub 0 and a cycle on n-1 vertices
	g := New(n)
	for i := 1; i < n; i++ {
		g.Add(0, i)
		if n > 3 {
			g.Add(i, 1+i%(n-1))
		}
	}
	return g
}

func Friendship(k int) *G {
	g := New(2*k + 1)
	for i := 0; i < k; i++ {
		g.Add(0, 1+2*i)
		g.Add(0, 2+2*i)
		g.Add(1+2*i, 2+2*i)
	}
	return g
}

func Copies(k int, g *G) *G {
	gs := make([]*G, k)
	for i := range gs {
		gs[i] = g
	}
	return Union(gs...)
}

func LineGraph(g *G) *G {
	var e [][2]int
	for j := 0; j < g.N; j++ {
		for i := 0; i < j; i++ {
			if g.Adj[i][j] {
				e = append(e, [2]int{i, j})
			}
		}
	}
	h := New(len(e))
	for a := range e {
		for b := 0; b < a; b++ {
			if e[a][0] == e[b][0] || e[a][0] == e[b][1] || e[a][1] == e[b][0] || e[a][1] == e[b][1] {
				h.Add(a, b)
			}
		}
	}
	return h
}

// Spider with legs of the given lengths.
func Spider(legs ...int) *G {
	n := 1
	for _, l := range legs {
		n += l
	}
	g := New(n)
	v := 1
	for _, l := range legs {
		prev := 0
		for k := 0; k < l; k++ {
			g.Add(prev, v)
			prev = v
			v++
		}
	}
	return g
}

func BinaryTree(levels int) *G {
	n := 1<<uint(levels) - 1
	g := New(n)
	for i := 1; i < n; i++ {
		g.Add(i, (i-1)/2)
	}
	return g
}

// Rand is the subset of hx.Rng that the random families need.
type Rand interface {
	Intn(n int) int
	Chance(num, den int) bool
	Perm(n int) []int
}

func RandomGnp(r Rand, n, num, den int) *G {
	g := New(n)
	for i := 0; i < n; i++ {
		for j := 0; j < i; j++ {
			if r.Chance(num, den) {
				g.Add(i, j)
			}
		}
	}
	return g
}

func RandomTree(r Rand, n int) *G {
	g := New(n)
	for i := 1; i < n; i++ {
		g.Add(i, r.Intn(i))
	}
	return g.Relabel(r.Perm(n))
}

// RandomRegular tries the pairing model a few times; it may return a graph that is only nearly regular.
func RandomRegular(r Rand, n, d int) *G {
	if n*d%2 == 1 {
		d--
	}
	var best *G
	for try := 0; try < 50; try++ {
		pts := make([]int, 0, n*d)
		for v := 0; v < n; v++ {
			for k := 0; k < d; k++ {
				pts = append(pts, v)
			}
		}
		p := r.Perm(len(pts))
		g := New(n)
		ok := true
		for i := 0; i+1 < len(p); i += 2 {
			a, b := pts[p[i]], pts[p[i+1]]
			if a == b || g.Adj[a][b] {
				ok = false
				continue
			}
			g.Add(a, b)
		}
		best = g
		if ok {
			return g
		}
	}
	return best
}

// RandomRegularSwitch returns a random simple d-regular graph on n vertices (d < n; when n*d is
// odd, d-1): the circulant with differences 1..d/2 (and n/2 for odd d) randomised by 10*m double
// edge switches ab, cd -> ac, bd.  Unlike the pairing model it always returns a regular graph.
func RandomRegularSwitch(r Rand, n, d int) *G {
	if d >= n {
		d = n - 1
	}
	if n*d%2 == 1 {
		d--
	}
	if d <= 0 {
		return New(n)
	}
	var diffs []int
	for k := 1; k <= d/2; k++ {
		diffs = append(diffs, k)
	}
	if d%2 == 1 {
		diffs = append(diffs, n/2)
	}
	g := Circulant(n, diffs...)
	var es [][2]int
	for i := 0; i < n; i++ {
		for j := i + 1; j < n; j++ {
			if g.Adj[i][j] {
				es = append(es, [2]int{i, j})
			}
		}
	}
	for it := 0; it < 10*len(es); it++ {
		x, y := r.Intn(len(es)), r.Intn(len(es))
		a, b, c, e := es[x][0], es[x][1], es[y][0], es[y][1]
		if r.Intn(2) == 0 {
			c, e = e, c
		}
		if x == y || a == c || b == e || a == e || b == c || g.Adj[a][c] || g.Adj[b][e] {
			continue
		}
		g.Del(a, b)
		g.Del(c, e)
		g.Add(a, c)
		g.Add(b, e)
		es[x] = [2]int{a, c}
		es[y] = [2]int{b, e}
	}
	return g
}

// Perturb flips k random pairs.
func Perturb(r Rand, g *G, k int) *G {
	h := g.Copy()
	if g.N < 2 {
		return h
	}
	for ; k > 0; k-- {
		i := r.Intn(g.N)
		j := r.Intn(g.N - 1)
		if j >= i {
			j++
		}
		if h.Adj[i][j] {
			h.Del(i, j)
		} else {
			h.Add(i, j)
		}
	}
	return h
}

// Structured returns the deterministic symmetric families with at most maxN vertices: regular,
// vertex-transitive, strongly regular graphs, cages, unions of equal components, trees, and the
// complements of all of them.
func Structured(maxN int) []Named {
	var out []Named
	add := func(fam, name string, g *G) {
		if g.N <= maxN {
			out = append(out, Named{Name: name, Family: fam, G: g})
		}
	}
	for n := 0; n <= maxN; n++ {
		add("complete", fmt.Sprintf("K%d", n), Complete(n))
		if n >= 3 {
			add("cycle", fmt.Sprintf("C%d", n), CycleG(n))
			add("wheel", fmt.Sprintf("W%d", n), Wheel(n))
		}
		if n >= 2 {
			add("tree", fmt.Sprintf("P%d", n), PathG(n))
			add("tree", fmt.Sprintf("S%d", n), StarG(n))
		}
	}
	// all circulants up to 10 vertices, a selection above
	for n := 4; n <= maxN; n++ {
		h := n / 2
		for mask := 1; mask < 1<<uint(h); mask++ {
			if n > 10 && (mask*7+n)%3 != 0 {
				continue
			}
			var d []int
			for b := 0; b < h; b++ {
				if mask>>uint(b)&1 == 1 {
					d = append(d, b+1)
				}
			}
			add("circulant", fmt.Sprintf("Ci%d%v", n, d), Circulant(n, d...))
		}
	}
	add("kneser", "Petersen", Kneser(5, 2))
	add("kneser", "K(6,2)", Kneser(6, 2))
	add("kneser", "K(6,3)", Kneser(6, 3))
	add("kneser", "K(7,2)", Kneser(7, 2))
	for n := 4; n <= 7; n++ {
		add("srg", fmt.Sprintf("T(%d)", n), Johnson(n, 2))
	}
	add("johnson", "J(6,3)", Johnson(6, 3))
	for d := 1; d <= 4; d++ {
		add("hypercube", fmt.Sprintf("Q%d", d), Hypercube(d))
	}
	add("hypercube", "FQ4", FoldedHypercube(4))
	add("srg", "Clebsch", FoldedHypercube(5))
	for a := 2; a <= 4; a++ {
		for b := a; b <= 8; b++ {
			add("rook", fmt.Sprintf("R%dx%d", a, b), Rook(a, b))
		}
	}
	for n := 3; n <= 10; n++ {
		for k := 1; 2*k < n; k++ {
			add("genpetersen", fmt.Sprintf("GP(%d,%d)", n, k), GenPetersen(n, k))
		}
	}
	for _, q := range []int{5, 13, 17} {
		add("srg", fmt.Sprintf("Paley%d", q), Paley(q))
	}
	add("srg", "Paley9", Rook(3, 3))
	add("srg", "Shrikhande", Shrikhande())
	add("cage", "K33", CompleteMultipartite(3, 3))
	add("cage", "K44", CompleteMultipartite(4, 4))
	add("cage", "Heawood", Heawood())
	for _, p := range [][]int{{1, 2}, {2, 2}, {2, 3}, {3, 3}, {2, 2, 2}, {3, 3, 3}, {2, 2, 2, 2}, {4, 4}, {5, 5}, {6, 6}, {4, 4, 4}, {1, 1, 4}, {2, 4, 6}, {3, 4, 5}, {2, 2, 2, 2, 2}, {2, 2, 2, 2, 2, 2}, {1, 5, 5}} {
		add("multipartite", fmt.Sprintf("K%v", p), CompleteMultipartite(p...))
	}
	// products
	for a := 3; a <= 5; a++ {
		for b := a; b <= 5; b++ {
			add("product", fmt.Sprintf("C%dxC%d", a, b), Product(CycleG(a), CycleG(b)))
		}
		add("product", fmt.Sprintf("C%dxK2", a), Product(CycleG(a), Complete(2)))
		add("product", fmt.Sprintf("C%dxP3", a), Product(CycleG(a), PathG(3)))
		add("product", fmt.Sprintf("K%dxP3", a), Product(Complete(a), PathG(3)))
	}
	add("product", "PetersenLine", LineGraph(Kneser(5, 2)))
	add("product", "LQ3", LineGraph(Hypercube(3)))
	add("product", "LK33", LineGraph(CompleteMultipartite(3, 3)))
	add("product", "LK34", LineGraph(CompleteMultipartite(3, 4)))
	// disjoint unions of equal components
	comps := []Named{{"K1", "", Complete(1)}, {"K2", "", Complete(2)}, {"K3", "", Complete(3)}, {"K4", "", Complete(4)}, {"C4", "", CycleG(4)}, {"C5", "", CycleG(5)},
		{"C6", "", CycleG(6)}, {"P3", "", PathG(3)}, {"P4", "", PathG(4)}, {"S4", "", StarG(4)}, {"K33", "", CompleteMultipartite(3, 3)}, {"Q3", "", Hypercube(3)},
		{"Pet", "", Kneser(5, 2)}, {"K23", "", CompleteMultipartite(2, 3)}, {"W5", "", Wheel(5)}, {"K5", "", Complete(5)}, {"K6", "", Complete(6)}, {"C7", "", CycleG(7)}, {"Pr3", "", Product(CycleG(3), Complete(2))}}
	for _, c := range comps {
		for k := 2; k*c.G.N <= maxN && k <= 6; k++ {
			add("union", fmt.Sprintf("%d%s", k, c.Name), Copies(k, c.G))
		}
	}
	// unions of two different symmetric parts and of equal parts plus isolated vertices
	add("union", "C3+C4", Union(CycleG(3), CycleG(4)))
	add("union", "C4+C4+K1", Union(CycleG(4), CycleG(4), Complete(1)))
	add("union", "C6+2C3", Union(CycleG(6), CycleG(3), CycleG(3)))
	add("union", "K33+Pr3", Union(CompleteMultipartite(3, 3), Product(CycleG(3), Complete(2))))
	add("union", "Q3+2C4", Union(Hypercube(3), CycleG(4), CycleG(4)))
	add("union", "C5+Pet", Union(CycleG(5), Kneser(5, 2)))
	add("union", "C8+Q3", Union(CycleG(8), Hypercube(3)))
	add("union", "2K2+2K1", Union(Complete(2), Complete(2), Complete(1), Complete(1)))
	add("union", "3K2+3K1", Union(Copies(3, Complete(2)), New(3)))
	// trees
	for _, l := range [][]int{{1, 1, 1}, {2, 2}, {2, 2, 2}, {1, 2, 3}, {3, 3, 3}, {2, 2, 2, 2}, {1, 1, 2, 2}, {3, 3}, {1, 1, 1, 1, 1, 2}, {4, 4, 4}, {2, 2, 3, 3}, {1, 2, 2, 3, 3}} {
		add("tree", fmt.Sprintf("Spider%v", l), Spider(l...))
	}
	add("tree", "B3", BinaryTree(3))
	add("tree", "B4", BinaryTree(4))
	for k := 1; k <= 6; k++ {
		add("friendship", fmt.Sprintf("F%d", k), Friendship(k))
	}
	// complements
	base := len(out)
	for i := 0; i < base; i++ {
		add(out[i].Family, "co-"+out[i].Name, out[i].G.Complement())
	}
	return out
}
