package main

// Hardening pass (notes/C01.md, "Hardening pass: dimensions"): case kinds that present the SAME
// labelled graph in every way the API allows, re-use caller-owned storage across sizes, hold and
// re-validate results of successive calls, scribble over inputs after the call, run sequences in
// one process across a recovered panic and from inside the Neighbours callback of a user-defined
// Graph, and label graphs with vertex classes of particular shapes.  All of them are oracle-only
// (the model driver prints "ok"): the reference of every check is the canonical graph obtained by
// a fresh graph.CanonicalIsomorph on a fresh NewDense 0/1 copy of the same labelled graph.
//
//	x[:fam];<graph6>;<scenario> seed=<u64>     scenario in prov, reuse, alias, hidden
//	k[:fam];<graph6>;cls=<classes> seed=<u64> count=<relabellings>

import (
	"fmt"
	"sort"
	"strconv"
	"strings"

	"github.com/Tom-Johnston/mamba/graph"
	cx "verifharness/cmd/c01/canonx"
	"verifharness/hx"
)

// ---------------------------------------------------------------- presentations of one labelled graph

// userGraph is an implementation of graph.Graph from outside the library; the interface does
// not promise an order of Neighbours, so mode 1 returns them descending and mode 2 rotated.
type userGraph struct {
	g    *cx.G
	mode int
	hook func(v int) // called at the start of Neighbours(v) when not nil
}

func (u userGraph) N() int { return u.g.N }
func (u userGraph) M() int { return u.g.M() }
func (u userGraph) IsEdge(i, j int) bool {
	return u.g.Adj[i][j]
}
func (u userGraph) Neighbours(v int) []int {
	if u.hook != nil {
		u.hook(v)
	}
	var nb []int
	for j := 0; j < u.g.N; j++ {
		if u.g.Adj[v][j] {
			nb = append(nb, j)
		}
	}
	switch u.mode {
	case 1:
		for i, j := 0, len(nb)-1; i < j; i, j = i+1, j-1 {
			nb[i], nb[j] = nb[j], nb[i]
		}
	case 2:
		if len(nb) > 1 {
			k := (v + 1) % len(nb)
			nb = append(append([]int{}, nb[k:]...), nb[:k]...)
		}
	}
	if nb == nil {
		nb = []int{}
	}
	return nb
}
func (u userGraph) Degrees() []int {
	d := make([]int, u.g.N)
	for v := range d {
		d[v] = u.g.Degree(v)
	}
	return d
}

type presented struct {
	name string
	h    graph.Graph
}

// presents the abstract value exactly: N, M, IsEdge on every ordered pair, Neighbours as a set
// without repetition, Degrees.  A presentation that fails the guard is not used (that would be a
// defect of the constructor or view, another property).
func presentsExactly(h graph.Graph, g *cx.G) (ok bool) {
	defer func() {
		if recover() != nil {
			ok = false
		}
	}()
	n := g.N
	if h.N() != n || h.M() != g.M() {
		return false
	}
	deg := h.Degrees()
	if len(deg) != n {
		return false
	}
	for i := 0; i < n; i++ {
		for j := 0; j < n; j++ {
			if i != j && h.IsEdge(i, j) != g.Adj[i][j] {
				return false
			}
		}
		nb := cx.SortedCopy(h.Neighbours(i))
		k := 0
		for j := 0; j < n; j++ {
			if g.Adj[i][j] {
				if k >= len(nb) || nb[k] != j {
					return false
				}
				k++
			}
		}
		if k != len(nb) || deg[i] != k {
			return false
		}
	}
	return true
}

// super-graph of g with extra vertices at the positions in extra (sorted positions in the new
// numbering), joined at random; returns it and the list V of the positions of g's vertices
func withExtras(g *cx.G, r *hx.Rng, k int) (*cx.G, []int) {
	n := g.N
	pos := r.Perm(n + k)[:k]
	sort.Ints(pos)
	isExtra := make([]bool, n+k)
	for _, p := range pos {
		isExtra[p] = true
	}
	V := make([]int, 0, n)
	for i := 0; i < n+k; i++ {
		if !isExtra[i] {
			V = append(V, i)
		}
	}
	h := cx.New(n + k)
	for i := 0; i < n; i++ {
		for j := 0; j < i; j++ {
			if g.Adj[i][j] {
				h.Add(V[i], V[j])
			}
		}
	}
	for _, p := range pos {
		for q := 0; q < n+k; q++ {
			if q != p && r.Intn(2) == 0 {
				h.Add(p, q)
			}
		}
	}
	return h, V
}

// an edit history ending in g: vertices appended one by one (AddVertex with the neighbours among
// the earlier ones), a junk vertex inserted in the middle and removed again (RemoveVertex shifts
// the indices), junk edges added and removed, an edge removed and added back
func edited(e graph.EditableGraph, g *cx.G, r *hx.Rng) graph.EditableGraph {
	n := g.N
	junkAt := -1
	if n >= 2 {
		junkAt = 1 + r.Intn(n-1)
	}
	for v := 0; v < n; v++ {
		if v == junkAt {
			var nb []int
			for u := 0; u < v; u++ {
				if r.Intn(2) == 0 {
					nb = append(nb, u)
				}
			}
			e.AddVertex(nb)
		}
		var nb []int
		for u := 0; u < v; u++ {
			if g.Adj[u][v] {
				if junkAt >= 0 && v >= junkAt && u >= junkAt {
					nb = append(nb, u+1)
				} else {
					nb = append(nb, u)
				}
			}
		}
		e.AddVertex(nb)
	}
	if junkAt >= 0 {
		e.RemoveVertex(junkAt)
	}
	for t := 0; t < 2*n; t++ {
		if n < 2 {
			break
		}
		i, j := r.Intn(n), r.Intn(n)
		if i == j {
			continue
		}
		if g.Adj[i][j] {
			e.RemoveEdge(i, j)
			e.AddEdge(j, i)
			e.AddEdge(i, j) // already present: no effect
		} else {
			e.AddEdge(i, j)
			e.RemoveEdge(j, i)
			e.RemoveEdge(i, j) // already absent: no effect
		}
	}
	return e
}

func presentations(g *cx.G, r *hx.Rng) []presented {
	n := g.N
	var out []presented
	add := func(name string, f func() graph.Graph) {
		var h graph.Graph
		if msg := guard(func() { h = f() }); msg != "" || h == nil {
			return
		}
		out = append(out, presented{name, h})
	}
	add("dense", func() graph.Graph { return g.Dense() })
	add("sparse", func() graph.Graph { return g.Sparse() })
	add("dense-bytes", func() graph.Graph {
		e := make([]byte, n*(n-1)/2)
		k := 0
		vals := []byte{1, 2, 3, 0x7f, 0x80, 0xff, 0x10, 0xfe}
		for j := 1; j < n; j++ {
			for i := 0; i < j; i++ {
				if g.Adj[i][j] {
					e[k] = vals[r.Intn(len(vals))]
				}
				k++
			}
		}
		return graph.NewDense(n, e)
	})
	add("dense-copy", func() graph.Graph { return g.Dense().Copy() })
	add("sparse-copy", func() graph.Graph { return g.Sparse().Copy() })
	sup, V := withExtras(g, r, 1+r.Intn(3))
	add("dense-induced", func() graph.Graph { return sup.Dense().InducedSubgraph(V) })
	add("sparse-induced", func() graph.Graph { return sup.Sparse().InducedSubgraph(V) })
	add("view-induced-dense", func() graph.Graph { return graph.InducedSubgraph(sup.Dense(), V) })
	add("view-induced-sparse", func() graph.Graph { return graph.InducedSubgraph(sup.Sparse(), V) })
	add("view-complement", func() graph.Graph { return graph.Complement(graph.ComplementDense(g.Dense())) })
	add("view-complement-nested", func() graph.Graph { return graph.Complement(graph.Complement(g.Sparse())) })
	add("view-complement-induced", func() graph.Graph {
		return graph.Complement(graph.InducedSubgraph(graph.ComplementDense(sup.Dense()), V))
	})
	add("dense-edited", func() graph.Graph { return edited(graph.NewDense(0, nil), g, r) })
	add("sparse-edited", func() graph.Graph { return edited(graph.NewSparse(0, nil), g, r) })
	add("dense-edited-copy", func() graph.Graph { return edited(graph.NewDense(0, nil), g, r).Copy() })
	add("graph6-decode", func() graph.Graph {
		h, err := graph.Graph6Decode(g.Graph6())
		if err != nil {
			return nil
		}
		return h
	})
	add("sparse6-decode", func() graph.Graph {
		h, err := graph.Sparse6Decode(graph.Sparse6Encode(g.Dense()))
		if err != nil {
			return nil
		}
		return h
	})
	if n >= 1 && n <= 250 {
		add("multicode-decode", func() graph.Graph { return graph.MulticodeDecode(graph.MulticodeEncode(g.Dense())) })
	}
	add("user-ascending", func() graph.Graph { return userGraph{g: g} })
	add("user-descending", func() graph.Graph { return userGraph{g: g, mode: 1} })
	add("user-rotated", func() graph.Graph { return userGraph{g: g, mode: 2} })
	return out
}

// ---------------------------------------------------------------- helpers

type hardCheck struct {
	g    *cx.G
	g6   string
	key0 string
	viol []hx.OracleViolation
	line string
	seen map[string]bool
}

func (c *hardCheck) fail(kind, format string, a ...interface{}) {
	if c.seen[kind] || len(c.viol) >= 4 {
		return
	}
	c.seen[kind] = true
	v := hx.Fail("C01:"+kind+":"+c.g6, format, a...)
	v.Case = c.line
	c.viol = append(c.viol, v)
}

// canonical graph of gr (a labelled graph of the harness) from a result permutation
func keyOf(gr *cx.G, perm []int) string {
	if !cx.IsPerm(perm, gr.N) {
		return fmt.Sprintf("not a permutation %v", perm)
	}
	return gr.RelabelledGraph6(perm)
}

func freshKey(gr *cx.G) (key string, msg string) {
	var perm []int
	if m := guard(func() { perm = graph.CanonicalIsomorph(gr.Dense()) }); m != "" {
		return "", m
	}
	return keyOf(gr, perm), ""
}

func neighbourLists(gr *cx.G) [][]int {
	nb := gr.Neighbours()
	for i := range nb {
		if nb[i] == nil {
			nb[i] = []int{}
		}
	}
	return nb
}

// the graphs derived from g used by the sequences: sizes going down and up, sparse and dense
func derived(g *cx.G, r *hx.Rng) []*cx.G {
	n := g.N
	sub := func(k int) *cx.G {
		p := r.Perm(n)[:k]
		h := cx.New(k)
		for i := 0; i < k; i++ {
			for j := 0; j < i; j++ {
				if g.Adj[p[i]][p[j]] {
					h.Add(i, j)
				}
			}
		}
		return h
	}
	out := []*cx.G{g}
	for _, k := range []int{n - 1, n / 2, 2, 1, n/2 + 1, n} {
		if k >= 1 && k <= n {
			out = append(out, sub(k))
		}
	}
	out = append(out, g.Complement(), cx.New(n), g.Relabel(r.Perm(n)), sub(max(1, n-2)).Complement(), g)
	return out
}

func max(a, b int) int {
	if a > b {
		return a
	}
	return b
}

// ---------------------------------------------------------------- mode x

func execX(fam, g6 string, toks []string, line string) hx.Result {
	g, err := cx.FromGraph6(g6)
	if err != nil || len(toks) == 0 {
		return hx.Result{Obs: "badcase"}
	}
	var seed uint64 = 1
	scenario := toks[0]
	for _, t := range toks[1:] {
		if strings.HasPrefix(t, "seed=") {
			seed, _ = strconv.ParseUint(t[5:], 10, 64)
		}
	}
	c := &hardCheck{g: g, g6: g6, line: line, seen: map[string]bool{}}
	key0, msg := freshKey(g)
	if msg != "" {
		c.fail("panic", "CanonicalIsomorph(%s) panicked: %s", g6, msg)
		return hx.Result{Obs: "ok", Buckets: []string{bucket(g.N), "mode:x", "scenario:" + scenario}, Viol: c.viol}
	}
	c.key0 = key0
	r := hx.NewRng(seed)
	b := []string{bucket(g.N), "mode:x", "scenario:" + scenario}
	if fam != "" {
		b = append(b, "family:"+fam)
	}
	nontrivial := g.N >= 2
	if g.N == 0 && scenario != "prov" {
		// the sequences are built from subgraphs with at least one vertex
		return hx.Result{Obs: "ok", Buckets: b}
	}
	switch scenario {
	case "prov":
		b = append(b, c.provenance(r)...)
	case "reuse":
		c.reuse(r)
	case "alias":
		c.alias(r)
	case "hidden":
		c.hidden(r)
	default:
		return hx.Result{Obs: "badcase"}
	}
	return hx.Result{Obs: "ok", Nontrivial: nontrivial, Buckets: b, Viol: c.viol}
}

// dimension 4 and 12: every presentation of the same labelled graph has the same canonical graph,
// through CanonicalIsomorph, CanonicalIsomorphFull and CanonicalIsomorphAllocated
func (c *hardCheck) provenance(r *hx.Rng) []string {
	g, n := c.g, c.g.N
	var buckets []string
	for _, p := range presentations(g, r) {
		if !presentsExactly(p.h, g) {
			buckets = append(buckets, "guard-rejected:"+p.name)
			continue
		}
		buckets = append(buckets, "presented:"+p.name)
		var perm, perm2 []int
		if msg := guard(func() {
			perm = graph.CanonicalIsomorph(p.h)
			perm2, _, _ = graph.CanonicalIsomorphFull(p.h, nil)
		}); msg != "" {
			c.fail("provenance-panic", "canonical labelling of %s presented as %s panicked: %s", c.g6, p.name, msg)
			continue
		}
		if k := keyOf(g, perm); k != c.key0 {
			c.fail("provenance", "canonical graph of %s is %s, but presented as %s CanonicalIsomorph gives %s", c.g6, c.key0, p.name, k)
		}
		if k := keyOf(g, perm2); k != c.key0 {
			c.fail("provenance", "canonical graph of %s is %s, but presented as %s CanonicalIsomorphFull gives %s", c.g6, c.key0, p.name, k)
		}
		// the presentation is still the same graph afterwards
		if !presentsExactly(p.h, g) {
			c.fail("provenance-modified", "the %s presentation of %s no longer presents the graph after it was labelled", p.name, c.g6)
		}
	}
	// neighbour lists from another producer handed to CanonicalIsomorphAllocated: descending, and
	// twins sharing one slice
	if n >= 1 {
		nb := neighbourLists(g)
		for i := range nb {
			for a, z := 0, len(nb[i])-1; a < z; a, z = a+1, z-1 {
				nb[i][a], nb[i][z] = nb[i][z], nb[i][a]
			}
		}
		for i := 0; i < n; i++ {
			for j := 0; j < i; j++ {
				if !g.Adj[i][j] && fmt.Sprint(nb[i]) == fmt.Sprint(nb[j]) {
					nb[i] = nb[j]
				}
			}
		}
		m := g.M()
		var perm []int
		if msg := guard(func() {
			perm, _, _ = graph.CanonicalIsomorphAllocated(n, m, nb, graph.NewOrderedPartition(n, m, nil), graph.NewStorage(n, m), new(graph.CanonicalOptions))
		}); msg != "" {
			c.fail("provenance-panic", "CanonicalIsomorphAllocated on descending neighbour lists of %s panicked: %s", c.g6, msg)
		} else if k := keyOf(g, perm); k != c.key0 {
			c.fail("provenance", "canonical graph of %s is %s, but CanonicalIsomorphAllocated on descending neighbour lists (twins sharing a slice) gives %s", c.g6, c.key0, k)
		}
	}
	return buckets
}

// dimension 5: ONE partition and ONE storage, allocated for the largest graph, Reset before every
// call, through graphs whose sizes go down and up; every result against a fresh call
func (c *hardCheck) reuse(r *hx.Rng) {
	gs := derived(c.g, r)
	maxN, maxM := 1, 0
	for _, h := range gs {
		if h.N > maxN {
			maxN = h.N
		}
		if h.M() > maxM {
			maxM = h.M()
		}
	}
	// sometimes more capacity than needed
	maxN += r.Intn(3)
	maxM += r.Intn(4)
	op := graph.NewOrderedPartition(maxN, maxM, nil)
	st := graph.NewStorage(maxN, maxM)
	opts := new(graph.CanonicalOptions)
	for i, h := range gs {
		want, msg := freshKey(h)
		if msg != "" {
			c.fail("panic", "CanonicalIsomorph(%s) panicked: %s", h.Graph6(), msg)
			return
		}
		var perm []int
		if msg := guard(func() {
			op.Reset(h.N, h.M(), nil)
			perm, _, _ = graph.CanonicalIsomorphAllocated(h.N, h.M(), neighbourLists(h), op, st, opts)
		}); msg != "" {
			c.fail("reuse-panic", "step %d of a sequence on one reset partition and one storage (capacity n=%d m=%d): CanonicalIsomorphAllocated(%s) panicked: %s", i, maxN, maxM, h.Graph6(), msg)
			return
		}
		if k := keyOf(h, perm); k != want {
			c.fail("reuse", "step %d of a sequence on one reset partition and one storage (capacity n=%d m=%d): canonical graph of %s is %s, a fresh call gives %s", i, maxN, maxM, h.Graph6(), k, want)
			return
		}
	}
}

// dimensions 6 and 7: the permutations returned by successive calls are held at the same time
// and re-validated after every later call; the caller's inputs (vertex classes, neighbour lists)
// are overwritten after the call before the result is looked at
func (c *hardCheck) alias(r *hx.Rng) {
	gs := derived(c.g, r)
	type held struct {
		h    *cx.G
		perm []int
		copy []int
		what string
	}
	var hs []held
	recheck := func(step int) {
		for _, x := range hs {
			if fmt.Sprint(x.perm) != fmt.Sprint(x.copy) {
				c.fail("result-aliasing", "the permutation returned by %s for %s was %v and reads %v after %d later calls", x.what, x.h.Graph6(), x.copy, x.perm, step)
				return
			}
		}
	}
	for i, h := range gs {
		n, m := h.N, h.M()
		var perm []int
		what := ""
		msg := guard(func() {
			switch i % 4 {
			case 0:
				what = "CanonicalIsomorph(dense)"
				perm = graph.CanonicalIsomorph(h.Dense())
			case 1:
				what = "CanonicalIsomorph(sparse)"
				perm = graph.CanonicalIsomorph(h.Sparse())
			case 2:
				what = "CanonicalIsomorphFull(dense, one class) with the class overwritten afterwards"
				cls := [][]int{r.Perm(n)}
				perm, _, _ = graph.CanonicalIsomorphFull(h.Dense(), cls)
				for j := range cls[0] {
					cls[0][j] = 0
				}
				cls[0] = nil
			default:
				what = "CanonicalIsomorphAllocated (own partition and storage) with the neighbour lists overwritten afterwards"
				nb := neighbourLists(h)
				perm, _, _ = graph.CanonicalIsomorphAllocated(n, m, nb, graph.NewOrderedPartition(n, m, nil), graph.NewStorage(n, m), new(graph.CanonicalOptions))
				for a := range nb {
					for b := range nb[a] {
						nb[a][b] = -1
					}
					nb[a] = nil
				}
			}
		})
		if msg != "" {
			c.fail("panic", "%s of %s panicked: %s", what, h.Graph6(), msg)
			return
		}
		want, _ := freshKey(h)
		if k := keyOf(h, perm); k != want {
			c.fail("input-aliasing", "%s: canonical graph of %s is %s, a fresh call gives %s", what, h.Graph6(), k, want)
			return
		}
		hs = append(hs, held{h, perm, append([]int(nil), perm...), what})
		recheck(i)
	}
	// scribbling over a returned permutation must not influence later calls
	for _, x := range hs {
		for j := range x.perm {
			x.perm[j] = -7
		}
	}
	if k, msg := freshKey(c.g); msg != "" || k != c.key0 {
		c.fail("result-aliasing", "after the caller overwrote the permutations returned earlier, CanonicalIsomorph(%s) gives %s %s instead of %s", c.g6, k, msg, c.key0)
	}
}

// dimension 8: calls in one process judged as if in fresh state: after a recovered panic (Reset
// beyond the capacity, a partition that is too small, a user-defined Graph whose Neighbours
// panics half way), and a labelling started from inside the Neighbours callback of another one
func (c *hardCheck) hidden(r *hx.Rng) {
	g, n := c.g, c.g.N
	again := func(when string) bool {
		k, msg := freshKey(g)
		if msg != "" || k != c.key0 {
			c.fail("hidden-state", "%s, CanonicalIsomorph(%s) gives %s %s instead of %s", when, c.g6, k, msg, c.key0)
			return false
		}
		var perm []int
		if m := guard(func() { perm = graph.CanonicalIsomorph(g.Sparse()) }); m != "" || keyOf(g, perm) != c.key0 {
			c.fail("hidden-state", "%s, CanonicalIsomorph(sparse %s) gives %s %s instead of %s", when, c.g6, keyOf(g, perm), m, c.key0)
			return false
		}
		return true
	}
	// 1. documented panic of Reset, recovered
	if n >= 1 {
		op := graph.NewOrderedPartition(n, g.M(), nil)
		guard(func() { op.Reset(n+3, g.M(), nil) })
		if !again("after a recovered panic of Reset beyond the capacity") {
			return
		}
	}
	// 2. a user-defined graph whose Neighbours panics half way through the set-up
	if n >= 2 {
		at := r.Intn(n)
		u := userGraph{g: g, hook: func(v int) {
			if v == at {
				panic("user graph: Neighbours failed")
			}
		}}
		guard(func() { graph.CanonicalIsomorph(u) })
		if !again("after a labelling that was abandoned by a panic inside the caller's Neighbours") {
			return
		}
	}
	// 3. a labelling of another graph (and of the same graph) from inside the callback
	if n >= 1 {
		others := derived(g, r)
		inner := map[int]string{}
		var innerMsg string
		depth := 0
		u := userGraph{g: g, mode: r.Intn(3)}
		u.hook = func(v int) {
			if depth > 0 {
				return
			}
			depth++
			defer func() { depth-- }()
			h := others[v%len(others)]
			var perm []int
			if m := guard(func() {
				if v%2 == 0 {
					perm = graph.CanonicalIsomorph(h.Dense())
				} else {
					perm = graph.CanonicalIsomorph(userGraph{g: h, mode: 1})
				}
			}); m != "" {
				innerMsg = m
				return
			}
			inner[v%len(others)] = keyOf(h, perm)
		}
		var perm []int
		if m := guard(func() { perm = graph.CanonicalIsomorph(u) }); m != "" {
			c.fail("reentrancy", "CanonicalIsomorph of %s panicked when its Neighbours callback labelled other graphs: %s", c.g6, m)
			return
		}
		if k := keyOf(g, perm); k != c.key0 {
			c.fail("reentrancy", "canonical graph of %s is %s, but %s when other graphs are labelled from inside its Neighbours callback", c.g6, c.key0, k)
			return
		}
		if innerMsg != "" {
			c.fail("reentrancy", "a labelling started from inside the Neighbours callback of another labelling panicked: %s", innerMsg)
			return
		}
		for i, k := range inner {
			if want, _ := freshKey(others[i]); want != k {
				c.fail("reentrancy", "canonical graph of %s computed inside the Neighbours callback of a labelling of %s is %s, a fresh call gives %s", others[i].Graph6(), c.g6, k, want)
				return
			}
		}
		again("after nested labellings")
	}
}

// ---------------------------------------------------------------- mode k: vertex classes

// canonical form with classes: the relabelled graph and, for every position, the index of the
// class of the vertex placed there
func classKey(g *cx.G, cls [][]int, perm []int) string {
	if !cx.IsPerm(perm, g.N) {
		return fmt.Sprintf("not a permutation %v", perm)
	}
	co := cx.ClassOf(g.N, cls)
	s := make([]string, g.N)
	for i, v := range perm {
		s[i] = strconv.Itoa(co[v])
	}
	return g.RelabelledGraph6(perm) + " classes " + strings.Join(s, ",")
}

func execK(fam, g6 string, toks []string, line string) hx.Result {
	g, err := cx.FromGraph6(g6)
	if err != nil {
		return hx.Result{Obs: "badcase"}
	}
	n := g.N
	var cls [][]int
	var seed uint64 = 1
	count := 10
	for _, t := range toks {
		switch {
		case strings.HasPrefix(t, "cls="):
			cls, err = cx.ParseClasses(t[4:])
			if err != nil {
				return hx.Result{Obs: "badcase"}
			}
		case strings.HasPrefix(t, "seed="):
			seed, _ = strconv.ParseUint(t[5:], 10, 64)
		case strings.HasPrefix(t, "count="):
			count, _ = strconv.Atoi(t[6:])
		}
	}
	if cls == nil {
		return hx.Result{Obs: "badcase"}
	}
	seenV := make([]bool, n)
	tot := 0
	for _, cl := range cls {
		if len(cl) == 0 {
			return hx.Result{Obs: "badcase"}
		}
		for _, v := range cl {
			if v < 0 || v >= n || seenV[v] {
				return hx.Result{Obs: "badcase"}
			}
			seenV[v] = true
			tot++
		}
	}
	if tot != n {
		return hx.Result{Obs: "badcase"}
	}
	c := &hardCheck{g: g, g6: g6, line: line, seen: map[string]bool{}}
	label := func(h *cx.G, cl [][]int, sparse bool) (string, string) {
		var perm []int
		msg := guard(func() {
			if sparse {
				perm, _, _ = graph.CanonicalIsomorphFull(h.Sparse(), copyClasses(cl))
			} else {
				perm, _, _ = graph.CanonicalIsomorphFull(h.Dense(), copyClasses(cl))
			}
		})
		if msg != "" {
			return "", msg
		}
		return classKey(h, cl, perm), ""
	}
	b := []string{bucket(n), "mode:k", fmt.Sprintf("classes:%d", len(cls))}
	if fam != "" {
		b = append(b, "family:"+fam)
	}
	key0, msg := label(g, cls, false)
	if msg != "" {
		c.fail("classes-panic", "CanonicalIsomorphFull(%s, %s) panicked: %s", g6, cx.ClassesString(cls), msg)
		return hx.Result{Obs: "ok", Buckets: b, Viol: c.viol}
	}
	if strings.HasPrefix(key0, "not a permutation") {
		c.fail("classes-notperm", "CanonicalIsomorphFull(%s, %s): %s", g6, cx.ClassesString(cls), key0)
		return hx.Result{Obs: "ok", Buckets: b, Viol: c.viol}
	}
	r := hx.NewRng(seed)
	for k := 0; k < count && len(c.viol) == 0; k++ {
		p := r.Perm(n)
		if k == 0 {
			p = cx.Identity(n)
		}
		h := g.Relabel(p)
		cl2 := cx.RelabelClasses(cls, p, k)
		key, msg := label(h, cl2, k%2 == 1)
		if msg != "" {
			c.fail("classes-panic", "CanonicalIsomorphFull panicked on the copy of %s relabelled by %v with classes %s: %s", g6, p, cx.ClassesString(cl2), msg)
		} else if key != key0 {
			c.fail("classes-noninvariant", "canonical form of %s with classes %s is %s, but the copy relabelled by %v (classes %s, sparse=%v) has %s", g6, cx.ClassesString(cls), key0, p, cx.ClassesString(cl2), k%2 == 1, key)
		}
	}
	return hx.Result{Obs: "ok", Nontrivial: n >= 2 && len(cls) >= 1, Buckets: b, Viol: c.viol}
}

// ---------------------------------------------------------------- generator

// vertex classes of the shapes that matter to the search: by degree ascending / descending,
// twin pairs as a class, singleton classes at the front / back, random
func classShapes(g *hx.Gen, gr *cx.G, twins [][2]int) [][][]int {
	n := gr.N
	byDeg := func(desc bool) [][]int {
		m := map[int][]int{}
		var ds []int
		for v := 0; v < n; v++ {
			d := gr.Degree(v)
			if _, ok := m[d]; !ok {
				ds = append(ds, d)
			}
			m[d] = append(m[d], v)
		}
		sort.Ints(ds)
		if desc {
			for i, j := 0, len(ds)-1; i < j; i, j = i+1, j-1 {
				ds[i], ds[j] = ds[j], ds[i]
			}
		}
		var out [][]int
		for _, d := range ds {
			out = append(out, m[d])
		}
		return out
	}
	// the twins as one class each, the rest split by a predicate, in the given order
	withTwins := func(front bool, restDesc bool) [][]int {
		isTwin := make([]bool, n)
		var tw [][]int
		for _, t := range twins {
			if !isTwin[t[0]] && !isTwin[t[1]] {
				isTwin[t[0]], isTwin[t[1]] = true, true
				tw = append(tw, []int{t[0], t[1]})
			}
		}
		var rest []int
		for v := 0; v < n; v++ {
			if !isTwin[v] {
				rest = append(rest, v)
			}
		}
		sort.SliceStable(rest, func(a, b int) bool {
			if restDesc {
				return gr.Degree(rest[a]) > gr.Degree(rest[b])
			}
			return gr.Degree(rest[a]) < gr.Degree(rest[b])
		})
		var parts [][]int
		if len(rest) > 0 {
			cut := g.Rng.Intn(len(rest) + 1)
			if cut > 0 {
				parts = append(parts, rest[:cut])
			}
			if cut < len(rest) {
				parts = append(parts, rest[cut:])
			}
		}
		if front {
			return append(tw, parts...)
		}
		return append(parts, tw...)
	}
	singletons := func(front bool) [][]int {
		p := g.Rng.Perm(n)
		k := 1 + g.Rng.Intn(3)
		if k >= n {
			k = n - 1
		}
		if k < 1 {
			return [][]int{p}
		}
		var out [][]int
		if !front {
			out = append(out, p[k:])
		}
		for _, v := range p[:k] {
			out = append(out, []int{v})
		}
		if front {
			out = append(out, p[k:])
		}
		return out
	}
	// two or three classes cut out of the degree order at random thresholds: the high degrees first
	// and a class of low-degree vertices after them, or the other way round
	degSplit := func(desc bool) [][]int {
		vs := make([]int, n)
		for i := range vs {
			vs[i] = i
		}
		sort.SliceStable(vs, func(a, b int) bool {
			if desc {
				return gr.Degree(vs[a]) > gr.Degree(vs[b])
			}
			return gr.Degree(vs[a]) < gr.Degree(vs[b])
		})
		// cut only between different degrees
		var cuts []int
		for i := 1; i < n; i++ {
			if gr.Degree(vs[i]) != gr.Degree(vs[i-1]) {
				cuts = append(cuts, i)
			}
		}
		if len(cuts) == 0 {
			return [][]int{vs}
		}
		k := 1 + g.Rng.Intn(2)
		chosen := map[int]bool{}
		for ; k > 0; k-- {
			chosen[cuts[g.Rng.Intn(len(cuts))]] = true
		}
		var out [][]int
		start := 0
		for i := 1; i <= n; i++ {
			if i == n || chosen[i] {
				out = append(out, append([]int(nil), vs[start:i]...))
				start = i
			}
		}
		return out
	}
	shapes := [][][]int{byDeg(false), byDeg(true), singletons(true), singletons(false), degSplit(true), degSplit(true), degSplit(false)}
	if len(twins) > 0 {
		shapes = append(shapes, withTwins(true, false), withTwins(false, false), withTwins(false, true), withTwins(true, true))
	}
	// a random ordered partition into 2..4 classes
	k := 2 + g.Rng.Intn(3)
	if k > n {
		k = n
	}
	rc := make([][]int, k)
	for i, v := range g.Rng.Perm(n) {
		j := i
		if i >= k {
			j = g.Rng.Intn(k)
		}
		rc[j] = append(rc[j], v)
	}
	return append(shapes, rc)
}

// gr with t twin pairs added: a new vertex with the same neighbourhood as an existing one,
// adjacent to it or not
func addTwins(g *hx.Gen, gr *cx.G, t int) (*cx.G, [][2]int) {
	var twins [][2]int
	for ; t > 0; t-- {
		n := gr.N
		v := g.Rng.Intn(n)
		h := cx.New(n + 1)
		for i := 0; i < n; i++ {
			for j := 0; j < i; j++ {
				if gr.Adj[i][j] {
					h.Add(i, j)
				}
			}
			if gr.Adj[v][i] {
				h.Add(n, i)
			}
		}
		if g.Rng.Bool() {
			h.Add(n, v)
		}
		gr = h
		twins = append(twins, [2]int{v, n})
	}
	return gr, twins
}

func genHarden(g *hx.Gen) {
	seedTok := func() string { return fmt.Sprintf("seed=%d", g.Rng.U64()>>1) }
	scenarios := []string{"prov", "reuse", "alias", "hidden"}
	emitX := func(fam string, gr *cx.G, sc string) {
		g.Emit("x:" + fam + ";" + gr.Graph6() + ";" + sc + " " + seedTok())
	}
	// the corpus and every labelled graph on at most 3 vertices through every scenario
	for _, s := range []string{"G|WW}K", "GhcqSK", "KOD[fB~~qOCO"} {
		for _, sc := range scenarios {
			emitX("corpus", cx.MustGraph6(s), sc)
		}
	}
	for n := 0; n <= 3; n++ {
		e := n * (n - 1) / 2
		for mask := 0; mask < 1<<uint(e); mask++ {
			gr := cx.New(n)
			k := 0
			for j := 1; j < n; j++ {
				for i := 0; i < j; i++ {
					if mask>>uint(k)&1 == 1 {
						gr.Add(i, j)
					}
					k++
				}
			}
			for _, sc := range scenarios {
				emitX("labelled", gr, sc)
			}
		}
	}
	// structured and random graphs, sizes around the thresholds 8, 16, 32, 64
	str := cx.Structured(g.Pick(12, 16))
	for i := 0; i < g.Pick(300, 2500); i++ {
		var gr *cx.G
		fam := "random"
		switch g.Rng.Intn(4) {
		case 0:
			ng := str[g.Rng.Intn(len(str))]
			gr, fam = ng.G, ng.Family
		case 1:
			n := []int{7, 8, 9, 15, 16, 17, 31, 32, 33, 63, 64, 65}[g.Rng.Intn(12)]
			gr = cx.RandomGnp(g.Rng, n, 1+g.Rng.Intn(9), 10)
		case 2:
			gr, fam = cx.RandomRegularSwitch(g.Rng, g.Rng.Range(6, 14), g.Rng.Range(2, 5)), "regular"
		default:
			gr = cx.RandomGnp(g.Rng, g.Rng.Range(2, 14), 1+g.Rng.Intn(9), 10)
		}
		if gr.N == 0 {
			continue
		}
		emitX(fam, gr.Relabel(g.Rng.Perm(gr.N)), scenarios[i%len(scenarios)])
	}
	// vertex classes: the repaired panic first (KNOWN_FINDINGS a4bdb37), then shapes
	for _, s := range [][2]string{{"KOD[fB~~qOCO", "0,1,2,3,4,5,6,7,8,9|10,11"}, {"K`WkCf~~ogGO", "0,1,2,3,4,5,6,7|8,9|10,11"}, {"LaGQO]CgN~~}?g", "0,1,2,3,4,5,6,7,8,9,10,11|12"}} {
		g.Emit("k:corpus;" + s[0] + ";cls=" + s[1] + " " + seedTok() + " count=40")
	}
	total := g.Pick(1500, 12000)
	hub := g.Pick(24000, 80000)
	for i := 0; i < total+hub; i++ {
		forceHub := i >= total
		var gr *cx.G
		fam := "random"
		switch g.Rng.Intn(5) {
		case 0:
			ng := str[g.Rng.Intn(len(str))]
			if ng.G.N < 2 {
				continue
			}
			gr, fam = ng.G, ng.Family
		case 1:
			gr, fam = cx.RandomRegularSwitch(g.Rng, g.Rng.Range(6, 13), g.Rng.Range(2, 5)), "regular"
		case 2:
			gr, fam = cx.RandomTree(g.Rng, g.Rng.Range(4, 13)), "tree"
		default:
			gr = cx.RandomGnp(g.Rng, g.Rng.Range(3, 12), 1+g.Rng.Intn(9), 10)
		}
		var twins [][2]int
		kind := g.Rng.Intn(5)
		if forceHub {
			kind = 4
		}
		switch kind {
		case 0:
		case 1, 2:
			gr, twins = addTwins(g, gr, 1+g.Rng.Intn(2))
			fam = "twins"
		default:
			// a regular base, a pair of twin hubs joined to all (or to the same random part) of it, and
			// a few low-degree vertices hanging on the base: after the refinement the twins are a
			// cell of two vertices and the low-degree vertices come in a later cell
			base := cx.RandomRegularSwitch(g.Rng, g.Rng.Range(6, 11), g.Rng.Range(2, 4))
			nb := base.N
			low := 1 + g.Rng.Intn(3)
			h := cx.New(nb + 2 + low)
			for i := 0; i < nb; i++ {
				for j := 0; j < i; j++ {
					if base.Adj[i][j] {
						h.Add(i, j)
					}
				}
			}
			all := g.Rng.Intn(4) > 0
			for i := 0; i < nb; i++ {
				if all || g.Rng.Intn(3) > 0 {
					h.Add(nb, i)
					h.Add(nb+1, i)
				}
			}
			if g.Rng.Intn(3) == 0 {
				h.Add(nb, nb+1)
			}
			for x := 0; x < low; x++ {
				for _, v := range g.Rng.Perm(nb)[:1+g.Rng.Intn(2)] {
					h.Add(nb+2+x, v)
				}
			}
			gr, twins, fam = h, [][2]int{{nb, nb + 1}}, "hubtwins"
		}
		shapes := classShapes(g, gr, twins)
		cls := shapes[g.Rng.Intn(len(shapes))]
		count := g.Pick(8, 20)
		if fam == "hubtwins" {
			// volume: the repaired panic shows on about one GRAPH in 4000 of this family with the
			// low-degree vertices as the last class (hardly depending on the labelling): many graphs,
			// few relabellings each
			count = g.Pick(3, 4)
			if w := g.Rng.Intn(8); w < 7 {
				var rest, lowc []int
				for v := 0; v < gr.N; v++ {
					if v < twins[0][1]+1 {
						rest = append(rest, v)
					} else {
						lowc = append(lowc, v)
					}
				}
				cls = [][]int{rest, lowc}
				if w == 6 {
					cls = [][]int{lowc, rest}
				}
			}
		}
		// present the graph under a random labelling (the classes with it)
		p := g.Rng.Perm(gr.N)
		g.Emit("k:" + fam + ";" + gr.Relabel(p).Graph6() + ";cls=" + cx.ClassesString(cx.RelabelClasses(cls, p, 0)) + " " + seedTok() + fmt.Sprintf(" count=%d", count))
	}
	// sizes beyond 70: 8-bit counters, 64-bit masks, capacity doubling (oracle-only: few relabellings)
	for _, n := range []int{96, 127, 128, 129, 130, 255, 256, 257, 300} {
		for _, num := range []int{1, 5, 9} {
			if !g.Thorough() && n > 130 && num != 9 {
				continue
			}
			gr := cx.RandomGnp(g.Rng, n, num, 10)
			g.Emit("o:size;" + gr.Graph6() + fmt.Sprintf(";rand:%d:%d", g.Rng.U64()>>1, g.Pick(3, 8)))
		}
	}
}
