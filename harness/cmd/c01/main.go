// Command c01 explores property C01 (canonical labelling is a complete isomorphism invariant)
// on the implementation and prints the canonical graph for the correspondence with the
// extracted reference canon_ref of coq/Canon.
//
// Case syntax (one line):   <mode>[:<family>];<graph6>;<tok> <tok> ...
//
//	mode m : the projected observation is the canonical graph (compared with canon_ref)
//	mode o : oracle only (the unpruned reference tree is too large for the model driver);
//	         the canonical graph goes to the strict part
//	mode c : <graph6> is replaced by a number n: all labelled graphs on n vertices are
//	         canonised and the number of distinct canonical graphs is observed
//	mode r : refinement alone (hook graph.VerifRefine): the tokens are "cls=<classes>" ("-" = none,
//	         else "0,3|1|2,4") and "picks=<k>,<k>,..." (indices into the first non-singleton
//	         cell); the projected observation is the ordered partition (cells as sets) after
//	         every refinement and is compared with refine_run of the extracted model; the raw
//	         order:dividers is the strict part
//	mode x, k : see harden.go (provenance, reuse, aliasing, hidden state; vertex classes)
//	tok    : a relabelling "p0,p1,...,p(n-1)" (the copy h has h(i,j) = g(p_i,p_j)), or "all"
//	         (all n! relabellings), or "rand:<seed>:<count>" (count relabellings from splitmix64(seed))
//
// For every relabelled copy h (built directly as DenseGraph and as SparseGraph, not through
// InducedSubgraph) Exec checks: CanonicalIsomorph(h) is a permutation of 0..n-1 and the graph
// obtained by relabelling h with it is identical to the one obtained for g.
package main

import (
	"fmt"
	"strconv"
	"strings"
	"time"

	"github.com/Tom-Johnston/mamba/graph"
	"github.com/Tom-Johnston/mamba/sortints"
	cx "verifharness/cmd/c01/canonx"
	"verifharness/hx"
)

// number of isomorphism classes of simple graphs on n vertices (OEIS A000088)
var classCount = []int{1, 1, 2, 4, 11, 34, 156, 1044, 12346}

func bucket(n int) string {
	switch {
	case n <= 4:
		return "n<=4"
	case n <= 6:
		return "n=5..6"
	case n <= 8:
		return "n=7..8"
	case n <= 10:
		return "n=9..10"
	case n <= 12:
		return "n=11..12"
	case n <= 16:
		return "n=13..16"
	case n <= 24:
		return "n=17..24"
	case n <= 44:
		return "n=25..44"
	}
	return "n>=45"
}

// relabelled copy of g under p as library graphs, built from the adjacency matrix
func denseOf(g *cx.G, p []int) *graph.DenseGraph {
	n := g.N
	e := make([]byte, n*(n-1)/2)
	k := 0
	for j := 1; j < n; j++ {
		for i := 0; i < j; i++ {
			if g.Adj[p[i]][p[j]] {
				e[k] = 1
			}
			k++
		}
	}
	return graph.NewDense(n, e)
}

func sparseOf(g *cx.G, p []int) *graph.SparseGraph {
	n := g.N
	nb := make([]sortints.SortedInts, n)
	for i := 0; i < n; i++ {
		nb[i] = sortints.SortedInts{}
		for j := 0; j < n; j++ {
			if g.Adj[p[i]][p[j]] {
				nb[i] = append(nb[i], j)
			}
		}
	}
	return graph.NewSparse(n, nb)
}

type checker struct {
	g      *cx.G
	g6     string
	key0   string
	viol   []hx.OracleViolation
	evals  int
	nonid  int
	buf    []int
	failed map[string]bool
}

func (c *checker) fail(kind string, p []int, format string, a ...interface{}) {
	if c.failed[kind] || len(c.viol) >= 4 {
		return
	}
	c.failed[kind] = true
	v := hx.Fail("C01:"+kind+":"+c.g6, format, a...)
	v.Case = "o;" + c.g6 + ";" + permTok(p)
	c.viol = append(c.viol, v)
}

func permTok(p []int) string {
	if len(p) == 0 {
		return "-"
	}
	return cx.PermString(p)
}

// one relabelled copy, one representation; returns the canonical graph of the copy
func (c *checker) one(p []int, sparse bool) string {
	g := c.g
	var h graph.Graph
	rep := "dense"
	if sparse {
		h = sparseOf(g, p)
		rep = "sparse"
	} else {
		h = denseOf(g, p)
	}
	var perm []int
	if msg := guard(func() { perm = graph.CanonicalIsomorph(h) }); msg != "" {
		c.fail("panic", p, "CanonicalIsomorph of the %s copy of %s relabelled by %v panicked: %s", rep, c.g6, p, msg)
		return ""
	}
	c.evals++
	if !cx.IsPerm(perm, g.N) {
		c.fail("notperm", p, "CanonicalIsomorph of the %s copy of %s relabelled by %v returned %v, not a permutation of 0..%d", rep, c.g6, p, perm, g.N-1)
		return ""
	}
	// canonical graph of the copy: vertex i is vertex p[perm[i]] of g
	q := c.buf[:g.N]
	for i := range q {
		q[i] = p[perm[i]]
	}
	return g.RelabelledGraph6(q)
}

func (c *checker) relabelling(p []int, both bool, idx int) {
	if !cx.IsIdentity(p) {
		c.nonid++
	}
	reps := []bool{idx%2 == 1}
	if both {
		reps = []bool{false, true}
	}
	for _, sp := range reps {
		k := c.one(p, sp)
		if k != "" && k != c.key0 {
			c.fail("noninvariant", p, "canonical graph of %s is %s but the copy relabelled by %v (sparse=%v) has canonical graph %s", c.g6, c.key0, p, sp, k)
		}
	}
}

// refineEquivariance checks on the implementation that the refinement depends only on the cell
// structure: a relabelled copy of the graph with the relabelled classes (members in another
// order) and the corresponding picks must give, after every refinement, cell by cell the image
// of the partition of the original.  Returns "" or a description of the first difference.
func refineEquivariance(g *cx.G, g6 string, cls [][]int, picks []int) string {
	n := g.N
	if n == 0 {
		return ""
	}
	var seed uint64 = 1469598103934665603
	for i := 0; i < len(g6); i++ {
		seed = (seed ^ uint64(g6[i])) * 1099511628211
	}
	seed += uint64(len(picks))
	r := hx.NewRng(seed)
	p := r.Perm(n) // vertex i of the copy is vertex p[i] of g
	inv := cx.Inverse(p)
	h := g.Relabel(p)
	cls2 := cx.RelabelClasses(cls, p, 1)
	nbG, nbH := g.Neighbours(), h.Neighbours()
	var msg string
	if m := guard(func() {
		orders, divs, _ := graph.VerifRefine(n, nbG, copyClasses(cls), picks)
		var picks2 []int
		for t := 0; t < len(orders); t++ {
			o2, d2, _ := graph.VerifRefine(n, nbH, copyClasses(cls2), picks2)
			if len(o2) != t+1 {
				msg = fmt.Sprintf("refinement of %s and of its copy relabelled by %v stop at different stages (%d, %d)", g6, p, t+1, len(o2))
				return
			}
			if !sameCells(orders[t], divs[t], o2[t], d2[t], p) {
				msg = fmt.Sprintf("after refinement %d of %s (classes %s, picks %v): partition %v|%v, but the copy relabelled by %v gives %v|%v, which is not its image", t, g6, cx.ClassesString(cls), picks, orders[t], divs[t], p, o2[t], d2[t])
				return
			}
			if t >= len(picks) || t+1 >= len(orders) {
				break
			}
			// the vertex picked at stage t in the original, and its index in the target cell of the copy
			start := targetStart(divs[t])
			if start < 0 {
				break
			}
			v := orders[t][start+picks[t]]
			start2 := targetStart(d2[t])
			idx := -1
			for i := start2; i >= 0 && i < n; i++ {
				if o2[t][i] == inv[v] {
					idx = i - start2
					break
				}
			}
			if idx < 0 {
				msg = fmt.Sprintf("vertex %d picked at stage %d of %s has no image in the target cell of the copy relabelled by %v", v, t, g6, p)
				return
			}
			picks2 = append(picks2, idx)
		}
	}); m != "" {
		return "panic in the refinement of a relabelled copy of " + g6 + ": " + m
	}
	return msg
}

// rankPicksToPositions translates picks given as ranks (k-th smallest vertex of the first
// non-singleton cell) into positions inside that cell as the hook VerifRefine wants them, by
// running the refinement stage by stage.  The library keeps every cell ascending, so on the
// unchanged tree this is the identity; it makes the observation independent of the order
// inside a cell, which the property does not determine.
func rankPicksToPositions(n int, nb [][]int, cls [][]int, picks []int) []int {
	var pos []int
	for t := 0; t < len(picks); t++ {
		orders, divs, _ := graph.VerifRefine(n, nb, copyClasses(cls), pos)
		if len(orders) != t+1 {
			break
		}
		start := targetStart(divs[t])
		if start < 0 {
			break
		}
		end := start
		for _, d := range divs[t] {
			if d > start {
				end = d
				break
			}
		}
		if picks[t] < 0 || picks[t] >= end-start {
			pos = append(pos, picks[t]) // out of range: the hook stops here as the model does
			break
		}
		cell := cx.SortedCopy(orders[t][start:end])
		v := cell[picks[t]]
		for i := start; i < end; i++ {
			if orders[t][i] == v {
				pos = append(pos, i-start)
			}
		}
	}
	return pos
}

func copyClasses(cls [][]int) [][]int {
	if cls == nil {
		return nil
	}
	c2 := make([][]int, len(cls))
	for i := range cls {
		c2[i] = append([]int(nil), cls[i]...)
	}
	return c2
}

// start of the first cell with more than one element, or -1
func targetStart(divs []int) int {
	start := 0
	for _, d := range divs {
		if d-start > 1 {
			return start
		}
		start = d
	}
	return -1
}

// the cells (order2, divs2) of the copy are, cell by cell, the images of the cells (order, divs): vertex i of the copy is vertex p[i]
func sameCells(order, divs, order2, divs2, p []int) bool {
	if len(divs) != len(divs2) || len(order) != len(order2) {
		return false
	}
	cellOf := make([]int, len(order))
	start := 0
	for c, d := range divs {
		if divs2[c] != d {
			return false
		}
		for i := start; i < d; i++ {
			cellOf[order[i]] = c
		}
		start = d
	}
	start = 0
	for c, d := range divs2 {
		for i := start; i < d; i++ {
			if cellOf[p[order2[i]]] != c {
				return false
			}
		}
		start = d
	}
	return true
}

// fastAll runs all n! relabellings through CanonicalIsomorphAllocated with one ordered partition
// (Reset before each call) and one storage, on neighbourhood lists built directly from the
// relabelled adjacency matrix; every 61st relabelling also goes through the public path (fresh
// DenseGraph or SparseGraph, CanonicalIsomorph).  A disagreement found on the reused storage is
// re-examined on the public path, and reported as "reuse" when only the reused storage shows it.
func (c *checker) fastAll(idx int) int {
	g, n := c.g, c.g.N
	m := g.M()
	op := graph.NewOrderedPartition(n, m, nil)
	st := graph.NewStorage(n, m)
	opts := new(graph.CanonicalOptions)
	nb := make([][]int, n)
	for i := range nb {
		nb[i] = make([]int, 0, n)
	}
	bits := func(q []int) uint64 {
		var k uint64
		for j := 1; j < n; j++ {
			for i := 0; i < j; i++ {
				k <<= 1
				if g.Adj[q[i]][q[j]] {
					k |= 1
				}
			}
		}
		return k
	}
	var want uint64
	cg := cx.MustGraph6(c.key0)
	for j := 1; j < n; j++ {
		for i := 0; i < j; i++ {
			want <<= 1
			if cg.Adj[i][j] {
				want |= 1
			}
		}
	}
	p := cx.Identity(n)
	q := make([]int, n)
	for {
		if !cx.IsIdentity(p) {
			c.nonid++
		}
		for i := 0; i < n; i++ {
			nb[i] = nb[i][:0]
			for j := 0; j < n; j++ {
				if g.Adj[p[i]][p[j]] {
					nb[i] = append(nb[i], j)
				}
			}
		}
		bad := false
		var perm []int
		if msg := guard(func() {
			op.Reset(n, m, nil)
			*opts = graph.CanonicalOptions{}
			perm, _, _ = graph.CanonicalIsomorphAllocated(n, m, nb, op, st, opts)
		}); msg != "" {
			bad = true
			// a panic can leave the storage in any state
			op = graph.NewOrderedPartition(n, m, nil)
			st = graph.NewStorage(n, m)
		} else if !cx.IsPerm(perm, n) {
			bad = true
		} else {
			for i := range q {
				q[i] = p[perm[i]]
			}
			bad = bits(q) != want
		}
		c.evals++
		if bad {
			before := len(c.viol)
			c.relabelling(p, true, 0)
			if len(c.viol) == before {
				c.fail("reuse", p, "CanonicalIsomorphAllocated with a reset partition and reused storage gives a different canonical graph for %s relabelled by %v than a fresh call", c.g6, p)
			}
		} else if idx%61 == 0 {
			c.relabelling(p, false, idx/61)
		}
		idx++
		if !cx.NextPerm(p) {
			break
		}
	}
	return idx
}

func execGraph(mode, fam, g6 string, toks []string) hx.Result {
	g, err := cx.FromGraph6(g6)
	if err != nil {
		return hx.Result{Obs: "badcase"}
	}
	n := g.N
	c := &checker{g: g, g6: g6, buf: make([]int, n), failed: map[string]bool{}}
	id := cx.Identity(n)
	// the graph itself, both representations, and through the public path InducedSubgraph
	kd := c.one(id, false)
	ks := c.one(id, true)
	c.key0 = kd
	if kd != "" && ks != "" && kd != ks {
		c.fail("representation", id, "canonical graph of %s: dense %s, sparse %s", g6, kd, ks)
	}
	if kd != "" {
		if msg := guard(func() { c.publicPath(kd) }); msg != "" {
			c.fail("panic", id, "panic on %s: %s", g6, msg)
		}
	}
	if c.key0 == "" {
		c.key0 = ks
	}
	if c.key0 == "" {
		return hx.Result{Obs: "panic", Buckets: []string{bucket(n), "mode:" + mode}, Viol: c.viol}
	}
	// The canonical graph is a choice the property leaves open.  When it differs from the one of
	// the reference (Go transcription of the Coq model, same leaf budget as the generator) the
	// property itself is searched: all n! relabellings (n <= 9) or 4000 random ones.  If the
	// search finds nothing the case is not compared with the model ("skipped": a change of the
	// canonical choice that keeps the invariance is not a violation of C01).
	if mode == "m" {
		if p, _, ok := cx.RefCanon(g, nil, 4*modelLeafBudget); ok && g.RelabelledGraph6(p) != c.key0 {
			if n <= 9 {
				toks = append(toks, "all")
			} else {
				toks = append(toks, fmt.Sprintf("rand:%d:4000", 12345+n))
			}
			res := c.rest(mode, fam, toks)
			if len(res.Viol) == 0 {
				res.Obs = "skipped ## canonical graph " + c.key0 + " differs from the reference " + g.RelabelledGraph6(p) + "; no relabelling with a different canonical graph found"
			}
			res.Buckets = append(res.Buckets, "escalated")
			return res
		}
	}
	return c.rest(mode, fam, toks)
}

func (c *checker) publicPath(kd string) {
	g, g6, id := c.g, c.g6, cx.Identity(c.g.N)
	{
		d := g.Dense()
		if via := cx.FromLib(d.InducedSubgraph(graph.CanonicalIsomorph(d))).Graph6(); via != kd {
			c.fail("inducedsubgraph", id, "InducedSubgraph(CanonicalIsomorph(g)) of %s is %s, relabelling by hand gives %s", g6, via, kd)
		}
		s := g.Sparse()
		if via := cx.FromLib(s.InducedSubgraph(graph.CanonicalIsomorph(s))).Graph6(); via != kd {
			c.fail("inducedsubgraph", id, "sparse InducedSubgraph(CanonicalIsomorph(g)) of %s is %s, relabelling by hand gives %s", g6, via, kd)
		}
		// the canonical graph is a fixed point: canonising it again gives the same graph
		cg := cx.MustGraph6(kd)
		if again := cg.RelabelledGraph6(graph.CanonicalIsomorph(cg.Dense())); again != kd {
			c.fail("noninvariant", id, "canonical graph %s of %s canonises to %s", kd, g6, again)
		}
	}
}

func (c *checker) rest(mode, fam string, toks []string) hx.Result {
	g, n := c.g, c.g.N
	idx := 0
	for _, t := range toks {
		switch {
		case t == "all":
			if n >= 7 && n <= 11 {
				idx = c.fastAll(idx)
				break
			}
			p := cx.Identity(n)
			for {
				c.relabelling(p, false, idx)
				idx++
				if !cx.NextPerm(p) {
					break
				}
			}
		case strings.HasPrefix(t, "rand:"):
			f := strings.Split(t, ":")
			if len(f) != 3 {
				return hx.Result{Obs: "badcase"}
			}
			seed, _ := strconv.ParseUint(f[1], 10, 64)
			cnt, _ := strconv.Atoi(f[2])
			r := hx.NewRng(seed)
			for k := 0; k < cnt; k++ {
				c.relabelling(r.Perm(n), k < 8, idx)
				idx++
			}
		default:
			p, err := cx.ParsePerm(t)
			if err != nil || !cx.IsPerm(p, n) {
				return hx.Result{Obs: "badcase"}
			}
			c.relabelling(p, true, idx)
			idx++
		}
	}
	// non-triviality: |Aut| > 1 by the independent backtracking search; above 16 vertices that
	// search can take minutes on dense graphs with one big cell, there the orbits returned by the
	// library decide (a measurement only, nothing is checked with it)
	var order uint64 = 1
	if n <= 16 {
		_, order = g.AutGroup(nil)
	} else {
		guard(func() {
			_, orb, _ := graph.CanonicalIsomorphFull(g.Dense(), nil)
			for _, x := range orb {
				if x >= 0 {
					order = 2
				}
			}
		})
	}
	// oracle-only cases observe nothing (the driver prints "ok" too); violations travel in Viol
	obs := "ok"
	if mode == "m" {
		obs = c.key0
	}
	b := []string{bucket(n), "mode:" + mode}
	if fam != "" {
		b = append(b, "family:"+fam)
	}
	if order > 1 {
		b = append(b, "aut>1")
	} else {
		b = append(b, "aut=1")
	}
	return hx.Result{Obs: obs, Nontrivial: order > 1 && c.nonid > 0, Buckets: b, Viol: c.viol}
}

// all labelled graphs on n vertices: the number of distinct canonical graphs is the number of
// isomorphism classes, and (n <= 6) two graphs get the same canonical graph exactly when the
// independent brute-force canonical form says they are isomorphic.
func execCount(n int) hx.Result {
	if n < 0 || n > 7 {
		return hx.Result{Obs: "badcase"}
	}
	e := n * (n - 1) / 2
	canonToBrute := map[string]string{}
	bruteToCanon := map[string]string{}
	var viol []hx.OracleViolation
	g := cx.New(n)
	for mask := 0; mask < 1<<uint(e); mask++ {
		k := 0
		for j := 1; j < n; j++ {
			for i := 0; i < j; i++ {
				g.Adj[i][j] = mask>>uint(k)&1 == 1
				g.Adj[j][i] = g.Adj[i][j]
				k++
			}
		}
		var h graph.Graph
		if mask%2 == 0 {
			h = g.Dense()
		} else {
			h = g.Sparse()
		}
		var perm []int
		guard(func() { perm = graph.CanonicalIsomorph(h) })
		if !cx.IsPerm(perm, n) {
			if len(viol) < 3 {
				v := hx.Fail("C01:notperm:"+g.Graph6(), "CanonicalIsomorph(%s) = %v is not a permutation", g.Graph6(), perm)
				v.Case = "o;" + g.Graph6() + ";" + permTok(cx.Identity(n))
				viol = append(viol, v)
			}
			continue
		}
		key := g.RelabelledGraph6(perm)
		if n <= 6 {
			if _, seen := canonToBrute[key]; !seen {
				br := g.CanonBrute()
				canonToBrute[key] = br
				if other, dup := bruteToCanon[br]; dup && other != key && len(viol) < 3 {
					// two isomorphic graphs with different canonical graphs: find the relabelling
					v := hx.Fail("C01:noninvariant:"+other, "graphs %s and %s are isomorphic (brute force) but their canonical graphs differ", other, key)
					v.Case = "o;" + other + ";all"
					viol = append(viol, v)
				}
				bruteToCanon[br] = key
			}
		} else {
			canonToBrute[key] = ""
		}
	}
	cnt := len(canonToBrute)
	if cnt != classCount[n] && len(viol) == 0 {
		viol = append(viol, hx.Fail(fmt.Sprintf("C01:classes:%d", n), "%d distinct canonical graphs over all labelled graphs on %d vertices, but there are %d isomorphism classes", cnt, n, classCount[n]))
	}
	return hx.Result{Obs: "ok", Nontrivial: n >= 2, Buckets: []string{bucket(n), "mode:c", fmt.Sprintf("classes(%d)=%d", n, cnt)}, Viol: viol}
}

// guard runs f; a panic of the library becomes a message
func guard(f func()) (msg string) {
	defer func() {
		if e := recover(); e != nil {
			msg = fmt.Sprint(e)
			if msg == "" {
				msg = "panic"
			}
		}
	}()
	f()
	return ""
}

func exec(line string) hx.Result {
	f := strings.SplitN(line, ";", 3)
	if len(f) != 3 {
		return hx.Result{Obs: "badcase"}
	}
	mode, fam := f[0], ""
	if i := strings.Index(mode, ":"); i >= 0 {
		mode, fam = mode[:i], mode[i+1:]
	}
	if mode == "c" {
		n, err := strconv.Atoi(f[1])
		if err != nil {
			return hx.Result{Obs: "badcase"}
		}
		return execCount(n)
	}
	if mode == "r" {
		return execRefine(fam, f[1], strings.Fields(f[2]))
	}
	if mode == "x" {
		return execX(fam, f[1], strings.Fields(f[2]), line)
	}
	if mode == "k" {
		return execK(fam, f[1], strings.Fields(f[2]), line)
	}
	return execGraph(mode, fam, f[1], strings.Fields(f[2]))
}

// refinement alone: equitableRefinementProcedure through the hook, on the neighbourhoods of the
// dense and of the sparse representation
func execRefine(fam, g6 string, toks []string) hx.Result {
	g, err := cx.FromGraph6(g6)
	if err != nil {
		return hx.Result{Obs: "badcase"}
	}
	n := g.N
	var cls [][]int
	var picks []int
	for _, t := range toks {
		switch {
		case strings.HasPrefix(t, "cls="):
			cls, err = cx.ParseClasses(t[4:])
		case strings.HasPrefix(t, "picks="):
			picks, err = cx.ParsePerm(t[6:])
		default:
			return hx.Result{Obs: "badcase"}
		}
		if err != nil {
			return hx.Result{Obs: "badcase"}
		}
	}
	if cls != nil {
		seen := make([]bool, n)
		cnt := 0
		for _, c := range cls {
			if len(c) == 0 {
				return hx.Result{Obs: "badcase"}
			}
			for _, v := range c {
				if v < 0 || v >= n || seen[v] {
					return hx.Result{Obs: "badcase"}
				}
				seen[v] = true
				cnt++
			}
		}
		if cnt != n {
			return hx.Result{Obs: "badcase"}
		}
	}
	var viol []hx.OracleViolation
	run := func(h graph.Graph) (string, int) {
		nb := make([][]int, n)
		for i := range nb {
			nb[i] = h.Neighbours(i)
		}
		// the classes are handed over as a copy: NewOrderedPartition must not depend on the caller's slices afterwards
		var c2 [][]int
		if cls != nil {
			c2 = make([][]int, len(cls))
			for i := range cls {
				c2[i] = append([]int(nil), cls[i]...)
			}
		}
		// picks name the k-th smallest vertex of the target cell; the hook wants its position
		pos := rankPicksToPositions(n, nb, c2, picks)
		orders, divs, drained := graph.VerifRefine(n, nb, copyClasses(c2), pos)
		var parts, sets []string
		cells := 0
		for i := range orders {
			if !cx.IsPerm(orders[i], n) && len(viol) < 2 {
				viol = append(viol, hx.Fail("C01:refine-notperm:"+g6, "after refinement %d of %s the order %v is not a permutation", i, g6, orders[i]))
			}
			if !drained[i] && len(viol) < 2 {
				viol = append(viol, hx.Fail("C01:refine-notdrained:"+g6, "binsToCheck is not empty after refinement %d of %s", i, g6))
			}
			parts = append(parts, cx.PermString(orders[i])+":"+cx.PermString(divs[i]))
			cells = len(divs[i])
			// projected: the cells as sets; the order inside a cell is not determined by the property
			var cs []string
			start := 0
			for _, d := range divs[i] {
				if d < start || d > len(orders[i]) {
					break
				}
				cs = append(cs, cx.PermString(cx.SortedCopy(orders[i][start:d])))
				start = d
			}
			sets = append(sets, strings.Join(cs, "|"))
		}
		return strings.Join(sets, " / ") + " ## " + strings.Join(parts, " / "), cells
	}
	od, cells := run(g.Dense())
	os, _ := run(g.Sparse())
	if len(viol) == 0 {
		if msg := refineEquivariance(g, g6, cls, picks); msg != "" {
			viol = append(viol, hx.Fail("C01:refine-noninvariant:"+g6, "%s", msg))
		}
	}
	if od != os && len(viol) < 2 {
		viol = append(viol, hx.Fail("C01:refine-representation:"+g6, "refinement of %s differs between the dense (%s) and the sparse (%s) neighbourhoods", g6, od, os))
	}
	start := 1
	if cls != nil {
		start = len(cls)
	}
	b := []string{bucket(n), "mode:r"}
	if fam != "" {
		b = append(b, "family:"+fam)
	}
	if cls != nil {
		b = append(b, "classes")
	}
	return hx.Result{Obs: od, Nontrivial: cells > start, Buckets: b, Viol: viol}
}

// ---------------------------------------------------------------- generator

// modelLeafBudget: the extracted model enumerates the whole unpruned tree; cases whose tree has
// more leaves than this are oracle-only.
const modelLeafBudget = 2000

func modeFor(g *cx.G) string { return modeForB(g, modelLeafBudget) }

// modeForB: "m" when the unpruned tree has at most budget leaves (the generator is one process:
// the budget also bounds the time spent here)
func modeForB(g *cx.G, budget int) string {
	if _, _, ok := cx.RefCanon(g, nil, budget); ok {
		return "m"
	}
	return "o"
}

func gen(g *hx.Gen) {
	// hx.NewRng(seed) is a splitmix64 counter started at seed*golden: the streams of consecutive
	// seeds are the same stream shifted by one draw.  Restart from one scrambled output so that
	// different VERIF_SEEDs give unrelated cases (still a function of VERIF_SEED only).
	g.Rng = hx.NewRng(g.Rng.U64() ^ 0x5851F42D4C957F2D)
	emit := func(fam string, gr *cx.G, toks string) {
		m := modeFor(gr)
		if fam != "" {
			m += ":" + fam
		}
		g.Emit(m + ";" + gr.Graph6() + ";" + toks)
	}
	// corpus: the inputs that failed on the pinned tree (KNOWN_FINDINGS: fixed 7d4c9e1)
	emit("corpus", cx.MustGraph6("G|WW}K"), "7,3,1,2,4,5,0,6")
	emit("corpus", cx.MustGraph6("GhcqSK"), "7,6,1,3,4,5,0,2")
	emit("corpus", cx.MustGraph6("G|WW}K"), "all")
	emit("corpus", cx.MustGraph6("GhcqSK"), "all")
	// exhaustive: all labelled graphs on at most 5 (6) vertices, all relabellings
	maxExh := g.Pick(5, 6)
	for n := 0; n <= maxExh; n++ {
		e := n * (n - 1) / 2
		for mask := 0; mask < 1<<uint(e); mask++ {
			gr := cx.New(n)
			k := 0
			for j := 1; j < n; j++ {
				for i := 0; i < j; i++ {
					if mask>>uint(k)&1 == 1 {
						gr.Add(i, j)
					}
					k++
				}
			}
			emit("labelled", gr, "all")
			// refinement alone on the same graphs: no classes with random picks, and random classes
			if n >= 2 && (n <= 4 || mask%g.Pick(8, 16) == 0) {
				emitRefine(g, "labelled", gr)
			}
		}
	}
	g.Exhaustive(fmt.Sprintf("all labelled graphs on n <= %d vertices x all n! relabellings x both representations", maxExh))
	for n := 0; n <= g.Pick(5, 7); n++ {
		g.Emit(fmt.Sprintf("c;%d;all", n))
	}
	g.Exhaustive(fmt.Sprintf("all labelled graphs on n <= %d vertices: number of distinct canonical graphs = number of isomorphism classes", g.Pick(5, 7)))
	// all ordered partitions into classes of the labelled graphs on 4 vertices (every 3rd graph in the quick tier)
	for mask := 0; mask < 64; mask++ {
		if !g.Thorough() && mask%3 != 0 {
			continue
		}
		gr := cx.New(4)
		k := 0
		for j := 1; j < 4; j++ {
			for i := 0; i < j; i++ {
				if mask>>uint(k)&1 == 1 {
					gr.Add(i, j)
				}
				k++
			}
		}
		for _, cls := range orderedPartitions(4) {
			g.Emit("r:labelled;" + gr.Graph6() + ";cls=" + cx.ClassesString(cls) + " picks=" + randPicks(g, 2))
		}
	}
	g.Exhaustive("refinement alone: labelled graphs on 4 vertices x all 75 ordered partitions into vertex classes")

	rl := g.Pick(150, 300)
	randTok := func() string { return fmt.Sprintf("rand:%d:%d", g.Rng.U64()>>1, rl) }
	// structured families
	str := cx.Structured(g.Pick(12, 17))
	for _, ng := range str {
		emit(ng.Family, ng.G.Relabel(g.Rng.Perm(ng.G.N)), randTok())
		if ng.G.N >= 2 {
			emitRefine(g, ng.Family, ng.G.Relabel(g.Rng.Perm(ng.G.N)))
		}
	}
	// graphs on 8 vertices x all 8! relabellings: every structured graph on 8 vertices of the
	// quick list up to 150, in the thorough tier all of them and those on 9 vertices
	cnt8 := 0
	for _, ng := range str {
		if ng.G.N == 8 && (g.Thorough() || cnt8 < 150) {
			emit(ng.Family, ng.G, "all")
			cnt8++
		}
		if ng.G.N == 9 && g.Thorough() && !strings.HasPrefix(ng.Name, "co-") {
			emit(ng.Family, ng.G, "all")
		}
	}
	for cnt8 < 150 {
		emit("regular", cx.RandomRegular(g.Rng, 8, 3+g.Rng.Intn(2)), "all")
		cnt8++
	}
	// perturbed symmetric graphs: one or two pairs flipped
	for i := 0; i < g.Pick(1500, 4000); i++ {
		ng := str[g.Rng.Intn(len(str))]
		if ng.G.N < 4 {
			continue
		}
		pg := cx.Perturb(g.Rng, ng.G, 1+g.Rng.Intn(2)).Relabel(g.Rng.Perm(ng.G.N))
		emit("perturbed", pg, randTok())
		if i%2 == 0 {
			emitRefine(g, "perturbed", pg)
		}
	}
	// random graphs at several densities, random regular graphs, random trees, random unions of equal components
	dens := [][2]int{{1, 10}, {1, 4}, {1, 2}, {3, 4}, {9, 10}}
	for i := 0; i < g.Pick(1200, 4000); i++ {
		n := g.Rng.Range(5, g.Pick(12, 16))
		switch g.Rng.Intn(5) {
		case 0, 1:
			d := dens[g.Rng.Intn(len(dens))]
			rg := cx.RandomGnp(g.Rng, n, d[0], d[1])
			emit("random", rg, randTok())
			emitRefine(g, "random", rg)
		case 2:
			emit("regular", cx.RandomRegular(g.Rng, n, 2+g.Rng.Intn(4)), randTok())
		case 3:
			emit("tree", cx.RandomTree(g.Rng, n), randTok())
		default:
			k := 2 + g.Rng.Intn(2)
			c := cx.RandomGnp(g.Rng, g.Rng.Range(2, g.Pick(12, 16)/k), 1, 2)
			u := cx.Copies(k, c)
			if g.Rng.Bool() {
				u = u.Complement()
			}
			emit("union", u.Relabel(g.Rng.Perm(u.N)), randTok())
		}
	}
	emitB := func(fam string, gr *cx.G, toks string, budget int) {
		g.Emit(modeForB(gr, budget) + ":" + fam + ";" + gr.Graph6() + ";" + toks)
	}
	fewTok := func() string { return fmt.Sprintf("rand:%d:%d", g.Rng.U64()>>1, g.Pick(12, 30)) }
	// sizes: random graphs at EVERY n from 13 to 70 and three densities (they refine to a discrete
	// partition almost at once, so they are cheap), with extra graphs around the block boundaries
	// of the merge sort of the refinement (insertion-sort blocks of 20: cells of 19..23, 39..43,
	// 59..63 vertices); the first refinement sorts the single cell of n vertices by degree
	for n := 13; n <= 70; n++ {
		reps := 1
		if r := n % 20; r >= 19 || r <= 3 {
			reps = g.Pick(3, 6)
		}
		for rep := 0; rep < reps; rep++ {
			for _, num := range []int{1, 3, 5} {
				gr := cx.RandomGnp(g.Rng, n, num, 10)
				emitB("size", gr, fewTok(), 60)
				emitRefine(g, "size", gr)
			}
		}
	}
	// whole regular graphs beyond 40 vertices (the root cell IS the graph: every size switch of the
	// code that sorts, merges or scans a cell — ints.Sort's 12 / 40 / depth limits, block merges of
	// 20 — is met with one cell of exactly this size, re-sorted by deage after every undone
	// individualisation): random d-regular graphs at 41, 42 and a few sizes up to 64
	for _, n := range []int{41, 42, 44, 48, 56, 61, 64} {
		for rep := 0; rep < g.Pick(1, 4); rep++ {
			d := 3 + g.Rng.Intn(2)
			if n*d%2 == 1 {
				d = 4
			}
			gr := cx.RandomRegularSwitch(g.Rng, n, d).Relabel(g.Rng.Perm(n))
			emitB("regular-large", gr, fewTok(), 60)
		}
	}
	// one big cell: a regular part of s vertices (every s in 18..45: random regular or circulant)
	// joined to one to three distinguishing vertices with random neighbourhoods in the part; as
	// it is, complemented, and together with a disjoint copy of the part
	for s0 := 18; s0 <= 45; s0++ {
		for rep := 0; rep < g.Pick(2, 5); rep++ {
			var part *cx.G
			if g.Rng.Intn(3) == 0 {
				var d []int
				for b := 1; b <= s0/2; b++ {
					if g.Rng.Intn(4) == 0 {
						d = append(d, b)
					}
				}
				if len(d) == 0 {
					d = []int{1}
				}
				part = cx.Circulant(s0, d...)
			} else {
				part = cx.RandomRegularSwitch(g.Rng, s0, 3+g.Rng.Intn(4))
			}
			k := 1 + g.Rng.Intn(3)
			base := part
			if g.Rng.Intn(4) == 0 && 2*s0+k <= 62 {
				base = cx.Union(part, part)
			}
			gr := cx.New(base.N + k)
			for i := 0; i < base.N; i++ {
				for j := 0; j < i; j++ {
					if base.Adj[i][j] {
						gr.Add(i, j)
					}
				}
			}
			for x := 0; x < k; x++ {
				for i := 0; i < s0; i++ {
					if g.Rng.Intn(3) == 0 {
						gr.Add(base.N+x, i)
					}
				}
				if x > 0 && g.Rng.Bool() {
					gr.Add(base.N+x, base.N+x-1)
				}
			}
			if g.Rng.Intn(3) == 0 {
				gr = gr.Complement()
			}
			gr = gr.Relabel(g.Rng.Perm(gr.N))
			emitB("bigcell", gr, fewTok(), 60)
			emitRefine(g, "bigcell", gr)
		}
	}
	// volume on hard small graphs: random d-regular graphs (d = 3..6, n = 10..16; the refinement at
	// the root is trivial, so the search tree, the pruning and deage are exercised), random
	// circulants and their perturbations by one switch
	volTok := func() string { return fmt.Sprintf("rand:%d:%d", g.Rng.U64()>>1, g.Pick(40, 60)) }
	for i := 0; i < g.Pick(15000, 80000); i++ {
		n := g.Rng.Range(10, 16)
		d := g.Rng.Range(3, 6)
		if i%3 == 0 {
			d = 4 + 2*g.Rng.Intn(2)
		}
		gr := cx.RandomRegularSwitch(g.Rng, n, d)
		if g.Thorough() || i%5 < 2 {
			emitB("regular", gr, volTok(), g.Pick(24, 150))
		} else {
			// quick tier: the model is the slow side (about 1 ms per graph), three in five are oracle-only
			g.Emit("o:regular;" + gr.Graph6() + ";" + volTok())
		}
	}
	for i := 0; i < g.Pick(400, 3000); i++ {
		n := g.Rng.Range(10, 16)
		var d []int
		for b := 1; b <= n/2; b++ {
			if g.Rng.Intn(3) == 0 {
				d = append(d, b)
			}
		}
		if len(d) == 0 {
			d = []int{1, 2}
		}
		gr := cx.Circulant(n, d...)
		if i%2 == 1 {
			gr = cx.Perturb(g.Rng, gr, 2)
		}
		emitB("circulant", gr.Relabel(g.Rng.Perm(n)), volTok(), 150)
	}

	// hardening pass: provenance, reuse, aliasing, hidden state, vertex classes, sizes beyond 70
	genHarden(g)

	if !g.Thorough() {
		// one representative of every isomorphism class on 7 vertices x all 5040 relabellings
		reps := cx.ClassReps(7)
		if len(reps) != classCount[7] {
			g.Note(fmt.Sprintf("ClassReps(7) produced %d graphs, expected %d", len(reps), classCount[7]))
		}
		for _, r := range reps {
			emit("classrep", r, "all")
		}
		g.Exhaustive("one representative of every isomorphism class on 7 vertices (1044) x all 7! relabellings")
	}
	if g.Thorough() {
		// one representative of every isomorphism class (generated independently of the
		// library): all relabellings up to 7 vertices, 1500 random relabellings on 8
		for n := 5; n <= 8; n++ {
			reps := cx.ClassReps(n)
			if len(reps) != classCount[n] {
				g.Note(fmt.Sprintf("ClassReps(%d) produced %d graphs, expected %d", n, len(reps), classCount[n]))
			}
			for _, r := range reps {
				emit("classrep", r, "all")
			}
		}
		g.Exhaustive("one representative of every isomorphism class on n <= 8 vertices (1044 on 7, 12346 on 8) x all n! relabellings (n >= 7: reused storage, every 61st also through the public path)")
	}
}

// a random sequence of at most k+n/3 picks (indices into the first non-singleton cell; the run stops at an index out of range)
func randPicks(g *hx.Gen, k int) string {
	l := g.Rng.Intn(k + 1)
	p := make([]int, l)
	for i := range p {
		p[i] = g.Rng.Intn(3)
		if g.Rng.Intn(4) == 0 {
			p[i] = g.Rng.Intn(8)
		}
	}
	if l == 0 {
		return "-"
	}
	return cx.PermString(p)
}

// one or two refinement-only cases on gr: without classes, and with a random ordered partition into classes
func emitRefine(g *hx.Gen, fam string, gr *cx.G) {
	n := gr.N
	head := "r:" + fam + ";" + gr.Graph6() + ";"
	g.Emit(head + "cls=- picks=" + randPicks(g, 2+n/3))
	if g.Rng.Intn(2) == 0 {
		k := 1 + g.Rng.Intn(3)
		if k > n {
			k = n
		}
		cls := make([][]int, k)
		p := g.Rng.Perm(n)
		for i, v := range p {
			j := i
			if i >= k {
				j = g.Rng.Intn(k)
			}
			cls[j] = append(cls[j], v)
		}
		g.Emit(head + "cls=" + cx.ClassesString(cls) + " picks=" + randPicks(g, 2+n/3))
	}
}

// all ordered partitions of 0..n-1 into non-empty classes (members ascending)
func orderedPartitions(n int) [][][]int {
	var out [][][]int
	lab := make([]int, n)
	var rec func(i, k int)
	rec = func(i, k int) {
		if i == n {
			// lab is a surjection onto 0..k-1 only if every label occurs
			cnt := make([]int, k)
			for _, l := range lab {
				cnt[l]++
			}
			for _, c := range cnt {
				if c == 0 {
					return
				}
			}
			cls := make([][]int, k)
			for v, l := range lab {
				cls[l] = append(cls[l], v)
			}
			out = append(out, cls)
			return
		}
		for l := 0; l < k; l++ {
			lab[i] = l
			rec(i+1, k)
		}
	}
	for k := 1; k <= n; k++ {
		rec(0, k)
	}
	return out
}

func main() {
	hx.Main(hx.Prop{
		Rule:        "modes m/o/c: case = graph + set of relabellings; every relabelled copy is canonised (dense and sparse) and compared with the canonical graph of the original; non-trivial = the graph has a non-trivial automorphism group (independent backtracking search; above 16 vertices the orbits returned by the library) and at least one relabelling is not the identity; mode r: case = graph + vertex classes + picks, non-trivial = the refinement split at least one cell; distinct by case text",
		Gen:         gen,
		Exec:        exec,
		CaseTimeout: 120 * time.Second,
		MemMB:       4096,
	})
}
