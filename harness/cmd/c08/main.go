// Command c08 feeds arbitrary byte strings to Graph6Decode and Sparse6Decode (C08): the
// malformed stream of the codec properties.  Every call runs under recover and the per-case
// watchdog of hx; the observation is ok:<graph dump>;re=<dump after re-encoding and decoding
// again> / err / panic / hang.
//
// Case lines:   g;hh hh hh ...    Graph6Decode of the bytes hh (hex)
//               s;hh hh hh ...    Sparse6Decode
//               q;g=hhhh s=hhhh ...   a sequence of decoder calls in ONE process whose results are
//                                 all held until the end and dumped only then (a result must not
//                                 change because of a later call; a call must not depend on an
//                                 earlier one); observation = the per-call observations joined by |
//
// Sparse6Decode allocates n neighbour lists before it looks at the stream, so strings that
// declare n > 4096 (the resource bound of the property) are not run: "skipped" on both sides.
package main

import (
	"fmt"
	"strings"
	"time"

	"github.com/Tom-Johnston/mamba/graph"
	"verifharness/cmd/c07/codecobs"
	"verifharness/hx"
)

type edge = codecobs.Edge

const maxDeclared = 4096
const maxReencode = 128

func caseLine(kind byte, s []byte) string {
	var sb strings.Builder
	sb.WriteByte(kind)
	sb.WriteByte(';')
	for i, c := range s {
		if i > 0 {
			sb.WriteByte(' ')
		}
		fmt.Fprintf(&sb, "%02x", c)
	}
	return sb.String()
}

// declared n of a sparse6 string, following the decoder's own order of tests
func sparseDeclared(s []byte) (int, bool) {
	if strings.HasPrefix(string(s), ">>sparse6<<") {
		s = s[11:]
	}
	if len(s) == 0 || s[0] != ':' {
		return 0, false
	}
	for _, c := range s[1:] {
		if c < 63 || c > 126 {
			return 0, false
		}
	}
	return codecobs.DeclaredN(s[1:])
}

func graphDeclared(s []byte) (int, bool) {
	if strings.HasPrefix(string(s), ">>graph6<<") {
		s = s[10:]
	}
	for _, c := range s {
		if c < 63 || c > 126 {
			return 0, false
		}
	}
	if len(s) == 0 {
		return 0, true
	}
	return codecobs.DeclaredN(s)
}

// wellFormed checks the graph value against its own observers: symmetric IsEdge without loops
// that agrees with Neighbours; M and Degrees are part of the dump compared with the model.
func wellFormed(g graph.Graph) string {
	n := g.N()
	if n > 300 {
		// quadratic test only for moderate sizes; the dump still covers M, Degrees, Neighbours
		return ""
	}
	for v := 0; v < n; v++ {
		nb := map[int]bool{}
		for _, u := range g.Neighbours(v) {
			if u < 0 || u >= n || u == v || nb[u] {
				return fmt.Sprintf("Neighbours(%d) contains %d (out of range, a loop or repeated)", v, u)
			}
			nb[u] = true
		}
		for u := 0; u < n; u++ {
			if g.IsEdge(v, u) != nb[u] {
				return fmt.Sprintf("IsEdge(%d,%d) = %v disagrees with Neighbours(%d)", v, u, g.IsEdge(v, u), v)
			}
			if g.IsEdge(v, u) != g.IsEdge(u, v) {
				return fmt.Sprintf("IsEdge(%d,%d) is not symmetric", v, u)
			}
		}
	}
	return ""
}

func exec(line string) hx.Result {
	var res hx.Result
	i := strings.Index(line, ";")
	if i < 1 {
		return hx.Result{Obs: "badcase"}
	}
	kind := line[0]
	if kind == 'q' {
		return execSeq(strings.Fields(line[i+1:]))
	}
	s := codecobs.UnHex(line[i+1:])
	str := string(s)
	fail := func(key, f string, a ...interface{}) { res.Viol = append(res.Viol, hx.Fail(key, f, a...)) }
	var g graph.Graph
	var err error
	var ok bool
	var decl int
	var declOK bool
	switch kind {
	case 'g':
		decl, declOK = graphDeclared(s)
		var dg *graph.DenseGraph
		ok = codecobs.Call(func() { dg, err = graph.Graph6Decode(str) })
		g = dg
	case 's':
		decl, declOK = sparseDeclared(s)
		if declOK && decl > maxDeclared {
			return hx.Result{Obs: "skipped", Buckets: []string{"sparse6/declared n > 4096 (not run)"}}
		}
		var sg *graph.SparseGraph
		ok = codecobs.Call(func() { sg, err = graph.Sparse6Decode(str) })
		g = sg
	default:
		return hx.Result{Obs: "badcase"}
	}
	name := map[byte]string{'g': "graph6", 's': "sparse6"}[kind]
	switch {
	case !ok:
		res.Obs = "panic"
		res.Nontrivial = true
		fail("C08:panic:"+name, "%sDecode(%q) panicked", strings.Title(name), str)
	case err != nil:
		res.Obs = "err"
		res.Nontrivial = true
		if w := specAgrees(kind, s, ""); w != "" {
			fail("C08:format:"+name, "%s", w)
		}
	default:
		d := codecobs.Descr(g)
		if !declOK || g.N() != decl {
			fail("C08:declared-n:"+name, "decoded a graph on %d vertices, the string declares %d (readable: %v)", g.N(), decl, declOK)
		}
		if w := wellFormed(g); w != "" {
			fail("C08:wf:"+name, "the decoded graph is not well formed: %s", w)
		}
		if w := specAgrees(kind, s, d); w != "" {
			fail("C08:format:"+name, "%s", w)
		}
		// re-encode and decode again
		re := "panic"
		var enc string
		if codecobs.Call(func() {
			if kind == 'g' {
				enc = graph.Graph6Encode(g)
			} else {
				enc = graph.Sparse6Encode(g)
			}
		}) {
			var g2 graph.Graph
			var err2 error
			ok2 := codecobs.Call(func() {
				if kind == 'g' {
					var x *graph.DenseGraph
					x, err2 = graph.Graph6Decode(enc)
					g2 = x
				} else {
					var x *graph.SparseGraph
					x, err2 = graph.Sparse6Decode(enc)
					g2 = x
				}
			})
			switch {
			case !ok2:
				re = "decode-panic"
			case err2 != nil:
				re = "err"
			default:
				re = codecobs.Descr(g2)
			}
		}
		if re != d {
			fail("C08:reencode:"+name, "decoding, encoding and decoding %q again gives %s, was %s", str, re, d)
		}
		if g.N() > maxReencode {
			re = "na" // the model side re-encodes only moderate sizes; the oracle above covers the rest
		}
		res.Obs = "ok:" + d + ";re=" + re
		body := str
		if kind == 'g' {
			body = strings.TrimPrefix(body, ">>graph6<<")
		} else {
			body = strings.TrimPrefix(body, ">>sparse6<<")
		}
		res.Nontrivial = enc != body // not the canonical encoding of what it denotes
		if w := postEdit(g, d); w != "" {
			fail("C08:post-edit:"+name, "%s", w)
		}
	}
	out := res.Obs
	if j := strings.IndexAny(out, ":;"); j > 0 {
		out = out[:j]
	}
	res.Buckets = append(res.Buckets, name+"/"+out)
	return res
}


// stripHdr removes the optional header of the decoder kind.
func stripHdr(kind byte, s []byte) []byte {
	h := ">>graph6<<"
	if kind == 's' {
		h = ">>sparse6<<"
	}
	if strings.HasPrefix(string(s), h) {
		return s[len(h):]
	}
	return s
}

// specAgrees compares the outcome with an independent reading of the string by the format text
// (codecobs): dump == "" means the decoder returned an error.  Loops and repeated edges of a
// sparse6 string are dropped (a SparseGraph cannot hold them); the empty graph6 string is the
// documented exception.
func specAgrees(kind byte, s []byte, dump string) string {
	b := stripHdr(kind, s)
	var n int
	var es []edge
	var ok bool
	if kind == 'g' {
		if len(b) == 0 {
			return ""
		}
		if dn, dok := graphDeclared(s); dok && dn > 6000 {
			return "" // the transcription would allocate n^2/2 entries; the length test decides anyway
		}
		n, es, ok = codecobs.SpecGraph6(b)
	} else {
		n, es, ok = codecobs.SpecSparse6(b)
	}
	if !ok {
		if dump != "" {
			return fmt.Sprintf("the format text rejects %q, the decoder returned %s", string(s), dump)
		}
		return ""
	}
	want := codecobs.DescrOf(n, es)
	if dump == "" {
		return fmt.Sprintf("by the format text %q denotes %s, the decoder returned an error", string(s), want)
	}
	if dump != want {
		return fmt.Sprintf("by the format text %q denotes %s, the decoder returned %s", string(s), want, dump)
	}
	return ""
}

// postEdit uses the returned graph the way a caller may: it is an EditableGraph of its own, so
// adding and removing a vertex and an edge must bring back the same graph (storage shared
// between the lists of the result, or with another result, shows here).
func postEdit(g graph.Graph, dump string) string {
	eg, ok := g.(graph.EditableGraph)
	n := g.N()
	if !ok || n > 70 {
		return ""
	}
	msg := ""
	if !codecobs.Call(func() {
		var nb []int
		for v := 0; v < n; v += 2 {
			nb = append(nb, v)
		}
		eg.AddVertex(nb)
		for v := 0; v+1 < n; v++ {
			if !eg.IsEdge(v, v+1) {
				eg.AddEdge(v, v+1)
				if d := codecobs.Descr(eg); !strings.Contains(d, fmt.Sprintf("%d-%d", v+1, v)) {
					msg = fmt.Sprintf("after AddEdge(%d,%d) on the decoded graph the edge is missing: %s", v, v+1, d)
				}
				eg.RemoveEdge(v, v+1)
			}
		}
		eg.RemoveVertex(n)
		if d := codecobs.Descr(eg); d != dump && msg == "" {
			msg = fmt.Sprintf("after AddVertex/AddEdge/RemoveEdge/RemoveVertex the decoded graph is %s, was %s", d, dump)
		}
	}) {
		return "editing the decoded graph panicked"
	}
	return msg
}

// decodeOnce runs one decoder call; skipped = a sparse6 string declaring more than maxDeclared.
func decodeOnce(kind byte, s []byte) (g graph.Graph, outcome string) {
	str := string(s)
	var err error
	var ok bool
	if kind == 'g' {
		var dg *graph.DenseGraph
		ok = codecobs.Call(func() { dg, err = graph.Graph6Decode(str) })
		g = dg
	} else {
		if n, dok := sparseDeclared(s); dok && n > maxDeclared {
			return nil, "skipped"
		}
		var sg *graph.SparseGraph
		ok = codecobs.Call(func() { sg, err = graph.Sparse6Decode(str) })
		g = sg
	}
	switch {
	case !ok:
		return nil, "panic"
	case err != nil:
		return nil, "err"
	}
	return g, "ok"
}

// execSeq: the calls of a q case in order, every result held; the dumps are taken at the end and
// compared with the dumps taken right after each call.
func execSeq(toks []string) hx.Result {
	var res hx.Result
	res.Nontrivial = len(toks) > 1
	type held struct {
		g       graph.Graph
		outcome string
		early   string
	}
	hs := make([]held, len(toks))
	for i, t := range toks {
		if len(t) < 2 || t[1] != '=' {
			return hx.Result{Obs: "badcase"}
		}
		g, oc := decodeOnce(t[0], codecobs.UnHex(t[2:]))
		hs[i] = held{g: g, outcome: oc}
		if oc == "ok" {
			hs[i].early = codecobs.Descr(g)
		}
		if oc == "panic" {
			res.Viol = append(res.Viol, hx.Fail("C08:panic:seq", "call %d of the sequence (%s) panicked", i, t))
		}
	}
	parts := make([]string, len(toks))
	for i, h := range hs {
		parts[i] = h.outcome
		if h.outcome == "ok" {
			late := "panic"
			codecobs.Call(func() { late = codecobs.Descr(h.g) })
			parts[i] = "ok:" + late
			if late != h.early {
				res.Viol = append(res.Viol, hx.Fail("C08:aliasing:seq", "the graph returned by call %d (%s) was %s and is %s after the later calls", i, toks[i], h.early, late))
			}
		}
	}
	res.Obs = strings.Join(parts, "|")
	res.Buckets = []string{fmt.Sprintf("sequence/%d calls", len(toks))}
	return res
}

// ---------------------------------------------------------------- generation

func randEdges(r *hx.Rng, n, num, den int) []edge {
	var es []edge
	for v := 1; v < n; v++ {
		for u := 0; u < v; u++ {
			if r.Chance(num, den) {
				es = append(es, edge{V: v, U: u})
			}
		}
	}
	return es
}


func bytesOf(c byte, l int) []byte {
	b := make([]byte, l)
	for i := range b {
		b[i] = c
	}
	return b
}

func dedup(n int, es []edge) []edge {
	seen := map[edge]bool{}
	var out []edge
	for _, e := range es {
		if e.U < e.V && e.V < n && !seen[e] {
			seen[e] = true
			out = append(out, e)
		}
	}
	codecobs.SortEdges(out)
	return out
}

// foreignSparse6 writes (n, es) as a sparse6 string in a legal way the library's own encoder
// never uses.
func foreignSparse6(r *hx.Rng, n int, es []edge) []byte {
	k := codecobs.BitsFor(n)
	rows := map[int][]int{}
	var order []int
	for _, e := range es {
		if len(rows[e.V]) == 0 {
			order = append(order, e.V)
		}
		rows[e.V] = append(rows[e.V], e.U)
	}
	style := r.Intn(4)
	var bits []byte
	v := 0
	for _, i := range order {
		us := rows[i]
		if style == 1 || (style == 3 && r.Bool()) { // descending order inside the row
			for a, b := 0, len(us)-1; a < b; a, b = a+1, b-1 {
				us[a], us[b] = us[b], us[a]
			}
		}
		if i != v {
			switch {
			case i == v+1 && style != 2 && r.Bool():
				// the usual b = 1 move is folded into the first edge below
			default:
				// move by x > v (also to the next vertex), with b = 0 or, two or more ahead, b = 1
				if i >= v+2 && r.Bool() {
					bits = codecobs.PairBits(bits, 1, i, k)
				} else {
					bits = codecobs.PairBits(bits, 0, i, k)
				}
				v = i
			}
		}
		for j, u := range us {
			if i == v+1 && j == 0 {
				bits = codecobs.PairBits(bits, 1, u, k)
				v = i
			} else {
				bits = codecobs.PairBits(bits, 0, u, k)
			}
			if style == 3 && r.Chance(1, 4) {
				bits = codecobs.PairBits(bits, 0, u, k) // the edge again
			}
			if style == 3 && r.Chance(1, 6) {
				bits = codecobs.PairBits(bits, 0, v, k) // a loop
			}
		}
	}
	// padding: 1 bits by the rule; 0 bits are read as nothing when fewer than k+1 of them remain
	pad := byte(1)
	if rem := (6 - len(bits)%6) % 6; rem > 0 {
		if rem < k+1 && r.Bool() {
			pad = 0
		} else if (n == 2 || n == 4 || n == 8 || n == 16) && v == n-2 && rem >= k+1 {
			bits = append(bits, 0)
		}
	}
	return append(append([]byte{':'}, codecobs.EncN(n, 0)...), codecobs.PackBits(bits, pad)...)
}

func gen(g *hx.Gen) {
	r := g.Rng
	emit := func(kind byte, s []byte) {
		if kind == 's' {
			if n, ok := sparseDeclared(s); ok && n > maxDeclared {
				return
			}
		}
		g.Emit(caseLine(kind, s))
	}
	both := func(s []byte) { emit('g', s); emit('s', s) }
	// corpus: the strings on which the pinned tree panicked
	for _, s := range []string{"~", "", ":", ":A", ":An", ":A~", ":?", ":@", ":~", ":~~", "~~", "~?", "~??", "~~?????", ":Fa@x^", ":Bd", ":Bf"} {
		both([]byte(s))
	}
	// all strings of length <= 3 over the 9-letter alphabet, bare, behind ':' and behind the headers
	alpha := []byte{0x00, '>', ':', '?', '@', 'A', '^', '~', 0x7f}
	var all [][]byte
	var rec func(cur []byte, left int)
	rec = func(cur []byte, left int) {
		all = append(all, append([]byte(nil), cur...))
		if left == 0 {
			return
		}
		for _, c := range alpha {
			rec(append(cur, c), left-1)
		}
	}
	rec(nil, 3)
	for _, s := range all {
		both(s)
		emit('s', append([]byte(":"), s...))
		emit('g', append([]byte(">>graph6<<"), s...))
		emit('s', append([]byte(">>sparse6<<"), s...))
		emit('s', append([]byte(">>sparse6<<:"), s...))
	}
	g.Exhaustive("all strings of length <= 3 over {00, '>', ':', '?', '@', 'A', '^', '~', 7f}: bare for both decoders, behind ':' and behind the optional headers")
	// all strings of length <= 2 over the whole range 62..127 behind ':' (every header byte, every first data byte)
	for a := 62; a <= 127; a++ {
		emit('g', []byte{byte(a)})
		emit('s', []byte{':', byte(a)})
		for b := 62; b <= 127; b++ {
			emit('g', []byte{byte(a), byte(b)})
			emit('s', []byte{':', byte(a), byte(b)})
		}
	}
	g.Exhaustive("all strings of length <= 2 over the bytes 62..127 (graph6 bare, sparse6 behind ':')")
	dens := [][2]int{{0, 1}, {1, 20}, {3, 10}, {1, 2}, {1, 1}}
	// the positions at which a string is cut / corrupted: all of them for short strings, the
	// header region, the tail and a random sample for long ones
	positions := func(l int) []int {
		var ps []int
		if l <= 40 {
			for p := 0; p < l; p++ {
				ps = append(ps, p)
			}
			return ps
		}
		for p := 0; p < 10; p++ {
			ps = append(ps, p)
		}
		for c := 0; c < 14; c++ {
			ps = append(ps, 10+r.Intn(l-16))
		}
		for p := l - 6; p < l; p++ {
			ps = append(ps, p)
		}
		return ps
	}
	corrupt := func(kind byte, enc []byte) {
		ps := positions(len(enc))
		// truncations
		for _, l := range ps {
			emit(kind, enc[:l])
		}
		// one-byte corruptions
		for _, p := range ps {
			for _, c := range []byte{0x00, 62, 63, 126, 127, enc[p] ^ (1 << uint(r.Intn(6))), byte(r.Intn(256)), enc[p] + 64, enc[p] + 128, enc[p] ^ 0x80, 0x80, 0xff} {
				if c == enc[p] {
					continue
				}
				m := append([]byte(nil), enc...)
				m[p] = c
				emit(kind, m)
			}
		}
		// one byte too many, a few bytes too many
		emit(kind, append(append([]byte(nil), enc...), byte(63+r.Intn(64))))
		emit(kind, append(append([]byte(nil), enc...), 126, 126, 126))
		emit(kind, enc)
	}
	for i := 0; i < g.Pick(120, 2000); i++ {
		n := r.Range(0, 12)
		if i%4 == 0 {
			n = r.Range(13, 34)
		}
		if i%15 == 0 {
			n = []int{62, 63, 64, 100}[r.Intn(4)]
		}
		d := dens[r.Intn(len(dens))]
		if n >= 20 {
			d = dens[r.Intn(3)]
		}
		if n >= 62 {
			d = dens[r.Intn(2)]
		}
		es := randEdges(r, n, d[0], d[1])
		if n < 62 || g.Thorough() || i%30 == 0 {
			corrupt('g', codecobs.SpecGraph6Encode(n, es, 0))
		}
		corrupt('s', codecobs.SpecSparse6Encode(n, es, 0))
	}
	// inconsistent size headers: the 1/4/8-byte forms of the same n, with the right, too few and
	// too many data bytes
	for i := 0; i < g.Pick(150, 3000); i++ {
		n := r.Range(0, 70)
		switch r.Intn(6) {
		case 0:
			n = r.Range(0, 4)
		case 1:
			n = []int{62, 63, 64, 4095, 4096}[r.Intn(5)]
		}
		form := []int{4, 8}[r.Intn(2)]
		d := dens[r.Intn(len(dens))]
		var es []edge
		if n <= 70 {
			es = randEdges(r, n, d[0], d[1])
		} else {
			for e := 0; e < r.Range(0, 6); e++ {
				v := r.Range(1, n-1)
				es = append(es, edge{V: v, U: r.Intn(v)})
			}
			codecobs.SortEdges(es)
		}
		s6 := codecobs.SpecSparse6Encode(n, es, form)
		emit('s', s6)
		if len(s6) > 1 {
			emit('s', s6[:len(s6)-1])
		}
		emit('s', append(append([]byte(nil), s6...), byte(63+r.Intn(64))))
		if n <= 70 {
			g6 := codecobs.SpecGraph6Encode(n, es, form)
			emit('g', g6)
			if len(g6) > 0 {
				emit('g', g6[:len(g6)-1])
			}
			emit('g', append(append([]byte(nil), g6...), byte(63+r.Intn(64))))
		} else {
			// a dense header announcing n <= 4096 with far too few bytes
			emit('g', append(codecobs.EncN(n, form), byte(63+r.Intn(64))))
		}
	}
	// headers announcing large n (graph6: rejected by the length test; 8-byte form around 2^32)
	for _, n := range []int{4097, 258047, 258048, 1 << 32, 1<<32 + 1, 1<<36 - 1, 3037000499, 3037000500, 3037000501} {
		for _, form := range []int{4, 8} {
			if form == 4 && n > 258047 {
				continue
			}
			h := codecobs.EncN(n, form)
			emit('g', h)
			emit('g', append(append([]byte(nil), h...), 63, 126, 100))
		}
	}
	// sparse6 streams of arbitrary pairs: x up to 2^k-1 >= n, vertex pointer running past n,
	// loops, repeated edges, edges named in descending order
	for i := 0; i < g.Pick(800, 20000); i++ {
		n := r.Range(0, 20)
		switch r.Intn(8) {
		case 0:
			n = r.Range(0, 3)
		case 1:
			n = r.Range(17, 33)
		case 2:
			n = r.Range(60, 70)
		}
		k := codecobs.BitsFor(n)
		var bits []byte
		cnt := r.Range(0, 12)
		for c := 0; c < cnt; c++ {
			b := byte(r.Intn(2))
			x := r.Intn(1 << uint(k))
			if r.Chance(1, 3) && n > 0 {
				x = r.Intn(n)
			}
			bits = codecobs.PairBits(bits, b, x, k)
		}
		// sometimes a partial pair at the end
		for c := r.Intn(k + 2); c > 0 && r.Bool(); c-- {
			bits = append(bits, byte(r.Intn(2)))
		}
		s := append([]byte{':'}, codecobs.EncN(n, []int{0, 0, 0, 4, 8}[r.Intn(5)])...)
		s = append(s, codecobs.PackBits(bits, byte(r.Intn(2)))...)
		emit('s', s)
	}
	// ---- hardening pass (notes/C08.md, "Hardening pass: dimensions")
	hexOf := func(b []byte) string { return codecobs.Hex(b) }
	var pool [][2]string // (kind, hex) of strings emitted below, reused by the sequences
	keep := func(kind byte, b []byte) {
		emit(kind, b)
		if kind == 's' {
			if n, ok := sparseDeclared(b); ok && n > maxDeclared {
				return
			}
		}
		if len(b) <= 400 {
			pool = append(pool, [2]string{string(kind), hexOf(b)})
		}
	}
	// (1) sizes across thresholds: declared n and string lengths just below / at / above powers
	// of two; sparse6 pair width k changes at every power of two
	sizes := []int{7, 8, 9, 15, 16, 17, 31, 32, 33, 63, 64, 65, 127, 128, 129, 255, 256, 257, 511, 512, 513, 1023, 1024, 1025, 2047, 2048, 4095, 4096}
	for _, n := range sizes {
		k := codecobs.BitsFor(n)
		for c := 0; c < g.Pick(2, 10); c++ {
			// a valid edge list with few edges (written by the independent encoder) and its corruptions
			var es []edge
			for e := 0; e < r.Range(1, 8); e++ {
				v := r.Range(1, n-1)
				if r.Chance(1, 3) {
					v = n - 1 - r.Intn(2)
				}
				es = append(es, edge{V: v, U: r.Intn(v)})
			}
			es = dedup(n, es)
			enc := codecobs.SpecSparse6Encode(n, es, 0)
			keep('s', enc)
			keep('s', enc[:len(enc)-1])
			m := append([]byte(nil), enc...)
			m[len(m)-1] ^= byte(1 << uint(r.Intn(6)))
			keep('s', m)
			// arbitrary pairs at that width, string length aimed at a threshold
			target := []int{7, 8, 9, 15, 16, 17, 31, 32, 33, 63, 64, 65, 127, 128, 129, 255, 256, 257}[r.Intn(18)]
			if !g.Thorough() && target > 129 && c > 0 {
				target = 33
			}
			var bits []byte
			for len(bits) < 6*target-k {
				x := r.Intn(1 << uint(k))
				if r.Chance(1, 2) {
					x = r.Intn(n)
				}
				bits = codecobs.PairBits(bits, byte(r.Intn(3)/2), x, k)
			}
			keep('s', append(append([]byte{':'}, codecobs.EncN(n, 0)...), codecobs.PackBits(bits, byte(r.Intn(2)))...))
		}
		// graph6 at that size (the string has n(n-1)/12 bytes: up to n = 129 in quick, 257 in thorough)
		if n <= g.Pick(129, 257) {
			var es []edge
			for e := 0; e < r.Range(1, 8); e++ {
				v := r.Range(1, n-1)
				es = append(es, edge{V: v, U: r.Intn(v)})
			}
			es = append(es, edge{V: n - 1, U: n - 2})
			es = dedup(n, es)
			enc := codecobs.SpecGraph6Encode(n, es, 0)
			keep('g', enc)
			keep('g', enc[:len(enc)-1])
			m := append([]byte(nil), enc...)
			m[len(m)-1] ^= 2
			keep('g', m)
			m = append([]byte(nil), enc...)
			m[len(m)/2] ^= 0x80
			emit('g', m)
		}
	}
	// (2),(10) asymmetric sizes and extreme internal state: a tiny declared n in front of a long
	// stream (k = 0: every bit is a pair), the vertex pointer run far past n (hundreds of b = 1
	// pairs), all-ones / all-zeros / alternating streams, walks of the pointer across n-2, n-1, n
	for _, n := range []int{0, 1, 2, 3, 4, 5, 8, 16, 17, 31, 32, 33, 64, 100, 200, 255, 256, 257, 300} {
		k := codecobs.BitsFor(n)
		hdr := append([]byte{':'}, codecobs.EncN(n, 0)...)
		for _, l := range []int{1, 5, 43, 44, 86, 171, 172, 300} {
			if !g.Thorough() && l > 172 && n > 5 {
				continue
			}
			for _, fill := range []byte{63, 126, 63 + 21, 63 + 42, 63 + 32} {
				if !g.Thorough() && fill != 126 && (l+n)%3 != 0 {
					continue
				}
				keep('s', append(append([]byte(nil), hdr...), bytesOf(fill, l)...))
			}
		}
		// many pairs (1, x): the pointer climbs one by one far beyond n; then small x again
		for _, cnt := range []int{n + 2, 255, 256, 257, 300} {
			if cnt*(k+1) > 6*420 {
				continue
			}
			var bits []byte
			for c := 0; c < cnt; c++ {
				bits = codecobs.PairBits(bits, 1, 0, k)
			}
			bits = codecobs.PairBits(bits, 0, 0, k)
			if n > 1 {
				bits = codecobs.PairBits(bits, 0, n-1, k)
			}
			keep('s', append(append([]byte(nil), hdr...), codecobs.PackBits(bits, 1)...))
		}
		// the pointer walks across n-2, n-1, n with every interesting x
		if n >= 2 {
			xs := []int{0, 1, n - 2, n - 1, n, (1 << uint(k)) - 1}
			for c := 0; c < g.Pick(3, 12); c++ {
				var bits []byte
				bits = codecobs.PairBits(bits, 0, n-2-r.Intn(2)*r.Intn(n-1), k)
				for p := 0; p < r.Range(2, 7); p++ {
					x := xs[r.Intn(len(xs))]
					if x < 0 || x >= 1<<uint(k) {
						x = 0
					}
					bits = codecobs.PairBits(bits, byte(r.Intn(2)), x, k)
				}
				keep('s', append(append([]byte(nil), hdr...), codecobs.PackBits(bits, byte(r.Intn(2)))...))
			}
		}
	}
	// (12) foreign but valid sparse6 strings: other legal ways of writing the same graph (pointer
	// moved by x > v also to the next vertex, edges of a row in descending order, every row
	// announced by a jump, repeated edges and loops, padding with 0 bits where that is harmless)
	for i := 0; i < g.Pick(250, 5000); i++ {
		n := r.Range(2, 40)
		if i%5 == 0 {
			n = []int{4, 8, 16, 32, 64, 65, 128, 129}[r.Intn(8)]
		}
		d := dens[1+r.Intn(3)]
		if n > 40 {
			d = dens[1]
		}
		es := randEdges(r, n, d[0], d[1])
		keep('s', foreignSparse6(r, n, es))
	}
	// small valid and nearly valid graph6 strings for the sequences
	for i := 0; i < g.Pick(60, 600); i++ {
		n := r.Range(0, 14)
		d := dens[r.Intn(len(dens))]
		enc := codecobs.SpecGraph6Encode(n, randEdges(r, n, d[0], d[1]), []int{0, 0, 0, 4, 8}[r.Intn(5)])
		keep('g', enc)
		if len(enc) > 1 && r.Bool() {
			keep('g', enc[:len(enc)-1])
		}
	}
	// (6),(8) sequences in one process: results held across later calls (sizes going down and up,
	// errors in between, the same string twice)
	if len(pool) > 0 {
		for i := 0; i < g.Pick(400, 6000); i++ {
			cnt := r.Range(2, 6)
			toks := make([]string, 0, cnt+1)
			for c := 0; c < cnt; c++ {
				p := pool[r.Intn(len(pool))]
				toks = append(toks, p[0]+"="+p[1])
			}
			if r.Chance(1, 3) {
				toks = append(toks, toks[0])
			}
			g.Emit("q;" + strings.Join(toks, " "))
		}
	}
	// random bytes
	for i := 0; i < g.Pick(1500, 40000); i++ {
		l := r.Range(0, 14)
		s := make([]byte, l)
		for j := range s {
			switch r.Intn(10) {
			case 0:
				s[j] = byte(r.Intn(256))
			case 1:
				s[j] = []byte{62, 63, 126, 127, ':', 0}[r.Intn(6)]
			default:
				s[j] = byte(63 + r.Intn(64))
			}
		}
		switch i % 4 {
		case 0:
			emit('g', s)
		case 1:
			emit('s', s)
		case 2:
			emit('s', append([]byte(":"), s...))
		default:
			if l > 0 && r.Bool() {
				s[0] = byte(63 + r.Intn(30)) // a small declared n: the data part is long enough more often
			}
			emit('g', s)
			emit('s', append([]byte(":"), s...))
		}
	}
}

func main() {
	hx.Main(hx.Prop{
		Rule:        "case = (decoder, byte string) or a sequence of such calls in one process; non-trivial = the string is not the encoding the library itself produces for what it decodes to (errors and panics count); distinct by case text; buckets per decoder and outcome",
		Gen:         gen,
		Exec:        exec,
		CaseTimeout: 10 * time.Second,
		MemMB:       2048,
	})
}
