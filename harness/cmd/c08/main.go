// Command c08 feeds arbitrary byte strings to Graph6Decode and Sparse6Decode (C08): the
// malformed stream of the codec properties.  Every call runs under recover and the per-case
// watchdog of hx; the observation is ok:<graph dump>;re=<dump after re-encoding and decoding
// again> / err / panic / hang.
//
// Case lines:   g;hh hh hh ...    Graph6Decode of the bytes hh (hex)
//               s;hh hh hh ...    Sparse6Decode
//
// Sparse6Decode allocates n neighbour lists before it looks at the stream, so strings that
// declare n > 4096 (the resource bound of the property) are not run: "skipped" on both sides.
package main

import (
	"fmt"
	"strings"
	"time"

	"github.com/Tom-Johnston/mamba/graph"
	"verifharness/cmd/c07/codecobs"
	"verifharness/hx"
)

type edge = codecobs.Edge

const maxDeclared = 4096
const maxReencode = 128

func caseLine(kind byte, s []byte) string {
	var sb strings.Builder
	sb.WriteByte(kind)
	sb.WriteByte(';')
	for i, c := range s {
		if i > 0 {
			sb.WriteByte(' ')
		}
		fmt.Fprintf(&sb, "%02x", c)
	}
	return sb.String()
}

// declared n of a sparse6 string, following the decoder's own order of tests
func sparseDeclared(s []byte) (int, bool) {
	if strings.HasPrefix(string(s), ">>sparse6<<") {
		s = s[11:]
	}
	if len(s) == 0 || s[0] != ':' {
		return 0, false
	}
	for _, c := range s[1:] {
		if c < 63 || c > 126 {
			return 0, false
		}
	}
	return codecobs.DeclaredN(s[1:])
}

func graphDeclared(s []byte) (int, bool) {
	if strings.HasPrefix(string(s), ">>graph6<<") {
		s = s[10:]
	}
	for _, c := range s {
		if c < 63 || c > 126 {
			return 0, false
		}
	}
	if len(s) == 0 {
		return 0, true
	}
	return codecobs.DeclaredN(s)
}

// wellFormed checks the graph value against its own observers: symmetric IsEdge without loops
// that agrees with Neighbours; M and Degrees are part of the dump compared with the model.
func wellFormed(g graph.Graph) string {
	n := g.N()
	if n > 300 {
		// quadratic test only for moderate sizes; the dump still covers M, Degrees, Neighbours
		return ""
	}
	for v := 0; v < n; v++ {
		nb := map[int]bool{}
		for _, u := range g.Neighbours(v) {
			if u < 0 || u >= n || u == v || nb[u] {
				return fmt.Sprintf("Neighbours(%d) contains %d (out of range, a loop or repeated)", v, u)
			}
			nb[u] = true
		}
		for u := 0; u < n; u++ {
			if g.IsEdge(v, u) != nb[u] {
				return fmt.Sprintf("IsEdge(%d,%d) = %v disagrees with Neighbours(%d)", v, u, g.IsEdge(v, u), v)
			}
			if g.IsEdge(v, u) != g.IsEdge(u, v) {
				return fmt.Sprintf("IsEdge(%d,%d) is not symmetric", v, u)
			}
		}
	}
	return ""
}

func exec(line string) hx.Result {
	var res hx.Result
	i := strings.Index(line, ";")
	if i < 1 {
		return hx.Result{Obs: "badcase"}
	}
	kind := line[0]
	s := codecobs.UnHex(line[i+1:])
	str := string(s)
	fail := func(key, f string, a ...interface{}) { res.Viol = append(res.Viol, hx.Fail(key, f, a...)) }
	var g graph.Graph
	var err error
	var ok bool
	var decl int
	var declOK bool
	switch kind {
	case 'g':
		decl, declOK = graphDeclared(s)
		var dg *graph.DenseGraph
		ok = codecobs.Call(func() { dg, err = graph.Graph6Decode(str) })
		g = dg
	case 's':
		decl, declOK = sparseDeclared(s)
		if declOK && decl > maxDeclared {
			return hx.Result{Obs: "skipped", Buckets: []string{"sparse6/declared n > 4096 (not run)"}}
		}
		var sg *graph.SparseGraph
		ok = codecobs.Call(func() { sg, err = graph.Sparse6Decode(str) })
		g = sg
	default:
		return hx.Result{Obs: "badcase"}
	}
	name := map[byte]string{'g': "graph6", 's': "sparse6"}[kind]
	switch {
	case !ok:
		res.Obs = "panic"
		res.Nontrivial = true
		fail("C08:panic:"+name, "%sDecode(%q) panicked", strings.Title(name), str)
	case err != nil:
		res.Obs = "err"
		res.Nontrivial = true
	default:
		d := codecobs.Descr(g)
		if !declOK || g.N() != decl {
			fail("C08:declared-n:"+name, "decoded a graph on %d vertices, the string declares %d (readable: %v)", g.N(), decl, declOK)
		}
		if w := wellFormed(g); w != "" {
			fail("C08:wf:"+name, "the decoded graph is not well formed: %s", w)
		}
		// re-encode and decode again
		re := "panic"
		var enc string
		if codecobs.Call(func() {
			if kind == 'g' {
				enc = graph.Graph6Encode(g)
			} else {
				enc = graph.Sparse6Encode(g)
			}
		}) {
			var g2 graph.Graph
			var err2 error
			ok2 := codecobs.Call(func() {
				if kind == 'g' {
					var x *graph.DenseGraph
					x, err2 = graph.Graph6Decode(enc)
					g2 = x
				} else {
					var x *graph.SparseGraph
					x, err2 = graph.Sparse6Decode(enc)
					g2 = x
				}
			})
			switch {
			case !ok2:
				re = "decode-panic"
			case err2 != nil:
				re = "err"
			default:
				re = codecobs.Descr(g2)
			}
		}
		if re != d {
			fail("C08:reencode:"+name, "decoding, encoding and decoding %q again gives %s, was %s", str, re, d)
		}
		if g.N() > maxReencode {
			re = "na" // the model side re-encodes only moderate sizes; the oracle above covers the rest
		}
		res.Obs = "ok:" + d + ";re=" + re
		body := str
		if kind == 'g' {
			body = strings.TrimPrefix(body, ">>graph6<<")
		} else {
			body = strings.TrimPrefix(body, ">>sparse6<<")
		}
		res.Nontrivial = enc != body // not the canonical encoding of what it denotes
	}
	out := res.Obs
	if j := strings.IndexAny(out, ":;"); j > 0 {
		out = out[:j]
	}
	res.Buckets = append(res.Buckets, name+"/"+out)
	return res
}

// ---------------------------------------------------------------- generation

func randEdges(r *hx.Rng, n, num, den int) []edge {
	var es []edge
	for v := 1; v < n; v++ {
		for u := 0; u < v; u++ {
			if r.Chance(num, den) {
				es = append(es, edge{V: v, U: u})
			}
		}
	}
	return es
}

func gen(g *hx.Gen) {
	r := g.Rng
	emit := func(kind byte, s []byte) {
		if kind == 's' {
			if n, ok := sparseDeclared(s); ok && n > maxDeclared {
				return
			}
		}
		g.Emit(caseLine(kind, s))
	}
	both := func(s []byte) { emit('g', s); emit('s', s) }
	// corpus: the strings on which the pinned tree panicked
	for _, s := range []string{"~", "", ":", ":A", ":An", ":A~", ":?", ":@", ":~", ":~~", "~~", "~?", "~??", "~~?????", ":Fa@x^", ":Bd", ":Bf"} {
		both([]byte(s))
	}
	// all strings of length <= 3 over the 9-letter alphabet, bare, behind ':' and behind the headers
	alpha := []byte{0x00, '>', ':', '?', '@', 'A', '^', '~', 0x7f}
	var all [][]byte
	var rec func(cur []byte, left int)
	rec = func(cur []byte, left int) {
		all = append(all, append([]byte(nil), cur...))
		if left == 0 {
			return
		}
		for _, c := range alpha {
			rec(append(cur, c), left-1)
		}
	}
	rec(nil, 3)
	for _, s := range all {
		both(s)
		emit('s', append([]byte(":"), s...))
		emit('g', append([]byte(">>graph6<<"), s...))
		emit('s', append([]byte(">>sparse6<<"), s...))
		emit('s', append([]byte(">>sparse6<<:"), s...))
	}
	g.Exhaustive("all strings of length <= 3 over {00, '>', ':', '?', '@', 'A', '^', '~', 7f}: bare for both decoders, behind ':' and behind the optional headers")
	// all strings of length <= 2 over the whole range 62..127 behind ':' (every header byte, every first data byte)
	for a := 62; a <= 127; a++ {
		emit('g', []byte{byte(a)})
		emit('s', []byte{':', byte(a)})
		for b := 62; b <= 127; b++ {
			emit('g', []byte{byte(a), byte(b)})
			emit('s', []byte{':', byte(a), byte(b)})
		}
	}
	g.Exhaustive("all strings of length <= 2 over the bytes 62..127 (graph6 bare, sparse6 behind ':')")
	dens := [][2]int{{0, 1}, {1, 20}, {3, 10}, {1, 2}, {1, 1}}
	// the positions at which a string is cut / corrupted: all of them for short strings, the
	// header region, the tail and a random sample for long ones
	positions := func(l int) []int {
		var ps []int
		if l <= 40 {
			for p := 0; p < l; p++ {
				ps = append(ps, p)
			}
			return ps
		}
		for p := 0; p < 10; p++ {
			ps = append(ps, p)
		}
		for c := 0; c < 14; c++ {
			ps = append(ps, 10+r.Intn(l-16))
		}
		for p := l - 6; p < l; p++ {
			ps = append(ps, p)
		}
		return ps
	}
	corrupt := func(kind byte, enc []byte) {
		ps := positions(len(enc))
		// truncations
		for _, l := range ps {
			emit(kind, enc[:l])
		}
		// one-byte corruptions
		for _, p := range ps {
			for _, c := range []byte{0x00, 62, 63, 126, 127, enc[p] ^ (1 << uint(r.Intn(6))), byte(r.Intn(256))} {
				if c == enc[p] {
					continue
				}
				m := append([]byte(nil), enc...)
				m[p] = c
				emit(kind, m)
			}
		}
		// one byte too many, a few bytes too many
		emit(kind, append(append([]byte(nil), enc...), byte(63+r.Intn(64))))
		emit(kind, append(append([]byte(nil), enc...), 126, 126, 126))
		emit(kind, enc)
	}
	for i := 0; i < g.Pick(120, 2000); i++ {
		n := r.Range(0, 12)
		if i%4 == 0 {
			n = r.Range(13, 34)
		}
		if i%15 == 0 {
			n = []int{62, 63, 64, 100}[r.Intn(4)]
		}
		d := dens[r.Intn(len(dens))]
		if n >= 20 {
			d = dens[r.Intn(3)]
		}
		if n >= 62 {
			d = dens[r.Intn(2)]
		}
		es := randEdges(r, n, d[0], d[1])
		if n < 62 || g.Thorough() || i%30 == 0 {
			corrupt('g', codecobs.SpecGraph6Encode(n, es, 0))
		}
		corrupt('s', codecobs.SpecSparse6Encode(n, es, 0))
	}
	// inconsistent size headers: the 1/4/8-byte forms of the same n, with the right, too few and
	// too many data bytes
	for i := 0; i < g.Pick(150, 3000); i++ {
		n := r.Range(0, 70)
		switch r.Intn(6) {
		case 0:
			n = r.Range(0, 4)
		case 1:
			n = []int{62, 63, 64, 4095, 4096}[r.Intn(5)]
		}
		form := []int{4, 8}[r.Intn(2)]
		d := dens[r.Intn(len(dens))]
		var es []edge
		if n <= 70 {
			es = randEdges(r, n, d[0], d[1])
		} else {
			for e := 0; e < r.Range(0, 6); e++ {
				v := r.Range(1, n-1)
				es = append(es, edge{V: v, U: r.Intn(v)})
			}
			codecobs.SortEdges(es)
		}
		s6 := codecobs.SpecSparse6Encode(n, es, form)
		emit('s', s6)
		if len(s6) > 1 {
			emit('s', s6[:len(s6)-1])
		}
		emit('s', append(append([]byte(nil), s6...), byte(63+r.Intn(64))))
		if n <= 70 {
			g6 := codecobs.SpecGraph6Encode(n, es, form)
			emit('g', g6)
			if len(g6) > 0 {
				emit('g', g6[:len(g6)-1])
			}
			emit('g', append(append([]byte(nil), g6...), byte(63+r.Intn(64))))
		} else {
			// a dense header announcing n <= 4096 with far too few bytes
			emit('g', append(codecobs.EncN(n, form), byte(63+r.Intn(64))))
		}
	}
	// headers announcing large n (graph6: rejected by the length test; 8-byte form around 2^32)
	for _, n := range []int{4097, 258047, 258048, 1 << 32, 1<<32 + 1, 1<<36 - 1, 3037000499, 3037000500, 3037000501} {
		for _, form := range []int{4, 8} {
			if form == 4 && n > 258047 {
				continue
			}
			h := codecobs.EncN(n, form)
			emit('g', h)
			emit('g', append(append([]byte(nil), h...), 63, 126, 100))
		}
	}
	// sparse6 streams of arbitrary pairs: x up to 2^k-1 >= n, vertex pointer running past n,
	// loops, repeated edges, edges named in descending order
	for i := 0; i < g.Pick(800, 20000); i++ {
		n := r.Range(0, 20)
		switch r.Intn(8) {
		case 0:
			n = r.Range(0, 3)
		case 1:
			n = r.Range(17, 33)
		case 2:
			n = r.Range(60, 70)
		}
		k := codecobs.BitsFor(n)
		var bits []byte
		cnt := r.Range(0, 12)
		for c := 0; c < cnt; c++ {
			b := byte(r.Intn(2))
			x := r.Intn(1 << uint(k))
			if r.Chance(1, 3) && n > 0 {
				x = r.Intn(n)
			}
			bits = codecobs.PairBits(bits, b, x, k)
		}
		// sometimes a partial pair at the end
		for c := r.Intn(k + 2); c > 0 && r.Bool(); c-- {
			bits = append(bits, byte(r.Intn(2)))
		}
		s := append([]byte{':'}, codecobs.EncN(n, []int{0, 0, 0, 4, 8}[r.Intn(5)])...)
		s = append(s, codecobs.PackBits(bits, byte(r.Intn(2)))...)
		emit('s', s)
	}
	// random bytes
	for i := 0; i < g.Pick(1500, 40000); i++ {
		l := r.Range(0, 14)
		s := make([]byte, l)
		for j := range s {
			switch r.Intn(10) {
			case 0:
				s[j] = byte(r.Intn(256))
			case 1:
				s[j] = []byte{62, 63, 126, 127, ':', 0}[r.Intn(6)]
			default:
				s[j] = byte(63 + r.Intn(64))
			}
		}
		switch i % 4 {
		case 0:
			emit('g', s)
		case 1:
			emit('s', s)
		case 2:
			emit('s', append([]byte(":"), s...))
		default:
			if l > 0 && r.Bool() {
				s[0] = byte(63 + r.Intn(30)) // a small declared n: the data part is long enough more often
			}
			emit('g', s)
			emit('s', append([]byte(":"), s...))
		}
	}
}

func main() {
	hx.Main(hx.Prop{
		Rule:        "case = (decoder, byte string); non-trivial = the string is not the encoding the library itself produces for what it decodes to (errors and panics count); distinct by case text; buckets per decoder and outcome",
		Gen:         gen,
		Exec:        exec,
		CaseTimeout: 10 * time.Second,
		MemMB:       2048,
	})
}
