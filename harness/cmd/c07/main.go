// Command c07 runs Graph6Encode/Decode and Sparse6Encode/Decode of /repo/graph/encoding.go on
// valid inputs (C07, graph6/sparse6 part): every graph is encoded from a dense or a sparse
// representation, the strings are decoded again with and without the optional header and the
// sparse6 string is also read by a transcription of the format text.  (Multicode and Pruefer
// have their own command, c07p.)
//
// Case lines:
//
//	G <rep> <n>;v-u v-u ...     a graph, rep = d (DenseGraph) or s (SparseGraph)
//	H <n>;v-u v-u ...           a stub Graph with N() = n and these few edges: reaches the sizes
//	                            n >= 2048 and the 8-byte header that no real graph value can
//	                            (observation: the header bytes; the rest is checked by oracles)
package main

import (
	"fmt"
	"strconv"
	"strings"
	"time"

	"github.com/Tom-Johnston/mamba/graph"
	"verifharness/cmd/c07/codecobs"
	"verifharness/hx"
)

type edge = codecobs.Edge

func decRes(g graph.Graph, err error, ok bool) string {
	if !ok {
		return "panic"
	}
	if err != nil {
		return "err"
	}
	return "ok:" + codecobs.Descr(g)
}

func g6dec(s string) string {
	var g *graph.DenseGraph
	var err error
	ok := codecobs.Call(func() { g, err = graph.Graph6Decode(s) })
	if !ok || err != nil {
		return decRes(nil, err, ok)
	}
	return decRes(g, nil, true)
}

func s6dec(s string) string {
	var g *graph.SparseGraph
	var err error
	ok := codecobs.Call(func() { g, err = graph.Sparse6Decode(s) })
	if !ok || err != nil {
		return decRes(nil, err, ok)
	}
	return decRes(g, nil, true)
}

func specText(n int, es []edge, ok bool) string {
	if !ok {
		return "invalid"
	}
	var sb strings.Builder
	fmt.Fprintf(&sb, "%d:", n)
	for i, e := range es {
		if i > 0 {
			sb.WriteByte(',')
		}
		fmt.Fprintf(&sb, "%d-%d", e.V, e.U)
	}
	return sb.String()
}

func cleanEdges(n int, es []edge) []edge {
	seen := map[edge]bool{}
	var out []edge
	for _, e := range es {
		if e.U != e.V && e.U >= 0 && e.V < n && !seen[e] {
			seen[e] = true
			out = append(out, e)
		}
	}
	codecobs.SortEdges(out)
	return out
}

func hdrSize(n int) int {
	if n <= 62 {
		return 1
	}
	if n <= 258047 {
		return 4
	}
	return 8
}

func execGraph(rep string, n int, es []edge) hx.Result {
	var res hx.Result
	es = cleanEdges(n, es)
	g, okProv := codecobs.BuildProv(rep, n, es)
	if !okProv {
		// the library did not deliver this graph in that way (not the codecs' business): plain value
		res.Buckets = append(res.Buckets, "provenance-unavailable:"+rep)
		g = codecobs.Build('d', n, es)
	}
	want := "ok:" + codecobs.DescrOf(n, es)
	var sb strings.Builder
	res.Nontrivial = len(es) > 0
	fail := func(key, f string, a ...interface{}) { res.Viol = append(res.Viol, hx.Fail(key, f, a...)) }

	// graph6
	var s string
	if codecobs.Call(func() { s = graph.Graph6Encode(g) }) {
		d, hd := g6dec(s), g6dec(">>graph6<<"+s)
		fmt.Fprintf(&sb, "g6=%s;g6d=%s;g6hd=%s", codecobs.Hex([]byte(s)), d, hd)
		if d != want || hd != want {
			fail("C07:roundtrip:graph6", "Graph6Decode(Graph6Encode(g)) = %s / with header %s, g = %s", d, hd, want)
		}
		for _, c := range []byte(s) {
			if c < 63 || c > 126 {
				fail("C07:bytes:graph6", "Graph6Encode produced byte %d", c)
				break
			}
		}
		res.Buckets = append(res.Buckets, fmt.Sprintf("graph6/hdr%d", hdrSize(n)))
	} else {
		sb.WriteString("g6=panic;g6d=na;g6hd=na")
	}
	// sparse6
	if codecobs.Call(func() { s = graph.Sparse6Encode(g) }) {
		d, hd := s6dec(s), s6dec(">>sparse6<<"+s)
		sn, ses, sok := codecobs.SpecSparse6([]byte(s))
		fmt.Fprintf(&sb, ";s6=%s;s6d=%s;s6hd=%s;s6spec=%s", codecobs.Hex([]byte(s)), d, hd, specText(sn, ses, sok))
		if d != want || hd != want {
			fail("C07:roundtrip:sparse6", "Sparse6Decode(Sparse6Encode(g)) = %s / with header %s, g = %s", d, hd, want)
		}
		if specText(sn, ses, sok) != specText(n, es, true) {
			fail("C07:format:sparse6", "by the format text the string %q of Sparse6Encode(g) denotes %s, g is %s", s, specText(sn, ses, sok), specText(n, es, true))
		}
		// does the pair stream fill its last byte exactly (no padding)?
		k := 0
		for n > 1 && (1<<uint(k)) < n {
			k++
		}
		res.Buckets = append(res.Buckets, fmt.Sprintf("sparse6/hdr%d/k%s", hdrSize(n), kBucket(k)))
	} else {
		sb.WriteString(";s6=panic;s6d=na;s6hd=na;s6spec=na")
	}
	if after := "ok:" + codecobs.Descr(g); after != want {
		fail("C07:argument-modified", "the encoders changed their argument: %s, was %s", after, want)
	}
	res.Buckets = append(res.Buckets, "rep="+rep, fmt.Sprintf("n<=%d", bucket(n)))
	res.Obs = sb.String()
	return res
}

func kBucket(k int) string {
	if k == 5 {
		return "=5(pairs of 6 bits)"
	}
	if k < 5 {
		return "<5"
	}
	return ">5"
}

const maxStubGraph6 = 5000

// above this size the string is only read by the format transcription (Sparse6Decode would
// allocate n neighbour lists)
const maxStubDecode = 4000000

func edgesOf(g graph.Graph) []edge {
	var es []edge
	for v := 0; v < g.N(); v++ {
		for _, u := range g.Neighbours(v) {
			if u < v {
				es = append(es, edge{v, u})
			}
		}
	}
	codecobs.SortEdges(es)
	return es
}

func execStub(n int, es []edge) hx.Result {
	var res hx.Result
	es = cleanEdges(n, es)
	res.Nontrivial = true
	fail := func(key, f string, a ...interface{}) { res.Viol = append(res.Viol, hx.Fail(key, f, a...)) }
	g := codecobs.NewStub(n, es)
	hl := hdrSize(n)
	want := specText(n, es, true)
	var sb strings.Builder
	var s string
	if n <= maxStubGraph6 {
		if codecobs.Call(func() { s = graph.Graph6Encode(g) }) {
			if len(s) >= hl {
				fmt.Fprintf(&sb, "g6hdr=%s", codecobs.Hex([]byte(s[:hl])))
			} else {
				fmt.Fprintf(&sb, "g6hdr=short:%s", codecobs.Hex([]byte(s)))
			}
			if s != string(codecobs.SpecGraph6Encode(n, es, 0)) {
				fail("C07:format:graph6", "Graph6Encode of a graph with n = %d and the edges %s is not the string of the format definition", n, codecobs.EdgeTokens(es))
			}
			var d *graph.DenseGraph
			var err error
			if !codecobs.Call(func() { d, err = graph.Graph6Decode(s) }) || err != nil || specText(d.N(), edgesOf(d), true) != want {
				fail("C07:roundtrip:graph6", "Graph6Decode(Graph6Encode(g)) is not g for n = %d, edges %s", n, codecobs.EdgeTokens(es))
			}
		} else {
			sb.WriteString("g6hdr=panic")
		}
		res.Buckets = append(res.Buckets, fmt.Sprintf("stub/graph6/hdr%d", hl))
	} else {
		sb.WriteString("g6hdr=na")
	}
	if codecobs.Call(func() { s = graph.Sparse6Encode(g) }) {
		if len(s) >= hl+1 {
			fmt.Fprintf(&sb, ";s6hdr=%s", codecobs.Hex([]byte(s[:hl+1])))
		} else {
			fmt.Fprintf(&sb, ";s6hdr=short:%s", codecobs.Hex([]byte(s)))
		}
		sn, ses, sok := codecobs.SpecSparse6([]byte(s))
		if specText(sn, ses, sok) != want {
			fail("C07:format:sparse6", "by the format text the string of Sparse6Encode(g) denotes %s, g is %s", specText(sn, ses, sok), want)
		}
		if n <= maxStubDecode {
			var d *graph.SparseGraph
			var err error
			if !codecobs.Call(func() { d, err = graph.Sparse6Decode(s) }) || err != nil || specText(d.N(), edgesOf(d), true) != want {
				fail("C07:roundtrip:sparse6", "Sparse6Decode(Sparse6Encode(g)) is not g for n = %d, edges %s", n, codecobs.EdgeTokens(es))
			}
		}
		for _, c := range []byte(s[1:]) {
			if c < 63 || c > 126 {
				fail("C07:bytes:sparse6", "Sparse6Encode produced byte %d", c)
				break
			}
		}
	} else {
		sb.WriteString(";s6hdr=panic")
	}
	res.Buckets = append(res.Buckets, fmt.Sprintf("stub/sparse6/hdr%d", hl))
	res.Obs = sb.String()
	return res
}

func exec(line string) hx.Result {
	i := strings.Index(line, ";")
	if i < 0 {
		return hx.Result{Obs: "badcase"}
	}
	head := strings.Fields(line[:i])
	toks := strings.Fields(line[i+1:])
	switch {
	case len(head) == 3 && head[0] == "G":
		n, _ := strconv.Atoi(head[2])
		return execGraph(head[1], n, codecobs.ParseEdges(toks))
	case len(head) == 2 && head[0] == "H":
		n, _ := strconv.Atoi(head[1])
		return execStub(n, codecobs.ParseEdges(toks))
	}
	return hx.Result{Obs: "badcase"}
}

// ---------------------------------------------------------------- generation

func randGraph(r *hx.Rng, n int, num, den int) []edge {
	var es []edge
	for v := 1; v < n; v++ {
		for u := 0; u < v; u++ {
			if r.Chance(num, den) {
				es = append(es, edge{v, u})
			}
		}
	}
	return es
}

func gen(g *hx.Gen) {
	r := g.Rng
	provs := codecobs.Provenances
	graphCase := func(kind string, rep string, n int, es []edge) {
		g.Emit(fmt.Sprintf("%s %s %d;%s", kind, rep, n, codecobs.EdgeTokens(es)))
	}
	anyRep := func() string { return provs[r.Intn(len(provs))] }
	// every representation and provenance of one abstract graph
	all := func(n int, es []edge) {
		for _, rep := range provs {
			graphCase("G", rep, n, es)
		}
	}
	both := all
	// corpus: the inputs on which the pinned tree failed (KNOWN_FINDINGS.txt)
	both(0, nil)
	both(1, nil)
	both(2, nil)
	both(2, []edge{{1, 0}})
	both(4, []edge{{2, 0}, {2, 1}})    // CW: the padding exception with exactly k+1 bits left
	both(20, []edge{{1, 0}, {19, 18}}) // 17 <= n <= 32: pairs of exactly 6 bits
	both(3, []edge{{2, 1}})
	// exhaustive: every labelled graph on at most 5 vertices; n <= 4 in every provenance, n = 5
	// dense, sparse, weighted dense and one more provenance in rotation
	idx := 0
	for n := 0; n <= 5; n++ {
		t := n * (n - 1) / 2
		for mask := 0; mask < 1<<uint(t); mask++ {
			var es []edge
			p := 0
			for v := 1; v < n; v++ {
				for u := 0; u < v; u++ {
					if mask>>uint(p)&1 == 1 {
						es = append(es, edge{v, u})
					}
					p++
				}
			}
			if n <= 4 {
				all(n, es)
			} else {
				graphCase("G", "d", n, es)
				graphCase("G", "s", n, es)
				graphCase("G", "w", n, es)
				graphCase("G", provs[3+idx%(len(provs)-3)], n, es)
				idx++
			}
		}
	}
	g.Exhaustive("all labelled graphs on n <= 5 vertices through graph6 and sparse6: n <= 4 in every provenance (dense 0/1, dense with arbitrary non-zero bytes, sparse sorted/unsorted, edited, copies, induced copies, views, nested views, decoder results, ChromaticIndex arrays, user-defined), n = 5 dense, sparse, weighted and one more in rotation")
	// named graphs of the generators, in every provenance (sizes around the capacity boundaries)
	for _, n := range []int{3, 7, 8, 9, 15, 16, 17, 31, 32, 33} {
		var path, cyc, star, comp []edge
		for v := 1; v < n; v++ {
			path = append(path, edge{v, v - 1})
			star = append(star, edge{v, 0})
			for u := 0; u < v; u++ {
				comp = append(comp, edge{v, u})
			}
		}
		cyc = cleanEdges(n, append(append([]edge(nil), path...), edge{n - 1, 0}))
		for _, es := range [][]edge{path, cyc, star, comp} {
			if g.Thorough() || n <= 9 {
				all(n, es)
			} else {
				for c := 0; c < 4; c++ {
					graphCase("G", anyRep(), n, es)
				}
				graphCase("G", "w", n, es)
			}
		}
	}
	dens := [][2]int{{0, 1}, {1, 20}, {3, 10}, {1, 2}, {1, 1}}
	// random graphs n <= 40 at the five densities
	for i := 0; i < g.Pick(350, 20000); i++ {
		n := r.Range(2, 40)
		d := dens[r.Intn(len(dens))]
		graphCase("G", anyRep(), n, randGraph(r, n, d[0], d[1]))
	}
	// 17 <= n <= 32: sparse6 pairs of exactly 6 bits, every stream ends on a byte boundary
	for i := 0; i < g.Pick(180, 8000); i++ {
		n := r.Range(17, 32)
		d := dens[1+r.Intn(4)]
		graphCase("G", anyRep(), n, randGraph(r, n, d[0], d[1]))
	}
	// the sizes around the 1-byte / 4-byte header
	for _, n := range []int{62, 63, 64, 100} {
		for i := 0; i < g.Pick(3, 40); i++ {
			d := dens[r.Intn(len(dens))]
			graphCase("G", anyRep(), n, randGraph(r, n, d[0], d[1]))
		}
		for _, rep := range []string{"d", "s", "w", "vc", "rs", "x"} {
			graphCase("G", rep, n, nil)
		}
	}
	if g.Thorough() {
		for _, n := range []int{128, 129, 255, 256, 300} {
			graphCase("G", anyRep(), n, randGraph(r, n, 1, 20))
		}
	}
	// n a power of two, vertex n-2 used and n-1 isolated (the padding exception of sparse6),
	// with every possible amount of padding: few edges, all touching n-2
	for _, n := range []int{2, 4, 8, 16, 32, 64} {
		for i := 0; i < g.Pick(40, 600); i++ {
			if n == 2 {
				continue
			}
			var es []edge
			sub := randGraph(r, n-2, r.Intn(4), 6)
			if r.Bool() {
				sub = nil
			}
			es = append(es, sub...)
			cnt := r.Range(1, 3)
			for c := 0; c < cnt; c++ {
				es = append(es, edge{n - 2, r.Intn(n - 2)})
			}
			if r.Chance(1, 6) {
				es = append(es, edge{n - 1, r.Intn(n - 1)}) // sometimes n-1 is used after all
			}
			graphCase("G", anyRep(), n, cleanEdges(n, es))
		}
	}
	// sizes across the thresholds 128 and 256 (degree and vertex counters in a byte, doubling
	// capacities): a hub of degree n-1 and a thin random graph, in a random provenance
	thr := []int{127, 128, 129}
	if g.Thorough() {
		thr = append(thr, 255, 256, 257) // larger sizes cost the list-indexed model seconds per case
	}
	for _, n := range thr {
		var star []edge
		for v := 1; v < n; v++ {
			star = append(star, edge{v, 0})
		}
		graphCase("G", anyRep(), n, star)
		graphCase("G", "w", n, star)
		for c := 0; c < g.Pick(2, 4); c++ {
			graphCase("G", anyRep(), n, randGraph(r, n, 3, n))
		}
		// the hub at the top: vertex n-1 joined to everything
		var top []edge
		for u := 0; u < n-1; u++ {
			top = append(top, edge{n - 1, u})
		}
		graphCase("G", anyRep(), n, top)
	}
	if !g.Thorough() {
		var star []edge
		for v := 1; v < 257; v++ {
			star = append(star, edge{v, 0})
		}
		graphCase("G", "s", 257, star)
	}
	// stub graphs: the 4-byte header at sizes where every byte of it is used, the 8-byte header
	// of sparse6, and the sizes around the boundaries; edgeless and with a few edges
	sizes := []int{63, 64, 2047, 2048, 4095, 4096, 4097, 5000, 258047, 258048, 1000000, 16777215, 16777216}
	if g.Thorough() {
		sizes = append(sizes, 1<<30, 1<<30+1)
	}
	// n > 2^30: every byte of the 8-byte header is exercised (about 8 s: the encoder visits every vertex)
	g.Emit(fmt.Sprintf("H %d;%d-%d %d-%d", 1<<30+77, 1<<30+76, 5, 1<<30+1, 1<<30))
	for _, n := range sizes {
		g.Emit(fmt.Sprintf("H %d;", n))
		for c := 0; c < g.Pick(2, 8); c++ {
			var es []edge
			for e := 0; e < r.Range(1, 6); e++ {
				v := r.Range(1, n-1)
				if r.Bool() {
					v = n - 1 - r.Intn(3)
				}
				es = append(es, edge{v, r.Intn(v)})
			}
			es = cleanEdges(n, es)
			g.Emit(fmt.Sprintf("H %d;%s", n, codecobs.EdgeTokens(es)))
		}
	}
	for i := 0; i < g.Pick(10, 60); i++ {
		n := r.Range(63, 5000)
		if i%3 == 0 {
			n = r.Range(258048, 2000000)
		}
		var es []edge
		for e := 0; e < r.Range(0, 4); e++ {
			v := r.Range(1, n-1)
			es = append(es, edge{v, r.Intn(v)})
		}
		g.Emit(fmt.Sprintf("H %d;%s", n, codecobs.EdgeTokens(cleanEdges(n, es))))
	}
}

func main() {
	hx.Main(hx.Prop{
		Rule:        "case = a graph (n, edge list) in dense or sparse representation, or a stub Graph of a large size; non-trivial = at least one edge (stub: always, it exists for its header); distinct by case text; buckets per codec, header size and sparse6 pair width",
		Gen:         gen,
		Exec:        exec,
		CaseTimeout: 90 * time.Second,
		MemMB:       2048,
	})
}

func bucket(n int) int {
	b := 1
	for b < n {
		b *= 2
	}
	return b
}
