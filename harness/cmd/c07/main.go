// Command c07 runs the graph codecs of /repo/graph/encoding.go on valid inputs (C07): every
// graph is encoded with Graph6Encode, Sparse6Encode and MulticodeEncode from a dense or a sparse
// representation, the strings are decoded again with and without the optional header, sequences
// of Multicode records go through MulticodeDecodeMultiple, and Pruefer codes / labelled trees go
// through PruferDecode / PruferEncode in both directions.
//
// Case lines:
//
//	G <rep> <n>;v-u v-u ...          a graph, rep = d (DenseGraph) or s (SparseGraph)
//	M <rep>;n:v-u,v-u n:v-u ...      a sequence of graphs for MulticodeDecodeMultiple
//	P;c c c ...                      a Pruefer code (n = length + 2)
//	T <rep> <n>;v-u v-u ...          a labelled tree
package main

import (
	"fmt"
	"strconv"
	"strings"
	"time"

	"github.com/Tom-Johnston/mamba/graph"
	"verifharness/cmd/c07/codecobs"
	"verifharness/hx"
)

type edge = codecobs.Edge

func decRes(g graph.Graph, err error, ok bool) string {
	if !ok {
		return "panic"
	}
	if err != nil {
		return "err"
	}
	return "ok:" + codecobs.Descr(g)
}

func g6dec(s string) string {
	var g *graph.DenseGraph
	var err error
	ok := codecobs.Call(func() { g, err = graph.Graph6Decode(s) })
	if !ok || err != nil {
		return decRes(nil, err, ok)
	}
	return decRes(g, nil, true)
}

func s6dec(s string) string {
	var g *graph.SparseGraph
	var err error
	ok := codecobs.Call(func() { g, err = graph.Sparse6Decode(s) })
	if !ok || err != nil {
		return decRes(nil, err, ok)
	}
	return decRes(g, nil, true)
}

func specText(n int, es []edge, ok bool) string {
	if !ok {
		return "invalid"
	}
	var sb strings.Builder
	fmt.Fprintf(&sb, "%d:", n)
	for i, e := range es {
		if i > 0 {
			sb.WriteByte(',')
		}
		fmt.Fprintf(&sb, "%d-%d", e.V, e.U)
	}
	return sb.String()
}

func cleanEdges(n int, es []edge) []edge {
	seen := map[edge]bool{}
	var out []edge
	for _, e := range es {
		if e.U != e.V && e.U >= 0 && e.V < n && !seen[e] {
			seen[e] = true
			out = append(out, e)
		}
	}
	codecobs.SortEdges(out)
	return out
}

func hdrSize(n int) int {
	if n <= 62 {
		return 1
	}
	if n <= 258047 {
		return 4
	}
	return 8
}

func execGraph(rep byte, n int, es []edge) hx.Result {
	var res hx.Result
	es = cleanEdges(n, es)
	g := codecobs.Build(rep, n, es)
	want := "ok:" + codecobs.DescrOf(n, es)
	var sb strings.Builder
	res.Nontrivial = len(es) > 0
	fail := func(key, f string, a ...interface{}) { res.Viol = append(res.Viol, hx.Fail(key, f, a...)) }

	// graph6
	var s string
	if codecobs.Call(func() { s = graph.Graph6Encode(g) }) {
		d, hd := g6dec(s), g6dec(">>graph6<<"+s)
		fmt.Fprintf(&sb, "g6=%s;g6d=%s;g6hd=%s", codecobs.Hex([]byte(s)), d, hd)
		if d != want || hd != want {
			fail("C07:roundtrip:graph6", "Graph6Decode(Graph6Encode(g)) = %s / with header %s, g = %s", d, hd, want)
		}
		for _, c := range []byte(s) {
			if c < 63 || c > 126 {
				fail("C07:bytes:graph6", "Graph6Encode produced byte %d", c)
				break
			}
		}
		res.Buckets = append(res.Buckets, fmt.Sprintf("graph6/hdr%d", hdrSize(n)))
	} else {
		sb.WriteString("g6=panic;g6d=na;g6hd=na")
	}
	// sparse6
	if codecobs.Call(func() { s = graph.Sparse6Encode(g) }) {
		d, hd := s6dec(s), s6dec(">>sparse6<<"+s)
		sn, ses, sok := codecobs.SpecSparse6([]byte(s))
		fmt.Fprintf(&sb, ";s6=%s;s6d=%s;s6hd=%s;s6spec=%s", codecobs.Hex([]byte(s)), d, hd, specText(sn, ses, sok))
		if d != want || hd != want {
			fail("C07:roundtrip:sparse6", "Sparse6Decode(Sparse6Encode(g)) = %s / with header %s, g = %s", d, hd, want)
		}
		if specText(sn, ses, sok) != specText(n, es, true) {
			fail("C07:format:sparse6", "by the format text the string %q of Sparse6Encode(g) denotes %s, g is %s", s, specText(sn, ses, sok), specText(n, es, true))
		}
		// does the pair stream fill its last byte exactly (no padding)?
		k := 0
		for n > 1 && (1<<uint(k)) < n {
			k++
		}
		res.Buckets = append(res.Buckets, fmt.Sprintf("sparse6/hdr%d/k%s", hdrSize(n), kBucket(k)))
	} else {
		sb.WriteString(";s6=panic;s6d=na;s6hd=na;s6spec=na")
	}
	// Multicode
	if n <= 255 {
		var b []byte
		if codecobs.Call(func() { b = graph.MulticodeEncode(g) }) {
			var dg *graph.DenseGraph
			d := "panic"
			if codecobs.Call(func() { dg = graph.MulticodeDecode(b) }) {
				d = "ok:" + codecobs.Descr(dg)
			}
			fmt.Fprintf(&sb, ";mc=%s;mcd=%s", codecobs.Hex(b), d)
			if d != want {
				fail("C07:roundtrip:multicode", "MulticodeDecode(MulticodeEncode(g)) = %s, g = %s", d, want)
			}
			res.Buckets = append(res.Buckets, "multicode")
		} else {
			sb.WriteString(";mc=panic;mcd=na")
		}
	} else {
		sb.WriteString(";mc=na;mcd=na")
	}
	if after := "ok:" + codecobs.Descr(g); after != want {
		fail("C07:argument-modified", "the encoders changed their argument: %s, was %s", after, want)
	}
	res.Buckets = append(res.Buckets, fmt.Sprintf("rep=%c", rep), fmt.Sprintf("n<=%d", bucket(n)))
	res.Obs = sb.String()
	return res
}

func kBucket(k int) string {
	if k == 5 {
		return "=5(pairs of 6 bits)"
	}
	if k < 5 {
		return "<5"
	}
	return ">5"
}

type rec struct {
	n  int
	es []edge
}

func parseRecs(toks []string) []rec {
	var rs []rec
	for _, t := range toks {
		if t == "" {
			continue
		}
		p := strings.SplitN(t, ":", 2)
		n, _ := strconv.Atoi(p[0])
		var es []edge
		if len(p) > 1 && p[1] != "" {
			es = codecobs.ParseEdges(strings.Split(p[1], ","))
		}
		rs = append(rs, rec{n, cleanEdges(n, es)})
	}
	return rs
}

func execMulti(rep byte, rs []rec) hx.Result {
	var res hx.Result
	var all []byte
	var want []string
	okEnc := true
	for _, r := range rs {
		g := codecobs.Build(rep, r.n, r.es)
		var b []byte
		if !codecobs.Call(func() { b = graph.MulticodeEncode(g) }) {
			okEnc = false
			break
		}
		all = append(all, b...)
		want = append(want, codecobs.DescrOf(r.n, r.es))
		if len(r.es) > 0 {
			res.Nontrivial = true
		}
	}
	if !okEnc {
		res.Obs = "mc=panic;mm=na"
		return res
	}
	var gs []*graph.DenseGraph
	d := "panic"
	if codecobs.Call(func() { gs = graph.MulticodeDecodeMultiple(all) }) {
		ds := make([]string, len(gs))
		for i, g := range gs {
			ds[i] = codecobs.Descr(g)
		}
		d = "ok:" + strings.Join(ds, "|")
	}
	res.Obs = fmt.Sprintf("mc=%s;mm=%s", codecobs.Hex(all), d)
	if w := "ok:" + strings.Join(want, "|"); d != w {
		res.Viol = append(res.Viol, hx.Fail("C07:roundtrip:multicode-multiple", "MulticodeDecodeMultiple of the concatenated records = %s, the graphs are %s", d, w))
	}
	res.Buckets = []string{fmt.Sprintf("multicode-multiple/%d records", len(rs))}
	return res
}

func isTree(g graph.Graph) bool {
	n := g.N()
	if n == 0 || g.M() != n-1 {
		return false
	}
	seen := make([]bool, n)
	stack := []int{0}
	seen[0] = true
	cnt := 1
	for len(stack) > 0 {
		v := stack[len(stack)-1]
		stack = stack[:len(stack)-1]
		for _, u := range g.Neighbours(v) {
			if !seen[u] {
				seen[u] = true
				cnt++
				stack = append(stack, u)
			}
		}
	}
	return cnt == n
}

func execCode(code []int) hx.Result {
	var res hx.Result
	res.Nontrivial = len(code) > 0
	var g *graph.DenseGraph
	if !codecobs.Call(func() { g = graph.PruferDecode(append([]int(nil), code...)) }) {
		res.Obs = "pd=panic;pe=na"
		return res
	}
	var back []int
	pe := "panic"
	if codecobs.Call(func() { back = graph.PruferEncode(g) }) {
		pe = hx.Ints(back)
	}
	res.Obs = fmt.Sprintf("pd=ok:%s;pe=%s", codecobs.Descr(g), pe)
	if pe != hx.Ints(code) {
		res.Viol = append(res.Viol, hx.Fail("C07:prufer:encode-decode", "PruferEncode(PruferDecode(%v)) = %s", code, pe))
	}
	if !isTree(g) {
		res.Viol = append(res.Viol, hx.Fail("C07:prufer:not-a-tree", "PruferDecode(%v) = %s is not a tree", code, codecobs.Descr(g)))
	}
	res.Buckets = []string{"prufer/code", fmt.Sprintf("n<=%d", bucket(len(code)+2))}
	return res
}

func execTree(rep byte, n int, es []edge) hx.Result {
	var res hx.Result
	es = cleanEdges(n, es)
	res.Nontrivial = len(es) > 1
	g := codecobs.Build(rep, n, es)
	want := "ok:" + codecobs.DescrOf(n, es)
	var code []int
	if !codecobs.Call(func() { code = graph.PruferEncode(g) }) {
		res.Obs = "pe=panic;pd=na"
		return res
	}
	var t *graph.DenseGraph
	pd := "panic"
	if codecobs.Call(func() { t = graph.PruferDecode(append([]int(nil), code...)) }) {
		pd = "ok:" + codecobs.Descr(t)
	}
	res.Obs = fmt.Sprintf("pe=%s;pd=%s", hx.Ints(code), pd)
	if isTree(g) && pd != want {
		res.Viol = append(res.Viol, hx.Fail("C07:prufer:decode-encode", "PruferDecode(PruferEncode(t)) = %s, t = %s", pd, want))
	}
	if after := "ok:" + codecobs.Descr(g); after != want {
		res.Viol = append(res.Viol, hx.Fail("C07:argument-modified", "PruferEncode changed its argument: %s, was %s", after, want))
	}
	res.Buckets = []string{"prufer/tree", fmt.Sprintf("rep=%c", rep), fmt.Sprintf("n<=%d", bucket(n))}
	return res
}

func exec(line string) hx.Result {
	i := strings.Index(line, ";")
	if i < 0 {
		return hx.Result{Obs: "badcase"}
	}
	head := strings.Fields(line[:i])
	toks := strings.Fields(line[i+1:])
	switch head[0] {
	case "G", "T":
		n, _ := strconv.Atoi(head[2])
		if head[0] == "G" {
			return execGraph(head[1][0], n, codecobs.ParseEdges(toks))
		}
		return execTree(head[1][0], n, codecobs.ParseEdges(toks))
	case "M":
		return execMulti(head[1][0], parseRecs(toks))
	case "P":
		code := make([]int, len(toks))
		for j, t := range toks {
			code[j], _ = strconv.Atoi(t)
		}
		return execCode(code)
	}
	return hx.Result{Obs: "badcase"}
}

// ---------------------------------------------------------------- generation

func randGraph(r *hx.Rng, n int, num, den int) []edge {
	var es []edge
	for v := 1; v < n; v++ {
		for u := 0; u < v; u++ {
			if r.Chance(num, den) {
				es = append(es, edge{v, u})
			}
		}
	}
	return es
}

func randTree(r *hx.Rng, n int) []edge {
	p := r.Perm(n)
	var es []edge
	for i := 1; i < n; i++ {
		var j int
		switch r.Intn(3) {
		case 0:
			j = i - 1 // long paths
		case 1:
			j = 0 // stars
		default:
			j = r.Intn(i)
		}
		a, b := p[i], p[j]
		if a < b {
			a, b = b, a
		}
		es = append(es, edge{a, b})
	}
	codecobs.SortEdges(es)
	return es
}

func gen(g *hx.Gen) {
	r := g.Rng
	reps := []byte{'d', 's'}
	graphCase := func(kind string, rep byte, n int, es []edge) {
		g.Emit(fmt.Sprintf("%s %c %d;%s", kind, rep, n, codecobs.EdgeTokens(es)))
	}
	both := func(n int, es []edge) {
		for _, rep := range reps {
			graphCase("G", rep, n, es)
		}
	}
	// corpus: the inputs on which the pinned tree failed (KNOWN_FINDINGS.txt)
	both(0, nil)
	both(1, nil)
	both(2, nil)
	both(2, []edge{{1, 0}})
	both(4, []edge{{2, 0}, {2, 1}})          // CW: the padding exception with exactly k+1 bits left
	both(20, []edge{{1, 0}, {19, 18}})       // 17 <= n <= 32: pairs of exactly 6 bits
	both(3, []edge{{2, 1}})                  // Multicode graph using the last vertex
	// exhaustive: every labelled graph on at most 5 vertices
	for n := 0; n <= 5; n++ {
		t := n * (n - 1) / 2
		for mask := 0; mask < 1<<uint(t); mask++ {
			var es []edge
			p := 0
			for v := 1; v < n; v++ {
				for u := 0; u < v; u++ {
					if mask>>uint(p)&1 == 1 {
						es = append(es, edge{v, u})
					}
					p++
				}
			}
			both(n, es)
		}
	}
	g.Exhaustive("all labelled graphs on n <= 5 vertices, dense and sparse representation, through graph6, sparse6 and Multicode")
	dens := [][2]int{{0, 1}, {1, 20}, {3, 10}, {1, 2}, {1, 1}}
	// random graphs n <= 40 at the five densities
	for i := 0; i < g.Pick(600, 20000); i++ {
		n := r.Range(2, 40)
		d := dens[r.Intn(len(dens))]
		graphCase("G", reps[r.Intn(2)], n, randGraph(r, n, d[0], d[1]))
	}
	// 17 <= n <= 32: sparse6 pairs of exactly 6 bits, every stream ends on a byte boundary
	for i := 0; i < g.Pick(300, 8000); i++ {
		n := r.Range(17, 32)
		d := dens[1+r.Intn(4)]
		graphCase("G", reps[r.Intn(2)], n, randGraph(r, n, d[0], d[1]))
	}
	// the sizes around the 1-byte / 4-byte header
	for _, n := range []int{62, 63, 64, 100} {
		for i := 0; i < g.Pick(3, 40); i++ {
			d := dens[r.Intn(len(dens))]
			graphCase("G", reps[r.Intn(2)], n, randGraph(r, n, d[0], d[1]))
		}
		both(n, nil)
	}
	if g.Thorough() {
		for _, n := range []int{128, 129, 255, 256, 300} {
			graphCase("G", reps[r.Intn(2)], n, randGraph(r, n, 1, 20))
		}
	}
	// n a power of two, vertex n-2 used and n-1 isolated (the padding exception of sparse6),
	// with every possible amount of padding: few edges, all touching n-2
	for _, n := range []int{2, 4, 8, 16, 32, 64} {
		for i := 0; i < g.Pick(40, 600); i++ {
			if n == 2 {
				continue
			}
			var es []edge
			sub := randGraph(r, n-2, r.Intn(4), 6)
			if r.Bool() {
				sub = nil
			}
			es = append(es, sub...)
			cnt := r.Range(1, 3)
			for c := 0; c < cnt; c++ {
				es = append(es, edge{n - 2, r.Intn(n - 2)})
			}
			if r.Chance(1, 6) {
				es = append(es, edge{n - 1, r.Intn(n - 1)}) // sometimes n-1 is used after all
			}
			graphCase("G", reps[r.Intn(2)], n, cleanEdges(n, es))
		}
	}
	// Multicode: sequences of 1..5 records including n = 0, 1, 255
	for i := 0; i < g.Pick(300, 6000); i++ {
		cnt := r.Range(1, 5)
		toks := make([]string, cnt)
		for c := range toks {
			var n int
			switch r.Intn(8) {
			case 0:
				n = 0
			case 1:
				n = 1
			case 2:
				if r.Chance(1, 4) {
					n = 255
				} else {
					n = 2
				}
			default:
				n = r.Range(2, 9)
			}
			var es []edge
			if n == 255 {
				for e := 0; e < r.Range(0, 30); e++ {
					v := r.Range(1, 254)
					es = append(es, edge{v, r.Intn(v)})
				}
				if r.Bool() {
					es = append(es, edge{254, r.Intn(254)})
				}
				es = cleanEdges(n, es)
			} else {
				d := dens[r.Intn(len(dens))]
				es = randGraph(r, n, d[0], d[1])
			}
			toks[c] = fmt.Sprintf("%d:%s", n, strings.ReplaceAll(codecobs.EdgeTokens(es), " ", ","))
		}
		g.Emit(fmt.Sprintf("M %c;%s", reps[r.Intn(2)], strings.Join(toks, " ")))
	}
	// Pruefer: every code for n <= 7 (n <= 8 in the thorough tier), random ones up to n = 60
	maxN := g.Pick(7, 8)
	for n := 2; n <= maxN; n++ {
		code := make([]int, n-2)
		for {
			g.Emit("P;" + strings.ReplaceAll(hx.Ints(code), ",", " "))
			i := n - 3
			for ; i >= 0; i-- {
				code[i]++
				if code[i] < n {
					break
				}
				code[i] = 0
			}
			if i < 0 {
				break
			}
		}
	}
	g.Exhaustive(fmt.Sprintf("all Pruefer codes for 2 <= n <= %d (decode, then encode)", maxN))
	for i := 0; i < g.Pick(400, 10000); i++ {
		n := r.Range(3, 60)
		code := make([]int, n-2)
		for j := range code {
			switch i % 3 {
			case 0:
				code[j] = r.Intn(n)
			case 1:
				code[j] = r.Intn(1 + n/4) // few inner vertices, many leaves
			default:
				code[j] = n - 1 - r.Intn(1+n/4)
			}
		}
		g.Emit("P;" + strings.ReplaceAll(hx.Ints(code), ",", " "))
	}
	// labelled trees: encode, then decode
	for i := 0; i < g.Pick(600, 15000); i++ {
		n := r.Range(2, 60)
		if i%3 == 0 {
			n = r.Range(2, 9)
		}
		graphCase("T", reps[r.Intn(2)], n, randTree(r, n))
	}
}

func main() {
	hx.Main(hx.Prop{
		Rule:        "case = a graph (n, edge list) in dense or sparse representation / a sequence of graphs / a Pruefer code / a labelled tree; non-trivial = at least one edge (Pruefer: n >= 3); distinct by case text; buckets per codec, header size and sparse6 pair width",
		Gen:         gen,
		Exec:        exec,
		CaseTimeout: 20 * time.Second,
		MemMB:       2048,
	})
}

func bucket(n int) int {
	b := 1
	for b < n {
		b *= 2
	}
	return b
}
