// Package codecobs holds what the harness commands of C07 and C08 share: parsing graphs from
// case lines, the canonical text of a graph value (n, M(), Degrees(), edge list) and decoders
// of graph6 / sparse6 written from the published format text (nauty formats.txt), independent
// of /repo, which are used as oracles on the strings the implementation produces.
package codecobs

import (
	"fmt"
	"sort"
	"strconv"
	"strings"

	"github.com/Tom-Johnston/mamba/graph"
	"github.com/Tom-Johnston/mamba/sortints"
)

// Edge is {V,U} with U < V.
type Edge struct{ V, U int }

// ParseEdges reads tokens "v-u" (any order of the two ends).
func ParseEdges(toks []string) []Edge {
	var es []Edge
	for _, t := range toks {
		if t == "" {
			continue
		}
		p := strings.SplitN(t, "-", 2)
		a, _ := strconv.Atoi(p[0])
		b, _ := strconv.Atoi(p[1])
		if a < b {
			a, b = b, a
		}
		es = append(es, Edge{a, b})
	}
	return es
}

func SortEdges(es []Edge) {
	sort.Slice(es, func(i, j int) bool {
		if es[i].V != es[j].V {
			return es[i].V < es[j].V
		}
		return es[i].U < es[j].U
	})
}

func EdgeTokens(es []Edge) string {
	var sb strings.Builder
	for i, e := range es {
		if i > 0 {
			sb.WriteByte(' ')
		}
		fmt.Fprintf(&sb, "%d-%d", e.V, e.U)
	}
	return sb.String()
}

// Build makes the graph value in the representation rep: 'd' DenseGraph, 's' SparseGraph.
// Edges outside [0,n) or loops are dropped (a shrunk case stays a valid graph).
func Build(rep byte, n int, es []Edge) graph.Graph {
	var clean []Edge
	for _, e := range es {
		if e.U != e.V && e.U >= 0 && e.V < n {
			clean = append(clean, e)
		}
	}
	if rep == 's' {
		nb := make([]sortints.SortedInts, n)
		for i := range nb {
			nb[i] = []int{}
		}
		for _, e := range clean {
			nb[e.V] = append(nb[e.V], e.U)
			nb[e.U] = append(nb[e.U], e.V)
		}
		return graph.NewSparse(n, nb)
	}
	bits := make([]byte, n*(n-1)/2)
	for _, e := range clean {
		bits[e.V*(e.V-1)/2+e.U] = 1
	}
	return graph.NewDense(n, bits)
}

// Descr is the canonical text of a graph value: n:M():Degrees():edges from Neighbours.
func Descr(g graph.Graph) string {
	n := g.N()
	var sb strings.Builder
	fmt.Fprintf(&sb, "%d:%d:", n, g.M())
	for i, d := range g.Degrees() {
		if i > 0 {
			sb.WriteByte(',')
		}
		fmt.Fprintf(&sb, "%d", d)
	}
	sb.WriteByte(':')
	first := true
	for v := 0; v < n; v++ {
		nb := append([]int(nil), g.Neighbours(v)...)
		sort.Ints(nb)
		for _, u := range nb {
			if u < v {
				if !first {
					sb.WriteByte(',')
				}
				first = false
				fmt.Fprintf(&sb, "%d-%d", v, u)
			}
		}
	}
	return sb.String()
}

// DescrOf is the text a graph with n vertices and exactly the edge set es must have.
func DescrOf(n int, es []Edge) string {
	seen := map[Edge]bool{}
	var clean []Edge
	for _, e := range es {
		if e.U != e.V && e.U >= 0 && e.V < n && !seen[e] {
			seen[e] = true
			clean = append(clean, e)
		}
	}
	SortEdges(clean)
	deg := make([]int, n)
	for _, e := range clean {
		deg[e.U]++
		deg[e.V]++
	}
	var sb strings.Builder
	fmt.Fprintf(&sb, "%d:%d:", n, len(clean))
	for i, d := range deg {
		if i > 0 {
			sb.WriteByte(',')
		}
		fmt.Fprintf(&sb, "%d", d)
	}
	sb.WriteByte(':')
	for i, e := range clean {
		if i > 0 {
			sb.WriteByte(',')
		}
		fmt.Fprintf(&sb, "%d-%d", e.V, e.U)
	}
	return sb.String()
}

func Hex(b []byte) string {
	const d = "0123456789abcdef"
	out := make([]byte, 2*len(b))
	for i, c := range b {
		out[2*i] = d[c>>4]
		out[2*i+1] = d[c&15]
	}
	return string(out)
}

func UnHex(s string) []byte {
	s = strings.ReplaceAll(s, " ", "")
	out := make([]byte, len(s)/2)
	for i := range out {
		v, _ := strconv.ParseUint(s[2*i:2*i+2], 16, 8)
		out[i] = byte(v)
	}
	return out
}

// Call runs f and turns a panic into ok=false.
func Call(f func()) (ok bool) {
	defer func() {
		if e := recover(); e != nil {
			ok = false
		}
	}()
	f()
	return true
}

// ---------------------------------------------------------------- the formats, from the text

// readN reads N(n): returns n and the rest, ok=false if the string is too short.
func readN(s []byte) (n int, rest []byte, ok bool) {
	if len(s) == 0 {
		return 0, nil, false
	}
	val := func(b []byte) int {
		v := 0
		for _, c := range b {
			v = v*64 + int(c) - 63
		}
		return v
	}
	if s[0] != 126 {
		return int(s[0]) - 63, s[1:], true
	}
	if len(s) >= 2 && s[1] == 126 {
		if len(s) < 8 {
			return 0, nil, false
		}
		return val(s[2:8]), s[8:], true
	}
	if len(s) < 4 {
		return 0, nil, false
	}
	return val(s[1:4]), s[4:], true
}

func bitsOf(s []byte) []byte {
	out := make([]byte, 0, 6*len(s))
	for _, c := range s {
		x := c - 63
		for j := 5; j >= 0; j-- {
			out = append(out, (x>>uint(j))&1)
		}
	}
	return out
}

// SpecSparse6 decodes a sparse6 string by the format text: n and the edges in the order of
// output (loops and repeated edges are kept, so a caller can see them).
func SpecSparse6(s []byte) (n int, es []Edge, ok bool) {
	if len(s) == 0 || s[0] != ':' {
		return 0, nil, false
	}
	for _, c := range s[1:] {
		if c < 63 || c > 126 {
			return 0, nil, false
		}
	}
	n, rest, ok := readN(s[1:])
	if !ok {
		return 0, nil, false
	}
	k := 0
	for n > 1 && (1<<uint(k)) < n { // bits needed to represent n-1
		k++
	}
	bits := bitsOf(rest)
	v := 0
	for p := 0; p+1+k <= len(bits); p += 1 + k {
		if bits[p] == 1 {
			v++
		}
		x := 0
		for j := 0; j < k; j++ {
			x = 2*x + int(bits[p+1+j])
		}
		if x > v {
			v = x
		} else if v < n {
			es = append(es, Edge{v, x})
		}
	}
	return n, es, true
}

// SpecGraph6 decodes a graph6 string by the format text.
func SpecGraph6(s []byte) (n int, es []Edge, ok bool) {
	for _, c := range s {
		if c < 63 || c > 126 {
			return 0, nil, false
		}
	}
	n, rest, ok := readN(s)
	if !ok {
		return 0, nil, false
	}
	bits := bitsOf(rest)
	if len(bits) < n*(n-1)/2 {
		return 0, nil, false
	}
	p := 0
	for v := 1; v < n; v++ {
		for u := 0; u < v; u++ {
			if bits[p] == 1 {
				es = append(es, Edge{v, u})
			}
			p++
		}
	}
	return n, es, true
}

// DeclaredN is the vertex count a graph6 string (or a sparse6 string after its ':') declares.
func DeclaredN(s []byte) (n int, ok bool) {
	n, _, ok = readN(s)
	return n, ok
}

// ---------------------------------------------------------------- encoders from the format text
// (used by generators that need valid strings without calling the code under test)

// EncN is N(n) in its shortest form; form = 4 or 8 forces the longer forms.
func EncN(n int, form int) []byte {
	r := func(v int, groups int) []byte {
		out := make([]byte, groups)
		for i := groups - 1; i >= 0; i-- {
			out[i] = byte(v&63) + 63
			v >>= 6
		}
		return out
	}
	if form == 0 {
		switch {
		case n <= 62:
			form = 1
		case n <= 258047:
			form = 4
		default:
			form = 8
		}
	}
	switch form {
	case 1:
		return []byte{byte(n + 63)}
	case 4:
		return append([]byte{126}, r(n, 3)...)
	}
	return append([]byte{126, 126}, r(n, 6)...)
}

// PackBits is R(x) with the given padding bit.
func PackBits(bits []byte, pad byte) []byte {
	var out []byte
	for i := 0; i < len(bits); i += 6 {
		v := byte(0)
		for j := 0; j < 6; j++ {
			b := pad
			if i+j < len(bits) {
				b = bits[i+j]
			}
			v = v<<1 | b
		}
		out = append(out, v+63)
	}
	return out
}

// SpecGraph6Encode writes the graph6 string of (n, es) from the format text.
func SpecGraph6Encode(n int, es []Edge, form int) []byte {
	bits := make([]byte, n*(n-1)/2)
	for _, e := range es {
		if e.U < e.V && e.V < n && e.U >= 0 {
			bits[e.V*(e.V-1)/2+e.U] = 1
		}
	}
	return append(EncN(n, form), PackBits(bits, 0)...)
}

// PairBits appends the pair (b, x) with x in k bits.
func PairBits(bits []byte, b byte, x, k int) []byte {
	bits = append(bits, b)
	for j := k - 1; j >= 0; j-- {
		bits = append(bits, byte(x>>uint(j))&1)
	}
	return bits
}

// BitsFor is the number of bits needed to represent n-1.
func BitsFor(n int) int {
	k := 0
	for n > 1 && (1<<uint(k)) < n {
		k++
	}
	return k
}

// SpecSparse6Encode writes a sparse6 string of (n, es) (es sorted by V then U) in the way the
// format text describes, including the padding rule.
func SpecSparse6Encode(n int, es []Edge, form int) []byte {
	k := BitsFor(n)
	var bits []byte
	v := 0
	for _, e := range es {
		switch {
		case e.V == v:
			bits = PairBits(bits, 0, e.U, k)
		case e.V == v+1:
			v++
			bits = PairBits(bits, 1, e.U, k)
		default:
			v = e.V
			bits = PairBits(bits, 1, e.V, k)
			bits = PairBits(bits, 0, e.U, k)
		}
	}
	if r := len(bits) % 6; r != 0 {
		padLen := 6 - r
		if (n == 2 || n == 4 || n == 8 || n == 16) && v == n-2 && padLen >= k+1 {
			bits = append(bits, 0)
		}
	}
	out := append([]byte{':'}, EncN(n, form)...)
	return append(out, PackBits(bits, 1)...)
}
