package codecobs

import (
	"fmt"
	"hash/fnv"

	"github.com/Tom-Johnston/mamba/graph"
	"github.com/Tom-Johnston/mamba/sortints"
	"verifharness/hx"
)

// Provenances lists the ways BuildProv can make a value of the interface graph.Graph that
// presents one and the same abstract graph (n, es).  The codecs take any graph.Graph, so every
// one of them must be encoded identically.
var Provenances = []string{
	"d",  // NewDense from a 0/1 edge array
	"s",  // NewSparse from sorted neighbour lists
	"w",  // NewDense from an edge array with arbitrary non-zero bytes (2, 7, 255, ...: weights, edge colours)
	"su", // NewSparse from neighbour lists in arbitrary order
	"de", // DenseGraph after an edit history (RemoveVertex in the middle, AddVertex/RemoveVertex at the end: spare capacity, AddEdge/RemoveEdge)
	"se", // SparseGraph after the same kind of history
	"dp", // DenseGraph.Copy() of an edited graph
	"sp", // SparseGraph.Copy()
	"di", // DenseGraph.InducedSubgraph (deep copy) of a larger graph, vertices in arbitrary order
	"si", // SparseGraph.InducedSubgraph of a larger graph
	"vi", // graph.InducedSubgraph view of a larger dense graph
	"vs", // graph.InducedSubgraph view of a larger sparse graph
	"vc", // graph.Complement view of the complement (dense base)
	"vz", // graph.Complement view of the complement (sparse base)
	"cd", // graph.ComplementDense of the complement
	"vn", // nested views: Complement(InducedSubgraph(Complement(larger complement-free graph)))
	"vv", // InducedSubgraph view of an InducedSubgraph view
	"r6", // the DenseGraph returned by Graph6Decode
	"rs", // the SparseGraph returned by Sparse6Decode
	"ci", // NewDense from the coloured edge array returned by ChromaticIndex (small graphs only)
	"x",  // a user-defined implementation of graph.Graph
}

// Stub is a user-defined implementation of graph.Graph (adjacency in a map).
type Stub struct {
	Nv int
	Nb map[int][]int
	Mv int
	// the vertices with at least one edge, when there are few of them (so that Neighbours of a
	// graph with 10^9 vertices costs a few comparisons)
	few   []int
	fewOK bool
}

func NewStub(n int, es []Edge) *Stub {
	g := &Stub{Nv: n, Nb: map[int][]int{}}
	for _, e := range es {
		g.Nb[e.V] = append(g.Nb[e.V], e.U)
		g.Nb[e.U] = append(g.Nb[e.U], e.V)
		g.Mv++
	}
	for v := range g.Nb {
		l := g.Nb[v]
		for i := 1; i < len(l); i++ {
			for j := i; j > 0 && l[j-1] > l[j]; j-- {
				l[j-1], l[j] = l[j], l[j-1]
			}
		}
	}
	if len(g.Nb) <= 16 {
		g.fewOK = true
		for v := range g.Nb {
			g.few = append(g.few, v)
		}
	}
	return g
}
func (g *Stub) N() int { return g.Nv }
func (g *Stub) M() int { return g.Mv }
func (g *Stub) IsEdge(i, j int) bool {
	for _, u := range g.Nb[i] {
		if u == j {
			return true
		}
	}
	return false
}
func (g *Stub) Neighbours(v int) []int {
	if g.fewOK {
		for _, u := range g.few {
			if u == v {
				return g.Nb[v]
			}
		}
		return nil
	}
	return g.Nb[v]
}
func (g *Stub) Degrees() []int {
	d := make([]int, g.Nv)
	for v, l := range g.Nb {
		d[v] = len(l)
	}
	return d
}

func seedOf(rep string, n int, es []Edge) uint64 {
	h := fnv.New64a()
	fmt.Fprintf(h, "%s/%d/%v", rep, n, es)
	return h.Sum64()
}

func denseOf(n int, es []Edge, weight func(i int) byte) *graph.DenseGraph {
	bits := make([]byte, n*(n-1)/2)
	for i, e := range es {
		bits[e.V*(e.V-1)/2+e.U] = weight(i)
	}
	return graph.NewDense(n, bits)
}

func sparseOf(n int, es []Edge, r *hx.Rng) *graph.SparseGraph {
	nb := make([]sortints.SortedInts, n)
	for i := range nb {
		nb[i] = []int{}
	}
	for _, e := range es {
		nb[e.V] = append(nb[e.V], e.U)
		nb[e.U] = append(nb[e.U], e.V)
	}
	if r != nil { // arbitrary order of every list
		for _, l := range nb {
			for i := len(l) - 1; i > 0; i-- {
				j := r.Intn(i + 1)
				l[i], l[j] = l[j], l[i]
			}
		}
	} else {
		for _, l := range nb {
			for i := 1; i < len(l); i++ {
				for j := i; j > 0 && l[j-1] > l[j]; j-- {
					l[j-1], l[j] = l[j], l[j-1]
				}
			}
		}
	}
	return graph.NewSparse(n, nb)
}

func norm(a, b int) Edge {
	if a < b {
		a, b = b, a
	}
	return Edge{a, b}
}

// larger embeds (n, es) into a graph on n+k vertices: verts[i] is the vertex of the larger graph
// that plays the role of i (arbitrary order), the other vertices get arbitrary edges.
func larger(n int, es []Edge, r *hx.Rng) (N int, big []Edge, verts []int) {
	k := r.Range(0, 3)
	N = n + k
	p := r.Perm(N)
	verts = append([]int(nil), p[:n]...)
	in := make([]bool, N)
	for _, v := range verts {
		in[v] = true
	}
	seen := map[Edge]bool{}
	for _, e := range es {
		ne := norm(verts[e.V], verts[e.U])
		seen[ne] = true
		big = append(big, ne)
	}
	for a := 1; a < N; a++ {
		for b := 0; b < a; b++ {
			if (!in[a] || !in[b]) && r.Chance(1, 3) && !seen[Edge{a, b}] {
				big = append(big, Edge{a, b})
			}
		}
	}
	SortEdges(big)
	return N, big, verts
}

func complementEdges(n int, es []Edge) []Edge {
	has := map[Edge]bool{}
	for _, e := range es {
		has[e] = true
	}
	var out []Edge
	for v := 1; v < n; v++ {
		for u := 0; u < v; u++ {
			if !has[Edge{v, u}] {
				out = append(out, Edge{v, u})
			}
		}
	}
	return out
}

// edited builds (n, es) through an edit history on g0's kind of graph: a vertex too many in the
// middle that is removed, a vertex added at the end and removed again (spare capacity), an
// edge added and removed.
func edited(n int, es []Edge, r *hx.Rng, mk func(n int, es []Edge) graph.EditableGraph) graph.EditableGraph {
	p := r.Intn(n + 1)
	up := func(v int) int {
		if v >= p {
			return v + 1
		}
		return v
	}
	var big []Edge
	for _, e := range es {
		big = append(big, norm(up(e.V), up(e.U)))
	}
	for v := 0; v <= n; v++ {
		if v != p && r.Chance(1, 2) {
			big = append(big, norm(p, v))
		}
	}
	SortEdges(big)
	g := mk(n+1, big)
	g.RemoveVertex(p)
	for c := r.Range(1, 2); c > 0; c-- {
		var nb []int
		for v := 0; v < g.N(); v++ {
			if r.Chance(1, 2) {
				nb = append(nb, v)
			}
		}
		g.AddVertex(nb)
	}
	for g.N() > n {
		g.RemoveVertex(g.N() - 1)
	}
	if n >= 2 {
		for c := 0; c < 3; c++ {
			a := r.Intn(n)
			b := r.Intn(n)
			if a != b && !g.IsEdge(a, b) {
				g.AddEdge(a, b)
				g.RemoveEdge(a, b)
			}
		}
	}
	return g
}

var weights = []byte{2, 7, 255, 128, 3, 64, 1, 254}

// BuildProv makes the graph (n, es) (es clean: sorted, U < V < n, no repeats) in the named way.
// ok is false when that provenance does not apply (ci on a large graph) or when the value the
// library returns does not present the graph (n, es) through its own observers — then the
// codecs are not to blame and the caller falls back to a plain representation.
func BuildProv(rep string, n int, es []Edge) (g graph.Graph, ok bool) {
	r := hx.NewRng(seedOf(rep, n, es))
	mkd := func(n int, es []Edge) graph.EditableGraph { return denseOf(n, es, func(int) byte { return 1 }) }
	mks := func(n int, es []Edge) graph.EditableGraph { return sparseOf(n, es, nil) }
	built := Call(func() {
		switch rep {
		case "d":
			g = denseOf(n, es, func(int) byte { return 1 })
		case "s":
			g = sparseOf(n, es, nil)
		case "w":
			off := r.Intn(len(weights))
			g = denseOf(n, es, func(i int) byte {
				if i == 0 {
					return weights[off%3] // at least one byte > 1
				}
				return weights[(off+i*5)%len(weights)]
			})
		case "su":
			g = sparseOf(n, es, r)
		case "de":
			g = edited(n, es, r, mkd)
		case "se":
			g = edited(n, es, r, mks)
		case "dp":
			g = edited(n, es, r, mkd).(*graph.DenseGraph).Copy()
		case "sp":
			g = edited(n, es, r, mks).(*graph.SparseGraph).Copy()
		case "di", "si", "vi", "vs", "vv":
			N, big, verts := larger(n, es, r)
			switch rep {
			case "di":
				g = denseOf(N, big, func(int) byte { return 1 }).InducedSubgraph(verts)
			case "si":
				g = sparseOf(N, big, nil).InducedSubgraph(verts)
			case "vi":
				g = graph.InducedSubgraph(denseOf(N, big, func(i int) byte { return weights[i%len(weights)] }), verts)
			case "vs":
				g = graph.InducedSubgraph(sparseOf(N, big, r), verts)
			case "vv":
				// first select the vertices in ascending order plus one more, then reorder
				all := r.Perm(N)
				pos := make([]int, N)
				for i, v := range all {
					pos[v] = i
				}
				inner := graph.InducedSubgraph(sparseOf(N, big, nil), all)
				sel := make([]int, len(verts))
				for i, v := range verts {
					sel[i] = pos[v]
				}
				g = graph.InducedSubgraph(inner, sel)
			}
		case "vc":
			g = graph.Complement(denseOf(n, complementEdges(n, es), func(i int) byte { return weights[i%len(weights)] }))
		case "vz":
			g = graph.Complement(sparseOf(n, complementEdges(n, es), r))
		case "cd":
			g = graph.ComplementDense(sparseOf(n, complementEdges(n, es), nil))
		case "vn":
			N, big, verts := larger(n, es, r)
			g = graph.Complement(graph.InducedSubgraph(graph.Complement(sparseOf(N, big, nil)), verts))
			g = graph.Complement(graph.Complement(g))
		case "r6":
			d, err := graph.Graph6Decode(string(SpecGraph6Encode(n, es, 0)))
			if err == nil {
				g = d
			}
		case "rs":
			d, err := graph.Sparse6Decode(string(SpecSparse6Encode(n, es, 0)))
			if err == nil {
				g = d
			}
		case "ci":
			if n <= 7 && len(es) <= 12 {
				_, ce := graph.ChromaticIndex(denseOf(n, es, func(int) byte { return 1 }))
				if len(ce) == n*(n-1)/2 {
					g = graph.NewDense(n, ce)
				}
			}
		case "x":
			g = NewStub(n, es)
		}
	})
	if !built || g == nil {
		return nil, false
	}
	// the value must present (n, es) through every observer the codecs may use
	good := false
	Call(func() {
		if Descr(g) != DescrOf(n, es) {
			return
		}
		if n <= 70 {
			has := map[Edge]bool{}
			for _, e := range es {
				has[e] = true
			}
			for a := 0; a < n; a++ {
				for b := 0; b < n; b++ {
					if g.IsEdge(a, b) != (a != b && has[norm(a, b)]) {
						return
					}
				}
			}
		}
		good = true
	})
	return g, good
}
