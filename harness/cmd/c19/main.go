// Command c19 runs operations on independent values, and read-only queries on shared values,
// from several goroutines under the race detector and compares every goroutine's result with
// the result of the same work done alone (C19).  Build with -race (cfg/C19.json).
package main

import (
	"fmt"
	"sort"
	"strconv"
	"strings"
	"sync"
	"sync/atomic"
	"time"

	"github.com/Tom-Johnston/mamba/comb"
	"github.com/Tom-Johnston/mamba/dawg"
	"github.com/Tom-Johnston/mamba/graph"
	"github.com/Tom-Johnston/mamba/graph/search"
	"github.com/Tom-Johnston/mamba/itertools"
	"github.com/Tom-Johnston/mamba/sortints"
	"verifharness/hx"
)

// job is the work of one goroutine; it returns a canonical text of everything it computed.
type job func() string

var active, maxActive int32

func track() func() {
	a := atomic.AddInt32(&active, 1)
	for {
		m := atomic.LoadInt32(&maxActive)
		if a <= m || atomic.CompareAndSwapInt32(&maxActive, m, a) {
			break
		}
	}
	return func() { atomic.AddInt32(&active, -1) }
}

// runBoth runs the jobs one after the other, then all at once (released together), and
// reports the first goroutine whose result differs.
func runBoth(jobs []job, rounds int) (diff string, overlapped bool) {
	want := make([]string, len(jobs))
	for i, j := range jobs {
		want[i] = j()
	}
	for r := 0; r < rounds; r++ {
		got := make([]string, len(jobs))
		start := make(chan struct{})
		var wg sync.WaitGroup
		for i, j := range jobs {
			wg.Add(1)
			go func(i int, j job) {
				defer wg.Done()
				<-start
				done := track()
				got[i] = j()
				done()
			}(i, j)
		}
		close(start)
		wg.Wait()
		for i := range jobs {
			if got[i] != want[i] {
				return fmt.Sprintf("goroutine %d of %d obtained %.300q, alone it obtains %.300q", i, len(jobs), got[i], want[i]), atomic.LoadInt32(&maxActive) > 1
			}
		}
	}
	return "", atomic.LoadInt32(&maxActive) > 1
}

func randomGraph(r *hx.Rng, n int, num, den int) *graph.DenseGraph {
	g := graph.NewDense(n, nil)
	for i := 0; i < n; i++ {
		for j := 0; j < i; j++ {
			if r.Chance(num, den) {
				g.AddEdge(i, j)
			}
		}
	}
	return g
}

func toSparse(g graph.Graph) *graph.SparseGraph {
	n := g.N()
	nb := make([]sortints.SortedInts, n)
	for i := 0; i < n; i++ {
		nb[i] = sortints.NewSortedInts(g.Neighbours(i)...)
	}
	return graph.NewSparse(n, nb)
}

func observe(g graph.Graph) string {
	var sb strings.Builder
	n := g.N()
	fmt.Fprintf(&sb, "n=%d m=%d deg=%v;", n, g.M(), g.Degrees())
	for i := 0; i < n; i++ {
		fmt.Fprintf(&sb, "%v", g.Neighbours(i))
		for j := 0; j < n; j++ {
			if g.IsEdge(i, j) {
				sb.WriteByte('1')
			} else {
				sb.WriteByte('0')
			}
		}
	}
	return sb.String()
}

var classCounts = []int{1, 1, 2, 4, 11, 34, 156, 1044}

func words(r *hx.Rng, count, alpha, maxLen int) [][]byte {
	// at most 1 + alpha + ... + alpha^maxLen distinct words exist (a larger count never ends)
	possible, pw := 0, 1
	for l := 0; l <= maxLen && possible < count; l++ {
		possible += pw
		pw *= alpha
	}
	if count > possible {
		count = possible
	}
	set := map[string]bool{}
	for len(set) < count {
		l := r.Range(0, maxLen)
		b := make([]byte, l)
		for i := range b {
			b[i] = byte('a' + r.Intn(alpha))
		}
		set[string(b)] = true
	}
	var ws []string
	for w := range set {
		ws = append(ws, w)
	}
	sort.Strings(ws)
	out := make([][]byte, len(ws))
	for i, w := range ws {
		out[i] = []byte(w)
	}
	return out
}

func scenario(name string, r *hx.Rng, G int) (jobs []job, extra func() string) {
	switch name {
	case "shards": // the m shards of a split search, in parallel
		n := r.Range(4, 6)
		m := G
		total := int32(0)
		for a := 0; a < m; a++ {
			a := a
			jobs = append(jobs, func() string {
				var sb strings.Builder
				it := search.All(n, a, m)
				c := 0
				for it.Next() {
					sb.WriteString(graph.Graph6Encode(it.Value()))
					sb.WriteByte(' ')
					c++
				}
				atomic.AddInt32(&total, int32(c))
				return sb.String()
			})
		}
		extra = func() string {
			// jobs ran once alone and `rounds` times concurrently: every run yields all classes
			if int(total)%classCounts[n] != 0 {
				return fmt.Sprintf("shards of n=%d, m=%d yielded %d graphs in total, not a multiple of %d", n, m, total, classCounts[n])
			}
			return ""
		}
	case "shards-pruned":
		n := r.Range(5, 6)
		m := G
		trianglefree := func(g *graph.DenseGraph) bool {
			k := g.N()
			for a := 0; a < k; a++ {
				for b := 0; b < a; b++ {
					for c := 0; c < b; c++ {
						if g.IsEdge(a, b) && g.IsEdge(b, c) && g.IsEdge(a, c) {
							return true
						}
					}
				}
			}
			return false
		}
		for a := 0; a < m; a++ {
			a := a
			jobs = append(jobs, func() string {
				var sb strings.Builder
				it := search.WithPruning(n, a, m, trianglefree, func(*graph.DenseGraph) bool { return false })
				for it.Next() {
					sb.WriteString(graph.Graph6Encode(it.Value()))
					sb.WriteByte(' ')
				}
				return sb.String()
			})
		}
	case "canon": // canonical labellings with separate storage
		for k := 0; k < G; k++ {
			n := r.Range(3, 11)
			g := randomGraph(r, n, r.Range(1, 4), 5)
			sp := toSparse(g)
			reps := r.Range(1, 3)
			jobs = append(jobs, func() string {
				var sb strings.Builder
				for q := 0; q < reps; q++ {
					p, orb, gens := graph.CanonicalIsomorphFull(g, nil)
					fmt.Fprintf(&sb, "%v %v %v;", p, orb.Sets(), gens)
					p2 := graph.CanonicalIsomorph(sp)
					fmt.Fprintf(&sb, "%v;", p2)
				}
				return sb.String()
			})
		}
	case "canon-shared-graph": // one graph labelled from several goroutines (each its own storage)
		n := r.Range(4, 10)
		g := randomGraph(r, n, 2, 5)
		sp := toSparse(g)
		for k := 0; k < G; k++ {
			k := k
			jobs = append(jobs, func() string {
				if k%2 == 0 {
					return fmt.Sprint(graph.CanonicalIsomorph(g))
				}
				return fmt.Sprint(graph.CanonicalIsomorph(sp))
			})
		}
	case "iters": // separate combinatorial iterators
		for k := 0; k < G; k++ {
			kind := r.Intn(8)
			a, b := r.Range(3, 7), r.Range(0, 4)
			jobs = append(jobs, func() string {
				var sb strings.Builder
				switch kind {
				case 0:
					it := itertools.Combinations(a+2, b)
					for it.Next() {
						fmt.Fprint(&sb, it.Value())
					}
				case 1:
					it := itertools.CombinationsColex(a+2, b)
					for it.Next() {
						fmt.Fprint(&sb, it.Value())
					}
				case 2:
					it := itertools.Permutations(a - 1)
					for it.Next() {
						fmt.Fprint(&sb, it.Value())
					}
				case 3:
					it := itertools.LexicographicPermutations(a - 1)
					for it.Next() {
						fmt.Fprint(&sb, it.Value())
					}
				case 4:
					it := itertools.Partitions(a)
					for it.Next() {
						fmt.Fprint(&sb, it.Value())
					}
				case 5:
					it := itertools.IntegerPartitions(a + 6)
					for it.Next() {
						fmt.Fprint(&sb, it.Value())
					}
				case 6:
					it := itertools.Product(a, b+1, 2)
					for it.Next() {
						fmt.Fprint(&sb, it.Value())
					}
				case 7:
					it := itertools.MultisetCombinations([]int{a - 2, b, 2}, 3)
					for it.Next() {
						fmt.Fprint(&sb, it.Value())
					}
				}
				return sb.String()
			})
		}
	case "builders": // separate DAWG builders
		for k := 0; k < G; k++ {
			ws := words(r, r.Range(1, 60), r.Range(1, 4), 6)
			jobs = append(jobs, func() string {
				d, err := dawg.New(ws)
				if err != nil {
					return "error " + err.Error()
				}
				var sb strings.Builder
				fmt.Fprintf(&sb, "%d;", d.NumberOfWords())
				for _, w := range ws {
					i, ok := d.Lookup(w)
					fmt.Fprintf(&sb, "%d%t,", i, ok)
				}
				return sb.String()
			})
		}
	case "dawg-shared": // Lookup / Search with separate searchers on one finished Dawg
		ws := words(r, r.Range(20, 200), r.Range(2, 5), 7)
		d, err := dawg.New(ws)
		if err != nil {
			panic(err)
		}
		probes := words(r, 60, 5, 7)
		for k := 0; k < G; k++ {
			pat := []byte("a.b..")[:r.Range(1, 5)]
			ana := []byte("aabbc..")[:r.Range(1, 7)]
			kind := k % 4
			jobs = append(jobs, func() string {
				var sb strings.Builder
				switch kind {
				case 0:
					for _, w := range append(probes, ws...) {
						i, ok := d.Lookup(w)
						fmt.Fprintf(&sb, "%d%t,", i, ok)
					}
				case 1:
					s, ids := d.Search(dawg.NewPatternSearcher(pat, '.'))
					fmt.Fprintf(&sb, "%q %v", s, ids)
				case 2:
					s, ids := d.Search(dawg.NewAnagramSearcher(ana, '.'))
					fmt.Fprintf(&sb, "%q %v", s, ids)
				case 3:
					b, err := d.GobEncode()
					fmt.Fprintf(&sb, "%x %v %d", b, err, d.NumberOfWords())
				}
				return sb.String()
			})
		}
	case "graph-shared": // observers on one graph in its four representations
		n := r.Range(2, 14)
		g := randomGraph(r, n, r.Range(1, 4), 5)
		sp := toSparse(g)
		views := []graph.Graph{g, sp, graph.Complement(g), graph.Complement(sp), graph.InducedSubgraph(g, r.Perm(n)[:r.Range(1, n)]), graph.InducedSubgraph(sp, r.Perm(n)[:r.Range(1, n)])}
		for k := 0; k < G; k++ {
			v := views[k%len(views)]
			enc := k%3 == 0
			jobs = append(jobs, func() string {
				s := observe(v)
				if enc {
					s += graph.Graph6Encode(v) + graph.Sparse6Encode(v)
				}
				return s
			})
		}
	case "comb": // the package-level tables of comb are only read
		for k := 0; k < G; k++ {
			base := r.Range(0, 60)
			jobs = append(jobs, func() string {
				var sb strings.Builder
				for n := base; n < base+8; n++ {
					for kk := 0; kk <= n && kk < 9; kk++ {
						fmt.Fprintf(&sb, "%d,", comb.Coeff(n, kk))
					}
				}
				for rk := base; rk < base+40; rk++ {
					c := comb.Unrank(rk, 3)
					fmt.Fprintf(&sb, "%v%d;", c, comb.Rank(c))
				}
				fmt.Fprint(&sb, comb.Coeffs(base % 20))
				return sb.String()
			})
		}
	case "cliques": // AllMaximalCliques, each call with its own channel, on own and on shared graphs
		shared := randomGraph(r, r.Range(3, 11), 1, 2)
		for k := 0; k < G; k++ {
			g := shared
			if k%2 == 0 {
				g = randomGraph(r, r.Range(2, 11), r.Range(1, 4), 5)
			}
			jobs = append(jobs, func() string {
				c := make(chan []int)
				go graph.AllMaximalCliques(g, c)
				var all []string
				for cl := range c {
					cp := append([]int(nil), cl...)
					sort.Ints(cp)
					all = append(all, fmt.Sprint(cp))
				}
				sort.Strings(all)
				return strings.Join(all, "") + strconv.Itoa(graph.CliqueNumber(g))
			})
		}
	case "sortints-shared": // non-mutating set functions on shared arguments
		a := sortints.NewSortedInts(r.Perm(30)[:r.Range(0, 20)]...)
		b := sortints.NewSortedInts(r.Perm(30)[:r.Range(0, 20)]...)
		for k := 0; k < G; k++ {
			jobs = append(jobs, func() string {
				return fmt.Sprint(sortints.Union(a, b), sortints.Intersection(a, b), sortints.SetMinus(a, b), sortints.XOR(a, b),
					sortints.IntersectionSize(a, b), sortints.Complement(31, a), sortints.ContainsSorted(a, b), sortints.ContainsSingle(a, 7), a, b)
			})
		}
	default:
		panic("unknown scenario " + name)
	}
	return
}

var scenarios = []string{"shards", "shards-pruned", "canon", "canon-shared-graph", "iters", "builders", "dawg-shared", "graph-shared", "comb", "cliques", "sortints-shared"}

func exec(line string) hx.Result {
	f := strings.Split(line, ";")
	seed, _ := strconv.ParseUint(f[1], 10, 64)
	G, _ := strconv.Atoi(f[2])
	rounds, _ := strconv.Atoi(f[3])
	r := hx.NewRng(seed)
	atomic.StoreInt32(&maxActive, 0)
	jobs, extra := scenario(f[0], r, G)
	diff, overlapped := runBoth(jobs, rounds)
	res := hx.Result{Obs: "ok", Nontrivial: overlapped && len(jobs) >= 2, Buckets: []string{"scenario:" + f[0], "goroutines=" + f[2]}}
	if diff == "" && extra != nil {
		diff = extra()
	}
	if diff != "" {
		res.Obs = "diff"
		res.Viol = append(res.Viol, hx.Fail("C19:"+f[0], "%s: %s", f[0], diff))
	}
	return res
}

func gen(g *hx.Gen) {
	per := g.Pick(6, 60)
	for _, s := range scenarios {
		for i := 0; i < per; i++ {
			G := []int{2, 3, 4, 5, 8, 16}[g.Rng.Intn(6)]
			if strings.HasPrefix(s, "shards") {
				G = []int{2, 3, 4, 5, 7}[g.Rng.Intn(5)]
			}
			g.Emit(fmt.Sprintf("%s;%d;%d;%d", s, g.Rng.U64()%1000000, G, g.Pick(2, 4)))
		}
	}
}

func main() {
	hx.Main(hx.Prop{
		Rule:        "case = scenario, seed, number of goroutines, rounds; every goroutine's result is compared with the same work done alone, under the race detector; non-trivial = at least two goroutines were observed inside their work at the same time (shared atomic counter); distinct by case text",
		Gen:         gen,
		Exec:        exec,
		CaseTimeout: 120 * time.Second,
		Workers:     3,
		MemMB:       0,
		WorkerEnv:   []string{"GORACE=halt_on_error=1 exitcode=66", "GOMAXPROCS=8"},
	})
}
