// Command c19 runs operations on independent values, and read-only queries on shared values,
// from several goroutines under the race detector and compares every goroutine's result with
// the result of the same work done alone (C19).  Build with -race (cfg/C19.json).
//
// Every exported function family of the repository has a scenario, so that hidden shared state
// added anywhere (a package-level memo table or scratch buffer, a cache filled lazily inside an
// observer) is exercised concurrently and reported by the race detector with a replayable case.
package main

import (
	"bytes"
	"encoding/json"
	"fmt"
	"os"
	"os/exec"
	"path/filepath"
	"sort"
	"strconv"
	"strings"
	"sync"
	"time"

	"github.com/Tom-Johnston/mamba/comb"
	"github.com/Tom-Johnston/mamba/dawg"
	"github.com/Tom-Johnston/mamba/disjoint"
	"github.com/Tom-Johnston/mamba/graph"
	"github.com/Tom-Johnston/mamba/graph/search"
	"github.com/Tom-Johnston/mamba/ints"
	"github.com/Tom-Johnston/mamba/itertools"
	"github.com/Tom-Johnston/mamba/sortints"
	"github.com/Tom-Johnston/mamba/tsp"
	"verifharness/hx"
)

// job is the work of one goroutine; it returns a canonical text of everything it computed.
type job func() string

// overlap is measured from per-goroutine time stamps written into the goroutine's own slot: an
// atomic counter shared by the goroutines would itself order them (the race detector treats
// atomics as synchronisation) and hide races between a goroutine that finished and one that
// had not started yet.
var sawOverlap bool

func intervalsOverlap(from, to []time.Time) bool {
	for i := range from {
		for j := range from {
			if i < j && from[i].Before(to[j]) && from[j].Before(to[i]) {
				return true
			}
		}
	}
	return false
}

// guarded runs a job; a panic becomes part of the result (a deterministic panic of the code
// on some input is the same alone and concurrently, and is the business of another property;
// a panic that only happens concurrently shows up as a difference).
func guarded(j job) (s string) {
	defer func() {
		if e := recover(); e != nil {
			s = fmt.Sprintf("PANIC %v", e)
		}
	}()
	return j()
}

const phaseLimit = 60 * time.Second

// runConcurrently releases all jobs together; short jobs are repeated (at most 40 times or
// 4 ms) so that the goroutines really overlap; a repetition that differs from the goroutine's
// own first result is kept (it will differ from the reference too).
func runConcurrently(jobs []job) (got []string, finished bool) {
	got = make([]string, len(jobs))
	from, to := make([]time.Time, len(jobs)), make([]time.Time, len(jobs))
	start := make(chan struct{})
	var wg sync.WaitGroup
	for i, j := range jobs {
		wg.Add(1)
		go func(i int, j job) {
			defer wg.Done()
			<-start
			from[i] = time.Now()
			first := guarded(j)
			res := first
			for rep, t0 := 0, time.Now(); rep < 40 && res == first && time.Since(t0) < 4*time.Millisecond; rep++ {
				res = guarded(j)
			}
			got[i] = res
			to[i] = time.Now()
		}(i, j)
	}
	close(start)
	all := make(chan struct{})
	go func() { wg.Wait(); close(all) }()
	select {
	case <-all:
		if intervalsOverlap(from, to) {
			sawOverlap = true
		}
		return got, true
	case <-time.After(phaseLimit):
		return got, false
	}
}

// runBoth runs the jobs all at once FIRST (so that a cache filled lazily, in a shared value or
// in a package-level variable, is still cold when the goroutines meet), then one after the
// other for the reference results, then concurrently again rounds-1 times; it reports the first
// goroutine whose result differs from the same work done alone.  seqHang: the work did not
// even finish alone (nothing to compare; not a matter of this property).
func runBoth(jobs, ref []job, rounds int) (want []string, diff string, overlapped, seqHang bool) {
	first, finished := runConcurrently(jobs)
	want = make([]string, len(jobs))
	if ref == nil {
		ref = jobs
	}
	seqDone := make(chan struct{})
	go func() {
		for i, j := range ref {
			want[i] = guarded(j)
		}
		close(seqDone)
	}()
	select {
	case <-seqDone:
	case <-time.After(phaseLimit):
		return nil, "", false, true
	}
	for r := 0; r < rounds; r++ {
		got := first
		if r > 0 {
			got, finished = runConcurrently(jobs)
		}
		if !finished {
			return want, fmt.Sprintf("the %d goroutines did not finish within %v although the same work done alone did", len(jobs), phaseLimit), sawOverlap, false
		}
		for i := range jobs {
			if got[i] != want[i] {
				return want, fmt.Sprintf("goroutine %d of %d obtained %.300q, alone it obtains %.300q", i, len(jobs), got[i], want[i]), sawOverlap, false
			}
		}
	}
	return want, "", sawOverlap, false
}

func randomGraph(r *hx.Rng, n int, num, den int) *graph.DenseGraph {
	g := graph.NewDense(n, nil)
	for i := 0; i < n; i++ {
		for j := 0; j < i; j++ {
			if r.Chance(num, den) {
				g.AddEdge(i, j)
			}
		}
	}
	return g
}

func toSparse(g graph.Graph) *graph.SparseGraph {
	n := g.N()
	nb := make([]sortints.SortedInts, n)
	for i := 0; i < n; i++ {
		nb[i] = sortints.NewSortedInts(g.Neighbours(i)...)
	}
	return graph.NewSparse(n, nb)
}

func observe(g graph.Graph) string {
	var sb strings.Builder
	n := g.N()
	fmt.Fprintf(&sb, "n=%d m=%d deg=%v;", n, g.M(), g.Degrees())
	for i := 0; i < n; i++ {
		fmt.Fprintf(&sb, "%v", g.Neighbours(i))
		for j := 0; j < n; j++ {
			if g.IsEdge(i, j) {
				sb.WriteByte('1')
			} else {
				sb.WriteByte('0')
			}
		}
	}
	return sb.String()
}

var classCounts = []int{1, 1, 2, 4, 11, 34, 156, 1044}

func words(r *hx.Rng, count, alpha, maxLen int) [][]byte {
	// at most 1 + alpha + ... + alpha^maxLen distinct words exist (a larger count never ends)
	possible, pw := 0, 1
	for l := 0; l <= maxLen && possible < count; l++ {
		possible += pw
		pw *= alpha
	}
	if count > possible {
		count = possible
	}
	set := map[string]bool{}
	for len(set) < count {
		l := r.Range(0, maxLen)
		b := make([]byte, l)
		for i := range b {
			b[i] = byte('a' + r.Intn(alpha))
		}
		set[string(b)] = true
	}
	var ws []string
	for w := range set {
		ws = append(ws, w)
	}
	sort.Strings(ws)
	out := make([][]byte, len(ws))
	for i, w := range ws {
		out[i] = []byte(w)
	}
	return out
}

func randInts(r *hx.Rng, n, bound int) []int {
	a := make([]int, n)
	for i := range a {
		a[i] = r.Intn(bound)
	}
	return a
}

func identity(n int) []int {
	p := make([]int, n)
	for i := range p {
		p[i] = i
	}
	return p
}

// sizes just below / at / above the usual capacity and word-size thresholds
var thresholds = []int{7, 8, 9, 15, 16, 17, 31, 32, 33, 63, 64, 65}

func sizeAround(r *hx.Rng, small, max int) int {
	if r.Chance(1, 2) {
		return r.Range(small, 14)
	}
	for {
		if t := thresholds[r.Intn(len(thresholds))]; t <= max {
			return t
		}
	}
}

// wordsOver: count distinct words over the given alphabet, sorted
func wordsOver(r *hx.Rng, count int, alphabet []byte, maxLen int) [][]byte {
	set := map[string]bool{}
	for tries := 0; len(set) < count && tries < 50*count; tries++ {
		l := r.Range(0, maxLen)
		b := make([]byte, l)
		for i := range b {
			b[i] = alphabet[r.Intn(len(alphabet))]
		}
		set[string(b)] = true
	}
	var ws []string
	for w := range set {
		ws = append(ws, w)
	}
	sort.Strings(ws)
	out := make([][]byte, len(ws))
	for i, w := range ws {
		out[i] = []byte(w)
	}
	return out
}

// alphabetOf: narrow and wide alphabets (nodes with 2 .. 64 links), plain letters or the full byte range
func alphabetOf(r *hx.Rng) []byte {
	size := []int{2, 3, 5, 7, 8, 9, 16, 17, 26, 40, 64}[r.Intn(11)]
	a := make([]byte, size)
	if r.Chance(1, 3) {
		special := []byte{0x00, 0x7f, 0x80, 0xff, '.', '0', ' ', 0x20 + 64, 0x01}
		for i := range a {
			if i < len(special) {
				a[i] = special[i]
			} else {
				a[i] = byte(90 + i)
			}
		}
		sort.Slice(a, func(i, j int) bool { return a[i] < a[j] })
		return a
	}
	for i := range a {
		a[i] = byte('a' + i)
	}
	return a
}

// evenLength is a user's own dawg.Searcher: accepts the words of even length.
type evenLength struct{ depth int }

func (e *evenLength) AllowStep(b byte) bool { return true }
func (e *evenLength) Step(b byte)           { e.depth++ }
func (e *evenLength) Backstep()             { e.depth-- }
func (e *evenLength) AllowWord() bool       { return e.depth%2 == 0 }
func (e *evenLength) Chosen()               {}

// userGraph is a user's own implementation of graph.Graph (adjacency matrix, no shared writes).
type userGraph struct {
	n   int
	adj []bool
}

func newUserGraph(g graph.Graph) *userGraph {
	u := &userGraph{n: g.N(), adj: make([]bool, g.N()*g.N())}
	for i := 0; i < u.n; i++ {
		for j := 0; j < u.n; j++ {
			u.adj[i*u.n+j] = i != j && g.IsEdge(i, j)
		}
	}
	return u
}
func (u *userGraph) N() int { return u.n }
func (u *userGraph) M() int {
	m := 0
	for _, b := range u.adj {
		if b {
			m++
		}
	}
	return m / 2
}
func (u *userGraph) IsEdge(i, j int) bool {
	return i >= 0 && j >= 0 && i < u.n && j < u.n && u.adj[i*u.n+j]
}
func (u *userGraph) Neighbours(v int) []int {
	nb := []int{}
	for j := 0; j < u.n; j++ {
		if u.adj[v*u.n+j] {
			nb = append(nb, j)
		}
	}
	return nb
}
func (u *userGraph) Degrees() []int {
	d := make([]int, u.n)
	for i := range d {
		d[i] = len(u.Neighbours(i))
	}
	return d
}

// structuredGraph: graphs with many automorphisms and ties (pruning and tie-break paths of the
// canonical search), else a random graph
func structuredGraph(r *hx.Rng, n int) *graph.DenseGraph {
	switch r.Intn(6) {
	case 0:
		return graph.Cycle(n)
	case 1:
		return graph.CompletePartiteGraph(n/2, n-n/2)
	case 2: // disjoint union of two equal cycles plus isolated rest
		g := graph.NewDense(n, nil)
		h := n / 2
		for i := 0; i < h && h > 2; i++ {
			g.AddEdge(i, (i+1)%h)
			g.AddEdge(h+i, h+(i+1)%h)
		}
		return g
	case 3:
		return graph.CirculantGraph(n, 1, 2)
	case 4:
		return graph.NewDense(n, nil)
	}
	return randomGraph(r, n, r.Range(1, 4), 5)
}

// presentations of one abstract graph: every way the API allows to obtain it
func presentations(r *hx.Rng, g *graph.DenseGraph) []graph.Graph {
	n := g.N()
	sp := toSparse(g)
	out := []graph.Graph{g, sp, graph.Complement(g), graph.Complement(sp), newUserGraph(g), graph.Complement(newUserGraph(g)),
		g.Copy(), sp.Copy(), graph.Complement(graph.Complement(g)), graph.InducedSubgraph(g, identity(n)), graph.InducedSubgraph(sp, r.Perm(n)),
		graph.Complement(graph.InducedSubgraph(g, r.Perm(n)[:r.Range(1, n)]))}
	// after an edit history that leaves stale capacity behind
	e := g.Copy()
	e.AddVertex(identity(n))
	e.RemoveVertex(n)
	out = append(out, e)
	es := sp.Copy()
	es.AddVertex([]int{0})
	es.RemoveVertex(n)
	out = append(out, es)
	// decoder outputs (not in a cold process: building them would run the encoders, which the
	// goroutines are to meet first, before any goroutine starts)
	if coldProcess {
		return append(out, g.Copy(), sp.Copy())
	}
	if d, err := graph.Graph6Decode(graph.Graph6Encode(g)); err == nil {
		out = append(out, d)
	}
	if d, err := graph.Sparse6Decode(graph.Sparse6Encode(g)); err == nil {
		out = append(out, d)
	}
	return out
}

func drain(sb *strings.Builder, next func() bool, value func() []int) {
	for next() {
		fmt.Fprint(sb, value())
	}
}

func scenario(name string, r *hx.Rng, G int) (jobs []job, extra func(results []string) string) {
	jobs, _, extra, _ = scenarioFull(name, r, G)
	return
}

// ---------------------------------------------------------------- values built from the same input slices

// inputs are the caller's slices handed to constructors.  Two values built from the same slices
// are still separate values: they must behave as if each had a private copy, and the slices
// must be bit-identical afterwards.
type inputs struct {
	I  [][]int
	B  [][]byte
	W  [][]byte
	NB []sortints.SortedInts
	n  int
	g0 *graph.DenseGraph // shared, only read
	s0 *graph.SparseGraph
	d  *dawg.Dawg // shared, only read (built from a private copy of W)
}

func (in *inputs) clone() *inputs {
	c := &inputs{n: in.n, g0: in.g0, s0: in.s0, d: in.d}
	for _, x := range in.I {
		c.I = append(c.I, append([]int{}, x...))
	}
	for _, x := range in.B {
		c.B = append(c.B, append([]byte{}, x...))
	}
	for _, x := range in.W {
		c.W = append(c.W, append([]byte{}, x...))
	}
	for _, x := range in.NB {
		c.NB = append(c.NB, append(sortints.SortedInts{}, x...))
	}
	return c
}

func (in *inputs) diff(m *inputs) string {
	a, b := fmt.Sprint(in.I, in.B, in.W, in.NB), fmt.Sprint(m.I, m.B, m.W, m.NB)
	if a != b {
		return fmt.Sprintf("the caller's input slices were modified: now %.300s, were %.300s", a, b)
	}
	return ""
}

func newInputs(r *hx.Rng) *inputs {
	in := &inputs{n: r.Range(4, 7)}
	n := in.n
	in.g0 = randomGraph(r, n, 2, 5)
	in.s0 = toSparse(in.g0)
	perm := r.Perm(n)
	cut := r.Range(1, n-1)
	sortedSub := append([]int{}, r.Perm(12)[:r.Range(1, 6)]...)
	sort.Ints(sortedSub)
	comb3 := append([]int{}, r.Perm(9)[:3]...)
	sort.Ints(comb3)
	colouring := randInts(r, n, 3)
	maxima := randInts(r, r.Range(3, 5), 4)
	for i := range maxima {
		maxima[i]++ // 1..4: larger than small k, so that a constructor capping them in place shows
	}
	dims := randInts(r, r.Range(2, 4), 3)
	for i := range dims {
		dims[i]++
	}
	in.I = [][]int{
		maxima,                                   // 0 MultisetCombinations
		{r.Range(1, 2), r.Range(0, 2), 1},        // 1 MultisetPermutations
		dims,                                     // 2 Product, RestrictedPrefixProduct, CompletePartiteGraph
		append([]int{}, perm[:r.Range(1, n)]...), // 3 InducedSubgraph
		append([]int{}, perm[:cut]...),           // 4 vertex class
		append([]int{}, perm[cut:]...),           // 5 vertex class
		randInts(r, r.Range(1, 8), 12),           // 6 NewSortedInts / Add
		sortedSub,                                // 7 a SortedInts argument
		r.Perm(n),                                // 8 GreedyColor order
		randInts(r, n-2, n),                      // 9 Prufer code
		comb3,                                    // 10 comb.Rank
		{1, r.Range(2, 3)},                       // 11 CirculantGraph differences
		colouring,                                // 12 IsProperColouring
	}
	edges := make([]byte, n*(n-1)/2)
	for i := range edges {
		if r.Chance(2, 5) {
			edges[i] = 1
		}
	}
	in.B = [][]byte{[]byte("a.b..")[:r.Range(1, 5)], []byte("aabbc..")[:r.Range(1, 7)], edges, graph.MulticodeEncode(in.g0)}
	in.W = words(r, r.Range(3, 40), r.Range(2, 3), 5)
	wcopy := make([][]byte, len(in.W))
	for i, w := range in.W {
		wcopy[i] = append([]byte{}, w...)
	}
	in.d, _ = dawg.New(wcopy)
	// 13: a sorted set disjoint from I[7]; 14: the empty set; 15: a sorted set overlapping I[7]
	disjointSet := append([]int{}, r.Perm(12)[:r.Range(1, 5)]...)
	for i := range disjointSet {
		disjointSet[i] += 100
	}
	sort.Ints(disjointSet)
	overlap := append(append([]int{}, sortedSub[:(len(sortedSub)+1)/2]...), 50, 60)
	in.I = append(in.I, disjointSet, []int{}, overlap)
	for i := 0; i < n; i++ {
		in.NB = append(in.NB, sortints.NewSortedInts(in.g0.Neighbours(i)...))
	}
	return in
}

const sharedKinds = 11

// build constructs one value of the given kind from the input slices and returns a function
// that yields its observations piece by piece (so that two values can be interleaved).
func build(kind int, in *inputs, v int) func() (string, bool) {
	n := in.n
	steps := func(fs ...func() string) func() (string, bool) {
		i := 0
		return func() (string, bool) {
			if i >= len(fs) {
				return "", false
			}
			i++
			return fs[i-1](), true
		}
	}
	switch kind {
	case 0:
		it := itertools.MultisetCombinations(in.I[0], 1+v%3)
		return func() (string, bool) {
			if it.Next() {
				return fmt.Sprint(it.Value(), it.FreqValue()), true
			}
			return "", false
		}
	case 1:
		it := itertools.MultisetPermutations(in.I[1])
		return func() (string, bool) {
			if it.Next() {
				return fmt.Sprint(it.Value()), true
			}
			return "", false
		}
	case 2:
		it := itertools.Product(in.I[2]...)
		return func() (string, bool) {
			if it.Next() {
				return fmt.Sprint(it.Value()), true
			}
			return "", false
		}
	case 3:
		it := itertools.RestrictedPrefixProduct(func(p []int) bool { return len(p) < 2 || p[len(p)-1] != (p[len(p)-2]+v)%3 }, in.I[2]...)
		return func() (string, bool) {
			if it.Next() {
				return fmt.Sprint(it.Value()), true
			}
			return "", false
		}
	case 4:
		var d *dawg.Dawg
		return steps(
			func() string {
				var err error
				d, err = dawg.New(in.W)
				if err != nil {
					panic(err)
				}
				return fmt.Sprint(d.NumberOfWords())
			},
			func() string {
				var sb strings.Builder
				for _, w := range in.W {
					i, ok := d.Lookup(w)
					fmt.Fprint(&sb, i, ok)
				}
				return sb.String()
			},
			func() string { return fmt.Sprint(d.Search(dawg.NewPatternSearcher(in.B[0], '.'))) },
			func() string { return fmt.Sprint(d.Search(dawg.NewAnagramSearcher(in.B[1], '.'))) },
		)
	case 5:
		var g *graph.SparseGraph
		return steps(
			func() string { g = graph.NewSparse(n, in.NB); return observe(g) },
			func() string {
				for i := 0; i < n; i++ {
					j := (i + 1 + v) % n
					if i != j && !g.IsEdge(i, j) {
						g.AddEdge(i, j)
						break
					}
				}
				return observe(g)
			},
			func() string { g.RemoveVertex(v % n); g.AddVertex([]int{0}); return observe(g) },
		)
	case 6:
		var g *graph.DenseGraph
		return steps(
			func() string { g = graph.NewDense(n, in.B[2]); return observe(g) },
			func() string {
				i, j := v%n, (v+1)%n
				if g.IsEdge(i, j) {
					g.RemoveEdge(i, j)
				} else {
					g.AddEdge(i, j)
				}
				return observe(g)
			},
			func() string { g.RemoveVertex(v % n); g.AddVertex([]int{0}); return observe(g) },
		)
	case 7:
		return steps(
			func() string { return observe(graph.InducedSubgraph(in.g0, in.I[3])) },
			func() string {
				return observe(in.g0.InducedSubgraph(in.I[3])) + observe(in.s0.InducedSubgraph(in.I[3]))
			},
			func() string { return observe(graph.Complement(graph.InducedSubgraph(in.s0, in.I[3]))) },
		)
	case 8:
		classes := func() [][]int { return [][]int{in.I[4], in.I[5]} }
		return steps(
			func() string {
				p, orb, gens := graph.CanonicalIsomorphFull(in.g0, classes())
				return fmt.Sprint(p, orb.SmallestRep(), gens)
			},
			func() string {
				m := in.g0.M()
				op := graph.NewOrderedPartition(n, m, classes())
				nb := make([][]int, n)
				for i := range nb {
					nb[i] = in.g0.Neighbours(i)
				}
				p, orb, gens := graph.CanonicalIsomorphAllocated(n, m, nb, op, graph.NewStorage(n, m), new(graph.CanonicalOptions))
				s := fmt.Sprint(p, orb.SmallestRep(), gens)
				op.Reset(n, m, classes())
				return s
			},
		)
	case 9:
		var s sortints.SortedInts
		return steps(
			func() string { s = sortints.NewSortedInts(in.I[6]...); return fmt.Sprint(s) },
			func() string {
				s.Add(in.I[6]...)
				s.Add(v)
				s.Union(sortints.SortedInts(in.I[7]))
				return fmt.Sprint(s)
			},
			func() string {
				t := sortints.SortedInts(in.I[7])
				return fmt.Sprint(sortints.Union(t, s), sortints.SetMinus(s, t), sortints.Intersection(t, s), sortints.XOR(s, t), sortints.Complement(13, t))
			},
		)
	default:
		return steps(
			func() string {
				c, col := graph.GreedyColor(in.g0, in.I[8])
				return fmt.Sprint(c, col, graph.IsProperColouring(in.g0, in.I[12]))
			},
			func() string {
				return graph.Graph6Encode(graph.PruferDecode(in.I[9])) + graph.Graph6Encode(graph.MulticodeDecode(in.B[3])) + fmt.Sprint(comb.Rank(in.I[10]))
			},
			func() string {
				return graph.Graph6Encode(graph.CirculantGraph(7+v%2, in.I[11]...)) + graph.Graph6Encode(graph.CompletePartiteGraph(in.I[2]...)) +
					fmt.Sprint(ints.Max(in.I[6]), ints.Sum(in.I[6]), ints.Equal(in.I[6], in.I[7]), ints.Compare(in.I[6], in.I[7]))
			},
		)
	}
}

func drainMachine(sb *strings.Builder, m func() (string, bool), limit int) {
	for c := 0; limit < 0 || c < limit; c++ {
		s, ok := m()
		if !ok {
			return
		}
		sb.WriteString(s)
		sb.WriteByte(';')
	}
}

// ---------------------------------------------------------------- results are owned by the caller

const ownKinds = 6

func scribbleInts(x []int) []int {
	for i := range x {
		x[i] = -99 - i
	}
	return append(x, 7, 7, 7, 7)
}

func scribbleBytes(x []byte) []byte {
	for i := range x {
		x[i] = '#'
	}
	return append(x, "ZZZZZZZZ"...)
}

// owned records a result, then overwrites it and appends to it (the caller owns what the
// library returned); again() recomputes it from the shared inputs afterwards and must give the
// recorded value.  A difference is reported in-band with the marker OWNERSHIP.
func ownedInts(sb *strings.Builder, what string, res []int, again func() []int) {
	before := fmt.Sprint(res)
	scribbleInts(res)
	if after := fmt.Sprint(again()); after != before {
		fmt.Fprintf(sb, "OWNERSHIP: %s gave %s, and after the caller changed that result it gives %s; ", what, before, after)
	}
	sb.WriteString(before)
}

// ownResults: calls on shared read-only inputs whose results the goroutine then changes in
// place, re-reading the shared inputs and its other, untouched results afterwards.
func ownResults(kind int, in *inputs, v int) string {
	var sb strings.Builder
	n := in.n
	switch kind {
	case 0: // set algebra: results are new sets
		a := sortints.SortedInts(in.I[7])
		for bi, bs := range [][]int{in.I[13], in.I[14], in.I[15], in.I[7]} {
			b := sortints.SortedInts(bs)
			ops := []func() sortints.SortedInts{
				func() sortints.SortedInts { return sortints.SetMinus(a, b) }, func() sortints.SortedInts { return sortints.SetMinus(b, a) },
				func() sortints.SortedInts { return sortints.Union(a, b) }, func() sortints.SortedInts { return sortints.Union(b, a) },
				func() sortints.SortedInts { return sortints.Intersection(a, b) }, func() sortints.SortedInts { return sortints.XOR(a, b) },
				func() sortints.SortedInts { return sortints.Complement(70, b) }, func() sortints.SortedInts { return sortints.NewSortedInts(a...) },
			}
			held := make([]sortints.SortedInts, len(ops))
			for i, op := range ops {
				held[i] = op()
			}
			want := fmt.Sprint(held)
			for i := range held { // edit every result in place, in the ways the type offers
				r := held[i]
				if len(r) > 0 {
					r.Remove(r[(v+i)%len(r)])
				}
				r.Add(1000+v, -5)
				if len(r) > 0 {
					r[0] = -77
				}
			}
			recomputed := make([]sortints.SortedInts, len(ops))
			for i, op := range ops {
				recomputed[i] = op()
			}
			if got := fmt.Sprint(recomputed); got != want {
				fmt.Fprintf(&sb, "OWNERSHIP: set operations on a=%v b#%d gave %s, and after the caller edited those results they give %s; ", a, bi, want, got)
			}
			fmt.Fprint(&sb, want, a, b)
		}
	case 1: // Search results and GobEncode bytes
		for si := 0; si < 3; si++ {
			search := func() ([][]byte, []int) {
				switch si {
				case 0:
					return in.d.Search(dawg.NewPatternSearcher(in.B[0], '.'))
				case 1:
					return in.d.Search(dawg.NewAnagramSearcher(in.B[1], '.'))
				}
				return in.d.Search(&evenLength{})
			}
			solns, ids := search()
			want := fmt.Sprintf("%q %v", solns, ids)
			// extend and overwrite the solutions one by one; those not yet touched must stay as they were
			exp := make([]string, len(solns))
			for i := range solns {
				exp[i] = string(solns[i])
			}
			for i := range solns {
				if string(solns[i]) != exp[i] {
					fmt.Fprintf(&sb, "OWNERSHIP: after the caller extended solutions 0..%d of one search in place, solution %d reads %q (it was %q); ", i-1, i, solns[i], exp[i])
					break
				}
				solns[i] = scribbleBytes(solns[i])
			}
			scribbleInts(ids)
			s2, i2 := search()
			if got := fmt.Sprintf("%q %v", s2, i2); got != want {
				fmt.Fprintf(&sb, "OWNERSHIP: the search gave %s, and after the caller changed those results it gives %s; ", want, got)
			}
			sb.WriteString(want)
		}
		enc, _ := in.d.GobEncode()
		want := fmt.Sprintf("%x", enc)
		scribbleBytes(enc)
		if e2, _ := in.d.GobEncode(); fmt.Sprintf("%x", e2) != want {
			sb.WriteString("OWNERSHIP: GobEncode changed after the caller overwrote an earlier encoding; ")
		}
		fmt.Fprint(&sb, want, in.d.NumberOfWords())
	case 2: // observers of every presentation of the shared graph
		views := []graph.Graph{in.g0, in.s0, graph.Complement(in.g0), graph.Complement(in.s0), graph.InducedSubgraph(in.g0, identity(n)), graph.InducedSubgraph(in.s0, identity(n)), newUserGraph(in.g0)}
		for vi, g := range views[:6] {
			g := g
			ownedInts(&sb, fmt.Sprintf("Degrees of presentation %d", vi), g.Degrees(), g.Degrees)
			for u := 0; u < n; u++ {
				u := u
				ownedInts(&sb, fmt.Sprintf("Neighbours(%d) of presentation %d", u, vi), g.Neighbours(u), func() []int { return g.Neighbours(u) })
			}
			sb.WriteString(observe(g))
		}
	case 3: // results of the algorithms
		g := []graph.Graph{in.g0, in.s0, graph.Complement(in.g0)}[v%3]
		ownedInts(&sb, "ChromaticNumber colouring", second(graph.ChromaticNumber(g)), func() []int { return second(graph.ChromaticNumber(g)) })
		ownedInts(&sb, "GreedyColor colouring", second(graph.GreedyColor(g, identity(n))), func() []int { return second(graph.GreedyColor(g, identity(n))) })
		ownedInts(&sb, "Eccentricity", graph.Eccentricity(g), func() []int { return graph.Eccentricity(g) })
		ownedInts(&sb, "Degeneracy order", second(graph.Degeneracy(g)), func() []int { return second(graph.Degeneracy(g)) })
		ownedInts(&sb, "CanonicalIsomorph", graph.CanonicalIsomorph(g), func() []int { return graph.CanonicalIsomorph(g) })
		ownedInts(&sb, "ConnectedComponent", graph.ConnectedComponent(g, v%n), func() []int { return graph.ConnectedComponent(g, v%n) })
		ownedInts(&sb, "RandomMaximalClique", graph.RandomMaximalClique(g, int64(v)), func() []int { return graph.RandomMaximalClique(g, int64(v)) })
		ownedInts(&sb, "PruferEncode", graph.PruferEncode(graph.PruferDecode(in.I[9])), func() []int { return graph.PruferEncode(graph.PruferDecode(in.I[9])) })
		cc := graph.ConnectedComponents(g)
		want := fmt.Sprint(cc)
		for i := range cc {
			cc[i] = scribbleInts(cc[i])
		}
		if got := fmt.Sprint(graph.ConnectedComponents(g)); got != want {
			fmt.Fprintf(&sb, "OWNERSHIP: ConnectedComponents gave %s, then %s; ", want, got)
		}
		p, _, gens := graph.CanonicalIsomorphFull(g, nil)
		want2 := fmt.Sprint(p, gens)
		scribbleInts(p)
		for i := range gens {
			gens[i] = scribbleInts(gens[i])
		}
		p2, _, gens2 := graph.CanonicalIsomorphFull(g, nil)
		if got := fmt.Sprint(p2, gens2); got != want2 {
			fmt.Fprintf(&sb, "OWNERSHIP: CanonicalIsomorphFull gave %s, then %s; ", want2, got)
		}
		mc := graph.MulticodeEncode(g)
		want3 := fmt.Sprint(mc)
		scribbleBytes(mc)
		fmt.Fprint(&sb, want, want2, want3, fmt.Sprint(graph.MulticodeEncode(g)) == want3, observe(g))
	case 4: // comb, own disjoint sets, own graphs: results of one object changed, the object asked again
		ownedInts(&sb, "comb.Unrank", comb.Unrank(100+v, 3), func() []int { return comb.Unrank(100+v, 3) })
		rows := comb.Coeffs(10 + v%5)
		want := fmt.Sprint(rows)
		for i := range rows {
			rows[i] = scribbleInts(rows[i])
		}
		if got := fmt.Sprint(comb.Coeffs(10 + v%5)); got != want {
			fmt.Fprintf(&sb, "OWNERSHIP: comb.Coeffs gave %s, then %s; ", want, got)
		}
		s := disjoint.New(n + 3)
		for i, x := range in.I[8] {
			s.Union(x, (x+i)%n)
		}
		sets := s.Sets()
		want2 := fmt.Sprint(sets, s.SmallestRep(), s.Roots())
		for i := range sets {
			sets[i] = scribbleInts(sets[i])
		}
		scribbleInts(s.SmallestRep())
		scribbleInts(s.Roots())
		if got := fmt.Sprint(s.Sets(), s.SmallestRep(), s.Roots()); got != want2 {
			fmt.Fprintf(&sb, "OWNERSHIP: Sets/SmallestRep/Roots gave %s, then %s; ", want2, got)
		}
		fmt.Fprint(&sb, want, want2, fmt.Sprint(ints.Sum(in.I[6])))
	}
	return sb.String()
}

func second(_ int, x []int) []int { return x }

// ownResultsScenario: kinds 0..4: every goroutine calls the library on the SAME shared inputs
// and changes its results in place (reference: the same alone on private copies of the inputs;
// afterwards the shared inputs must be unchanged).  Kind 5: the parts of ONE multi-part result
// (solutions of one Search, the sets of one Sets(), the rows of one Coeffs, the components of
// one ConnectedComponents) are handed to different goroutines, each of which appends to its
// parts; every part must still read as a deep copy taken at the start.
func ownResultsScenario(name string, r *hx.Rng, G int) (jobs, ref []job, post func() string) {
	kind := 0
	if i := strings.IndexByte(name, ':'); i >= 0 {
		kind, _ = strconv.Atoi(name[i+1:])
	}
	kind %= ownKinds
	in := newInputs(r)
	master := in.clone()
	post = func() string { return in.diff(master) }
	if kind < 5 {
		for k := 0; k < G; k++ {
			v := k
			jobs = append(jobs, func() string { return ownResults(kind, in, v) })
			ref = append(ref, func() string { return ownResults(kind, master.clone(), v) })
		}
		return
	}
	// one multi-part result split over the goroutines
	var partsB [][]byte
	var partsI [][]int
	switch r.Intn(5) {
	case 0:
		partsB, _ = in.d.Search(&evenLength{})
	case 1:
		partsB, _ = in.d.Search(dawg.NewPatternSearcher([]byte("....."), '.'))
	case 2:
		s := disjoint.New(4 * in.n)
		for i := 0; i < 3*in.n; i++ {
			s.Union(r.Intn(4*in.n), r.Intn(4*in.n))
		}
		partsI = s.Sets()
	case 3:
		partsI = comb.Coeffs(r.Range(6, 20))
	case 4:
		partsI = graph.ConnectedComponents(graph.Complement(graph.CompletePartiteGraph(in.I[2]...)))
	}
	nparts := len(partsB) + len(partsI)
	expect := make([]string, nparts)
	for i := range partsB {
		expect[i] = fmt.Sprintf("%q", partsB[i])
	}
	for i := range partsI {
		expect[i] = fmt.Sprint(partsI[i])
	}
	for k := 0; k < G; k++ {
		k := k
		mine := func() string {
			var sb strings.Builder
			for i := k; i < nparts; i += G {
				sb.WriteString(expect[i])
			}
			return sb.String()
		}
		jobs = append(jobs, func() string {
			var sb strings.Builder
			for i := k; i < nparts; i += G {
				var now string
				if partsB != nil {
					now = fmt.Sprintf("%q", partsB[i])
					ext := append(partsB[i], "ZZZZZZZZZZZZ"...) // extends its own part; the part itself keeps its length
					_ = ext
				} else {
					now = fmt.Sprint(partsI[i])
					ext := append(partsI[i], 7, 7, 7, 7, 7, 7)
					_ = ext
				}
				if now != expect[i] {
					fmt.Fprintf(&sb, "OWNERSHIP: part %d of one result reads %s, it was %s before the owners of the other parts extended theirs; ", i, now, expect[i])
				}
				sb.WriteString(now)
			}
			return sb.String()
		})
		ref = append(ref, mine)
	}
	return
}

func sharedInputScenario(name string, r *hx.Rng, G int) (jobs, ref []job, post func() string) {
	kind := 0
	if i := strings.IndexByte(name, ':'); i >= 0 {
		kind, _ = strconv.Atoi(name[i+1:])
	}
	kind %= sharedKinds
	if strings.HasPrefix(name, "shared-input-handoff") {
		// every goroutine owns its inputs; it builds A, advances it a few steps, builds B from
		// the same slices and uses it up, then continues A.  Alone: A and B on private copies.
		var live, masters []*inputs
		for k := 0; k < G; k++ {
			in := newInputs(r)
			live, masters = append(live, in), append(masters, in.clone())
			m := masters[k]
			va, vb, stop := r.Intn(6), r.Intn(6), r.Range(1, 3)
			run := func(forA, forB func() *inputs) string {
				var sa, sbb strings.Builder
				a := build(kind, forA(), va)
				drainMachine(&sa, a, stop)
				b := build(kind, forB(), vb)
				drainMachine(&sbb, b, -1)
				drainMachine(&sa, a, -1)
				return sa.String() + " | " + sbb.String()
			}
			jobs = append(jobs, func() string { return run(func() *inputs { return in }, func() *inputs { return in }) })
			ref = append(ref, func() string { return run(m.clone, m.clone) })
		}
		post = func() string {
			for k := range live {
				if d := live[k].diff(masters[k]); d != "" {
					return d
				}
			}
			return ""
		}
		return
	}
	// all goroutines build their value from the same slices and use it concurrently
	in := newInputs(r)
	master := in.clone()
	for k := 0; k < G; k++ {
		v := k
		run := func(src func() *inputs) string {
			var sb strings.Builder
			drainMachine(&sb, build(kind, src(), v), -1)
			return sb.String()
		}
		jobs = append(jobs, func() string { return run(func() *inputs { return in }) })
		ref = append(ref, func() string { return run(master.clone) })
	}
	post = func() string { return in.diff(master) }
	return
}

// ---------------------------------------------------------------- two live objects, one advanced from inside the other's callback

const nestedKinds = 7

// nestedScenario: object A calls back into user code; the callback advances a second live
// object B of the same kind by one step (and calls a few pure library functions).  Alone: A
// runs with a callback that only counts its invocations, then B is advanced that many times.
func nestedScenario(name string, r *hx.Rng, G int) (jobs, ref []job) {
	kind := 0
	if i := strings.IndexByte(name, ':'); i >= 0 {
		kind, _ = strconv.Atoi(name[i+1:])
	}
	kind %= nestedKinds
	var sharedDawg *dawg.Dawg
	var sharedWords [][]byte
	if kind == 6 {
		sharedWords = wordsOver(r, r.Range(10, 80), alphabetOf(r), 5)
		sharedDawg, _ = dawg.New(sharedWords)
	}
	for k := 0; k < G; k++ {
		a, b := r.Range(3, 5), r.Range(3, 5)
		salt := r.Intn(7)
		// mkB returns a stepper of a fresh B
		mkB := func() func() string {
			iterStep := func(next func() bool, value func() []int) func() string {
				return func() string {
					if next() {
						return fmt.Sprint(value())
					}
					return "end"
				}
			}
			switch kind {
			case 0:
				it := itertools.PermutationsByPattern(b, func(p []int) bool { return len(p) < 2 || p[0] != salt%2 })
				return iterStep(it.Next, it.Value)
			case 1:
				it := itertools.RestrictedPrefixPermutations(b, func(p []int) bool { return p[len(p)-1] != (len(p)+salt)%b })
				return iterStep(it.Next, it.Value)
			case 2:
				it := itertools.RestrictedPrefixProduct(func(p []int) bool { return len(p) < 2 || p[len(p)-1] != p[len(p)-2] }, b, 2, 3)
				return iterStep(it.Next, it.Value)
			case 3:
				it := itertools.TopologicalSorts(b, func(i, j int) bool { return i < j && (i+j+salt)%3 == 0 })
				return iterStep(it.Next, it.Value)
			case 4:
				it := search.All(4, 0, 1)
				return func() string {
					if it.Next() {
						return graph.Graph6Encode(it.Value())
					}
					return "end"
				}
			case 5:
				c := 0
				return func() string {
					c++
					var buf bytes.Buffer
					tsp.LIB(&buf, c%4, func(i, j int) int { return i*j + salt })
					own := []int{5, 3, c, salt, 1}
					ints.Sort(own)
					return fmt.Sprint(buf.Len(), own, comb.Coeff(20+c%20, 3), sortints.Union(sortints.NewSortedInts(own...), sortints.Range(0, c%9, 2)))
				}
			default:
				c := 0
				return func() string {
					c++
					i, ok := sharedDawg.Lookup(sharedWords[c%len(sharedWords)])
					s := fmt.Sprint(i, ok)
					if c%5 == 0 {
						w, ids := sharedDawg.Search(&evenLength{})
						s += fmt.Sprint(len(w), ids)
					}
					return s
				}
			}
		}
		// runA runs a fresh A to the end, invoking onCall at every callback
		runA := func(onCall func()) string {
			var sb strings.Builder
			switch kind {
			case 0:
				it := itertools.PermutationsByPattern(a, func(p []int) bool { onCall(); return len(p) < 2 || p[0] < p[1] })
				drain(&sb, it.Next, it.Value)
			case 1:
				it := itertools.RestrictedPrefixPermutations(a, func(p []int) bool { onCall(); return p[len(p)-1] != len(p)-1 })
				drain(&sb, it.Next, it.Value)
			case 2:
				it := itertools.RestrictedPrefixProduct(func(p []int) bool { onCall(); return len(p) < 2 || p[len(p)-1] != p[len(p)-2] }, a, 2, 3)
				drain(&sb, it.Next, it.Value)
			case 3:
				it := itertools.TopologicalSorts(a, func(i, j int) bool { onCall(); return i < j && (i+j)%3 == 0 })
				for it.Next() {
					fmt.Fprint(&sb, it.Value(), it.InverseValue())
				}
			case 4:
				it := search.WithPruning(a, 0, 1, func(g *graph.DenseGraph) bool { onCall(); return false }, func(g *graph.DenseGraph) bool { onCall(); return g.M() > 4+salt%2 })
				for it.Next() {
					sb.WriteString(graph.Graph6Encode(it.Value()))
				}
			case 5:
				var buf bytes.Buffer
				err := tsp.LIB(&buf, a+2, func(i, j int) int { onCall(); return (i*31+j*17+salt)%97 + 1 })
				fmt.Fprint(&sb, buf.String(), err)
			default:
				w, ids := sharedDawg.Search(&callingSearcher{onCall: onCall})
				fmt.Fprint(&sb, len(w), ids)
			}
			return sb.String()
		}
		jobs = append(jobs, func() string {
			var log []string
			step := mkB()
			out := runA(func() { log = append(log, step()) })
			return out + " | " + strings.Join(log, ",")
		})
		ref = append(ref, func() string {
			calls := 0
			out := runA(func() { calls++ })
			step := mkB()
			log := make([]string, 0, calls)
			for c := 0; c < calls; c++ {
				log = append(log, step())
			}
			return out + " | " + strings.Join(log, ",")
		})
	}
	return
}

// callingSearcher accepts every word of length at most 3 and calls out at every step.
type callingSearcher struct {
	depth  int
	onCall func()
}

func (c *callingSearcher) AllowStep(b byte) bool { c.onCall(); return c.depth < 3 }
func (c *callingSearcher) Step(b byte)           { c.depth++ }
func (c *callingSearcher) Backstep()             { c.depth-- }
func (c *callingSearcher) AllowWord() bool       { c.onCall(); return true }
func (c *callingSearcher) Chosen()               {}

// scenarioFull: jobs run concurrently; ref (if not nil) is the same work done alone on private
// copies of the inputs (otherwise the jobs themselves, run one after the other, are the
// reference); post (if not nil) is checked after all phases.
func scenarioFull(name string, r *hx.Rng, G int) (jobs, ref []job, extra func(results []string) string, post func() string) {
	if strings.HasPrefix(name, "shared-input") {
		jobs, ref, post = sharedInputScenario(name, r, G)
		return
	}
	if strings.HasPrefix(name, "nested-callbacks") {
		jobs, ref = nestedScenario(name, r, G)
		return
	}
	if strings.HasPrefix(name, "own-results") {
		jobs, ref, post = ownResultsScenario(name, r, G)
		return
	}
	// name:<variant> enumerates provenance x query kind (dawg-shared) or the presentation (graph-shared)
	variant := -1
	if i := strings.IndexByte(name, ':'); i >= 0 {
		variant, _ = strconv.Atoi(name[i+1:])
		name = name[:i]
	}
	switch name {
	case "shards": // the m shards of a split search, in parallel
		n := r.Range(4, 6)
		m := G
		for a := 0; a < m; a++ {
			a := a
			jobs = append(jobs, func() string {
				var sb strings.Builder
				it := search.All(n, a, m)
				for it.Next() {
					sb.WriteString(graph.Graph6Encode(it.Value()))
					sb.WriteByte(' ')
				}
				return sb.String()
			})
		}
		extra = func(results []string) string {
			// the shards partition the isomorphism classes: all graphs distinct, as many as there are classes
			seen := map[string]bool{}
			total := 0
			for _, res := range results {
				for _, g6 := range strings.Fields(res) {
					total++
					seen[g6] = true
				}
			}
			if total != classCounts[n] || len(seen) != total {
				return fmt.Sprintf("shards of n=%d, m=%d yielded %d graphs (%d distinct), there are %d classes", n, m, total, len(seen), classCounts[n])
			}
			return ""
		}
	case "shards-pruned":
		n := r.Range(5, 6)
		m := G
		trianglefree := func(g *graph.DenseGraph) bool {
			k := g.N()
			for a := 0; a < k; a++ {
				for b := 0; b < a; b++ {
					for c := 0; c < b; c++ {
						if g.IsEdge(a, b) && g.IsEdge(b, c) && g.IsEdge(a, c) {
							return true
						}
					}
				}
			}
			return false
		}
		for a := 0; a < m; a++ {
			a := a
			jobs = append(jobs, func() string {
				var sb strings.Builder
				it := search.WithPruning(n, a, m, trianglefree, func(*graph.DenseGraph) bool { return false })
				for it.Next() {
					sb.WriteString(graph.Graph6Encode(it.Value()))
					sb.WriteByte(' ')
				}
				return sb.String()
			})
		}
	case "search-saveload": // own iterators saved, loaded and continued
		for k := 0; k < G; k++ {
			n, m := r.Range(4, 5), r.Range(1, 3)
			a := r.Intn(m)
			stop := r.Range(1, 6)
			jobs = append(jobs, func() string {
				var sb strings.Builder
				never := func(*graph.DenseGraph) bool { return false }
				it := search.WithPruning(n, a, m, never, never)
				for c := 0; c < stop && it.Next(); c++ {
					sb.WriteString(graph.Graph6Encode(it.Value()))
				}
				var buf bytes.Buffer
				it.Save(&buf)
				it2 := search.Load(&buf, never, never)
				for it2.Next() {
					sb.WriteString(graph.Graph6Encode(it2.Value()))
				}
				return sb.String()
			})
		}
	case "canon": // canonical labellings with separate storage
		for k := 0; k < G; k++ {
			n := r.Range(3, 11)
			if r.Chance(1, 8) {
				n = []int{16, 17, 32, 33}[r.Intn(4)]
			}
			g := structuredGraph(r, n)
			sp := toSparse(g)
			reps := r.Range(1, 3)
			jobs = append(jobs, func() string {
				var sb strings.Builder
				for q := 0; q < reps; q++ {
					p, orb, gens := graph.CanonicalIsomorphFull(g, nil)
					fmt.Fprintf(&sb, "%v %v %v;", p, orb.Sets(), gens)
					p2 := graph.CanonicalIsomorph(sp)
					fmt.Fprintf(&sb, "%v;", p2)
				}
				return sb.String()
			})
		}
	case "canon-shared-graph": // one graph labelled from several goroutines (each its own storage)
		n := r.Range(4, 12)
		g := structuredGraph(r, n)
		views := presentations(r, g)[:8]
		same := r.Bool()
		for k := 0; k < G; k++ {
			v := views[k%len(views)]
			if same {
				v = views[0]
			}
			jobs = append(jobs, func() string {
				p, orb, gens := graph.CanonicalIsomorphFull(v, nil)
				return fmt.Sprint(p, orb.SmallestRep(), gens)
			})
		}
	case "canon-allocated": // CanonicalIsomorphAllocated, every goroutine reusing its own storage
		for k := 0; k < G; k++ {
			var gs []*graph.DenseGraph
			for q := 0; q < 3; q++ {
				gs = append(gs, randomGraph(r, r.Range(2, 9), r.Range(1, 4), 5))
			}
			jobs = append(jobs, func() string {
				var sb strings.Builder
				op := graph.NewOrderedPartition(9, 36, nil)
				st := graph.NewStorage(9, 36)
				for _, g := range gs {
					n, m := g.N(), g.M()
					nb := make([][]int, n)
					for i := range nb {
						nb[i] = g.Neighbours(i)
					}
					op.Reset(n, m, nil)
					p, orb, gens := graph.CanonicalIsomorphAllocated(n, m, nb, op, st, new(graph.CanonicalOptions))
					fmt.Fprintf(&sb, "%v %v %v;", p, orb.SmallestRep(), gens)
				}
				return sb.String()
			})
		}
	case "iters": // separate combinatorial iterators
		for k := 0; k < G; k++ {
			kind := r.Intn(13)
			a, b := r.Range(3, 7), r.Range(0, 4)
			every := r.Range(1, 3) // Value is observed at every step, every 2nd, every 3rd; twice when observed
			jobs = append(jobs, func() string {
				var sb strings.Builder
				step := 0
				drain := func(sb *strings.Builder, next func() bool, value func() []int) {
					for next() {
						if step++; step%every == 0 {
							fmt.Fprint(sb, value())
							if every > 1 {
								fmt.Fprint(sb, value())
							}
						}
					}
					fmt.Fprint(sb, next(), next()) // after exhaustion
				}
				switch kind {
				case 0:
					it := itertools.Combinations(a+2, b)
					drain(&sb, it.Next, it.Value)
				case 1:
					it := itertools.CombinationsColex(a+2, b)
					drain(&sb, it.Next, it.Value)
				case 2:
					it := itertools.Permutations(a - 1)
					drain(&sb, it.Next, it.Value)
				case 3:
					it := itertools.LexicographicPermutations(a - 1)
					drain(&sb, it.Next, it.Value)
				case 4:
					it := itertools.Partitions(a)
					for it.Next() {
						fmt.Fprint(&sb, it.Value())
					}
				case 5:
					it := itertools.IntegerPartitions(a + 6)
					drain(&sb, it.Next, it.Value)
				case 6:
					it := itertools.Product(a, b+1, 2)
					drain(&sb, it.Next, it.Value)
				case 7:
					it := itertools.MultisetCombinations([]int{a - 2, b, 2}, 3)
					for it.Next() {
						fmt.Fprint(&sb, it.Value(), it.FreqValue())
					}
				case 8:
					it := itertools.MultisetPermutations([]int{2, b%3 + 1, 1})
					drain(&sb, it.Next, it.Value)
				case 9: // permutations whose first two entries ascend
					it := itertools.PermutationsByPattern(a-1, func(p []int) bool { return len(p) < 2 || p[0] < p[1] })
					drain(&sb, it.Next, it.Value)
				case 10:
					it := itertools.RestrictedPrefixPermutations(a-1, func(p []int) bool { return p[len(p)-1] != len(p)-1 })
					drain(&sb, it.Next, it.Value)
				case 11:
					it := itertools.RestrictedPrefixProduct(func(p []int) bool { return len(p) < 2 || p[len(p)-1] != p[len(p)-2] }, a, b+1, 3)
					drain(&sb, it.Next, it.Value)
				case 12:
					it := itertools.TopologicalSorts(a-1, func(i, j int) bool { return i < j && (i+j)%3 == 0 })
					for it.Next() {
						fmt.Fprint(&sb, it.Value(), it.InverseValue())
					}
				}
				return sb.String()
			})
		}
	case "builders": // separate DAWG builders
		for k := 0; k < G; k++ {
			ws := words(r, r.Range(1, 60), r.Range(1, 4), 6)
			jobs = append(jobs, func() string {
				d, err := dawg.New(ws)
				if err != nil {
					return "error " + err.Error()
				}
				var sb strings.Builder
				fmt.Fprintf(&sb, "%d;", d.NumberOfWords())
				for _, w := range ws {
					i, ok := d.Lookup(w)
					fmt.Fprintf(&sb, "%d%t,", i, ok)
				}
				b, err := d.GobEncode()
				var d2 dawg.Dawg
				err2 := d2.GobDecode(b)
				fmt.Fprintf(&sb, "%v %v %d", err, err2, d2.NumberOfWords())
				return sb.String()
			})
		}
	case "dawg-shared": // every read-only query of one finished Dawg, with separate searchers
		alpha := alphabetOf(r)
		ws := wordsOver(r, r.Range(20, 300), alpha, r.Range(2, 7))
		d, err := dawg.New(ws)
		if err != nil {
			panic(err)
		}
		prov, mode := r.Intn(3), r.Intn(6) // mode 0: mixed queries; 1..5: all goroutines issue the same kind of query
		if variant >= 0 {
			prov, mode = variant%3, (variant/3)%6
		}
		switch prov { // provenance of the shared value
		case 1: // zero-value Builder, never initialised explicitly
			var b dawg.Builder
			for _, w := range ws {
				b.Add(w)
			}
			d, _ = b.Finish()
		case 2: // decoded
			enc, _ := d.GobEncode()
			d = new(dawg.Dawg)
			if err := d.GobDecode(enc); err != nil {
				panic(err)
			}
		}
		probes := wordsOver(r, 60, alpha, 7)
		dot := alpha[len(alpha)-1]
		for k := 0; k < G; k++ {
			pat := append([]byte{}, alpha[0], dot, alpha[1%len(alpha)], dot, dot)[:r.Range(1, 5)]
			ana := append([]byte{}, alpha[0], alpha[0], alpha[1%len(alpha)], alpha[len(alpha)/2], dot, dot)[:r.Range(1, 6)]
			kind := k % 5
			if mode > 0 {
				kind = mode - 1
			}
			jobs = append(jobs, func() string {
				var sb strings.Builder
				switch kind {
				case 0:
					for _, w := range append(probes, ws...) {
						i, ok := d.Lookup(w)
						fmt.Fprintf(&sb, "%d%t,", i, ok)
					}
				case 1:
					s, ids := d.Search(dawg.NewPatternSearcher(pat, dot))
					fmt.Fprintf(&sb, "%q %v", s, ids)
				case 2:
					s, ids := d.Search(dawg.NewAnagramSearcher(ana, dot))
					fmt.Fprintf(&sb, "%q %v", s, ids)
				case 3:
					b, err := d.GobEncode()
					fmt.Fprintf(&sb, "%x %v %d", b, err, d.NumberOfWords())
				case 4: // two searchers at once, and a user's own searcher
					s, ids := d.Search(dawg.NewPatternSearcher(pat, dot), dawg.NewAnagramSearcher(ana, dot))
					s2, ids2 := d.Search(&evenLength{})
					fmt.Fprintf(&sb, "%q %v %d %v", s, ids, len(s2), ids2)
				}
				return sb.String()
			})
		}
	case "graph-shared": // observers and encoders on one graph in every presentation, sizes across thresholds
		n := sizeAround(r, 2, 65)
		g := randomGraph(r, n, r.Range(1, 4), 5)
		views := presentations(r, g)
		same := r.Chance(1, 2) // all goroutines on the same presentation, or spread over them
		pick := r.Intn(len(views))
		if variant >= 0 {
			same, pick = true, variant%len(views)
		}
		for k := 0; k < G; k++ {
			v := views[(pick+k)%len(views)]
			if same {
				v = views[pick]
			}
			enc := k%3 != 1
			jobs = append(jobs, func() string {
				s := observe(v)
				if enc {
					s += graph.Graph6Encode(v) + graph.Sparse6Encode(v) + graph.AdjacencyMatrixEncode(v) + fmt.Sprint(graph.MulticodeEncode(v), graph.MaxDegree(v), graph.MinDegree(v))
				}
				return s
			})
		}
	case "graph-algos-shared": // the read-only algorithms on one shared graph
		n := r.Range(3, 8)
		g := randomGraph(r, n, r.Range(2, 4), 5)
		sp := toSparse(g)
		reps := []graph.Graph{g, sp, graph.Complement(g), newUserGraph(g), graph.InducedSubgraph(sp, identity(n))}
		sameBundle := r.Intn(10) // 0..4: all goroutines run this bundle on the same presentation
		for k := 0; k < G; k++ {
			v := reps[r.Intn(len(reps))]
			bundle := r.Intn(5)
			if sameBundle < 5 {
				v, bundle = reps[sameBundle%len(reps)], sameBundle
			}
			seed := int64(r.Intn(1000))
			u, w := r.Intn(n), r.Intn(n)
			jobs = append(jobs, func() string {
				var sb strings.Builder
				switch bundle {
				case 0:
					cn, col := graph.ChromaticNumber(v)
					ok, col2 := graph.IsKColorable(v, cn)
					gc, col3 := graph.GreedyColor(v, identity(n))
					fmt.Fprint(&sb, cn, col, ok, col2, gc, col3, graph.IsProperColouring(v, col), graph.CliqueNumber(v), graph.IndependenceNumber(v))
					ci, ce := graph.ChromaticIndex(v)
					fmt.Fprint(&sb, ci, ce)
				case 1:
					fmt.Fprint(&sb, graph.Girth(v), graph.Diameter(v), graph.Radius(v), graph.Distance(v, u, w), graph.Eccentricity(v), graph.MaxDegree(v), graph.MinDegree(v))
					d, order := graph.Degeneracy(v)
					fmt.Fprint(&sb, d, order)
				case 2:
					cc := graph.ConnectedComponents(v)
					bc, art := graph.BiconnectedComponents(v)
					fmt.Fprint(&sb, cc, graph.ConnectedComponent(v, u), bc, art, graph.IsPlanar(v), graph.RandomMaximalClique(v, seed))
				case 3:
					fmt.Fprint(&sb, graph.NumberOfInducedCycles(v, n), graph.NumberOfInducedPaths(v, n), graph.Equal(v, g), graph.Equal(v, sp))
					if g.M() <= 11 { // exponential in the number of edges (and ~50x slower under the race detector)
						fmt.Fprint(&sb, graph.NumberOfCycles(g), graph.NumberOfCycles(sp), graph.ChromaticPolynomial(g), graph.ChromaticPolynomial(sp))
					}
				case 4:
					fmt.Fprint(&sb, graph.Graph6Encode(graph.ComplementDense(v)), graph.Graph6Encode(graph.LineGraphDense(v)))
					sub := []int{u, (u + 1) % n}
					fmt.Fprint(&sb, observe(g.InducedSubgraph(sub)), observe(sp.InducedSubgraph(sub)), observe(g.Copy()), observe(sp.Copy()))
				}
				return sb.String()
			})
		}
	case "editing-own": // every goroutine edits its own copy of one shared graph
		n := r.Range(3, 9)
		g := randomGraph(r, n, 2, 5)
		sp := toSparse(g)
		for k := 0; k < G; k++ {
			dense := r.Bool()
			ops := randInts(r, r.Range(3, 12), 1000)
			jobs = append(jobs, func() string {
				var e graph.EditableGraph
				switch {
				case dense && len(ops)%2 == 0:
					e = g.Copy()
				case dense:
					e = g.InducedSubgraph(identity(n)) // documented to be a deep copy as well
				case len(ops)%2 == 0:
					e = sp.Copy()
				default:
					e = sp.InducedSubgraph(identity(n))
				}
				var sb strings.Builder
				for _, o := range ops {
					m := e.N()
					if m < 3 {
						e.AddVertex(nil)
						continue
					}
					i, j := o%m, (o/m)%m
					switch (o / 97) % 6 {
					case 0:
						if i != j {
							e.AddEdge(i, j)
						}
					case 1:
						if i != j {
							e.RemoveEdge(i, j)
						}
					case 2:
						e.AddVertex([]int{i})
					case 3:
						e.RemoveVertex(i)
					case 4:
						if i != j {
							graph.Contract(e, i, j)
						}
					case 5:
						if i != j && e.IsEdge(i, j) {
							graph.SplitEdge(e, i, j)
						}
					}
					sb.WriteString(graph.Graph6Encode(e))
				}
				return sb.String() + observe(e)
			})
		}
	case "generators": // every goroutine builds its own graphs
		for k := 0; k < G; k++ {
			a, b := r.Range(3, 7), r.Range(1, 3)
			seed := int64(r.Intn(100000))
			jobs = append(jobs, func() string {
				gs := []graph.Graph{graph.CompleteGraph(a), graph.Cycle(a), graph.Path(a), graph.Star(a), graph.HypercubeGraph(b + 1), graph.FoldedHypercubeGraph(b + 1),
					graph.KneserGraph(a, b), graph.BipartiteKneserGraph(a, b), graph.CirculantGraph(a+2, 1, b), graph.CirculantBipartiteGraph(a, a, 0, b),
					graph.GeneralisedPetersenGraph(a+2, b), graph.RookGraph(b+1, a-1), graph.FlowerSnark(2*b + 1), graph.FriendshipGraph(b + 1),
					graph.CompletePartiteGraph(a, b, 1), graph.RandomGraph(a+2, 0.5, seed), graph.RandomTree(a+2, seed)}
				var sb strings.Builder
				for _, g := range gs {
					sb.WriteString(graph.Graph6Encode(g))
					sb.WriteByte(' ')
				}
				return sb.String()
			})
		}
	case "encodings": // encode / decode round trips on own graphs
		for k := 0; k < G; k++ {
			g := randomGraph(r, r.Range(1, 12), r.Range(1, 4), 5)
			seed := int64(r.Intn(100000))
			tn := r.Range(3, 9)
			jobs = append(jobs, func() string {
				var sb strings.Builder
				s6 := graph.Sparse6Encode(g)
				g6 := graph.Graph6Encode(g)
				d1, e1 := graph.Graph6Decode(g6)
				d2, e2 := graph.Sparse6Decode(s6)
				mc := graph.MulticodeEncode(g)
				d3 := graph.MulticodeDecode(mc)
				many := graph.MulticodeDecodeMultiple(append(append([]byte{}, mc...), mc...))
				fmt.Fprint(&sb, s6, g6, e1, e2, graph.Equal(d1, g), graph.Equal(d2, g), graph.Equal(d3, g), len(many), graph.AdjacencyMatrixEncode(g))
				t := graph.RandomTree(tn, seed)
				p := graph.PruferEncode(t)
				fmt.Fprint(&sb, p, graph.Equal(graph.PruferDecode(p), t))
				return sb.String()
			})
		}
	case "comb": // the package-level tables of comb are only read; n across 32 / 62 / 66 where the code changes method
		commonBase := r.Range(0, 62)
		shareBase := r.Chance(1, 2) // all goroutines ask for the same rows at the same time
		for k := 0; k < G; k++ {
			base := r.Range(0, 62)
			if shareBase {
				base = commonBase
			}
			jobs = append(jobs, func() string {
				var sb strings.Builder
				for n := base + 7; n >= base; n-- {
					for kk := 0; kk <= n; kk++ {
						if n <= 66 {
							fmt.Fprintf(&sb, "%d,", comb.Coeff(n, kk))
						}
						if kk <= 6 || n <= 62 {
							fmt.Fprintf(&sb, "%d,", comb.CoeffUint64(uint64(n), uint64(kk)))
						}
					}
				}
				for rk := base * 1000; rk < base*1000+40; rk++ {
					c := comb.Unrank(rk, 3+base%4)
					fmt.Fprintf(&sb, "%v%d;", c, comb.Rank(c))
				}
				fmt.Fprint(&sb, comb.Coeffs(base%20), comb.Coeffs(33+base%30))
				return sb.String()
			})
		}
	case "cliques": // AllMaximalCliques, each call with its own channel, on own and on shared graphs
		// graphs: random, or K_a joined to t disjoint non-edges (2^t maximal cliques of a+t vertices, sizes across 16 / 32)
		mk := func() *graph.DenseGraph {
			if r.Chance(1, 2) {
				return randomGraph(r, r.Range(2, 11), r.Range(1, 4), 5)
			}
			size := []int{5, 8, 15, 16, 17, 31, 32, 33}[r.Intn(8)]
			t := r.Range(2, 5)
			if t > size-1 {
				t = size - 1
			}
			a := size - t
			g := graph.NewDense(a+2*t, nil)
			for i := 0; i < a+2*t; i++ {
				for j := 0; j < i; j++ {
					if !(j >= a && i == j+1 && (j-a)%2 == 0) { // all edges but the t pairs (a+2q, a+2q+1)
						g.AddEdge(i, j)
					}
				}
			}
			return g
		}
		shared := mk()
		render := func(cls [][]int) string {
			all := make([]string, len(cls))
			for i, cl := range cls {
				cp := append([]int(nil), cl...)
				sort.Ints(cp)
				all[i] = fmt.Sprint(cp)
			}
			sort.Strings(all)
			return strings.Join(all, "")
		}
		number := func(g graph.Graph) string {
			if g.N() <= 12 {
				return strconv.Itoa(graph.CliqueNumber(g))
			}
			return ""
		}
		for k := 0; k < G; k++ {
			g := shared
			if k%2 == 0 {
				g = mk()
			}
			capacity := []int{0, 1, 64}[r.Intn(3)]
			consumer := r.Intn(3)
			// reference: unbuffered channel, every clique copied the moment it is received
			ref = append(ref, func() string {
				c := make(chan []int)
				go graph.AllMaximalCliques(g, c)
				var kept [][]int
				for cl := range c {
					kept = append(kept, append([]int(nil), cl...))
				}
				return render(kept) + number(g)
			})
			jobs = append(jobs, func() string {
				c := make(chan []int, capacity)
				go graph.AllMaximalCliques(g, c)
				var kept [][]int
				switch consumer {
				case 0: // copies at once
					for cl := range c {
						kept = append(kept, append([]int(nil), cl...))
					}
				case 1: // keeps the slices it was sent and reads them after the channel is closed
					for cl := range c {
						kept = append(kept, cl)
					}
				case 2: // hands every slice on to a second goroutine that reads it while the producer goes on
					pass := make(chan []int, 64)
					done := make(chan [][]int)
					go func() {
						var got, held [][]int
						for cl := range pass {
							held = append(held, cl)
							if len(held) > 2 { // reads a clique two receipts late
								got = append(got, append([]int(nil), held[len(held)-3]...))
							}
						}
						for i := len(held) - 2; i < len(held); i++ {
							if i >= 0 {
								got = append(got, append([]int(nil), held[i]...))
							}
						}
						done <- got
					}()
					for cl := range c {
						pass <- cl
					}
					close(pass)
					kept = <-done
				}
				return render(kept) + number(g)
			})
		}
	case "sortints-shared": // non-mutating set functions on shared arguments, equal and very unequal sizes in both orders
		la := []int{0, 1, 2, 8, 20, 64, 300}[r.Intn(7)]
		lb := []int{0, 1, 3, 16, 20, 128, 512}[r.Intn(7)]
		universe := 2*(la+lb) + 30
		a := sortints.NewSortedInts(r.Perm(universe)[:la]...)
		b := sortints.NewSortedInts(r.Perm(universe)[:lb]...)
		if r.Bool() {
			a, b = b, a
		}
		for k := 0; k < G; k++ {
			jobs = append(jobs, func() string {
				return fmt.Sprint(sortints.Union(a, b), sortints.Intersection(a, b), sortints.SetMinus(a, b), sortints.XOR(a, b),
					sortints.IntersectionSize(a, b), sortints.Complement(universe+1, a), sortints.ContainsSorted(a, b), sortints.ContainsSorted(a, a),
					sortints.ContainsSingle(a, 7), sortints.ContainsSingle(b, universe), a, b)
			})
		}
	case "sortints-own": // mutating methods on own sets (the argument sets are shared and only read)
		shared := sortints.NewSortedInts(r.Perm(40)[:r.Range(0, 20)]...)
		for k := 0; k < G; k++ {
			init := r.Perm(40)[:r.Range(0, 20)]
			adds := randInts(r, r.Range(1, 8), 50)
			rem := r.Intn(40)
			jobs = append(jobs, func() string {
				s := sortints.NewSortedInts(init...)
				s.Add(adds...)
				s.Remove(rem)
				s.Union(shared)
				t := sortints.Range(rem, rem+20, 3)
				t.Union(s)
				return fmt.Sprint(s, t, adds, init)
			})
		}
	case "ints": // in-place functions on own slices, reading functions on shared ones
		sharedA := randInts(r, r.Range(1, 30), 20)
		sharedB := append(append([]int{}, sharedA[:len(sharedA)/2]...), 99)
		for k := 0; k < G; k++ {
			own := randInts(r, []int{1, 2, 11, 12, 13, 50, 200, 1000, 5000}[r.Intn(9)], []int{3, 1000, 1 << 40}[r.Intn(3)])
			for i := range own {
				if r.Chance(1, 4) {
					own[i] = -own[i]
				}
			}
			if r.Chance(1, 4) {
				sort.Ints(own) // already sorted / reversed inputs take other paths of the sort
				if r.Bool() {
					ints.Reverse(own)
				}
			}
			jobs = append(jobs, func() string {
				a := append([]int{}, own...)
				ints.Sort(a)
				b := append([]int{}, own...)
				ints.Reverse(b)
				c := append([]int{}, own...)
				ints.Add(c, a)
				return fmt.Sprint(a, b, c, ints.Max(sharedA), ints.Min(sharedA), ints.Sum(sharedA), ints.Compare(sharedA, sharedB), ints.Equal(sharedA, sharedB),
					ints.HasPrefix(sharedA, sharedB[:len(sharedB)-1]))
			})
		}
	case "disjoint": // own disjoint-set forests
		for k := 0; k < G; k++ {
			n := r.Range(1, 30)
			us := randInts(r, r.Range(0, 40), n*n)
			jobs = append(jobs, func() string {
				s := disjoint.New(n)
				t := disjoint.New(n)
				buf := make([]int, 0, n)
				var sb strings.Builder
				for _, u := range us {
					x, y := u%n, u/n
					s.Union(x, y)
					t.UnionBuffered(x, y, buf)
					fmt.Fprint(&sb, s.Find(x) == s.Find(y), t.FindBuffered(x, buf) == t.FindBuffered(y, buf))
				}
				fmt.Fprint(&sb, s.Sets(), s.SmallestRep(), s.String(), len(s.Roots()), t.Sets())
				return sb.String()
			})
		}
	case "tsp": // LIB into own buffers with a shared, pure weight function
		salt := r.Intn(1000)
		weights := func(i, j int) int { return (i*31+j*17+salt)%97 + 1 }
		for k := 0; k < G; k++ {
			n := r.Range(0, 9)
			jobs = append(jobs, func() string {
				var buf bytes.Buffer
				err := tsp.LIB(&buf, n, weights)
				return fmt.Sprint(buf.String(), err)
			})
		}
	case "value-shared": // one paused iterator, its read-only Value observed from several goroutines
		kind := r.Intn(6)
		adv := r.Range(1, 9)
		var value func() string
		switch kind {
		case 0:
			it := itertools.Combinations(8, 3)
			for c := 0; c < adv && it.Next(); c++ {
			}
			value = func() string { return fmt.Sprint(it.Value()) }
		case 1:
			it := itertools.Permutations(5)
			for c := 0; c < adv && it.Next(); c++ {
			}
			value = func() string { return fmt.Sprint(it.Value()) }
		case 2:
			it := itertools.Product(3, 4, 2)
			for c := 0; c < adv && it.Next(); c++ {
			}
			value = func() string { return fmt.Sprint(it.Value()) }
		case 3:
			it := itertools.Partitions(6)
			for c := 0; c < adv && it.Next(); c++ {
			}
			value = func() string { return fmt.Sprint(it.Value()) }
		case 4:
			it := itertools.IntegerPartitions(12)
			for c := 0; c < adv && it.Next(); c++ {
			}
			value = func() string { return fmt.Sprint(it.Value()) }
		case 5:
			it := search.All(5, 0, 1)
			for c := 0; c < adv && it.Next(); c++ {
			}
			value = func() string { return observe(it.Value()) + graph.Graph6Encode(it.Value()) }
		}
		for k := 0; k < G; k++ {
			jobs = append(jobs, func() string {
				s := value()
				for q := 0; q < 20; q++ {
					if t := value(); t != s {
						return s + " then " + t
					}
				}
				return s
			})
		}
	default:
		panic("unknown scenario " + name)
	}
	return
}

var scenarios = []string{"shards", "shards-pruned", "search-saveload", "canon", "canon-shared-graph", "canon-allocated", "iters", "builders", "dawg-shared",
	"graph-shared", "graph-algos-shared", "editing-own", "generators", "encodings", "comb", "cliques", "sortints-shared", "sortints-own", "ints", "disjoint", "tsp", "value-shared"}

func exec1(line string) hx.Result {
	f := strings.Split(line, ";")
	if len(f) == 5 && f[4] == "cold" {
		return coldCase(strings.Join(f[:4], ";"), f[0], f[2])
	}
	if len(f) != 4 {
		return hx.Result{Obs: "bad-case"}
	}
	seed, _ := strconv.ParseUint(f[1], 10, 64)
	G, _ := strconv.Atoi(f[2])
	rounds, _ := strconv.Atoi(f[3])
	r := hx.NewRng(seed)
	sawOverlap = false
	res := hx.Result{Obs: "ok", Buckets: []string{"scenario:" + strings.SplitN(f[0], ":", 2)[0], "goroutines=" + f[2]}}
	// the scenario is built afresh three times (new shared values, new data from the same
	// generator state): a write that happens once per value -- a lazily finished decode, a
	// cache filled by the first query -- gets three chances to be seen by the race detector,
	// whose shadow memory remembers only the last few accesses of a word
	for fresh := 0; fresh < 3; fresh++ {
		jobs, ref, extra, post := scenarioFull(f[0], r, G)
		want, diff, overlapped, seqHang := runBoth(jobs, ref, rounds)
		res.Nontrivial = res.Nontrivial || (overlapped && len(jobs) >= 2)
		if seqHang {
			res.Nontrivial = false
			res.Buckets = append(res.Buckets, "outcome:not-finished-even-alone")
			return res
		}
		for _, w := range want {
			if i := strings.Index(w, "OWNERSHIP:"); i >= 0 && diff == "" {
				diff = fmt.Sprintf("a result returned by the library is not the caller's own: %.400s", w[i:])
			}
		}
		if diff == "" && extra != nil {
			diff = extra(want)
		}
		if diff == "" && post != nil {
			diff = post()
		}
		if diff != "" {
			res.Obs = "diff"
			res.Viol = append(res.Viol, hx.Fail("C19:"+f[0], "%s: %s", f[0], diff))
			return res
		}
	}
	return res
}

// coldProcess: this process was started to run exactly one case (see coldCase)
var coldProcess = os.Getenv("C19_COLD") != ""

// coldCase runs one case as the FIRST thing a fresh process does, so that every lazily
// initialised package-level table, cache or pool of the library is met by several goroutines at
// once while it is still empty (the long-lived workers are warm after their first cases).
func coldCase(line, scen, G string) hx.Result {
	cmd := exec.Command(os.Args[0], "-worker")
	cmd.Stdin = strings.NewReader(line + "\n")
	cmd.Env = append(os.Environ(), "C19_COLD=1")
	var stdout, stderr bytes.Buffer
	cmd.Stdout, cmd.Stderr = &stdout, &stderr
	done := make(chan error, 1)
	if err := cmd.Start(); err != nil {
		return hx.Result{Obs: "ok", Buckets: []string{"outcome:cold-process-not-started"}}
	}
	go func() { done <- cmd.Wait() }()
	var err error
	select {
	case err = <-done:
	case <-time.After(6 * phaseLimit):
		cmd.Process.Kill()
		<-done
		return hx.Result{Obs: "diff", Viol: []hx.OracleViolation{hx.Fail("C19:"+scen, "%s: a fresh process running this case did not finish", scen)}}
	}
	msg := stderr.String()
	if len(msg) > 1500 {
		msg = msg[:1500]
	}
	if strings.Contains(msg, "DATA RACE") {
		return hx.Result{Obs: "race", Buckets: []string{"scenario:" + strings.SplitN(scen, ":", 2)[0], "goroutines=" + G, "cold"},
			Viol: []hx.OracleViolation{hx.Fail("race", "data race reported by the race detector on first use in a fresh process: %s", msg)}}
	}
	var res hx.Result
	if err != nil || json.Unmarshal(bytes.TrimSpace(stdout.Bytes()), &res) != nil {
		return hx.Result{Obs: "crash", Viol: []hx.OracleViolation{hx.Fail("C19:"+scen, "%s: a fresh process running this case died: %v %s", scen, err, msg)}}
	}
	res.Buckets = append(res.Buckets, "cold")
	return res
}

// selfTest runs the fail-closed self-test of the effects translator (tools/gotrans) and
// returns a one-line summary for the evidence notes.  It is not an observation of the
// repository: a failure means the check itself lost strength, and is reported as a note.
func selfTest() string {
	exe, err := os.Executable()
	if err != nil {
		return "translator self-test: not run (" + err.Error() + ")"
	}
	dir := filepath.Dir(exe)
	for i := 0; i < 6; i++ {
		if _, err := os.Stat(filepath.Join(dir, "tools", "gotrans", "effects_test.go")); err == nil {
			break
		}
		dir = filepath.Dir(dir)
	}
	td := filepath.Join(dir, "tools", "gotrans")
	if _, err := os.Stat(filepath.Join(td, "effects_test.go")); err != nil {
		return "translator self-test: not run (tools/gotrans not found from " + exe + ")"
	}
	cmd := exec.Command("go", "test", "-count=1", "-run", "TestEffectsFailClosed", "-v", ".")
	cmd.Dir = td
	cmd.Env = append(os.Environ(), "GOFLAGS=-mod=mod", "GOPROXY=off", "GOSUMDB=off", "GOTOOLCHAIN=local")
	done := make(chan struct{})
	var out []byte
	go func() { out, err = cmd.CombinedOutput(); close(done) }()
	select {
	case <-done:
	case <-time.After(15 * time.Minute):
		cmd.Process.Kill()
		return "translator self-test: timed out"
	}
	s := string(out)
	pass, fail, skip := strings.Count(s, "--- PASS: TestEffectsFailClosed/"), strings.Count(s, "--- FAIL: TestEffectsFailClosed/"), strings.Count(s, "--- SKIP: TestEffectsFailClosed/")
	if err != nil || fail > 0 {
		tail := s
		if len(tail) > 600 {
			tail = tail[len(tail)-600:]
		}
		return fmt.Sprintf("translator self-test FAILED (%d mutations broke the build as expected, %d did not, %d skipped): %s", pass, fail, skip, tail)
	}
	return fmt.Sprintf("translator self-test: %d seeded source mutations each changed the regenerated table and broke the Coq build at the expected lemma (%d skipped: anchor not found)", pass, skip)
}

func gen(g *hx.Gen) {
	per := g.Pick(4, 40)
	for _, s := range scenarios {
		for i := 0; i < per; i++ {
			G := []int{2, 3, 4, 5, 8, 16}[g.Rng.Intn(6)]
			if strings.HasPrefix(s, "shards") {
				G = []int{2, 3, 4, 5, 7}[g.Rng.Intn(5)]
			}
			g.Emit(fmt.Sprintf("%s;%d;%d;%d", s, g.Rng.U64()%1000000, G, g.Pick(2, 4)))
		}
	}
	// every function family once as the first thing a fresh process does (cold tables and caches)
	for _, s := range scenarios {
		for i := 0; i < g.Pick(3, 8); i++ {
			G := []int{8, 16}[g.Rng.Intn(2)]
			if strings.HasPrefix(s, "shards") {
				G = []int{4, 5, 7}[g.Rng.Intn(3)]
			}
			g.Emit(fmt.Sprintf("%s;%d;%d;%d;cold", s, g.Rng.U64()%1000000, G, 2))
		}
	}
	// every provenance x query kind of a shared Dawg, every presentation of a shared graph
	for v := 0; v < 18; v++ {
		for i := 0; i < g.Pick(1, 6); i++ {
			g.Emit(fmt.Sprintf("dawg-shared:%d;%d;%d;%d", v, g.Rng.U64()%1000000, []int{2, 3, 4, 8}[g.Rng.Intn(4)], g.Pick(2, 4)))
		}
	}
	for v := 0; v < 16; v++ {
		for i := 0; i < g.Pick(1, 6); i++ {
			g.Emit(fmt.Sprintf("graph-shared:%d;%d;%d;%d", v, g.Rng.U64()%1000000, []int{2, 3, 4, 8}[g.Rng.Intn(4)], g.Pick(2, 4)))
		}
	}
	// results returned by the library are the caller's own
	for kind := 0; kind < ownKinds; kind++ {
		for i := 0; i < g.Pick(2, 12); i++ {
			g.Emit(fmt.Sprintf("own-results:%d;%d;%d;%d", kind, g.Rng.U64()%1000000, []int{2, 3, 4, 8}[g.Rng.Intn(4)], g.Pick(2, 4)))
		}
		g.Emit(fmt.Sprintf("own-results:%d;%d;%d;%d;cold", kind, g.Rng.U64()%1000000, 8, 2))
	}
	for kind := 0; kind < nestedKinds; kind++ {
		for i := 0; i < g.Pick(1, 10); i++ {
			g.Emit(fmt.Sprintf("nested-callbacks:%d;%d;%d;%d", kind, g.Rng.U64()%1000000, []int{2, 3, 4, 8}[g.Rng.Intn(4)], g.Pick(2, 4)))
		}
		g.Emit(fmt.Sprintf("nested-callbacks:%d;%d;%d;%d;cold", kind, g.Rng.U64()%1000000, 4, 2))
	}
	// values built from the same caller slices: every kind of constructor in every run
	for _, s := range []string{"shared-input", "shared-input-handoff"} {
		for kind := 0; kind < sharedKinds; kind++ {
			for i := 0; i < g.Pick(1, 10); i++ {
				G := []int{2, 3, 4, 8}[g.Rng.Intn(4)]
				g.Emit(fmt.Sprintf("%s:%d;%d;%d;%d", s, kind, g.Rng.U64()%1000000, G, g.Pick(2, 4)))
			}
			if s == "shared-input" {
				g.Emit(fmt.Sprintf("%s:%d;%d;%d;%d;cold", s, kind, g.Rng.U64()%1000000, 4, 2))
			}
		}
	}
	if g.Thorough() && os.Getenv("VERIF_REPO") == "" && os.Getenv("C19_NO_SELFTEST") == "" {
		g.Note(selfTest())
	}
}

func main() {
	hx.Main(hx.Prop{
		Rule:        "case = scenario, seed, number of goroutines, rounds; every goroutine's result is compared with the same work done alone, under the race detector; non-trivial = at least two goroutines were inside their work at the same time (per-goroutine time stamps; no shared counter, which would order the goroutines for the race detector); distinct by case text",
		Gen:         gen,
		Exec:        exec1,
		CaseTimeout: 400 * time.Second,
		Workers:     3,
		MemMB:       0,
		WorkerEnv:   []string{"GORACE=halt_on_error=1 exitcode=66 atexit_sleep_ms=0", "GOMAXPROCS=8"},
	})
}
