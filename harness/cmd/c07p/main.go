// Command c07p is the Multicode / Pruefer correspondence stream of C07: it runs
// MulticodeEncode, MulticodeDecode, MulticodeDecodeMultiple, PruferEncode and PruferDecode of
// /repo/graph/encoding.go on valid inputs and prints what the property determines.
//
// Case lines (shared with ocaml/c07p/driver.ml):
//
//	P;c c c ...                a Pruefer code (n = length + 2)
//	T <rep> <n>;v-u v-u ...    a labelled tree, rep = d (DenseGraph) or s (SparseGraph)
//	M <rep>;n:v-u,v-u n: ...   a sequence of graphs; each is encoded and decoded alone, the
//	                           concatenation of the records goes through MulticodeDecodeMultiple;
//	                           all results are held at the same time and read at the end
//	PP;c,c,c - c,c ...         a sequence of Pruefer codes ("-" is the empty code), results held
//	TT <rep>;n:v-u,v-u ...     a sequence of labelled trees, results held
//	GS <rep>;n:v-u,v-u ...     a sequence of graphs through graph6 / sparse6 with all decoded graphs
//	                           held (oracle only; observation "gs=<count>")
package main

import (
	"fmt"
	"sort"
	"strconv"
	"strings"
	"time"

	"github.com/Tom-Johnston/mamba/graph"
	"github.com/Tom-Johnston/mamba/sortints"
	"verifharness/hx"
)

// edge is {v,u} with u < v.
type edge struct{ v, u int }

type rec struct {
	n  int
	es []edge
}

func sortEdges(es []edge) {
	sort.Slice(es, func(i, j int) bool {
		if es[i].v != es[j].v {
			return es[i].v < es[j].v
		}
		return es[i].u < es[j].u
	})
}

// clean drops loops, out-of-range ends and repeats (a shrunk case stays a valid graph).
func clean(n int, es []edge) []edge {
	seen := map[edge]bool{}
	var out []edge
	for _, e := range es {
		if e.u != e.v && e.u >= 0 && e.v < n && !seen[e] {
			seen[e] = true
			out = append(out, e)
		}
	}
	sortEdges(out)
	return out
}

func parseEdge(t string) (edge, bool) {
	p := strings.SplitN(t, "-", 2)
	if len(p) != 2 {
		return edge{}, false
	}
	a, e1 := strconv.Atoi(p[0])
	b, e2 := strconv.Atoi(p[1])
	if e1 != nil || e2 != nil {
		return edge{}, false
	}
	if a < b {
		a, b = b, a
	}
	return edge{a, b}, true
}

func parseEdges(toks []string) []edge {
	var es []edge
	for _, t := range toks {
		if e, ok := parseEdge(t); ok {
			es = append(es, e)
		}
	}
	return es
}

func edgeText(es []edge, sep string) string {
	s := make([]string, len(es))
	for i, e := range es {
		s[i] = fmt.Sprintf("%d-%d", e.v, e.u)
	}
	return strings.Join(s, sep)
}

// build makes the graph value: 'd' DenseGraph, 's' SparseGraph.
func build(rep byte, n int, es []edge) graph.Graph {
	if rep == 's' {
		nb := make([]sortints.SortedInts, n)
		for i := range nb {
			nb[i] = []int{}
		}
		for _, e := range es {
			nb[e.v] = append(nb[e.v], e.u)
			nb[e.u] = append(nb[e.u], e.v)
		}
		for i := range nb {
			sort.Ints(nb[i])
		}
		return graph.NewSparse(n, nb)
	}
	bits := make([]byte, n*(n-1)/2)
	for _, e := range es {
		bits[e.v*(e.v-1)/2+e.u] = 1
	}
	return graph.NewDense(n, bits)
}

// descr is the canonical text of a graph value: N():M():Degrees():edges (from IsEdge).
func descr(g graph.Graph) string {
	n := g.N()
	var es []edge
	for v := 0; v < n; v++ {
		for u := 0; u < v; u++ {
			if g.IsEdge(u, v) {
				es = append(es, edge{v, u})
			}
		}
	}
	return fmt.Sprintf("%d:%d:%s:%s", n, g.M(), hx.Ints(g.Degrees()), edgeText(es, ","))
}

// descrOf is the text a graph with n vertices and exactly the (clean) edge set es must have.
func descrOf(n int, es []edge) string {
	deg := make([]int, n)
	for _, e := range es {
		deg[e.u]++
		deg[e.v]++
	}
	return fmt.Sprintf("%d:%d:%s:%s", n, len(es), hx.Ints(deg), edgeText(es, ","))
}

func call(f func()) (ok bool) {
	defer func() {
		if e := recover(); e != nil {
			ok = false
		}
	}()
	f()
	return true
}

func hex(b []byte) string {
	const d = "0123456789abcdef"
	out := make([]byte, 2*len(b))
	for i, c := range b {
		out[2*i], out[2*i+1] = d[c>>4], d[c&15]
	}
	return string(out)
}

// canon sorts every neighbour list of a record (the format does not fix the order in a list).
func canon(b []byte) []byte {
	if len(b) == 0 {
		return nil
	}
	out := []byte{b[0]}
	var cur []byte
	for _, c := range b[1:] {
		if c == 0 {
			sort.Slice(cur, func(i, j int) bool { return cur[i] < cur[j] })
			out = append(out, cur...)
			out = append(out, 0)
			cur = cur[:0]
		} else {
			cur = append(cur, c)
		}
	}
	return append(out, cur...)
}

// formatOK checks a record against the format: byte n, then for the vertices 1..n-1 the
// neighbours with a larger number (1-based), each list closed by 0; nothing else.
func formatOK(b []byte, n int, es []edge) string {
	if n == 0 {
		if len(b) != 1 || b[0] != 0 {
			return "the record of the empty graph is not the single byte 0"
		}
		return ""
	}
	if len(b) != n+len(es) {
		return fmt.Sprintf("length %d, the format gives n + m = %d", len(b), n+len(es))
	}
	if int(b[0]) != n {
		return fmt.Sprintf("first byte %d, n = %d", b[0], n)
	}
	adj := map[edge]bool{}
	for _, e := range es {
		adj[e] = true
	}
	v, cnt := 1, 0
	seen := map[edge]bool{}
	for _, c := range b[1:] {
		if c == 0 {
			v++
			continue
		}
		if v > n-1 {
			return "entries after the last list"
		}
		if int(c) <= v || int(c) > n {
			return fmt.Sprintf("entry %d in the list of vertex %d (n = %d)", c, v, n)
		}
		e := edge{int(c) - 1, v - 1}
		if !adj[e] || seen[e] {
			return fmt.Sprintf("entry %d in the list of vertex %d is not an edge / repeated", c, v)
		}
		seen[e] = true
		cnt++
	}
	if v != n {
		return fmt.Sprintf("%d lists, the format gives n - 1 = %d", v-1, n-1)
	}
	if cnt != len(es) {
		return "an edge is missing"
	}
	return ""
}

func parseRecs(toks []string) []rec {
	var rs []rec
	for _, t := range toks {
		p := strings.SplitN(t, ":", 2)
		if len(p) != 2 {
			continue
		}
		n, err := strconv.Atoi(p[0])
		if err != nil || n < 0 || n > 255 {
			continue
		}
		var es []edge
		if p[1] != "" {
			es = parseEdges(strings.Split(p[1], ","))
		}
		rs = append(rs, rec{n, clean(n, es)})
	}
	return rs
}

func recText(r rec) string { return fmt.Sprintf("%d:%s", r.n, edgeText(r.es, ",")) }

// execMulti holds the results of all calls at the same time: every MulticodeEncode result is
// kept (not copied) while the later records are encoded, encoded a second time in reverse order,
// and only then compared with its snapshot, decoded and concatenated; every decoded graph is
// re-observed after its input slice has been overwritten and after all later decodes.  The
// observation line is built from these late observations, so the stateless model gives the
// expected values.
func execMulti(rep byte, rs []rec) hx.Result {
	var res hx.Result
	fail := func(key, f string, a ...interface{}) { res.Viol = append(res.Viol, hx.Fail(key, f, a...)) }
	k := len(rs)
	held := make([][]byte, k)  // the slices MulticodeEncode returned, never copied
	snaps := make([][]byte, k) // their contents right after the call
	want := make([]string, k)
	graphs := make([]graph.Graph, k)
	for i, r := range rs {
		g := build(rep, r.n, r.es)
		graphs[i] = g
		var b []byte
		if !call(func() { b = graph.MulticodeEncode(g) }) {
			res.Obs = "mc=panic;md=na;mm=na"
			return res
		}
		held[i] = b
		snaps[i] = append([]byte(nil), b...)
		if msg := formatOK(snaps[i], r.n, r.es); msg != "" {
			fail("C07:format:multicode", "MulticodeEncode(%s) = %s: %s", recText(r), hex(snaps[i]), msg)
		}
		want[i] = descrOf(r.n, r.es)
		if after := descr(g); after != want[i] {
			fail("C07:argument-modified", "MulticodeEncode changed its argument: %s, was %s", after, want[i])
		}
		if len(r.es) > 0 {
			res.Nontrivial = true
		}
		switch {
		case r.n <= 1:
			res.Buckets = append(res.Buckets, fmt.Sprintf("multicode/n=%d", r.n))
		case r.n == 255:
			res.Buckets = append(res.Buckets, "multicode/n=255")
		case len(r.es) == 0:
			res.Buckets = append(res.Buckets, "multicode/edgeless")
		default:
			last := false
			for _, e := range r.es {
				if e.v == r.n-1 {
					last = true
				}
			}
			if last {
				res.Buckets = append(res.Buckets, "multicode/uses last vertex")
			} else {
				res.Buckets = append(res.Buckets, "multicode/last vertex isolated")
			}
		}
	}
	// a second round of calls in reverse order (sizes run the other way), results held as well
	again := make([][]byte, k)
	for i := k - 1; i >= 0; i-- {
		var b []byte
		if !call(func() { b = graph.MulticodeEncode(graphs[i]) }) {
			fail("C07:state:multicode-encode", "the second MulticodeEncode(%s) panics", recText(rs[i]))
			continue
		}
		again[i] = b
	}
	for i := range rs {
		if string(held[i]) != string(snaps[i]) {
			fail("C07:aliasing:multicode-encode", "the result of MulticodeEncode(%s) was %s and reads %s after later calls", recText(rs[i]), hex(snaps[i]), hex(held[i]))
		}
		if again[i] != nil && string(again[i]) != string(snaps[i]) {
			fail("C07:state:multicode-encode", "a second MulticodeEncode(%s) gives %s (read after later calls), the first gave %s", recText(rs[i]), hex(again[i]), hex(snaps[i]))
		}
	}
	// decode every held result; keep the graphs, overwrite the input slices
	dgs := make([]*graph.DenseGraph, k)
	first := make([]string, k)
	for i := range rs {
		in := append([]byte(nil), held[i]...)
		var dg *graph.DenseGraph
		if !call(func() { dg = graph.MulticodeDecode(in) }) {
			first[i] = "panic"
			continue
		}
		dgs[i] = dg
		first[i] = descr(dg)
		for x := range in {
			in[x] = 0xff
		}
		if d := descr(dg); d != first[i] {
			fail("C07:aliasing:multicode-decode-input", "MulticodeDecode result reads %s after its input was overwritten, was %s", d, first[i])
		}
	}
	md := make([]string, k)
	cs := make([]string, k)
	raws := make([]string, k)
	var all []byte
	for i := range rs {
		md[i] = first[i]
		if dgs[i] != nil {
			md[i] = descr(dgs[i])
			if md[i] != first[i] {
				fail("C07:aliasing:multicode-decode", "MulticodeDecode result reads %s after later calls, was %s", md[i], first[i])
			}
		}
		if md[i] != want[i] {
			fail("C07:roundtrip:multicode", "MulticodeDecode(MulticodeEncode(g)) = %s, g = %s", md[i], want[i])
		}
		cs[i] = hex(canon(held[i]))
		raws[i] = hex(held[i])
		all = append(all, held[i]...)
	}
	// MulticodeDecodeMultiple twice on private copies; the first result is held across the
	// second call and the overwriting of both inputs
	var gs, gs2 []*graph.DenseGraph
	mm := "panic"
	in1 := append([]byte(nil), all...)
	if call(func() { gs = graph.MulticodeDecodeMultiple(in1) }) {
		ds := make([]string, len(gs))
		for i, g := range gs {
			ds[i] = descr(g)
		}
		mm0 := "ok:" + strings.Join(ds, "|")
		for x := range in1 {
			in1[x] = 0xff
		}
		in2 := append([]byte(nil), all...)
		ok2 := call(func() { gs2 = graph.MulticodeDecodeMultiple(in2) })
		for x := range in2 {
			in2[x] = 0
		}
		for i, g := range gs {
			ds[i] = descr(g)
		}
		mm = "ok:" + strings.Join(ds, "|")
		if mm != mm0 {
			fail("C07:aliasing:multicode-multiple", "MulticodeDecodeMultiple result reads %s after its input was overwritten and a second call, was %s", mm, mm0)
		}
		if ok2 {
			ds2 := make([]string, len(gs2))
			for i, g := range gs2 {
				ds2[i] = descr(g)
			}
			if m2 := "ok:" + strings.Join(ds2, "|"); m2 != mm0 {
				fail("C07:state:multicode-multiple", "a second MulticodeDecodeMultiple gives %s, the first gave %s", m2, mm0)
			}
		} else {
			fail("C07:state:multicode-multiple", "a second MulticodeDecodeMultiple panics")
		}
	}
	if w := "ok:" + strings.Join(want, "|"); mm != w {
		fail("C07:roundtrip:multicode-multiple", "MulticodeDecodeMultiple of the concatenated records = %s, the graphs are %s", mm, w)
	}
	res.Obs = fmt.Sprintf("mc=%s;md=%s;mm=%s ## raw=%s", strings.Join(cs, "."), strings.Join(md, "|"), mm, strings.Join(raws, "."))
	res.Buckets = append(res.Buckets, fmt.Sprintf("multicode-multiple/%d records", len(rs)), fmt.Sprintf("rep=%c", rep))
	return res
}

func isTree(g graph.Graph) bool {
	n := g.N()
	if n == 0 || g.M() != n-1 {
		return false
	}
	seen := make([]bool, n)
	stack := []int{0}
	seen[0] = true
	cnt := 1
	for len(stack) > 0 {
		v := stack[len(stack)-1]
		stack = stack[:len(stack)-1]
		for u := 0; u < n; u++ {
			if !seen[u] && g.IsEdge(u, v) {
				seen[u] = true
				cnt++
				stack = append(stack, u)
			}
		}
	}
	return cnt == n
}

func nBucket(n int) string {
	switch {
	case n <= 3:
		return fmt.Sprintf("n=%d", n)
	case n <= 8:
		return "n=4..8"
	case n <= 20:
		return "n=9..20"
	}
	return "n=21..60"
}

func execCode(code []int) hx.Result {
	var res hx.Result
	res.Nontrivial = len(code) > 0
	n := len(code) + 2
	for _, c := range code {
		if c < 0 || c >= n {
			return hx.Result{Obs: "badcase"}
		}
	}
	var g *graph.DenseGraph
	if !call(func() { g = graph.PruferDecode(append([]int(nil), code...)) }) {
		res.Obs = "pd=panic;pe=na"
		res.Viol = append(res.Viol, hx.Fail("C07:prufer:decode-panic", "PruferDecode(%v) panics", code))
		return res
	}
	var back []int
	pe := "panic"
	if call(func() { back = graph.PruferEncode(g) }) {
		pe = hx.Ints(back)
	}
	res.Obs = fmt.Sprintf("pd=ok:%s;pe=%s", descr(g), pe)
	if pe != hx.Ints(code) {
		res.Viol = append(res.Viol, hx.Fail("C07:prufer:encode-decode", "PruferEncode(PruferDecode(%v)) = %s", code, pe))
	}
	if !isTree(g) || g.N() != n {
		res.Viol = append(res.Viol, hx.Fail("C07:prufer:not-a-tree", "PruferDecode(%v) = %s is not a tree on %d vertices", code, descr(g), n))
	}
	// the degree of v in the tree of a code is 1 + the number of times v occurs in it
	deg := make([]int, n)
	for i := range deg {
		deg[i] = 1
	}
	for _, c := range code {
		deg[c]++
	}
	if hx.Ints(deg) != hx.Ints(g.Degrees()) {
		res.Viol = append(res.Viol, hx.Fail("C07:prufer:degrees", "PruferDecode(%v) has degrees %s, the code gives %s", code, hx.Ints(g.Degrees()), hx.Ints(deg)))
	}
	res.Buckets = []string{"prufer/code", "prufer/code/" + nBucket(n)}
	return res
}

func execTree(rep byte, n int, es []edge) hx.Result {
	var res hx.Result
	es = clean(n, es)
	res.Nontrivial = len(es) > 1
	g := build(rep, n, es)
	if !isTree(g) || n < 2 {
		return hx.Result{Obs: "badcase"} // outside the domain of the property (a shrunk case)
	}
	want := "ok:" + descrOf(n, es)
	var code []int
	if !call(func() { code = graph.PruferEncode(g) }) {
		res.Obs = "pe=panic;pd=na"
		res.Viol = append(res.Viol, hx.Fail("C07:prufer:encode-panic", "PruferEncode(%s) panics", want))
		return res
	}
	var t *graph.DenseGraph
	pd := "panic"
	if call(func() { t = graph.PruferDecode(append([]int(nil), code...)) }) {
		pd = "ok:" + descr(t)
	}
	res.Obs = fmt.Sprintf("pe=%s;pd=%s", hx.Ints(code), pd)
	if pd != want {
		res.Viol = append(res.Viol, hx.Fail("C07:prufer:decode-encode", "PruferDecode(PruferEncode(t)) = %s, t = %s", pd, want))
	}
	if len(code) != n-2 {
		res.Viol = append(res.Viol, hx.Fail("C07:prufer:code-length", "PruferEncode(t) = %v has length %d, n = %d", code, len(code), n))
	}
	for _, c := range code {
		if c < 0 || c >= n {
			res.Viol = append(res.Viol, hx.Fail("C07:prufer:code-range", "PruferEncode(t) = %v, n = %d", code, n))
			break
		}
	}
	if after := "ok:" + descr(g); after != want {
		res.Viol = append(res.Viol, hx.Fail("C07:argument-modified", "PruferEncode changed its argument: %s, was %s", after, want))
	}
	res.Buckets = []string{"prufer/tree", "prufer/tree/" + nBucket(n), fmt.Sprintf("rep=%c", rep)}
	return res
}

// execCodeSeq decodes a sequence of codes, holding all returned graphs at once: each graph is
// observed after its input slice was overwritten and again after all later calls; then all
// graphs are encoded, all returned codes held and read at the end.
func execCodeSeq(codes [][]int) hx.Result {
	var res hx.Result
	fail := func(key, f string, a ...interface{}) { res.Viol = append(res.Viol, hx.Fail(key, f, a...)) }
	k := len(codes)
	for _, code := range codes {
		for _, c := range code {
			if c < 0 || c >= len(code)+2 {
				return hx.Result{Obs: "badcase"}
			}
		}
		if len(code) > 0 {
			res.Nontrivial = true
		}
	}
	gs := make([]*graph.DenseGraph, k)
	first := make([]string, k)
	for i, code := range codes {
		in := append([]int(nil), code...)
		var g *graph.DenseGraph
		if !call(func() { g = graph.PruferDecode(in) }) {
			first[i] = "panic"
			fail("C07:prufer:decode-panic", "PruferDecode(%v) panics", code)
			continue
		}
		gs[i] = g
		first[i] = "ok:" + descr(g)
		for x := range in {
			in[x] = len(code) + 1 - in[x]
		}
		if d := "ok:" + descr(g); d != first[i] {
			fail("C07:aliasing:prufer-decode-input", "PruferDecode(%v) reads %s after its input was overwritten, was %s", code, d, first[i])
		}
	}
	held := make([][]int, k)
	snaps := make([]string, k)
	for i := k - 1; i >= 0; i-- { // the other way round
		if gs[i] == nil {
			snaps[i] = "na"
			continue
		}
		var c []int
		if !call(func() { c = graph.PruferEncode(gs[i]) }) {
			snaps[i] = "panic"
			continue
		}
		held[i] = c
		snaps[i] = hx.Ints(c)
	}
	parts := make([]string, k)
	for i, code := range codes {
		pd := first[i]
		if gs[i] != nil {
			pd = "ok:" + descr(gs[i])
			if pd != first[i] {
				fail("C07:aliasing:prufer-decode", "PruferDecode(%v) reads %s after later calls, was %s", code, pd, first[i])
			}
			if !isTree(gs[i]) {
				fail("C07:prufer:not-a-tree", "PruferDecode(%v) = %s is not a tree", code, pd)
			}
		}
		pe := snaps[i]
		if held[i] != nil {
			pe = hx.Ints(held[i])
			if pe != snaps[i] {
				fail("C07:aliasing:prufer-encode", "the result of PruferEncode read %s and reads %s after later calls", snaps[i], pe)
			}
		}
		if gs[i] != nil && pe != hx.Ints(code) {
			fail("C07:prufer:encode-decode", "PruferEncode(PruferDecode(%v)) = %s", code, pe)
		}
		if gs[i] == nil {
			parts[i] = "pd=panic;pe=na"
		} else {
			parts[i] = fmt.Sprintf("pd=%s;pe=%s", pd, pe)
		}
	}
	res.Obs = strings.Join(parts, "|")
	res.Buckets = []string{"prufer/code-sequence", fmt.Sprintf("prufer/code-sequence/%d", k)}
	return res
}

// execTreeSeq encodes a sequence of labelled trees holding all returned codes, then decodes
// private copies of the held codes holding all graphs, and reads everything at the end.
func execTreeSeq(rep byte, rs []rec) hx.Result {
	var res hx.Result
	fail := func(key, f string, a ...interface{}) { res.Viol = append(res.Viol, hx.Fail(key, f, a...)) }
	k := len(rs)
	graphs := make([]graph.Graph, k)
	want := make([]string, k)
	for i, r := range rs {
		graphs[i] = build(rep, r.n, r.es)
		if r.n < 2 || !isTree(graphs[i]) {
			return hx.Result{Obs: "badcase"}
		}
		want[i] = "ok:" + descrOf(r.n, r.es)
		if len(r.es) > 1 {
			res.Nontrivial = true
		}
	}
	held := make([][]int, k)
	snaps := make([]string, k)
	for i := range rs {
		var c []int
		if !call(func() { c = graph.PruferEncode(graphs[i]) }) {
			snaps[i] = "panic"
			fail("C07:prufer:encode-panic", "PruferEncode(%s) panics", want[i])
			continue
		}
		held[i] = c
		snaps[i] = hx.Ints(c)
		if after := "ok:" + descr(graphs[i]); after != want[i] {
			fail("C07:argument-modified", "PruferEncode changed its argument: %s, was %s", after, want[i])
		}
	}
	ts := make([]*graph.DenseGraph, k)
	for i := k - 1; i >= 0; i-- {
		if held[i] == nil {
			continue
		}
		if pe := hx.Ints(held[i]); pe != snaps[i] {
			fail("C07:aliasing:prufer-encode", "the result of PruferEncode(%s) read %s and reads %s after later calls", want[i], snaps[i], pe)
		}
		in := append([]int(nil), held[i]...)
		var t *graph.DenseGraph
		if call(func() { t = graph.PruferDecode(in) }) {
			ts[i] = t
		}
		for x := range in {
			in[x] = 0
		}
	}
	parts := make([]string, k)
	for i := range rs {
		if held[i] == nil {
			parts[i] = "pe=panic;pd=na"
			continue
		}
		pd := "panic"
		if ts[i] != nil {
			pd = "ok:" + descr(ts[i])
		}
		if pd != want[i] {
			fail("C07:prufer:decode-encode", "PruferDecode(PruferEncode(t)) = %s (read after later calls), t = %s", pd, want[i])
		}
		parts[i] = fmt.Sprintf("pe=%s;pd=%s", hx.Ints(held[i]), pd)
	}
	res.Obs = strings.Join(parts, "|")
	res.Buckets = []string{"prufer/tree-sequence", fmt.Sprintf("prufer/tree-sequence/%d", k), fmt.Sprintf("rep=%c", rep)}
	return res
}

// execG6Seq is an oracle-only case (the model side prints the same constant line): a sequence
// of graphs goes through Graph6Encode / Sparse6Encode and the decoders with all decoded graphs
// held at the same time; they are read after all later calls, and every call is repeated in
// reverse order and compared with its first result (no state between calls).
func execG6Seq(rep byte, rs []rec) hx.Result {
	var res hx.Result
	fail := func(key, f string, a ...interface{}) { res.Viol = append(res.Viol, hx.Fail(key, f, a...)) }
	k := len(rs)
	graphs := make([]graph.Graph, k)
	want := make([]string, k)
	g6 := make([]string, k)
	s6 := make([]string, k)
	dg := make([]*graph.DenseGraph, k)
	sg := make([]*graph.SparseGraph, k)
	for i, r := range rs {
		graphs[i] = build(rep, r.n, r.es)
		want[i] = descrOf(r.n, r.es)
		if len(r.es) > 0 {
			res.Nontrivial = true
		}
		if !call(func() { g6[i] = graph.Graph6Encode(graphs[i]); s6[i] = graph.Sparse6Encode(graphs[i]) }) {
			fail("C07:seq:encode-panic", "Graph6Encode/Sparse6Encode(%s) panics", want[i])
			res.Obs = fmt.Sprintf("gs=%d", k)
			return res
		}
		var e1, e2 error
		if !call(func() { dg[i], e1 = graph.Graph6Decode(g6[i]); sg[i], e2 = graph.Sparse6Decode(s6[i]) }) || e1 != nil || e2 != nil {
			fail("C07:seq:decode", "Graph6Decode/Sparse6Decode of the encodings of %s fails", want[i])
			dg[i], sg[i] = nil, nil
		}
	}
	for i := k - 1; i >= 0; i-- {
		var a, b string
		if call(func() { a = graph.Graph6Encode(graphs[i]); b = graph.Sparse6Encode(graphs[i]) }) {
			if a != g6[i] || b != s6[i] {
				fail("C07:state:graph6-sparse6-encode", "a second encoding of %s gives %q / %q, the first gave %q / %q", want[i], a, b, g6[i], s6[i])
			}
		}
		var d2 *graph.DenseGraph
		var s2 *graph.SparseGraph
		if call(func() { d2, _ = graph.Graph6Decode(">>graph6<<" + g6[i]); s2, _ = graph.Sparse6Decode(">>sparse6<<" + s6[i]) }) && d2 != nil && s2 != nil {
			if descr(d2) != want[i] || descr(s2) != want[i] {
				fail("C07:state:graph6-sparse6-decode", "a second decoding gives %s / %s, the graph is %s", descr(d2), descr(s2), want[i])
			}
		}
	}
	for i := range rs {
		if dg[i] != nil && descr(dg[i]) != want[i] {
			fail("C07:aliasing:graph6-decode", "the result of Graph6Decode reads %s after later calls, the graph is %s", descr(dg[i]), want[i])
		}
		if sg[i] != nil && descr(sg[i]) != want[i] {
			fail("C07:aliasing:sparse6-decode", "the result of Sparse6Decode reads %s after later calls, the graph is %s", descr(sg[i]), want[i])
		}
		if after := descr(graphs[i]); after != want[i] {
			fail("C07:argument-modified", "an encoder changed its argument: %s, was %s", after, want[i])
		}
	}
	res.Obs = fmt.Sprintf("gs=%d", k)
	res.Buckets = []string{"graph6-sparse6/sequence", fmt.Sprintf("rep=%c", rep)}
	return res
}

func exec(line string) hx.Result {
	i := strings.Index(line, ";")
	if i < 0 {
		return hx.Result{Obs: "badcase"}
	}
	head := strings.Fields(line[:i])
	toks := strings.Fields(line[i+1:])
	if len(head) == 0 {
		return hx.Result{Obs: "badcase"}
	}
	switch {
	case head[0] == "P" && len(head) == 1:
		code := make([]int, len(toks))
		for j, t := range toks {
			c, err := strconv.Atoi(t)
			if err != nil {
				return hx.Result{Obs: "badcase"}
			}
			code[j] = c
		}
		return execCode(code)
	case head[0] == "T" && len(head) == 3:
		n, err := strconv.Atoi(head[2])
		if err != nil {
			return hx.Result{Obs: "badcase"}
		}
		return execTree(head[1][0], n, parseEdges(toks))
	case head[0] == "M" && len(head) == 2:
		return execMulti(head[1][0], parseRecs(toks))
	case head[0] == "PP" && len(head) == 1:
		var codes [][]int
		for _, t := range toks {
			var code []int
			if t != "-" {
				for _, x := range strings.Split(t, ",") {
					c, err := strconv.Atoi(x)
					if err != nil {
						return hx.Result{Obs: "badcase"}
					}
					code = append(code, c)
				}
			}
			codes = append(codes, code)
		}
		return execCodeSeq(codes)
	case head[0] == "TT" && len(head) == 2:
		return execTreeSeq(head[1][0], parseRecs(toks))
	case head[0] == "GS" && len(head) == 2:
		return execG6Seq(head[1][0], parseRecs(toks))
	}
	return hx.Result{Obs: "badcase"}
}

// ---------------------------------------------------------------- generation

// refDecode is the textbook Pruefer decoding (independent of /repo), used only to enumerate
// labelled trees.
func refDecode(code []int) []edge {
	n := len(code) + 2
	cnt := make([]int, n)
	for _, c := range code {
		cnt[c]++
	}
	removed := make([]bool, n)
	var es []edge
	add := func(a, b int) {
		if a < b {
			a, b = b, a
		}
		es = append(es, edge{a, b})
	}
	for i, c := range code {
		for l := 0; l < n; l++ {
			if !removed[l] && cnt[l] == 0 {
				add(l, c)
				removed[l] = true
				break
			}
		}
		cnt[code[i]]--
	}
	var rest []int
	for v := 0; v < n; v++ {
		if !removed[v] {
			rest = append(rest, v)
		}
	}
	add(rest[0], rest[1])
	sortEdges(es)
	return es
}

func randGraph(r *hx.Rng, n int, num, den int) []edge {
	var es []edge
	for v := 1; v < n; v++ {
		for u := 0; u < v; u++ {
			if r.Chance(num, den) {
				es = append(es, edge{v, u})
			}
		}
	}
	return es
}

func randTree(r *hx.Rng, n int) []edge {
	p := r.Perm(n)
	style := r.Intn(5)
	var es []edge
	for i := 1; i < n; i++ {
		var j int
		switch style {
		case 0:
			j = i - 1 // a path in a random labelling
		case 1:
			j = 0 // a star
		case 2:
			j = r.Intn(i) // random recursive tree
		case 3: // caterpillar: a spine of about n/2 vertices
			if i <= n/2 {
				j = i - 1
			} else {
				j = r.Intn(n/2 + 1)
			}
		default: // mixture
			switch r.Intn(3) {
			case 0:
				j = i - 1
			case 1:
				j = 0
			default:
				j = r.Intn(i)
			}
		}
		a, b := p[i], p[j]
		if a < b {
			a, b = b, a
		}
		es = append(es, edge{a, b})
	}
	sortEdges(es)
	return es
}

func gen(g *hx.Gen) {
	r := g.Rng
	reps := []byte{'d', 's'}
	codeCase := func(code []int) {
		s := make([]string, len(code))
		for i, c := range code {
			s[i] = strconv.Itoa(c)
		}
		g.Emit("P;" + strings.Join(s, " "))
	}
	treeCase := func(rep byte, n int, es []edge) {
		g.Emit(fmt.Sprintf("T %c %d;%s", rep, n, edgeText(es, " ")))
	}
	multiCase := func(rep byte, rs []rec) {
		s := make([]string, len(rs))
		for i, x := range rs {
			s[i] = recText(x)
		}
		g.Emit(fmt.Sprintf("M %c;%s", rep, strings.Join(s, " ")))
	}
	// corpus: inputs on which the pinned tree failed (KNOWN_FINDINGS.txt)
	for _, rep := range reps {
		multiCase(rep, []rec{{3, []edge{{2, 1}}}})          // Multicode graph using the last vertex
		multiCase(rep, []rec{{2, []edge{{1, 0}}}})          // K2
		multiCase(rep, []rec{{0, nil}, {1, nil}, {2, nil}}) // records without lists
	}
	codeCase(nil)
	treeCase('d', 2, []edge{{1, 0}})
	treeCase('s', 2, []edge{{1, 0}})

	// Pruefer: every code for n <= 7 (8 in the thorough tier) and, through the textbook
	// decoding, every labelled tree on n <= 7 (8) vertices
	maxN := g.Pick(7, 8)
	alt := 0
	for n := 2; n <= maxN; n++ {
		code := make([]int, n-2)
		for {
			codeCase(code)
			alt++
			treeCase(reps[alt%2], n, refDecode(code))
			if n <= 6 {
				treeCase(reps[(alt+1)%2], n, refDecode(code))
			}
			i := len(code) - 1
			for i >= 0 && code[i] == n-1 {
				code[i] = 0
				i--
			}
			if i < 0 {
				break
			}
			code[i]++
		}
	}
	g.Exhaustive(fmt.Sprintf("all Pruefer codes and all labelled trees on 2 <= n <= %d vertices", maxN))
	// random codes and trees up to n = 60
	for i := 0; i < g.Pick(1500, 40000); i++ {
		n := r.Range(3, 60)
		if r.Chance(1, 3) {
			n = r.Range(3, 12)
		}
		code := make([]int, n-2)
		switch r.Intn(4) {
		case 0: // uniform
			for j := range code {
				code[j] = r.Intn(n)
			}
		case 1: // few distinct values: high degrees, many leaves
			k := r.Range(1, 3)
			vals := make([]int, k)
			for j := range vals {
				vals[j] = r.Intn(n)
			}
			for j := range code {
				code[j] = vals[r.Intn(k)]
			}
		case 2: // a permutation prefix: paths, every internal degree 2
			p := r.Perm(n)
			copy(code, p)
		default: // biased to the extreme labels 0 and n-1
			for j := range code {
				switch r.Intn(4) {
				case 0:
					code[j] = 0
				case 1:
					code[j] = n - 1
				default:
					code[j] = r.Intn(n)
				}
			}
		}
		codeCase(code)
	}
	for i := 0; i < g.Pick(1500, 40000); i++ {
		n := r.Range(3, 60)
		if r.Chance(1, 3) {
			n = r.Range(3, 12)
		}
		treeCase(reps[r.Intn(2)], n, randTree(r, n))
	}

	// Multicode: every labelled graph on n <= 5 vertices as a single record
	for n := 0; n <= 5; n++ {
		t := n * (n - 1) / 2
		for mask := 0; mask < 1<<uint(t); mask++ {
			var es []edge
			p := 0
			for v := 1; v < n; v++ {
				for u := 0; u < v; u++ {
					if mask>>uint(p)&1 == 1 {
						es = append(es, edge{v, u})
					}
					p++
				}
			}
			multiCase(reps[mask%2], []rec{{n, es}})
			if n <= 4 {
				multiCase(reps[(mask+1)%2], []rec{{n, es}})
			}
		}
	}
	g.Exhaustive("all labelled graphs on n <= 5 vertices through MulticodeEncode / MulticodeDecode / MulticodeDecodeMultiple")
	dens := [][2]int{{0, 1}, {1, 20}, {3, 10}, {1, 2}, {1, 1}}
	randRec := func() rec {
		switch r.Intn(12) {
		case 0:
			return rec{0, nil}
		case 1:
			return rec{1, nil}
		case 2:
			return rec{2, randGraph(r, 2, 1, 2)}
		}
		n := r.Range(2, 40)
		if r.Chance(1, 2) {
			n = r.Range(2, 9)
		}
		d := dens[r.Intn(len(dens))]
		return rec{n, randGraph(r, n, d[0], d[1])}
	}
	// random single records n <= 40 at the five densities
	for i := 0; i < g.Pick(600, 12000); i++ {
		n := r.Range(2, 40)
		d := dens[r.Intn(len(dens))]
		multiCase(reps[r.Intn(2)], []rec{{n, randGraph(r, n, d[0], d[1])}})
	}
	// concatenations of 1..5 records, including n = 0 and n = 1
	for i := 0; i < g.Pick(800, 15000); i++ {
		k := r.Range(1, 5)
		rs := make([]rec, k)
		for j := range rs {
			rs[j] = randRec()
		}
		multiCase(reps[r.Intn(2)], rs)
	}
	// n = 255 (the largest size, entries up to byte 255) and its neighbours, sparse, alone and
	// inside a concatenation
	big := func(n int) rec {
		var es []edge
		for c := 0; c < r.Range(0, 120); c++ {
			a, b := r.Intn(n), r.Intn(n)
			switch r.Intn(4) {
			case 0:
				a = n - 1
			case 1:
				a = n - 2
			}
			if a < b {
				a, b = b, a
			}
			es = append(es, edge{a, b})
		}
		return rec{n, clean(n, es)}
	}
	for i := 0; i < g.Pick(6, 60); i++ {
		n := []int{255, 255, 254, 128, 129, 200}[i%6]
		multiCase(reps[i%2], []rec{big(n)})
		multiCase(reps[(i+1)%2], []rec{randRec(), big(n), randRec()})
	}
	multiCase('d', []rec{{255, nil}})

	// ---- results of successive calls held at the same time (returned buffers must not be
	// shared, inputs must not be retained, no state between calls): sequences whose sizes go
	// down, up and stay equal around the capacity boundaries 8, 16, ..., 256
	sized := func(size int) rec { // a graph whose record has exactly `size` bytes (m + n)
		if size < 2 {
			size = 2
		}
		nmin := 2
		for nmin*(nmin-1)/2+nmin < size {
			nmin++
		}
		nmax := size
		if nmax > 64 {
			nmax = 64
		}
		if nmax < nmin {
			nmax = nmin
		}
		n := r.Range(nmin, nmax)
		m := size - n
		perm := r.Perm(n * (n - 1) / 2)
		pick := map[int]bool{}
		for _, x := range perm[:m] {
			pick[x] = true
		}
		var es []edge
		p := 0
		for v := 1; v < n; v++ {
			for u := 0; u < v; u++ {
				if pick[p] {
					es = append(es, edge{v, u})
				}
				p++
			}
		}
		return rec{n, es}
	}
	patterns := func(b int) [][]int {
		return [][]int{{b, b - 1}, {b - 1, b, b + 1}, {b + 1, b, b - 1, b / 2}, {b, b}, {b / 2, 2 * b, b / 2, b}, {2 * b, b, b / 2, b / 4, 2}}
	}
	randCode := func(n int) []int {
		code := make([]int, n-2)
		for j := range code {
			code[j] = r.Intn(n)
		}
		return code
	}
	codeSeqCase := func(codes [][]int) {
		toks := make([]string, len(codes))
		for i, c := range codes {
			if len(c) == 0 {
				toks[i] = "-"
				continue
			}
			x := make([]string, len(c))
			for j, v := range c {
				x[j] = strconv.Itoa(v)
			}
			toks[i] = strings.Join(x, ",")
		}
		g.Emit("PP;" + strings.Join(toks, " "))
	}
	treeSeqCase := func(rep byte, rs []rec) {
		toks := make([]string, len(rs))
		for i, x := range rs {
			toks[i] = recText(x)
		}
		g.Emit(fmt.Sprintf("TT %c;%s", rep, strings.Join(toks, " ")))
	}
	reps2 := 0
	for round := 0; round < g.Pick(1, 8); round++ {
		for _, b := range []int{8, 16, 32, 64, 128, 256} {
			for _, pat := range patterns(b) {
				rs := make([]rec, len(pat))
				for i, sz := range pat {
					rs[i] = sized(sz)
				}
				reps2++
				multiCase(reps[reps2%2], rs)
				g6rs := make([]string, len(rs))
				for i, x := range rs {
					g6rs[i] = recText(x)
				}
				g.Emit(fmt.Sprintf("GS %c;%s", reps[(reps2+1)%2], strings.Join(g6rs, " ")))
			}
		}
		for _, b := range []int{8, 16, 32, 64} { // code lengths / vertex counts
			for _, pat := range patterns(b) {
				var codes [][]int
				var ts []rec
				for _, sz := range pat {
					if sz > 66 {
						sz = 66
					}
					if sz < 2 {
						sz = 2
					}
					codes = append(codes, randCode(sz+2))
					ts = append(ts, rec{sz + 1, randTree(r, sz+1)})
				}
				reps2++
				codeSeqCase(codes)
				treeSeqCase(reps[reps2%2], ts)
			}
		}
	}
	for i := 0; i < g.Pick(200, 4000); i++ {
		k := r.Range(2, 6)
		var codes [][]int
		var ts []rec
		for j := 0; j < k; j++ {
			codes = append(codes, randCode(r.Range(2, 12)))
			n := r.Range(2, 12)
			ts = append(ts, rec{n, randTree(r, n)})
		}
		codeSeqCase(codes)
		treeSeqCase(reps[i%2], ts)
	}
	multiCase('d', []rec{{0, nil}, {255, []edge{{254, 0}, {254, 253}}}, {1, nil}, {255, nil}, {0, nil}})
}

func main() {
	hx.Main(hx.Prop{
		Rule:        "C07: a case is non-trivial if its graph has at least one edge (Multicode), its code is non-empty (Pruefer code) or its tree has at least two edges (labelled tree); counted per codec / size bucket",
		Gen:         gen,
		Exec:        exec,
		CaseTimeout: 20 * time.Second,
		MemMB:       2048,
	})
}
