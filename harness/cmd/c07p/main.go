// Command c07p is the Multicode / Pruefer correspondence stream of C07: it runs
// MulticodeEncode, MulticodeDecode, MulticodeDecodeMultiple, PruferEncode and PruferDecode of
// /repo/graph/encoding.go on valid inputs and prints what the property determines.
//
// Case lines (shared with ocaml/c07p/driver.ml):
//
//	P;c c c ...                a Pruefer code (n = length + 2)
//	T <rep> <n>;v-u v-u ...    a labelled tree, rep = d (DenseGraph) or s (SparseGraph)
//	M <rep>;n:v-u,v-u n: ...   a sequence of graphs; each is encoded and decoded alone, the
//	                           concatenation of the records goes through MulticodeDecodeMultiple
package main

import (
	"fmt"
	"sort"
	"strconv"
	"strings"
	"time"

	"github.com/Tom-Johnston/mamba/graph"
	"github.com/Tom-Johnston/mamba/sortints"
	"verifharness/hx"
)

// edge is {v,u} with u < v.
type edge struct{ v, u int }

type rec struct {
	n  int
	es []edge
}

func sortEdges(es []edge) {
	sort.Slice(es, func(i, j int) bool {
		if es[i].v != es[j].v {
			return es[i].v < es[j].v
		}
		return es[i].u < es[j].u
	})
}

// clean drops loops, out-of-range ends and repeats (a shrunk case stays a valid graph).
func clean(n int, es []edge) []edge {
	seen := map[edge]bool{}
	var out []edge
	for _, e := range es {
		if e.u != e.v && e.u >= 0 && e.v < n && !seen[e] {
			seen[e] = true
			out = append(out, e)
		}
	}
	sortEdges(out)
	return out
}

func parseEdge(t string) (edge, bool) {
	p := strings.SplitN(t, "-", 2)
	if len(p) != 2 {
		return edge{}, false
	}
	a, e1 := strconv.Atoi(p[0])
	b, e2 := strconv.Atoi(p[1])
	if e1 != nil || e2 != nil {
		return edge{}, false
	}
	if a < b {
		a, b = b, a
	}
	return edge{a, b}, true
}

func parseEdges(toks []string) []edge {
	var es []edge
	for _, t := range toks {
		if e, ok := parseEdge(t); ok {
			es = append(es, e)
		}
	}
	return es
}

func edgeText(es []edge, sep string) string {
	s := make([]string, len(es))
	for i, e := range es {
		s[i] = fmt.Sprintf("%d-%d", e.v, e.u)
	}
	return strings.Join(s, sep)
}

// build makes the graph value: 'd' DenseGraph, 's' SparseGraph.
func build(rep byte, n int, es []edge) graph.Graph {
	if rep == 's' {
		nb := make([]sortints.SortedInts, n)
		for i := range nb {
			nb[i] = []int{}
		}
		for _, e := range es {
			nb[e.v] = append(nb[e.v], e.u)
			nb[e.u] = append(nb[e.u], e.v)
		}
		for i := range nb {
			sort.Ints(nb[i])
		}
		return graph.NewSparse(n, nb)
	}
	bits := make([]byte, n*(n-1)/2)
	for _, e := range es {
		bits[e.v*(e.v-1)/2+e.u] = 1
	}
	return graph.NewDense(n, bits)
}

// descr is the canonical text of a graph value: N():M():Degrees():edges (from IsEdge).
func descr(g graph.Graph) string {
	n := g.N()
	var es []edge
	for v := 0; v < n; v++ {
		for u := 0; u < v; u++ {
			if g.IsEdge(u, v) {
				es = append(es, edge{v, u})
			}
		}
	}
	return fmt.Sprintf("%d:%d:%s:%s", n, g.M(), hx.Ints(g.Degrees()), edgeText(es, ","))
}

// descrOf is the text a graph with n vertices and exactly the (clean) edge set es must have.
func descrOf(n int, es []edge) string {
	deg := make([]int, n)
	for _, e := range es {
		deg[e.u]++
		deg[e.v]++
	}
	return fmt.Sprintf("%d:%d:%s:%s", n, len(es), hx.Ints(deg), edgeText(es, ","))
}

func call(f func()) (ok bool) {
	defer func() {
		if e := recover(); e != nil {
			ok = false
		}
	}()
	f()
	return true
}

func hex(b []byte) string {
	const d = "0123456789abcdef"
	out := make([]byte, 2*len(b))
	for i, c := range b {
		out[2*i], out[2*i+1] = d[c>>4], d[c&15]
	}
	return string(out)
}

// canon sorts every neighbour list of a record (the format does not fix the order in a list).
func canon(b []byte) []byte {
	if len(b) == 0 {
		return nil
	}
	out := []byte{b[0]}
	var cur []byte
	for _, c := range b[1:] {
		if c == 0 {
			sort.Slice(cur, func(i, j int) bool { return cur[i] < cur[j] })
			out = append(out, cur...)
			out = append(out, 0)
			cur = cur[:0]
		} else {
			cur = append(cur, c)
		}
	}
	return append(out, cur...)
}

// formatOK checks a record against the format: byte n, then for the vertices 1..n-1 the
// neighbours with a larger number (1-based), each list closed by 0; nothing else.
func formatOK(b []byte, n int, es []edge) string {
	if n == 0 {
		if len(b) != 1 || b[0] != 0 {
			return "the record of the empty graph is not the single byte 0"
		}
		return ""
	}
	if len(b) != n+len(es) {
		return fmt.Sprintf("length %d, the format gives n + m = %d", len(b), n+len(es))
	}
	if int(b[0]) != n {
		return fmt.Sprintf("first byte %d, n = %d", b[0], n)
	}
	adj := map[edge]bool{}
	for _, e := range es {
		adj[e] = true
	}
	v, cnt := 1, 0
	seen := map[edge]bool{}
	for _, c := range b[1:] {
		if c == 0 {
			v++
			continue
		}
		if v > n-1 {
			return "entries after the last list"
		}
		if int(c) <= v || int(c) > n {
			return fmt.Sprintf("entry %d in the list of vertex %d (n = %d)", c, v, n)
		}
		e := edge{int(c) - 1, v - 1}
		if !adj[e] || seen[e] {
			return fmt.Sprintf("entry %d in the list of vertex %d is not an edge / repeated", c, v)
		}
		seen[e] = true
		cnt++
	}
	if v != n {
		return fmt.Sprintf("%d lists, the format gives n - 1 = %d", v-1, n-1)
	}
	if cnt != len(es) {
		return "an edge is missing"
	}
	return ""
}

func parseRecs(toks []string) []rec {
	var rs []rec
	for _, t := range toks {
		p := strings.SplitN(t, ":", 2)
		if len(p) != 2 {
			continue
		}
		n, err := strconv.Atoi(p[0])
		if err != nil || n < 0 || n > 255 {
			continue
		}
		var es []edge
		if p[1] != "" {
			es = parseEdges(strings.Split(p[1], ","))
		}
		rs = append(rs, rec{n, clean(n, es)})
	}
	return rs
}

func recText(r rec) string { return fmt.Sprintf("%d:%s", r.n, edgeText(r.es, ",")) }

func execMulti(rep byte, rs []rec) hx.Result {
	var res hx.Result
	fail := func(key, f string, a ...interface{}) { res.Viol = append(res.Viol, hx.Fail(key, f, a...)) }
	var all []byte
	var want, cs, raws, md []string
	for _, r := range rs {
		g := build(rep, r.n, r.es)
		var b []byte
		if !call(func() { b = graph.MulticodeEncode(g) }) {
			res.Obs = "mc=panic;md=na;mm=na"
			return res
		}
		if msg := formatOK(b, r.n, r.es); msg != "" {
			fail("C07:format:multicode", "MulticodeEncode(%s) = %s: %s", recText(r), hex(b), msg)
		}
		all = append(all, b...)
		w := descrOf(r.n, r.es)
		want = append(want, w)
		cs = append(cs, hex(canon(b)))
		raws = append(raws, hex(b))
		var dg *graph.DenseGraph
		d := "panic"
		if call(func() { dg = graph.MulticodeDecode(append([]byte(nil), b...)) }) {
			d = descr(dg)
		}
		md = append(md, d)
		if d != w {
			fail("C07:roundtrip:multicode", "MulticodeDecode(MulticodeEncode(g)) = %s, g = %s", d, w)
		}
		if after := descr(g); after != w {
			fail("C07:argument-modified", "MulticodeEncode changed its argument: %s, was %s", after, w)
		}
		if len(r.es) > 0 {
			res.Nontrivial = true
		}
		switch {
		case r.n <= 1:
			res.Buckets = append(res.Buckets, fmt.Sprintf("multicode/n=%d", r.n))
		case r.n == 255:
			res.Buckets = append(res.Buckets, "multicode/n=255")
		case len(r.es) == 0:
			res.Buckets = append(res.Buckets, "multicode/edgeless")
		default:
			last := false
			for _, e := range r.es {
				if e.v == r.n-1 {
					last = true
				}
			}
			if last {
				res.Buckets = append(res.Buckets, "multicode/uses last vertex")
			} else {
				res.Buckets = append(res.Buckets, "multicode/last vertex isolated")
			}
		}
	}
	var gs []*graph.DenseGraph
	mm := "panic"
	if call(func() { gs = graph.MulticodeDecodeMultiple(append([]byte(nil), all...)) }) {
		ds := make([]string, len(gs))
		for i, g := range gs {
			ds[i] = descr(g)
		}
		mm = "ok:" + strings.Join(ds, "|")
	}
	if w := "ok:" + strings.Join(want, "|"); mm != w {
		fail("C07:roundtrip:multicode-multiple", "MulticodeDecodeMultiple of the concatenated records = %s, the graphs are %s", mm, w)
	}
	res.Obs = fmt.Sprintf("mc=%s;md=%s;mm=%s ## raw=%s", strings.Join(cs, "."), strings.Join(md, "|"), mm, strings.Join(raws, "."))
	res.Buckets = append(res.Buckets, fmt.Sprintf("multicode-multiple/%d records", len(rs)), fmt.Sprintf("rep=%c", rep))
	return res
}

func isTree(g graph.Graph) bool {
	n := g.N()
	if n == 0 || g.M() != n-1 {
		return false
	}
	seen := make([]bool, n)
	stack := []int{0}
	seen[0] = true
	cnt := 1
	for len(stack) > 0 {
		v := stack[len(stack)-1]
		stack = stack[:len(stack)-1]
		for u := 0; u < n; u++ {
			if !seen[u] && g.IsEdge(u, v) {
				seen[u] = true
				cnt++
				stack = append(stack, u)
			}
		}
	}
	return cnt == n
}

func nBucket(n int) string {
	switch {
	case n <= 3:
		return fmt.Sprintf("n=%d", n)
	case n <= 8:
		return "n=4..8"
	case n <= 20:
		return "n=9..20"
	}
	return "n=21..60"
}

func execCode(code []int) hx.Result {
	var res hx.Result
	res.Nontrivial = len(code) > 0
	n := len(code) + 2
	for _, c := range code {
		if c < 0 || c >= n {
			return hx.Result{Obs: "badcase"}
		}
	}
	var g *graph.DenseGraph
	if !call(func() { g = graph.PruferDecode(append([]int(nil), code...)) }) {
		res.Obs = "pd=panic;pe=na"
		res.Viol = append(res.Viol, hx.Fail("C07:prufer:decode-panic", "PruferDecode(%v) panics", code))
		return res
	}
	var back []int
	pe := "panic"
	if call(func() { back = graph.PruferEncode(g) }) {
		pe = hx.Ints(back)
	}
	res.Obs = fmt.Sprintf("pd=ok:%s;pe=%s", descr(g), pe)
	if pe != hx.Ints(code) {
		res.Viol = append(res.Viol, hx.Fail("C07:prufer:encode-decode", "PruferEncode(PruferDecode(%v)) = %s", code, pe))
	}
	if !isTree(g) || g.N() != n {
		res.Viol = append(res.Viol, hx.Fail("C07:prufer:not-a-tree", "PruferDecode(%v) = %s is not a tree on %d vertices", code, descr(g), n))
	}
	// the degree of v in the tree of a code is 1 + the number of times v occurs in it
	deg := make([]int, n)
	for i := range deg {
		deg[i] = 1
	}
	for _, c := range code {
		deg[c]++
	}
	if hx.Ints(deg) != hx.Ints(g.Degrees()) {
		res.Viol = append(res.Viol, hx.Fail("C07:prufer:degrees", "PruferDecode(%v) has degrees %s, the code gives %s", code, hx.Ints(g.Degrees()), hx.Ints(deg)))
	}
	res.Buckets = []string{"prufer/code", "prufer/code/" + nBucket(n)}
	return res
}

func execTree(rep byte, n int, es []edge) hx.Result {
	var res hx.Result
	es = clean(n, es)
	res.Nontrivial = len(es) > 1
	g := build(rep, n, es)
	if !isTree(g) || n < 2 {
		return hx.Result{Obs: "badcase"} // outside the domain of the property (a shrunk case)
	}
	want := "ok:" + descrOf(n, es)
	var code []int
	if !call(func() { code = graph.PruferEncode(g) }) {
		res.Obs = "pe=panic;pd=na"
		res.Viol = append(res.Viol, hx.Fail("C07:prufer:encode-panic", "PruferEncode(%s) panics", want))
		return res
	}
	var t *graph.DenseGraph
	pd := "panic"
	if call(func() { t = graph.PruferDecode(append([]int(nil), code...)) }) {
		pd = "ok:" + descr(t)
	}
	res.Obs = fmt.Sprintf("pe=%s;pd=%s", hx.Ints(code), pd)
	if pd != want {
		res.Viol = append(res.Viol, hx.Fail("C07:prufer:decode-encode", "PruferDecode(PruferEncode(t)) = %s, t = %s", pd, want))
	}
	if len(code) != n-2 {
		res.Viol = append(res.Viol, hx.Fail("C07:prufer:code-length", "PruferEncode(t) = %v has length %d, n = %d", code, len(code), n))
	}
	for _, c := range code {
		if c < 0 || c >= n {
			res.Viol = append(res.Viol, hx.Fail("C07:prufer:code-range", "PruferEncode(t) = %v, n = %d", code, n))
			break
		}
	}
	if after := "ok:" + descr(g); after != want {
		res.Viol = append(res.Viol, hx.Fail("C07:argument-modified", "PruferEncode changed its argument: %s, was %s", after, want))
	}
	res.Buckets = []string{"prufer/tree", "prufer/tree/" + nBucket(n), fmt.Sprintf("rep=%c", rep)}
	return res
}

func exec(line string) hx.Result {
	i := strings.Index(line, ";")
	if i < 0 {
		return hx.Result{Obs: "badcase"}
	}
	head := strings.Fields(line[:i])
	toks := strings.Fields(line[i+1:])
	if len(head) == 0 {
		return hx.Result{Obs: "badcase"}
	}
	switch {
	case head[0] == "P" && len(head) == 1:
		code := make([]int, len(toks))
		for j, t := range toks {
			c, err := strconv.Atoi(t)
			if err != nil {
				return hx.Result{Obs: "badcase"}
			}
			code[j] = c
		}
		return execCode(code)
	case head[0] == "T" && len(head) == 3:
		n, err := strconv.Atoi(head[2])
		if err != nil {
			return hx.Result{Obs: "badcase"}
		}
		return execTree(head[1][0], n, parseEdges(toks))
	case head[0] == "M" && len(head) == 2:
		return execMulti(head[1][0], parseRecs(toks))
	}
	return hx.Result{Obs: "badcase"}
}

// ---------------------------------------------------------------- generation

// refDecode is the textbook Pruefer decoding (independent of /repo), used only to enumerate
// labelled trees.
func refDecode(code []int) []edge {
	n := len(code) + 2
	cnt := make([]int, n)
	for _, c := range code {
		cnt[c]++
	}
	removed := make([]bool, n)
	var es []edge
	add := func(a, b int) {
		if a < b {
			a, b = b, a
		}
		es = append(es, edge{a, b})
	}
	for i, c := range code {
		for l := 0; l < n; l++ {
			if !removed[l] && cnt[l] == 0 {
				add(l, c)
				removed[l] = true
				break
			}
		}
		cnt[code[i]]--
	}
	var rest []int
	for v := 0; v < n; v++ {
		if !removed[v] {
			rest = append(rest, v)
		}
	}
	add(rest[0], rest[1])
	sortEdges(es)
	return es
}

func randGraph(r *hx.Rng, n int, num, den int) []edge {
	var es []edge
	for v := 1; v < n; v++ {
		for u := 0; u < v; u++ {
			if r.Chance(num, den) {
				es = append(es, edge{v, u})
			}
		}
	}
	return es
}

func randTree(r *hx.Rng, n int) []edge {
	p := r.Perm(n)
	style := r.Intn(5)
	var es []edge
	for i := 1; i < n; i++ {
		var j int
		switch style {
		case 0:
			j = i - 1 // a path in a random labelling
		case 1:
			j = 0 // a star
		case 2:
			j = r.Intn(i) // random recursive tree
		case 3: // caterpillar: a spine of about n/2 vertices
			if i <= n/2 {
				j = i - 1
			} else {
				j = r.Intn(n/2 + 1)
			}
		default: // mixture
			switch r.Intn(3) {
			case 0:
				j = i - 1
			case 1:
				j = 0
			default:
				j = r.Intn(i)
			}
		}
		a, b := p[i], p[j]
		if a < b {
			a, b = b, a
		}
		es = append(es, edge{a, b})
	}
	sortEdges(es)
	return es
}

func gen(g *hx.Gen) {
	r := g.Rng
	reps := []byte{'d', 's'}
	codeCase := func(code []int) {
		s := make([]string, len(code))
		for i, c := range code {
			s[i] = strconv.Itoa(c)
		}
		g.Emit("P;" + strings.Join(s, " "))
	}
	treeCase := func(rep byte, n int, es []edge) {
		g.Emit(fmt.Sprintf("T %c %d;%s", rep, n, edgeText(es, " ")))
	}
	multiCase := func(rep byte, rs []rec) {
		s := make([]string, len(rs))
		for i, x := range rs {
			s[i] = recText(x)
		}
		g.Emit(fmt.Sprintf("M %c;%s", rep, strings.Join(s, " ")))
	}
	// corpus: inputs on which the pinned tree failed (KNOWN_FINDINGS.txt)
	for _, rep := range reps {
		multiCase(rep, []rec{{3, []edge{{2, 1}}}})          // Multicode graph using the last vertex
		multiCase(rep, []rec{{2, []edge{{1, 0}}}})          // K2
		multiCase(rep, []rec{{0, nil}, {1, nil}, {2, nil}}) // records without lists
	}
	codeCase(nil)
	treeCase('d', 2, []edge{{1, 0}})
	treeCase('s', 2, []edge{{1, 0}})

	// Pruefer: every code for n <= 7 (8 in the thorough tier) and, through the textbook
	// decoding, every labelled tree on n <= 7 (8) vertices
	maxN := g.Pick(7, 8)
	alt := 0
	for n := 2; n <= maxN; n++ {
		code := make([]int, n-2)
		for {
			codeCase(code)
			alt++
			treeCase(reps[alt%2], n, refDecode(code))
			if n <= 6 {
				treeCase(reps[(alt+1)%2], n, refDecode(code))
			}
			i := len(code) - 1
			for i >= 0 && code[i] == n-1 {
				code[i] = 0
				i--
			}
			if i < 0 {
				break
			}
			code[i]++
		}
	}
	g.Exhaustive(fmt.Sprintf("all Pruefer codes and all labelled trees on 2 <= n <= %d vertices", maxN))
	// random codes and trees up to n = 60
	for i := 0; i < g.Pick(1500, 40000); i++ {
		n := r.Range(3, 60)
		if r.Chance(1, 3) {
			n = r.Range(3, 12)
		}
		code := make([]int, n-2)
		switch r.Intn(4) {
		case 0: // uniform
			for j := range code {
				code[j] = r.Intn(n)
			}
		case 1: // few distinct values: high degrees, many leaves
			k := r.Range(1, 3)
			vals := make([]int, k)
			for j := range vals {
				vals[j] = r.Intn(n)
			}
			for j := range code {
				code[j] = vals[r.Intn(k)]
			}
		case 2: // a permutation prefix: paths, every internal degree 2
			p := r.Perm(n)
			copy(code, p)
		default: // biased to the extreme labels 0 and n-1
			for j := range code {
				switch r.Intn(4) {
				case 0:
					code[j] = 0
				case 1:
					code[j] = n - 1
				default:
					code[j] = r.Intn(n)
				}
			}
		}
		codeCase(code)
	}
	for i := 0; i < g.Pick(1500, 40000); i++ {
		n := r.Range(3, 60)
		if r.Chance(1, 3) {
			n = r.Range(3, 12)
		}
		treeCase(reps[r.Intn(2)], n, randTree(r, n))
	}

	// Multicode: every labelled graph on n <= 5 vertices as a single record
	for n := 0; n <= 5; n++ {
		t := n * (n - 1) / 2
		for mask := 0; mask < 1<<uint(t); mask++ {
			var es []edge
			p := 0
			for v := 1; v < n; v++ {
				for u := 0; u < v; u++ {
					if mask>>uint(p)&1 == 1 {
						es = append(es, edge{v, u})
					}
					p++
				}
			}
			multiCase(reps[mask%2], []rec{{n, es}})
			if n <= 4 {
				multiCase(reps[(mask+1)%2], []rec{{n, es}})
			}
		}
	}
	g.Exhaustive("all labelled graphs on n <= 5 vertices through MulticodeEncode / MulticodeDecode / MulticodeDecodeMultiple")
	dens := [][2]int{{0, 1}, {1, 20}, {3, 10}, {1, 2}, {1, 1}}
	randRec := func() rec {
		switch r.Intn(12) {
		case 0:
			return rec{0, nil}
		case 1:
			return rec{1, nil}
		case 2:
			return rec{2, randGraph(r, 2, 1, 2)}
		}
		n := r.Range(2, 40)
		if r.Chance(1, 2) {
			n = r.Range(2, 9)
		}
		d := dens[r.Intn(len(dens))]
		return rec{n, randGraph(r, n, d[0], d[1])}
	}
	// random single records n <= 40 at the five densities
	for i := 0; i < g.Pick(600, 12000); i++ {
		n := r.Range(2, 40)
		d := dens[r.Intn(len(dens))]
		multiCase(reps[r.Intn(2)], []rec{{n, randGraph(r, n, d[0], d[1])}})
	}
	// concatenations of 1..5 records, including n = 0 and n = 1
	for i := 0; i < g.Pick(800, 15000); i++ {
		k := r.Range(1, 5)
		rs := make([]rec, k)
		for j := range rs {
			rs[j] = randRec()
		}
		multiCase(reps[r.Intn(2)], rs)
	}
	// n = 255 (the largest size, entries up to byte 255) and its neighbours, sparse, alone and
	// inside a concatenation
	big := func(n int) rec {
		var es []edge
		for c := 0; c < r.Range(0, 120); c++ {
			a, b := r.Intn(n), r.Intn(n)
			switch r.Intn(4) {
			case 0:
				a = n - 1
			case 1:
				a = n - 2
			}
			if a < b {
				a, b = b, a
			}
			es = append(es, edge{a, b})
		}
		return rec{n, clean(n, es)}
	}
	for i := 0; i < g.Pick(6, 60); i++ {
		n := []int{255, 255, 254, 128, 129, 200}[i%6]
		multiCase(reps[i%2], []rec{big(n)})
		multiCase(reps[(i+1)%2], []rec{randRec(), big(n), randRec()})
	}
	multiCase('d', []rec{{255, nil}})
	multiCase('d', []rec{{0, nil}, {255, []edge{{254, 0}, {254, 253}}}, {1, nil}, {255, nil}, {0, nil}})
}

func main() {
	hx.Main(hx.Prop{
		Rule:        "C07: a case is non-trivial if its graph has at least one edge (Multicode), its code is non-empty (Pruefer code) or its tree has at least two edges (labelled tree); counted per codec / size bucket",
		Gen:         gen,
		Exec:        exec,
		CaseTimeout: 20 * time.Second,
		MemMB:       2048,
	})
}
