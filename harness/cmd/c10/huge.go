package main

// Oracle-only cases on large sparse graphs (255 .. 1025 vertices): the third case kind
//
//	!<family>.<params>,3;<tokens>      tokens: W:<rep>.<seed> (representation, relabelling)
//
// The extracted models work on unary numbers and cannot follow here; the answers are known in
// closed form from the construction and are compared inside the harness (hx.Fail).  The
// observation line is the constant "oracle-only" on both sides.  The functions that enumerate
// cycles or induced subgraphs are not called.
//
// families (vertex numbering of the construction; L = last path vertex):
//	1 path(n)  2 cycle(n)  3 broom(L,k): path 0..L with k leaves at L
//	4 path 0..L with a clique on L..L+c-1   5 two disjoint paths (a, b)   6 ladder(k): 2k vertices

import (
	"fmt"
	"strings"

	"github.com/Tom-Johnston/mamba/graph"
	"verifharness/cmd/c09/gx"
	"verifharness/hx"
)

type hugeKnown struct {
	g      *gx.G
	dist   func(i, j int) int // -1 = no path
	gi     int
	comps  []int       // sizes, ascending
	blocks map[int]int // size -> count
	narts  int
}

func abs(x int) int {
	if x < 0 {
		return -x
	}
	return x
}

func hugeFamily(f []int) *hugeKnown {
	switch f[0] {
	case 1:
		n := f[1]
		return &hugeKnown{g: gx.Path(n), dist: func(i, j int) int { return abs(i - j) }, gi: -1, comps: []int{n},
			blocks: map[int]int{2: n - 1}, narts: n - 2}
	case 2:
		n := f[1]
		return &hugeKnown{g: gx.Cycle(n), dist: func(i, j int) int {
			d := abs(i - j)
			if n-d < d {
				d = n - d
			}
			return d
		}, gi: n, comps: []int{n}, blocks: map[int]int{n: 1}, narts: 0}
	case 3:
		L, k := f[1], f[2]
		g := gx.New(L + 1 + k)
		for i := 0; i < L; i++ {
			g.Add(i, i+1)
		}
		for i := 0; i < k; i++ {
			g.Add(L, L+1+i)
		}
		pos := func(v int) (int, int) { // position on the path, 1 if a leaf beyond L
			if v <= L {
				return v, 0
			}
			return L, 1
		}
		return &hugeKnown{g: g, dist: func(i, j int) int {
			if i == j {
				return 0
			}
			a, x := pos(i)
			b, y := pos(j)
			return abs(a-b) + x + y
		}, gi: -1, comps: []int{g.N}, blocks: map[int]int{2: g.N - 1}, narts: L}
	case 4:
		L, c := f[1], f[2]
		g := gx.New(L + c)
		for i := 0; i < L; i++ {
			g.Add(i, i+1)
		}
		for i := L; i < L+c; i++ {
			for j := i + 1; j < L+c; j++ {
				g.Add(i, j)
			}
		}
		pos := func(v int) (int, int) {
			if v <= L {
				return v, 0
			}
			return L, 1
		}
		return &hugeKnown{g: g, dist: func(i, j int) int {
			if i == j {
				return 0
			}
			a, x := pos(i)
			b, y := pos(j)
			if x == 1 && y == 1 {
				return 1
			}
			return abs(a-b) + x + y
		}, gi: 3, comps: []int{g.N}, blocks: map[int]int{2: L, c: 1}, narts: L}
	case 5:
		a, b := f[1], f[2]
		g := gx.Union(gx.Path(a), gx.Path(b))
		comps := []int{a, b}
		if b < a {
			comps = []int{b, a}
		}
		return &hugeKnown{g: g, dist: func(i, j int) int {
			if (i < a) != (j < a) {
				return -1
			}
			return abs(i - j)
		}, gi: -1, comps: comps, blocks: map[int]int{2: a + b - 2}, narts: a - 2 + b - 2}
	case 6:
		k := f[1]
		g := gx.New(2 * k)
		for i := 0; i < k; i++ {
			g.Add(2*i, 2*i+1)
			if i+1 < k {
				g.Add(2*i, 2*i+2)
				g.Add(2*i+1, 2*i+3)
			}
		}
		return &hugeKnown{g: g, dist: func(i, j int) int {
			d := abs(i/2 - j/2)
			if i%2 != j%2 {
				d++
			}
			return d
		}, gi: 4, comps: []int{2 * k}, blocks: map[int]int{2 * k: 1}, narts: 0}
	}
	return nil
}

func execHuge(line string) hx.Result {
	k := strings.LastIndex(line, ";")
	head, tail := line[:k], line[k+1:]
	f := gx.ParseInts(head[1:strings.LastIndex(head, ",")])
	var viol []hx.OracleViolation
	kn := hugeFamily(f)
	if kn == nil {
		return hx.Result{Obs: "oracle-only"}
	}
	n := kn.g.N
	vars := [][2]int{}
	for _, t := range strings.Fields(tail) {
		if strings.HasPrefix(t, "W:") {
			if a := gx.ParseInts(t[2:]); len(a) == 2 && a[0] >= 0 && a[0] < len(allReps) {
				vars = append(vars, [2]int{a[0], a[1]})
			}
		}
	}
	if len(vars) == 0 { // sparse, identity (Neighbours of a dense graph is linear in n)
		vars = [][2]int{{strings.IndexByte(allReps, 's'), 0}}
	}
	// closed-form eccentricities, diameter, radius (base labels)
	connected := len(kn.comps) == 1
	ecc := make([]int, n)
	for v := 0; v < n; v++ {
		if !connected {
			ecc[v] = -1
			continue
		}
		for w := 0; w < n; w++ {
			if d := kn.dist(v, w); d > ecc[v] {
				ecc[v] = d
			}
		}
	}
	di, ra := diamOf(ecc, 1), diamOf(ecc, -1)
	for vi, v := range vars {
		rep := allReps[v[0]]
		perm := permOf(v[1], n)
		inv := gx.Inverse(perm)
		tag := fmt.Sprintf("%s:%c/%d", head, rep, v[1])
		fail := func(fn, format string, a ...interface{}) {
			viol = append(viol, hx.Fail("C10:huge:"+fn+":"+tag, "%s on %s: %s", fn, tag, fmt.Sprintf(format, a...)))
		}
		h := kn.g.Relabel(perm)
		g := buildAny(rep, kn.g, perm, nil)
		if !presents(g, h) {
			if rep == 'V' {
				fail("view", "a view over an edited base does not present the edited graph")
			}
			continue
		}
		// Distance: the extreme pairs and a sample (base labels s, t)
		pairs := [][2]int{{0, n - 1}, {n - 1, 0}, {0, n / 2}, {n / 2, n - 1}, {1, n - 2}, {0, 0}}
		r := hx.NewRng(uint64(1000*vi + n))
		for k := 0; k < 10; k++ {
			pairs = append(pairs, [2]int{r.Intn(n), r.Intn(n)})
		}
		for s := 0; s < n; s += 1 + n/7 { // far pairs of every residue
			pairs = append(pairs, [2]int{s, (s + 256) % n}, [2]int{s, (s + 255) % n}, [2]int{s, (s + 257) % n})
		}
		for _, p := range pairs {
			if got, want := graph.Distance(g, inv[p[0]], inv[p[1]]), kn.dist(p[0], p[1]); got != want {
				fail("Distance", "between the vertices %d and %d of the construction: got %d, by construction %d", p[0], p[1], got, want)
				break
			}
		}
		e := graph.Eccentricity(g)
		if len(e) != n {
			fail("Eccentricity", "length %d", len(e))
		} else {
			for b := 0; b < n; b++ {
				if e[inv[b]] != ecc[b] {
					fail("Eccentricity", "of vertex %d of the construction: got %d, by construction %d", b, e[inv[b]], ecc[b])
					break
				}
			}
		}
		if got := graph.Diameter(g); got != di {
			fail("Diameter", "got %d, by construction %d", got, di)
		}
		if got := graph.Radius(g); got != ra {
			fail("Radius", "got %d, by construction %d", got, ra)
		}
		if got := graph.Girth(g); got != kn.gi {
			fail("Girth", "got %d, by construction %d", got, kn.gi)
		}
		cs := graph.ConnectedComponents(g)
		sizes := []int{}
		total := 0
		for _, c := range cs {
			sizes = append(sizes, len(c))
			total += len(c)
		}
		sortInts(sizes)
		if fmt.Sprint(sizes) != fmt.Sprint(kn.comps) || total != n {
			fail("ConnectedComponents", "sizes %v, by construction %v", sizes, kn.comps)
		}
		for _, b := range []int{0, n / 2, n - 1} {
			c := graph.ConnectedComponent(g, inv[b])
			want := 0
			for w := 0; w < n; w++ {
				if kn.dist(b, w) >= 0 {
					want++
				}
			}
			ok := len(c) == want
			for _, x := range c {
				if kn.dist(b, perm[x]) < 0 {
					ok = false
				}
			}
			if !ok {
				fail("ConnectedComponent", "of vertex %d of the construction: %d vertices, by construction %d", b, len(c), want)
			}
		}
		bl, ar := graph.BiconnectedComponents(g)
		got := map[int]int{}
		for _, b := range bl {
			got[len(b)]++
		}
		if fmt.Sprint(got) != fmt.Sprint(kn.blocks) || len(ar) != kn.narts {
			fail("BiconnectedComponents", "blocks by size %v and %d articulation vertices, by construction %v and %d", got, len(ar), kn.blocks, kn.narts)
		}
		if !presents(g, h) {
			fail("argument", "the argument graph was modified by the calls")
		}
	}
	b := []string{"kind=huge", fmt.Sprintf("n<=%d", gx.Bucket(n)), fmt.Sprintf("family=%d", f[0])}
	return hx.Result{Obs: "oracle-only", Nontrivial: len(vars) >= 2, Buckets: b, Viol: viol}
}

func sortInts(a []int) {
	for i := 1; i < len(a); i++ {
		for j := i; j > 0 && a[j] < a[j-1]; j-- {
			a[j], a[j-1] = a[j-1], a[j]
		}
	}
}

func genHuge(g *hx.Gen) {
	r := g.Rng
	emit := func(f []int) {
		// sparse first (dense Neighbours is linear in n: the n BFS of Eccentricity and Girth
		// are cubic there), one more variant under a random relabelling
		reps := []int{strings.IndexByte(allReps, 's'), strings.IndexByte(allReps, 'T'), strings.IndexByte(allReps, 'U'), strings.IndexByte(allReps, 'P')}
		toks := []string{fmt.Sprintf("W:%d.%d", reps[0], 0), fmt.Sprintf("W:%d.%d", reps[r.Intn(len(reps))], 1+r.Intn(1<<30))}
		if f[1] <= 300 && r.Chance(1, 2) {
			toks = append(toks, fmt.Sprintf("W:%d.%d", strings.IndexByte(allReps, 'B'), 1+r.Intn(1<<30)))
		}
		g.Emit(fmt.Sprintf("!%s,3;%s", gx.JoinInts(f, "."), strings.Join(toks, " ")))
	}
	for _, n := range []int{255, 256, 257, 258, 300, 511, 513, 1025} {
		pick := func() bool { return g.Thorough() || r.Chance(1, 3) }
		emit([]int{1, n})
		if pick() {
			emit([]int{2, n})
		}
		if pick() {
			emit([]int{3, n - 1 - 5, 5})
		}
		if pick() {
			emit([]int{4, n - 6, 6})
		}
		if pick() {
			emit([]int{5, n/2 - 3, n - (n/2 - 3)})
		}
		if pick() {
			emit([]int{6, n / 2})
		}
		if n == 257 || n == 513 {
			emit([]int{2, 2 * n}) // antipodes at distance n
		}
	}
	g.Note("oracle-only large sparse graphs (255..1025 vertices; cycles up to 1026): paths, cycles, brooms, path + clique, two paths, ladders; closed-form answers")
}
