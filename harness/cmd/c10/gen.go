package main

import (
	"fmt"

	"verifharness/cmd/c09/gx"
	"verifharness/hx"
)

// level 1 = the extracted references recompute girth, blocks, articulation vertices and the
// three count vectors too (exponential enumerations: small graphs only).
func levelOf(g *gx.G) int {
	if g.N <= 7 {
		return 1
	}
	return 0
}

func permutations(n int, f func(p []int)) {
	p := gx.Identity(n)
	var rec func(k int)
	rec = func(k int) {
		if k == n {
			f(append([]int(nil), p...))
			return
		}
		for i := k; i < n; i++ {
			p[k], p[i] = p[i], p[k]
			rec(k + 1)
			p[k], p[i] = p[i], p[k]
		}
	}
	rec(0)
}

func gen(g *hx.Gen) {
	r := g.Rng
	all := gx.Reps
	emit := func(gr *gx.G, nvar int) {
		toks := gx.Variants(r, gr.N, nvar+1, all)[1:]
		// one or two of the further representations (prov.go) under random relabellings, and
		// for one case in four the hold / disturb / repeat sequence on one of the variants
		for k := 0; k < 1+r.Intn(2); k++ {
			p := r.Perm(gr.N)
			toks = append(toks, gx.TokString(extraReps[r.Intn(len(extraReps))], p))
		}
		if r.Chance(1, 4) {
			toks = append(toks, fmt.Sprintf("Z:%d", r.Intn(len(toks)+1)))
		}
		g.Emit(gx.CaseLine(gr, levelOf(gr), toks))
	}
	// the same graph under a random relabelling as the base graph of a second case: the model
	// line is computed for the base graph, so this puts random labellings (not only the
	// construction order of the families) in front of the extracted models
	emitRelabelled := func(gr *gx.G, nvar int) {
		if gr.N >= 2 {
			emit(gr.Relabel(r.Perm(gr.N)), nvar)
		}
	}
	// corpus: the two inputs on which NumberOfInducedPaths was wrong before /repo commit 5cef100
	// (one vertex: panic; the path on three vertices with bound 0: edges still counted)
	emit(gx.Empty(1), 8)
	emit(gx.Path(3), 8)
	// n <= 3: every labelled graph, every representation under every relabelling
	for n := 0; n <= 3; n++ {
		gx.AllLabelled(n, func(gr *gx.G) {
			var toks []string
			permutations(n, func(p []int) {
				for i := 0; i < len(all); i++ {
					toks = append(toks, gx.TokString(all[i], p))
				}
			})
			g.Emit(gx.CaseLine(gr, 1, toks))
		})
	}
	top := g.Pick(5, 5)
	for n := 4; n <= top; n++ {
		gx.AllLabelled(n, func(gr *gx.G) { emit(gr, g.Pick(5, 9)) })
	}
	g.Exhaustive(fmt.Sprintf("all labelled graphs with n <= %d vertices (all vertex pairs, all length bounds -2..n+2)", top))

	topc := g.Pick(7, 8)
	for n := 4; n <= topc; n++ {
		nv := g.Pick(5, 20)
		if n == 8 {
			nv = 8
		}
		for _, gr := range gx.IsoClasses(n) {
			emit(gr, nv)
			if n <= 6 || (n == 7 && (g.Thorough() || r.Chance(1, 3))) {
				emitRelabelled(gr, 3)
			}
		}
	}
	g.Exhaustive(fmt.Sprintf("one graph per isomorphism class with n <= %d vertices (brute-force canonical forms)", topc))

	fixed := []*gx.G{gx.Petersen(), gx.Cube(), gx.Complete(7), gx.Cycle(9), gx.Cycle(10), gx.Cycle(11), gx.Path(10), gx.Star(9),
		gx.Multipartite([]int{3, 3}), gx.Multipartite([]int{2, 2, 2}), gx.Multipartite([]int{2, 5}), gx.Wheel(7), gx.Ladder(4, true), gx.Ladder(5, false),
		gx.Union(gx.Cycle(5), gx.Complete(4)), gx.Union(gx.Petersen(), gx.Empty(1)), gx.Empty(9), gx.Friendship(4), gx.CycleSquare(8),
		gx.Theta(1, 2, 3), gx.Theta(0, 2, 2), gx.Bridge(gx.Cycle(4), 0, gx.Cycle(5), 2, 1), gx.GlueAt(gx.Complete(4), 1, gx.Cycle(5), 0),
		gx.Union(gx.Path(3), gx.Union(gx.Empty(2), gx.Cycle(3)))}
	for _, gr := range fixed {
		emit(gr, 8)
		emitRelabelled(gr, 4)
		emitRelabelled(gr, 4)
	}
	// even girth under random labellings (Girth finds even cycles through two different branches)
	for k := 2; k <= g.Pick(5, 6); k++ {
		for rep := 0; rep < g.Pick(4, 12); rep++ {
			emitRelabelled(gx.Cycle(2*k), 3)
			emitRelabelled(gx.Theta(k-1, k-1, k+1), 3)
			emitRelabelled(gx.Ladder(k+1, false), 3)
		}
	}
	emitRelabelled(gx.Cube(), 4)
	emitRelabelled(gx.Multipartite([]int{3, 3}), 4)
	emitRelabelled(gx.Multipartite([]int{2, 5}), 4)

	genBig(g)
	genHuge(g)

	maxN := g.Pick(10, 11)
	count := g.Pick(900, 14000)
	dens := [][2]int{{1, 6}, {1, 4}, {1, 3}, {1, 2}, {2, 3}, {5, 6}}
	for i := 0; i < count; i++ {
		var gr *gx.G
		switch r.Intn(12) {
		case 0, 1, 2:
			d := dens[r.Intn(len(dens))]
			gr = gx.Random(r, r.Range(5, maxN), d[0], d[1])
		case 3, 4:
			gr = gx.RandomTree(r, r.Range(2, maxN))
		case 5, 6:
			gr = gx.RandomCactus(r, r.Range(3, maxN))
		case 7, 8:
			gr = gx.RandomBlocky(r, r.Range(3, maxN))
		case 9:
			gr = gx.ManyShortCycles(r, maxN)
		case 10:
			gr = gx.RandomMultipartite(r, maxN)
		default:
			a := gx.RandomCactus(r, r.Range(1, maxN/2))
			b := gx.ManyShortCycles(r, maxN-a.N)
			gr = gx.Union(a, b)
		}
		if r.Chance(1, 2) {
			emitRelabelled(gr, g.Pick(4, 6))
		} else {
			emit(gr, g.Pick(4, 6))
		}
	}
}
