package main

// Large graphs (17 .. 130 vertices, level 2): the second case kind
//
//	#<n>:<a>-<b>.<a>-<b>...,2;<tokens>
//
// tokens:  K:<cy>.<icb>.<ipb>   NumberOfCycles called (1) or not (0); the bounds of
//	                          NumberOfInducedCycles / NumberOfInducedPaths (-9 = not called)
//	        W:<rep>.<seed>       a variant: representation (index into allReps) under the
//	                          relabelling drawn from <seed> (0 = identity)
//	        F:<family>.<params>  construction-known answers checked by the harness
//	        Z:<k>                hold results / disturb / repeat (prov.go) on variant k
//
// The line (model side: the extracted models of the Go functions, polynomial on these inputs):
// n m Dp(distances of a fixed sample of pairs) ec di ra cc cvp(ConnectedComponent of three
// vertices) gm bl ar cy ic ip.  Diameter / Radius are compared with the models up to 70 vertices
// and with Eccentricity (two entry points) above.

import (
	"fmt"
	"sort"
	"strconv"
	"strings"

	"github.com/Tom-Johnston/mamba/graph"
	"verifharness/cmd/c09/gx"
	"verifharness/hx"
)

const allReps = gx.Reps + extraReps

type bigCase struct {
	head  string
	n     int
	base  *gx.G
	cy    bool
	icb   int
	ipb   int
	vars  [][2]int // rep index, seed
	fam   []int
	zmode []int
}

func edgeHeader(h *gx.G) string {
	var sb strings.Builder
	fmt.Fprintf(&sb, "#%d:", h.N)
	first := true
	for j := 1; j < h.N; j++ {
		for i := 0; i < j; i++ {
			if h.A[i][j] {
				if !first {
					sb.WriteByte('.')
				}
				first = false
				fmt.Fprintf(&sb, "%d-%d", i, j)
			}
		}
	}
	return sb.String()
}

func parseBig(line string) bigCase {
	k := strings.LastIndex(line, ";")
	head, tail := line[:k], line[k+1:]
	c := bigCase{head: head, icb: 3, ipb: 2}
	hp := strings.LastIndex(head, ",")
	spec := head[1:hp]
	cp := strings.Index(spec, ":")
	c.n, _ = strconv.Atoi(spec[:cp])
	c.base = gx.New(c.n)
	for _, e := range strings.Split(spec[cp+1:], ".") {
		if e == "" {
			continue
		}
		d := strings.Index(e, "-")
		u, _ := strconv.Atoi(e[:d])
		v, _ := strconv.Atoi(e[d+1:])
		c.base.Add(u, v)
	}
	for _, t := range strings.Fields(tail) {
		if len(t) < 2 || t[1] != ':' {
			continue
		}
		a := gx.ParseInts(t[2:])
		switch t[0] {
		case 'K':
			if len(a) == 3 {
				c.cy, c.icb, c.ipb = a[0] == 1, a[1], a[2]
			}
		case 'W':
			if len(a) == 2 && a[0] >= 0 && a[0] < len(allReps) {
				c.vars = append(c.vars, [2]int{a[0], a[1]})
			}
		case 'F':
			c.fam = a
		case 'Z':
			c.zmode = append(c.zmode, a...)
		}
	}
	return c
}

func permOf(seed, n int) []int {
	if seed == 0 {
		return gx.Identity(n)
	}
	return hx.NewRng(uint64(seed)).Perm(n)
}

// bigObs: the observed values in base labels.
type bigObs struct {
	n, m       int
	dp, ec     []int
	di, ra, gm int
	cc, cvp    [][]int
	bl         [][]int
	ar         []int
	cy, ic, ip []int
}

func vec(a []int) string {
	if a == nil {
		return "-"
	}
	return gx.JoinInts(a, ".")
}

func (o *bigObs) line(c *bigCase) string {
	di, ra := "-", "-"
	if o.n <= 70 {
		di, ra = strconv.Itoa(o.di), strconv.Itoa(o.ra)
	}
	cy, ic, ip := "-", "-", "-"
	if c.cy {
		cy = vec(o.cy)
	}
	if c.icb != skip {
		ic = fmt.Sprintf("%d:%s", c.icb, vec(o.ic))
	}
	if c.ipb != skip {
		ip = fmt.Sprintf("%d:%s", c.ipb, vec(o.ip))
	}
	return fmt.Sprintf("n=%d m=%d Dp=%s ec=%s di=%s ra=%s cc=%s cvp=%s gm=%d bl=%s ar=%s cy=%s ic=%s ip=%s",
		o.n, o.m, gx.JoinInts(o.dp, "."), gx.JoinInts(o.ec, "."), di, ra, lists(o.cc), lists(o.cvp), o.gm,
		lists(o.bl), gx.JoinInts(o.ar, "."), cy, ic, ip)
}

// full includes Diameter / Radius at every size (for the comparison between variants).
func (o *bigObs) full(c *bigCase) string { return fmt.Sprintf("%s di=%d ra=%d", o.line(c), o.di, o.ra) }

func (c *bigCase) opts(perm []int, order int, twice bool) callOpts {
	inv := gx.Inverse(perm)
	o := callOpts{cy: c.cy, icb: c.icb, ipb: c.ipb, order: order, twice: twice}
	for _, p := range samplePairs(c.n) {
		o.pairs = append(o.pairs, [2]int{inv[p[0]], inv[p[1]]})
	}
	for _, v := range sampleCvs(c.n) {
		o.cvs = append(o.cvs, inv[v])
	}
	return o
}

func mapBackLists(perm []int, l [][]int) [][]int {
	out := [][]int{}
	for _, x := range l {
		out = append(out, gx.MapBack(perm, x))
	}
	return out
}

func toBase(r *raw, g graph.Graph, perm []int) *bigObs {
	inv := gx.Inverse(perm)
	o := &bigObs{n: g.N(), m: g.M(), dp: r.dist, di: r.di, ra: r.ra, gm: r.gi, cy: r.cy, ic: r.ic, ip: r.ip}
	o.ec = make([]int, len(perm))
	if len(r.ecc) == len(perm) {
		for i := range o.ec {
			o.ec[i] = r.ecc[inv[i]]
		}
	} else {
		o.ec = append([]int{-99}, r.ecc...)
	}
	o.cc = mapBackLists(perm, r.comps)
	gx.SortLists(o.cc)
	o.cvp = mapBackLists(perm, r.cv)
	o.bl = mapBackLists(perm, r.blocks)
	gx.SortLists(o.bl)
	o.ar = gx.MapBack(perm, r.arts)
	return o
}

func execBig(line string) hx.Result {
	c := parseBig(line)
	var viol []hx.OracleViolation
	fail := func(key, format string, a ...interface{}) {
		viol = append(viol, hx.Fail("C10:big:"+key+":"+shortKey(c.head), "%s: %s", shortKey(c.head), fmt.Sprintf(format, a...)))
	}
	vars := append([][2]int{{0, 0}}, c.vars...)
	var skippedBig []string
	var first *bigObs
	skipped := 0
	for vi, v := range vars {
		rep := allReps[v[0]]
		perm := permOf(v[1], c.n)
		h := c.base.Relabel(perm)
		tag := fmt.Sprintf("%c/%d", rep, v[1])
		o := c.opts(perm, vi, vi%3 == 2)
		warm := func(x graph.Graph) { callAll(x, o) }
		g := buildAny(rep, c.base, perm, warm)
		if !presents(g, h) {
			if rep == 'V' {
				fail("view:"+tag, "variant %s: a view built over a graph that was edited afterwards does not present the edited graph", tag)
			}
			// otherwise not this property's business (C05/C06); counted in the buckets
			skipped++
			skippedBig = append(skippedBig, string(rep))
			continue
		}
		if o.cy && !editableRep(rep) {
			o.cy = false
		}
		r := callAll(g, o)
		if len(r.unstable) > 0 {
			fail("twice:"+tag, "variant %s: two consecutive calls of %v returned different values", tag, r.unstable)
		}
		for _, z := range c.zmode {
			if z == vi {
				disturb(g, h, o, "big:"+shortKey(c.head)+":"+tag, &viol)
			}
		}
		if !presents(g, h) {
			fail("modified:"+tag, "variant %s: the argument graph was modified by the calls", tag)
		}
		ob := toBase(r, g, perm)
		if !o.cy {
			ob.cy = nil
		}
		// two entry points: Diameter / Radius against Eccentricity
		if want := diamOf(ob.ec, 1); ob.di != want {
			fail("diameter:"+tag, "variant %s: Diameter = %d but Eccentricity gives %d", tag, ob.di, want)
		}
		if want := diamOf(ob.ec, -1); ob.ra != want {
			fail("radius:"+tag, "variant %s: Radius = %d but Eccentricity gives %d", tag, ob.ra, want)
		}
		for _, b := range r.blocks {
			if !sort.IntsAreSorted(b) {
				fail("blocksorted:"+tag, "variant %s: block %v is not sorted", tag, b)
			}
		}
		if first == nil {
			first = ob
			if len(c.fam) > 0 {
				for _, msg := range checkKnown(&c, ob) {
					fail("known", "family %v: %s", c.fam, msg)
				}
			}
			continue
		}
		got, want := ob.full(&c), first.full(&c)
		if ob.cy == nil || first.cy == nil {
			got, want = stripCy(got), stripCy(want)
		}
		if got != want {
			fail("variant:"+tag, "variant %s differs from dense/identity: got [%s] want [%s]", tag, clip(got), clip(want))
		}
	}
	if first == nil {
		return hx.Result{Obs: "skipped", Buckets: []string{"kind=big"}}
	}
	nb := len(first.bl)
	b := []string{"kind=big", fmt.Sprintf("n<=%d", gx.Bucket(c.n)), fmt.Sprintf("components<=%d", gx.Bucket(len(first.cc))), fmt.Sprintf("blocks<=%d", gx.Bucket(nb)),
		fmt.Sprintf("girth=%d", first.gm), fmt.Sprintf("variants=%d", len(vars)-skipped)}
	for _, r := range skippedBig {
		b = append(b, "guard-failed-rep="+r)
	}
	nontrivial := len(vars)-skipped >= 2 && (len(first.cc) > 1 || nb > 1 || first.gm > 0)
	return hx.Result{Obs: first.line(&c), Nontrivial: nontrivial, Buckets: b, Viol: viol}
}

func stripCy(s string) string {
	i := strings.Index(s, " cy=")
	j := strings.Index(s, " ic=")
	if i < 0 || j < i {
		return s
	}
	return s[:i] + s[j:]
}

func clip(s string) string {
	if len(s) > 600 {
		return s[:600] + "..."
	}
	return s
}

func shortKey(head string) string {
	if len(head) <= 60 {
		return head
	}
	sum := 0
	for i := 0; i < len(head); i++ {
		sum = (sum*131 + int(head[i])) % 1000003
	}
	return fmt.Sprintf("%s~%d", head[:40], sum)
}

// diamOf: Diameter (sign 1) / Radius (sign -1) as the documentation derives them from the
// eccentricities: 0 without vertices, -1 when an entry is -1.
func diamOf(ecc []int, sign int) int {
	if len(ecc) == 0 {
		return 0
	}
	best := ecc[0]
	for _, e := range ecc {
		if e == -1 {
			return -1
		}
		if sign*e > sign*best {
			best = e
		}
	}
	return best
}

// ---------------------------------------------------------------- construction-known answers

type known struct {
	di, ra, gi, ncomp, nart int // unknown = -7
	blocks                  map[int]int
	cy                      map[int]int // complete: every other length 0
	ic, ip                  map[int]int // complete up to icTo / ipTo
	icTo, ipTo              int
}

const unk = -7

func newKnown() *known {
	return &known{di: unk, ra: unk, gi: unk, ncomp: unk, nart: unk, icTo: -1, ipTo: -1}
}

func choose2(d int) int { return d * (d - 1) / 2 }

// familyGraph builds the graph of a family in its construction order together with its known
// answers.  1 cycle(n) 2 path(n) 3 star(n) 4 empty(n) 5 grid(a,b) 6 necklace(k,l) 7 chain of
// K4(k) 8 union of cycles(l1..lk) + r isolated vertices (params r,l1..lk) 9 hypercube(k)
// 10 wheel(n) 11 lollipop(c,t) 12 caterpillar(s,l): spine s, l leaves at every spine vertex.
func familyGraph(f []int) (*gx.G, *known) {
	k := newKnown()
	switch f[0] {
	case 1:
		n := f[1]
		k.di, k.ra, k.gi, k.ncomp, k.nart = n/2, n/2, n, 1, 0
		k.blocks = map[int]int{n: 1}
		k.cy = map[int]int{n: 1}
		k.ic, k.icTo = map[int]int{n: 1}, n
		k.ip, k.ipTo = map[int]int{0: n}, n-1
		for l := 1; l <= n-2; l++ {
			k.ip[l] = n
		}
		return gx.Cycle(n), k
	case 2:
		n := f[1]
		k.di, k.ra, k.gi, k.ncomp, k.nart = n-1, n/2, -1, 1, n-2
		k.blocks = map[int]int{2: n - 1}
		k.cy = map[int]int{}
		k.ic, k.icTo = map[int]int{}, n
		k.ip, k.ipTo = map[int]int{}, n-1
		for l := 0; l <= n-1; l++ {
			k.ip[l] = n - l
		}
		return gx.Path(n), k
	case 3:
		n := f[1]
		k.di, k.ra, k.gi, k.ncomp, k.nart = 2, 1, -1, 1, 1
		k.blocks = map[int]int{2: n - 1}
		k.cy = map[int]int{}
		k.ic, k.icTo = map[int]int{}, n
		k.ip, k.ipTo = map[int]int{0: n, 1: n - 1, 2: choose2(n - 1)}, n-1
		return gx.Star(n), k
	case 4:
		n := f[1]
		k.di, k.ra, k.gi, k.ncomp, k.nart = -1, -1, -1, n, 0
		k.blocks = map[int]int{1: n}
		k.cy = map[int]int{}
		k.ic, k.icTo = map[int]int{}, n
		k.ip, k.ipTo = map[int]int{0: n}, n-1
		return gx.Empty(n), k
	case 5:
		a, b := f[1], f[2]
		g := gx.New(a * b)
		for i := 0; i < a; i++ {
			for j := 0; j < b; j++ {
				if j+1 < b {
					g.Add(i*b+j, i*b+j+1)
				}
				if i+1 < a {
					g.Add(i*b+j, (i+1)*b+j)
				}
			}
		}
		k.di, k.ra, k.gi, k.ncomp, k.nart = a+b-2, a/2+b/2, 4, 1, 0
		k.blocks = map[int]int{a * b: 1}
		k.ic, k.icTo = map[int]int{4: (a - 1) * (b - 1)}, 4
		p2 := 0
		for v := 0; v < g.N; v++ {
			p2 += choose2(g.Deg(v))
		}
		k.ip, k.ipTo = map[int]int{0: a * b, 1: g.M(), 2: p2}, 2
		return g, k
	case 6:
		cnt, l := f[1], f[2]
		g := gx.Cycle(l)
		for i := 1; i < cnt; i++ {
			g = gx.GlueAt(g, g.N-1, gx.Cycle(l), 0)
		}
		k.gi, k.ncomp, k.nart = l, 1, cnt-1
		k.blocks = map[int]int{l: cnt}
		k.cy = map[int]int{l: cnt}
		k.ic, k.icTo = map[int]int{l: cnt}, g.N
		return g, k
	case 7:
		cnt := f[1]
		g := gx.Complete(4)
		for i := 1; i < cnt; i++ {
			g = gx.GlueAt(g, g.N-1, gx.Complete(4), 0)
		}
		k.gi, k.ncomp, k.nart = 3, 1, cnt-1
		k.blocks = map[int]int{4: cnt}
		k.cy = map[int]int{3: 4 * cnt, 4: 3 * cnt}
		k.ic, k.icTo = map[int]int{3: 4 * cnt}, g.N
		return g, k
	case 8:
		r := f[1]
		g := gx.Empty(r)
		k.gi, k.nart = -1, 0
		k.blocks = map[int]int{}
		if r > 0 {
			k.blocks[1] = r
		}
		k.cy = map[int]int{}
		for _, l := range f[2:] {
			g = gx.Union(g, gx.Cycle(l))
			k.blocks[l]++
			k.cy[l]++
			if k.gi < 0 || l < k.gi {
				k.gi = l
			}
		}
		k.ncomp = r + len(f) - 2
		if k.ncomp >= 2 {
			k.di, k.ra = -1, -1
		}
		k.ic, k.icTo = map[int]int{}, g.N
		for l, c := range k.cy {
			k.ic[l] = c
		}
		return g, k
	case 9:
		d := f[1]
		n := 1 << uint(d)
		g := gx.New(n)
		for v := 0; v < n; v++ {
			for b := 0; b < d; b++ {
				g.Add(v, v^(1<<uint(b)))
			}
		}
		k.di, k.ra, k.gi, k.ncomp, k.nart = d, d, 4, 1, 0
		k.blocks = map[int]int{n: 1}
		k.ic, k.icTo = map[int]int{4: choose2(d) * (n / 4)}, 4
		k.ip, k.ipTo = map[int]int{0: n, 1: n * d / 2, 2: n * choose2(d)}, 2
		return g, k
	case 10:
		n := f[1]
		k.di, k.ra, k.gi, k.ncomp, k.nart = 2, 1, 3, 1, 0
		k.blocks = map[int]int{n: 1}
		k.ic, k.icTo = map[int]int{3: n - 1, n - 1: 1}, n
		return gx.Wheel(n), k
	case 11:
		cl, t := f[1], f[2]
		g := gx.Complete(cl)
		for i := 0; i < t; i++ {
			g = gx.GlueAt(g, g.N-1, gx.Path(2), 0)
		}
		k.di, k.gi, k.ncomp, k.nart = t+1, 3, 1, t
		k.blocks = map[int]int{cl: 1, 2: t}
		k.ic, k.icTo = map[int]int{3: cl * (cl - 1) * (cl - 2) / 6}, g.N
		return g, k
	case 12:
		s, l := f[1], f[2]
		g := gx.Path(s)
		for v := 0; v < s; v++ {
			for i := 0; i < l; i++ {
				g = gx.GlueAt(g, v, gx.Path(2), 0)
			}
		}
		k.gi, k.ncomp, k.nart = -1, 1, s
		k.blocks = map[int]int{2: g.N - 1}
		k.cy = map[int]int{}
		k.ic, k.icTo = map[int]int{}, g.N
		k.di = s + 1
		return g, k
	}
	return nil, nil
}

func checkKnown(c *bigCase, o *bigObs) []string {
	_, k := familyGraph(c.fam)
	if k == nil {
		return nil
	}
	var msgs []string
	num := func(name string, got, want int) {
		if want != unk && got != want {
			msgs = append(msgs, fmt.Sprintf("%s = %d, by construction %d", name, got, want))
		}
	}
	num("Diameter", o.di, k.di)
	num("Radius", o.ra, k.ra)
	num("Girth", o.gm, k.gi)
	num("number of components", len(o.cc), k.ncomp)
	num("number of articulation vertices", len(o.ar), k.nart)
	if k.blocks != nil {
		got := map[int]int{}
		for _, b := range o.bl {
			got[len(b)]++
		}
		if fmt.Sprint(got) != fmt.Sprint(k.blocks) {
			msgs = append(msgs, fmt.Sprintf("blocks by size %v, by construction %v", got, k.blocks))
		}
	}
	vecCheck := func(name string, got []int, want map[int]int, upTo, bound, top int) {
		if got == nil || want == nil {
			return
		}
		if bound < 0 || bound > top {
			bound = top
		}
		for l, x := range got {
			w := want[l]
			if l > bound {
				w = 0
			} else if l > upTo {
				continue
			}
			if x != w {
				msgs = append(msgs, fmt.Sprintf("%s[%d] = %d, by construction %d", name, l, x, w))
			}
		}
	}
	if k.cy != nil {
		vecCheck("NumberOfCycles", o.cy, k.cy, o.n, -1, o.n)
	}
	vecCheck("NumberOfInducedCycles", o.ic, k.ic, k.icTo, c.icb, o.n)
	vecCheck("NumberOfInducedPaths", o.ip, k.ip, k.ipTo, c.ipb, o.n-1)
	return msgs
}

// ---------------------------------------------------------------- generation

func emitBig(g *hx.Gen, h *gx.G, fam []int, cy bool, icb, ipb int, relabel bool, nvar int, zmode bool) {
	r := g.Rng
	if relabel && h.N >= 2 {
		h = h.Relabel(r.Perm(h.N))
	}
	toks := []string{fmt.Sprintf("K:%d.%d.%d", b2i(cy), icb, ipb)}
	if len(fam) > 0 {
		toks = append(toks, "F:"+gx.JoinInts(fam, "."))
	}
	start := r.Intn(len(allReps))
	for i := 0; i < nvar; i++ {
		seed := 0
		if !r.Chance(1, 5) {
			seed = 1 + r.Intn(1<<30)
		}
		toks = append(toks, fmt.Sprintf("W:%d.%d", (start+i*7)%len(allReps), seed))
	}
	if zmode {
		toks = append(toks, fmt.Sprintf("Z:%d", r.Intn(nvar+1)))
	}
	g.Emit(fmt.Sprintf("%s,2;%s", edgeHeader(h), strings.Join(toks, " ")))
}

func b2i(b bool) int {
	if b {
		return 1
	}
	return 0
}

// sparseRandom: a random tree plus extra edges (cyclomatic number <= extra).
func sparseRandom(r *hx.Rng, n, extra int) *gx.G {
	h := gx.RandomTree(r, n)
	for i := 0; i < extra; i++ {
		h.Add(r.Intn(n), r.Intn(n))
	}
	return h
}

func genBig(g *hx.Gen) {
	r := g.Rng
	// sizes just below / at / above 16, 32, 64 and 128 (and 70)
	sizes := []int{15, 16, 17, 31, 32, 33, 63, 64, 65, 70}
	top := []int{127, 128, 129, 130}
	if !g.Thorough() {
		// always one size above 128, and one of the others
		top = []int{129, []int{127, 128, 130}[r.Intn(3)]}
	}
	fam := func(f []int, cy bool, icb, ipb int) {
		h, _ := familyGraph(f)
		if h == nil {
			return
		}
		// the extracted models of the two searches are slow in the driver: unbounded searches
		// up to 33 vertices only, small bounds above
		if h.N > 33 {
			if icb == -1 || icb > 4 {
				icb = 4
			}
			if ipb == -1 || ipb > 3 {
				ipb = 3
			}
		}
		if h.N > 70 {
			if icb > 3 {
				icb = 3
			}
			if ipb > 2 {
				ipb = 2
			}
		}
		emitBig(g, h, f, cy, icb, ipb, r.Chance(2, 3), g.Pick(2, 4), r.Chance(1, 3))
	}
	for _, n := range append(sizes, top...) {
		pick := func(k int) bool {
			if n > 70 {
				return g.Thorough() || r.Intn(4) == k%4
			}
			return g.Thorough() || r.Intn(3) == k%3
		}
		if pick(0) || n == 129 {
			fam([]int{1, n}, true, -1, -1)
		}
		if pick(1) {
			fam([]int{2, n}, true, -1, -1)
		}
		if pick(2) {
			fam([]int{3, n}, true, 3, 2)
		}
		if pick(0) {
			fam([]int{4, n}, true, -1, -1)
		}
		if pick(1) {
			fam([]int{10, n}, false, -1, 2)
		}
		if pick(2) {
			fam([]int{11, 6 + n%3, n - 6 - n%3}, false, 3, 2) // K6..K8: too many cycles for NumberOfCycles
		}
		if pick(0) {
			l := 3 + n%4
			fam([]int{6, (n - 1) / (l - 1), l}, true, -1, 2)
		}
		if pick(1) {
			fam([]int{7, (n - 1) / 3}, true, 4, 2)
		}
		if pick(2) {
			// isolated vertices + four cycles of different lengths using all n vertices
			iso, c1, c2 := n%5, 3, 4+n%3
			rest := n - iso - c1 - c2
			fam([]int{8, iso, c1, c2, rest / 2, rest - rest/2}, true, -1, 2)
		}
		if pick(0) {
			fam([]int{12, n / 3, 2}, true, 3, 2)
		}
		// no construction-known answers: sparse random graphs (models and variants only)
		if pick(1) {
			emitBig(g, sparseRandom(r, n, 4), nil, true, 4, 2, false, g.Pick(2, 4), r.Chance(1, 3))
		}
		if pick(2) {
			emitBig(g, gx.Union(sparseRandom(r, n-n/4, 3), gx.Union(gx.Empty(2), sparseRandom(r, n/4-2, 2))), nil, true, 3, 2, true, g.Pick(2, 3), false)
		}
	}
	// ---- the dense regime at the same sizes: complements of the sparse families and extremal
	// graphs at the edge-count thresholds of the classical "must be connected / must contain a
	// cycle / must be 2-connected" bounds: K_{n-1}+K_1 (the densest disconnected graph), K_n minus
	// an edge, K_n minus a star (a pendant vertex on K_{n-1}), K_{n-2}+K_2, K_a+K_b, complete
	// bipartite and its complement, complements of path / cycle / perfect matching / star.  The
	// cycle and induced-path counts explode here, so only the bounded ones are called
	// (NumberOfCycles not at all; induced cycles up to 3, induced paths up to 1).
	denseSizes := []int{15, 16, 17, 18, 31, 32, 33}
	if g.Thorough() {
		denseSizes = append(denseSizes, 20, 24, 47, 48, 63, 64, 65)
	}
	for _, n := range denseSizes {
		plus := func(a, b *gx.G) *gx.G { return gx.Union(a, b) }
		minusStar := gx.Complete(n - 1)
		pend := plus(minusStar, gx.Empty(1))
		pend.Add(n-1, r.Intn(n-1))
		kme := gx.Complete(n).Complement() // empty
		kme.Add(r.Intn(n/2), n/2+r.Intn(n-n/2))
		match := gx.Empty(n)
		for i := 0; i+1 < n; i += 2 {
			match.Add(i, i+1)
		}
		a := 2 + r.Intn(n-3)
		list := []*gx.G{
			plus(gx.Complete(n-1), gx.Empty(1)),
			pend,
			kme.Complement(),
			plus(gx.Complete(n-2), gx.Complete(2)),
			plus(gx.Complete(a), gx.Complete(n-a)),
			gx.Multipartite([]int{a, n - a}),
			gx.Multipartite([]int{1, 1, n - 2}),
			gx.Path(n).Complement(),
			gx.Cycle(n).Complement(),
			match.Complement(),
			gx.Star(n).Complement(),
			gx.Complete(n),
		}
		for i, h := range list {
			if !g.Thorough() && i >= 4 && r.Intn(3) != 0 {
				continue
			}
			emitBig(g, h, nil, false, 3, 1, true, 2, false)
		}
	}
	g.Note("dense regime: K_{n-1}+K_1, pendant on K_{n-1}, K_n-e, K_{n-2}+K_2, K_a+K_b, complete bi/tripartite, complements of path/cycle/matching/star, K_n at n = 15..18, 31..33 (thorough to 65)")
	// grids and hypercubes at the thresholds
	for _, ab := range [][2]int{{4, 4}, {4, 8}, {3, 11}, {8, 8}, {5, 13}, {7, 10}} {
		fam([]int{5, ab[0], ab[1]}, false, 4, 2)
	}
	fam([]int{9, 4}, false, 4, 2)
	fam([]int{9, 5}, false, 4, 2)
	fam([]int{9, 6}, false, 4, 2)
	if g.Thorough() {
		fam([]int{9, 7}, false, 4, 2)
		fam([]int{5, 10, 13}, false, 4, 2)
		fam([]int{5, 2, 65}, false, 4, 2)
	} else if r.Chance(1, 2) {
		fam([]int{5, 10, 13}, false, 3, 2)
	}
	g.Note("large graphs: sizes 15..17, 31..33, 63..65, 70, 127..130 (families with construction-known answers, sparse random graphs), all representations incl. decoder outputs, edit histories, views over edited bases")
}
