// Command c10 runs the distance / connectivity / cycle-structure functions of the graph
// package on a graph held in several representations under several relabellings, compares
// every value with brute-force references written here and prints the determined values in a
// relabelling-independent form (C10).
//
// Case:  <graph6>,<level>;<rep>:<perm> ...   (the variant d:identity is always run first)
//
// Observation (projected): n m D(all-pairs Distance) ec di ra cc(components), and at level 1
// also gi(girth) bl(blocks) ar(articulation vertices) cy(cycles per length) ic(induced cycles
// per length) ip(induced paths per length).  ConnectedComponent(v) for every v and the
// length-bounded counts for every bound -1..n+1 are checked against the references inside Exec.
package main

import (
	"fmt"
	"sort"
	"strings"
	"time"

	"github.com/Tom-Johnston/mamba/graph"
	"verifharness/cmd/c09/gx"
	"verifharness/hx"
)

// NumberOfCycles combines all subsets of fundamental cycles: it is only called when the
// cyclomatic number m - n + c is at most this.
const maxCyclomatic = 12

// representations whose guard failed in this case (reported in the buckets)
var skippedReps []string

type fields struct {
	n, m                       int
	dist                       string
	ec                         string
	di, ra, gi                 int
	cc, cv, bl, ar, cy, ic, ip string
	icb, ipb                   string // the two bounded counts for every bound -2..n+2
}

func (f fields) line(level int) string {
	// gm = Girth at every level (the model of Girth is proved exact: Props/C10_cycles.v)
	s := fmt.Sprintf("n=%d m=%d D=%s ec=%s di=%d ra=%d cc=%s cv=%s gm=%d", f.n, f.m, f.dist, f.ec, f.di, f.ra, f.cc, f.cv, f.gi)
	if level >= 1 {
		s += fmt.Sprintf(" gi=%d bl=%s ar=%s cy=%s ic=%s ip=%s icb=%s ipb=%s", f.gi, f.bl, f.ar, f.cy, f.ic, f.ip, f.icb, f.ipb)
	}
	return s
}

func matrix(d [][]int) string {
	rows := make([]string, len(d))
	for i, r := range d {
		rows[i] = gx.JoinInts(r, ".")
	}
	return strings.Join(rows, "/")
}

func lists(l [][]int) string { return fmt.Sprintf("%d:%s", len(l), gx.Lists(l)) }

// indexOfComponent: for every vertex v the position in all (sorted list of components) of the
// component that contains v (-1 if none).
func indexOfComponent(all [][]int, n int) []int {
	idx := make([]int, n)
	for v := 0; v < n; v++ {
		idx[v] = -1
		for k, c := range all {
			for _, x := range c {
				if x == v {
					idx[v] = k
				}
			}
		}
	}
	return idx
}

type refData struct {
	f                  fields
	comps              [][]int
	cyc, icyc, ipaths  []int
	cyclomatic, ncomps int
}

func reference(g *gx.G) refData {
	var r refData
	f := fields{n: g.N, m: g.M()}
	d := refDistances(g)
	f.dist = matrix(d)
	ecc := make([]int, g.N)
	connected := true
	for i := range ecc {
		for _, x := range d[i] {
			if x < 0 {
				connected = false
			}
			if x > ecc[i] {
				ecc[i] = x
			}
		}
	}
	// documented conventions: every entry -1 when the graph is disconnected; diameter and
	// radius -1 when disconnected, 0 for the graph without vertices
	f.di, f.ra = 0, 0
	if !connected {
		for i := range ecc {
			ecc[i] = -1
		}
		f.di, f.ra = -1, -1
	} else if g.N > 0 {
		f.di, f.ra = ecc[0], ecc[0]
		for _, e := range ecc {
			if e > f.di {
				f.di = e
			}
			if e < f.ra {
				f.ra = e
			}
		}
	}
	f.ec = gx.JoinInts(ecc, ".")
	r.comps = refComponents(g)
	r.ncomps = len(r.comps)
	f.cc = lists(r.comps)
	f.cv = gx.JoinInts(indexOfComponent(r.comps, g.N), ".")
	f.bl = lists(refBlocks(g))
	f.ar = gx.JoinInts(refArticulation(g), ".")
	r.cyclomatic = f.m - g.N + r.ncomps
	r.cyc = refCycles(g)
	r.icyc, r.ipaths = refInduced(g)
	f.cy = gx.JoinInts(r.cyc, ".")
	f.ic = gx.JoinInts(r.icyc, ".")
	f.ip = gx.JoinInts(r.ipaths, ".")
	f.gi = refGirth(g)
	var icb, ipb []string
	for ml := -2; ml <= g.N+2; ml++ {
		icb = append(icb, gx.JoinInts(bounded(r.icyc, ml, g.N), "."))
		ipb = append(ipb, gx.JoinInts(bounded(r.ipaths, ml, g.N-1), "."))
	}
	f.icb, f.ipb = strings.Join(icb, "/"), strings.Join(ipb, "/")
	// the references must agree with each other: girth = least length with a cycle = least
	// length with an induced cycle; triangles are induced
	least := func(c []int) int {
		for l, x := range c {
			if x > 0 {
				return l
			}
		}
		return -1
	}
	if least(r.cyc) != f.gi || least(r.icyc) != f.gi || (g.N >= 3 && r.cyc[3] != r.icyc[3]) {
		panic("harness references disagree with each other on the girth")
	}
	r.f = f
	return r
}

// bounded gives the documented result of a length-bounded count: full[L] for L <= the
// effective bound, 0 above (the effective bound is top when maxLength is negative or > top).
func bounded(full []int, maxLength, top int) []int {
	if maxLength < 0 || maxLength > top {
		maxLength = top
	}
	r := make([]int, len(full))
	for l := range full {
		if l <= maxLength {
			r[l] = full[l]
		}
	}
	return r
}

func observe(g6 string, base *gx.G, v gx.Variant, ref refData, zmode int, viol *[]hx.OracleViolation) (fields, bool) {
	n := base.N
	tag := fmt.Sprintf("%c:%s", v.Rep, gx.JoinInts(v.Perm, "."))
	fail := func(fn, format string, a ...interface{}) {
		*viol = append(*viol, hx.Fail("C10:"+fn+":"+g6+":"+tag, "%s on %s variant %s: %s", fn, g6, tag, fmt.Sprintf(format, a...)))
	}
	inv := gx.Inverse(v.Perm)
	zo := callOpts{pairs: samplePairs(n), cvs: sampleCvs(n), cy: ref.cyclomatic <= maxCyclomatic && editableRep(v.Rep), icb: -1, ipb: -1, order: zmode + 1, twice: true}
	if n > 8 {
		zo.icb, zo.ipb = 4, 3
	}
	g := buildAny(v.Rep, base, v.Perm, func(x graph.Graph) { callAll(x, zo) })
	h := base.Relabel(v.Perm)
	if !presents(g, h) {
		if v.Rep == 'V' {
			// a view must reflect the current state of its base graph
			fail("view", "a view built over a graph that was edited afterwards does not present the edited graph (N, M, IsEdge, Neighbours, Degrees)")
		}
		// otherwise: the representation does not show the intended graph, which is not this
		// property's business (C05/C06); counted in the buckets
		skippedReps = append(skippedReps, string(v.Rep))
		return fields{}, false
	}
	defer func() {
		if !presents(g, h) {
			fail("argument", "the argument graph was modified by the calls")
		}
	}()
	if zmode >= 0 {
		if r := callAll(g, zo); len(r.unstable) > 0 {
			fail("twice", "two consecutive calls of %v returned different values", r.unstable)
		}
		disturb(g, h, zo, g6+":"+tag, viol)
	}
	f := fields{n: g.N(), m: g.M()}

	// distances, all ordered pairs, in base labels
	d := make([][]int, n)
	for i := range d {
		d[i] = make([]int, n)
		for j := range d[i] {
			d[i][j] = graph.Distance(g, inv[i], inv[j])
		}
	}
	f.dist = matrix(d)
	ecc := graph.Eccentricity(g)
	if len(ecc) != n {
		fail("Eccentricity", "length %d", len(ecc))
		ecc = make([]int, n)
	}
	be := make([]int, n)
	for i := range be {
		be[i] = ecc[inv[i]]
	}
	f.ec = gx.JoinInts(be, ".")
	f.di = graph.Diameter(g)
	f.ra = graph.Radius(g)
	f.gi = graph.Girth(g)

	// components
	comps := graph.ConnectedComponents(g)
	var bc [][]int
	for _, c := range comps {
		bc = append(bc, gx.MapBack(v.Perm, c))
	}
	gx.SortLists(bc)
	f.cc = lists(bc)
	cv := make([]int, n)
	for b := 0; b < n; b++ {
		got := gx.MapBack(v.Perm, graph.ConnectedComponent(g, inv[b]))
		cv[b] = -1
		for k, c := range bc {
			if gx.JoinInts(c, ".") == gx.JoinInts(got, ".") {
				for _, x := range got {
					if x == b {
						cv[b] = k
					}
				}
			}
		}
		var want []int
		for _, c := range ref.comps {
			for _, x := range c {
				if x == b {
					want = c
				}
			}
		}
		if gx.JoinInts(got, ".") != gx.JoinInts(want, ".") {
			fail("ConnectedComponent", "of base vertex %d: got %v want %v (base labels)", b, got, want)
		}
	}

	f.cv = gx.JoinInts(cv, ".")

	// blocks and articulation vertices
	blocks, arts := graph.BiconnectedComponents(g)
	var bb [][]int
	for _, b := range blocks {
		if !sort.IntsAreSorted(b) {
			fail("BiconnectedComponents", "block %v is not sorted", b)
		}
		bb = append(bb, gx.MapBack(v.Perm, b))
	}
	gx.SortLists(bb)
	f.bl = lists(bb)
	ba := gx.MapBack(v.Perm, arts)
	for i := 1; i < len(ba); i++ {
		if ba[i] == ba[i-1] {
			fail("BiconnectedComponents", "articulation vertex reported twice: %v", arts)
		}
	}
	f.ar = gx.JoinInts(ba, ".")

	// cycle structure
	if eg, ok := g.(graph.EditableGraph); ok && editableRep(v.Rep) && ref.cyclomatic <= maxCyclomatic {
		f.cy = gx.JoinInts(graph.NumberOfCycles(eg), ".")
		if eg.N() != n || eg.M() != ref.f.m {
			fail("NumberOfCycles", "the argument was modified")
		}
	}
	var icb, ipb []string
	for ml := -2; ml <= n+2; ml++ {
		ic := graph.NumberOfInducedCycles(g, ml)
		icb = append(icb, gx.JoinInts(ic, "."))
		if ml == -1 {
			f.ic = gx.JoinInts(ic, ".")
		}
		if want := bounded(ref.icyc, ml, n); gx.JoinInts(ic, ".") != gx.JoinInts(want, ".") {
			fail("NumberOfInducedCycles", "maxLength=%d: got %v want %v", ml, ic, want)
		}
		ip := graph.NumberOfInducedPaths(g, ml)
		ipb = append(ipb, gx.JoinInts(ip, "."))
		if ml == -1 {
			f.ip = gx.JoinInts(ip, ".")
		}
		if want := bounded(ref.ipaths, ml, n-1); gx.JoinInts(ip, ".") != gx.JoinInts(want, ".") {
			fail("NumberOfInducedPaths", "maxLength=%d: got %v want %v", ml, ip, want)
		}
	}
	f.icb, f.ipb = strings.Join(icb, "/"), strings.Join(ipb, "/")
	return f, true
}

func exec(line string) hx.Result {
	if strings.HasPrefix(line, "#") {
		return execBig(line)
	}
	if strings.HasPrefix(line, "!") {
		return execHuge(line)
	}
	c := gx.ParseCase(line)
	var viol []hx.OracleViolation
	skippedReps = nil
	ref := reference(c.Base)
	vars := append([]gx.Variant{{Rep: 'd', Perm: gx.Identity(c.Base.N)}}, c.Vars...)
	zsel := map[int]bool{}
	for _, t := range c.Toks {
		if strings.IndexByte(extraReps, t.Kind) >= 0 {
			vars = append(vars, gx.Variant{Rep: t.Kind, Perm: t.Ints})
		} else if t.Kind == 'Z' && len(t.Ints) == 1 {
			zsel[t.Ints[0]] = true
		}
	}
	var first fields
	extra := false
	for i, v := range vars {
		if len(v.Perm) != c.Base.N {
			continue
		}
		zmode := -1
		if zsel[i] {
			zmode = i
		}
		f, ok := observe(c.G6, c.Base, v, ref, zmode, &viol)
		if !ok {
			if i == 0 {
				return hx.Result{Obs: "skipped"}
			}
			continue
		}
		if f.cy == "" { // not editable or too many independent cycles: NumberOfCycles not called
			f.cy = ref.f.cy
		}
		if i == 0 {
			first = f
		} else {
			extra = true
		}
		if got, want := f.line(1), ref.f.line(1); got != want {
			viol = append(viol, hx.Fail(fmt.Sprintf("C10:values:%s:%c:%s", c.G6, v.Rep, gx.JoinInts(v.Perm, ".")),
				"values on %s variant %c:%s differ from the definitions: got [%s] want [%s]", c.G6, v.Rep, gx.JoinInts(v.Perm, "."), got, want))
		}
	}
	g := c.Base
	nblocks := strings.SplitN(ref.f.bl, ":", 2)[0]
	nontrivial := g.N >= 3 && extra && (ref.ncomps > 1 || nblocks != "1" || ref.f.gi > 0)
	b := []string{fmt.Sprintf("n=%d", g.N), fmt.Sprintf("components=%d", ref.ncomps), "blocks=" + nblocks, fmt.Sprintf("girth=%d", ref.f.gi),
		fmt.Sprintf("level=%d", c.Level), fmt.Sprintf("cyclomatic<=%d", gx.Bucket(ref.cyclomatic))}
	for _, r := range skippedReps {
		b = append(b, "guard-failed-rep="+r)
	}
	// strict part: Girth of the dense/identity variant, compared with the model of Girth at every level
	return hx.Result{Obs: first.line(c.Level) + fmt.Sprintf(" ## gi=%d", first.gi), Nontrivial: nontrivial, Buckets: b, Viol: viol}
}

func main() {
	hx.Main(hx.Prop{
		Rule:        "case = graph + extra (representation, relabelling) variants; all vertex pairs and all length bounds -2..n+2 inside; non-trivial = n >= 3 and the graph is disconnected or has >= 2 blocks or has a cycle, and at least one variant besides dense/identity is run; distinct by case text",
		Gen:         gen,
		Exec:        exec,
		CaseTimeout: 20 * time.Second,
		MemMB:       4096,
	})
}
