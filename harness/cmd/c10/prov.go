package main

// Provenance, call patterns, result aliasing and hidden state (hardening pass, see
// notes/C10.md "Hardening pass: dimensions").
//
//   - further representations of one abstract graph (buildAny), each guarded by presents();
//   - callAll: one round of calls of the eleven functions on one graph value, in an order and
//     with a repetition pattern chosen by the caller, raw results kept as returned;
//   - disturb: the results of a round are held while the same functions run on other graphs
//     (same size, smaller, larger: a later result would fit an earlier buffer), re-validated,
//     scribbled over, and the round is repeated: it must give the same values.

import (
	"fmt"
	"sort"
	"strings"

	"github.com/Tom-Johnston/mamba/graph"
	"github.com/Tom-Johnston/mamba/sortints"
	"verifharness/cmd/c09/gx"
	"verifharness/hx"
)

// extraReps: B NewDense from bytes > 1; C / S Copy of a dense / sparse graph whose original is
// then emptied; H / T dense / sparse graph reached by an edit history (vertices removed and
// added, edges toggled: stale capacity); G / P / M output of Graph6Decode / Sparse6Decode /
// MulticodeDecode; N nested views (view of a view, under a double complement); V view whose base
// graph is edited after the view has been built and used; U user-defined implementation of the
// Graph interface (Neighbours hands out its internal slice).
const extraReps = "BCSHTGPMNVU"

func isRep(k byte) bool { return strings.IndexByte(gx.Reps+extraReps, k) >= 0 }

func editableRep(k byte) bool { return gx.Editable(k) || strings.IndexByte("BCSHTGPM", k) >= 0 }

func denseOf(h *gx.G) *graph.DenseGraph { return graph.NewDense(h.N, h.EdgeArray()) }

func sparseOf(h *gx.G) *graph.SparseGraph {
	nb := make([]sortints.SortedInts, h.N)
	for v := range nb {
		nb[v] = append(sortints.SortedInts{}, h.Nbrs(v)...)
	}
	return graph.NewSparse(h.N, nb)
}

// userGraph is an implementation of graph.Graph outside the package.
type userGraph struct {
	nb  [][]int
	deg []int
	m   int
}

func newUser(h *gx.G) *userGraph {
	u := &userGraph{nb: make([][]int, h.N), deg: make([]int, h.N)}
	for v := 0; v < h.N; v++ {
		u.nb[v] = h.Nbrs(v)
		u.nb[v] = u.nb[v][:len(u.nb[v]):len(u.nb[v])]
		u.deg[v] = len(u.nb[v])
		u.m += len(u.nb[v])
	}
	u.m /= 2
	return u
}
func (u *userGraph) N() int { return len(u.nb) }
func (u *userGraph) M() int { return u.m }
func (u *userGraph) IsEdge(i, j int) bool {
	if i < 0 || j < 0 || i >= len(u.nb) || j >= len(u.nb) {
		return false
	}
	k := sort.SearchInts(u.nb[i], j)
	return k < len(u.nb[i]) && u.nb[i][k] == j
}
func (u *userGraph) Neighbours(v int) []int { return u.nb[v] }
func (u *userGraph) Degrees() []int         { return append([]int(nil), u.deg...) }

// toggleTo edits eg (on h.N vertices) until it has exactly the edges of h.
func toggleTo(eg graph.EditableGraph, h *gx.G) {
	for j := 1; j < h.N; j++ {
		for i := 0; i < j; i++ {
			if h.A[i][j] && !eg.IsEdge(i, j) {
				eg.AddEdge(i, j)
			} else if !h.A[i][j] && eg.IsEdge(i, j) {
				eg.RemoveEdge(i, j)
			}
		}
	}
}

// history builds h by an edit history on a graph that was larger and different before.
func history(start graph.EditableGraph, h *gx.G) graph.EditableGraph {
	// start has h.N+2 vertices: drop the first and the last, then the last again and add it back
	eg := start
	eg.RemoveVertex(0)
	eg.RemoveVertex(eg.N() - 1)
	if h.N >= 1 {
		eg.RemoveVertex(eg.N() - 1)
		eg.AddVertex(h.Nbrs(h.N - 1))
	}
	toggleTo(eg, h)
	return eg
}

// other gives a graph on k vertices that differs from (an extension of) h: every third pair flipped.
func other(h *gx.G, k int) *gx.G {
	o := gx.New(k)
	for j := 1; j < k; j++ {
		for i := 0; i < j; i++ {
			e := i < h.N && j < h.N && h.A[i][j]
			if (i+2*j)%3 == 0 {
				e = !e
			}
			if e {
				o.Add(i, j)
			}
		}
	}
	return o
}

// buildAny returns H = base.Relabel(perm) held in representation rep.  warm is called on a view
// before its base is edited (rep V).
func buildAny(rep byte, base *gx.G, perm []int, warm func(graph.Graph)) graph.Graph {
	if strings.IndexByte(gx.Reps, rep) >= 0 {
		return gx.Build(rep, base, perm)
	}
	h := base.Relabel(perm)
	switch rep {
	case 'B':
		e := h.EdgeArray()
		for k := range e {
			if e[k] != 0 {
				e[k] = byte(2 + (k*37)%254)
			}
		}
		return graph.NewDense(h.N, e)
	case 'C':
		d := denseOf(h)
		c := d.Copy()
		toggleTo(d, gx.New(h.N))
		return c
	case 'S':
		s := sparseOf(h)
		c := s.Copy()
		toggleTo(s, gx.New(h.N))
		return c
	case 'H':
		return history(denseOf(other(h, h.N+2)), h)
	case 'T':
		return history(sparseOf(other(h, h.N+2)), h)
	case 'G':
		g, err := graph.Graph6Decode(graph.Graph6Encode(denseOf(h)))
		if err != nil {
			return nil
		}
		return g
	case 'P':
		g, err := graph.Sparse6Decode(graph.Sparse6Encode(sparseOf(h)))
		if err != nil {
			return nil
		}
		return g
	case 'M':
		if h.N == 0 || h.N > 255 {
			return nil
		}
		return graph.MulticodeDecode(graph.MulticodeEncode(denseOf(h)))
	case 'N':
		// view (perm) of a view (shift by one into a graph with two more vertices), under a
		// double complement
		n := base.N
		big := gx.New(n + 2)
		for i := 0; i < n; i++ {
			for j := 0; j < n; j++ {
				big.A[i+1][j+1] = base.A[i][j]
			}
			big.Add(n+1, i+1)
		}
		inner := make([]int, n)
		for i := range inner {
			inner[i] = i + 1
		}
		return graph.Complement(graph.Complement(graph.InducedSubgraph(graph.InducedSubgraph(sparseOf(big), inner), append([]int(nil), perm...))))
	case 'V':
		b0 := denseOf(other(base, base.N))
		view := graph.InducedSubgraph(b0, append([]int(nil), perm...))
		if warm != nil {
			warm(view)
		}
		toggleTo(b0, base)
		return view
	case 'U':
		return newUser(h)
	}
	panic("unknown representation " + string(rep))
}

// presents: g shows exactly the abstract graph h through every method of the interface.
func presents(g graph.Graph, h *gx.G) bool {
	if g == nil || g.N() != h.N || g.M() != h.M() {
		return false
	}
	deg := g.Degrees()
	if len(deg) != h.N {
		return false
	}
	for v := 0; v < h.N; v++ {
		nb := g.Neighbours(v)
		want := h.Nbrs(v)
		if len(nb) != len(want) || deg[v] != len(want) {
			return false
		}
		for k := range nb {
			if nb[k] != want[k] {
				return false
			}
		}
		for w := 0; w < h.N; w++ {
			if g.IsEdge(v, w) != h.A[v][w] {
				return false
			}
		}
	}
	return true
}

// ---------------------------------------------------------------- one round of calls

type callOpts struct {
	pairs    [][2]int // Distance(i, j)
	cvs      []int    // ConnectedComponent(v)
	cy       bool     // NumberOfCycles (editable graphs only)
	icb, ipb int      // bounds of NumberOfInducedCycles / NumberOfInducedPaths, skip = not called
	order    int      // rotation of the order of the calls
	twice    bool     // every function is called twice in a row; both results must agree
}

const skip = -9

type raw struct {
	dist       []int
	ecc        []int
	di, ra, gi int
	comps      [][]int
	cv         [][]int
	blocks     [][]int
	arts       []int
	cy, ic, ip []int
	unstable   []string // functions whose two consecutive calls disagreed
}

func key2(l [][]int) string { return fmt.Sprintf("%d:%s", len(l), gx.Lists(l)) }

// key prints the raw results exactly as returned (no sorting, no relabelling).
func (r *raw) key() string {
	return fmt.Sprintf("D=%v ec=%v di=%d ra=%d gi=%d cc=%s cv=%s bl=%s ar=%v cy=%v ic=%v ip=%v",
		r.dist, r.ecc, r.di, r.ra, r.gi, key2(r.comps), key2(r.cv), key2(r.blocks), r.arts, r.cy, r.ic, r.ip)
}

// scribble overwrites every slice the functions returned.
func (r *raw) scribble() {
	fill := func(a []int) {
		for i := range a {
			a[i] = 0x7ffffff1 - i
		}
	}
	fill(r.ecc)
	for _, l := range [][][]int{r.comps, r.cv, r.blocks} {
		for _, a := range l {
			fill(a[:cap(a)])
		}
	}
	for _, a := range [][]int{r.arts, r.cy, r.ic, r.ip} {
		fill(a[:cap(a)])
	}
}

func callAll(g graph.Graph, o callOpts) *raw {
	r := &raw{}
	reps := 1
	if o.twice {
		reps = 2
	}
	same := func(name string, a, b interface{}) {
		if fmt.Sprint(a) != fmt.Sprint(b) {
			r.unstable = append(r.unstable, name)
		}
	}
	steps := []func(){
		func() {
			for k := 0; k < reps; k++ {
				d := make([]int, len(o.pairs))
				for i, p := range o.pairs {
					d[i] = graph.Distance(g, p[0], p[1])
				}
				if k == 1 {
					same("Distance", r.dist, d)
				}
				r.dist = d
			}
		},
		func() {
			for k := 0; k < reps; k++ {
				e := graph.Eccentricity(g)
				if k == 1 {
					same("Eccentricity", r.ecc, e)
				}
				r.ecc = e
			}
		},
		func() { r.di = graph.Diameter(g) },
		func() { r.ra = graph.Radius(g) },
		func() {
			for k := 0; k < reps; k++ {
				x := graph.Girth(g)
				if k == 1 {
					same("Girth", r.gi, x)
				}
				r.gi = x
			}
		},
		func() {
			for k := 0; k < reps; k++ {
				c := graph.ConnectedComponents(g)
				if k == 1 {
					same("ConnectedComponents", r.comps, c)
				}
				r.comps = c
			}
		},
		func() {
			r.cv = nil
			for _, v := range o.cvs {
				r.cv = append(r.cv, graph.ConnectedComponent(g, v))
			}
		},
		func() {
			for k := 0; k < reps; k++ {
				b, a := graph.BiconnectedComponents(g)
				if k == 1 {
					same("BiconnectedComponents", []interface{}{r.blocks, r.arts}, []interface{}{b, a})
				}
				r.blocks, r.arts = b, a
			}
		},
		func() {
			if eg, ok := g.(graph.EditableGraph); ok && o.cy {
				for k := 0; k < reps; k++ {
					c := graph.NumberOfCycles(eg)
					if k == 1 {
						same("NumberOfCycles", r.cy, c)
					}
					r.cy = c
				}
			}
		},
		func() {
			if o.icb != skip {
				for k := 0; k < reps; k++ {
					c := graph.NumberOfInducedCycles(g, o.icb)
					if k == 1 {
						same("NumberOfInducedCycles", r.ic, c)
					}
					r.ic = c
				}
			}
		},
		func() {
			if o.ipb != skip {
				for k := 0; k < reps; k++ {
					c := graph.NumberOfInducedPaths(g, o.ipb)
					if k == 1 {
						same("NumberOfInducedPaths", r.ip, c)
					}
					r.ip = c
				}
			}
		},
	}
	for k := range steps {
		steps[(k+o.order)%len(steps)]()
	}
	return r
}

// samplePairs / sampleCvs: the fixed sample of a graph on n vertices (the driver uses the same).
func samplePairs(n int) [][2]int {
	if n == 0 {
		return nil
	}
	uniq := func(a []int) []int {
		sort.Ints(a)
		var r []int
		for i, x := range a {
			if i == 0 || x != a[i-1] {
				r = append(r, x)
			}
		}
		return r
	}
	srcs := uniq([]int{0, n / 3, n - 1})
	step := n / 10
	if step < 1 {
		step = 1
	}
	tg := []int{n - 1}
	for t := 0; t < n; t += step {
		tg = append(tg, t)
	}
	tg = uniq(tg)
	var p [][2]int
	for _, s := range srcs {
		for _, t := range tg {
			p = append(p, [2]int{s, t})
		}
	}
	return p
}

func sampleCvs(n int) []int {
	if n == 0 {
		return nil
	}
	return []int{0, n / 2, n - 1}
}

// disturb: result aliasing and hidden state.  A round on g is held while rounds run on other
// graphs (sizes equal, down, up, down), every held round is re-validated after each later one,
// then everything returned is scribbled over and the round on g is repeated.
func disturb(g graph.Graph, h *gx.G, o callOpts, key string, viol *[]hx.OracleViolation) {
	fail := func(format string, a ...interface{}) {
		*viol = append(*viol, hx.Fail("C10:disturb:"+key, "%s: %s", key, fmt.Sprintf(format, a...)))
	}
	type held struct {
		name string
		r    *raw
		k    string
	}
	var hs []held
	hold := func(name string, x graph.Graph, oo callOpts) {
		r := callAll(x, oo)
		hs = append(hs, held{name, r, r.key()})
		for _, e := range hs {
			if e.r.key() != e.k {
				fail("the results of the calls on %s changed after the calls on %s (returned slices share storage): before [%s] now [%s]", e.name, name, e.k, e.r.key())
			}
		}
	}
	hold("the graph", g, o)
	n := h.N
	// other graphs: the same size (reversed labelling; the complement when small), one vertex
	// fewer, one more, two vertices, and the same size again
	others := []*gx.G{h.Relabel(rev(n))}
	if n <= 9 {
		others = append(others, h.Complement())
	}
	if n >= 2 {
		sub := make([]int, n-1)
		for i := range sub {
			sub[i] = i + 1
		}
		others = append(others, h.Relabel(sub))
	}
	bigger := gx.New(n + 1)
	for i := 0; i < n; i++ {
		for j := 0; j < n; j++ {
			bigger.A[i][j] = h.A[i][j]
		}
		if i%7 == 0 {
			bigger.Add(i, n)
		}
	}
	others = append(others, bigger, gx.Path(2), other(h, n))
	type rerun struct {
		name string
		x    graph.Graph
		oo   callOpts
		k    string
	}
	var second []rerun
	for k, x := range others {
		oo := o
		oo.pairs, oo.cvs = samplePairs(x.N), sampleCvs(x.N)
		// NumberOfCycles keeps every combination of fundamental cycles: only on graphs with few
		// independent cycles; the unbounded searches only on small graphs
		oo.cy = o.cy && x.M()-x.N+numComponents(x) <= 8
		if x.N > 9 || x.M() > 3*x.N {
			if oo.icb != skip {
				oo.icb = 3
			}
			if oo.ipb != skip {
				oo.ipb = 2
			}
		}
		var xg graph.Graph
		if k%2 == 0 {
			xg = denseOf(x)
		} else {
			xg = sparseOf(x)
		}
		name := fmt.Sprintf("another graph on %d vertices", x.N)
		hold(name, xg, oo)
		second = append(second, rerun{name, xg, oo, hs[len(hs)-1].k})
	}
	// the other graphs once more, in the opposite order: what a function returns for a graph
	// must not depend on which graphs it was called on before
	for i := len(second) - 1; i >= 0; i-- {
		e := second[i]
		if k := callAll(e.x, e.oo).key(); k != e.k {
			fail("the calls on %s give other values when they are repeated after calls on other graphs: first [%s] then [%s]", e.name, e.k, k)
		}
	}
	first := hs[0]
	for _, e := range hs {
		e.r.scribble()
	}
	again := callAll(g, o)
	if again.key() != first.k {
		fail("a second round of the same calls on the same graph, after calls on other graphs and after the caller overwrote the returned slices, differs: first [%s] second [%s]", first.k, again.key())
	}
}

func rev(n int) []int {
	p := make([]int, n)
	for i := range p {
		p[i] = n - 1 - i
	}
	return p
}

func numComponents(h *gx.G) int {
	seen := make([]bool, h.N)
	c := 0
	for s := 0; s < h.N; s++ {
		if seen[s] {
			continue
		}
		c++
		stack := []int{s}
		seen[s] = true
		for len(stack) > 0 {
			v := stack[len(stack)-1]
			stack = stack[:len(stack)-1]
			for w := 0; w < h.N; w++ {
				if h.A[v][w] && !seen[w] {
					seen[w] = true
					stack = append(stack, w)
				}
			}
		}
	}
	return c
}
