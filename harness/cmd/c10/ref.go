package main

// Brute-force reference implementations for C10, from the definitions, on the harness's own
// graph type.

import (
	"verifharness/cmd/c09/gx"
)

func adjMasks(g *gx.G) []uint32 {
	a := make([]uint32, g.N)
	for i := 0; i < g.N; i++ {
		for j := 0; j < g.N; j++ {
			if g.A[i][j] {
				a[i] |= 1 << uint(j)
			}
		}
	}
	return a
}

func bitsOf(s uint32) []int {
	var r []int
	for v := 0; s>>uint(v) != 0; v++ {
		if s>>uint(v)&1 == 1 {
			r = append(r, v)
		}
	}
	return r
}

func popcount(x uint32) int {
	c := 0
	for ; x != 0; x &= x - 1 {
		c++
	}
	return c
}

// refDistances: breadth-first layers from every vertex; -1 = unreachable.
func refDistances(g *gx.G) [][]int {
	d := make([][]int, g.N)
	for s := 0; s < g.N; s++ {
		d[s] = make([]int, g.N)
		for i := range d[s] {
			d[s][i] = -1
		}
		d[s][s] = 0
		layer := []int{s}
		for k := 1; len(layer) > 0; k++ {
			var next []int
			for _, u := range layer {
				for v := 0; v < g.N; v++ {
					if g.A[u][v] && d[s][v] < 0 {
						d[s][v] = k
						next = append(next, v)
					}
				}
			}
			layer = next
		}
	}
	return d
}

// componentsWithin: the connected components of the subgraph induced by the vertex set s.
func componentsWithin(a []uint32, s uint32) []uint32 {
	var out []uint32
	left := s
	for left != 0 {
		v := uint(0)
		for left>>v&1 == 0 {
			v++
		}
		comp := uint32(1) << v
		for {
			grow := comp
			for _, u := range bitsOf(comp) {
				grow |= a[u] & s
			}
			if grow == comp {
				break
			}
			comp = grow
		}
		out = append(out, comp)
		left &^= comp
	}
	return out
}

func refComponents(g *gx.G) [][]int {
	out := [][]int{}
	for _, c := range componentsWithin(adjMasks(g), uint32(1<<uint(g.N))-1) {
		out = append(out, bitsOf(c))
	}
	gx.SortLists(out)
	return out
}

// cutVerticesWithin: v in s is a cut vertex of G[s] when G[s]-v has more components than G[s].
func cutVerticesWithin(a []uint32, s uint32) []int {
	base := len(componentsWithin(a, s))
	var out []int
	for _, v := range bitsOf(s) {
		if len(componentsWithin(a, s&^(1<<uint(v)))) > base {
			out = append(out, v)
		}
	}
	return out
}

// refBlocks: the inclusion-maximal non-empty vertex sets S such that G[S] is connected and has
// no cut vertex (isolated vertices and bridges are blocks).
func refBlocks(g *gx.G) [][]int {
	a := adjMasks(g)
	var good []uint32
	for s := uint32(1); s < 1<<uint(g.N); s++ {
		if len(componentsWithin(a, s)) == 1 && len(cutVerticesWithin(a, s)) == 0 {
			good = append(good, s)
		}
	}
	out := [][]int{}
	for _, s := range good {
		maximal := true
		for _, t := range good {
			if t != s && t&s == s {
				maximal = false
				break
			}
		}
		if maximal {
			out = append(out, bitsOf(s))
		}
	}
	gx.SortLists(out)
	return out
}

func refArticulation(g *gx.G) []int {
	r := cutVerticesWithin(adjMasks(g), uint32(1<<uint(g.N))-1)
	if r == nil {
		r = []int{}
	}
	return r
}

// refCycles[L] = number of cycles with L edges (subgraphs that are cycles), by enumerating the
// simple paths that start at the least vertex of the cycle; every cycle is found twice.
func refCycles(g *gx.G) []int {
	cnt := make([]int, g.N+1)
	a := adjMasks(g)
	var rec func(s, v int, visited uint32, length int)
	rec = func(s, v int, visited uint32, length int) {
		if length >= 3 && a[v]>>uint(s)&1 == 1 {
			cnt[length]++
		}
		for _, u := range bitsOf(a[v] &^ visited) {
			if u > s {
				rec(s, u, visited|1<<uint(u), length+1)
			}
		}
	}
	for s := 0; s < g.N; s++ {
		rec(s, s, 1<<uint(s), 1)
	}
	for i := range cnt {
		cnt[i] /= 2
	}
	return cnt
}

// refInducedCycles[L] = number of vertex sets S of size L (>= 3) such that G[S] is a cycle
// (connected, all degrees 2); refInducedPaths[L] = number of vertex sets of size L+1 such that
// G[S] is a path (connected, L edges, maximum degree <= 2); index 0 of the paths is n.
func refInduced(g *gx.G) (cycles, paths []int) {
	a := adjMasks(g)
	cycles = make([]int, g.N+1)
	paths = make([]int, g.N)
	for s := uint32(1); s < 1<<uint(g.N); s++ {
		k := popcount(s)
		edges, maxd, mind := 0, 0, g.N
		for _, v := range bitsOf(s) {
			d := popcount(a[v] & s)
			edges += d
			if d > maxd {
				maxd = d
			}
			if d < mind {
				mind = d
			}
		}
		edges /= 2
		if len(componentsWithin(a, s)) != 1 {
			continue
		}
		if k >= 3 && mind == 2 && maxd == 2 {
			cycles[k]++
		}
		if edges == k-1 && maxd <= 2 {
			paths[k-1]++
		}
	}
	return
}

// refGirth: length of a shortest cycle, -1 if there is none: for every edge uv the shortest
// u-v path avoiding that edge closes a shortest cycle through uv.
func refGirth(g *gx.G) int {
	best := -1
	for _, e := range g.Edges() {
		h := g.Copy()
		h.A[e[0]][e[1]] = false
		h.A[e[1]][e[0]] = false
		d := refDistances(h)[e[0]][e[1]]
		if d > 0 && (best < 0 || d+1 < best) {
			best = d + 1
		}
	}
	return best
}
