// Command c14big: oracle-only stream of C14 with automata too large for the model driver
// (node, word and id counts across 65535); see package lib.
package main

import (
	"time"

	"verifharness/cmd/c14/lib"
	"verifharness/hx"
)

func main() {
	hx.Main(hx.Prop{
		Rule:        lib.Rule + "; this stream: large automata, implementation-side oracles only",
		Gen:         lib.GenBig,
		Exec:        lib.Exec,
		CaseTimeout: 240 * time.Second,
		MemMB:       4096,
	})
}
